(* Proofs for C18b: the heap / slice model of the client calls (Model/Heap.v)
   REFINES the value-level client model (Model/Client.v) completely - not only
   in what it transmits (HeapP.call_writes) but also in what it returns: the
   elements of the slice a call returns, read through the heap after the
   call, are the values client_call returns (decoded lists; for ReadBytes /
   ReadRawBytes the bytes after the in-place swap in the receive buffer and
   the cut of an odd quantity), with the same error otherwise, the same bytes
   left unread and the same transaction counter.

   Part C: the result values (receive buffer, validation, decoding).
   Part D: the whole call, and histories.
   Part E: the call that also leaves behind the buffers of skipped / rejected
           frames and the temporaries of the decoders (Model/HeapJunk.v).
   Part F: histories of such calls in which the caller's own code stores
           into arrays between the calls. *)
From Coq Require Import Arith Lia List.
From Modbus Require Import Base.Bytes Model.Crc Model.Encoding Model.Wire Model.Client Model.Heap
  Model.HeapJunk Spec.AliasSpec Spec.AliasValuesSpec Proofs.HeapP.
From Coq Require Import ZifyBool ZifyNat ZifyN.
Ltac Zify.zify_post_hook ::= Z.div_mod_to_equations.
Local Open Scope nat_scope.

(* ================================================ Part C: result values *)

(* -------------------------------------------------- slices of the head *)

Lemma hvp_slice_ok s lo hi h : lo <= hi -> hi <= hs_cap s ->
  h_slice s lo hi h = HpVal (mkhs (hs_arr s) (hs_off s + lo) (hi - lo) (hs_cap s - lo)) h.
Proof.
  intros H1 H2. unfold h_slice. apply Nat.leb_le in H1, H2. rewrite H1, H2. reflexivity.
Qed.

(* a slice expression inside the window of the head is a head again *)
Lemma hvp_hd_sub g s xs h lo hi : hp_hd g s xs h -> lo <= hi -> hi <= hs_len s ->
  hp_hd g (mkhs (hs_arr s) (hs_off s + lo) (hi - lo) (hs_cap s - lo))
        (firstn (hi - lo) (skipn lo xs)) h.
Proof.
  intros (Hg & Hgl & Hl & Hx & Hc) Hlo Hhi.
  split; [exact Hg|]. split; [exact Hgl|]. cbn [hs_len hs_cap hs_arr hs_off].
  split; [lia|]. split; [rewrite firstn_length, skipn_length; lia|].
  destruct Hc as [Hc|(H1 & H2 & pre & tail & He & Hp & Ht)]; [left; lia|right].
  split; [exact H1|]. split; [exact H2|].
  exists (pre ++ firstn lo xs), (skipn (hi - lo) (skipn lo xs) ++ tail).
  split; [|split].
  - rewrite He. rewrite <- app_assoc. f_equal.
    rewrite (app_assoc (firstn (hi - lo) (skipn lo xs))). rewrite firstn_skipn.
    rewrite app_assoc. rewrite firstn_skipn. reflexivity.
  - rewrite app_length, firstn_length. lia.
  - rewrite app_length, !skipn_length. lia.
Qed.

Lemma hvp_hd_nil_of g s xs h : hp_hd g s xs h -> hp_hd g hs_nil [] h.
Proof.
  intros (Hg & Hgl & _). split; [exact Hg|]. split; [exact Hgl|].
  cbn [hs_nil hs_len hs_cap length]. split; [lia|]. split; [reflexivity|]. left. reflexivity.
Qed.

Lemma hvp_tr_slice {B} g s xs lo hi (K : hslice -> hpM B) (Q : B -> hp_heap -> Prop) :
  lo <= hi -> hi <= length xs ->
  hp_tr (hp_hd g (mkhs (hs_arr s) (hs_off s + lo) (hi - lo) (hs_cap s - lo))
               (firstn (hi - lo) (skipn lo xs)))
        (K (mkhs (hs_arr s) (hs_off s + lo) (hi - lo) (hs_cap s - lo))) Q ->
  hp_tr (hp_hd g s xs) (hdo t <- h_slice s lo hi; K t) Q.
Proof.
  intros H1 H2 HK h Hh. pose proof (hd_len _ _ _ _ Hh) as Hl.
  assert (Hc : hs_len s <= hs_cap s) by apply Hh.
  unfold hp_bind. rewrite hvp_slice_ok by lia. apply HK. apply hvp_hd_sub; [exact Hh|lia|lia].
Qed.

(* out = append(out, x), element by element *)
Lemma hvp_tr_append_each gr g xs : forall s acc,
  hp_tr (hp_hd g s acc) (hp_append_each gr s xs) (fun s' => hp_hd g s' (acc ++ xs)).
Proof.
  induction xs as [|x t IH]; intros s acc; cbn [hp_append_each].
  - apply tr_ret. intros h Hh. rewrite app_nil_r. exact Hh.
  - eapply tr_bind; [apply tr_append_hd|]. intros s1.
    eapply tr_post; [apply IH|]. intros s2 h Hh. rewrite <- app_assoc in Hh. exact Hh.
Qed.

(* ------------------------------------------------- the receive buffer *)

Lemma hvp_hd_new_mid g pre xs tail off len c :
  off = length pre -> len = length xs -> len <= c -> c <= len + length tail ->
  hp_hd g (mkhs (length g) off len c) xs (g ++ [pre ++ xs ++ tail]).
Proof.
  intros -> -> Hc1 Hc2. repeat split; cbn [hs_len hs_cap hs_arr hs_off].
  - apply firstn_app_exact. reflexivity.
  - rewrite app_length. lia.
  - exact Hc1.
  - right. split; [lia|]. split; [rewrite app_length; cbn [length]; lia|].
    exists pre, tail. rewrite hp_arr_app_new. split; [reflexivity|]. split; [reflexivity|exact Hc2].
Qed.

Lemma hvp_store_new h a s p xs : hs_arr s = length h ->
  hp_store s p xs (h ++ [a]) = h ++ [arr_write a (hs_off s + p) xs].
Proof.
  intros Hs. unfold hp_store. rewrite Hs, hp_arr_app_new. unfold hp_upd.
  rewrite app_length. cbn [length].
  replace (length h <? length h + 1) with true by (symmetry; apply Nat.ltb_lt; lia).
  rewrite firstn_app_exact by reflexivity.
  rewrite skipn_all2 by (rewrite app_length; cbn [length]; lia). reflexivity.
Qed.

(* io.ReadFull of (the first n bytes of) A ++ B into a zeroed buffer Z *)
Lemma hvp_rx_array (Z A B : list N) n : length A <= n -> n <= length Z ->
  exists tail, arr_write Z 0 (firstn n (A ++ B)) = A ++ tail /\
               length A + length tail = length Z.
Proof.
  intros HA HZ. unfold arr_write. cbn [firstn app Nat.add].
  remember (length (firstn n (A ++ B))) as k eqn:Hk.
  rewrite firstn_length, app_length in Hk.
  rewrite firstn_app. rewrite (firstn_all2 A) by lia.
  exists (firstn (n - length A) B ++ skipn k Z). split.
  - rewrite <- app_assoc. reflexivity.
  - rewrite app_length, firstn_length, skipn_length. lia.
Qed.

(* the payload slice of the accepted frame: its window holds the payload *)
Lemma hvp_rx_buffer fr txn res h :
  (fr = FRtu -> length (p_payload res) <= 252) ->
  exists payload h' g, hp_rx_buffer fr txn res h = HpVal payload h' /\
                       hp_hd g payload (p_payload res) h'.
Proof.
  intros Hb. destruct fr; cbn [hp_rx_buffer].
  - unfold hp_bind at 1. unfold h_make at 1. rewrite Nat.ltb_irrefl.
    unfold hp_bind at 1. unfold h_copy at 1.
    set (h1 := hp_store _ _ _ _).
    unfold hp_bind at 1. unfold h_make at 1. rewrite Nat.ltb_irrefl.
    unfold hp_bind at 1. unfold h_copy at 1. cbn [hs_len].
    rewrite hvp_store_new by reflexivity. cbn [hs_off Nat.add].
    rewrite <- (app_nil_r (p_fc res :: p_payload res)).
    destruct (hvp_rx_array (repeat 0%N (S (length (p_payload res)))) (p_fc res :: p_payload res) []
                (S (length (p_payload res)))) as (tail & Ea & Hlen);
      [cbn [length]; lia|rewrite repeat_length; lia|].
    rewrite Ea. rewrite hvp_slice_ok by (cbn [hs_cap]; lia).
    eexists _, _, h1. split; [reflexivity|].
    cbn [hs_arr hs_off hs_cap]. rewrite repeat_length in Hlen. cbn [length] in Hlen.
    apply (hvp_hd_new_mid h1 [p_fc res] (p_payload res) tail); cbn [length]; lia.
  - unfold hp_bind at 1. unfold h_make at 1. rewrite Nat.ltb_irrefl.
    unfold hp_bind at 1. unfold h_copy at 1. cbn [hs_len].
    rewrite hvp_store_new by reflexivity. cbn [hs_off Nat.add].
    unfold assemble_rtu. cbn zeta.
    specialize (Hb eq_refl).
    destruct (hvp_rx_array (repeat 0%N 256) ([p_unit res; p_fc res] ++ p_payload res)
                (crc_bytes ([p_unit res; p_fc res] ++ p_payload res)) 256) as (tail & Ea & Hlen);
      [rewrite app_length; cbn [length]; lia|rewrite repeat_length; lia|].
    rewrite Ea. rewrite hvp_slice_ok by (cbn [hs_cap]; lia).
    eexists _, _, h. split; [reflexivity|].
    cbn [hs_arr hs_off hs_cap]. rewrite repeat_length, app_length in Hlen. cbn [length] in Hlen.
    rewrite <- app_assoc.
    apply (hvp_hd_new_mid h [p_unit res; p_fc res] (p_payload res) tail); cbn [length]; lia.
Qed.

(* ------------------------------------------------ validation outcomes *)

Lemma hvp_eop_not_ok req res v : exception_or_protocol req res = Ok v -> False.
Proof.
  unfold exception_or_protocol. destruct (p_fc res =? N.lor (p_fc req) 128)%N; [|discriminate].
  destruct (p_payload res) as [|c [|]]; discriminate.
Qed.

Lemma hvp_echo4_ok req res a b v : echo4 req res a b = Ok v -> v = VUnit.
Proof.
  unfold echo4. destruct (p_fc res =? p_fc req)%N.
  - destruct (list_eqb _ _); [|discriminate]. intros H. injection H as <-. reflexivity.
  - intros H. exfalso. eapply hvp_eop_not_ok. exact H.
Qed.

Lemma hvp_read_regs_ok req res q k v : validate_read_regs req res q k = Ok v ->
  exists bc data, p_payload res = bc :: data /\ k data = Ok v.
Proof.
  unfold validate_read_regs. destruct (p_fc res =? p_fc req)%N.
  - destruct (p_payload res) as [|bc data]; [discriminate|].
    destruct (negb _); [discriminate|]. destruct (negb _); [discriminate|].
    intros H. exists bc, data. split; [reflexivity|exact H].
  - intros H. exfalso. eapply hvp_eop_not_ok. exact H.
Qed.

Lemma hvp_swap_pairs_length l : length (swap_pairs l) = length l.
Proof.
  induction l as [|a|a b t IH] using list_ind2; cbn [swap_pairs length]; congruence.
Qed.

Lemma hvp_bool_b2n l : map hp_bool (map N.b2n l) = l.
Proof.
  induction l as [|b t IH]; [reflexivity|]. cbn [map]. rewrite IH. destruct b; reflexivity.
Qed.

Lemma hvp_odd_even n : Nat.odd n = false -> Nat.even n = true.
Proof. unfold Nat.odd. destruct (Nat.even n); [reflexivity|discriminate]. Qed.

(* ------------------------------------------------- building the result *)

Definition hvp_is (v : values) : result hp_value -> hp_heap -> Prop :=
  fun r h' => spec_result_values h' r = Ok v.

Lemma hvp_tr_nums gr g s xs (l : list N) :
  hp_tr (hp_hd g s xs) (hdo out <- hp_append_each gr hs_nil l; hp_ret (Ok (HvNums out)))
        (hvp_is (VNums l)).
Proof.
  eapply tr_pre; [intros h Hh; exact (hvp_hd_nil_of _ _ _ _ Hh)|].
  eapply tr_bind; [apply hvp_tr_append_each|]. intros out. cbn [app].
  apply tr_ret. intros h Hh. unfold hvp_is. cbn [spec_result_values].
  change (spec_contents h out) with (h_read out h). rewrite (hd_read _ _ _ _ Hh). reflexivity.
Qed.

Lemma hvp_tr_bools gr g s xs (l : list bool) :
  hp_tr (hp_hd g s xs) (hdo out <- hp_append_each gr hs_nil (map N.b2n l); hp_ret (Ok (HvBools out)))
        (hvp_is (VBools l)).
Proof.
  eapply tr_pre; [intros h Hh; exact (hvp_hd_nil_of _ _ _ _ Hh)|].
  eapply tr_bind; [apply hvp_tr_append_each|]. intros out. cbn [app].
  apply tr_ret. intros h Hh. unfold hvp_is. cbn [spec_result_values].
  change (spec_contents h out) with (h_read out h). rewrite (hd_read _ _ _ _ Hh).
  rewrite hvp_bool_b2n. reflexivity.
Qed.

(* readBytes after values = res.payload[1:]: the swap in place in the receive
   buffer, then the cut of the pad byte of an odd quantity *)
Lemma hvp_tr_bytes g values data (b : bool) q v :
  (if b && Nat.odd (length data) then Panic
   else let sw := if b then swap_pairs data else data in
        if (q mod 2 =? 1)%N
        then match sw with [] => Panic | _ => Ok (VBytes (firstn (length sw - 1) sw)) end
        else Ok (VBytes sw)) = Ok v ->
  hp_tr (hp_hd g values data)
        (hdo _ <- (if b then hp_swap_loop (hs_len values) values 0 else hp_ret tt);
         if (q mod 2 =? 1)%N then
           (if (hs_len values =? 0)%nat then hp_panic
            else hdo v' <- h_slice values 0 (hs_len values - 1); hp_ret (Ok (HvBytes v')))
         else hp_ret (Ok (HvBytes values)))
        (hvp_is v).
Proof.
  intros V. set (sw := if b then swap_pairs data else data) in *.
  assert (Hsw : length sw = length data).
  { subst sw. destruct b; [apply hvp_swap_pairs_length|reflexivity]. }
  eapply tr_bind with (Q := fun _ => hp_hd g values sw).
  { subst sw. destruct b; [|apply tr_ret; auto].
    cbn [andb] in V. destruct (Nat.odd (length data)) eqn:Eo; [discriminate V|].
    apply tr_peek. intros h0 Hh0. pose proof (hd_len _ _ _ _ Hh0) as Hl. rewrite <- Hl.
    apply (tr_swap_loop g values (length data) [] data); [apply hvp_odd_even; exact Eo|lia]. }
  intros _.
  assert (V' : (if (q mod 2 =? 1)%N
                then match sw with [] => Panic | _ => Ok (VBytes (firstn (length sw - 1) sw)) end
                else Ok (VBytes sw)) = Ok v).
  { destruct (b && Nat.odd (length data)); [discriminate V|exact V]. }
  clear V. apply tr_peek. intros h0 Hh0. pose proof (hd_len _ _ _ _ Hh0) as Hl.
  destruct (q mod 2 =? 1)%N.
  - destruct sw as [|x sw'] eqn:Es; [discriminate V'|]. injection V' as <-.
    replace (hs_len values =? 0) with false by (symmetry; apply Nat.eqb_neq; cbn [length] in Hl; lia).
    apply hvp_tr_slice; [lia|lia|].
    apply tr_ret. intros h Hh. unfold hvp_is. cbn [spec_result_values].
    match goal with |- context [spec_contents h ?s] => change (spec_contents h s) with (h_read s h) end.
    rewrite (hd_read _ _ _ _ Hh). cbn [skipn]. rewrite Nat.sub_0_r, <- Hl. reflexivity.
  - injection V' as <-. apply tr_ret. intros h Hh. unfold hvp_is. cbn [spec_result_values].
    change (spec_contents h values) with (h_read values h). rewrite (hd_read _ _ _ _ Hh). reflexivity.
Qed.

(* when the value-level validation accepts the reply with the values v, the
   slice built from the receive buffer holds exactly v *)
Lemma hvp_tr_build gr cfg o req res v g payload :
  client_validate cfg o req res = Ok v ->
  hp_tr (hp_hd g payload (p_payload res)) (hp_build_result gr cfg o payload) (hvp_is v).
Proof.
  intros V.
  assert (Hunit : v = VUnit -> hp_tr (hp_hd g payload (p_payload res)) (hp_ret (Ok HvUnit)) (hvp_is v)).
  { intros ->. apply tr_ret. intros; reflexivity. }
  destruct o as [di a q|w a q rt|raw a q rt|a b|a vs|a b|w a vs|raw a bs];
    cbn [hp_build_result client_validate] in *;
    try (apply Hunit; eapply hvp_echo4_ok; exact V); clear Hunit.
  - (* ReadCoils / ReadDiscreteInputs *)
    destruct (p_fc res =? p_fc req)%N; [|exfalso; eapply hvp_eop_not_ok; exact V].
    destruct (negb _); [discriminate V|].
    destruct (p_payload res) as [|bc data] eqn:Ep; [discriminate V|].
    destruct (negb _); [discriminate V|].
    unfold opt_result in V. destruct (decode_bools (N.to_nat q) data) as [l|] eqn:D; [|discriminate V].
    injection V as <-.
    apply tr_peek. intros h0 Hh0. pose proof (hd_len _ _ _ _ Hh0) as Hl. cbn [length] in Hl.
    apply hvp_tr_slice; [lia|cbn [length]; lia|].
    cbn [skipn]. rewrite <- Hl, Nat.sub_succ, Nat.sub_0_r, firstn_all.
    apply tr_load_hd. rewrite D. apply hvp_tr_bools.
  - (* the register reads *)
    apply hvp_read_regs_ok in V as (bc & data & Ep & V). rewrite Ep.
    apply tr_peek. intros h0 Hh0. pose proof (hd_len _ _ _ _ Hh0) as Hl. cbn [length] in Hl.
    apply hvp_tr_slice; [lia|cbn [length]; lia|].
    cbn [skipn]. rewrite <- Hl, Nat.sub_succ, Nat.sub_0_r, firstn_all.
    apply tr_load_hd. unfold opt_result in V.
    destruct (w =? 1)%N; [|destruct (w =? 2)%N];
      match type of V with match ?d with Some _ => _ | None => _ end = _ =>
        destruct d as [l|]; [|discriminate V] end;
      injection V as <-; apply hvp_tr_nums.
  - (* ReadBytes / ReadRawBytes *)
    apply hvp_read_regs_ok in V as (bc & data & Ep & V). rewrite Ep.
    apply tr_peek. intros h0 Hh0. pose proof (hd_len _ _ _ _ Hh0) as Hl. cbn [length] in Hl.
    apply hvp_tr_slice; [lia|cbn [length]; lia|].
    cbn [skipn]. rewrite <- Hl, Nat.sub_succ, Nat.sub_0_r, firstn_all.
    unfold hp_swaps. destruct raw, (c_endian cfg); cbn [negb andb] in V.
    + apply (hvp_tr_bytes g _ data false q v). exact V.
    + apply (hvp_tr_bytes g _ data false q v). exact V.
    + apply (hvp_tr_bytes g _ data false q v). exact V.
    + apply (hvp_tr_bytes g _ data true q v). exact V.
Qed.

(* -------------------------------------------- reception of the response *)

(* the outcome of a heap computation returning a result, as the caller sees
   it (a panic is caught by the public call) *)
Definition hvp_out (o : hp_out (result hp_value)) : result values :=
  match o with HpVal v h => spec_result_values h v | HpPanic _ => Panic end.

Lemma hvp_receive gr fr cfg txn vo req res h :
  (fr = FRtu -> length (p_payload res) <= 252) ->
  hvp_out (hp_receive gr fr cfg txn vo req res h) =
  match unit_check req res with
  | Some x => Err x
  | None => client_validate cfg vo req res
  end.
Proof.
  intros Hb. destruct (hvp_rx_buffer fr txn res h Hb) as (payload & h1 & g & E & Hhd).
  unfold hp_receive. unfold hp_bind at 1. rewrite E.
  destruct (unit_check req res); [reflexivity|].
  unfold hp_bind, hp_load. rewrite (hd_read _ _ _ _ Hhd).
  replace (mkpdu (p_unit res) (p_fc res) (p_payload res)) with res by (destruct res; reflexivity).
  destruct (client_validate cfg vo req res) as [v|x| |] eqn:V; try reflexivity.
  destruct (hvp_tr_build gr cfg vo req res v g payload V h1 Hhd) as (r & h2 & E2 & HQ).
  rewrite E2. exact HQ.
Qed.

(* the RTU transport never accepts more than fits its 256-byte buffer *)
Lemma hvp_read_rtu_len e s p s' : read_rtu e s = (Ok p, s') -> length (p_payload p) <= 252.
Proof.
  unfold read_rtu. destruct (read_full 3 s) as [hdr rest|got]; [|destruct got; discriminate].
  destruct hdr as [|u [|fc [|b2 [|x t]]]]; try discriminate.
  destruct (expected_len fc b2) as [n|]; [|discriminate].
  destruct (256 <? 3 + (n + 2))%N eqn:L; [discriminate|].
  destruct (read_full _ rest) as [body rest'|got]; [|destruct e, got; discriminate].
  destruct (skipn _ body) as [|lo [|hi [|]]]; try discriminate.
  destruct (crc_is_equal _ _ _); [|discriminate].
  intros H. injection H as <- <-. cbn [p_payload length]. rewrite firstn_length.
  apply N.ltb_ge in L. lia.
Qed.

Lemma hvp_rtu_response_len e s p s' : rtu_read_response e s = (Ok p, s') ->
  length (p_payload p) <= 252.
Proof.
  unfold rtu_read_response. destruct (read_rtu e s) as [r s0] eqn:R.
  destruct r as [p0|x| |]; [|destruct x|..]; intros H; try discriminate H.
  injection H as <- <-. eapply hvp_read_rtu_len. exact R.
Qed.

Definition hvp_txn (fr : framing) (txn : N) : N :=
  match fr with FMbap => u16 (txn + 1) | FRtu => txn end.

Lemma hvp_exchange_shape fr txn req e s :
  exists r rest,
    transport_exchange fr txn req e s = (r, [value_frame fr (hvp_txn fr txn) req], rest, hvp_txn fr txn) /\
    forall res, r = Ok res -> fr = FRtu -> length (p_payload res) <= 252.
Proof.
  destruct fr; cbn [transport_exchange value_frame hvp_txn].
  - destruct (mbap_read_response _ _ _ _) as [r rest]. exists r, rest.
    split; [reflexivity|]. intros res _ H. discriminate H.
  - destruct (rtu_read_response e s) as [r rest] eqn:E. exists r, rest.
    split; [reflexivity|]. intros res -> _. eapply hvp_rtu_response_len. exact E.
Qed.

(* ========================================== Part D: the whole call *)

(* the heap-level call, seen at the value level (results read through the
   heap it leaves), IS the value-level call on the content the argument slice
   has when the call is made *)
Lemma hvp_call_eq gr fr cfg txn o e s h r h' : hs_args_wf o h ->
  hp_call gr fr cfg txn o e s h = (r, h') ->
  spec_call_view h' r = client_call fr cfg txn (hp_value_op o h) e s.
Proof.
  intros Ho Hc. unfold hp_call, hp_call_gen in Hc. unfold client_call.
  destruct (tr_request gr cfg o h Ho h eq_refl) as (rq & h1 & E1 & Hr). rewrite E1 in Hc.
  destruct (client_request cfg (hp_value_op o h)) as [req|x| |]; cbn [hq_is] in Hr;
    try (subst rq; injection Hc as <- <-; reflexivity).
  destruct Hr as (q & g' & -> & Hu & Hf & Hhd).
  fold (hvp_txn fr txn) in Hc.
  destruct (tr_assemble gr fr (hvp_txn fr txn) h1 q (p_payload req) (hd_wf _ _ _ _ Hhd)
              (hd_read _ _ _ _ Hhd) h1 eq_refl) as (f & h2 & E2 & Hfr).
  assert (K2 : hp_keeps (length h1) h1 h2).
  { pose proof (fr_assemble (length h1) (length h1) gr fr (hvp_txn fr txn) q h1 (le_n _) (le_n _))
      as [K _]. rewrite E2 in K. exact K. }
  assert (Hpl : h_read (hq_payload q) h2 = p_payload req).
  { rewrite (keeps_read _ _ _ K2 (wf_in _ _ (hd_wf _ _ _ _ Hhd))). exact (hd_read _ _ _ _ Hhd). }
  rewrite E2 in Hc. rewrite Hpl, Hfr, Hu, Hf in Hc.
  replace (mkpdu (p_unit req) (p_fc req) (p_payload req)) with req in Hc by (destruct req; reflexivity).
  destruct (hvp_exchange_shape fr txn req e s) as (r0 & rest & Ex & Hlen).
  rewrite Ex in Hc |- *.
  destruct r0 as [res|x| |]; try (injection Hc as <- <-; reflexivity).
  pose proof (hvp_receive gr fr cfg (hvp_txn fr txn) (hp_value_op o h) req res h2
                (Hlen res eq_refl)) as R.
  destruct (hp_receive _ _ _ _ _ _ _ h2) as [v h3|h3]; cbn [hvp_out] in R;
    injection Hc as <- <-; unfold spec_call_view;
    cbn [hr_res hr_writes hr_rest hr_txn spec_result_values].
  - rewrite R. destruct (unit_check req res); reflexivity.
  - destruct (unit_check req res); rewrite <- R; reflexivity.
Qed.

Lemma hvp_call gr fr cfg txn o e s h : hs_args_wf o h ->
  spec_call_view (snd (hp_call gr fr cfg txn o e s h)) (fst (hp_call gr fr cfg txn o e s h)) =
  client_call fr cfg txn (hp_value_op o h) e s.
Proof. intros Ho. eapply hvp_call_eq; [exact Ho|apply surjective_pairing]. Qed.

(* the statements in the vocabulary of the Spec files *)
Lemma c18b_call gr fr cfg txn o e s h : args_are_caller_slices o h ->
  spec_call_view (snd (hp_call gr fr cfg txn o e s h)) (fst (hp_call gr fr cfg txn o e s h)) =
  client_call fr cfg txn (hp_value_op o h) e s.
Proof. intros Ho. apply hvp_call. apply args_caller_wf. exact Ho. Qed.

Lemma c18b_values gr fr cfg txn o e s h : args_are_caller_slices o h ->
  spec_result_values (snd (hp_call gr fr cfg txn o e s h))
                     (hr_res (fst (hp_call gr fr cfg txn o e s h))) =
  cr_res (client_call fr cfg txn (hp_value_op o h) e s).
Proof. intros Ho. rewrite <- (c18b_call gr fr cfg txn o e s h Ho). reflexivity. Qed.

(* reads take no slice: every heap, no hypothesis at all *)
Lemma c18b_read_values gr fr cfg txn ro e s h :
  spec_result_values (snd (hp_call gr fr cfg txn (HpOther ro) e s h))
                     (hr_res (fst (hp_call gr fr cfg txn (HpOther ro) e s h))) =
  cr_res (client_call fr cfg txn ro e s).
Proof. apply (c18b_values gr fr cfg txn (HpOther ro) e s h). exact I. Qed.

(* a result reads the same in every heap that keeps the arrays of the heap
   the call left *)
Lemma hvp_values_keeps b h h' r : hp_keeps (length h) h h' -> hv_in b (length h) r ->
  spec_result_values h' r = spec_result_values h r.
Proof.
  intros K Hin. unfold hv_in in Hin.
  destruct r as [[|t|t|t]|x| |]; cbn [spec_result_values hv_slices] in *; try reflexivity;
    inversion Hin as [|? ? Ht _]; subst;
    change (spec_contents h' t) with (h_read t h'); change (spec_contents h t) with (h_read t h);
    rewrite (keeps_read _ _ _ K (hs_in_weak _ _ _ Ht)); reflexivity.
Qed.

(* histories: the values a call returned, re-read after any number of later
   calls and caller allocations, are still the values of the value-level call *)
Lemma c18b_values_stable gr fr c cfg o e chunk evs :
  args_are_caller_slices o (hc_heap c) ->
  let c1 := hp_step gr fr c (HeCall cfg o e chunk) in
  let c2 := hp_run gr fr c1 evs in
  let v := client_call fr cfg (hc_txn c) (hp_value_op o (hc_heap c)) e (hc_left c ++ chunk) in
  spec_result_values (hc_heap c2)
    (hr_res (fst (hp_call gr fr cfg (hc_txn c) o e (hc_left c ++ chunk) (hc_heap c)))) = cr_res v /\
  hc_txn c1 = cr_txn v /\ hc_left c1 = cr_rest v.
Proof.
  intros Ho c1 c2 v.
  pose proof (c18b_call gr fr cfg (hc_txn c) o e (hc_left c ++ chunk) (hc_heap c) Ho) as E.
  pose proof (call_frame gr fr cfg (hc_txn c) o e (hc_left c ++ chunk) (hc_heap c)) as [_ Q].
  pose proof (run_frame gr fr evs c1) as K. fold c2 in K.
  subst c1 c2 v. cbn [hp_step] in *.
  destruct (hp_call gr fr cfg (hc_txn c) o e (hc_left c ++ chunk) (hc_heap c)) as [r h1].
  cbn [fst snd hc_heap hc_txn hc_left] in *. rewrite <- E. cbn [spec_call_view cr_res cr_txn cr_rest].
  split; [|split; reflexivity].
  eapply hvp_values_keeps; [exact K|exact Q].
Qed.

(* ============== Part E: left-over receive buffers and decoder temporaries *)

Lemma hjp_keeps_app b h j : b <= length h -> hp_keeps b h (h ++ j).
Proof. intros H. split; [apply firstn_app_le; exact H|rewrite app_length; lia]. Qed.

Lemma hjp_call_nil gr fr cfg txn o e s h :
  hj_call gr fr cfg txn o e s [] [] h = hp_call gr fr cfg txn o e s h.
Proof.
  unfold hj_call, hp_call, hp_call_gen.
  destruct (hp_request false gr cfg o h) as [[q|x| |] h1|h1]; try reflexivity.
  destruct (hp_assemble _ _ _ _ h1) as [f h2|h2]; try reflexivity.
  destruct (transport_exchange _ _ _ _ _) as [[[r w] rest] t'].
  rewrite !app_nil_r. destruct r as [res|x| |]; try reflexivity.
  destruct (hp_receive _ _ _ _ _ _ _ h2) as [v h3|h3]; rewrite app_nil_r; reflexivity.
Qed.

(* the frame: as call_frame, whatever the left-over arrays *)
Lemma hjp_call_frame gr fr cfg txn o e s j1 j2 h :
  hp_keeps (length h) h (snd (hj_call gr fr cfg txn o e s j1 j2 h)) /\
  hv_in (length h) (length (snd (hj_call gr fr cfg txn o e s j1 j2 h)))
        (hr_res (fst (hj_call gr fr cfg txn o e s j1 j2 h))).
Proof.
  unfold hj_call.
  destruct (fr_request (length h) (length h) gr cfg o h (le_n _) (le_n _)) as [K1 Q1].
  destruct (hp_request false gr cfg o h) as [[q|x| |] h1|h1] eqn:E1; cbn [hp_heap_of] in K1;
    cbn [fst snd hr_res]; try (split; [exact K1|apply hv_in_none; reflexivity]).
  specialize (Q1 _ _ eq_refl). cbn [hq_in] in Q1.
  fold (hvp_txn fr txn).
  assert (L1 : length h <= length h1) by (destruct K1; assumption).
  destruct (fr_assemble (length h) (length h1) gr fr (hvp_txn fr txn) q h1 L1 (le_n _)) as [K2 Q2].
  destruct (hp_assemble gr fr (hvp_txn fr txn) q h1) as [frame h2|h2] eqn:E2; cbn [hp_heap_of] in K2;
    cbn [fst snd hr_res].
  2: { split; [eapply keeps_trans; eassumption|apply hv_in_none; reflexivity]. }
  assert (K12 : hp_keeps (length h) h h2) by (eapply keeps_trans; eassumption).
  assert (L2 : length h <= length h2) by (destruct K12; assumption).
  assert (K13 : hp_keeps (length h) h (h2 ++ j1)).
  { eapply keeps_trans; [exact K12|]. apply hjp_keeps_app. exact L2. }
  assert (L3 : length h <= length (h2 ++ j1)) by (destruct K13; assumption).
  destruct (transport_exchange fr txn _ e s) as [[[r w] rest] t'].
  destruct r as [res|x| |]; cbn [fst snd hr_res];
    try (split; [exact K13|apply hv_in_none; reflexivity]).
  match goal with |- context [hp_receive ?g ?f ?c ?t ?vo ?rq ?rs (h2 ++ j1)] =>
    destruct (fr_receive (length h) (length (h2 ++ j1)) g f c t vo rq rs (h2 ++ j1) L3 (le_n _))
      as [K3 Q3];
    destruct (hp_receive g f c t vo rq rs (h2 ++ j1)) as [v h3|h3] eqn:E3 end;
    cbn [hp_heap_of] in K3; cbn [fst snd hr_res].
  - assert (K14 : hp_keeps (length h) h h3) by (eapply keeps_trans; eassumption).
    split.
    + eapply keeps_trans; [exact K14|]. apply hjp_keeps_app. destruct K14; assumption.
    + specialize (Q3 _ _ eq_refl). unfold hv_in in *. eapply Forall_impl; [|exact Q3].
      intros t Ht. eapply hs_in_mono; [exact Ht|rewrite app_length; lia].
  - assert (K14 : hp_keeps (length h) h h3) by (eapply keeps_trans; eassumption).
    split; [|apply hv_in_none; reflexivity].
    eapply keeps_trans; [exact K14|]. apply hjp_keeps_app. destruct K14; assumption.
Qed.

(* a result reads the same in every heap extending the one it was built in *)
Lemma hjp_values_app h j r b : hv_in b (length h) r ->
  spec_result_values (h ++ j) r = spec_result_values h r.
Proof.
  intros Hin. apply (hvp_values_keeps b h (h ++ j) r); [|exact Hin].
  apply hjp_keeps_app. lia.
Qed.

(* the values: as hvp_call_eq, whatever the left-over arrays *)
Lemma hjp_call_eq gr fr cfg txn o e s j1 j2 h r h' : hs_args_wf o h ->
  hj_call gr fr cfg txn o e s j1 j2 h = (r, h') ->
  spec_call_view h' r = client_call fr cfg txn (hp_value_op o h) e s.
Proof.
  intros Ho Hc. unfold hj_call in Hc. unfold client_call.
  destruct (tr_request gr cfg o h Ho h eq_refl) as (rq & h1 & E1 & Hr). rewrite E1 in Hc.
  destruct (client_request cfg (hp_value_op o h)) as [req|x| |]; cbn [hq_is] in Hr;
    try (subst rq; injection Hc as <- <-; reflexivity).
  destruct Hr as (q & g' & -> & Hu & Hf & Hhd).
  fold (hvp_txn fr txn) in Hc.
  destruct (tr_assemble gr fr (hvp_txn fr txn) h1 q (p_payload req) (hd_wf _ _ _ _ Hhd)
              (hd_read _ _ _ _ Hhd) h1 eq_refl) as (f & h2 & E2 & Hfr).
  assert (K2 : hp_keeps (length h1) h1 h2).
  { pose proof (fr_assemble (length h1) (length h1) gr fr (hvp_txn fr txn) q h1 (le_n _) (le_n _))
      as [K _]. rewrite E2 in K. exact K. }
  assert (Hpl : h_read (hq_payload q) h2 = p_payload req).
  { rewrite (keeps_read _ _ _ K2 (wf_in _ _ (hd_wf _ _ _ _ Hhd))). exact (hd_read _ _ _ _ Hhd). }
  rewrite E2 in Hc. rewrite Hpl, Hfr, Hu, Hf in Hc.
  replace (mkpdu (p_unit req) (p_fc req) (p_payload req)) with req in Hc by (destruct req; reflexivity).
  destruct (hvp_exchange_shape fr txn req e s) as (r0 & rest & Ex & Hlen).
  rewrite Ex in Hc |- *.
  destruct r0 as [res|x| |]; try (injection Hc as <- <-; reflexivity).
  pose proof (hvp_receive gr fr cfg (hvp_txn fr txn) (hp_value_op o h) req res (h2 ++ j1)
                (Hlen res eq_refl)) as R.
  pose proof (fr_receive 0 0 gr fr cfg (hvp_txn fr txn) (hp_value_op o h) req res (h2 ++ j1)
                (Nat.le_0_l _) (Nat.le_0_l _)) as [_ Q3].
  destruct (hp_receive _ _ _ _ _ _ _ (h2 ++ j1)) as [v h3|h3]; cbn [hvp_out] in R;
    injection Hc as <- <-; unfold spec_call_view;
    cbn [hr_res hr_writes hr_rest hr_txn spec_result_values].
  - rewrite (hjp_values_app h3 j2 v 0 (Q3 _ _ eq_refl)). rewrite R.
    destruct (unit_check req res); reflexivity.
  - destruct (unit_check req res); rewrite <- R; reflexivity.
Qed.

Lemma c18b_junk_call gr fr cfg txn o e s j1 j2 h : args_are_caller_slices o h ->
  spec_call_view (snd (hj_call gr fr cfg txn o e s j1 j2 h))
                 (fst (hj_call gr fr cfg txn o e s j1 j2 h)) =
  client_call fr cfg txn (hp_value_op o h) e s.
Proof.
  intros Ho. eapply hjp_call_eq; [apply args_caller_wf; exact Ho|apply surjective_pairing].
Qed.

Lemma c18b_junk_memory gr fr cfg txn o e s j1 j2 h :
  memory_untouched h (snd (hj_call gr fr cfg txn o e s j1 j2 h)).
Proof. apply keeps_memory. apply hjp_call_frame. Qed.

Lemma c18b_junk_fresh gr fr cfg txn o e s j1 j2 h :
  Forall (allocated_between h (snd (hj_call gr fr cfg txn o e s j1 j2 h)))
         (hv_slices (hr_res (fst (hj_call gr fr cfg txn o e s j1 j2 h)))).
Proof.
  pose proof (hjp_call_frame gr fr cfg txn o e s j1 j2 h) as [_ Q]. unfold hv_in in Q.
  eapply Forall_impl; [|exact Q]. intros t [_ Ht]. exact Ht.
Qed.

(* =========================== Part F: the caller stores between the calls *)

Lemma hxp_store_length id p xs h : length (hx_store id p xs h) = length h.
Proof.
  unfold hx_store. destruct (p + length xs <=? length (hp_arr h id)); [apply hp_upd_length|reflexivity].
Qed.

Lemma hxp_upd_firstn n h id a : id < n -> n <= length h ->
  firstn n (hp_upd h id a) = hp_upd (firstn n h) id a.
Proof.
  intros Hid Hn. unfold hp_upd. rewrite firstn_length.
  replace (id <? length h) with true by (symmetry; apply Nat.ltb_lt; lia).
  replace (id <? Nat.min n (length h)) with true by (symmetry; apply Nat.ltb_lt; lia).
  rewrite firstn_app, firstn_length. rewrite (firstn_all2 (firstn id h)) by (rewrite firstn_length; lia).
  rewrite firstn_firstn. replace (Nat.min id n) with id by lia.
  replace (n - Nat.min id (length h)) with (S (n - S id)) by lia. cbn [firstn].
  rewrite skipn_firstn_comm. reflexivity.
Qed.

(* a store commutes with the restriction of the heap to its first n arrays *)
Lemma hxp_store_firstn n id p xs h : n <= length h ->
  firstn n (hx_store id p xs h) = hx_store id p xs (firstn n h).
Proof.
  intros Hn. unfold hx_store. destruct (Nat.lt_ge_cases id n) as [Hid|Hid].
  - assert (Ea : hp_arr (firstn n h) id = hp_arr h id) by (apply nth_firstn_lt; exact Hid).
    rewrite Ea. destruct (p + length xs <=? length (hp_arr h id)); [|reflexivity].
    apply hxp_upd_firstn; assumption.
  - assert (Ea : hp_arr (firstn n h) id = []).
    { unfold hp_arr. apply nth_overflow. rewrite firstn_length. lia. }
    rewrite Ea. assert (Eu : forall a, hp_upd (firstn n h) id a = firstn n h).
    { intros a. unfold hp_upd. rewrite firstn_length.
      replace (id <? Nat.min n (length h)) with false by (symmetry; apply Nat.ltb_ge; lia).
      reflexivity. }
    rewrite Eu. destruct (p + length xs <=? length (hp_arr h id)).
    + rewrite hp_upd_firstn by exact Hid. destruct (_ <=? _); reflexivity.
    + destruct (_ <=? _); reflexivity.
Qed.

Lemma hxp_step_frame gr fr c ev : match ev with HxStore _ _ _ => False | _ => True end ->
  hp_keeps (length (hc_heap c)) (hc_heap c) (hc_heap (hx_step gr fr c ev)).
Proof.
  destruct ev as [id p xs|xs|cfg o e chunk j1 j2]; intros Hev; [destruct Hev| |]; cbn [hx_step].
  - cbn [hc_heap]. apply keeps_alloc. lia.
  - pose proof (hjp_call_frame gr fr cfg (hc_txn c) o e (hc_left c ++ chunk) j1 j2 (hc_heap c)) as [K _].
    destruct (hj_call gr fr cfg (hc_txn c) o e (hc_left c ++ chunk) j1 j2 (hc_heap c)) as [r h'].
    cbn [hc_heap snd] in *. exact K.
Qed.

(* whatever the library does in between (any calls, any replies, any left-over
   buffers), the arrays that existed at some point end up exactly as the
   caller's own stores alone leave them *)
Lemma hxp_run_prefix gr fr evs : forall c n, n <= length (hc_heap c) ->
  firstn n (hc_heap (hx_run gr fr c evs)) = hx_caller_only evs (firstn n (hc_heap c)) /\
  length (hc_heap c) <= length (hc_heap (hx_run gr fr c evs)).
Proof.
  unfold hx_run, hx_caller_only. induction evs as [|ev t IH]; intros c n Hn; cbn [fold_left].
  - split; [reflexivity|lia].
  - assert (Hlib : match ev with HxStore _ _ _ => False | _ => True end ->
             firstn n (hc_heap (fold_left (hx_step gr fr) t (hx_step gr fr c ev))) =
             fold_left (fun h' ev0 => match ev0 with
                                      | HxStore id p xs => hx_store id p xs h'
                                      | _ => h'
                                      end) t (firstn n (hc_heap c)) /\
             length (hc_heap c) <= length (hc_heap (fold_left (hx_step gr fr) t (hx_step gr fr c ev)))).
    { intros Hev. pose proof (hxp_step_frame gr fr c ev Hev) as K.
      pose proof (keeps_weaken _ n _ _ Hn K) as [K1 _]. destruct K as [_ K2].
      destruct (IH (hx_step gr fr c ev) n) as [E L]; [lia|]. split; [|lia].
      rewrite E, K1. reflexivity. }
    destruct ev as [id p xs|xs|cfg o e chunk j1 j2]; [|apply Hlib; exact I|apply Hlib; exact I].
    clear Hlib. cbn [hx_step].
    destruct (IH (mkhc (hx_store id p xs (hc_heap c)) (hc_txn c) (hc_left c) (hc_results c)) n)
      as [E L]; [cbn [hc_heap]; rewrite hxp_store_length; exact Hn|].
    cbn [hc_heap] in *. rewrite hxp_store_length in L. split; [|exact L].
    rewrite E. rewrite hxp_store_firstn by exact Hn. reflexivity.
Qed.

Lemma c18b_caller_only gr fr c evs :
  firstn (length (hc_heap c)) (hc_heap (hx_run gr fr c evs)) = hx_caller_only evs (hc_heap c).
Proof.
  destruct (hxp_run_prefix gr fr evs c (length (hc_heap c)) (le_n _)) as [E _].
  rewrite firstn_all in E. exact E.
Qed.

Lemma hxp_step_inv gr fr c ev : hc_inv c -> hc_inv (hx_step gr fr c ev).
Proof.
  intros Hc. unfold hc_inv in *.
  destruct ev as [id p xs|xs|cfg o e chunk j1 j2]; cbn [hx_step].
  - cbn [hc_heap hc_results]. rewrite hxp_store_length. exact Hc.
  - cbn [hc_heap hc_results]. eapply Forall_impl; [|exact Hc].
    intros s Hs. eapply hs_in_mono; [exact Hs|rewrite app_length; lia].
  - pose proof (hjp_call_frame gr fr cfg (hc_txn c) o e (hc_left c ++ chunk) j1 j2 (hc_heap c)) as [K Q].
    destruct (hj_call gr fr cfg (hc_txn c) o e (hc_left c ++ chunk) j1 j2 (hc_heap c)) as [r h'].
    cbn [hc_heap hc_results fst snd] in *. destruct K as [_ L]. apply Forall_app. split.
    + eapply Forall_impl; [|exact Q]. intros s Hs. eapply hs_in_weak. exact Hs.
    + eapply Forall_impl; [|exact Hc]. intros s Hs. eapply hs_in_mono; [exact Hs|exact L].
Qed.

Lemma hxp_run_inv gr fr evs : forall c, hc_inv c -> hc_inv (hx_run gr fr c evs).
Proof.
  unfold hx_run. induction evs as [|ev t IH]; intros c Hc; [exact Hc|].
  cbn [fold_left]. apply IH. apply hxp_step_inv. exact Hc.
Qed.

(* every slice returned so far - contents and spare capacity - reads, after
   any further history, as the caller's own stores of that history leave it:
   the calls of the history contribute nothing *)
Lemma c18b_results_stores gr fr h0 txn0 left0 evs1 evs2 r :
  let c1 := hx_run gr fr (mkhc h0 txn0 left0 []) evs1 in
  let c2 := hx_run gr fr c1 evs2 in
  In r (hc_results c1) ->
  spec_contents (hc_heap c2) r = spec_contents (hx_caller_only evs2 (hc_heap c1)) r /\
  spec_room (hc_heap c2) r = spec_room (hx_caller_only evs2 (hc_heap c1)) r.
Proof.
  intros c1 c2 Hr.
  assert (Hinv : hc_inv c1) by (apply hxp_run_inv; constructor).
  unfold hc_inv in Hinv. rewrite Forall_forall in Hinv. destruct (Hinv r Hr) as [Hl [Hc|[_ Ha]]].
  - unfold spec_contents, spec_room, spec_cells. rewrite Hc.
    replace (hs_len r) with 0 by lia. split; reflexivity.
  - pose proof (c18b_caller_only gr fr c1 evs2) as E. fold c2 in E.
    unfold spec_contents, spec_room, spec_cells.
    rewrite <- E. rewrite (nth_firstn_lt _ _ _ _ Ha). split; reflexivity.
Qed.

(* the values a call of such a history returned: right after the call they
   are the values of the value-level call; after any further history they are
   what the caller's own stores made of them *)
Lemma hxp_values_prefix b n h r : hv_in b n r -> n <= length h ->
  spec_result_values h r = spec_result_values (firstn n h) r.
Proof.
  intros Hin Hn. unfold hv_in in Hin.
  destruct r as [[|t|t|t]|x| |]; cbn [spec_result_values hv_slices] in *; try reflexivity;
    inversion Hin as [|? ? Ht _]; subst; unfold spec_contents, spec_cells;
    destruct Ht as [Hl [Hc|[_ Ha]]];
    try (replace (hs_len t) with 0 by lia; reflexivity);
    rewrite (nth_firstn_lt _ _ _ _ Ha); reflexivity.
Qed.

Lemma c18b_history_values gr fr c cfg o e chunk j1 j2 evs :
  args_are_caller_slices o (hc_heap c) ->
  let c1 := hx_step gr fr c (HxCall cfg o e chunk j1 j2) in
  let c2 := hx_run gr fr c1 evs in
  let res := hr_res (fst (hj_call gr fr cfg (hc_txn c) o e (hc_left c ++ chunk) j1 j2 (hc_heap c))) in
  let v := client_call fr cfg (hc_txn c) (hp_value_op o (hc_heap c)) e (hc_left c ++ chunk) in
  spec_result_values (hc_heap c1) res = cr_res v /\
  hc_txn c1 = cr_txn v /\ hc_left c1 = cr_rest v /\
  spec_result_values (hc_heap c2) res = spec_result_values (hx_caller_only evs (hc_heap c1)) res.
Proof.
  intros Ho c1 c2 res v.
  pose proof (c18b_junk_call gr fr cfg (hc_txn c) o e (hc_left c ++ chunk) j1 j2 (hc_heap c) Ho) as E.
  pose proof (hjp_call_frame gr fr cfg (hc_txn c) o e (hc_left c ++ chunk) j1 j2 (hc_heap c)) as [_ Q].
  pose proof (hxp_run_prefix gr fr evs c1 (length (hc_heap c1)) (le_n _)) as [P L]. fold c2 in P, L.
  rewrite firstn_all in P.
  subst c1 c2 res v. cbn [hx_step] in *.
  destruct (hj_call gr fr cfg (hc_txn c) o e (hc_left c ++ chunk) j1 j2 (hc_heap c)) as [r h1].
  cbn [fst snd hc_heap hc_txn hc_left] in *. rewrite <- E. cbn [spec_call_view cr_res cr_txn cr_rest].
  split; [reflexivity|]. split; [reflexivity|]. split; [reflexivity|].
  rewrite <- P. eapply hxp_values_prefix; [exact Q|exact L].
Qed.

(* the histories of C18 are the histories without stores and left-overs *)
Lemma c18b_no_stores gr fr evs : forall c,
  hx_run gr fr c (map hx_of_event evs) = hp_run gr fr c evs /\
  hx_caller_only (map hx_of_event evs) (hc_heap c) = hc_heap c.
Proof.
  unfold hx_run, hp_run, hx_caller_only.
  induction evs as [|ev t IH]; intros c; cbn [map fold_left]; [split; reflexivity|].
  assert (Es : hx_step gr fr c (hx_of_event ev) = hp_step gr fr c ev).
  { destruct ev as [xs|cfg o e chunk]; cbn [hx_of_event hx_step hp_step]; [reflexivity|].
    rewrite hjp_call_nil. reflexivity. }
  rewrite Es. destruct (IH (hp_step gr fr c ev)) as [E1 _]. split; [exact E1|].
  assert (Eh : match hx_of_event ev with HxStore id p xs => hx_store id p xs (hc_heap c) | _ => hc_heap c end
               = hc_heap c) by (destruct ev; reflexivity).
  rewrite Eh. destruct (IH c) as [_ E2]. exact E2.
Qed.

(* ================== Part G: what C02 proves of the values holds of the slices *)
From Modbus Require Import Spec.ModbusSpec Spec.ClientSpec Proofs.ClientRespP.

(* C02 soundness, read off the returned slice: a heap-level call succeeds
   only on a well-formed reply to its very request, and the elements of the
   slice it returns are the requested values decoded from that reply *)
Lemma c18b_sound gr fr cfg txn o e s h vs :
  args_are_caller_slices o h ->
  op_wf (hp_value_op o h) -> cfg_wf cfg -> (txn < 65536)%N -> bytesb s = true ->
  spec_result_values (snd (hp_call gr fr cfg txn o e s h))
                     (hr_res (fst (hp_call gr fr cfg txn o e s h))) = Ok vs ->
  valid_op (hp_value_op o h) = true /\
  exists res pre post,
    answers cfg (hp_value_op o h) res vs /\
    s = pre ++ spec_frame fr (u16 (txn + 1)) res ++ post /\
    hr_rest (fst (hp_call gr fr cfg txn o e s h)) = post /\
    match fr with
    | FMbap => exists frames, pre = concat frames /\ Forall (skippable (u16 (txn + 1))) frames
    | FRtu => pre = []
    end.
Proof.
  intros Ho Hwf Hcfg Ht Hb H.
  pose proof (c18b_call gr fr cfg txn o e s h Ho) as E.
  rewrite (c18b_values gr fr cfg txn o e s h Ho) in H.
  replace (hr_rest (fst (hp_call gr fr cfg txn o e s h)))
    with (cr_rest (client_call fr cfg txn (hp_value_op o h) e s)) by (rewrite <- E; reflexivity).
  apply client_sound; assumption.
Qed.

(* C02 no-panic, at the level of memory: no reply stream drives a call into
   an out-of-range index or slice expression *)
Lemma c18b_no_panic gr fr cfg txn o e s h :
  args_are_caller_slices o h -> op_wf (hp_value_op o h) ->
  hr_res (fst (hp_call gr fr cfg txn o e s h)) <> Panic /\
  hr_res (fst (hp_call gr fr cfg txn o e s h)) <> OutOfFuel.
Proof.
  intros Ho Hwf. pose proof (c18b_values gr fr cfg txn o e s h Ho) as E.
  destruct (client_no_panic fr cfg txn (hp_value_op o h) e s Hwf) as [Np Nf].
  split; intros Hr; rewrite Hr in E; cbn [spec_result_values] in E; congruence.
Qed.
