(* Proofs for C18 across the life cycle of the client handle
   (Model/HeapLife.v): the frame rule of Proofs/HeapP.v carried over to
   histories with Close() and Open() among the request calls. *)
From Coq Require Import Arith Lia List.
From Modbus Require Import Base.Bytes Model.Crc Model.Encoding Model.Wire Model.Client Model.Heap
  Model.HeapLife Spec.AliasSpec Proofs.HeapP.
From Coq Require Import ZifyBool ZifyNat ZifyN.
Ltac Zify.zify_post_hook ::= Z.div_mod_to_equations.
Local Open Scope nat_scope.

(* a request call on a closed handle: only the request builders ran *)
Lemma closed_call_frame gr cfg txn o left h :
  hp_keeps (length h) h (snd (hl_call_closed gr cfg txn o left h)) /\
  hv_slices (hr_res (fst (hl_call_closed gr cfg txn o left h))) = [] /\
  hr_writes (fst (hl_call_closed gr cfg txn o left h)) = [] /\
  hr_rest (fst (hl_call_closed gr cfg txn o left h)) = left /\
  hr_txn (fst (hl_call_closed gr cfg txn o left h)) = txn.
Proof.
  unfold hl_call_closed.
  destruct (fr_request (length h) (length h) gr cfg o h (le_n _) (le_n _)) as [K1 _].
  destruct (hp_request false gr cfg o h) as [[q|x| |] h1|h1]; cbn [hp_heap_of] in K1;
    cbn [fst snd hr_res hr_writes hr_rest hr_txn hv_slices]; (split; [exact K1|repeat split]).
Qed.

Lemma closed_call_not_ok gr cfg txn o left h v :
  hr_res (fst (hl_call_closed gr cfg txn o left h)) <> Ok v.
Proof.
  unfold hl_call_closed.
  destruct (hp_request false gr cfg o h) as [[q|x| |] h1|h1]; cbn [fst hr_res]; discriminate.
Qed.

(* every event keeps every array that existed *)
Lemma life_step_frame gr fr c ev :
  hp_keeps (length (hl_heap c)) (hl_heap c) (hl_heap (fst (hl_step gr fr c ev))).
Proof.
  destruct ev as [xs|cfg o e chunk| |]; cbn [hl_step].
  - cbn [fst hl_heap]. apply keeps_alloc. lia.
  - destruct (hl_closed c).
    + pose proof (closed_call_frame gr cfg (hl_txn c) o (hl_left c) (hl_heap c)) as [K _].
      destruct (hl_call_closed gr cfg (hl_txn c) o (hl_left c) (hl_heap c)) as [r h'].
      cbn [fst snd hl_heap] in *. exact K.
    + pose proof (call_frame gr fr cfg (hl_txn c) o (hl_end_after (hl_end c) e)
                    (hl_left c ++ chunk) (hl_heap c)) as [K _].
      destruct (hp_call gr fr cfg (hl_txn c) o (hl_end_after (hl_end c) e)
                  (hl_left c ++ chunk) (hl_heap c)) as [r h'].
      cbn [fst snd hl_heap] in *. exact K.
  - cbn [fst hl_heap]. apply keeps_refl.
  - cbn [fst hl_heap]. apply keeps_refl.
Qed.

Definition hl_inv (c : hl_client) : Prop :=
  Forall (hs_in 0 (length (hl_heap c))) (hl_results c).

Lemma life_step_inv gr fr c ev : hl_inv c -> hl_inv (fst (hl_step gr fr c ev)).
Proof.
  intros Hc. pose proof (life_step_frame gr fr c ev) as [_ L]. unfold hl_inv in *.
  assert (Hold : forall n, length (hl_heap c) <= n -> Forall (hs_in 0 n) (hl_results c)).
  { intros n Hn. eapply Forall_impl; [|exact Hc]. intros s Hs. eapply hs_in_mono; eassumption. }
  destruct ev as [xs|cfg o e chunk| |]; cbn [hl_step] in *.
  - cbn [fst hl_heap hl_results] in *. apply Hold. exact L.
  - destruct (hl_closed c).
    + destruct (hl_call_closed gr cfg (hl_txn c) o (hl_left c) (hl_heap c)) as [r h'].
      cbn [fst hl_heap hl_results] in *. apply Hold. exact L.
    + pose proof (call_frame gr fr cfg (hl_txn c) o (hl_end_after (hl_end c) e)
                    (hl_left c ++ chunk) (hl_heap c)) as [_ Q].
      destruct (hp_call gr fr cfg (hl_txn c) o (hl_end_after (hl_end c) e)
                  (hl_left c ++ chunk) (hl_heap c)) as [r h'].
      cbn [fst snd hl_heap hl_results] in *. apply Forall_app. split.
      * eapply Forall_impl; [|exact Q]. intros s Hs. eapply hs_in_weak. exact Hs.
      * apply Hold. exact L.
  - cbn [fst hl_heap hl_results] in *. exact Hc.
  - cbn [fst hl_heap hl_results] in *. exact Hc.
Qed.

Lemma life_run_inv gr fr evs : forall c, hl_inv c -> hl_inv (hl_run gr fr c evs).
Proof.
  induction evs as [|ev t IH]; intros c Hc; [exact Hc|].
  cbn [hl_run fold_left]. apply IH. apply life_step_inv. exact Hc.
Qed.

Lemma life_run_frame gr fr evs : forall c,
  hp_keeps (length (hl_heap c)) (hl_heap c) (hl_heap (hl_run gr fr c evs)).
Proof.
  induction evs as [|ev t IH]; intros c; [apply keeps_refl|].
  cbn [hl_run fold_left]. pose proof (life_step_frame gr fr c ev) as K1.
  eapply keeps_trans; [exact K1|]. eapply keeps_weaken; [|apply IH]. apply K1.
Qed.

(* ------------------------------------------------ the statements of C18c *)

Lemma c18c_memory gr fr c ev :
  memory_untouched (hl_heap c) (hl_heap (fst (hl_step gr fr c ev))).
Proof. apply keeps_memory. apply life_step_frame. Qed.

Lemma c18c_memory_run gr fr c evs :
  memory_untouched (hl_heap c) (hl_heap (hl_run gr fr c evs)).
Proof. apply keeps_memory. apply life_run_frame. Qed.

Lemma c18c_close_heap gr fr c : hl_heap (fst (hl_step gr fr c HlClose)) = hl_heap c.
Proof. reflexivity. Qed.

Lemma c18c_open_heap gr fr c : hl_heap (fst (hl_step gr fr c HlOpen)) = hl_heap c.
Proof. reflexivity. Qed.

Lemma c18c_caller_slice gr fr c evs t : caller_slice (hl_heap c) t ->
  slice_untouched (hl_heap c) (hl_heap (hl_run gr fr c evs)) t.
Proof.
  intros Ht. apply caller_slice_wf, wf_in in Ht.
  pose proof (life_run_frame gr fr evs c) as K.
  unfold slice_untouched, spec_contents, spec_room, spec_cells.
  split; apply (keeps_cells _ _ _ _ K Ht); [apply Ht|lia].
Qed.

Lemma c18c_stable gr fr h0 evs1 evs2 r :
  let c1 := hl_run gr fr (hl_init h0) evs1 in
  let c2 := hl_run gr fr c1 evs2 in
  In r (hl_results c1) ->
  slice_untouched (hl_heap c1) (hl_heap c2) r.
Proof.
  intros c1 c2 Hr.
  assert (Hinv : hl_inv c1) by (apply life_run_inv; constructor).
  unfold slice_untouched, spec_contents, spec_room, spec_cells.
  unfold hl_inv in Hinv. rewrite Forall_forall in Hinv. pose proof (Hinv r Hr) as Hin.
  split; apply (keeps_cells _ _ _ _ (life_run_frame gr fr evs2 c1) Hin); [apply Hin|lia].
Qed.

(* a request call on a closed handle returns no slice, transmits nothing,
   reads nothing and leaves the counter alone *)
Lemma c18c_closed_call gr fr c cfg o e chunk : hl_closed c = true ->
  exists r, snd (hl_step gr fr c (HlCall cfg o e chunk)) = Some r /\
    (forall v, hr_res r <> Ok v) /\ hr_writes r = [] /\
    hl_results (fst (hl_step gr fr c (HlCall cfg o e chunk))) = hl_results c /\
    hl_txn (fst (hl_step gr fr c (HlCall cfg o e chunk))) = hl_txn c.
Proof.
  intros Hc. cbn [hl_step]. rewrite Hc.
  pose proof (closed_call_frame gr cfg (hl_txn c) o (hl_left c) (hl_heap c)) as (_ & _ & W & _ & _).
  pose proof (closed_call_not_ok gr cfg (hl_txn c) o (hl_left c) (hl_heap c)) as N.
  destruct (hl_call_closed gr cfg (hl_txn c) o (hl_left c) (hl_heap c)) as [r h'].
  cbn [fst snd hl_results hl_txn] in *. exists r. repeat split; try assumption.
Qed.

(* a request call on an open handle whose peer still keeps the connection is
   the call of Model/Heap.v *)
Lemma c18c_open_call gr fr c cfg o e chunk : hl_closed c = false -> hl_end c = Stall ->
  let r := hp_call gr fr cfg (hl_txn c) o e (hl_left c ++ chunk) (hl_heap c) in
  snd (hl_step gr fr c (HlCall cfg o e chunk)) = Some (fst r) /\
  hl_heap (fst (hl_step gr fr c (HlCall cfg o e chunk))) = snd r /\
  hl_results (fst (hl_step gr fr c (HlCall cfg o e chunk))) = hv_slices (hr_res (fst r)) ++ hl_results c.
Proof.
  intros Hc He. cbn [hl_step]. rewrite Hc, He. cbn [hl_end_after].
  destruct (hp_call gr fr cfg (hl_txn c) o e (hl_left c ++ chunk) (hl_heap c)) as [r h'].
  cbn [fst snd hl_heap hl_results]. repeat split.
Qed.

(* without Close / Open the histories are those of Model/Heap.v, as long as
   the peer keeps the connection *)
Lemma c18c_no_life_step gr fr c ev : hl_closed c = false -> hl_end c = Stall ->
  let c' := fst (hl_step gr fr c (hl_of_event ev)) in
  let d' := hp_step gr fr (mkhc (hl_heap c) (hl_txn c) (hl_left c) (hl_results c)) ev in
  hl_heap c' = hc_heap d' /\ hl_txn c' = hc_txn d' /\ hl_left c' = hc_left d' /\
  hl_results c' = hc_results d' /\ hl_closed c' = false.
Proof.
  intros Hc He. destruct ev as [xs|cfg o e chunk]; cbn [hl_of_event hl_step hp_step].
  - cbn [fst hl_heap hl_txn hl_left hl_results hl_closed hc_heap hc_txn hc_left hc_results].
    repeat split. exact Hc.
  - rewrite Hc, He. cbn [hl_end_after hc_heap hc_txn hc_left hc_results].
    destruct (hp_call gr fr cfg (hl_txn c) o e (hl_left c ++ chunk) (hl_heap c)) as [r h'].
    cbn [fst hl_heap hl_txn hl_left hl_results hl_closed hc_heap hc_txn hc_left hc_results].
    repeat split.
Qed.
