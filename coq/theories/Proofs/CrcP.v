(* Proofs about Model/Crc.v: table = bit-serial CRC-16/MODBUS, chunking,
   GF(2) linearity, residue form, detection of low-weight errors. *)
From Modbus Require Import Base.Bytes Base.Enum Model.Crc Spec.ModbusSpec.
From Coq Require Import ZifyBool ZifyNat ZifyN.
Ltac Zify.zify_post_hook ::= Z.div_mod_to_equations.

(* ---------------------------------------------------------- bit lemmas *)

Lemma lxor_lt_pow2 a b n : a < 2 ^ n -> b < 2 ^ n -> N.lxor a b < 2 ^ n.
Proof.
  intros Ha Hb. destruct (N.eq_dec (N.lxor a b) 0) as [E|E].
  - rewrite E. apply N.neq_0_lt_0. apply N.pow_nonzero. lia.
  - apply N.log2_lt_pow2; [lia|].
    eapply N.le_lt_trans; [apply N.log2_lxor|].
    destruct (N.eq_dec a 0) as [Ea|Ea]; destruct (N.eq_dec b 0) as [Eb|Eb]; subst;
      try (rewrite N.lxor_0_l in *); try (rewrite N.lxor_0_r in *); try congruence.
    + rewrite N.max_r by (cbn; lia). apply N.log2_lt_pow2; lia.
    + rewrite N.max_l by (cbn; lia). apply N.log2_lt_pow2; lia.
    + apply N.max_lub_lt; apply N.log2_lt_pow2; lia.
Qed.

Lemma lxor_word a b : a < 65536 -> b < 65536 -> N.lxor a b < 65536.
Proof. apply (lxor_lt_pow2 a b 16). Qed.

Lemma lxor_byte a b : a < 256 -> b < 256 -> N.lxor a b < 256.
Proof. apply (lxor_lt_pow2 a b 8). Qed.

Lemma land_lxor_distr_r a b c :
  N.land (N.lxor a b) c = N.lxor (N.land a c) (N.land b c).
Proof.
  apply N.bits_inj. intros i.
  rewrite N.land_spec, !N.lxor_spec, !N.land_spec.
  destruct (N.testbit a i), (N.testbit b i), (N.testbit c i); reflexivity.
Qed.

Lemma land_255_byte b : b < 256 -> N.land b 255 = b.
Proof.
  intros Hb. change 255 with (N.ones 8). rewrite N.land_ones.
  change (2 ^ 8) with 256. apply N.mod_small. exact Hb.
Qed.

Lemma shiftr8_byte b : b < 256 -> N.shiftr b 8 = 0.
Proof. intros Hb. rewrite N.shiftr_div_pow2. change (2 ^ 8) with 256. apply N.div_small. exact Hb. Qed.

Lemma shiftr8_word s : s < 65536 -> N.shiftr s 8 < 256.
Proof. intros Hs. rewrite N.shiftr_div_pow2. change (2 ^ 8) with 256. lia. Qed.

Lemma land_255_lt s : N.land s 255 < 256.
Proof. change 255 with (N.ones 8). rewrite N.land_ones. change (2 ^ 8) with 256. lia. Qed.

(* ---------------------------------------------------------- finite sweeps *)

(* one step written as a function of x = state xor byte *)
Definition fstep (x : N) : N := N.lxor (N.shiftr x 8) (tbl (N.land x 255)).

Lemma crc_step_fstep s b : b < 256 -> crc_step s b = fstep (N.lxor s b).
Proof.
  intros Hb. unfold crc_step, fstep.
  rewrite N.shiftr_lxor, (shiftr8_byte b Hb), N.lxor_0_r.
  rewrite land_lxor_distr_r, (land_255_byte b Hb), (N.lxor_comm (N.land s 255) b). reflexivity.
Qed.

Definition chk_table (i : N) : bool := tbl i =? bit8 i.
Lemma table_is_bitserial_fin : forallb chk_table bytes_all = true.
Proof. vm_cast_no_check (eq_refl true). Qed.

Definition chk_fstep (x : N) : bool := andb (fstep x =? bit8 x) (fstep x <? 65536).
Lemma fstep_fin : forallb chk_fstep words_all = true.
Proof. vm_cast_no_check (eq_refl true). Qed.

Lemma fstep_spec x : x < 65536 -> fstep x = bit8 x /\ fstep x < 65536.
Proof.
  intros Hx. pose proof (forall_words chk_fstep fstep_fin x Hx) as H.
  unfold chk_fstep in H. apply andb_true_iff in H as [H1 H2].
  apply N.eqb_eq in H1. apply N.ltb_lt in H2. split; assumption.
Qed.

Lemma tbl_is_bitserial i : i < 256 -> tbl i = bit8 i.
Proof.
  intros Hi. pose proof (forall_bytes chk_table table_is_bitserial_fin i Hi) as H.
  apply N.eqb_eq in H. exact H.
Qed.

(* ---------------------------------------------------------- T1: table = bit-serial *)

Lemma crc_step_ref s b : s < 65536 -> b < 256 ->
  crc_step s b = step_ref s b /\ crc_step s b < 65536.
Proof.
  intros Hs Hb. rewrite crc_step_fstep by exact Hb. unfold step_ref.
  apply fstep_spec. apply lxor_word; lia.
Qed.

Lemma crc_from_ref l : forall s, s < 65536 -> bytesb l = true ->
  crc_from s l = fold_left step_ref l s /\ crc_from s l < 65536.
Proof.
  induction l as [|b t IH]; intros s Hs Hl.
  - cbn. split; [reflexivity|exact Hs].
  - unfold bytesb in Hl. cbn [forallb] in Hl. apply andb_true_iff in Hl as [Hb Ht].
    unfold is_byte in Hb. apply N.ltb_lt in Hb.
    destruct (crc_step_ref s b Hs Hb) as [E B].
    unfold crc_from in *. cbn [fold_left]. rewrite <- E. apply IH; assumption.
Qed.

Lemma crc16_is_ref l : bytesb l = true -> crc16 l = crc_ref l.
Proof. intros Hl. apply (crc_from_ref l crc_init); [reflexivity|exact Hl]. Qed.

Lemma crc16_word l : bytesb l = true -> crc16 l < 65536.
Proof. intros Hl. apply (crc_from_ref l crc_init); [reflexivity|exact Hl]. Qed.

(* ---------------------------------------------------------- T2: chunking *)

Lemma crc_from_app s a b : crc_from s (a ++ b) = crc_from (crc_from s a) b.
Proof. unfold crc_from. apply fold_left_app. Qed.

Lemma crc_from_concat s chunks :
  crc_from s (concat chunks) = fold_left crc_from chunks s.
Proof.
  revert s; induction chunks as [|c cs IH]; intros s; [reflexivity|].
  cbn [concat fold_left]. rewrite crc_from_app. apply IH.
Qed.

(* ---------------------------------------------------------- T4: linearity *)

Definition chk_tbl_lin (p : N) : bool :=
  let a := p / 256 in let b := p mod 256 in
  tbl (N.lxor a b) =? N.lxor (tbl a) (tbl b).
Lemma tbl_lin_fin : forallb chk_tbl_lin words_all = true.
Proof. vm_cast_no_check (eq_refl true). Qed.

Lemma tbl_lin a b : a < 256 -> b < 256 -> tbl (N.lxor a b) = N.lxor (tbl a) (tbl b).
Proof.
  intros Ha Hb. pose proof (forall_words chk_tbl_lin tbl_lin_fin (a * 256 + b) ltac:(lia)) as H.
  unfold chk_tbl_lin in H. apply N.eqb_eq in H.
  replace ((a * 256 + b) / 256) with a in H by lia.
  replace ((a * 256 + b) mod 256) with b in H by lia. exact H.
Qed.

Lemma lxor_swap4 a b c d :
  N.lxor (N.lxor a b) (N.lxor c d) = N.lxor (N.lxor a c) (N.lxor b d).
Proof.
  apply N.bits_inj. intros i. rewrite !N.lxor_spec.
  destruct (N.testbit a i), (N.testbit b i), (N.testbit c i), (N.testbit d i); reflexivity.
Qed.

Lemma crc_step_lin s s' b b' : b < 256 -> b' < 256 ->
  crc_step (N.lxor s s') (N.lxor b b') = N.lxor (crc_step s b) (crc_step s' b').
Proof.
  intros Hb Hb'. unfold crc_step.
  rewrite N.shiftr_lxor, land_lxor_distr_r.
  rewrite (lxor_swap4 b b'), tbl_lin.
  - apply lxor_swap4.
  - apply lxor_byte; [exact Hb|apply land_255_lt].
  - apply lxor_byte; [exact Hb'|apply land_255_lt].
Qed.

Definition xor_bytes (a b : list N) : list N := map (fun p => N.lxor (fst p) (snd p)) (combine a b).

Lemma crc_from_lin m : forall e s s', length m = length e ->
  bytesb m = true -> bytesb e = true ->
  crc_from (N.lxor s s') (xor_bytes m e) = N.lxor (crc_from s m) (crc_from s' e).
Proof.
  induction m as [|x m IH]; intros [|y e] s s' Hl Hm He; try discriminate.
  - reflexivity.
  - unfold bytesb in *. cbn [forallb] in *.
    apply andb_true_iff in Hm as [Hx Hm]. apply andb_true_iff in He as [Hy He].
    unfold is_byte in *. apply N.ltb_lt in Hx. apply N.ltb_lt in Hy.
    unfold xor_bytes, crc_from in *. cbn [combine map fold_left fst snd].
    rewrite crc_step_lin by assumption. apply IH; [cbn in Hl; lia|assumption|assumption].
Qed.

Lemma crc_from_xor s m e : length m = length e -> bytesb m = true -> bytesb e = true ->
  crc_from s (xor_bytes m e) = N.lxor (crc_from s m) (crc_from 0 e).
Proof. intros. rewrite <- (N.lxor_0_r s) at 1. apply crc_from_lin; assumption. Qed.

(* ---------------------------------------------------------- residue form *)

Lemma tbl_0 : tbl 0 = 0. Proof. reflexivity. Qed.

Lemma crc_residue s : s < 65536 -> crc_from s (crc_value s) = 0.
Proof.
  intros Hs. unfold crc_value, le16, crc_from. cbn [fold_left].
  rewrite !crc_step_fstep by lia.
  assert (E1 : fstep (N.lxor s (s mod 256)) = s / 256).
  { unfold fstep. rewrite land_lxor_distr_r.
    change 255 with (N.ones 8). rewrite !N.land_ones. change (2 ^ 8) with 256.
    rewrite N.mod_mod by lia. rewrite N.lxor_nilpotent, tbl_0, N.lxor_0_r.
    rewrite N.shiftr_lxor, !N.shiftr_div_pow2. change (2 ^ 8) with 256.
    rewrite (N.div_small (s mod 256)) by lia. apply N.lxor_0_r. }
  rewrite E1. rewrite (N.mod_small (s / 256)) by lia. rewrite N.lxor_nilpotent.
  reflexivity.
Qed.

Definition chk_two_zero (p : N) : bool :=
  orb (p =? 0) (negb (crc_from 0 [p mod 256; p / 256] =? 0)).
Lemma two_zero_fin : forallb chk_two_zero words_all = true.
Proof. vm_cast_no_check (eq_refl true). Qed.

Lemma crc_from_0_two d1 d2 : d1 < 256 -> d2 < 256 ->
  crc_from 0 [d1; d2] = 0 -> d1 = 0 /\ d2 = 0.
Proof.
  intros H1 H2 E.
  pose proof (forall_words chk_two_zero two_zero_fin (d2 * 256 + d1) ltac:(lia)) as H.
  unfold chk_two_zero in H.
  replace ((d2 * 256 + d1) mod 256) with d1 in H by lia.
  replace ((d2 * 256 + d1) / 256) with d2 in H by lia.
  rewrite E in H. cbn [N.eqb negb] in H. rewrite orb_false_r in H.
  apply N.eqb_eq in H. lia.
Qed.

Lemma lxor_eq_0 a b : N.lxor a b = 0 -> a = b.
Proof. apply N.lxor_eq. Qed.

(* a two-byte trailer makes the residue vanish iff it is the CRC of what precedes *)
Lemma residue_zero_iff s lo hi : s < 65536 -> lo < 256 -> hi < 256 ->
  crc_from s [lo; hi] = 0 <-> [lo; hi] = crc_value s.
Proof.
  intros Hs Hlo Hhi. split.
  - intros E.
    pose proof (crc_from_xor s (crc_value s) [N.lxor lo (s mod 256); N.lxor hi ((s / 256) mod 256)]) as L.
    unfold crc_value, le16 in *.
    assert (X : xor_bytes [s mod 256; (s / 256) mod 256]
                  [N.lxor lo (s mod 256); N.lxor hi ((s / 256) mod 256)] = [lo; hi]).
    { unfold xor_bytes. cbn [combine map fst snd].
      rewrite !(N.lxor_comm _ (N.lxor _ _)), !N.lxor_assoc, !N.lxor_nilpotent, !N.lxor_0_r.
      reflexivity. }
    rewrite X in L. rewrite E in L.
    pose proof (crc_residue s Hs) as R. unfold crc_value, le16 in R. rewrite R in L.
    rewrite N.lxor_0_l in L.
    assert (B1 : N.lxor lo (s mod 256) < 256) by (apply lxor_byte; lia).
    assert (B2 : N.lxor hi ((s / 256) mod 256) < 256) by (apply lxor_byte; lia).
    specialize (L eq_refl).
    assert (Hb1 : bytesb [s mod 256; (s / 256) mod 256] = true)
      by (unfold bytesb, is_byte; cbn [forallb]; lia).
    assert (Hb2 : bytesb [N.lxor lo (s mod 256); N.lxor hi ((s / 256) mod 256)] = true)
      by (unfold bytesb, is_byte; cbn [forallb]; lia).
    specialize (L Hb1 Hb2). symmetry in L.
    destruct (crc_from_0_two _ _ B1 B2 L) as [Z1 Z2].
    apply lxor_eq_0 in Z1. apply lxor_eq_0 in Z2. congruence.
  - intros E. rewrite E. apply crc_residue. exact Hs.
Qed.

Lemma crc_is_equal_iff s lo hi : s < 65536 -> lo < 256 -> hi < 256 ->
  crc_is_equal s lo hi = true <-> [lo; hi] = crc_value s.
Proof.
  intros Hs Hlo Hhi. unfold crc_is_equal, crc_value, le16. rewrite N.eqb_eq. split.
  - intros E. subst s. f_equal; [|f_equal]; lia.
  - intros E. injection E as -> ->. lia.
Qed.

(* ---------------------------------------------------------- T5: detection *)

Definition zeros (n : nat) : list N := repeat 0 n.

Lemma crc_from_zeros_0 n : crc_from 0 (zeros n) = 0.
Proof. induction n as [|n IH]; [reflexivity|]. unfold crc_from in *. cbn [zeros repeat fold_left]. exact IH. Qed.

Definition chk_zero_step (s : N) : bool :=
  orb (s =? 0) (andb (negb (crc_step s 0 =? 0)) (crc_step s 0 <? 65536)).
Lemma zero_step_fin : forallb chk_zero_step words_all = true.
Proof. vm_cast_no_check (eq_refl true). Qed.

Lemma zero_step_nonzero s : s < 65536 -> s <> 0 -> crc_step s 0 <> 0 /\ crc_step s 0 < 65536.
Proof.
  intros Hs Hn. pose proof (forall_words chk_zero_step zero_step_fin s Hs) as H.
  unfold chk_zero_step in H. apply orb_true_iff in H as [H|H].
  - apply N.eqb_eq in H. congruence.
  - apply andb_true_iff in H as [H1 H2]. apply negb_true_iff, N.eqb_neq in H1.
    apply N.ltb_lt in H2. split; assumption.
Qed.

Lemma zeros_keep_nonzero n : forall s, s < 65536 -> s <> 0 ->
  crc_from s (zeros n) <> 0 /\ crc_from s (zeros n) < 65536.
Proof.
  induction n as [|n IH]; intros s Hs Hn; [cbn; split; assumption|].
  unfold crc_from in *. cbn [zeros repeat fold_left].
  destruct (zero_step_nonzero s Hs Hn) as [H1 H2]. apply IH; assumption.
Qed.

(* bursts: a window of 1..3 bytes whose little-endian value is P * 2^o with
   0 < P < 2^16, o < 8 (i.e. first and last flipped bit less than 16 apart in
   transmission order, least significant bit first) *)
Fixpoint le_val (l : list N) : N :=
  match l with [] => 0 | b :: t => b + 256 * le_val t end.
Fixpoint le_digits (n : nat) (v : N) : list N :=
  match n with O => [] | S n' => v mod 256 :: le_digits n' (v / 256) end.

Lemma le_digits_val l : bytesb l = true -> le_digits (length l) (le_val l) = l.
Proof.
  induction l as [|b t IH]; intros Hl; [reflexivity|].
  unfold bytesb in *. cbn [forallb] in Hl. apply andb_true_iff in Hl as [Hb Ht].
  unfold is_byte in Hb. apply N.ltb_lt in Hb.
  cbn [length le_val le_digits]. f_equal.
  - lia.
  - replace ((b + 256 * le_val t) / 256) with (le_val t) by lia. apply IH. exact Ht.
Qed.

Definition burst_ok (M : N) : bool :=
  let s1 := crc_step 0 (N.land M 255) in
  let s2 := crc_step s1 (N.land (N.shiftr M 8) 255) in
  let s3 := crc_step s2 (N.shiftr M 16) in
  andb (orb (negb (M <? 256)) (negb (s1 =? 0)))
  (andb (orb (negb (M <? 65536)) (andb (negb (s2 =? 0)) (s2 <? 65536)))
        (andb (negb (s3 =? 0)) (s3 <? 65536))).

Definition chk_burst (op : N) : bool :=
  let o := N.shiftr op 16 in let P := N.land op 65535 in
  orb (P =? 0) (burst_ok (N.shiftl P o)).
Lemma burst_fin : forallb chk_burst (bitsN 19) = true.
Proof. vm_cast_no_check (eq_refl true). Qed.

Definition burst_window (mid : list N) : Prop :=
  bytesb mid = true /\ (1 <= length mid <= 3)%nat /\
  exists o P, o < 8 /\ 0 < P < 65536 /\ le_val mid = P * 2 ^ o.

Lemma le_val_bound l : bytesb l = true -> le_val l < 256 ^ N.of_nat (length l).
Proof.
  induction l as [|b t IH]; intros Hl; [cbn; lia|].
  unfold bytesb in *. cbn [forallb] in Hl. apply andb_true_iff in Hl as [Hb Ht].
  unfold is_byte in Hb. apply N.ltb_lt in Hb. specialize (IH Ht).
  cbn [length le_val]. rewrite Nat2N.inj_succ, N.pow_succ_r'.
  remember (256 ^ N.of_nat (length t)) as p. clear - Hb IH. lia.
Qed.

Lemma land_255_mod M : N.land M 255 = M mod 256.
Proof. change 255 with (N.ones 8). rewrite N.land_ones. reflexivity. Qed.

Lemma burst_nonzero mid : burst_window mid ->
  crc_from 0 mid <> 0 /\ crc_from 0 mid < 65536.
Proof.
  intros (Hb & Hlen & o & P & Ho & HP & HM).
  pose proof (forall_below_pow2 chk_burst 19 burst_fin (o * 65536 + P)) as H.
  assert (Hlt : o * 65536 + P < 2 ^ N.of_nat 19) by (change (2 ^ N.of_nat 19) with 524288; lia).
  specialize (H Hlt). unfold chk_burst in H.
  rewrite N.shiftr_div_pow2 in H. change 65535 with (N.ones 16) in H.
  rewrite N.land_ones, N.shiftl_mul_pow2 in H. change (2 ^ 16) with 65536 in H.
  replace ((o * 65536 + P) / 65536) with o in H by lia.
  replace ((o * 65536 + P) mod 65536) with P in H by lia.
  rewrite <- HM in H. pose proof (le_val_bound mid Hb) as Hbound.
  pose proof (le_digits_val mid Hb) as Hd.
  apply orb_true_iff in H as [H|H]; [apply N.eqb_eq in H; lia|].
  unfold burst_ok in H. rewrite !land_255_mod, !N.shiftr_div_pow2 in H.
  change (2 ^ 8) with 256 in H. change (2 ^ 16) with 65536 in H.
  apply andb_true_iff in H as [H1 H]. apply andb_true_iff in H as [H2 H].
  apply andb_true_iff in H as [H3 H4].
  remember (le_val mid) as M eqn:HMdef. clear HMdef HM.
  destruct mid as [|m0 [|m1 [|m2 [|m3 t]]]]; cbn [length] in *; try lia.
  - change (256 ^ N.of_nat 1) with 256 in Hbound.
    cbn [le_digits] in Hd. injection Hd as Hd0. rewrite Hd0 in H1.
    apply orb_true_iff in H1 as [H1|H1].
    + apply negb_true_iff, N.ltb_ge in H1. lia.
    + apply negb_true_iff, N.eqb_neq in H1. unfold crc_from. cbn [fold_left].
      split; [exact H1|]. unfold bytesb, is_byte in Hb. cbn [forallb] in Hb.
      apply (crc_step_ref 0 m0); lia.
  - change (256 ^ N.of_nat 2) with 65536 in Hbound.
    cbn [le_digits] in Hd. injection Hd as Hd0 Hd1. rewrite Hd0, Hd1 in H2.
    apply orb_true_iff in H2 as [H2|H2].
    + apply negb_true_iff, N.ltb_ge in H2. lia.
    + apply andb_true_iff in H2 as [H2 H2']. apply negb_true_iff, N.eqb_neq in H2.
      apply N.ltb_lt in H2'. unfold crc_from. cbn [fold_left]. split; assumption.
  - change (256 ^ N.of_nat 3) with 16777216 in Hbound.
    cbn [le_digits] in Hd. injection Hd as Hd0 Hd1 Hd2.
    assert (E : M / 65536 = m2) by (clear - Hbound Hd2; lia).
    rewrite Hd0, Hd1, E in H3, H4.
    apply negb_true_iff, N.eqb_neq in H3. apply N.ltb_lt in H4.
    unfold crc_from. cbn [fold_left]. split; assumption.
Qed.

(* two flipped bits in different bytes, at most 254 bytes apart *)
Fixpoint zero_orbit (k : nat) (s : N) : list N :=
  match k with O => [] | S k' => s :: zero_orbit k' (crc_step s 0) end.

Definition chk_two_bits (ab : N) : bool :=
  let a := ab / 8 in let b := ab mod 8 in
  forallb (fun s => andb (negb (crc_step s (2 ^ b) =? 0)) (crc_step s (2 ^ b) <? 65536))
          (zero_orbit 255 (crc_step 0 (2 ^ a))).
Lemma two_bits_fin : forallb chk_two_bits (bitsN 6) = true.
Proof. vm_cast_no_check (eq_refl true). Qed.

Lemma zero_orbit_nth k : forall s j, (j < k)%nat ->
  nth_error (zero_orbit k s) j = Some (crc_from s (zeros j)).
Proof.
  induction k as [|k IH]; intros s j Hj; [lia|].
  destruct j as [|j]; [reflexivity|].
  cbn [zero_orbit nth_error zeros repeat]. rewrite IH by lia. reflexivity.
Qed.

Lemma two_bits_nonzero a b k : a < 8 -> b < 8 -> (k <= 254)%nat ->
  let s := crc_from 0 ([2 ^ a] ++ zeros k ++ [2 ^ b]) in s <> 0 /\ s < 65536.
Proof.
  intros Ha Hb Hk.
  pose proof (forall_below_pow2 chk_two_bits 6 two_bits_fin (a * 8 + b)) as H.
  assert (Hlt : a * 8 + b < 2 ^ N.of_nat 6) by (change (2 ^ N.of_nat 6) with 64; lia).
  specialize (H Hlt). unfold chk_two_bits in H.
  replace ((a * 8 + b) / 8) with a in H by lia.
  replace ((a * 8 + b) mod 8) with b in H by lia.
  rewrite forallb_forall in H.
  pose proof (zero_orbit_nth 255 (crc_step 0 (2 ^ a)) k ltac:(lia)) as Hn.
  apply nth_error_In in Hn. specialize (H _ Hn).
  apply andb_true_iff in H as [H1 H2]. apply negb_true_iff, N.eqb_neq in H1.
  apply N.ltb_lt in H2.
  cbn zeta. rewrite !crc_from_app. unfold crc_from at 2 3. cbn [fold_left].
  split; assumption.
Qed.

Inductive low_weight : list N -> Prop :=
| lw_burst p mid q : burst_window mid -> low_weight (zeros p ++ mid ++ zeros q)
| lw_two p a k b q : a < 8 -> b < 8 -> (k <= 254)%nat ->
    low_weight (zeros p ++ ([2 ^ a] ++ zeros k ++ [2 ^ b]) ++ zeros q).

Lemma detect_low_weight e : low_weight e -> crc_from 0 e <> 0.
Proof.
  intros [p mid q Hw | p a k b q Ha Hb Hk];
    rewrite crc_from_app, crc_from_zeros_0, crc_from_app.
  - destruct (burst_nonzero mid Hw) as [H1 H2]. apply zeros_keep_nonzero; assumption.
  - destruct (two_bits_nonzero a b k Ha Hb Hk) as [H1 H2]. apply zeros_keep_nonzero; assumption.
Qed.

(* frame-level consequence: a valid frame xor a low-weight error pattern of
   the same length never has a matching CRC trailer, wherever it is split *)
Lemma corrupted_frame_rejected body e body' lo hi :
  bytesb body = true -> bytesb e = true -> low_weight e ->
  length e = length (body ++ crc_bytes body) ->
  xor_bytes (body ++ crc_bytes body) e = body' ++ [lo; hi] ->
  crc_is_equal (crc16 body') lo hi = false.
Proof.
  intros Hb He Hlw Hlen Hx.
  assert (Hcb : bytesb (crc_bytes body) = true) by apply le16_bytes.
  assert (Hfb : bytesb (body ++ crc_bytes body) = true) by (rewrite bytesb_app, Hb, Hcb; reflexivity).
  assert (Hxb : bytesb (xor_bytes (body ++ crc_bytes body) e) = true).
  { rewrite bytesb_Forall in *. unfold xor_bytes. rewrite Forall_forall in *.
    intros x Hin. apply in_map_iff in Hin as [[u v] [<- Hin]]. cbn [fst snd].
    apply lxor_byte; [apply Hfb; eapply in_combine_l; eauto|apply He; eapply in_combine_r; eauto]. }
  rewrite Hx, bytesb_app in Hxb. apply andb_true_iff in Hxb as [Hb' Hlh].
  unfold bytesb, is_byte in Hlh. cbn [forallb] in Hlh.
  destruct (crc_is_equal (crc16 body') lo hi) eqn:Eq; [exfalso|reflexivity].
  apply crc_is_equal_iff in Eq; [|apply crc16_word; exact Hb'|lia|lia].
  assert (R : crc_from crc_init (body' ++ [lo; hi]) = 0).
  { rewrite crc_from_app. fold (crc16 body'). rewrite Eq. apply crc_residue, crc16_word, Hb'. }
  rewrite <- Hx in R. rewrite crc_from_xor in R by (try assumption; symmetry; exact Hlen).
  rewrite crc_from_app in R. fold (crc16 body) in R. unfold crc_bytes in R.
  rewrite crc_residue in R by (apply crc16_word; exact Hb). rewrite N.lxor_0_l in R.
  exact (detect_low_weight e Hlw R).
Qed.
