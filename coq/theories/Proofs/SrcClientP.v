(* client.go as translated from the Go source (Gen/SrcPure.v): vocabulary of
   the statements (how a transport reply and a Go error appear as GoLite
   values), executeRequest (the unit-id rule) and WriteCoil. The transport is
   an oracle: the theorems hold for every function from requests to replies. *)
From Coq Require Import List NArith String Lia Bool.
From Coq Require Import ZifyBool ZifyNat ZifyN.
Import ListNotations.
From Modbus Require Import Base.Bytes Model.GoLite Gen.SrcPure Model.Crc Model.Encoding.
From Modbus Require Import Model.Wire Model.Client.
From Modbus Require Import Proofs.GoLiteP Proofs.GoLiteLinkP Proofs.SrcCrcP Proofs.SrcLinkP Proofs.SrcMiscP.
Open Scope string_scope.
Open Scope N_scope.

Notation GOk := GoLite.Ok.
Notation MOk := Wire.Ok.

(* ---------------------------------------------------------------- vocabulary *)

(* what a transport (or executeRequest) hands back: a response PDU, or a
   non-nil error together with whatever the response pointer then is *)
Inductive treply :=
| TOk (res : pdu)
| TErr (code : N) (rnil : bool) (ru rf : N) (rp : list N).

Definition enc_reply (r : treply) : list val :=
  match r with
  | TOk res => [VB false; VN (p_unit res); VN (p_fc res); vbytes (p_payload res); VN 0]
  | TErr c rnil ru rf rp => [VB rnil; VN ru; VN rf; vbytes rp; VN c]
  end.

Definition treply_wf (r : treply) : Prop :=
  match r with
  | TOk res => bytesb (p_payload res) = true
  | TErr c _ _ _ _ => c <> 0
  end.

(* the receiver fields of *ModbusClient that the translation keeps:
   endianness, wordOrder, unitId, transportType *)
Definition mc_fields (cfg : ccfg) (tt : N) : list val :=
  [VN (endian_sel (c_endian cfg)); VN (word_sel (c_word cfg)); VN (c_unit cfg); VN tt].

(* the model's error classes as Go error values *)
Definition err_code (e : err) : N :=
  match e with
  | ETimeout => code_of "ErrRequestTimedOut"
  | EParams => code_of ("ErrUnexpectedPara" ++ "meters")
  | EProtocol => code_of "ErrProtocolError"
  | EBadCRC => code_of "ErrBadCRC"
  | EShortFrame => code_of "ErrShortFrame"
  | EBadUnit => code_of "ErrBadUnitId"
  | EExc c => code_of (exc_name c)
  | EExcUnknown _ => other_error
  | EUnknownProto => code_of "ErrUnknownProtocolId"
  | EIO => other_error
  end.

(* executeRequest on top of a transport: i/o timeouts become the
   request-timed-out error, the unit id rule is applied to a response *)
Definition exec_spec (req : pdu) (r : treply) : treply :=
  match r with
  | TErr c rnil ru rf rp =>
      TErr (if c =? 2 then code_of "ErrRequestTimedOut" else c) rnil ru rf rp
  | TOk res =>
      match unit_check req res with
      | Some e => TErr (err_code e) false (p_unit res) (p_fc res) (p_payload res)
      | None => TOk res
      end
  end.

Lemma exec_spec_wf req r : treply_wf r -> treply_wf (exec_spec req r).
Proof.
  destruct r as [res|c rnil ru rf rp]; cbn [exec_spec treply_wf]; intros H.
  - destruct (unit_check req res) as [e|] eqn:E; cbn [treply_wf]; [|exact H].
    unfold unit_check in E.
    destruct (N.land (p_fc res) 128 =? 0); [destruct (p_unit res =? p_unit req)|
      destruct (orb (p_unit res =? p_unit req) (p_unit res =? 255))]; inversion E; subst;
      vm_compute; discriminate.
  - destruct (c =? 2) eqn:E; [vm_compute; discriminate|exact H].
Qed.

(* ---------------------------------------------------------------- executeRequest *)

Ltac gl_step :=
  cbn [exec resolve resolves eval evals rbind store stores set_slot sset get_slot sget get_slots
       f_nparams f_zeros f_outs f_results f_body List.length Nat.eqb negb app].

(* evaluate as far as the known facts allow: interpreter steps, comparisons
   and arithmetic on closed numerals, boolean connectives *)
Ltac gl_auto :=
  repeat (progress (gl_step;
                    cbn [compare_v compare_n arith wrap negb andb orb ofail Bool.eqb];
                    gl_consts)).

Lemma land_128_cases x : N.land x 128 = 0 \/ N.land x 128 = 128.
Proof.
  change 128 with (2 ^ 7).
  destruct (N.testbit x 7) eqn:E.
  - right. apply N.bits_inj. intros k. rewrite N.land_spec, N.pow2_bits_eqb.
    destruct (N.eqb_spec 7 k) as [<-|Hne]; [rewrite E; reflexivity|apply andb_false_r].
  - left. apply N.bits_inj. intros k. rewrite N.land_spec, N.pow2_bits_eqb, N.bits_0.
    destruct (N.eqb_spec 7 k) as [<-|Hne]; [rewrite E; reflexivity|apply andb_false_r].
Qed.

Lemma run_executeRequest fe fuel cfg tt req r :
  fe "transport.ExecuteRequest" [VN (p_unit req); VN (p_fc req); vbytes (p_payload req)] =
    GOk (enc_reply r) ->
  treply_wf r ->
  run_fn ge fe fuel src_fn_ModbusClient_executeRequest
         (mc_fields cfg tt ++ [VN (p_unit req); VN (p_fc req); vbytes (p_payload req)])%list =
  GOk (mc_fields cfg tt ++ enc_reply (exec_spec req r))%list.
Proof.
  intros Ho Hwf. unfold run_fn, src_fn_ModbusClient_executeRequest, mc_fields.
  gl_step. rewrite Ho.
  destruct r as [res|c rnil ru rf rp]; cbn [enc_reply exec_spec treply_wf] in *.
  - unfold unit_check.
    destruct (land_128_cases (p_fc res)) as [E|E]; gl_auto; rewrite ?E; gl_auto;
      destruct (p_unit res =? p_unit req) eqn:Eu; gl_auto; rewrite ?E; gl_auto;
      try reflexivity.
    destruct (p_unit res =? 255) eqn:E2; gl_auto; reflexivity.
  - gl_auto. replace (c =? 0) with false by lia. gl_auto.
    destruct (c =? 2); gl_auto; reflexivity.
Qed.

(* ---------------------------------------------------------------- what the callers of executeRequest see *)

(* [X] is the exchange: executeRequest on top of some transport, as a function
   of the request *)
Definition exec_hyp (fe : fenv) (X : pdu -> treply) : Prop :=
  forall cfg tt req,
    fe "ModbusClient.executeRequest"
       (mc_fields cfg tt ++ [VN (p_unit req); VN (p_fc req); vbytes (p_payload req)])%list =
    GOk (mc_fields cfg tt ++ enc_reply (X req))%list /\ treply_wf (X req).

Definition res_code (r : result values) : N :=
  match r with
  | MOk _ => 0
  | Err e => err_code e
  | _ => 0
  end.

(* the error value a public call returns: local rejection, the exchange's
   error, or the verdict of the reply validation *)
Definition call_code (cfg : ccfg) (o : op) (X : pdu -> treply) : N :=
  match client_request cfg o with
  | MOk req =>
      match X req with
      | TErr c _ _ _ _ => c
      | TOk res => res_code (client_validate cfg o req res)
      end
  | Err e => err_code e
  | _ => 0
  end.

(* callee specifications, as hypotheses on the function environment *)
Definition u16tb_hyp (fe : fenv) : Prop :=
  forall e v, fe "uint16ToBytes" [VN (endian_sel e); VN v] = GOk [vbytes (u16_to_bytes e v)].
Definition b2u16_hyp (fe : fenv) : Prop :=
  forall e l, fe "bytesToUint16" [VN (endian_sel e); vbytes l] =
              match bytes_to_u16 e l with Some v => GOk [VN v] | None => GoLite.Panic end.
Definition excmap_hyp (fe : fenv) : Prop :=
  forall c, c < 256 -> fe "mapExceptionCodeToError" [VN c] = GOk [VN (err_value (exc_err c))].

Lemma err_value_exc_err c : err_value (exc_err c) = err_code (exc_err c).
Proof. unfold exc_err. destruct (known_exception c); reflexivity. Qed.

(* ---------------------------------------------------------------- outcomes of public calls *)

Inductive sout :=
| SVal (v : values)
| SCode (c : N)
| SPanic.

Definition sout_of (r : result values) : sout :=
  match r with
  | MOk v => SVal v
  | Err e => SCode (err_code e)
  | _ => SPanic
  end.

(* a public call: local rejection, the exchange's error, or the reply validation *)
Definition call_out (cfg : ccfg) (o : op) (X : pdu -> treply) : sout :=
  match client_request cfg o with
  | MOk req =>
      match X req with
      | TErr c _ _ _ _ => SCode c
      | TOk res => sout_of (client_validate cfg o req res)
      end
  | r => sout_of (match r with MOk _ => MOk VUnit | Err e => Err e | Wire.Panic => Wire.Panic
                              | Wire.OutOfFuel => Wire.OutOfFuel end)
  end.

(* readRegisters / writeRegisters, the two internal workers, in the same style *)
Definition rr_out (cfg : ccfg) (a q : N) (rt : regtype) (X : pdu -> treply) : sout :=
  match req_read_regs cfg a q rt with
  | MOk req =>
      match X req with
      | TErr c _ _ _ _ => SCode c
      | TOk res => sout_of (validate_read_regs req res q (fun data => MOk (VBytes data)))
      end
  | Err e => SCode (err_code e)
  | _ => SPanic
  end.

Definition wr_out (cfg : ccfg) (a : N) (bytes : list N) (X : pdu -> treply) : sout :=
  match req_write_regs cfg a bytes with
  | MOk req =>
      match X req with
      | TErr c _ _ _ _ => SCode c
      | TOk res => sout_of (echo4 req res (be16 a) (be16 (u16 (lenN bytes) / 2)))
      end
  | Err e => SCode (err_code e)
  | _ => SPanic
  end.

Definition sval (v : values) : val :=
  match v with
  | VUnit => VL []
  | VBools l => vbools l
  | VNums l => vbytes l
  | VBytes l => vbytes l
  end.

(* the returned list of a method that returns only an error / a slice and an
   error / one value and an error (the receiver fields come first) *)
Definition out_err (mc : list val) (s : sout) : res (list val) :=
  match s with
  | SVal _ => GOk (mc ++ [VN 0])%list
  | SCode c => GOk (mc ++ [VN c])%list
  | SPanic => GoLite.Panic
  end.

Definition out_vals (mc : list val) (s : sout) : res (list val) :=
  match s with
  | SVal v => GOk (mc ++ [sval v; VN 0])%list
  | SCode c => GOk (mc ++ [VL []; VN c])%list
  | SPanic => GoLite.Panic
  end.

Definition out_one (mc : list val) (zero : val) (s : sout) : res (list val) :=
  match s with
  | SVal (VBools (b :: _)) => GOk (mc ++ [VB b; VN 0])%list
  | SVal (VNums (n :: _)) => GOk (mc ++ [VN n; VN 0])%list
  | SVal _ => GoLite.Panic
  | SCode c => GOk (mc ++ [zero; VN c])%list
  | SPanic => GoLite.Panic
  end.

(* the register type selector of the public API *)
Definition regtype_sel (rt : regtype) (n : N) : Prop :=
  match rt with
  | Holding => n = 0
  | InputReg => n = 1
  | BadRegType => 2 <= n
  end.
