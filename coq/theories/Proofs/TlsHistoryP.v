(* Proofs about Model/TlsHistory.v (property C14): a server object and the
   history of the connection attempts it takes. Every attempt of a history is
   decided as the same attempt on a fresh server built from the same
   configuration is (Proofs/TlsPolicyP.v), whatever the other attempts of the
   history are: what they presented, whether they were served. *)
From Modbus Require Import Base.Bytes Model.Encoding Model.Wire Model.Client Model.Server
  Model.Role Model.Config Model.TlsPolicy Model.TlsHistory
  Spec.ModbusSpec Spec.ServerSpec Spec.ServerSessionSpec Spec.ConfigSpec Spec.TlsSpec
  Proofs.ConfigP Proofs.ServerP Proofs.TlsPolicyP.
From Coq Require Import ZifyBool ZifyNat ZifyN.
Ltac Zify.zify_post_hook ::= Z.div_mod_to_equations.

Section TlsHistoryProofs.
  Variable hs : tls_policy -> tls_peer -> option tls_session.
  Variable verifies : option (list tls_cert) -> tls_usage -> N -> list N -> list tls_cert -> Prop.
  Variable now : N.

  Section WithRoleHandler.
    Context {St : Type} (h : list N -> handler St).

    Lemma tls_obj_accept_object o e a : fst (tls_obj_accept hs h o e a) = o.
    Proof. reflexivity. Qed.

    (* the object after a history is the object before it: in particular its
       client CA pool and the tls.Config of the next handshake *)
    Lemma tls_obj_history_object o e l : fst (tls_obj_history hs h o e l) = o.
    Proof.
      revert o. induction l as [|a rest IH]; intros o; [reflexivity|].
      cbn [tls_obj_history]. unfold tls_obj_accept.
      specialize (IH o). destruct (tls_obj_history hs h o e rest) as [o2 more]. exact IH.
    Qed.

    Lemma tls_obj_history_policy o e l :
      tls_policy_of_obj (fst (tls_obj_history hs h o e l)) = tls_policy_of_obj o.
    Proof. rewrite tls_obj_history_object. reflexivity. Qed.

    Lemma tls_obj_history_events o e l :
      snd (tls_obj_history hs h o e l) = map (tls_attempt_alone hs h (tso_conf o) e) l.
    Proof.
      revert o. induction l as [|a rest IH]; intros o; [reflexivity|].
      cbn [tls_obj_history map]. unfold tls_obj_accept.
      specialize (IH o). destruct (tls_obj_history hs h o e rest) as [o2 more].
      cbn [snd] in *. rewrite IH. reflexivity.
    Qed.

    (* every attempt is decided as if it were the only one *)
    Lemma tls_server_history_pointwise c e l :
      tls_server_history hs h c e l = map (tls_attempt_alone hs h c e) l.
    Proof. unfold tls_server_history. rewrite tls_obj_history_events. reflexivity. Qed.

    Lemma tls_server_history_length c e l : length (tls_server_history hs h c e l) = length l.
    Proof. rewrite tls_server_history_pointwise. apply map_length. Qed.

    Lemma tls_server_history_nth c e l k a :
      nth_error l k = Some a ->
      nth_error (tls_server_history hs h c e l) k = Some (tls_attempt_alone hs h c e a).
    Proof. intros H. rewrite tls_server_history_pointwise. apply map_nth_error. exact H. Qed.

    Lemma tls_server_history_nth_inv c e l k evs :
      nth_error (tls_server_history hs h c e l) k = Some evs ->
      exists a, nth_error l k = Some a /\ evs = tls_attempt_alone hs h c e a.
    Proof.
      rewrite tls_server_history_pointwise. intros H.
      destruct (nth_error l k) as [a|] eqn:Ea.
      - rewrite (map_nth_error _ _ _ Ea) in H. injection H as <-. eauto.
      - apply nth_error_None in Ea. assert (Hn : nth_error (map (tls_attempt_alone hs h c e) l) k = None).
        { apply nth_error_None. rewrite map_length. exact Ea. }
        rewrite Hn in H. discriminate H.
    Qed.

    (* whatever came before and whatever comes after *)
    Lemma tls_server_history_context c e before a after :
      nth_error (tls_server_history hs h c e (before ++ a :: after)) (length before) =
      Some (tls_attempt_alone hs h c e a).
    Proof.
      apply tls_server_history_nth. rewrite nth_error_app2 by apply Nat.le_refl.
      rewrite Nat.sub_diag. reflexivity.
    Qed.

    (* T1 along a history: a handler invocation in attempt k implies that the
       peer of attempt k is authenticated against the CONFIGURED client CAs
       with the chain it presented in attempt k *)
    Lemma tls_history_call_authenticated c rest e l k evs r :
      tls_srv_documented hs verifies now ->
      url_scheme (tsv_url c) STcpTls rest ->
      nth_error (tls_server_history hs h c e l) k = Some evs ->
      In (EvCall r) evs ->
      exists a cas sess,
        nth_error l k = Some a /\
        tsv_cas c = Some cas /\
        hs (tls_policy_of_server c) (tat_peer a) = Some sess /\
        spec_client_authenticated verifies now cas (tat_peer a) sess.
    Proof.
      intros Hdoc Hu Hk Hin.
      destruct (tls_server_history_nth_inv c e l k evs Hk) as (a & Ha & ->).
      destruct (tls_server_call_authenticated hs verifies now h c rest _ _ _ _ r Hdoc Hu Hin)
        as (cas & sess & Hc & Hs & Hauth).
      exists a, cas, sess. auto.
    Qed.

    (* the refusing direction: an attempt whose chain does not verify against
       the configured client CAs reaches no handler, wherever it stands in the
       history - no premise about the other attempts *)
    Lemma tls_history_unverified c rest e l k a evs :
      tls_srv_documented hs verifies now ->
      url_scheme (tsv_url c) STcpTls rest ->
      nth_error l k = Some a ->
      (forall cas, tsv_cas c = Some cas ->
                   ~ verifies (Some cas) TlsUsageClientAuth now [] (tpe_chain (tat_peer a))) ->
      nth_error (tls_server_history hs h c e l) k = Some evs ->
      forall r, ~ In (EvCall r) evs.
    Proof.
      intros Hdoc Hu Ha Hno Hk r.
      rewrite (tls_server_history_nth c e l k a Ha) in Hk. injection Hk as <-.
      apply (tls_server_unverified hs verifies now h c rest); assumption.
    Qed.

    (* a failed handshake: nothing but the close, wherever in the history *)
    Lemma tls_history_failed_handshake c eff e l k a :
      tls_new_server c = CfgOk eff -> se_transport eff = TTcpOverTls ->
      nth_error l k = Some a ->
      hs (tls_policy_of_server c) (tat_peer a) = None ->
      nth_error (tls_server_history hs h c e l) k = Some [EvClosed].
    Proof.
      intros En Ht Ha Hs. rewrite (tls_server_history_nth c e l k a Ha). f_equal.
      apply (tls_server_handshake_failed hs h c eff); assumption.
    Qed.

    (* T4 along a history: a peer the handshake accepts is served *)
    Lemma tls_history_serves c rest e l k a sess t p r tail :
      tls_srv_documented hs verifies now ->
      (forall role, handler_wf (h role)) ->
      url_scheme (tsv_url c) STcpTls rest -> rest <> [] ->
      tsv_cert c <> None -> tsv_cas c <> None ->
      nth_error l k = Some a ->
      hs (tls_policy_of_server c) (tat_peer a) = Some sess ->
      tat_stream a = spec_mbap t p ++ tail ->
      t < 65536 -> pdu_wf p -> spec_decode p = Some r -> in_range r = true ->
      exists leaf more,
        tpe_chain (tat_peer a) = leaf :: more /\
        let role := extract_role (tlc_exts leaf) in
        nth_error (tls_server_history hs h c e l) k =
        Some (EvCall r :: EvResp (spec_mbap t (spec_response p r (snd (h role (tat_state a) r)))) ::
              server_run (h role) (fst (h role (tat_state a) r)) e tail).
    Proof.
      intros Hdoc Hwf Hu Hr Hcert Hcas Ha Hs Hst Ht Hp Hdec Hrange.
      destruct (tls_server_serves hs verifies now h c rest (tat_peer a) sess (tat_state a) e t p r tail
                  Hdoc Hwf Hu Hr Hcert Hcas Hs Ht Hp Hdec Hrange) as (leaf & more & Hch & Hev).
      exists leaf, more. split; [exact Hch|]. cbv zeta in *.
      rewrite (tls_server_history_nth c e l k a Ha). f_equal.
      unfold tls_attempt_alone. rewrite Hst. exact Hev.
    Qed.
  End WithRoleHandler.
End TlsHistoryProofs.
