(* Proofs for C18 over the heap / slice model (Model/Heap.v).

   Part A (frame): every client call only allocates, and stores only into
   arrays it allocated itself: the arrays that existed before the call are
   the same afterwards. Consequences: arguments (spare capacity included) and
   earlier results are never altered.
   Part B (function): what the calls taking a slice argument put on the wire
   is what the value-level model (Model/Client.v, C01) says, computed from
   the content of the argument slice; hence repeating a call sends the same
   bytes. *)
From Coq Require Import Arith Lia List.
From Modbus Require Import Base.Bytes Model.Crc Model.Encoding Model.Wire Model.Client Model.Heap
  Spec.AliasSpec.
From Coq Require Import ZifyBool ZifyNat ZifyN.
Ltac Zify.zify_post_hook ::= Z.div_mod_to_equations.
Local Open Scope nat_scope.

(* ------------------------------------------------------------ list facts *)

Lemma firstn_app_le {A} (l1 l2 : list A) b : b <= length l1 -> firstn b (l1 ++ l2) = firstn b l1.
Proof.
  intros H. rewrite firstn_app. replace (b - length l1) with 0 by lia.
  cbn [firstn]. apply app_nil_r.
Qed.

Lemma firstn_app_exact {A} (l1 l2 : list A) n : n = length l1 -> firstn n (l1 ++ l2) = l1.
Proof.
  intros ->. rewrite firstn_app, Nat.sub_diag, firstn_all. cbn [firstn]. apply app_nil_r.
Qed.

Lemma skipn_app_exact {A} (l1 l2 : list A) n : n = length l1 -> skipn n (l1 ++ l2) = l2.
Proof.
  intros ->. rewrite skipn_app, Nat.sub_diag, skipn_all. reflexivity.
Qed.

Lemma nth_firstn_lt {A} (l : list A) : forall b id d, id < b -> nth id (firstn b l) d = nth id l d.
Proof.
  induction l as [|x t IH]; intros [|b] [|id] d H; cbn; try lia; try reflexivity.
  apply IH. lia.
Qed.

Lemma nth_error_firstn_lt {A} (l : list A) : forall b id, id < b ->
  nth_error (firstn b l) id = nth_error l id.
Proof.
  induction l as [|x t IH]; intros [|b] [|id] H; cbn; try lia; try reflexivity.
  apply IH. lia.
Qed.

Lemma split_nth {A} (l : list A) : forall id d, id < length l ->
  firstn id l ++ nth id l d :: skipn (S id) l = l.
Proof.
  induction l as [|x t IH]; intros [|id] d H; cbn in *; try lia; try reflexivity.
  f_equal. apply IH. lia.
Qed.

(* ------------------------------------------------------------ heap facts *)

Lemma hp_upd_length h id a : length (hp_upd h id a) = length h.
Proof.
  unfold hp_upd. destruct (id <? length h) eqn:E; [|reflexivity].
  apply Nat.ltb_lt in E. rewrite app_length, firstn_length. cbn [length].
  rewrite skipn_length. lia.
Qed.

Lemma hp_upd_firstn b h id a : b <= id -> firstn b (hp_upd h id a) = firstn b h.
Proof.
  intros Hb. unfold hp_upd. destruct (id <? length h) eqn:E; [|reflexivity].
  apply Nat.ltb_lt in E.
  rewrite firstn_app_le by (rewrite firstn_length; lia).
  rewrite firstn_firstn. f_equal. lia.
Qed.

Lemma hp_upd_same h id : hp_upd h id (hp_arr h id) = h.
Proof.
  unfold hp_upd, hp_arr. destruct (id <? length h) eqn:E; [|reflexivity].
  apply Nat.ltb_lt in E. apply split_nth. exact E.
Qed.

Lemma hp_arr_upd_same h id a : id < length h -> hp_arr (hp_upd h id a) id = a.
Proof.
  intros H. unfold hp_arr, hp_upd. apply Nat.ltb_lt in H as E. rewrite E.
  rewrite app_nth2 by (rewrite firstn_length; lia).
  rewrite firstn_length. replace (id - Nat.min id (length h)) with 0 by lia. reflexivity.
Qed.

Lemma arr_write_nil a p : arr_write a p [] = a.
Proof. unfold arr_write. cbn [length app]. rewrite Nat.add_0_r. apply firstn_skipn. Qed.

Lemma hp_store_nil s p h : hp_store s p [] h = h.
Proof. unfold hp_store. rewrite arr_write_nil. apply hp_upd_same. Qed.

Lemma hp_store_length s p xs h : length (hp_store s p xs h) = length h.
Proof. apply hp_upd_length. Qed.

Lemma hp_store_firstn b s p xs h : b <= hs_arr s -> firstn b (hp_store s p xs h) = firstn b h.
Proof. apply hp_upd_firstn. Qed.

Lemma hp_arr_app_old h l id : id < length h -> hp_arr (h ++ l) id = hp_arr h id.
Proof. intros H. unfold hp_arr. apply app_nth1. exact H. Qed.

Lemma hp_arr_app_new h a : hp_arr (h ++ [a]) (length h) = a.
Proof. unfold hp_arr. rewrite app_nth2, Nat.sub_diag by lia. reflexivity. Qed.

(* ====================================================== Part A: the frame *)

(* the arrays 0 .. b-1 are the same in h' as in h; nothing was freed *)
Definition hp_keeps (b : nat) (h h' : hp_heap) : Prop :=
  firstn b h' = firstn b h /\ length h <= length h'.

Lemma keeps_refl b h : hp_keeps b h h.
Proof. split; [reflexivity|lia]. Qed.

Lemma keeps_trans b h1 h2 h3 : hp_keeps b h1 h2 -> hp_keeps b h2 h3 -> hp_keeps b h1 h3.
Proof. intros [A1 A2] [B1 B2]. split; [congruence|lia]. Qed.

Lemma keeps_alloc b h a : b <= length h -> hp_keeps b h (h ++ [a]).
Proof.
  intros H. split; [apply firstn_app_le; exact H|rewrite app_length; lia].
Qed.

Lemma keeps_store b s p xs h : b <= hs_arr s -> hp_keeps b h (hp_store s p xs h).
Proof.
  intros H. split; [apply hp_store_firstn; exact H|rewrite hp_store_length; lia].
Qed.

Lemma keeps_weaken b b' h h' : b' <= b -> hp_keeps b h h' -> hp_keeps b' h h'.
Proof.
  intros Hb [K1 K2]. split; [|exact K2].
  rewrite <- (Nat.min_l b' b) by exact Hb. rewrite <- !firstn_firstn. rewrite K1. reflexivity.
Qed.

(* a slice of the current call: well-formed header, and its array (if it has
   one at all) was allocated at or after position b and exists (below n) *)
Definition hs_in (b n : nat) (s : hslice) : Prop :=
  hs_len s <= hs_cap s /\ (hs_cap s = 0 \/ (b <= hs_arr s /\ hs_arr s < n)).

Lemma hs_in_mono b n n' s : hs_in b n s -> n <= n' -> hs_in b n' s.
Proof. intros [H1 [H2|[H2 H3]]] Hn; split; try exact H1; [left; exact H2|right; lia]. Qed.

Lemma hs_in_nil b n : hs_in b n hs_nil.
Proof. split; [cbn; lia|left; reflexivity]. Qed.

(* m, started on any heap holding at least max b n arrays, keeps the arrays
   below b and returns something satisfying Q for the final allocation count *)
Definition hp_fr {A} (b n : nat) (m : hpM A) (Q : nat -> A -> Prop) : Prop :=
  forall h, b <= length h -> n <= length h ->
    hp_keeps b h (hp_heap_of (m h)) /\
    forall a h', m h = HpVal a h' -> Q (length h') a.

Lemma fr_bind {A B} b n (m : hpM A) (f : A -> hpM B) Q R :
  hp_fr b n m Q ->
  (forall n' a, n <= n' -> Q n' a -> hp_fr b n' (f a) R) ->
  hp_fr b n (hp_bind m f) R.
Proof.
  intros Hm Hf h Hb Hn. destruct (Hm h Hb Hn) as [Hk HQ]. unfold hp_bind.
  destruct (m h) as [a h1|h1] eqn:E; cbn [hp_heap_of] in *.
  - specialize (HQ a h1 eq_refl). destruct Hk as [Hk1 Hk2].
    assert (Hn1 : n <= length h1) by lia.
    destruct (Hf (length h1) a Hn1 HQ h1 ltac:(lia) ltac:(lia)) as [Hk' HR].
    split; [|exact HR]. eapply keeps_trans; [split; eassumption|exact Hk'].
  - split; [exact Hk|]. intros a h' H. discriminate H.
Qed.

Lemma fr_ret {A} b n (a : A) (Q : nat -> A -> Prop) :
  (forall n', n <= n' -> Q n' a) -> hp_fr b n (hp_ret a) Q.
Proof.
  intros HQ h Hb Hn. unfold hp_ret. cbn [hp_heap_of]. split; [apply keeps_refl|].
  intros a' h' H. injection H as <- <-. apply HQ. exact Hn.
Qed.

Lemma fr_panic {A} b n (Q : nat -> A -> Prop) : hp_fr b n hp_panic Q.
Proof.
  intros h Hb Hn. unfold hp_panic. cbn [hp_heap_of]. split; [apply keeps_refl|].
  intros a' h' H. discriminate H.
Qed.

Lemma fr_weaken {A} b n (m : hpM A) (Q Q' : nat -> A -> Prop) :
  hp_fr b n m Q -> (forall n' a, n <= n' -> Q n' a -> Q' n' a) -> hp_fr b n m Q'.
Proof.
  intros Hm HQ h Hb Hn. destruct (Hm h Hb Hn) as [Hk H]. split; [exact Hk|].
  intros a h' E. apply HQ; [|apply H; exact E].
  rewrite E in Hk. cbn [hp_heap_of] in Hk. destruct Hk. lia.
Qed.

Definition any_nat {A} : nat -> A -> Prop := fun _ _ => True.

Lemma fr_load b n s : hp_fr b n (hp_load s) any_nat.
Proof.
  intros h Hb Hn. unfold hp_load. cbn [hp_heap_of]. split; [apply keeps_refl|]. intros; exact I.
Qed.

Lemma fr_make b n k c : hp_fr b n (h_make k c) (hs_in b).
Proof.
  intros h Hb Hn. unfold h_make. destruct (c <? k) eqn:E; cbn [hp_heap_of].
  - split; [apply keeps_refl|]. intros a h' H. discriminate H.
  - apply Nat.ltb_ge in E. split; [apply keeps_alloc; exact Hb|].
    intros a h' H. injection H as <- <-. rewrite app_length. cbn [length].
    split; cbn [hs_len hs_cap hs_arr]; [exact E|right; lia].
Qed.

Lemma fr_get b n s i : hp_fr b n (h_get s i) any_nat.
Proof.
  intros h Hb Hn. unfold h_get.
  destruct (i <? hs_len s); [destruct (nth_error _ _)|]; cbn [hp_heap_of];
    (split; [apply keeps_refl|intros; exact I]).
Qed.

Lemma fr_set b n s i v : hs_in b n s -> hp_fr b n (h_set s i v) any_nat.
Proof.
  intros [Hl Hs] h Hb Hn. unfold h_set. destruct (i <? hs_len s) eqn:E; cbn [hp_heap_of].
  - apply Nat.ltb_lt in E. destruct Hs as [Hs|[Hs _]]; [lia|].
    split; [apply keeps_store; exact Hs|intros; exact I].
  - split; [apply keeps_refl|intros; exact I].
Qed.

Lemma fr_slice b n s lo hi : hs_in b n s -> hp_fr b n (h_slice s lo hi) (hs_in b).
Proof.
  intros Hs. unfold h_slice. destruct (andb (lo <=? hi) (hi <=? hs_cap s)) eqn:E; [|apply fr_panic].
  apply andb_true_iff in E as [E1 E2]. apply Nat.leb_le in E1, E2.
  apply fr_ret. intros n' Hn. destruct Hs as [Hl Hs].
  split; cbn [hs_len hs_cap hs_arr]; [lia|].
  destruct Hs as [Hs|[Hs1 Hs2]]; [left; lia|right; lia].
Qed.

Lemma fr_append b n gr s xs : hs_in b n s -> hp_fr b n (h_append gr s xs) (hs_in b).
Proof.
  intros Hs h Hb Hn. unfold h_append. destruct xs as [|x xs'].
  - cbn [hp_heap_of]. split; [apply keeps_refl|].
    intros a h' H. injection H as <- <-. eapply hs_in_mono; eassumption.
  - remember (x :: xs') as xs eqn:Hxs.
    assert (Hlen : 1 <= length xs) by (subst xs; cbn; lia).
    destruct (hs_len s + length xs <=? hs_cap s) eqn:E; cbn [hp_heap_of].
    + apply Nat.leb_le in E. destruct Hs as [Hl [Hs|[Hs1 Hs2]]]; [lia|].
      split; [apply keeps_store; exact Hs1|].
      intros a h' H. injection H as <- <-. rewrite hp_store_length.
      split; cbn [hs_len hs_cap hs_arr]; [exact E|right; lia].
    + split; [apply keeps_alloc; exact Hb|].
      intros a h' H. injection H as <- <-. rewrite app_length. cbn [length].
      split; cbn [hs_len hs_cap hs_arr]; [lia|right; lia].
Qed.

Lemma fr_copy b n s xs : hs_in b n s -> hp_fr b n (h_copy s xs) any_nat.
Proof.
  intros [Hl Hs] h Hb Hn. unfold h_copy. cbn [hp_heap_of]. split; [|intros; exact I].
  destruct Hs as [Hs|[Hs _]].
  - replace (hs_len s) with 0 by lia. cbn [firstn]. rewrite hp_store_nil. apply keeps_refl.
  - apply keeps_store. exact Hs.
Qed.

(* the composite procedures *)

Ltac fr_step L := eapply fr_bind; [apply L|].

Lemma fr_fresh_bytes b n bs : hp_fr b n (hp_fresh_bytes bs) (hs_in b).
Proof.
  unfold hp_fresh_bytes. fr_step fr_make. intros n1 out Hn1 Hout.
  eapply fr_bind; [apply fr_copy; exact Hout|]. intros n2 _ Hn2 _.
  apply fr_ret. intros n3 Hn3. eapply hs_in_mono; [exact Hout|lia].
Qed.

Lemma fr_append_each b gr xs : forall n s, hs_in b n s ->
  hp_fr b n (hp_append_each gr s xs) (hs_in b).
Proof.
  induction xs as [|x t IH]; intros n s Hs; cbn [hp_append_each].
  - apply fr_ret. intros n' Hn. eapply hs_in_mono; eassumption.
  - eapply fr_bind; [apply fr_append; exact Hs|]. intros n1 s1 Hn1 Hs1. apply IH. exact Hs1.
Qed.

Lemma fr_swap_loop b s fuel : forall n i, hs_in b n s ->
  hp_fr b n (hp_swap_loop fuel s i) any_nat.
Proof.
  induction fuel as [|f IH]; intros n i Hs; cbn [hp_swap_loop].
  - apply fr_ret. intros; exact I.
  - destruct (i <? hs_len s); [|apply fr_ret; intros; exact I].
    fr_step fr_get. intros n1 a Hn1 _.
    fr_step fr_get. intros n2 c Hn2 _.
    eapply fr_bind; [apply fr_set; eapply hs_in_mono; [exact Hs|lia]|]. intros n3 _ Hn3 _.
    eapply fr_bind; [apply fr_set; eapply hs_in_mono; [exact Hs|lia]|]. intros n4 _ Hn4 _.
    apply IH. eapply hs_in_mono; [exact Hs|lia].
Qed.

Lemma fr_encode_bools b n values : hp_fr b n (hp_encode_bools values) (hs_in b).
Proof.
  unfold hp_encode_bools. fr_step fr_load. intros n1 vs Hn1 _. apply fr_fresh_bytes.
Qed.

(* writeBytes, fixed: WHATEVER slice the caller passes *)
Lemma fr_write_bytes_prep b n gr cfg raw values :
  hp_fr b n (hp_write_bytes_prep gr cfg raw values) (hs_in b).
Proof.
  unfold hp_write_bytes_prep.
  fr_step fr_make. intros n1 c0 Hn1 Hc0.
  fr_step fr_load. intros n2 vs Hn2 _.
  eapply fr_bind; [apply fr_append; eapply hs_in_mono; [exact Hc0|lia]|]. intros n3 v1 Hn3 Hv1.
  eapply fr_bind with (Q := hs_in b).
  { destruct (Nat.odd (hs_len v1)); [apply fr_append; exact Hv1|].
    apply fr_ret. intros n' Hn'. eapply hs_in_mono; eassumption. }
  intros n4 v2 Hn4 Hv2.
  eapply fr_bind with (Q := any_nat).
  { destruct (hp_swaps cfg raw); [apply fr_swap_loop; exact Hv2|apply fr_ret; intros; exact I]. }
  intros n5 _ Hn5 _. apply fr_ret. intros n' Hn'. eapply hs_in_mono; [exact Hv2|lia].
Qed.

(* the pinned writeBytes keeps the frame only when its argument is a slice of
   the call itself - which a caller's slice is not *)
Lemma fr_write_bytes_prep_pinned b n gr cfg raw values : hs_in b n values ->
  hp_fr b n (hp_write_bytes_prep_pinned gr cfg raw values) (hs_in b).
Proof.
  intros Hv. unfold hp_write_bytes_prep_pinned.
  eapply fr_bind with (Q := hs_in b).
  { destruct (Nat.odd (hs_len values)); [apply fr_append; exact Hv|].
    apply fr_ret. intros n' Hn'. eapply hs_in_mono; eassumption. }
  intros n4 v2 Hn4 Hv2.
  eapply fr_bind with (Q := any_nat).
  { destruct (hp_swaps cfg raw); [apply fr_swap_loop; exact Hv2|apply fr_ret; intros; exact I]. }
  intros n5 _ Hn5 _. apply fr_ret. intros n' Hn'. eapply hs_in_mono; [exact Hv2|lia].
Qed.

Definition hq_in (b n : nat) (r : result hp_pdu) : Prop :=
  match r with Ok q => hs_in b n (hq_payload q) | _ => True end.

Lemma fr_ret_err b n x : hp_fr b n (hp_ret (Err x)) (hq_in b).
Proof. apply fr_ret. intros; exact I. Qed.

Lemma fr_write_registers b n gr cfg a values :
  hp_fr b n (hp_write_registers gr cfg a values) (hq_in b).
Proof.
  unfold hp_write_registers.
  destruct (246 <? N.of_nat (hs_len values))%N; [apply fr_ret_err|].
  destruct (u16 (N.of_nat (hs_len values)) / 2 =? 0)%N; [apply fr_ret_err|].
  destruct (123 <? u16 (N.of_nat (hs_len values)) / 2)%N; [apply fr_ret_err|].
  destruct (65535 <? a + u16 (N.of_nat (hs_len values)) / 2 - 1)%N; [apply fr_ret_err|].
  fr_step fr_fresh_bytes. intros n1 p0 Hn1 Hp0.
  fr_step fr_fresh_bytes. intros n2 t1 Hn2 Ht1.
  fr_step fr_load. intros n3 x1 Hn3 _.
  eapply fr_bind; [apply fr_append; eapply hs_in_mono; [exact Hp0|lia]|]. intros n4 p1 Hn4 Hp1.
  eapply fr_bind; [apply fr_append; exact Hp1|]. intros n5 p2 Hn5 Hp2.
  fr_step fr_load. intros n6 vs Hn6 _.
  eapply fr_bind; [apply fr_append; eapply hs_in_mono; [exact Hp2|lia]|]. intros n7 p3 Hn7 Hp3.
  apply fr_ret. intros n' Hn'. cbn [hq_in hq_payload]. eapply hs_in_mono; eassumption.
Qed.

Lemma fr_encode_loop b gr cfg w values k : forall n i payload, hs_in b n payload ->
  hp_fr b n (hp_encode_loop gr cfg w values k i payload) (hs_in b).
Proof.
  induction k as [|k IH]; intros n i payload Hp; cbn [hp_encode_loop].
  - apply fr_ret. intros n' Hn'. eapply hs_in_mono; eassumption.
  - fr_step fr_get. intros n1 v Hn1 _.
    fr_step fr_fresh_bytes. intros n2 bb Hn2 Hbb.
    fr_step fr_load. intros n3 x Hn3 _.
    eapply fr_bind; [apply fr_append; eapply hs_in_mono; [exact Hp|lia]|]. intros n4 p' Hn4 Hp'.
    apply IH. exact Hp'.
Qed.

Lemma fr_write_coils b n gr cfg a values :
  hp_fr b n (hp_write_coils gr cfg a values) (hq_in b).
Proof.
  unfold hp_write_coils.
  destruct (1968 <? N.of_nat (hs_len values))%N; [apply fr_ret_err|].
  destruct (u16 (N.of_nat (hs_len values)) =? 0)%N; [apply fr_ret_err|].
  destruct (1968 <? u16 (N.of_nat (hs_len values)))%N; [apply fr_ret_err|].
  destruct (65535 <? a + u16 (N.of_nat (hs_len values)) - 1)%N; [apply fr_ret_err|].
  fr_step fr_encode_bools. intros n0 enc Hn0 Henc.
  fr_step fr_fresh_bytes. intros n1 p0 Hn1 Hp0.
  fr_step fr_fresh_bytes. intros n2 t1 Hn2 Ht1.
  fr_step fr_load. intros n3 x1 Hn3 _.
  eapply fr_bind; [apply fr_append; eapply hs_in_mono; [exact Hp0|lia]|]. intros n4 p1 Hn4 Hp1.
  eapply fr_bind; [apply fr_append; exact Hp1|]. intros n5 p2 Hn5 Hp2.
  fr_step fr_load. intros n6 vs Hn6 _.
  eapply fr_bind; [apply fr_append; eapply hs_in_mono; [exact Hp2|lia]|]. intros n7 p3 Hn7 Hp3.
  apply fr_ret. intros n' Hn'. cbn [hq_in hq_payload]. eapply hs_in_mono; eassumption.
Qed.

(* the request of every call, under the fixed writeBytes *)
Lemma fr_request b n gr cfg o : hp_fr b n (hp_request false gr cfg o) (hq_in b).
Proof.
  destruct o as [raw a s|a s|w a s|o']; cbn [hp_request].
  - fr_step fr_write_bytes_prep. intros n1 v Hn1 Hv. apply fr_write_registers.
  - apply fr_write_coils.
  - eapply fr_bind; [apply fr_encode_loop; apply hs_in_nil|]. intros n1 p Hn1 Hp.
    apply fr_write_registers.
  - destruct (client_request cfg o') as [req|x| |]; try (apply fr_ret; intros; exact I).
    fr_step fr_fresh_bytes. intros n1 p Hn1 Hp.
    apply fr_ret. intros n' Hn'. cbn [hq_in hq_payload]. eapply hs_in_mono; eassumption.
Qed.

Lemma fr_assemble b n gr fr txn p : hp_fr b n (hp_assemble gr fr txn p) (hs_in b).
Proof.
  destruct fr; cbn [hp_assemble].
  - fr_step fr_fresh_bytes. intros n0 f0 Hn0 Hf0.
    eapply fr_bind; [apply fr_append; exact Hf0|]. intros n1 f1 Hn1 Hf1.
    fr_step fr_fresh_bytes. intros n2 t Hn2 Ht.
    fr_step fr_load. intros n3 x Hn3 _.
    eapply fr_bind; [apply fr_append; eapply hs_in_mono; [exact Hf1|lia]|]. intros n4 f2 Hn4 Hf2.
    eapply fr_bind; [apply fr_append; exact Hf2|]. intros n5 f3 Hn5 Hf3.
    eapply fr_bind; [apply fr_append; exact Hf3|]. intros n6 f4 Hn6 Hf4.
    fr_step fr_load. intros n7 pl Hn7 _.
    apply fr_append. eapply hs_in_mono; [exact Hf4|lia].
  - eapply fr_bind; [apply fr_append; apply hs_in_nil|]. intros n1 a1 Hn1 Ha1.
    eapply fr_bind; [apply fr_append; exact Ha1|]. intros n2 a2 Hn2 Ha2.
    fr_step fr_load. intros n3 pl Hn3 _.
    eapply fr_bind; [apply fr_append; eapply hs_in_mono; [exact Ha2|lia]|]. intros n4 a3 Hn4 Ha3.
    fr_step fr_load. intros n5 adu Hn5 _.
    fr_step fr_fresh_bytes. intros n6 c Hn6 Hc.
    fr_step fr_load. intros n7 cv Hn7 _.
    apply fr_append. eapply hs_in_mono; [exact Ha3|lia].
Qed.

Lemma fr_rx_buffer b n fr txn res : hp_fr b n (hp_rx_buffer fr txn res) (hs_in b).
Proof.
  destruct fr; cbn [hp_rx_buffer].
  - fr_step fr_make. intros n0 hdr Hn0 Hhdr.
    eapply fr_bind; [apply fr_copy; exact Hhdr|]. intros n1 _ Hn1 _.
    fr_step fr_make. intros n2 rx Hn2 Hrx.
    eapply fr_bind; [apply fr_copy; exact Hrx|]. intros n3 _ Hn3 _.
    apply fr_slice. eapply hs_in_mono; [exact Hrx|lia].
  - fr_step fr_make. intros n2 rx Hn2 Hrx.
    eapply fr_bind; [apply fr_copy; exact Hrx|]. intros n3 _ Hn3 _.
    apply fr_slice. eapply hs_in_mono; [exact Hrx|lia].
Qed.

Definition hv_in (b n : nat) (r : result hp_value) : Prop :=
  Forall (hs_in b n) (hv_slices r).

Lemma hv_in_one b n s (r : result hp_value) : hv_slices r = [s] -> hs_in b n s -> hv_in b n r.
Proof. intros E H. unfold hv_in. rewrite E. constructor; [exact H|constructor]. Qed.

Lemma hv_in_none b n (r : result hp_value) : hv_slices r = [] -> hv_in b n r.
Proof. intros E. unfold hv_in. rewrite E. constructor. Qed.

Lemma fr_build_result b n gr cfg o payload : hs_in b n payload ->
  hp_fr b n (hp_build_result gr cfg o payload) (hv_in b).
Proof.
  intros Hp. destruct o as [di a q|w a q rt|raw a q rt|a v|a vs|a v|w a vs|raw a bs];
    cbn [hp_build_result]; try (apply fr_ret; intros; apply hv_in_none; reflexivity).
  - eapply fr_bind; [apply fr_slice; exact Hp|]. intros n1 data Hn1 Hdata.
    fr_step fr_load. intros n2 bs Hn2 _.
    destruct (decode_bools (N.to_nat q) bs) as [l|]; [|apply fr_panic].
    eapply fr_bind; [apply fr_append_each; apply hs_in_nil|]. intros n3 out Hn3 Hout.
    apply fr_ret. intros n' Hn'. eapply hv_in_one; [reflexivity|]. eapply hs_in_mono; eassumption.
  - eapply fr_bind; [apply fr_slice; exact Hp|]. intros n1 data Hn1 Hdata.
    fr_step fr_load. intros n2 bs Hn2 _.
    match goal with |- context [match ?d with Some _ => _ | None => _ end] => destruct d as [l|] end;
      [|apply fr_panic].
    eapply fr_bind; [apply fr_append_each; apply hs_in_nil|]. intros n3 out Hn3 Hout.
    apply fr_ret. intros n' Hn'. eapply hv_in_one; [reflexivity|]. eapply hs_in_mono; eassumption.
  - eapply fr_bind; [apply fr_slice; exact Hp|]. intros n1 values Hn1 Hvalues.
    eapply fr_bind with (Q := any_nat).
    { destruct (hp_swaps cfg raw); [apply fr_swap_loop; exact Hvalues|apply fr_ret; intros; exact I]. }
    intros n2 _ Hn2 _.
    destruct (q mod 2 =? 1)%N.
    + destruct (hs_len values =? 0); [apply fr_panic|].
      eapply fr_bind; [apply fr_slice; eapply hs_in_mono; [exact Hvalues|lia]|].
      intros n3 v' Hn3 Hv'.
      apply fr_ret. intros n' Hn'. eapply hv_in_one; [reflexivity|]. eapply hs_in_mono; eassumption.
    + apply fr_ret. intros n' Hn'. eapply hv_in_one; [reflexivity|].
      eapply hs_in_mono; [exact Hvalues|lia].
Qed.

Lemma fr_receive b n gr fr cfg txn o req res :
  hp_fr b n (hp_receive gr fr cfg txn o req res) (hv_in b).
Proof.
  unfold hp_receive. fr_step fr_rx_buffer. intros n1 payload Hn1 Hp.
  destruct (unit_check req res); [apply fr_ret; intros; apply hv_in_none; reflexivity|].
  fr_step fr_load. intros n2 pv Hn2 _.
  destruct (client_validate cfg o req _) as [v|x| |];
    try (apply fr_ret; intros; apply hv_in_none; reflexivity).
  apply fr_build_result. eapply hs_in_mono; [exact Hp|lia].
Qed.

(* the whole call: arrays that existed before are kept; what is returned
   lives in arrays allocated during the call *)
Lemma call_frame gr fr cfg txn o e s h :
  hp_keeps (length h) h (snd (hp_call gr fr cfg txn o e s h)) /\
  hv_in (length h) (length (snd (hp_call gr fr cfg txn o e s h)))
        (hr_res (fst (hp_call gr fr cfg txn o e s h))).
Proof.
  unfold hp_call, hp_call_gen.
  destruct (fr_request (length h) (length h) gr cfg o h (le_n _) (le_n _)) as [K1 Q1].
  destruct (hp_request false gr cfg o h) as [[q|x| |] h1|h1] eqn:E1; cbn [hp_heap_of] in K1;
    cbn [fst snd hr_res]; try (split; [exact K1|apply hv_in_none; reflexivity]).
  specialize (Q1 _ _ eq_refl). cbn [hq_in] in Q1.
  set (txn' := match fr with FMbap => u16 (txn + 1) | FRtu => txn end).
  assert (L1 : length h <= length h1) by (destruct K1; assumption).
  destruct (fr_assemble (length h) (length h1) gr fr txn' q h1 L1 (le_n _)) as [K2 Q2].
  destruct (hp_assemble gr fr txn' q h1) as [frame h2|h2] eqn:E2; cbn [hp_heap_of] in K2;
    cbn [fst snd hr_res].
  2: { split; [eapply keeps_trans; eassumption|apply hv_in_none; reflexivity]. }
  assert (K12 : hp_keeps (length h) h h2) by (eapply keeps_trans; eassumption).
  assert (L2 : length h <= length h2) by (destruct K12; assumption).
  destruct (transport_exchange fr txn _ e s) as [[[r w] rest] t'].
  destruct r as [res|x| |]; cbn [fst snd hr_res];
    try (split; [exact K12|apply hv_in_none; reflexivity]).
  match goal with |- context [hp_receive ?g ?f ?c ?t ?vo ?rq ?rs h2] =>
    destruct (fr_receive (length h) (length h2) g f c t vo rq rs h2 L2 (le_n _)) as [K3 Q3];
    destruct (hp_receive g f c t vo rq rs h2) as [v h3|h3] eqn:E3 end;
    cbn [hp_heap_of] in K3; cbn [fst snd hr_res].
  - split; [eapply keeps_trans; eassumption|]. apply Q3. reflexivity.
  - split; [eapply keeps_trans; eassumption|apply hv_in_none; reflexivity].
Qed.

(* ------------------------------------------------- consequences of Part A *)

Lemma keeps_all h h' : hp_keeps (length h) h h' -> firstn (length h) h' = h.
Proof. intros [K _]. rewrite K. apply firstn_all. Qed.

Lemma keeps_nth_error h h' id a : hp_keeps (length h) h h' ->
  nth_error h id = Some a -> nth_error h' id = Some a.
Proof.
  intros K H. assert (Hid : id < length h) by (apply nth_error_Some; congruence).
  rewrite <- (nth_error_firstn_lt h' (length h) id Hid). rewrite (keeps_all _ _ K). exact H.
Qed.

Lemma keeps_arr h h' id : hp_keeps (length h) h h' -> id < length h -> hp_arr h' id = hp_arr h id.
Proof.
  intros K Hid. unfold hp_arr. rewrite <- (nth_firstn_lt h' (length h) id [] Hid).
  rewrite (keeps_all _ _ K). reflexivity.
Qed.

(* a slice whose array exists in h reads the same - its spare capacity
   included - in every heap that keeps the arrays of h *)
Lemma keeps_cells h h' s k : hp_keeps (length h) h h' -> hs_in 0 (length h) s -> k <= hs_cap s ->
  firstn k (skipn (hs_off s) (hp_arr h' (hs_arr s))) = firstn k (skipn (hs_off s) (hp_arr h (hs_arr s))).
Proof.
  intros K [Hl [Hc|[_ Ha]]] Hk.
  - replace k with 0 by lia. reflexivity.
  - rewrite (keeps_arr _ _ _ K Ha). reflexivity.
Qed.

Lemma keeps_read h h' s : hp_keeps (length h) h h' -> hs_in 0 (length h) s ->
  h_read s h' = h_read s h.
Proof. intros K Hs. unfold h_read. apply keeps_cells; [exact K|exact Hs|apply Hs]. Qed.

Lemma hs_in_weak b n s : hs_in b n s -> hs_in 0 n s.
Proof. intros [H1 [H2|[_ H3]]]; split; try exact H1; [left; exact H2|right; lia]. Qed.

(* histories *)
Definition hc_inv (c : hp_client) : Prop :=
  Forall (hs_in 0 (length (hc_heap c))) (hc_results c).

Lemma step_frame gr fr c ev :
  hp_keeps (length (hc_heap c)) (hc_heap c) (hc_heap (hp_step gr fr c ev)).
Proof.
  destruct ev as [xs|cfg o e chunk]; cbn [hp_step].
  - cbn [hc_heap]. apply keeps_alloc. lia.
  - pose proof (call_frame gr fr cfg (hc_txn c) o e (hc_left c ++ chunk) (hc_heap c)) as [K _].
    destruct (hp_call gr fr cfg (hc_txn c) o e (hc_left c ++ chunk) (hc_heap c)) as [r h'].
    cbn [hc_heap]. exact K.
Qed.

Lemma step_inv gr fr c ev : hc_inv c -> hc_inv (hp_step gr fr c ev).
Proof.
  intros Hc. pose proof (step_frame gr fr c ev) as [_ L]. unfold hc_inv in *.
  destruct ev as [xs|cfg o e chunk]; cbn [hp_step] in *.
  - cbn [hc_heap hc_results] in *. eapply Forall_impl; [|exact Hc].
    intros s Hs. eapply hs_in_mono; [exact Hs|exact L].
  - pose proof (call_frame gr fr cfg (hc_txn c) o e (hc_left c ++ chunk) (hc_heap c)) as [_ Q].
    destruct (hp_call gr fr cfg (hc_txn c) o e (hc_left c ++ chunk) (hc_heap c)) as [r h'].
    cbn [hc_heap hc_results fst snd] in *. apply Forall_app. split.
    + eapply Forall_impl; [|exact Q]. intros s Hs. eapply hs_in_weak. exact Hs.
    + eapply Forall_impl; [|exact Hc]. intros s Hs. eapply hs_in_mono; [exact Hs|exact L].
Qed.

Lemma run_inv gr fr evs : forall c, hc_inv c -> hc_inv (hp_run gr fr c evs).
Proof.
  induction evs as [|ev t IH]; intros c Hc; [exact Hc|].
  cbn [hp_run fold_left]. apply IH. apply step_inv. exact Hc.
Qed.

Lemma run_frame gr fr evs : forall c,
  hp_keeps (length (hc_heap c)) (hc_heap c) (hc_heap (hp_run gr fr c evs)).
Proof.
  induction evs as [|ev t IH]; intros c; [apply keeps_refl|].
  cbn [hp_run fold_left]. pose proof (step_frame gr fr c ev) as K1.
  eapply keeps_trans; [exact K1|]. eapply keeps_weaken; [|apply IH]. apply K1.
Qed.

(* every earlier result reads the same after any number of later events *)
Lemma results_stable gr fr c evs s k : hc_inv c -> In s (hc_results c) -> k <= hs_cap s ->
  firstn k (skipn (hs_off s) (hp_arr (hc_heap (hp_run gr fr c evs)) (hs_arr s))) =
  firstn k (skipn (hs_off s) (hp_arr (hc_heap c) (hs_arr s))).
Proof.
  intros Hc Hs Hk. apply keeps_cells; [apply run_frame| |exact Hk].
  unfold hc_inv in Hc. rewrite Forall_forall in Hc. apply Hc. exact Hs.
Qed.

(* ================================================== Part B: the function *)

Definition hp_tr {A} (P : hp_heap -> Prop) (m : hpM A) (Q : A -> hp_heap -> Prop) : Prop :=
  forall h, P h -> exists a h', m h = HpVal a h' /\ Q a h'.

Lemma tr_bind {A B} (P : hp_heap -> Prop) (m : hpM A) (f : A -> hpM B)
  (Q : A -> hp_heap -> Prop) (R : B -> hp_heap -> Prop) :
  hp_tr P m Q -> (forall a, hp_tr (Q a) (f a) R) -> hp_tr P (hp_bind m f) R.
Proof.
  intros Hm Hf h Hh. destruct (Hm h Hh) as (a & h1 & E & Hq).
  destruct (Hf a h1 Hq) as (b & h2 & E2 & Hr). exists b, h2. split; [|exact Hr].
  unfold hp_bind. rewrite E. exact E2.
Qed.

Lemma tr_ret {A} (P : hp_heap -> Prop) (a : A) (Q : A -> hp_heap -> Prop) :
  (forall h, P h -> Q a h) -> hp_tr P (hp_ret a) Q.
Proof. intros H h Hh. exists a, h. split; [reflexivity|apply H; exact Hh]. Qed.

Lemma tr_pure {A B} (P : hp_heap -> Prop) (m : hpM A) (V : A) (K : A -> hpM B)
  (Q : B -> hp_heap -> Prop) :
  (forall h, P h -> m h = HpVal V h) -> hp_tr P (K V) Q -> hp_tr P (hp_bind m K) Q.
Proof.
  intros Hm HK h Hh. destruct (HK h Hh) as (b & h2 & E2 & Hr). exists b, h2. split; [|exact Hr].
  unfold hp_bind. rewrite (Hm h Hh). exact E2.
Qed.

Lemma tr_pre {A} (P P' : hp_heap -> Prop) (m : hpM A) (Q : A -> hp_heap -> Prop) :
  (forall h, P h -> P' h) -> hp_tr P' m Q -> hp_tr P m Q.
Proof. intros HP Hm h Hh. apply Hm. apply HP. exact Hh. Qed.

Lemma tr_post {A} (P : hp_heap -> Prop) (m : hpM A) (Q Q' : A -> hp_heap -> Prop) :
  hp_tr P m Q -> (forall a h, Q a h -> Q' a h) -> hp_tr P m Q'.
Proof.
  intros Hm HQ h Hh. destruct (Hm h Hh) as (a & h1 & E & Hq). exists a, h1. split; [exact E|].
  apply HQ. exact Hq.
Qed.

Lemma tr_peek {A} (P : hp_heap -> Prop) (m : hpM A) (Q : A -> hp_heap -> Prop) :
  (forall h0, P h0 -> hp_tr P m Q) -> hp_tr P m Q.
Proof. intros H h Hh. exact (H h Hh h Hh). Qed.

Lemma tr_fix {A} (P : hp_heap -> Prop) (m : hpM A) (Q : A -> hp_heap -> Prop) :
  (forall h0, P h0 -> hp_tr (eq h0) m Q) -> hp_tr P m Q.
Proof. intros H h Hh. exact (H h Hh h eq_refl). Qed.

(* a well-formed slice of heap h *)
Definition hs_wf (h : hp_heap) (s : hslice) : Prop :=
  hs_len s <= hs_cap s /\
  (hs_cap s = 0 \/
   (hs_arr s < length h /\ hs_off s + hs_cap s <= length (hp_arr h (hs_arr s)))).

(* "s is the head of a chain": the heap still starts with g; s lives above g
   (or has no array); its window holds xs and is followed by spare room *)
Definition hp_hd (g : hp_heap) (s : hslice) (xs : list N) (h : hp_heap) : Prop :=
  firstn (length g) h = g /\ length g <= length h /\
  hs_len s <= hs_cap s /\ length xs = hs_len s /\
  (hs_cap s = 0 \/
   (length g <= hs_arr s /\ hs_arr s < length h /\
    exists pre tail, hp_arr h (hs_arr s) = pre ++ xs ++ tail /\
                     length pre = hs_off s /\ hs_cap s <= hs_len s + length tail)).

Lemma hd_read g s xs h : hp_hd g s xs h -> h_read s h = xs.
Proof.
  intros (_ & _ & Hl & Hx & [Hc|(_ & _ & pre & tail & Ha & Hp & _)]); unfold h_read.
  - assert (hs_len s = 0) as -> by lia. destruct xs; [reflexivity|cbn in Hx; lia].
  - rewrite Ha. rewrite skipn_app_exact by (symmetry; exact Hp).
    apply firstn_app_exact. symmetry. exact Hx.
Qed.

Lemma hd_prefix g s xs h : hp_hd g s xs h -> firstn (length g) h = g.
Proof. intros H. apply H. Qed.

Lemma hd_len g s xs h : hp_hd g s xs h -> length xs = hs_len s.
Proof. intros H. apply H. Qed.

Lemma hd_wf g s xs h : hp_hd g s xs h -> hs_wf h s.
Proof.
  intros (_ & _ & Hl & Hx & [Hc|(_ & Ha & pre & tail & He & Hp & Ht)]); split; try exact Hl.
  - left; exact Hc.
  - right. split; [exact Ha|]. rewrite He, !app_length. lia.
Qed.

Lemma hd_ext g s xs h a : hp_hd g s xs h -> hp_hd g s xs (h ++ [a]).
Proof.
  intros (Hg & Hgl & Hl & Hx & Hc). repeat split; try assumption.
  - rewrite firstn_app_le by exact Hgl. exact Hg.
  - rewrite app_length. lia.
  - destruct Hc as [Hc|(H1 & H2 & pre & tail & He & Hp & Ht)]; [left; exact Hc|right].
    split; [exact H1|]. split; [rewrite app_length; lia|].
    exists pre, tail. rewrite hp_arr_app_old by exact H2. repeat split; assumption.
Qed.

Lemma hd_nil g : hp_hd g hs_nil [] g.
Proof.
  repeat split; cbn [hs_nil hs_len hs_cap length]; try lia; try apply firstn_all.
Qed.

(* a new array a on top of g, seen through a slice of length k, capacity c *)
Lemma hd_new g a k c : k <= c -> c <= length a ->
  hp_hd g (mkhs (length g) 0 k c) (firstn k a) (g ++ [a]).
Proof.
  intros Hk Hc. repeat split; cbn [hs_len hs_cap hs_arr hs_off].
  - apply firstn_app_exact. reflexivity.
  - rewrite app_length. lia.
  - exact Hk.
  - rewrite firstn_length. lia.
  - right. split; [lia|]. split; [rewrite app_length; cbn; lia|].
    exists [], (skipn k a). rewrite hp_arr_app_new. cbn [app length].
    rewrite firstn_skipn, skipn_length. repeat split; lia.
Qed.

Lemma arr_write_mid (A B C ys : list N) p : p = length A -> length ys = length B ->
  arr_write (A ++ B ++ C) p ys = A ++ ys ++ C.
Proof.
  intros -> Hy. unfold arr_write. rewrite firstn_app_exact by reflexivity.
  rewrite skipn_app, skipn_all2 by lia. cbn [app].
  replace (length A + length ys - length A) with (length B) by lia.
  rewrite skipn_app_exact by reflexivity. reflexivity.
Qed.

(* storing inside the window *)
Lemma hd_store g s l1 l2 l3 ys h : hp_hd g s (l1 ++ l2 ++ l3) h -> length ys = length l2 ->
  hp_hd g s (l1 ++ ys ++ l3) (hp_store s (length l1) ys h).
Proof.
  intros (Hg & Hgl & Hl & Hx & Hc) Hy.
  destruct Hc as [Hc|(H1 & H2 & pre & tail & He & Hp & Ht)].
  - (* no array: everything is empty *)
    pose proof Hx as Hx'. rewrite !app_length in Hx'.
    assert (length ys = 0) by lia. destruct ys; [|cbn in *; lia].
    rewrite hp_store_nil.
    destruct l2; [|cbn in *; lia].
    split; [exact Hg|]. split; [exact Hgl|]. split; [exact Hl|]. split; [exact Hx|].
    left; exact Hc.
  - unfold hp_store. rewrite He.
    assert (Er : pre ++ (l1 ++ l2 ++ l3) ++ tail = (pre ++ l1) ++ l2 ++ (l3 ++ tail))
      by (repeat rewrite <- app_assoc; reflexivity).
    rewrite Er. rewrite arr_write_mid by (rewrite ?app_length; lia).
    repeat split.
    + rewrite hp_upd_firstn by exact H1. exact Hg.
    + rewrite hp_upd_length. exact Hgl.
    + exact Hl.
    + rewrite !app_length in *. lia.
    + right. split; [exact H1|]. split; [rewrite hp_upd_length; exact H2|].
      exists pre, tail. rewrite hp_arr_upd_same by exact H2.
      split; [repeat rewrite <- app_assoc; reflexivity|]. split; assumption.
Qed.

(* append in place *)
Lemma hd_append_inplace g s xs ys h : hp_hd g s xs h -> 1 <= length ys ->
  hs_len s + length ys <= hs_cap s ->
  hp_hd g (mkhs (hs_arr s) (hs_off s) (hs_len s + length ys) (hs_cap s)) (xs ++ ys)
        (hp_store s (hs_len s) ys h).
Proof.
  intros (Hg & Hgl & Hl & Hx & Hc) Hy Hfit.
  destruct Hc as [Hc|(H1 & H2 & pre & tail & He & Hp & Ht)]; [lia|].
  unfold hp_store. rewrite He.
  assert (Er : pre ++ xs ++ tail = (pre ++ xs) ++ firstn (length ys) tail ++ skipn (length ys) tail)
    by (rewrite firstn_skipn, <- app_assoc; reflexivity).
  rewrite Er. rewrite arr_write_mid by (rewrite ?app_length, ?firstn_length; lia).
  repeat split; cbn [hs_len hs_cap hs_arr hs_off].
  - rewrite hp_upd_firstn by exact H1. exact Hg.
  - rewrite hp_upd_length. exact Hgl.
  - exact Hfit.
  - rewrite app_length. lia.
  - right. split; [exact H1|]. split; [rewrite hp_upd_length; exact H2|].
    exists pre, (skipn (length ys) tail). rewrite hp_arr_upd_same by exact H2.
    split; [repeat rewrite <- app_assoc; reflexivity|]. split; [exact Hp|].
    rewrite skipn_length. lia.
Qed.

Lemma tr_append_hd gr g s xs ys :
  hp_tr (hp_hd g s xs) (h_append gr s ys) (fun s' => hp_hd g s' (xs ++ ys)).
Proof.
  intros h Hh. unfold h_append. destruct ys as [|y ys'].
  - exists s, h. split; [reflexivity|]. rewrite app_nil_r. exact Hh.
  - remember (y :: ys') as ys eqn:Hys.
    assert (Hy : 1 <= length ys) by (subst ys; cbn; lia).
    destruct (hs_len s + length ys <=? hs_cap s) eqn:E.
    + apply Nat.leb_le in E. eexists _, _. split; [reflexivity|].
      apply hd_append_inplace; assumption.
    + eexists _, _. split; [reflexivity|].
      rewrite (hd_read _ _ _ _ Hh). pose proof (hd_len _ _ _ _ Hh) as Hx.
      destruct Hh as (Hg & Hgl & _).
      repeat split; cbn [hs_len hs_cap hs_arr hs_off].
      * rewrite firstn_app_le by exact Hgl. exact Hg.
      * rewrite app_length. lia.
      * lia.
      * rewrite app_length. lia.
      * right. split; [exact Hgl|]. split; [rewrite app_length; cbn; lia|].
        exists [], (repeat 0%N (gr (hs_len s + length ys))). rewrite hp_arr_app_new.
        split; [cbn [app]; rewrite <- app_assoc; reflexivity|]. split; [reflexivity|].
        rewrite repeat_length. lia.
Qed.

(* reading through the head, and through older slices *)
Lemma hd_get g s xs h i : hp_hd g s xs h -> i < hs_len s ->
  h_get s i h = HpVal (nth i xs 0%N) h.
Proof.
  intros (_ & _ & Hl & Hx & Hc) Hi. unfold h_get.
  apply Nat.ltb_lt in Hi as E. rewrite E.
  destruct Hc as [Hc|(_ & _ & pre & tail & He & Hp & _)]; [lia|].
  rewrite He. rewrite nth_error_app2 by lia.
  replace (hs_off s + i - length pre) with i by lia.
  rewrite nth_error_app1 by lia.
  rewrite (nth_error_nth' xs 0%N) by lia. reflexivity.
Qed.

Lemma arr_old g h id : firstn (length g) h = g -> id < length g -> hp_arr h id = hp_arr g id.
Proof.
  intros Hg Hid. unfold hp_arr. rewrite <- (nth_firstn_lt h (length g) id [] Hid).
  rewrite Hg. reflexivity.
Qed.

Lemma read_old g h t : firstn (length g) h = g -> hs_wf g t -> h_read t h = h_read t g.
Proof.
  intros Hg [Hl [Hc|[Ha _]]]; unfold h_read.
  - replace (hs_len t) with 0 by lia. reflexivity.
  - rewrite (arr_old g h _ Hg Ha). reflexivity.
Qed.

Lemma wf_read_len g t : hs_wf g t -> length (h_read t g) = hs_len t.
Proof.
  intros [Hl [Hc|[Ha Hb]]]; unfold h_read; rewrite firstn_length, skipn_length; lia.
Qed.

Lemma nth_skipn' {A} (l : list A) : forall o i d, nth i (skipn o l) d = nth (o + i) l d.
Proof.
  induction l as [|x t IH]; intros [|o] i d; cbn; try reflexivity.
  - destruct i; reflexivity.
  - apply IH.
Qed.

Lemma get_old g h t i : firstn (length g) h = g -> hs_wf g t -> i < hs_len t ->
  h_get t i h = HpVal (nth i (h_read t g) 0%N) h.
Proof.
  intros Hg [Hl [Hc|[Ha Hb]]] Hi; [lia|]. unfold h_get, h_read.
  apply Nat.ltb_lt in Hi as E. rewrite E.
  rewrite (arr_old g h _ Hg Ha).
  rewrite nth_firstn_lt by exact Hi. rewrite nth_skipn'.
  rewrite (nth_error_nth' _ 0%N) by lia. reflexivity.
Qed.

Lemma wf_ext h l t : hs_wf h t -> hs_wf (h ++ l) t.
Proof.
  intros [Hl [Hc|[Ha Hb]]]; split; try exact Hl; [left; exact Hc|right].
  rewrite app_length, hp_arr_app_old by exact Ha. split; lia.
Qed.

(* exact effect of the allocating helpers *)
Lemma fresh_bytes_eq bs h :
  hp_fresh_bytes bs h = HpVal (mkhs (length h) 0 (length bs) (length bs)) (h ++ [bs]).
Proof.
  unfold hp_fresh_bytes, hp_bind, h_make, h_copy, hp_ret. rewrite Nat.ltb_irrefl.
  f_equal. cbn [hs_len]. rewrite firstn_all. unfold hp_store. cbn [hs_arr hs_off].
  rewrite hp_arr_app_new. unfold arr_write. cbn [firstn app Nat.add].
  rewrite skipn_all2 by (rewrite repeat_length; lia). rewrite app_nil_r.
  unfold hp_upd. rewrite app_length. cbn [length].
  replace (length h <? length h + 1) with true by (symmetry; apply Nat.ltb_lt; lia).
  rewrite firstn_app_exact by reflexivity.
  rewrite skipn_all2 by (rewrite app_length; cbn; lia). reflexivity.
Qed.

Lemma tr_fresh_start g bs : hp_tr (eq g) (hp_fresh_bytes bs) (fun p => hp_hd g p bs).
Proof.
  intros h <-. eexists _, _. split; [apply fresh_bytes_eq|].
  pose proof (hd_new g bs (length bs) (length bs) (le_n _) (le_n _)) as H.
  rewrite firstn_all in H. exact H.
Qed.

Lemma tr_fresh_load {B} g s xs bs (K : list N -> hpM B) (Q : B -> hp_heap -> Prop) :
  hp_tr (hp_hd g s xs) (K bs) Q ->
  hp_tr (hp_hd g s xs) (hdo t <- hp_fresh_bytes bs; hdo x <- hp_load t; K x) Q.
Proof.
  intros HK h Hh. destruct (HK (h ++ [bs]) (hd_ext _ _ _ _ bs Hh)) as (b & h2 & E & Hq).
  exists b, h2. split; [|exact Hq].
  unfold hp_bind at 1. rewrite fresh_bytes_eq. unfold hp_bind, hp_load, h_read.
  cbn [hs_len hs_off hs_arr]. rewrite hp_arr_app_new. cbn [skipn]. rewrite firstn_all. exact E.
Qed.

Lemma tr_load_hd {B} g s xs (K : list N -> hpM B) (Q : B -> hp_heap -> Prop) :
  hp_tr (hp_hd g s xs) (K xs) Q -> hp_tr (hp_hd g s xs) (hdo x <- hp_load s; K x) Q.
Proof.
  intros HK. eapply tr_pure; [|exact HK]. intros h Hh. unfold hp_load.
  rewrite (hd_read _ _ _ _ Hh). reflexivity.
Qed.

Lemma tr_load_old {B} g s xs t (K : list N -> hpM B) (Q : B -> hp_heap -> Prop) : hs_wf g t ->
  hp_tr (hp_hd g s xs) (K (h_read t g)) Q -> hp_tr (hp_hd g s xs) (hdo x <- hp_load t; K x) Q.
Proof.
  intros Ht HK. eapply tr_pure; [|exact HK]. intros h Hh. unfold hp_load.
  rewrite (read_old g h t (hd_prefix _ _ _ _ Hh) Ht). reflexivity.
Qed.

(* the swap loop computes swap_pairs on the rest of the window *)
Lemma tr_swap_loop g s fuel : forall pre rest,
  Nat.even (length rest) = true -> length rest <= fuel ->
  hp_tr (hp_hd g s (pre ++ rest)) (hp_swap_loop fuel s (length pre))
        (fun _ => hp_hd g s (pre ++ swap_pairs rest)).
Proof.
  induction fuel as [|f IH]; intros pre rest Hev Hf.
  - destruct rest; [|cbn in Hf; lia]. cbn [hp_swap_loop swap_pairs]. apply tr_ret. auto.
  - cbn [hp_swap_loop]. apply tr_peek. intros h0 Hh0. pose proof (hd_len _ _ _ _ Hh0) as Hx.
    rewrite app_length in Hx.
    destruct rest as [|a [|c post]].
    + replace (length pre <? hs_len s) with false
        by (symmetry; apply Nat.ltb_ge; cbn in Hx; lia).
      cbn [swap_pairs]. apply tr_ret. auto.
    + cbn in Hev. discriminate Hev.
    + replace (length pre <? hs_len s) with true
        by (symmetry; apply Nat.ltb_lt; cbn in Hx; lia).
      cbn [length] in Hx.
      eapply tr_pure with (V := a).
      { intros h Hh. rewrite (hd_get _ _ _ _ _ Hh) by lia.
        rewrite app_nth2, Nat.sub_diag by lia. reflexivity. }
      eapply tr_pure with (V := c).
      { intros h Hh. rewrite (hd_get _ _ _ _ _ Hh) by lia.
        rewrite app_nth2 by lia. replace (length pre + 1 - length pre) with 1 by lia. reflexivity. }
      eapply tr_bind with (Q := fun _ => hp_hd g s (pre ++ [c] ++ (c :: post))).
      { intros h Hh. unfold h_set.
        replace (length pre <? hs_len s) with true by (symmetry; apply Nat.ltb_lt; lia).
        eexists _, _. split; [reflexivity|].
        apply (hd_store g s pre [a] (c :: post) [c] h Hh). reflexivity. }
      intros _.
      eapply tr_bind with (Q := fun _ => hp_hd g s ((pre ++ [c]) ++ [a] ++ post)).
      { intros h Hh. unfold h_set.
        replace (length pre + 1 <? hs_len s) with true by (symmetry; apply Nat.ltb_lt; lia).
        eexists _, _. split; [reflexivity|].
        replace (length pre + 1) with (length (pre ++ [c])) by (rewrite app_length; reflexivity).
        apply (hd_store g s (pre ++ [c]) [c] post [a] h); [|reflexivity].
        rewrite <- app_assoc. exact Hh. }
      intros _.
      replace (length pre + 2) with (length (pre ++ [c; a]))
        by (rewrite app_length; reflexivity).
      eapply tr_pre; [|eapply tr_post; [apply (IH (pre ++ [c; a]) post)|]].
      * intros h Hh. repeat rewrite <- app_assoc in *. exact Hh.
      * cbn [length Nat.even] in Hev. exact Hev.
      * cbn [length] in Hf. lia.
      * intros u h Hh. cbn [swap_pairs]. repeat rewrite <- app_assoc in Hh. exact Hh.
Qed.

(* ------------------------------------------------ the request procedures *)

Lemma tr_make0 g c : hp_tr (eq g) (h_make 0 c) (fun s => hp_hd g s []).
Proof.
  intros h <-. unfold h_make. cbn [Nat.ltb Nat.leb]. eexists _, _. split; [reflexivity|].
  pose proof (hd_new g (repeat 0%N c) 0 c (Nat.le_0_l _)) as H. rewrite repeat_length in H.
  apply H. lia.
Qed.

Definition hp_padded (bs : list N) : list N := if Nat.odd (length bs) then bs ++ [0%N] else bs.

Lemma hp_padded_even bs : Nat.even (length (hp_padded bs)) = true.
Proof.
  unfold hp_padded. destruct (Nat.odd (length bs)) eqn:E.
  - rewrite app_length. cbn [length]. rewrite Nat.add_1_r, Nat.even_succ. exact E.
  - unfold Nat.odd in E. destruct (Nat.even (length bs)); [reflexivity|discriminate E].
Qed.

Lemma image_padded cfg raw bs :
  write_bytes_image cfg raw bs = if hp_swaps cfg raw then swap_pairs (hp_padded bs) else hp_padded bs.
Proof.
  unfold write_bytes_image, hp_swaps, hp_padded. destruct raw, (c_endian cfg); reflexivity.
Qed.

(* writeBytes (fixed) leaves, in an array of its own, the register image of
   the bytes the argument slice holds *)
Lemma tr_write_bytes_prep gr cfg raw g values : hs_wf g values ->
  hp_tr (eq g) (hp_write_bytes_prep gr cfg raw values)
        (fun v => hp_hd g v (write_bytes_image cfg raw (h_read values g))).
Proof.
  intros Hv. unfold hp_write_bytes_prep. set (V := h_read values g).
  eapply tr_bind; [apply tr_make0|]. intros c0.
  eapply tr_load_old; [exact Hv|]. fold V.
  eapply tr_bind; [apply tr_append_hd|]. intros v1. cbn [app].
  eapply tr_bind with (Q := fun v2 => hp_hd g v2 (hp_padded V)).
  { apply tr_peek. intros h0 Hh0. pose proof (hd_len _ _ _ _ Hh0) as Hl. rewrite <- Hl.
    unfold hp_padded. destruct (Nat.odd (length V)); [apply tr_append_hd|apply tr_ret; auto]. }
  intros v2. rewrite image_padded.
  eapply tr_bind with (Q := fun _ => hp_hd g v2 (if hp_swaps cfg raw then swap_pairs (hp_padded V)
                                                 else hp_padded V)).
  { destruct (hp_swaps cfg raw); [|apply tr_ret; auto].
    apply tr_peek. intros h0 Hh0. pose proof (hd_len _ _ _ _ Hh0) as Hl. rewrite <- Hl.
    apply (tr_swap_loop g v2 (length (hp_padded V)) [] (hp_padded V));
      [apply hp_padded_even|lia]. }
  intros _. apply tr_ret. auto.
Qed.

(* the outcome of a request procedure against the value-level request *)
Definition hq_is (r : result hp_pdu) (rv : result pdu) (h' : hp_heap) : Prop :=
  match rv with
  | Ok p => exists q g', r = Ok q /\ hq_unit q = p_unit p /\ hq_fc q = p_fc p /\
                         hp_hd g' (hq_payload q) (p_payload p) h'
  | Err x => r = Err x
  | Panic => r = Panic
  | OutOfFuel => r = OutOfFuel
  end.

Lemma lenN_of_len {A} (l : list A) k : length l = k -> lenN l = N.of_nat k.
Proof. intros <-. reflexivity. Qed.

Lemma tr_write_registers gr cfg a g values : hs_wf g values ->
  hp_tr (eq g) (hp_write_registers gr cfg a values)
        (fun r => hq_is r (req_write_regs cfg a (h_read values g))).
Proof.
  intros Hv. set (V := h_read values g).
  assert (HV : lenN V = N.of_nat (hs_len values)) by (apply lenN_of_len, wf_read_len; exact Hv).
  unfold hp_write_registers, req_write_regs. rewrite HV.
  destruct (246 <? N.of_nat (hs_len values))%N; [apply tr_ret; intros; reflexivity|].
  destruct (u16 (N.of_nat (hs_len values)) / 2 =? 0)%N; [apply tr_ret; intros; reflexivity|].
  destruct (123 <? u16 (N.of_nat (hs_len values)) / 2)%N; [apply tr_ret; intros; reflexivity|].
  destruct (65535 <? a + u16 (N.of_nat (hs_len values)) / 2 - 1)%N;
    [apply tr_ret; intros; reflexivity|].
  eapply tr_bind; [apply tr_fresh_start|]. intros p0.
  apply tr_fresh_load.
  eapply tr_bind; [apply tr_append_hd|]. intros p1.
  eapply tr_bind; [apply tr_append_hd|]. intros p2.
  eapply tr_load_old; [exact Hv|]. fold V.
  eapply tr_bind; [apply tr_append_hd|]. intros p3.
  apply tr_ret. intros h Hh. cbn [hq_is]. exists (mkhq (c_unit cfg) 16 p3), g.
  cbn [hq_unit hq_fc hq_payload p_unit p_fc p_payload].
  split; [reflexivity|]. split; [reflexivity|]. split; [reflexivity|].
  repeat rewrite <- app_assoc in Hh. exact Hh.
Qed.

Lemma skipn_nth_cons {A} (l : list A) : forall i d, i < length l ->
  skipn i l = nth i l d :: skipn (S i) l.
Proof.
  induction l as [|x t IH]; intros [|i] d H; cbn in *; try lia; try reflexivity.
  apply IH. lia.
Qed.

Lemma tr_encode_loop gr cfg w g values : hs_wf g values ->
  forall k i payload acc, i + k = hs_len values ->
  hp_tr (hp_hd g payload acc) (hp_encode_loop gr cfg w values k i payload)
        (fun p => hp_hd g p (acc ++ flat_map (enc_value cfg w) (skipn i (h_read values g)))).
Proof.
  intros Hv. set (V := h_read values g).
  assert (HV : length V = hs_len values) by (apply wf_read_len; exact Hv).
  induction k as [|k IH]; intros i payload acc Hik; cbn [hp_encode_loop].
  - apply tr_ret. intros h Hh. rewrite skipn_all2 by lia. cbn [flat_map]. rewrite app_nil_r. exact Hh.
  - eapply tr_pure with (V := nth i V 0%N).
    { intros h Hh. apply get_old; [exact (hd_prefix _ _ _ _ Hh)|exact Hv|lia]. }
    apply tr_fresh_load.
    eapply tr_bind; [apply tr_append_hd|]. intros p'.
    eapply tr_post; [apply IH; lia|]. intros p h Hh.
    rewrite (skipn_nth_cons V i 0%N) by lia. cbn [flat_map].
    rewrite <- app_assoc in Hh. rewrite Nat.add_1_r in Hh. exact Hh.
Qed.

Lemma tr_write_coils gr cfg a g values : hs_wf g values ->
  hp_tr (eq g) (hp_write_coils gr cfg a values)
        (fun r => hq_is r (client_request cfg (OpWriteCoils a (map hp_bool (h_read values g))))).
Proof.
  intros Hv. set (V := h_read values g).
  assert (HV : lenN (map hp_bool V) = N.of_nat (hs_len values)).
  { apply lenN_of_len. rewrite map_length. apply wf_read_len. exact Hv. }
  unfold hp_write_coils. cbn [client_request]. rewrite HV.
  destruct (1968 <? N.of_nat (hs_len values))%N; [apply tr_ret; intros; reflexivity|].
  destruct (u16 (N.of_nat (hs_len values)) =? 0)%N; [apply tr_ret; intros; reflexivity|].
  destruct (1968 <? u16 (N.of_nat (hs_len values)))%N; [apply tr_ret; intros; reflexivity|].
  destruct (65535 <? a + u16 (N.of_nat (hs_len values)) - 1)%N;
    [apply tr_ret; intros; reflexivity|].
  set (EB := encode_bools (map hp_bool V)).
  (* encodeBools: one more array on top of g *)
  eapply tr_bind with (Q := fun enc h => h = g ++ [EB] /\
                            enc = mkhs (length g) 0 (length EB) (length EB)).
  { intros h <-. unfold hp_encode_bools, hp_bind, hp_load. fold V. fold EB.
    rewrite fresh_bytes_eq. eexists _, _. split; [reflexivity|]. split; reflexivity. }
  intros enc. apply tr_fix. intros g1 [-> ->].
  assert (Hg1 : hp_hd g (mkhs (length g) 0 (length EB) (length EB)) EB (g ++ [EB])).
  { pose proof (hd_new g EB (length EB) (length EB) (le_n _) (le_n _)) as H.
    rewrite firstn_all in H. exact H. }
  set (enc := mkhs (length g) 0 (length EB) (length EB)) in *.
  eapply tr_bind; [apply tr_fresh_start|]. intros p0.
  apply tr_fresh_load.
  eapply tr_bind; [apply tr_append_hd|]. intros p1.
  eapply tr_bind; [apply tr_append_hd|]. intros p2.
  eapply tr_load_old; [exact (hd_wf _ _ _ _ Hg1)|]. rewrite (hd_read _ _ _ _ Hg1).
  eapply tr_bind; [apply tr_append_hd|]. intros p3.
  apply tr_ret. intros h Hh. cbn [hq_is]. exists (mkhq (c_unit cfg) 15 p3), (g ++ [EB]).
  cbn [hq_unit hq_fc hq_payload p_unit p_fc p_payload].
  split; [reflexivity|]. split; [reflexivity|]. split; [reflexivity|].
  repeat rewrite <- app_assoc in Hh. exact Hh.
Qed.

(* arguments must be slices of the heap the call starts on *)
Definition hs_args_wf (o : hp_op) (h : hp_heap) : Prop :=
  match o with
  | HpWriteBytes _ _ s | HpWriteCoils _ s | HpWriteRegs _ _ s => hs_wf h s
  | HpOther _ => True
  end.

Lemma tr_request gr cfg o g : hs_args_wf o g ->
  hp_tr (eq g) (hp_request false gr cfg o)
        (fun r => hq_is r (client_request cfg (hp_value_op o g))).
Proof.
  intros Ho. destruct o as [raw a s|a s|w a s|o']; cbn [hp_request hp_value_op hs_args_wf] in *.
  - eapply tr_bind; [apply tr_write_bytes_prep; exact Ho|]. intros v.
    apply tr_fix. intros g1 Hg1. cbn [client_request].
    rewrite <- (hd_read _ _ _ _ Hg1). apply tr_write_registers. exact (hd_wf _ _ _ _ Hg1).
  - apply tr_write_coils. exact Ho.
  - eapply tr_bind.
    { eapply tr_pre; [|apply (tr_encode_loop gr cfg w g s Ho (hs_len s) 0 hs_nil [])].
      - intros h <-. apply hd_nil.
      - reflexivity. }
    intros p. cbn [app skipn].
    apply tr_fix. intros g1 Hg1. cbn [client_request].
    rewrite <- (hd_read _ _ _ _ Hg1). apply tr_write_registers. exact (hd_wf _ _ _ _ Hg1).
  - destruct (client_request cfg o') as [req|x| |]; try (apply tr_ret; intros; reflexivity).
    eapply tr_bind; [apply tr_fresh_start|]. intros p.
    apply tr_ret. intros h Hh. cbn [hq_is]. exists (mkhq (p_unit req) (p_fc req) p), g.
    cbn [hq_unit hq_fc hq_payload].
    split; [reflexivity|]. split; [reflexivity|]. split; [reflexivity|]. exact Hh.
Qed.

(* ------------------------------------------------------- frame assembly *)

Definition value_frame (fr : framing) (txn : N) (p : pdu) : list N :=
  match fr with FMbap => assemble_mbap txn p | FRtu => assemble_rtu p end.

Lemma tr_assemble gr fr txn g q pl : hs_wf g (hq_payload q) -> h_read (hq_payload q) g = pl ->
  hp_tr (eq g) (hp_assemble gr fr txn q)
        (fun f h' => h_read f h' = value_frame fr txn (mkpdu (hq_unit q) (hq_fc q) pl)).
Proof.
  intros Hw Hr.
  assert (Hl : N.of_nat (hs_len (hq_payload q)) = lenN pl).
  { symmetry. apply lenN_of_len. subst pl. apply wf_read_len. exact Hw. }
  destruct fr; cbn [hp_assemble value_frame].
  - eapply tr_bind; [apply tr_fresh_start|]. intros f0.
    eapply tr_bind; [apply tr_append_hd|]. intros f1.
    apply tr_fresh_load.
    eapply tr_bind; [apply tr_append_hd|]. intros f2.
    eapply tr_bind; [apply tr_append_hd|]. intros f3.
    eapply tr_bind; [apply tr_append_hd|]. intros f4.
    eapply tr_load_old; [exact Hw|]. rewrite Hr.
    eapply tr_post; [apply tr_append_hd|]. intros f h Hh. cbn beta.
    rewrite (hd_read _ _ _ _ Hh). unfold assemble_mbap. cbn [p_unit p_fc p_payload].
    rewrite Hl. repeat rewrite <- app_assoc. reflexivity.
  - eapply tr_pre with (P' := hp_hd g hs_nil []); [intros h <-; apply hd_nil|].
    eapply tr_bind; [apply tr_append_hd|]. intros a1.
    eapply tr_bind; [apply tr_append_hd|]. intros a2.
    eapply tr_load_old; [exact Hw|]. rewrite Hr.
    eapply tr_bind; [apply tr_append_hd|]. intros a3.
    apply tr_load_hd.
    apply tr_fresh_load.
    eapply tr_post; [apply tr_append_hd|]. intros f h Hh. cbn beta.
    rewrite (hd_read _ _ _ _ Hh). unfold assemble_rtu. cbn [p_unit p_fc p_payload app].
    reflexivity.
Qed.

(* ------------------------------------------------------------- the link *)

Lemma value_call_writes fr cfg txn o e s :
  cr_writes (client_call fr cfg txn o e s) =
  match client_request cfg o with
  | Ok req => [value_frame fr (match fr with FMbap => u16 (txn + 1) | FRtu => txn end) req]
  | _ => []
  end.
Proof.
  unfold client_call. destruct (client_request cfg o) as [req|x| |]; try reflexivity.
  unfold transport_exchange. destruct fr; cbn [value_frame].
  - destruct (mbap_read_response _ _ _ _) as [r rest].
    destruct r as [res|x| |]; try reflexivity. destruct (unit_check req res); reflexivity.
  - destruct (rtu_read_response _ _) as [r rest].
    destruct r as [res|x| |]; try reflexivity. destruct (unit_check req res); reflexivity.
Qed.

(* what a call puts on the wire is what the value-level model (C01) says,
   applied to the content of the argument slice at the time of the call *)
Lemma call_writes gr fr cfg txn o e s h : hs_args_wf o h ->
  hr_writes (fst (hp_call gr fr cfg txn o e s h)) =
  cr_writes (client_call fr cfg txn (hp_value_op o h) e s).
Proof.
  intros Ho. rewrite value_call_writes. unfold hp_call, hp_call_gen.
  destruct (tr_request gr cfg o h Ho h eq_refl) as (r & h1 & E1 & Hr). rewrite E1.
  destruct (client_request cfg (hp_value_op o h)) as [req|x| |]; cbn [hq_is] in Hr;
    try (subst r; reflexivity).
  destruct Hr as (q & g' & -> & Hu & Hf & Hhd).
  set (txn' := match fr with FMbap => u16 (txn + 1) | FRtu => txn end).
  destruct (tr_assemble gr fr txn' h1 q (p_payload req) (hd_wf _ _ _ _ Hhd) (hd_read _ _ _ _ Hhd)
              h1 eq_refl) as (f & h2 & E2 & Hfr).
  rewrite E2. rewrite Hu, Hf in Hfr.
  replace (mkpdu (p_unit req) (p_fc req) (p_payload req)) with req in Hfr by (destruct req; reflexivity).
  destruct (transport_exchange fr txn _ e s) as [[[r0 w0] rest] t'].
  destruct r0 as [res|x| |]; cbn [fst hr_writes]; try (rewrite Hfr; reflexivity).
  destruct (hp_receive _ _ _ _ _ _ _ _) as [v h3|h3]; cbn [fst hr_writes]; rewrite Hfr; reflexivity.
Qed.

Lemma wf_keeps h h' t : hp_keeps (length h) h h' -> hs_wf h t -> hs_wf h' t.
Proof.
  intros K [Hl [Hc|[Ha Hb]]]; split; try exact Hl; [left; exact Hc|right].
  rewrite (keeps_arr _ _ _ K Ha). destruct K as [_ K]. split; lia.
Qed.

Lemma wf_in h t : hs_wf h t -> hs_in 0 (length h) t.
Proof. intros [Hl [Hc|[Ha _]]]; split; try exact Hl; [left; exact Hc|right; lia]. Qed.

Lemma value_op_keeps o h h' : hp_keeps (length h) h h' -> hs_args_wf o h ->
  hp_value_op o h' = hp_value_op o h.
Proof.
  intros K Ho. destruct o as [raw a s|a s|w a s|o']; cbn [hp_value_op hs_args_wf] in *;
    try rewrite (keeps_read _ _ _ K (wf_in _ _ Ho)); reflexivity.
Qed.

(* the same call again - after any events that keep the caller's arrays, in
   particular after any calls - puts the same bytes on the wire (for the same
   transaction counter) *)
Lemma repeat_same_bytes gr fr cfg txn o e1 s1 e2 s2 h h' :
  hs_args_wf o h -> hp_keeps (length h) h h' ->
  hr_writes (fst (hp_call gr fr cfg txn o e2 s2 h')) =
  hr_writes (fst (hp_call gr fr cfg txn o e1 s1 h)).
Proof.
  intros Ho K.
  assert (Ho' : hs_args_wf o h').
  { destruct o; cbn [hs_args_wf] in *; try exact I; eapply wf_keeps; eassumption. }
  rewrite (call_writes _ _ _ _ _ _ _ _ Ho'), (call_writes _ _ _ _ _ _ _ _ Ho).
  rewrite !value_call_writes. rewrite (value_op_keeps o h h' K Ho). reflexivity.
Qed.

(* ------------------------------------ the statements of C18 (Spec terms) *)

Lemma keeps_memory h h' : hp_keeps (length h) h h' -> memory_untouched h h'.
Proof. intros K id a H. eapply keeps_nth_error; eassumption. Qed.

Lemma caller_slice_wf h s : caller_slice h s <-> hs_wf h s.
Proof.
  unfold caller_slice, hs_wf, hp_arr. split; intros [Hl Hc]; (split; [exact Hl|]).
  - destruct Hc as [Hc|(a & Ha & Hb)]; [left; exact Hc|right].
    split; [apply nth_error_Some; congruence|].
    rewrite (nth_error_nth _ _ [] Ha). exact Hb.
  - destruct Hc as [Hc|[Ha Hb]]; [left; exact Hc|right].
    exists (nth (hs_arr s) h []). split; [apply nth_error_nth'; exact Ha|exact Hb].
Qed.

Lemma args_caller_wf o h : args_are_caller_slices o h <-> hs_args_wf o h.
Proof.
  unfold args_are_caller_slices. destruct o; cbn [op_slice hs_args_wf];
    try apply caller_slice_wf; tauto.
Qed.

(* T1: every call, every argument geometry, every encoding, every heap *)
Lemma c18_memory gr fr cfg txn o e s h :
  memory_untouched h (snd (hp_call gr fr cfg txn o e s h)).
Proof. apply keeps_memory. apply call_frame. Qed.

Lemma c18_slice gr fr cfg txn o e s h t : caller_slice h t ->
  slice_untouched h (snd (hp_call gr fr cfg txn o e s h)) t.
Proof.
  intros Ht. apply caller_slice_wf, wf_in in Ht.
  pose proof (call_frame gr fr cfg txn o e s h) as [K _].
  unfold slice_untouched, spec_contents, spec_room, spec_cells.
  split; apply (keeps_cells _ _ _ _ K Ht); [apply Ht|lia].
Qed.

Lemma c18_wire gr fr cfg txn o e s h : args_are_caller_slices o h ->
  hr_writes (fst (hp_call gr fr cfg txn o e s h)) =
  cr_writes (client_call fr cfg txn (hp_value_op o h) e s).
Proof. intros Ho. apply call_writes. apply args_caller_wf. exact Ho. Qed.

Lemma frame_body_txn fr t1 t2 p : frame_body fr (value_frame fr t1 p) = frame_body fr (value_frame fr t2 p).
Proof. destruct fr; reflexivity. Qed.

Lemma c18_repeat gr fr c evs cfg txn1 txn2 o e1 s1 e2 s2 :
  args_are_caller_slices o (hc_heap c) ->
  map (frame_body fr) (hr_writes (fst (hp_call gr fr cfg txn2 o e2 s2 (hc_heap (hp_run gr fr c evs))))) =
  map (frame_body fr) (hr_writes (fst (hp_call gr fr cfg txn1 o e1 s1 (hc_heap c)))).
Proof.
  intros Ho. apply args_caller_wf in Ho. pose proof (run_frame gr fr evs c) as K.
  assert (Ho' : hs_args_wf o (hc_heap (hp_run gr fr c evs))).
  { destruct o; cbn [hs_args_wf] in *; try exact I; eapply wf_keeps; eassumption. }
  rewrite (call_writes _ _ _ _ _ _ _ _ Ho'), (call_writes _ _ _ _ _ _ _ _ Ho).
  rewrite !value_call_writes. rewrite (value_op_keeps o _ _ K Ho).
  destruct (client_request cfg (hp_value_op o (hc_heap c))); try reflexivity.
  cbn [map]. f_equal. apply frame_body_txn.
Qed.

Lemma c18_repeat_once gr fr cfg txn1 txn2 o e1 s1 e2 s2 h :
  args_are_caller_slices o h ->
  map (frame_body fr)
      (hr_writes (fst (hp_call gr fr cfg txn2 o e2 s2 (snd (hp_call gr fr cfg txn1 o e1 s1 h))))) =
  map (frame_body fr) (hr_writes (fst (hp_call gr fr cfg txn1 o e1 s1 h))).
Proof.
  intros Ho.
  pose proof (c18_repeat gr fr (mkhc h txn1 [] []) [HeCall cfg o e1 s1] cfg txn1 txn2 o e1 s1 e2 s2 Ho) as H.
  cbn [hp_run fold_left hp_step hc_heap hc_txn hc_left app] in H.
  destruct (hp_call gr fr cfg txn1 o e1 s1 h) as [r h'] eqn:E. cbn [hc_heap snd fst] in *. exact H.
Qed.

(* T2 *)
Lemma c18_fresh gr fr cfg txn o e s h :
  Forall (allocated_between h (snd (hp_call gr fr cfg txn o e s h)))
         (hv_slices (hr_res (fst (hp_call gr fr cfg txn o e s h)))).
Proof.
  pose proof (call_frame gr fr cfg txn o e s h) as [_ Q]. unfold hv_in in Q.
  eapply Forall_impl; [|exact Q]. intros t [_ Ht]. exact Ht.
Qed.

Lemma c18_stable gr fr h0 txn0 left0 evs1 evs2 r :
  let c1 := hp_run gr fr (mkhc h0 txn0 left0 []) evs1 in
  let c2 := hp_run gr fr c1 evs2 in
  In r (hc_results c1) ->
  slice_untouched (hc_heap c1) (hc_heap c2) r.
Proof.
  intros c1 c2 Hr.
  assert (Hinv : hc_inv c1) by (apply run_inv; constructor).
  unfold slice_untouched, spec_contents, spec_room, spec_cells.
  unfold hc_inv in Hinv. rewrite Forall_forall in Hinv. pose proof (Hinv r Hr) as Hin.
  split; apply (keeps_cells _ _ _ _ (run_frame gr fr evs2 c1) Hin); [apply Hin|lia].
Qed.

(* T3: the pinned writeBytes *)
Lemma c18_pinned_swap :
  let h := [[1; 2; 3; 4]]%N in
  nth_error (snd (hp_call_pinned (fun _ => 0) FMbap (mkcfg 1 LittleE HighFirst) 0
                    (HpWriteBytes false 5 (mkhs 0 0 4 4)) Stall [] h)) 0 = Some [2; 1; 4; 3]%N.
Proof. vm_compute. reflexivity. Qed.

Lemma c18_pinned_pad :
  let h := [[9; 1; 2; 3; 7; 8]]%N in
  nth_error (snd (hp_call_pinned (fun _ => 0) FRtu (mkcfg 1 BigE HighFirst) 0
                    (HpWriteBytes true 5 (mkhs 0 1 3 4)) Stall [] h)) 0 = Some [9; 1; 2; 3; 0; 8]%N.
Proof. vm_compute. reflexivity. Qed.

Lemma c18_pinned :
  (exists h t cfg, caller_slice h t /\
     ~ slice_untouched h (snd (hp_call_pinned (fun _ => 0) FMbap cfg 0 (HpWriteBytes false 5 t) Stall [] h)) t) /\
  (exists h t cfg, caller_slice h t /\
     spec_contents (snd (hp_call_pinned (fun _ => 0) FRtu cfg 0 (HpWriteBytes true 5 t) Stall [] h)) t =
       spec_contents h t /\
     spec_room (snd (hp_call_pinned (fun _ => 0) FRtu cfg 0 (HpWriteBytes true 5 t) Stall [] h)) t <>
       spec_room h t).
Proof.
  split.
  - exists [[1; 2; 3; 4]]%N, (mkhs 0 0 4 4), (mkcfg 1 LittleE HighFirst). split.
    + split; [cbn; lia|right]. exists [1; 2; 3; 4]%N. split; [reflexivity|cbn; lia].
    + intros [H _]. vm_compute in H. discriminate H.
  - exists [[9; 1; 2; 3; 7; 8]]%N, (mkhs 0 1 3 4), (mkcfg 1 BigE HighFirst). split; [|split].
    + split; [cbn; lia|right]. exists [9; 1; 2; 3; 7; 8]%N. split; [reflexivity|cbn; lia].
    + vm_compute. reflexivity.
    + vm_compute. intros H. discriminate H.
Qed.
