(* C06, client-level clauses: a corrupted RTU reply is never reported as
   success; a wrong CRC field is a bad-CRC error; after a rejection that
   triggers the resynchronisation flush the next exchange succeeds; and the
   refutation of the unconditional recovery clause (finding F8). *)
From Modbus Require Import Base.Bytes Model.Crc Model.Encoding Model.Wire Model.Client
  Spec.ModbusSpec Spec.ClientSpec Proofs.CrcP Proofs.FramingP Proofs.ClientRespP.
From Coq Require Import ZifyBool ZifyNat ZifyN.
Ltac Zify.zify_post_hook ::= Z.div_mod_to_equations.

(* ------------------------------------------------ reply length is fixed by the request *)

Definition reply_len (o : op) : N :=
  match o with
  | OpReadBools _ _ q => 1 + (q + 7) / 8
  | OpReadRegs w _ q _ => 1 + 2 * (q * w)
  | OpReadBytes _ _ _ _ => 1 + 2 * op_count o
  | _ => 4
  end.

Lemma be16_len v : length (be16 v) = 2%nat.
Proof. reflexivity. Qed.

Lemma answers_payload_len cfg o res vs : op_wf o -> answers cfg o res vs ->
  lenN (p_payload res) = reply_len o.
Proof.
  intros Hwf (_ & _ & H).
  destruct o as [di a q|w a q rt|raw a q rt|a v|a vs'|a v|w a vs'|raw a bs]; cbn [reply_len].
  - destruct H as (data & l & Hp & Hl & _). rewrite Hp, lenN_cons. lia.
  - destruct H as (xs & Hp & Hl & _). rewrite Hp, lenN_cons, spec_regs_len. lia.
  - destruct H as (data & Hp & Hl & _). rewrite Hp, lenN_cons. lia.
  - destruct H as (Hp & _). rewrite Hp. destruct v; reflexivity.
  - destruct H as (Hp & _). rewrite Hp. reflexivity.
  - destruct H as (Hp & _). rewrite Hp. unfold lenN. rewrite app_length, be16_len.
    unfold spec_bytes, layout, words_of. cbn [seq rev app map]. destruct (c_word cfg), (c_endian cfg); reflexivity.
  - destruct H as (Hp & _). rewrite Hp. reflexivity.
  - destruct H as (Hp & _). rewrite Hp. reflexivity.
Qed.

Lemma spec_frame_rtu_len t p :
  length (spec_frame FRtu t p) = (length (p_payload p) + 4)%nat.
Proof. unfold spec_frame. rewrite !app_length. cbn [length]. lia. Qed.

Lemma app_eq_len {A} (a b c d : list A) : a ++ b = c ++ d -> length a = length c -> a = c /\ b = d.
Proof.
  revert c; induction a as [|x a IH]; intros [|y c] H Hl; try discriminate.
  - split; [reflexivity|exact H].
  - cbn in H. injection H as -> H. cbn in Hl. destruct (IH c H ltac:(lia)) as [-> ->]. split; reflexivity.
Qed.

Lemma xor_bytes_len a b : length a = length b -> length (xor_bytes a b) = length a.
Proof.
  intros H. unfold xor_bytes. rewrite map_length, combine_length. lia.
Qed.

Lemma xor_bytes_bytes a b : bytesb a = true -> bytesb b = true -> bytesb (xor_bytes a b) = true.
Proof.
  intros Ha Hb. rewrite bytesb_Forall in *. unfold xor_bytes. rewrite Forall_forall in *.
  intros x Hin. apply in_map_iff in Hin as [[u v] [<- Hin]]. cbn [fst snd].
  apply lxor_byte; [apply Ha; eapply in_combine_l; eauto|apply Hb; eapply in_combine_r; eauto].
Qed.

(* ------------------------------------------------ T6: corruption is never success *)

Theorem corrupted_never_success cfg txn o e res vs err post :
  op_wf o -> cfg_wf cfg -> txn < 65536 -> valid_op o = true ->
  bytesb (p_payload res) = true -> answers cfg o res vs ->
  let v := spec_frame FRtu 0 res in
  bytesb err = true -> length err = length v -> low_weight err -> bytesb post = true ->
  forall vs', cr_res (client_call FRtu cfg txn o e (xor_bytes v err ++ post)) <> Ok vs'.
Proof.
  intros Hwf Hcfg Ht V Hpb Hans v Heb Hel Hlw Hpost vs' Hok.
  pose proof Hans as (Hu & Hf & _).
  (* the valid frame is body ++ crc_bytes body *)
  assert (Hbody : bytesb ([p_unit res; p_fc res] ++ p_payload res) = true).
  { cbn [app]. rewrite !bytesb_cons. rewrite Hu, Hf. split; [exact Hcfg|].
    split; [|exact Hpb]. pose proof (spec_fc_byte o). lia. }
  assert (Hv : v = ([p_unit res; p_fc res] ++ p_payload res) ++ crc_bytes ([p_unit res; p_fc res] ++ p_payload res)).
  { unfold v. rewrite (spec_frame_rtu 0 res Hbody). reflexivity. }
  assert (Hvb : bytesb v = true).
  { rewrite Hv, bytesb_app, Hbody. apply le16_bytes. }
  assert (Hsb : bytesb (xor_bytes v err ++ post) = true).
  { rewrite bytesb_app, Hpost, andb_true_r. apply xor_bytes_bytes; assumption. }
  destruct (client_sound FRtu cfg txn o e _ vs' Hwf Hcfg Ht Hsb Hok)
    as (_ & res' & pre & post' & Hans' & Hs & _ & Hpre).
  subst pre. cbn [app] in Hs.
  (* both frames answer the same request: same length *)
  pose proof (answers_payload_len cfg o res vs Hwf Hans) as L1.
  pose proof (answers_payload_len cfg o res' vs' Hwf Hans') as L2.
  assert (Hlen : length (xor_bytes v err) = length (spec_frame FRtu (u16 (txn + 1)) res')).
  { rewrite xor_bytes_len by (symmetry; exact Hel). unfold v. rewrite !spec_frame_rtu_len.
    unfold lenN in *. lia. }
  destruct (app_eq_len _ _ _ _ Hs Hlen) as [Hx _].
  (* the accepted frame carries a matching CRC: contradiction with detection *)
  destruct Hans' as (Hu' & Hf' & _).
  assert (Hxb : bytesb (xor_bytes v err) = true) by (apply xor_bytes_bytes; assumption).
  assert (Hbody' : bytesb ([p_unit res'; p_fc res'] ++ p_payload res') = true).
  { rewrite Hx in Hxb. unfold spec_frame in Hxb. rewrite bytesb_app in Hxb.
    apply andb_true_iff in Hxb as [H _]. exact H. }
  rewrite (spec_frame_rtu _ res' Hbody') in Hx. unfold rtu_frame in Hx.
  destruct (crc_bytes_accept _ Hbody') as (lo & hi & Ec & Hc). rewrite Ec in Hx.
  rewrite Hv in Hx.
  pose proof (corrupted_frame_rejected _ err _ lo hi Hbody Heb Hlw
                (eq_trans Hel (f_equal (@length N) Hv)) Hx) as Hrej.
  congruence.
Qed.

(* ------------------------------------------------ T7: a wrong CRC field is a bad-CRC error *)

Lemma read_rtu_bad_crc e unit fc b2 data lo hi rest :
  expected_len fc b2 = Some (lenN data) -> lenN data <= 251 ->
  crc_is_equal (crc16 ([unit; fc; b2] ++ data)) lo hi = false ->
  read_rtu e (([unit; fc; b2] ++ data) ++ [lo; hi] ++ rest) = (Err EBadCRC, rest).
Proof.
  intros He Hl Hc. unfold read_rtu.
  rewrite <- !app_assoc. rewrite read_full_app by reflexivity.
  rewrite He. replace (256 <? 3 + (lenN data + 2)) with false by lia.
  replace (data ++ [lo; hi] ++ rest) with ((data ++ [lo; hi]) ++ rest) by (rewrite <- app_assoc; reflexivity).
  rewrite read_full_app by (rewrite app_length; cbn [length]; unfold lenN; lia).
  replace (N.to_nat (lenN data)) with (length data) by (unfold lenN; lia).
  rewrite firstn_app, Nat.sub_diag, firstn_all, firstn_O, app_nil_r.
  rewrite skipn_app, Nat.sub_diag, skipn_all. cbn [skipn app].
  cbn [app] in Hc. rewrite Hc. reflexivity.
Qed.

(* ------------------------------------------------ T8: recovery after a flushing rejection *)

Definition flushes (x : err) : bool :=
  match x with EBadCRC | EProtocol | EShortFrame => true | _ => false end.

Lemma read_rtu_rest_len e s r rest : read_rtu e s = (r, rest) -> (length rest <= length s)%nat.
Proof.
  unfold read_rtu. destruct (read_full 3 s) as [hdr r1|got] eqn:E1.
  2:{ destruct got; intros H; inversion H; cbn; lia. }
  apply read_full_ok in E1 as [Hs Hl]. subst s. rewrite app_length.
  destruct hdr as [|unit [|fc [|b2 [|x hdr]]]]; try discriminate Hl.
  destruct (expected_len fc b2) as [n|]; [|intros H; inversion H; subst; lia].
  destruct (256 <? 3 + (n + 2)); [intros H; inversion H; subst; lia|].
  destruct (read_full (N.to_nat (n + 2)) r1) as [body r2|got] eqn:E2.
  2:{ destruct e, got; intros H; inversion H; cbn; lia. }
  apply read_full_ok in E2 as [Hr1 Hb]. subst r1. rewrite app_length.
  destruct (skipn (N.to_nat n) body) as [|lo [|hi [|y tl]]]; try (intros H; inversion H; subst; lia).
  destruct (crc_is_equal _ lo hi); intros H; inversion H; subst; lia.
Qed.

Theorem flush_empties_line e s x rest : (length s <= 1024)%nat ->
  rtu_read_response e s = (Err x, rest) -> flushes x = true -> rest = [].
Proof.
  intros Hl. unfold rtu_read_response. destruct (read_rtu e s) as [r s'] eqn:E.
  pose proof (read_rtu_rest_len e s r s' E) as Hr.
  assert (Hsk : skipn 1024 s' = []) by (apply skipn_all2; lia).
  destruct r as [p|y| |]; try (intros H; discriminate H).
  destruct y; intros H Hf; inversion H; subst; try exact Hsk; discriminate Hf.
Qed.

(* client level: when the transport rejects the reply with one of the three
   flushing errors, the call reports that error, the line is clean afterwards
   and the next valid reply is accepted *)
Theorem recovery_after_flush cfg txn o e s req x rest o2 e2 res2 vs2 post :
  client_request cfg o = Ok req -> (length s <= 1024)%nat ->
  rtu_read_response e s = (Err x, rest) -> flushes x = true ->
  op_wf o2 -> cfg_wf cfg -> valid_op o2 = true ->
  bytesb (p_payload res2) = true -> answers cfg o2 res2 vs2 ->
  let r1 := client_call FRtu cfg txn o e s in
  cr_res r1 = Err x /\ cr_rest r1 = [] /\
  let r2 := client_call FRtu cfg (cr_txn r1) o2 e2 (cr_rest r1 ++ spec_frame FRtu 0 res2 ++ post) in
  cr_res r2 = Ok vs2 /\ cr_rest r2 = post.
Proof.
  intros Hreq Hl Er Hfl Hwf2 Hcfg V2 Hb2 Hans2. cbn zeta.
  pose proof (flush_empties_line e s x rest Hl Er Hfl) as Hrest. subst rest.
  assert (H1 : cr_res (client_call FRtu cfg txn o e s) = Err x /\
               cr_rest (client_call FRtu cfg txn o e s) = []).
  { unfold client_call, transport_exchange. rewrite Hreq, Er. split; reflexivity. }
  destruct H1 as [H1 H2]. split; [exact H1|]. split; [exact H2|]. rewrite H2. cbn [app].
  apply client_complete_rtu; assumption.
Qed.

(* ------------------------------------------------ F8: the unconditional recovery clause is false *)

(* A single-bit flip of bit 7 of the function code of a valid reply whose first
   data bytes happen to equal the CRC of the shortened frame: the prefix parses
   as a complete exception frame with a valid CRC. It is (correctly) not a
   success, but nothing is flushed, and the NEXT exchange with a well-behaved
   device fails on the leftover bytes. *)
Definition f8_cfg := mkcfg 1 BigE HighFirst.
Definition f8_op := OpReadRegs 1 0 2 Holding.
Definition f8_reply := mkpdu 1 3 [4; 0x40; 0xF3; 0x12; 0x34].
Definition f8_flip : list N := [0; 0x80; 0; 0; 0; 0; 0; 0; 0].
Definition f8_next := mkpdu 1 3 [4; 0; 1; 0; 2].

Theorem recovery_refuted :
  answers f8_cfg f8_op f8_reply (VNums [0x40F3; 0x1234]) /\
  low_weight f8_flip /\ length f8_flip = length (spec_frame FRtu 0 f8_reply) /\
  answers f8_cfg f8_op f8_next (VNums [1; 2]) /\
  let r1 := client_call FRtu f8_cfg 0 f8_op Stall (xor_bytes (spec_frame FRtu 0 f8_reply) f8_flip) in
  cr_res r1 = Err (EExc 4) /\ cr_rest r1 <> [] /\
  let r2 := client_call FRtu f8_cfg (cr_txn r1) f8_op Stall (cr_rest r1 ++ spec_frame FRtu 0 f8_next) in
  cr_res r2 = Err EProtocol.
Proof.
  split.
  { split; [reflexivity|]. split; [reflexivity|]. exists [0x40F3; 0x1234].
    split; [reflexivity|]. split; [reflexivity|]. split; [|reflexivity].
    repeat constructor. }
  split.
  { change f8_flip with (zeros 1 ++ [0x80] ++ zeros 7). apply lw_burst.
    split; [reflexivity|]. split; [cbn; lia|]. exists 7, 1. cbn. lia. }
  split; [reflexivity|].
  split.
  { split; [reflexivity|]. split; [reflexivity|]. exists [1; 2].
    split; [reflexivity|]. split; [reflexivity|]. split; [|reflexivity].
    repeat constructor. }
  vm_compute. repeat split; discriminate.
Qed.
