(* The transport model (Model/Transport.v) run on a world that is a byte
   stream ([stream_world]) computes the framing model of Model/Wire.v:
   readMBAPFrame / readResponse / readRTUFrame / discard. Model level only
   (no GoLite evaluation). *)
From Coq Require Import List NArith Lia Bool.
From Coq Require Import ZifyBool ZifyNat ZifyN.
Import ListNotations.
From Modbus Require Import Base.Bytes Model.Crc Model.Wire Model.GoLite Model.Transport.
Open Scope N_scope.

(* ------------------------------------------------------------------ pairwise distinct numbers *)

Fixpoint distinctb (l : list N) : bool :=
  match l with
  | [] => true
  | x :: t => andb (negb (existsb (N.eqb x) t)) (distinctb t)
  end.

Fixpoint all_ne (l : list N) : Prop :=
  match l with
  | [] => True
  | x :: t => fold_right (fun y P => x <> y /\ P) True t /\ all_ne t
  end.

Lemma existsb_false_ne x t :
  existsb (N.eqb x) t = false -> fold_right (fun y P => x <> y /\ P) True t.
Proof.
  induction t as [|y t IH]; cbn [existsb fold_right]; intros H; [exact I|].
  apply orb_false_iff in H as [H1 H2]. split; [|exact (IH H2)].
  apply N.eqb_neq; exact H1.
Qed.

Lemma distinctb_all_ne l : distinctb l = true -> all_ne l.
Proof.
  induction l as [|x t IH]; cbn [distinctb all_ne]; intros H; [exact I|].
  apply andb_true_iff in H as [H1 H2]. split; [|exact (IH H2)].
  apply existsb_false_ne. apply negb_true_iff; exact H1.
Qed.

(* ------------------------------------------------------------------ lists of bytes *)

Lemma unbytes_map s : bytesb s = true -> unbytes (map VN s) = s.
Proof.
  induction s as [|a s IH]; cbn [map unbytes]; intros H; [reflexivity|].
  change (bytesb (a :: s)) with (andb (is_byte a) (bytesb s)) in H.
  apply andb_true_iff in H as [H1 H2]. unfold is_byte in H1.
  rewrite (IH H2). f_equal. apply N.mod_small. lia.
Qed.

Lemma unbytes_bytes l : bytesb (unbytes l) = true.
Proof.
  induction l as [|v l IH]; [reflexivity|].
  destruct v as [n|b|l']; cbn [unbytes];
    match goal with |- bytesb (?x :: ?t) = true =>
      change (andb (is_byte x) (bytesb t) = true) end;
    rewrite IH; unfold is_byte; lia.
Qed.

Lemma bytesb_firstn n s : bytesb s = true -> bytesb (firstn n s) = true.
Proof.
  intros H. rewrite <- (firstn_skipn n s), bytesb_app in H.
  apply andb_true_iff in H as [H _]; exact H.
Qed.

Lemma bytesb_skipn n s : bytesb s = true -> bytesb (skipn n s) = true.
Proof.
  intros H. rewrite <- (firstn_skipn n s), bytesb_app in H.
  apply andb_true_iff in H as [_ H]; exact H.
Qed.

Lemma read_full_full n s : (n <= length s)%nat -> read_full n s = RFull (firstn n s) (skipn n s).
Proof. intros H. unfold read_full. destruct (Nat.leb_spec n (length s)); [reflexivity|lia]. Qed.

Lemma read_full_short n s : (length s < n)%nat -> read_full n s = RShort s.
Proof. intros H. unfold read_full. destruct (Nat.leb_spec n (length s)); [lia|reflexivity]. Qed.

Lemma read_mbap_bytes e s : bytesb s = true -> bytesb (snd (read_mbap e s)) = true.
Proof.
  intros H. unfold read_mbap, read_full.
  pose proof (bytesb_skipn 7 s H) as H7.
  destruct (Nat.leb 7 (length s)); [|reflexivity].
  generalize dependent (skipn 7 s). intros rest H7.
  destruct (firstn 7 s) as [|t1 [|t0 [|p1 [|p0 [|l1 [|l0 [|unit [|x hdr]]]]]]]];
    try exact H7.
  destruct (260 <? _); [exact H7|].
  destruct (_ <=? 1); [exact H7|].
  destruct (Nat.leb _ (length rest)); [|reflexivity].
  pose proof (bytesb_skipn (N.to_nat (l1 * 256 + l0 - 1)) rest H7) as H8.
  destruct (negb _); [exact H8|].
  destruct (firstn _ rest); exact H8.
Qed.

Lemma mbap_read_response_S f e txn s :
  mbap_read_response (S f) e txn s =
  match read_mbap e s with
  | (FErr EUnknownProto, s') => mbap_read_response f e txn s'
  | (FErr x, s') => (Err x, s')
  | (FOk p t, s') => if t =? txn then (Wire.Ok p, s') else mbap_read_response f e txn s'
  end.
Proof. reflexivity. Qed.

Lemma t_read_response_S T C f last w :
  t_read_response T C (S f) last w =
  let '(w1, p, txn, e) := t_read_mbap T C w in
  if e =? c_unkproto C then t_read_response T C f last w1
  else if negb (e =? 0) then Some (w1, p, e)
  else if negb (last =? txn) then t_read_response T C f last w1
  else Some (w1, p, 0).
Proof. reflexivity. Qed.

(* ------------------------------------------------------------------ the stream world *)

Section Stream.
  Variables (C : tcodes) (e : send) (sc ceof : N).
  Hypothesis codes_distinct :
    distinctb [0; 1; sc; ceof; c_ueof C; c_proto C; c_unkproto C; c_badcrc C; c_short C] = true.

  Definition SW := stream_world e sc ceof (c_ueof C).

  Definition err_class (c : N) : err :=
    if c =? sc then ETimeout
    else if c =? c_proto C then EProtocol
    else if c =? c_unkproto C then EUnknownProto
    else if c =? c_badcrc C then EBadCRC
    else if c =? c_short C then EShortFrame
    else EIO.

  Lemma codes_all :
    all_ne [0; 1; sc; ceof; c_ueof C; c_proto C; c_unkproto C; c_badcrc C; c_short C].
  Proof. apply distinctb_all_ne. exact codes_distinct. Qed.

  Ltac codes :=
    let D := fresh "D" in
    pose proof codes_all as D; cbn [all_ne fold_right] in D; decompose [and] D; clear D.

  (* decide the comparisons between two distinct (or two identical) codes *)
  Ltac code_eqb :=
    repeat match goal with
           | |- context [N.eqb ?a ?b] =>
               first [ rewrite (N.eqb_refl a)
                     | let E := fresh "E" in
                       destruct (N.eqb_spec a b) as [E|E]; [exfalso; congruence | clear E] ]
           end.

  (* the error value of a short read *)
  Definition short_code (got : list N) : N :=
    match e, got with
    | Stall, _ => sc
    | Reset, _ => 1
    | Closed, [] => ceof
    | Closed, _ => c_ueof C
    end.

  Lemma ec_sc : err_class sc = ETimeout.
  Proof. unfold err_class. rewrite N.eqb_refl. reflexivity. Qed.
  Lemma ec_one : err_class 1 = EIO.
  Proof. codes. unfold err_class. code_eqb. reflexivity. Qed.
  Lemma ec_eof : err_class ceof = EIO.
  Proof. codes. unfold err_class. code_eqb. reflexivity. Qed.
  Lemma ec_ueof : err_class (c_ueof C) = EIO.
  Proof. codes. unfold err_class. code_eqb. reflexivity. Qed.
  Lemma ec_proto : err_class (c_proto C) = EProtocol.
  Proof. codes. unfold err_class. code_eqb. reflexivity. Qed.
  Lemma ec_unkproto : err_class (c_unkproto C) = EUnknownProto.
  Proof. codes. unfold err_class. code_eqb. reflexivity. Qed.
  Lemma ec_badcrc : err_class (c_badcrc C) = EBadCRC.
  Proof. codes. unfold err_class. code_eqb. reflexivity. Qed.
  Lemma ec_short : err_class (c_short C) = EShortFrame.
  Proof. codes. unfold err_class. code_eqb. reflexivity. Qed.

  Lemma nz_sc : sc <> 0. Proof. codes. congruence. Qed.
  Lemma nz_one : 1 <> 0. Proof. discriminate. Qed.
  Lemma nz_eof : ceof <> 0. Proof. codes. congruence. Qed.
  Lemma nz_proto : c_proto C <> 0. Proof. codes. congruence. Qed.
  Lemma nz_unkproto : c_unkproto C <> 0. Proof. codes. congruence. Qed.
  Lemma nz_badcrc : c_badcrc C <> 0. Proof. codes. congruence. Qed.
  Lemma nz_short : c_short C <> 0. Proof. codes. congruence. Qed.

  Ltac fin :=
    cbn [fst snd]; repeat split;
    auto using ec_sc, ec_one, ec_eof, ec_ueof, ec_proto, ec_unkproto, ec_badcrc, ec_short,
               nz_sc, nz_one, nz_eof, nz_proto, nz_unkproto, nz_badcrc, nz_short.

  Lemma ec_unkproto_inv c : err_class c = EUnknownProto -> c = c_unkproto C.
  Proof.
    unfold err_class.
    repeat match goal with
           | |- context [N.eqb ?a ?b] => destruct (N.eqb_spec a b)
           end; intros H; try discriminate H; assumption.
  Qed.

  Lemma short_code_nz got : short_code got <> 0.
  Proof. codes. unfold short_code. destruct e; [|destruct got|]; congruence. Qed.

  Lemma short_code_class got : err_class (short_code got) = short_err e.
  Proof.
    unfold short_code, short_err.
    destruct e; [|destruct got|]; auto using ec_sc, ec_one, ec_eof, ec_ueof.
  Qed.

  Lemma now_SW w : t_now SW w = (w, 0).
  Proof. reflexivity. Qed.
  Lemma setdl_SW w d : t_setdl SW w d = (w, 0).
  Proof. reflexivity. Qed.

  Lemma rf_stream s n :
    bytesb s = true ->
    t_readfull SW (vbytes s) n =
    match read_full (N.to_nat n) s with
    | RFull got rest => (vbytes rest, got, 0)
    | RShort got => (vbytes [], got, short_code got)
    end.
  Proof.
    intros H. unfold SW, stream_world, vbytes, short_code. cbn [t_readfull].
    rewrite (unbytes_map s H). reflexivity.
  Qed.

  Lemma rf_full s n :
    bytesb s = true -> (N.to_nat n <= length s)%nat ->
    t_readfull SW (vbytes s) n = (vbytes (skipn (N.to_nat n) s), firstn (N.to_nat n) s, 0).
  Proof. intros H L. rewrite (rf_stream s n H), (read_full_full _ _ L). reflexivity. Qed.

  Lemma rf_short s n :
    bytesb s = true -> (length s < N.to_nat n)%nat ->
    t_readfull SW (vbytes s) n = (vbytes [], s, short_code s).
  Proof. intros H L. rewrite (rf_stream s n H), (read_full_short _ _ L). reflexivity. Qed.

  (* ---------------------------------------------------------------- 1 *)

  Theorem stream_world_wf : tworld_wf SW C.
  Proof.
    unfold tworld_wf. split.
    - intros w bs. unfold SW, stream_world. cbn [t_write]. apply N.le_refl.
    - intros w n. unfold SW, stream_world. cbn [t_readfull].
      set (s := match w with VL l => unbytes l | _ => [] end).
      assert (Hs : bytesb s = true).
      { subst s. destruct w; [reflexivity|reflexivity|apply unbytes_bytes]. }
      fold (short_code s).
      unfold read_full. destruct (Nat.leb_spec (N.to_nat n) (length s)) as [L|L].
      + assert (Hl : lenN (firstn (N.to_nat n) s) = n).
        { unfold lenN. rewrite (firstn_length_le s L). lia. }
        repeat split.
        * apply bytesb_firstn; exact Hs.
        * lia.
        * intros _; exact Hl.
        * intros E0. exfalso. codes. congruence.
      + assert (Hl : lenN s < n) by (unfold lenN; lia).
        pose proof (short_code_nz s) as Hnz.
        repeat split.
        * exact Hs.
        * lia.
        * intros E0. exfalso. exact (Hnz E0).
        * intros E0. lia.
        * assert (Hp : s <> [] -> 0 < lenN s).
          { destruct s; [congruence|]. intros _. unfold lenN. cbn [length]. lia. }
          codes. unfold short_code. destruct e; [congruence| |congruence].
          destruct s; [congruence|]. intros _. apply Hp. discriminate.
  Qed.

  (* ---------------------------------------------------------------- 2 *)

  Theorem t_read_mbap_stream s :
    bytesb s = true ->
    let '(w', p, txn, c) := t_read_mbap SW C (vbytes s) in
    w' = vbytes (snd (read_mbap e s)) /\
    match fst (read_mbap e s) with
    | FOk q t => p = Some q /\ txn = t /\ c = 0
    | FErr x => p = None /\ c <> 0 /\ err_class c = x
    end.
  Proof.
    intros Hs. unfold t_read_mbap, read_mbap.
    change (N.to_nat 7) with 7%nat.
    destruct (Nat.leb_spec 7 (length s)) as [L|L].
    2:{ rewrite (rf_short s 7 Hs) by (change (N.to_nat 7) with 7%nat; lia).
        rewrite (read_full_short 7 s) by lia.
        pose proof (short_code_nz s) as Hnz.
        destruct (N.eqb_spec (short_code s) 0) as [E0|E0]; [contradiction|].
        cbn [negb fst snd]. repeat split; auto using short_code_class. }
    rewrite (rf_full s 7 Hs) by (change (N.to_nat 7) with 7%nat; lia).
    rewrite (read_full_full 7 s L).
    change (N.to_nat 7) with 7%nat.
    pose proof (bytesb_skipn 7 s Hs) as Hr.
    destruct s as [|t1 [|t0 [|p1 [|p0 [|l1 [|l0 [|unit rest]]]]]]];
      try (exfalso; cbn [length] in L; lia).
    clear L Hs. cbn [firstn skipn nth] in *.
    change (0 =? 0) with true. cbn [negb].
    set (len := l1 * 256 + l0).
    destruct (N.ltb_spec 254 len) as [G1|G1].
    { replace (260 <? len - 1 + 7) with true by (symmetry; apply N.ltb_lt; lia).
      fin. }
    replace (260 <? len - 1 + 7) with false by (symmetry; apply N.ltb_ge; lia).
    destruct (N.leb_spec len 1) as [G2|G2].
    { fin. }
    destruct (Nat.leb_spec (N.to_nat (len - 1)) (length rest)) as [L|L].
    2:{ rewrite (rf_short rest (len - 1) Hr L), (read_full_short _ rest L).
        pose proof (short_code_nz rest) as Hnz.
        destruct (N.eqb_spec (short_code rest) 0) as [E0|E0]; [contradiction|].
        cbn [negb fst snd]. repeat split; auto using short_code_class. }
    rewrite (rf_full rest (len - 1) Hr L), (read_full_full _ rest L).
    change (0 =? 0) with true. cbn [negb].
    destruct (negb (p1 * 256 + p0 =? 0)).
    { fin. }
    destruct (N.to_nat (len - 1)) as [|k] eqn:Ek; [lia|].
    destruct rest as [|fc rest]; [cbn [length] in L; lia|].
    cbn [firstn skipn nth tl fst snd]. repeat split; reflexivity.
  Qed.

  (* ---------------------------------------------------------------- 3 *)

  Theorem t_read_response_stream fuel last s :
    bytesb s = true ->
    match mbap_read_response fuel e last s with
    | (Wire.Ok q, s') => t_read_response SW C fuel last (vbytes s) = Some (vbytes s', Some q, 0)
    | (Wire.Err x, s') =>
        exists c, t_read_response SW C fuel last (vbytes s) = Some (vbytes s', None, c) /\
                  c <> 0 /\ err_class c = x
    | (Wire.OutOfFuel, _) => t_read_response SW C fuel last (vbytes s) = None
    | (Wire.Panic, _) => False
    end.
  Proof.
    revert s. induction fuel as [|f IH]; intros s Hs; [reflexivity|].
    rewrite mbap_read_response_S, t_read_response_S.
    pose proof (t_read_mbap_stream s Hs) as H.
    pose proof (read_mbap_bytes e s Hs) as Hb.
    destruct (t_read_mbap SW C (vbytes s)) as [[[w' p] txn] c].
    destruct (read_mbap e s) as [fr s'].
    cbn [fst snd] in H, Hb. destruct H as [Hw H]. subst w'.
    destruct fr as [q t|x].
    - destruct H as (Hp & Ht & Hc). subst p txn c.
      replace (0 =? c_unkproto C) with false by (codes; code_eqb; reflexivity).
      change (0 =? 0) with true. cbn [negb].
      rewrite (N.eqb_sym last t).
      destruct (t =? last); cbn [negb]; [reflexivity|exact (IH s' Hb)].
    - destruct H as (Hp & Hc & Hx). subst p.
      destruct (N.eqb_spec c (c_unkproto C)) as [E|E].
      + subst c. rewrite ec_unkproto in Hx. subst x. exact (IH s' Hb).
      + destruct (N.eqb_spec c 0) as [E0|E0]; [contradiction|]. cbn [negb].
        assert (Hn : x <> EUnknownProto).
        { intros Hu. subst x. apply E. apply ec_unkproto_inv. exact Hu. }
        destruct x; try (exists c; repeat split; assumption).
        contradiction.
  Qed.

  (* ---------------------------------------------------------------- 4 *)

  Theorem t_read_rtu_stream s :
    bytesb s = true ->
    let '(w', p, c) := t_read_rtu SW C (vbytes s) in
    w' = vbytes (snd (read_rtu e s)) /\
    match fst (read_rtu e s) with
    | Wire.Ok q => p = Some q /\ c = 0
    | Wire.Err x => p = None /\ c <> 0 /\ err_class c = x
    | _ => False
    end.
  Proof.
    intros Hs. unfold t_read_rtu, read_rtu.
    change (N.to_nat 3) with 3%nat.
    destruct (Nat.leb_spec 3 (length s)) as [L|L].
    2:{ rewrite (rf_short s 3 Hs) by (change (N.to_nat 3) with 3%nat; lia).
        rewrite (read_full_short 3 s) by lia.
        destruct s as [|a [|b [|c' s]]]; [| | |exfalso; cbn [length] in L; lia].
        all: codes.
        - change (lenN (@nil N)) with 0. change (0 <? 0) with false.
          unfold short_code.
          destruct e; code_eqb; cbn [negb andb orb]; fin.
        - change (lenN [a]) with 1. change (0 <? 1) with true.
          change (1 =? 3) with false.
          cbn [negb andb orb]. fin.
        - change (lenN [a; b]) with 2. change (0 <? 2) with true.
          change (2 =? 3) with false.
          cbn [negb andb orb]. fin. }
    rewrite (rf_full s 3 Hs) by (change (N.to_nat 3) with 3%nat; lia).
    rewrite (read_full_full 3 s L).
    change (N.to_nat 3) with 3%nat.
    pose proof (bytesb_skipn 3 s Hs) as Hr.
    destruct s as [|unit [|fc [|b2 rest]]]; try (exfalso; cbn [length] in L; lia).
    clear L Hs. cbn [firstn skipn nth] in *.
    change (lenN [unit; fc; b2]) with 3. change (3 =? 3) with true.
    change (0 =? 0) with true. cbn [negb]. rewrite andb_false_r. cbn [andb].
    destruct (expected_len fc b2) as [n|].
    2:{ fin. }
    destruct (256 <? 3 + (n + 2)).
    { fin. }
    destruct (Nat.leb_spec (N.to_nat (n + 2)) (length rest)) as [L|L].
    2:{ rewrite (rf_short rest (n + 2) Hr L), (read_full_short _ rest L).
        assert (Hl : (lenN rest =? n + 2) = false).
        { apply N.eqb_neq. unfold lenN. lia. }
        codes. unfold short_code. destruct e.
        - code_eqb. cbn [negb andb]. fin.
        - destruct rest as [|r0 rest].
          + code_eqb. cbn [negb andb]. fin.
          + rewrite Hl. code_eqb. cbn [negb andb]. fin.
        - code_eqb. cbn [negb andb]. fin. }
    rewrite (rf_full rest (n + 2) Hr L), (read_full_full _ rest L).
    change (0 =? 0) with true. cbn [negb andb].
    set (body := firstn (N.to_nat (n + 2)) rest).
    assert (Hbl : length body = (N.to_nat n + 2)%nat).
    { subst body. rewrite (firstn_length_le rest L). lia. }
    replace (lenN body =? n + 2) with true
      by (symmetry; apply N.eqb_eq; unfold lenN; lia).
    cbn [negb].
    assert (Hsk : skipn (N.to_nat n) body =
                  [nth (N.to_nat n) body 0; nth (N.to_nat n + 1) body 0]).
    { clearbody body. revert Hbl. generalize (N.to_nat n) as k. clear.
      intros k. revert body. induction k as [|k IH]; intros body Hbl.
      - destruct body as [|x [|y [|z body]]]; cbn [length] in Hbl; try lia. reflexivity.
      - destruct body as [|x body]; cbn [length] in Hbl; [lia|].
        cbn [skipn Nat.add nth]. apply IH. lia. }
    rewrite Hsk.
    change ([unit; fc; b2] ++ firstn (N.to_nat n) body)
      with (unit :: fc :: b2 :: firstn (N.to_nat n) body).
    destruct (crc_is_equal _ _ _); fin.
  Qed.

  (* ---------------------------------------------------------------- 5 *)

  Theorem t_discard_stream s :
    bytesb s = true -> t_discard SW (vbytes s) = vbytes (skipn 1024 s).
  Proof.
    intros Hs. unfold t_discard.
    rewrite now_SW. cbv beta iota. rewrite setdl_SW. cbv beta iota.
    rewrite (rf_stream s 1024 Hs). unfold read_full.
    destruct (Nat.leb_spec (N.to_nat 1024) (length s)) as [L|L].
    - reflexivity.
    - cbv beta iota. rewrite skipn_all2; [reflexivity|].
      change (N.to_nat 1024) with 1024%nat in L. lia.
  Qed.

End Stream.

Print Assumptions stream_world_wf.
Print Assumptions t_read_mbap_stream.
Print Assumptions t_read_response_stream.
Print Assumptions t_read_rtu_stream.
Print Assumptions t_discard_stream.

(* the hypothesis on the codes is decidable by computation for concrete numbers *)
Example stream_world_wf_concrete :
  tworld_wf (SW (mktcodes 4 14 15 16 19 21) Closed 2 22) (mktcodes 4 14 15 16 19 21).
Proof. apply stream_world_wf. vm_compute. reflexivity. Qed.
