(* The CLI against the reference device (Model/Cli.v: cli_dev_serve): what a
   read prints is the device's contents at the addressed locations in the
   requested type and encoding; what a write sends lands in the addressed
   cells in the requested layout. Composition of the request theorems (C01),
   the reply theorems (C02) and the codec layout (C17). *)
From Modbus Require Import Base.Bytes Base.Enum Model.Crc Model.Encoding Model.Wire Model.Client
  Model.Strconv Model.Cli Spec.ModbusSpec Spec.ClientSpec Spec.StrconvSpec Spec.CliSpec
  Proofs.EncodingP Proofs.BoolsP Proofs.ClientReqP Proofs.ClientRespP Proofs.StrconvP Proofs.CliP.
From Coq Require Import ZifyBool ZifyNat ZifyN.
Ltac Zify.zify_post_hook ::= Z.div_mod_to_equations.

(* ------------------------------------------------------------ a served exchange *)

(* if the device's reply answers the request, the call returns its values,
   one frame was written and the device moved on *)
Lemma exec_answered st c o res d' vs :
  cli_op_wf c -> cfg_wf (cs_cfg st) -> cs_txn st < 65536 ->
  cli_doc_op c = Some o -> valid_op o = true ->
  cli_dev_serve (cs_dev st) (spec_pdu (cs_cfg st) o) = (res, d') ->
  bytesb (p_payload res) = true -> answers (cs_cfg st) o res vs ->
  cli_exec st c =
    mkclist (cs_cfg st) (u16 (cs_txn st + 1)) d'
      (cs_tx st ++ [spec_frame FMbap (u16 (cs_txn st + 1)) (spec_pdu (cs_cfg st) o)])
      (cs_out st ++ cli_print c (Ok vs)).
Proof.
  intros Hwf Hcfg Htxn Hd Hv Hserve Hb Hans.
  destruct (op_agree c o Hwf Hd) as (o' & Ho' & Hwf' & Hvv & Heq). specialize (Heq Hv). subst o'.
  unfold cli_exec. rewrite Ho'.
  pose proof (client_request_exact (cs_cfg st) o Hwf') as Hreq. rewrite Hv in Hreq. rewrite Hreq, Hserve.
  set (reply := assemble_mbap (u16 (cs_txn st + 1)) res).
  destruct (client_transmit FMbap (cs_cfg st) (cs_txn st) o Stall reply Hwf' Hcfg Htxn) as [T1 _].
  specialize (T1 Hv).
  pose proof (client_complete_mbap (cs_cfg st) (cs_txn st) o Stall res vs [] [] Hwf' Hcfg Htxn Hv Hb Hans
                (Forall_nil _)) as Hc.
  cbn zeta in Hc. cbn [concat app] in Hc. rewrite app_nil_r, <- mbap_frame_spec in Hc. fold reply in Hc.
  destruct Hc as [Hc _].
  rewrite T1, Hc, (call_txn_ok _ _ _ _ _ _ Hreq). reflexivity.
Qed.

(* ------------------------------------------------------------ the device's replies *)

Lemma be16_addr a : a < 65536 -> (a / 256) mod 256 * 256 + a mod 256 = a.
Proof. lia. Qed.

Lemma range_length {A} (f : N -> A) a n : length (cli_range f a n) = N.to_nat n.
Proof. unfold cli_range. now rewrite map_length, seq_length. Qed.

Lemma range_nth {A} (f : N -> A) a n i d : (i < N.to_nat n)%nat ->
  nth i (cli_range f a n) d = f (a + N.of_nat i).
Proof.
  intros Hi. unfold cli_range.
  rewrite (nth_indep _ d (f (a + N.of_nat 0))) by (rewrite map_length, seq_length; exact Hi).
  rewrite (map_nth (fun i => f (a + N.of_nat i)) (seq 0 (N.to_nat n)) 0%nat i).
  rewrite seq_nth by exact Hi. reflexivity.
Qed.

Lemma serve_read_regs d u fc a n : (fc = 3 \/ fc = 4) -> a < 65536 -> 1 <= n <= 125 -> a + n <= 65536 ->
  cli_dev_serve d (mkpdu u fc (be16 a ++ be16 n)) =
    (mkpdu u fc (2 * n :: flat_map be16 (cli_range (if fc =? 3 then dv_hold d else dv_inp d) a n)), d).
Proof.
  intros Hfc Ha Hn Hr. unfold cli_dev_serve, be16. cbn [p_fc p_payload p_unit app].
  rewrite (be16_addr a Ha), (be16_addr n ltac:(lia)).
  replace ((n =? 0) || (125 <? n)) with false by lia.
  replace (65536 <? a + n) with false by lia.
  destruct Hfc as [-> | ->]; reflexivity.
Qed.

Lemma serve_read_bools d u fc a n : (fc = 1 \/ fc = 2) -> a < 65536 -> 1 <= n <= 2000 -> a + n <= 65536 ->
  cli_dev_serve d (mkpdu u fc (be16 a ++ be16 n)) =
    (let enc := encode_bools (cli_range (if fc =? 1 then dv_coil d else dv_disc d) a n) in
     mkpdu u fc (lenN enc :: enc), d).
Proof.
  intros Hfc Ha Hn Hr. unfold cli_dev_serve, be16. cbn [p_fc p_payload p_unit app].
  rewrite (be16_addr a Ha), (be16_addr n ltac:(lia)).
  replace ((n =? 0) || (2000 <? n)) with false by lia.
  replace (65536 <? a + n) with false by lia.
  destruct Hfc as [-> | ->]; reflexivity.
Qed.

Lemma flat_be16_bytes l : bytesb (flat_map be16 l) = true.
Proof.
  induction l as [|x t IH]; [reflexivity|]. cbn [flat_map]. rewrite bytesb_app, be16_bytes, IH. reflexivity.
Qed.

Lemma flat_be16_len l : lenN (flat_map be16 l) = 2 * lenN l.
Proof.
  unfold lenN. induction l as [|x t IH]; [reflexivity|].
  cbn [flat_map]. rewrite app_length. unfold be16 at 1. cbn [length]. lia.
Qed.

(* ------------------------------------------------------------ reads print the device's contents *)

Definition cli_regs_of (d : cli_dev) (holding : bool) : N -> N :=
  if holding then dv_hold d else dv_inp d.

(* rh/ri:T:a+q (T numeric, within limits): ONE request; the q+1 printed values,
   laid out as T in the selected byte/word order, are the big-endian images of
   the device registers a .. a+(q+1)*w(T)-1; the device is unchanged *)
Theorem exec_read_regs st h t a q :
  t <> CtBytes -> a < 65536 -> q < 65536 -> cfg_wf (cs_cfg st) -> cs_txn st < 65536 ->
  (q + 1) * cli_width t <= 125 -> a + (q + 1) * cli_width t <= 65536 ->
  let c := CoReadRegs h t a q in
  let w := cli_width t in
  exists o xs,
    cli_doc_op c = Some o /\
    cli_exec st c =
      mkclist (cs_cfg st) (u16 (cs_txn st + 1)) (cs_dev st)
        (cs_tx st ++ [spec_frame FMbap (u16 (cs_txn st + 1)) (spec_pdu (cs_cfg st) o)])
        (cs_out st ++ cli_print c (Ok (VNums xs))) /\
    lenN xs = q + 1 /\ Forall (fun v => v < 2 ^ (16 * w)) xs /\
    flat_map (spec_bytes (N.to_nat w) (c_endian (cs_cfg st)) (c_word (cs_cfg st))) xs =
      flat_map be16 (cli_range (cli_regs_of (cs_dev st) h) a ((q + 1) * w)).
Proof.
  intros Ht Ha Hq Hcfg Htxn Hlim Hend. cbn zeta.
  set (w := cli_width t) in *. set (rt := if h then Holding else InputReg).
  set (o := OpReadRegs w a (q + 1) rt).
  assert (Hd : cli_doc_op (CoReadRegs h t a q) = Some o) by (destruct t; try congruence; reflexivity).
  assert (Hw : w = 1 \/ w = 2 \/ w = 4) by apply width_cases.
  assert (Hv : valid_op o = true).
  { rewrite (read_regs_valid h t a q o Ht Hd). fold w. lia. }
  set (regs := cli_range (cli_regs_of (cs_dev st) h) a ((q + 1) * w)).
  set (data := flat_map be16 regs).
  assert (Hlen : lenN data = 2 * ((q + 1) * w)).
  { unfold data. rewrite flat_be16_len. unfold lenN, regs. rewrite range_length. lia. }
  destruct (regs_k_total (cs_cfg st) w (q + 1) data Hw Hlen) as [xs Hx].
  destruct (regs_k_sound (cs_cfg st) w data (VNums xs) Hw (flat_be16_bytes regs) Hx) as (xs' & E & Hdata & Hall).
  inversion E; subst xs'.
  assert (Hlx : lenN xs = q + 1).
  { pose proof (spec_regs_len w (c_endian (cs_cfg st)) (c_word (cs_cfg st)) xs) as L.
    rewrite <- Hdata, Hlen in L. destruct Hw as [Hw | [Hw | Hw]]; rewrite Hw in L; lia. }
  exists o, xs. split; [exact Hd|]. split; [|split; [exact Hlx|split; [exact Hall|symmetry; exact Hdata]]].
  assert (Hserve : cli_dev_serve (cs_dev st) (spec_pdu (cs_cfg st) o) =
                   (mkpdu (c_unit (cs_cfg st)) (spec_fc o) (2 * ((q + 1) * w) :: data), cs_dev st)).
  { unfold spec_pdu, spec_payload, o. cbn [op_count].
    rewrite serve_read_regs; [|destruct h; cbn; auto|exact Ha|lia|lia].
    unfold data, regs, cli_regs_of. destruct h; reflexivity. }
  apply (exec_answered st (CoReadRegs h t a q) o
           (mkpdu (c_unit (cs_cfg st)) (spec_fc o) (2 * ((q + 1) * w) :: data)) (cs_dev st) (VNums xs));
    try assumption.
  - cbn. split; assumption.
  - cbn [p_payload]. unfold bytesb, is_byte in *. cbn [forallb]. fold (bytesb data).
    unfold data. rewrite flat_be16_bytes. replace (2 * ((q + 1) * w) <? 256) with true by lia. reflexivity.
  - unfold answers. cbn [p_unit p_fc p_payload]. split; [reflexivity|]. split; [reflexivity|].
    unfold o. exists xs. split; [rewrite Hdata; reflexivity|]. split; [exact Hlx|]. split; [exact Hall|reflexivity].
Qed.

(* rc/rdi:a+q within limits: ONE request; the q+1 printed values are the
   device's coils / discrete inputs a .. a+q *)
Theorem exec_read_bools st coil a q :
  a < 65536 -> q < 65536 -> cfg_wf (cs_cfg st) -> cs_txn st < 65536 ->
  q + 1 <= 2000 -> a + q + 1 <= 65536 ->
  let c := CoReadBools coil a q in
  let bits := cli_range (if coil then dv_coil (cs_dev st) else dv_disc (cs_dev st)) a (q + 1) in
  exists o,
    cli_doc_op c = Some o /\
    cli_exec st c =
      mkclist (cs_cfg st) (u16 (cs_txn st + 1)) (cs_dev st)
        (cs_tx st ++ [spec_frame FMbap (u16 (cs_txn st + 1)) (spec_pdu (cs_cfg st) o)])
        (cs_out st ++ cli_print c (Ok (VBools bits))).
Proof.
  intros Ha Hq Hcfg Htxn Hlim Hend. cbn zeta.
  set (o := OpReadBools (negb coil) a (q + 1)).
  set (bits := cli_range (if coil then dv_coil (cs_dev st) else dv_disc (cs_dev st)) a (q + 1)).
  assert (Hd : cli_doc_op (CoReadBools coil a q) = Some o) by reflexivity.
  assert (Hv : valid_op o = true) by (rewrite (read_bools_valid coil a q o Hd); lia).
  exists o. split; [exact Hd|].
  assert (Hlb : length bits = N.to_nat (q + 1)) by (unfold bits; apply range_length).
  assert (Hserve : cli_dev_serve (cs_dev st) (spec_pdu (cs_cfg st) o) =
                   (mkpdu (c_unit (cs_cfg st)) (spec_fc o) (lenN (encode_bools bits) :: encode_bools bits), cs_dev st)).
  { unfold spec_pdu, spec_payload, o. cbn [op_count].
    rewrite serve_read_bools; [|destruct coil; cbn; auto|exact Ha|lia|lia].
    unfold bits. destruct coil; reflexivity. }
  apply (exec_answered st (CoReadBools coil a q) o
           (mkpdu (c_unit (cs_cfg st)) (spec_fc o) (lenN (encode_bools bits) :: encode_bools bits))
           (cs_dev st) (VBools bits)); try assumption.
  - cbn. split; assumption.
  - cbn [p_payload]. pose proof (encode_bools_lenN bits) as L. unfold lenN in L at 2. rewrite Hlb in L.
    unfold bytesb, is_byte. cbn [forallb]. fold is_byte. fold (bytesb (encode_bools bits)).
    rewrite encode_bools_bytes. replace (lenN (encode_bools bits) <? 256) with true by lia. reflexivity.
  - unfold answers. cbn [p_unit p_fc p_payload]. split; [reflexivity|]. split; [reflexivity|].
    unfold o. exists (encode_bools bits), bits. split; [reflexivity|].
    split; [rewrite encode_bools_lenN; unfold lenN; rewrite Hlb; lia|].
    split; [reflexivity|]. split; [unfold lenN; rewrite Hlb; lia|].
    intros i Hi. pose proof (decode_at_encode bits i Hi) as D.
    rewrite decode_bool_at_coil in D.
    + inversion D. reflexivity.
    + rewrite encode_bools_len. apply Nat.div_lt_upper_bound; [lia|].
      pose proof (Nat.div_mod (length bits + 7) 8 ltac:(lia)). pose proof (Nat.mod_upper_bound (length bits + 7) 8 ltac:(lia)). lia.
Qed.

(* ------------------------------------------------------------ writes land in the device *)

Lemma spec1_be v w : v < 65536 -> spec_bytes 1 BigE w v = be16 v.
Proof.
  intros Hv. rewrite (spec16_enc BigE w v Hv). unfold u16_to_bytes, byte_of, be16.
  change (2 ^ (8 * 1)) with 256. change (2 ^ (8 * 0)) with 1. repeat f_equal; lia.
Qed.

Lemma words_be data n : bytesb data = true -> length data = (2 * n)%nat ->
  exists l, bytes_to_u16s BigE data = Some l /\ flat_map be16 l = data /\ length l = n.
Proof.
  intros Hb Hl. destruct (dec16_total BigE n data Hl) as [l E]. exists l. split; [exact E|].
  destruct (dec16_sound BigE HighFirst l data Hb E) as [Hd HF].
  assert (Hfm : flat_map be16 l = flat_map (spec_bytes 1 BigE HighFirst) l).
  { clear - HF. induction HF as [|x t Hx _ IH]; [reflexivity|]. cbn [flat_map]. rewrite IH, (spec1_be x HighFirst Hx). reflexivity. }
  split; [rewrite Hfm; symmetry; exact Hd|].
  pose proof (flat_be16_len l) as L. rewrite Hfm, <- Hd in L. unfold lenN in L. lia.
Qed.

Lemma range_upd_same {A} (f : N -> A) a l d : cli_range (cli_upd f a l d) a (lenN l) = l.
Proof.
  apply (nth_ext _ _ d d).
  - rewrite range_length. unfold lenN. lia.
  - intros i Hi. rewrite range_length in Hi. rewrite range_nth by exact Hi. unfold cli_upd.
    unfold lenN in *. replace ((a <=? a + N.of_nat i) && (a + N.of_nat i <? a + N.of_nat (length l))) with true by lia.
    f_equal. lia.
Qed.

Lemma upd_outside {A} (f : N -> A) a l d x : x < a \/ a + lenN l <= x -> cli_upd f a l d x = f x.
Proof. intros H. unfold cli_upd. replace ((a <=? x) && (x <? a + lenN l)) with false by lia. reflexivity. Qed.

(* what a write leaves in the device: the registers a .. a+w-1 hold the
   value's layout, every other cell is unchanged *)
Definition cli_landed (d d' : cli_dev) (a : N) (image : list N) : Prop :=
  flat_map be16 (cli_range (dv_hold d') a (lenN image / 2)) = image /\
  (forall x, x < a \/ a + lenN image / 2 <= x -> dv_hold d' x = dv_hold d x) /\
  dv_coil d' = dv_coil d /\ dv_disc d' = dv_disc d /\ dv_inp d' = dv_inp d.

Lemma serve_write_reg d u a b1 b0 : a < 65536 -> b1 < 256 -> b0 < 256 ->
  exists d', cli_dev_serve d (mkpdu u 6 (be16 a ++ [b1; b0])) = (mkpdu u 6 (be16 a ++ [b1; b0]), d') /\
             cli_landed d d' a [b1; b0].
Proof.
  intros Ha H1 H0. unfold cli_dev_serve, be16. cbn [p_fc p_payload p_unit app N.eqb Pos.eqb orb].
  rewrite (be16_addr a Ha). eexists. split; [reflexivity|].
  unfold cli_landed. cbn [dv_hold dv_coil dv_disc dv_inp]. change (lenN [b1; b0] / 2) with 1.
  split; [|split; [|repeat split]].
  - change 1 with (lenN [b1 * 256 + b0]). rewrite range_upd_same. cbn [flat_map app]. unfold be16.
    assert (E1 : ((b1 * 256 + b0) / 256) mod 256 = b1) by lia.
    assert (E2 : (b1 * 256 + b0) mod 256 = b0) by lia. rewrite E1, E2. reflexivity.
  - intros x Hx. apply upd_outside. exact Hx.
Qed.

Lemma serve_write_regs d u a n bytes : a < 65536 -> 1 <= n <= 123 -> a + n <= 65536 ->
  bytesb bytes = true -> lenN bytes = 2 * n ->
  exists d', cli_dev_serve d (mkpdu u 16 (be16 a ++ be16 n ++ [2 * n] ++ bytes)) = (mkpdu u 16 (be16 a ++ be16 n), d') /\
             cli_landed d d' a bytes.
Proof.
  intros Ha Hn Hr Hb Hl. unfold cli_dev_serve, be16. cbn [p_fc p_payload p_unit app N.eqb Pos.eqb orb].
  rewrite (be16_addr a Ha), (be16_addr n ltac:(lia)).
  replace ((n =? 0) || (123 <? n) || negb (2 * n =? 2 * n) || negb (lenN bytes =? 2 * n)) with false by lia.
  replace (65536 <? a + n) with false by lia.
  destruct (words_be bytes (N.to_nat n) Hb ltac:(unfold lenN in Hl; lia)) as (l & E & Hfm & Hll).
  rewrite E. eexists. split; [reflexivity|].
  unfold cli_landed. cbn [dv_hold dv_coil dv_disc dv_inp].
  assert (Hq : lenN bytes / 2 = lenN l) by (unfold lenN in *; lia).
  rewrite Hq. split; [|split; [|repeat split]].
  - rewrite range_upd_same. exact Hfm.
  - intros x Hx. apply upd_outside. exact Hx.
Qed.

(* wr:T:a:v for a numeric type: ONE request, "wrote" printed, and the device's
   registers a .. a+w(T)-1 hold v laid out as T in the selected byte/word order
   (v is the two's-complement image for signed types, the IEEE bits for floats) *)
Theorem exec_write_num st t a v :
  t <> CtBytes -> a < 65536 -> v < 2 ^ (16 * cli_width t) -> a + cli_width t <= 65536 ->
  cfg_wf (cs_cfg st) -> cs_txn st < 65536 ->
  let c := CoWriteNum t a v in
  exists o d',
    cli_doc_op c = Some o /\
    cli_exec st c =
      mkclist (cs_cfg st) (u16 (cs_txn st + 1)) d'
        (cs_tx st ++ [spec_frame FMbap (u16 (cs_txn st + 1)) (spec_pdu (cs_cfg st) o)])
        (cs_out st ++ [ClWrote]) /\
    cli_landed (cs_dev st) d' a
      (spec_bytes (N.to_nat (cli_width t)) (c_endian (cs_cfg st)) (c_word (cs_cfg st)) v).
Proof.
  intros Ht Ha Hv Hend Hcfg Htxn. cbn zeta.
  set (e := c_endian (cs_cfg st)). set (wo := c_word (cs_cfg st)).
  assert (Hwf : cli_op_wf (CoWriteNum t a v)) by (cbn; repeat split; assumption).
  destruct (width_cases t) as [Hw | Hw2].
  - (* one register: write single register *)
    set (o := OpWriteReg a v).
    assert (Hd : cli_doc_op (CoWriteNum t a v) = Some o) by (cbn; rewrite Hw; reflexivity).
    rewrite Hw in *. change (2 ^ (16 * 1)) with 65536 in Hv. change (N.to_nat 1) with 1%nat.
    assert (Hvalid : valid_op o = true) by (unfold o; valid_tac).
    assert (Himg : exists b1 b0, spec_bytes 1 e wo v = [b1; b0] /\ b1 < 256 /\ b0 < 256).
    { rewrite (spec16_enc e wo v Hv). destruct e; unfold u16_to_bytes, byte_of;
        change (2 ^ (8 * 1)) with 256; change (2 ^ (8 * 0)) with 1; eexists _, _; (split; [reflexivity|]); lia. }
    destruct Himg as (b1 & b0 & Ei & H1 & H0).
    destruct (serve_write_reg (cs_dev st) (c_unit (cs_cfg st)) a b1 b0 Ha H1 H0) as (d' & Hs & Hland).
    exists o, d'. split; [exact Hd|]. split; [|rewrite Ei; exact Hland].
    apply (exec_answered st (CoWriteNum t a v) o (mkpdu (c_unit (cs_cfg st)) 6 (be16 a ++ [b1; b0])) d' VUnit
             Hwf Hcfg Htxn Hd Hvalid).
    + unfold spec_pdu, spec_payload, o. cbn [spec_fc]. fold e wo. rewrite Ei. exact Hs.
    + cbn [p_payload]. rewrite bytesb_app, be16_bytes. unfold bytesb, is_byte. cbn [forallb].
      replace (b1 <? 256) with true by lia. replace (b0 <? 256) with true by lia. reflexivity.
    + unfold answers. cbn [p_unit p_fc p_payload]. split; [reflexivity|]. split; [reflexivity|].
      unfold o. fold e wo. rewrite Ei. split; reflexivity.
  - (* two or four registers: write multiple registers *)
    set (w := cli_width t) in *. set (o := OpWriteRegs w a [v]).
    assert (Hd : cli_doc_op (CoWriteNum t a v) = Some o).
    { cbn. fold w. destruct Hw2 as [-> | ->]; reflexivity. }
    assert (Hw : w = 1 \/ w = 2 \/ w = 4) by tauto.
    assert (Hvalid : valid_op o = true).
    { unfold o, valid_op. cbn [op_regtype_ok op_count op_limit op_addr lenN length]. destruct Hw2 as [-> | ->]; cbn; lia. }
    set (img := spec_bytes (N.to_nat w) e wo v).
    assert (Hlen : lenN img = 2 * w).
    { unfold img, lenN. rewrite spec_bytes_len. lia. }
    assert (Hbytes : bytesb img = true).
    { unfold img. destruct Hw2 as [Hw' | Hw']; rewrite Hw' in *.
      - change (N.to_nat 2) with 2%nat. rewrite <- (u32_layout e wo v Hv). apply u32_to_bytes_bytes.
      - change (N.to_nat 4) with 4%nat. rewrite <- (u64_layout e wo v Hv). apply u64_to_bytes_bytes. }
    destruct (serve_write_regs (cs_dev st) (c_unit (cs_cfg st)) a w img Ha ltac:(lia) Hend Hbytes Hlen) as (d' & Hs & Hland).
    exists o, d'. split; [exact Hd|]. split; [|exact Hland].
    apply (exec_answered st (CoWriteNum t a v) o (mkpdu (c_unit (cs_cfg st)) 16 (be16 a ++ be16 w)) d' VUnit
             Hwf Hcfg Htxn Hd Hvalid).
    + unfold spec_pdu, spec_payload, o. cbn [spec_fc op_count lenN length flat_map].
      fold e wo. rewrite app_nil_r. replace (w * lenN [v]) with w by (unfold lenN; cbn [length]; lia).
      fold img. exact Hs.
    + cbn [p_payload]. rewrite bytesb_app, !be16_bytes. reflexivity.
    + unfold answers. cbn [p_unit p_fc p_payload]. split; [reflexivity|]. split; [reflexivity|].
      unfold o. cbn [op_count]. replace (w * lenN [v]) with w by (unfold lenN; cbn [length]; lia). split; reflexivity.
Qed.

(* wr:bytes / wr:string: ONE request; the registers a .. hold the bytes two
   per register (odd lengths zero padded, bytes of a register swapped when
   --endianness little), every other cell unchanged *)
Theorem exec_write_bytes st a bs :
  a < 65536 -> bytesb bs = true -> 1 <= (lenN bs + 1) / 2 <= 123 -> a + (lenN bs + 1) / 2 <= 65536 ->
  cfg_wf (cs_cfg st) -> cs_txn st < 65536 ->
  let c := CoWriteBytes a bs in
  exists o d',
    cli_doc_op c = Some o /\
    cli_exec st c =
      mkclist (cs_cfg st) (u16 (cs_txn st + 1)) d'
        (cs_tx st ++ [spec_frame FMbap (u16 (cs_txn st + 1)) (spec_pdu (cs_cfg st) o)])
        (cs_out st ++ [ClWrote]) /\
    cli_landed (cs_dev st) d' a (spec_byte_image (cs_cfg st) false bs).
Proof.
  intros Ha Hb Hn Hend Hcfg Htxn. cbn zeta.
  set (o := OpWriteBytes false a bs). set (n := (lenN bs + 1) / 2) in *.
  assert (Hd : cli_doc_op (CoWriteBytes a bs) = Some o) by reflexivity.
  assert (Hwf : cli_op_wf (CoWriteBytes a bs)) by (cbn; split; assumption).
  assert (Hvalid : valid_op o = true).
  { unfold o, valid_op. cbn [op_regtype_ok op_count op_limit op_addr]. fold n. lia. }
  set (img := spec_byte_image (cs_cfg st) false bs).
  assert (Hlen : lenN img = 2 * n) by (unfold img; rewrite <- image_spec; apply image_len).
  assert (Hbytes : bytesb img = true) by (unfold img; rewrite <- image_spec; apply image_bytes; exact Hb).
  destruct (serve_write_regs (cs_dev st) (c_unit (cs_cfg st)) a n img Ha Hn Hend Hbytes Hlen) as (d' & Hs & Hland).
  exists o, d'. split; [exact Hd|]. split; [|exact Hland].
  apply (exec_answered st (CoWriteBytes a bs) o (mkpdu (c_unit (cs_cfg st)) 16 (be16 a ++ be16 n)) d' VUnit
           Hwf Hcfg Htxn Hd Hvalid).
  - unfold spec_pdu, spec_payload, o. cbn [spec_fc op_count]. fold n img. exact Hs.
  - cbn [p_payload]. rewrite bytesb_app, !be16_bytes. reflexivity.
  - unfold answers. cbn [p_unit p_fc p_payload]. split; [reflexivity|]. split; [reflexivity|].
    unfold o. cbn [op_count]. fold n. split; reflexivity.
Qed.

(* wc:a:v: ONE request; coil a holds v afterwards, every other cell unchanged *)
Theorem exec_write_coil st a v :
  a < 65536 -> cfg_wf (cs_cfg st) -> cs_txn st < 65536 ->
  let c := CoWriteCoil a v in
  exists o d',
    cli_doc_op c = Some o /\
    cli_exec st c =
      mkclist (cs_cfg st) (u16 (cs_txn st + 1)) d'
        (cs_tx st ++ [spec_frame FMbap (u16 (cs_txn st + 1)) (spec_pdu (cs_cfg st) o)])
        (cs_out st ++ [ClWrote]) /\
    dv_coil d' a = v /\ (forall x, x <> a -> dv_coil d' x = dv_coil (cs_dev st) x) /\
    dv_disc d' = dv_disc (cs_dev st) /\ dv_hold d' = dv_hold (cs_dev st) /\ dv_inp d' = dv_inp (cs_dev st).
Proof.
  intros Ha Hcfg Htxn. cbn zeta. set (o := OpWriteCoil a v).
  assert (Hd : cli_doc_op (CoWriteCoil a v) = Some o) by reflexivity.
  assert (Hwf : cli_op_wf (CoWriteCoil a v)) by exact Ha.
  assert (Hvalid : valid_op o = true) by (unfold o; valid_tac).
  set (val := if v then [255; 0] else [0; 0]).
  assert (Hs : exists d', cli_dev_serve (cs_dev st) (mkpdu (c_unit (cs_cfg st)) 5 (be16 a ++ val)) =
                            (mkpdu (c_unit (cs_cfg st)) 5 (be16 a ++ val), d') /\
                          dv_coil d' a = v /\ (forall x, x <> a -> dv_coil d' x = dv_coil (cs_dev st) x) /\
                          dv_disc d' = dv_disc (cs_dev st) /\ dv_hold d' = dv_hold (cs_dev st) /\ dv_inp d' = dv_inp (cs_dev st)).
  { unfold cli_dev_serve, be16, val. cbn [p_fc p_payload p_unit app N.eqb Pos.eqb orb].
    rewrite (be16_addr a Ha). destruct v; cbn [app N.mul N.add N.eqb Pos.eqb Pos.mul Pos.add orb];
      (eexists; split; [reflexivity|]); cbn [dv_coil dv_disc dv_hold dv_inp]; (split; [|split; [|repeat split]]).
    - unfold cli_upd. change (lenN [true]) with 1. replace ((a <=? a) && (a <? a + 1)) with true by lia.
      replace (N.to_nat (a - a)) with 0%nat by lia. reflexivity.
    - intros x Hx. apply upd_outside. change (lenN [true]) with 1. lia.
    - unfold cli_upd. change (lenN [false]) with 1. replace ((a <=? a) && (a <? a + 1)) with true by lia.
      replace (N.to_nat (a - a)) with 0%nat by lia. reflexivity.
    - intros x Hx. apply upd_outside. change (lenN [false]) with 1. lia. }
  destruct Hs as (d' & Hs & Hc).
  exists o, d'. split; [exact Hd|]. split; [|exact Hc].
  apply (exec_answered st (CoWriteCoil a v) o (mkpdu (c_unit (cs_cfg st)) 5 (be16 a ++ val)) d' VUnit
           Hwf Hcfg Htxn Hd Hvalid).
  - unfold spec_pdu, spec_payload, o. cbn [spec_fc]. fold val. exact Hs.
  - cbn [p_payload]. rewrite bytesb_app, be16_bytes. unfold val. destruct v; reflexivity.
  - unfold answers. cbn [p_unit p_fc p_payload]. split; [reflexivity|]. split; [reflexivity|].
    unfold o, val. split; reflexivity.
Qed.

(* rh/ri:bytes:a+q within limits: ONE request; the printed bytes are the first
   q+1 bytes of the registers' big-endian images (bytes of a register swapped
   when --endianness little), 16 per line; the device is unchanged *)
Theorem exec_read_bytes st h a q :
  a < 65536 -> q < 65536 -> cfg_wf (cs_cfg st) -> cs_txn st < 65536 ->
  (q + 2) / 2 <= 125 -> a + (q + 2) / 2 <= 65536 ->
  let c := CoReadRegs h CtBytes a q in
  let data := flat_map be16 (cli_range (cli_regs_of (cs_dev st) h) a ((q + 2) / 2)) in
  let bytes := firstn (N.to_nat (q + 1))
                 (match c_endian (cs_cfg st) with LittleE => pair_swap data | BigE => data end) in
  exists o,
    cli_doc_op c = Some o /\
    cli_exec st c =
      mkclist (cs_cfg st) (u16 (cs_txn st + 1)) (cs_dev st)
        (cs_tx st ++ [spec_frame FMbap (u16 (cs_txn st + 1)) (spec_pdu (cs_cfg st) o)])
        (cs_out st ++ cli_print c (Ok (VBytes bytes))).
Proof.
  intros Ha Hq Hcfg Htxn Hlim Hend. cbn zeta.
  set (rt := if h then Holding else InputReg). set (o := OpReadBytes false a (q + 1) rt).
  set (n := (q + 2) / 2) in *.
  assert (Hd : cli_doc_op (CoReadRegs h CtBytes a q) = Some o) by reflexivity.
  assert (Hcount : op_count o = n) by (unfold o, n; cbn [op_count]; f_equal; lia).
  assert (Hv : valid_op o = true) by (rewrite (read_bytes_valid h a q o Hd); fold n; lia).
  set (regs := cli_range (cli_regs_of (cs_dev st) h) a n). set (data := flat_map be16 regs).
  assert (Hlen : lenN data = 2 * n).
  { unfold data. rewrite flat_be16_len. unfold lenN, regs. rewrite range_length. lia. }
  exists o. split; [exact Hd|].
  assert (Hserve : cli_dev_serve (cs_dev st) (spec_pdu (cs_cfg st) o) =
                   (mkpdu (c_unit (cs_cfg st)) (spec_fc o) (2 * n :: data), cs_dev st)).
  { unfold spec_pdu, spec_payload. rewrite Hcount. unfold o at 2. cbn [op_addr].
    replace (match o with OpReadBools _ a0 _ | OpReadRegs _ a0 _ _ | OpReadBytes _ a0 _ _ => be16 a0 ++ be16 n | _ => [] end)
      with (be16 a ++ be16 n) by reflexivity.
    rewrite serve_read_regs; [|destruct h; cbn; auto|exact Ha|lia|lia].
    unfold data, regs, cli_regs_of. destruct h; reflexivity. }
  apply (exec_answered st (CoReadRegs h CtBytes a q) o
           (mkpdu (c_unit (cs_cfg st)) (spec_fc o) (2 * n :: data)) (cs_dev st)); try assumption.
  - cbn. split; assumption.
  - cbn [p_payload]. unfold bytesb, is_byte in *. cbn [forallb]. fold (bytesb data).
    unfold data. rewrite flat_be16_bytes. replace (2 * n <? 256) with true by lia. reflexivity.
  - unfold answers. cbn [p_unit p_fc p_payload]. split; [reflexivity|]. split; [reflexivity|].
    unfold o at 1. exists data. rewrite Hcount. split; [reflexivity|]. split; [exact Hlen|]. reflexivity.
Qed.
