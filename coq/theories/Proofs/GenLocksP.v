(* The discipline check over the GENERATED lock skeletons (Gen/ClientLocks.v,
   Gen/ServerLocks.v, rewritten by harness/cmd/locksum from the Go sources on
   every run of bin/check), and the generic theorems of Proofs/ConcP.v
   instantiated to them. *)
From Coq Require Import List Bool String Arith.
Import ListNotations.
From Modbus Require Import Model.Conc Proofs.ConcP Gen.ClientLocks Gen.ServerLocks.

(* depth bound for inlining calls between methods of the same receiver *)
Definition cc_fuel : nat := 16.

(* (T5) every public method of ModbusClient is well bracketed *)
Lemma client_programs_wb : cc_table_wb client_programs cc_fuel client_entries = true.
Proof. vm_compute. reflexivity. Qed.

(* Start, Stop, acceptTCPClients, handleTCPClient of ModbusServer are well bracketed *)
Lemma server_programs_wb : cc_table_wb server_programs cc_fuel server_entries = true.
Proof. vm_compute. reflexivity. Qed.

(* the client's table contains no wait action (they are emitted for the server only) *)
Lemma client_programs_nowait : cc_table_nowait client_programs = true.
Proof. vm_compute. reflexivity. Qed.

Lemma client_good prog ps : cc_runs_table client_programs client_entries prog ps -> cc_good ps.
Proof. intros [Hin HF]. exact (cc_table_good _ _ _ _ _ client_programs_wb Hin HF). Qed.

Lemma server_good prog ps : cc_runs_table server_programs server_entries prog ps -> cc_good ps.
Proof. intros [Hin HF]. exact (cc_table_good _ _ _ _ _ server_programs_wb Hin HF). Qed.

Section Table.
  Variable tb : ctable.
  Variable entries : list string.
  Hypothesis Hwb : cc_table_wb tb cc_fuel entries = true.

  Lemma tb_good prog ps : cc_runs_table tb entries prog ps -> cc_good ps.
  Proof. intros [Hin HF]. exact (cc_table_good _ _ _ _ _ Hwb Hin HF). Qed.

  Lemma tb_paths_wb ms p : (forall m, In m ms -> In m entries) -> cc_thread_path tb ms p ->
    cc_flat_wb p /\ cc_txrx_ok p = true.
  Proof.
    intros Hin Hp. unfold cc_table_wb in Hwb. apply andb_true_iff in Hwb.
    exact (cc_thread_flat_wb tb cc_fuel entries ms p (proj1 Hwb) Hin Hp).
  Qed.

  Lemma tb_mutex prog ps evs c : cc_runs_table tb entries prog ps ->
    cc_exec (cc_init ps) evs c -> cc_mutex c.
  Proof. intros Hr. apply cc_reach_mutex, (tb_good _ _ Hr). Qed.

  Lemma tb_access_by_holder prog ps e1 i a e2 c : cc_runs_table tb entries prog ps ->
    cc_exec (cc_init ps) (e1 ++ (i, a) :: e2) c -> cc_is_access a = true ->
    exists c1, cc_exec (cc_init ps) e1 c1 /\ cc_holds c1 i = true /\
               forall j, cc_holds c1 j = true -> j = i.
  Proof.
    intros Hr H Ha. apply (cc_access_by_holder ps e1 i a e2 c (tb_good _ _ Hr) H).
    - destruct a; discriminate.
    - intros w. destruct a; discriminate.
  Qed.

  Lemma tb_one_outstanding prog ps evs c : cc_runs_table tb entries prog ps ->
    cc_exec (cc_init ps) evs c ->
    exists o, cc_txs evs = cc_rxs evs ++ cc_olist o /\ (forall k, o = Some k -> cc_holds c k = true).
  Proof. intros Hr. apply cc_one_outstanding, (tb_good _ _ Hr). Qed.

  (* a table without waits (the client): the event after a Tx is the Rx of the same thread *)
  Lemma tb_tx_then_rx prog ps e1 i e e2 c : cc_table_nowait tb = true ->
    cc_runs_table tb entries prog ps ->
    cc_exec (cc_init ps) (e1 ++ (i, ATx) :: e :: e2) c -> e = (i, ARx).
  Proof.
    intros Hnw Hr. apply cc_tx_then_rx_nowait; [exact (tb_good _ _ Hr)|].
    destruct Hr as [_ HF]. clear -Hnw HF.
    induction HF as [|ms p prog' ps' Hp _ IH]; constructor; [|exact IH].
    exact (cc_thread_path_nowait tb ms p Hnw Hp).
  Qed.

  (* a goroutine that waits for a peer does not hold the mutex *)
  Lemma tb_wait_not_holder prog ps e1 i w e2 c : cc_runs_table tb entries prog ps ->
    cc_exec (cc_init ps) (e1 ++ (i, AWait w) :: e2) c ->
    exists c1, cc_exec (cc_init ps) e1 c1 /\ cc_holds c1 i = false.
  Proof. intros Hr. apply cc_wait_not_holder, (tb_good _ _ Hr). Qed.

  (* the holder of the mutex is never about to wait for a peer *)
  Lemma tb_holder_not_waiting prog ps evs c i th w r : cc_runs_table tb entries prog ps ->
    cc_exec (cc_init ps) evs c -> nth_error c i = Some th -> ct_holds th = true ->
    ct_rem th <> AWait w :: r.
  Proof. intros Hr. apply cc_holder_not_waiting, (tb_good _ _ Hr). Qed.

  Lemma tb_own_reply prog ps evs c k i : cc_runs_table tb entries prog ps ->
    cc_exec (cc_init ps) evs c ->
    nth_error (cc_rxs evs) k = Some i -> nth_error (cc_txs evs) k = Some i.
  Proof. intros Hr. apply cc_own_reply, (tb_good _ _ Hr). Qed.

  Lemma tb_release_acquire prog ps e1 i a1 mid j a2 e2 c : cc_runs_table tb entries prog ps ->
    cc_exec (cc_init ps) (e1 ++ (i, a1) :: mid ++ (j, a2) :: e2) c ->
    i <> j -> cc_is_access a1 = true -> cc_is_access a2 = true ->
    exists m1 m2 m3, mid = m1 ++ (i, AUnlock) :: m2 ++ (j, ALock) :: m3.
  Proof. intros Hr. apply cc_release_acquire, (tb_good _ _ Hr). Qed.

  Lemma tb_no_race prog ps e1 i a1 mid j a2 e2 c : cc_runs_table tb entries prog ps ->
    cc_exec (cc_init ps) (e1 ++ (i, a1) :: mid ++ (j, a2) :: e2) c ->
    i <> j -> cc_conflict a1 a2 = true ->
    exists m1 m2 m3, mid = m1 ++ (i, AUnlock) :: m2 ++ (j, ALock) :: m3.
  Proof.
    intros Hr H Hij Hc. apply (tb_release_acquire _ _ _ _ _ _ _ _ _ _ Hr H Hij).
    - unfold cc_conflict in Hc. destruct a1; cbn in Hc |- *; try discriminate; reflexivity.
    - unfold cc_conflict in Hc. destruct a1; cbn in Hc; try discriminate;
        destruct a2; cbn in Hc |- *; try discriminate; reflexivity.
  Qed.
End Table.

(* the client: contiguity in its strong form (its table has no waits) *)
Lemma client_tx_then_rx prog ps e1 i e e2 c :
  cc_runs_table client_programs client_entries prog ps ->
  cc_exec (cc_init ps) (e1 ++ (i, ATx) :: e :: e2) c -> e = (i, ARx).
Proof. exact (tb_tx_then_rx _ _ client_programs_wb prog ps e1 i e e2 c client_programs_nowait). Qed.
