(* Proofs about long-lived connections to a peer that is alive
   (Model/TimedSteady.v): a call that gets its timely reply leaves nothing
   unread behind, the transaction counter stays a 16-bit value for ever, and
   so EVERY call of a session of ANY length is answered - the counter going
   round does not turn a valid reply into a timeout. *)
From Modbus Require Import Base.Bytes Model.Crc Model.Encoding Model.Wire Model.Client
  Model.Timed Model.TimedSession Model.TimedWrite Model.TimedSteady
  Spec.ModbusSpec Spec.ClientSpec Spec.TimedSpec Spec.TimedWriteSpec Spec.TimedSteadySpec
  Proofs.ClientReqP Proofs.ClientRespP Proofs.TimedP Proofs.TimedWriteP.
From Coq Require Import ZifyBool ZifyNat ZifyN.
Ltac Zify.zify_post_hook ::= Z.div_mod_to_equations.

(* ---------------------------------------------------------------- what is left unread *)

(* the unread rest is a part of the stream: what holds for every byte of the
   stream holds for every byte of the rest *)
Lemma rft_rest_forall (P : Z * N -> Prop) g D c n : forall cur s, Forall P s ->
  Forall P (tm_rf_rest (read_full_t g D c n cur s)).
Proof.
  induction n as [|n IH]; intros cur s H; cbn [read_full_t]; [exact H|].
  destruct (D <? cur)%Z; [exact H|].
  destruct s as [|[t' b] s'].
  - destruct c as [tc|]; [destruct (tc <=? _)%Z|]; cbn [tm_rf_rest]; constructor.
  - destruct (t' <=? _)%Z; [|exact H].
    rewrite tm_rf_cons_rest. apply IH. inversion H; assumption.
Qed.

Lemma tm_read_mbap_rest_forall (P : Z * N -> Prop) g D c now s r t rest :
  tm_read_mbap g D c now s = (r, t, rest) -> Forall P s -> Forall P rest.
Proof.
  unfold tm_read_mbap. intros H HP.
  pose proof (rft_rest_forall P g D c 7 now s HP) as R1.
  destruct (read_full_t g D c 7 now s) as [hdr t1 r1|got e t1 r1]; cbn [tm_rf_rest] in R1.
  2:{ inversion H; subst; exact R1. }
  destruct hdr as [|a1 [|a0 [|p1 [|p0 [|l1 [|l0 [|unit [|x hdr]]]]]]]];
    try (inversion H; subst; exact R1).
  destruct (260 <? l1 * 256 + l0 - 1 + 7); [inversion H; subst; exact R1|].
  destruct (l1 * 256 + l0 <=? 1); [inversion H; subst; exact R1|].
  pose proof (rft_rest_forall P g D c (N.to_nat (l1 * 256 + l0 - 1)) t1 r1 R1) as R2.
  destruct (read_full_t g D c (N.to_nat (l1 * 256 + l0 - 1)) t1 r1) as [body t2 r2|got e t2 r2];
    cbn [tm_rf_rest] in R2.
  2:{ inversion H; subst; exact R2. }
  destruct (negb (p1 * 256 + p0 =? 0)); [inversion H; subst; exact R2|].
  destruct body; inversion H; subst; exact R2.
Qed.

Lemma tm_mbap_loop_rest_forall (P : Z * N -> Prop) g D c txn fuel : forall now s, Forall P s ->
  Forall P (snd (tm_mbap_read_response fuel g D c txn now s)).
Proof.
  induction fuel as [|f IH]; intros now s H; cbn [tm_mbap_read_response]; [exact H|].
  destruct (tm_read_mbap g D c now s) as [[r t] s'] eqn:E.
  pose proof (tm_read_mbap_rest_forall P g D c now s r t s' E H) as H'.
  destruct r as [p tid|x].
  - destruct (tid =? txn); [exact H'|apply IH; exact H'].
  - destruct x; try exact H'. apply IH; exact H'.
Qed.

Lemma tm_client_rest_forall_mbap (P : Z * N -> Prop) k la cfg txn o t0 c s : Forall P s ->
  Forall P (tmc_rest (tm_client_call FMbap k la cfg txn o t0 c s)).
Proof.
  intros H. destruct (client_request cfg o) as [req|x| |] eqn:Hreq.
  - destruct (tm_client_call_ok FMbap k la cfg txn o t0 c s req Hreq) as (_ & _ & ->).
    cbn [tm_xchg]. unfold mbap_exchange_t. apply tm_mbap_loop_rest_forall. exact H.
  - unfold tm_client_call. rewrite Hreq. exact H.
  - unfold tm_client_call. rewrite Hreq. exact H.
  - unfold tm_client_call. rewrite Hreq. exact H.
Qed.

(* a timely reply that is the last thing the peer sent is consumed to the
   last byte: the next call of the session starts on a clean connection *)
Lemma tm_timely_mbap_clean : forall k la cfg txn o t0 c pre res vs frames,
  op_wf o -> cfg_wf cfg -> txn < 65536 -> valid_op o = true -> (0 <= tm_timeout k)%Z ->
  bytesb (p_payload res) = true -> answers cfg o res vs ->
  Forall (skippable (u16 (txn + 1))) frames ->
  map snd pre = concat frames ++ spec_frame FMbap (u16 (txn + 1)) res ->
  Forall (fun p => (fst p <= t0 + tm_timeout k)%Z) pre ->
  tmc_rest (tm_client_call FMbap k la cfg txn o t0 c pre) = [].
Proof.
  intros k la cfg txn o t0 c pre res vs frames Hwf Hcfg Htx V Ht Hb Hans HF Hpre Htimes.
  destruct (tm_client_sim_mbap k la cfg txn o t0 c pre Ht) as [_ Hrest].
  rewrite (tm_avail_all _ pre Htimes) in Hrest.
  pose proof (client_complete_mbap cfg txn o (tm_end (t0 + tm_timeout k) c pre) res vs frames []
                Hwf Hcfg Htx V Hb Hans HF) as [_ Hr].
  rewrite app_nil_r, <- Hpre in Hr. rewrite Hr in Hrest.
  pose proof (tm_client_rest_forall_mbap _ k la cfg txn o t0 c pre Htimes) as Hall.
  rewrite (tm_avail_all _ _ Hall) in Hrest.
  apply map_eq_nil in Hrest. exact Hrest.
Qed.

(* ---------------------------------------------------------------- the peer's frames *)

Lemma tm_shift_at now d l : tm_shift now (tm_at d l) = tm_at (now + d) l.
Proof. unfold tm_shift, tm_at. rewrite map_map. reflexivity. Qed.

Lemma tm_at_snd d l : map snd (tm_at d l) = l.
Proof. unfold tm_at. rewrite map_map. cbn [snd]. apply map_id. Qed.

Lemma tm_at_times d l D : (d <= D)%Z -> Forall (fun p : Z * N => (fst p <= D)%Z) (tm_at d l).
Proof.
  intros H. apply Forall_forall. intros x Hin. unfold tm_at in Hin.
  apply in_map_iff in Hin as [b [<- _]]. exact H.
Qed.

(* a well-formed frame that carries another id than the one in flight is one
   the skip loop has to pass over *)
Lemma tm_foreign_skippable id off res : id < 65536 -> 0 < off < 65536 ->
  lenN (p_payload res) <= 252 ->
  skippable id (assemble_mbap (u16 (id + off)) res).
Proof.
  intros Hid Hoff Hl. exists (u16 (id + off)), 0, (p_unit res), (p_fc res), (p_payload res).
  rewrite mbap_frame_spec. unfold spec_frame, u16.
  repeat split; lia.
Qed.

(* the transaction counter stays a 16-bit value *)
Lemma tm_next_txn_u16 cfg o txn : txn < 65536 -> tm_next_txn cfg o txn < 65536.
Proof.
  intros H. unfold tm_next_txn, u16. destruct (client_request cfg o); lia.
Qed.

(* ---------------------------------------------------------------- the session *)

(* EVERY call of a session of ANY length against a peer that is alive gets
   the values of its reply - for every value the 16-bit transaction counter
   has when the session starts, hence also across its wrap-around(s) - and a
   silence in between costs one request-timed-out and nothing else *)
Lemma tm_steady_session_mbap k cfg : cfg_wf cfg -> (0 <= tm_timeout k)%Z ->
  forall l la txn room now, txn < 65536 -> Forall (tm_item_wf k cfg) l ->
  Forall2 (tm_step_ok k cfg) l
    (tm_session_w FMbap k cfg la txn room now [] (tm_steady_calls FMbap cfg txn l)).
Proof.
  intros Hcfg Ht. induction l as [|[[o res] a] l IH]; intros la txn room now Htx Hl;
    cbn [tm_steady_calls tm_session_w]; [constructor|].
  inversion Hl as [|x y Hit Hl']; subst.
  destruct Hit as (Hwf & V & Hb & Hlen & [vs Hans] & Ha).
  cbn [app]. rewrite tm_peer_reads. cbn [tmw_call tmw_room tmw_blocked tm_next_la].
  pose proof (tm_next_txn_u16 cfg o txn Htx) as Hnext.
  assert (Hid : u16 (txn + 1) < 65536) by (unfold u16; lia).
  destruct a as [d| |off]; cbn [tm_steady_stream tm_reply_frame tm_act_wf] in *.
  - (* the reply, d after the start of the call *)
    rewrite tm_shift_at.
    set (pre := tm_at (now + d) (assemble_mbap (u16 (txn + 1)) res)).
    assert (Hpre : map snd pre = concat [] ++ spec_frame FMbap (u16 (txn + 1)) res).
    { unfold pre. rewrite tm_at_snd, mbap_frame_spec. reflexivity. }
    assert (Htimes : Forall (fun p : Z * N => (fst p <= now + tm_timeout k)%Z) pre).
    { apply tm_at_times. lia. }
    pose proof (tm_timely_mbap k la cfg txn o now None pre [] res vs [] Hwf Hcfg Htx V Ht Hb Hans
                  (Forall_nil _) Hpre Htimes) as Hok.
    cbv zeta in Hok. rewrite app_nil_r in Hok. destruct Hok as [Hres Htime].
    rewrite (tm_timely_mbap_clean k la cfg txn o now None pre res vs [] Hwf Hcfg Htx V Ht Hb Hans
               (Forall_nil _) Hpre Htimes).
    constructor; [|apply IH; assumption].
    cbn [tm_step_ok tws_res tws_start tws_finish]. split; [exists vs; split; assumption|exact Htime].
  - (* silence *)
    cbn [tm_shift map].
    rewrite (tm_silent_call_mbap k la cfg txn o now Hwf V Ht).
    cbn [tmc_res tmc_finish tmc_rest].
    constructor; [|apply IH; assumption].
    cbn [tm_step_ok tws_res tws_start tws_finish]. split; reflexivity.
  - (* a frame with a foreign id, then the reply *)
    rewrite tm_shift_at.
    set (fo := assemble_mbap (u16 (u16 (txn + 1) + off)) res).
    set (pre := tm_at (now + 0) (fo ++ assemble_mbap (u16 (txn + 1)) res)).
    assert (Hpre : map snd pre = concat [fo] ++ spec_frame FMbap (u16 (txn + 1)) res).
    { unfold pre. rewrite tm_at_snd, mbap_frame_spec. cbn [concat]. rewrite app_nil_r. reflexivity. }
    assert (Htimes : Forall (fun p : Z * N => (fst p <= now + tm_timeout k)%Z) pre).
    { apply tm_at_times. lia. }
    assert (HF : Forall (skippable (u16 (txn + 1))) [fo]).
    { constructor; [|constructor]. apply tm_foreign_skippable; assumption. }
    pose proof (tm_timely_mbap k la cfg txn o now None pre [] res vs [fo] Hwf Hcfg Htx V Ht Hb Hans
                  HF Hpre Htimes) as Hok.
    cbv zeta in Hok. rewrite app_nil_r in Hok. destruct Hok as [Hres Htime].
    rewrite (tm_timely_mbap_clean k la cfg txn o now None pre res vs [fo] Hwf Hcfg Htx V Ht Hb Hans
               HF Hpre Htimes).
    constructor; [|apply IH; assumption].
    cbn [tm_step_ok tws_res tws_start tws_finish]. split; [exists vs; split; assumption|exact Htime].
Qed.

(* the ids of the requests of a session of valid calls: one more each time, mod 2^16 *)
Lemma tm_steady_ids_step cfg : forall l txn, Forall (fun it => op_wf (fst (fst it)) /\ valid_op (fst (fst it)) = true) l ->
  tm_steady_ids cfg txn l = map (fun i => u16 (txn + 1 + N.of_nat i)) (seq 0 (length l)).
Proof.
  induction l as [|[[o res] a] l IH]; intros txn Hl; cbn [tm_steady_ids length seq map]; [reflexivity|].
  inversion Hl as [|x y [Hwf V] Hl']; subst. cbn [fst] in Hwf, V.
  unfold tm_next_txn. rewrite (tm_request cfg o Hwf V). cbn [app].
  f_equal; [f_equal; lia|].
  rewrite IH by exact Hl'. rewrite <- seq_shift, map_map.
  apply map_ext. intros i. unfold u16. 
  replace (txn + 1 + N.of_nat (S i)) with (txn + 1 + 1 + N.of_nat i) by lia.
  rewrite <- (N.add_mod_idemp_l (txn + 1 + 1) (N.of_nat i) 65536) by lia.
  rewrite <- (N.add_mod_idemp_l ((txn + 1) mod 65536 + 1) (N.of_nat i) 65536) by lia.
  f_equal. f_equal.
  rewrite (N.add_mod_idemp_l (txn + 1) 1 65536) by lia. reflexivity.
Qed.

(* the converse clause of C07 for whole sessions: as long as the peer answers
   every request in time - whatever foreign frames it sends first -, no call
   ever fails, however long the connection has been in use *)
Lemma tm_alive_session_mbap k cfg : cfg_wf cfg -> (0 <= tm_timeout k)%Z ->
  forall l la txn room now, txn < 65536 -> Forall (tm_item_wf k cfg) l ->
  Forall (fun it => snd it <> PaSilent) l ->
  Forall (fun st => exists vs, tws_res st = Ok vs)
    (tm_session_w FMbap k cfg la txn room now [] (tm_steady_calls FMbap cfg txn l)).
Proof.
  intros Hcfg Ht l la txn room now Htx Hl Hns.
  pose proof (tm_steady_session_mbap k cfg Hcfg Ht l la txn room now Htx Hl) as H2.
  clear Hl. revert Hns. induction H2 as [|[[o res] a] st l' sts Hst _ IH]; intros Hns; [constructor|].
  inversion Hns as [|x y Ha Hns']; subst. cbn [snd] in Ha.
  constructor; [|apply IH; exact Hns'].
  destruct a as [d| |off]; [|destruct (Ha eq_refl)|];
    cbn [tm_step_ok] in Hst; destruct Hst as [[vs [_ Hr]] _]; exists vs; exact Hr.
Qed.
