(* C20 tied to C04: the CLI's reference device (Model/Cli.v: cli_dev_serve)
   agrees with the library's own server model (Model/Server.v) driving the
   memory-backed handler of the end-to-end composition (Model/E2E.v), on every
   request the server dispatches; hence a run of the CLI's execution loop
   (cli_run) is a run of the C04 composition (client model -> MBAP -> server
   model -> memory handler), and by C04's refinement theorem a run of the
   abstract register file (Spec/RegFile.v: rf_run) on the documented
   operations of the commands. *)
From Coq Require Import ZifyBool ZifyNat ZifyN.
From Modbus Require Import Base.Bytes Base.Cells Model.Crc Model.Encoding Model.Wire Model.Client
  Model.Server Model.Strconv Model.Cli Model.E2E
  Spec.ModbusSpec Spec.ClientSpec Spec.ServerSpec Spec.ServerSessionSpec Spec.RegFile
  Spec.StrconvSpec Spec.CliSpec
  Proofs.EncodingP Proofs.BoolsP Proofs.FramingP Proofs.ClientReqP Proofs.ClientRespP
  Proofs.MbapServerP Proofs.ServerP Proofs.StrconvP Proofs.CliP Proofs.CliDevP Proofs.E2EP.
Ltac Zify.zify_post_hook ::= Z.div_mod_to_equations.

(* ------------------------------------------------------------ the correspondence *)

(* the CLI device's four tables against the four tables of the register file:
   cell by cell (the two models update their tables with different but
   pointwise equal functions) *)
Definition cli_dev_sim (d : cli_dev) (m : rfmem) : Prop :=
  forall k, dv_coil d k = rf_coils m k /\ dv_disc d k = rf_discrete m k /\
            dv_hold d k = rf_holding m k /\ dv_inp d k = rf_input m k.

(* the register file a device stands for *)
Definition cli_dev_mem (d : cli_dev) : rfmem :=
  mkrfmem (dv_coil d) (dv_disc d) (dv_hold d) (dv_inp d).

(* registers of the device are 16-bit cells *)
Definition cli_dev_wf (d : cli_dev) : Prop := forall k, dv_hold d k < 65536 /\ dv_inp d k < 65536.

Lemma dev_mem_sim d : cli_dev_sim d (cli_dev_mem d).
Proof. intros k. repeat split. Qed.

Lemma dev_mem_wf d : cli_dev_wf d -> rfmem_wf (cli_dev_mem d).
Proof. intros H k. exact (H k). Qed.

Lemma dev_init_wf : cli_dev_wf cli_dev_init.
Proof.
  intros k. unfold cli_dev_init, cli_pat_hold, cli_pat_inp. cbn [dv_hold dv_inp]. lia.
Qed.

Lemma sim_range {A} (f g : N -> A) a n : (forall k, f k = g k) -> cli_range f a n = cells_load g a n.
Proof.
  intros H. unfold cli_range, cells_load, cells_addrs. rewrite map_map. apply map_ext. intros i. apply H.
Qed.

Lemma sim_upd {A} (f g : N -> A) a l d : (forall k, f k = g k) ->
  forall k, cli_upd f a l d k = cells_store g a l k.
Proof.
  intros H k. unfold cli_upd, cells_store.
  destruct ((a <=? k) && (k <? a + lenN l)) eqn:E; [|apply H].
  apply nth_indep. unfold lenN in E. lia.
Qed.

(* ------------------------------------------------------------ (1) device = server + handler *)

(* On a request PDU p that the server dispatches to the invocation r
   (Spec/ServerSpec.v: spec_decode, in_range), the reference device answers
   what the server answers when its handler is the memory of C04, and the
   two memories correspond afterwards. *)
Definition dev_agrees (d : cli_dev) (m : rfmem) (p : pdu) (r : hreq) : Prop :=
  let hr := e2e_mem_handler rf_nofail m r in
  fst (cli_dev_serve d p) = spec_response p r (snd hr) /\
  cli_dev_sim (snd (cli_dev_serve d p)) (fst hr).

Lemma flat_be16_regs l : Forall (fun v => v < 65536) l ->
  flat_map be16 l = flat_map (fun v => [v / 256; v mod 256]) l.
Proof.
  induction 1 as [|x t Hx _ IH]; [reflexivity|]. cbn [flat_map]. rewrite IH. unfold be16.
  replace ((x / 256) mod 256) with (x / 256) by lia. reflexivity.
Qed.

Lemma agree_readbits d m u fc pl r : fc = 1 \/ fc = 2 -> cli_dev_sim d m ->
  spec_decode (mkpdu u fc pl) = Some r -> in_range r = true -> dev_agrees d m (mkpdu u fc pl) r.
Proof.
  intros Hfc Hs Hd Hr.
  assert (Hc : forall k, dv_coil d k = rf_coils m k) by (intros k; apply Hs).
  assert (Hi : forall k, dv_disc d k = rf_discrete m k) by (intros k; apply Hs).
  destruct Hfc as [-> | ->]; cbn [spec_decode p_unit p_fc p_payload] in Hd;
    destruct pl as [|a1 [|a0 [|q1 [|q0 [|x pl]]]]]; try discriminate Hd.
  all: unfold be2 in Hd; remember (a1 * 256 + a0) as a eqn:Ea; remember (q1 * 256 + q0) as q eqn:Eq.
  all: destruct ((1 <=? q) && (q <=? 2000)) eqn:E1; [|discriminate Hd]; injection Hd as <-.
  all: unfold in_range in Hr; cbn [h_addr h_qty] in Hr.
  all: unfold dev_agrees, cli_dev_serve, e2e_mem_handler, rf_nofail.
  all: cbn [p_unit p_fc p_payload e2e_failure h_kind h_write h_addr h_qty fst snd N.eqb Pos.eqb orb].
  all: rewrite <- Ea, <- Eq.
  all: replace ((q =? 0) || (2000 <? q)) with false by lia.
  all: replace (65536 <? a + q) with false by lia.
  all: cbn [fst snd]; (split; [|exact Hs]).
  all: unfold spec_response; cbn [r_err r_bools h_kind h_write h_qty p_unit p_fc p_payload].
  all: rewrite cells_load_lenN, N.eqb_refl.
  all: rewrite encode_bools_spec, coil_bytes_lenN.
  - rewrite (sim_range _ _ a q Hc), cells_load_lenN. reflexivity.
  - rewrite (sim_range _ _ a q Hi), cells_load_lenN. reflexivity.
Qed.

Lemma agree_readregs d m u fc pl r : fc = 3 \/ fc = 4 -> cli_dev_sim d m -> rfmem_wf m ->
  spec_decode (mkpdu u fc pl) = Some r -> in_range r = true -> dev_agrees d m (mkpdu u fc pl) r.
Proof.
  intros Hfc Hs Hm Hd Hr.
  assert (Hh : forall k, dv_hold d k = rf_holding m k) by (intros k; apply Hs).
  assert (Hi : forall k, dv_inp d k = rf_input m k) by (intros k; apply Hs).
  assert (Hhw : forall k, rf_holding m k < 65536) by (intros k; apply Hm).
  assert (Hiw : forall k, rf_input m k < 65536) by (intros k; apply Hm).
  destruct Hfc as [-> | ->]; cbn [spec_decode p_unit p_fc p_payload] in Hd;
    destruct pl as [|a1 [|a0 [|q1 [|q0 [|x pl]]]]]; try discriminate Hd.
  all: unfold be2 in Hd; remember (a1 * 256 + a0) as a eqn:Ea; remember (q1 * 256 + q0) as q eqn:Eq.
  all: destruct ((1 <=? q) && (q <=? 125)) eqn:E1; [|discriminate Hd]; injection Hd as <-.
  all: unfold in_range in Hr; cbn [h_addr h_qty] in Hr.
  all: unfold dev_agrees, cli_dev_serve, e2e_mem_handler, rf_nofail.
  all: cbn [p_unit p_fc p_payload e2e_failure h_kind h_write h_addr h_qty fst snd N.eqb Pos.eqb orb].
  all: rewrite <- Ea, <- Eq.
  all: replace ((q =? 0) || (125 <? q)) with false by lia.
  all: replace (65536 <? a + q) with false by lia.
  all: cbn [fst snd]; (split; [|exact Hs]).
  all: unfold spec_response; cbn [r_err r_regs h_kind h_write h_qty p_unit p_fc p_payload].
  all: rewrite map_u16_id by (apply cells_load_Forall; assumption).
  all: rewrite cells_load_lenN, N.eqb_refl.
  - rewrite (sim_range _ _ a q Hh), flat_be16_regs by (apply cells_load_Forall; assumption). reflexivity.
  - rewrite (sim_range _ _ a q Hi), flat_be16_regs by (apply cells_load_Forall; assumption). reflexivity.
Qed.

Lemma agree_writecoil d m u pl r : cli_dev_sim d m ->
  spec_decode (mkpdu u 5 pl) = Some r -> in_range r = true -> dev_agrees d m (mkpdu u 5 pl) r.
Proof.
  intros Hs Hd Hr. cbn [spec_decode p_unit p_fc p_payload] in Hd.
  destruct pl as [|a1 [|a0 [|v1 [|v0 [|x pl]]]]]; try discriminate Hd.
  unfold be2 in Hd. remember (a1 * 256 + a0) as a eqn:Ea.
  destruct (((v1 =? 255) || (v1 =? 0)) && (v0 =? 0)) eqn:E1; [|discriminate Hd]. injection Hd as <-.
  unfold dev_agrees, cli_dev_serve, e2e_mem_handler, rf_nofail.
  cbn [p_unit p_fc p_payload e2e_failure h_kind h_write h_addr h_qty h_bools fst snd N.eqb Pos.eqb orb].
  rewrite <- Ea.
  replace ((v1 * 256 + v0 =? 65280) || (v1 * 256 + v0 =? 0)) with true by lia.
  cbn [fst snd]. split.
  - unfold spec_response. cbn [r_err h_kind h_write p_unit p_fc p_payload firstn]. reflexivity.
  - intros k. cbn [dv_coil dv_disc dv_hold dv_inp rf_coils rf_discrete rf_holding rf_input].
    replace (v1 * 256 + v0 =? 65280) with (v1 =? 255) by lia.
    split; [apply sim_upd; intros j; apply Hs|]. repeat split; apply Hs.
Qed.

Lemma agree_writereg d m u pl r : cli_dev_sim d m ->
  spec_decode (mkpdu u 6 pl) = Some r -> in_range r = true -> dev_agrees d m (mkpdu u 6 pl) r.
Proof.
  intros Hs Hd Hr. cbn [spec_decode p_unit p_fc p_payload] in Hd.
  destruct pl as [|a1 [|a0 [|v1 [|v0 [|x pl]]]]]; try discriminate Hd.
  unfold be2 in Hd. remember (a1 * 256 + a0) as a eqn:Ea. injection Hd as <-.
  unfold dev_agrees, cli_dev_serve, e2e_mem_handler, rf_nofail.
  cbn [p_unit p_fc p_payload e2e_failure h_kind h_write h_addr h_qty h_regs fst snd N.eqb Pos.eqb orb].
  rewrite <- Ea. cbn [fst snd]. split.
  - unfold spec_response. cbn [r_err h_kind h_write p_unit p_fc p_payload firstn]. reflexivity.
  - intros k. cbn [dv_coil dv_disc dv_hold dv_inp rf_coils rf_discrete rf_holding rf_input].
    split; [apply Hs|]. split; [apply Hs|]. split; [apply sim_upd; intros j; apply Hs|apply Hs].
Qed.

Lemma agree_writecoils d m u pl r : cli_dev_sim d m ->
  spec_decode (mkpdu u 15 pl) = Some r -> in_range r = true -> dev_agrees d m (mkpdu u 15 pl) r.
Proof.
  intros Hs Hd Hr. cbn [spec_decode p_unit p_fc p_payload] in Hd.
  destruct pl as [|a1 [|a0 [|q1 [|q0 [|bc data]]]]]; try discriminate Hd.
  unfold be2 in Hd. remember (a1 * 256 + a0) as a eqn:Ea. remember (q1 * 256 + q0) as q eqn:Eq.
  destruct ((1 <=? q) && (q <=? 1968) && (bc =? (q + 7) / 8) && (lenN data =? (q + 7) / 8)) eqn:E1;
    [|discriminate Hd].
  destruct (decode_bools (N.to_nat q) data) as [args|] eqn:Ed; [|discriminate Hd]. injection Hd as <-.
  unfold in_range in Hr; cbn [h_addr h_qty] in Hr.
  unfold dev_agrees, cli_dev_serve, e2e_mem_handler, rf_nofail.
  cbn [p_unit p_fc p_payload e2e_failure h_kind h_write h_addr h_qty h_bools fst snd N.eqb Pos.eqb orb].
  rewrite <- Ea, <- Eq.
  replace ((q =? 0) || (1968 <? q) || negb (bc =? (q + 7) / 8) || negb (lenN data =? bc)) with false by lia.
  replace (65536 <? a + q) with false by lia. rewrite Ed.
  cbn [fst snd]. split.
  - unfold spec_response. cbn [r_err h_kind h_write p_unit p_fc p_payload firstn]. reflexivity.
  - intros k. cbn [dv_coil dv_disc dv_hold dv_inp rf_coils rf_discrete rf_holding rf_input].
    split; [apply sim_upd; intros j; apply Hs|]. repeat split; apply Hs.
Qed.

Lemma agree_writeregs d m u pl r : cli_dev_sim d m ->
  spec_decode (mkpdu u 16 pl) = Some r -> in_range r = true -> dev_agrees d m (mkpdu u 16 pl) r.
Proof.
  intros Hs Hd Hr. cbn [spec_decode p_unit p_fc p_payload] in Hd.
  destruct pl as [|a1 [|a0 [|q1 [|q0 [|bc data]]]]]; try discriminate Hd.
  unfold be2 in Hd. remember (a1 * 256 + a0) as a eqn:Ea. remember (q1 * 256 + q0) as q eqn:Eq.
  destruct ((1 <=? q) && (q <=? 123) && (bc =? 2 * q) && (lenN data =? 2 * q)) eqn:E1;
    [|discriminate Hd].
  destruct (bytes_to_u16s BigE data) as [args|] eqn:Ed; [|discriminate Hd]. injection Hd as <-.
  unfold in_range in Hr; cbn [h_addr h_qty] in Hr.
  unfold dev_agrees, cli_dev_serve, e2e_mem_handler, rf_nofail.
  cbn [p_unit p_fc p_payload e2e_failure h_kind h_write h_addr h_qty h_regs fst snd N.eqb Pos.eqb orb].
  rewrite <- Ea, <- Eq.
  replace ((q =? 0) || (123 <? q) || negb (bc =? 2 * q) || negb (lenN data =? bc)) with false by lia.
  replace (65536 <? a + q) with false by lia. rewrite Ed.
  cbn [fst snd]. split.
  - unfold spec_response. cbn [r_err h_kind h_write p_unit p_fc p_payload firstn]. reflexivity.
  - intros k. cbn [dv_coil dv_disc dv_hold dv_inp rf_coils rf_discrete rf_holding rf_input].
    split; [apply Hs|]. split; [apply Hs|]. split; [apply sim_upd; intros j; apply Hs|apply Hs].
Qed.

(* every request the server dispatches *)
Theorem dev_agrees_server : forall d m p r, cli_dev_sim d m -> rfmem_wf m ->
  spec_decode p = Some r -> in_range r = true -> dev_agrees d m p r.
Proof.
  intros d m [u fc pl] r Hs Hm Hd Hr.
  destruct (supported_fc fc) eqn:Hsup; [|rewrite spec_decode_unsupported in Hd by exact Hsup; discriminate Hd].
  unfold supported_fc, mem in Hsup. cbn [existsb] in Hsup.
  destruct (N.eq_dec fc 1) as [->|N1]; [apply agree_readbits; auto|].
  destruct (N.eq_dec fc 2) as [->|N2]; [apply agree_readbits; auto|].
  destruct (N.eq_dec fc 3) as [->|N3]; [apply agree_readregs; auto|].
  destruct (N.eq_dec fc 4) as [->|N4]; [apply agree_readregs; auto|].
  destruct (N.eq_dec fc 5) as [->|N5]; [apply agree_writecoil; auto|].
  destruct (N.eq_dec fc 6) as [->|N6]; [apply agree_writereg; auto|].
  destruct (N.eq_dec fc 15) as [->|N15]; [apply agree_writecoils; auto|].
  destruct (N.eq_dec fc 16) as [->|N16]; [apply agree_writeregs; auto|].
  exfalso. lia.
Qed.

(* the same on the wire: the server side of the C04 composition (one turn of
   the session loop on the MBAP frame of p) sends back the frame of the
   device's reply, invokes the handler once with r, and the memories
   correspond afterwards *)
Theorem dev_serve_is_server : forall d m t p r, t < 65536 -> pdu_wf p -> cli_dev_sim d m -> rfmem_wf m ->
  spec_decode p = Some r -> in_range r = true ->
  exists m',
    e2e_serve rf_nofail m (spec_frame FMbap t p) =
      (m', [r], assemble_mbap t (fst (cli_dev_serve d p)), Stall) /\
    cli_dev_sim (snd (cli_dev_serve d p)) m'.
Proof.
  intros d m t p r Ht Hp Hs Hm Hd Hr.
  destruct (dev_agrees_server d m p r Hs Hm Hd Hr) as [H1 H2]. cbv zeta in H1, H2.
  change (spec_frame FMbap t p) with (spec_mbap t p). rewrite <- (app_nil_r (spec_mbap t p)).
  rewrite e2e_serve_frame; [|exact Ht|apply Hp].
  pose proof (server_process_spec (e2e_mem_handler rf_nofail) m p Hp (mem_handler_wf rf_nofail rf_nofail_wf)) as HS.
  unfold process_ok in HS.
  destruct (server_process (e2e_mem_handler rf_nofail) m p) as [[m' calls] act].
  rewrite Hd, Hr in HS. destruct HS as (-> & _ & -> & ->).
  eexists. split; [rewrite H1; reflexivity|exact H2].
Qed.

(* for the request of every public client call within protocol limits (in
   particular every request a CLI command issues): the handler sees the
   invocation the register file names and the device ends in the register
   file's new contents *)
Theorem dev_serves_op : forall cfg o d m t, op_wf o -> valid_op o = true -> cfg_wf cfg -> t < 65536 ->
  cli_dev_sim d m -> rfmem_wf m ->
  let req := spec_pdu cfg o in
  client_request cfg o = Ok req /\
  e2e_serve rf_nofail m (spec_frame FMbap t req) =
    (rf_commit cfg m o, [rf_request cfg o], assemble_mbap t (fst (cli_dev_serve d req)), Stall) /\
  cli_dev_sim (snd (cli_dev_serve d req)) (rf_commit cfg m o).
Proof.
  intros cfg o d m t Hwf V Hc Ht Hs Hm req.
  pose proof (client_request_exact cfg o Hwf) as Hreq. rewrite V in Hreq. split; [exact Hreq|].
  pose proof (decode_request cfg o Hwf V) as Hd. pose proof (rf_request_range cfg o V) as Hr.
  destruct (dev_serve_is_server d m t req (rf_request cfg o) Ht (spec_pdu_wf cfg o Hwf Hc V) Hs Hm Hd Hr)
    as (m' & E & Hs').
  assert (Hm' : m' = rf_commit cfg m o).
  { change (spec_frame FMbap t req) with (spec_mbap t req) in E. rewrite <- (app_nil_r (spec_mbap t req)) in E.
    rewrite e2e_serve_frame in E; [|exact Ht|apply (spec_pdu_wf cfg o Hwf Hc V)].
    pose proof (server_process_spec (e2e_mem_handler rf_nofail) m req (spec_pdu_wf cfg o Hwf Hc V)
                  (mem_handler_wf rf_nofail rf_nofail_wf)) as HS.
    unfold process_ok in HS.
    destruct (server_process (e2e_mem_handler rf_nofail) m req) as [[m1 calls] act].
    fold req in Hd. rewrite Hd, Hr in HS. destruct HS as (_ & _ & Hm1 & Hact). subst act.
    injection E as E _ _. subst m1 m'.
    destruct (handler_answers rf_nofail cfg m o Hwf Hc V Hm eq_refl) as (Hfst & _). exact Hfst. }
  subst m'. split; [exact E|exact Hs'].
Qed.

(* ------------------------------------------------------------ (2) the run *)

(* The history a command list stands for: sid:n is SetUnitId, every other
   command is ONE typed client call. f names the call: cli_doc_op (the help
   text's operation, Spec/CliSpec.v) or cli_to_op (the code's, with its 16-bit
   quantity + 1). The inner None branch is dead (rf_op_by_cases). *)
Definition cli_rf_op_by (f : cli_operation -> option op) (c : cli_operation) : rf_op :=
  match c with
  | CoSetUnit u => RfSetUnit u
  | _ => match f c with Some o => RfCall o | None => RfSetEnc 0 0 end
  end.

Definition cli_rf_op : cli_operation -> rf_op := cli_rf_op_by cli_doc_op.
Definition cli_rf_op_code : cli_operation -> rf_op := cli_rf_op_by cli_to_op.

(* the device never fails on its own: every step runs under rf_nofail *)
Definition cli_history_by (f : cli_operation -> rf_op) (cs : list cli_operation)
  : list ((hreq -> option herr) * rf_op) := map (fun c => (rf_nofail, f c)) cs.

Definition cli_history : list cli_operation -> list ((hreq -> option herr) * rf_op) :=
  cli_history_by cli_rf_op.
Definition cli_history_code : list cli_operation -> list ((hreq -> option herr) * rf_op) :=
  cli_history_by cli_rf_op_code.

(* what the CLI prints for a command list, given what each step returned to
   the caller *)
Fixpoint cli_printed_of (cs : list cli_operation) (outs : list rf_result) : list cli_line :=
  match cs, outs with
  | c :: cs', out :: outs' => cli_print c (fst out) ++ cli_printed_of cs' outs'
  | _, _ => []
  end.

Lemma to_op_doc c o : cli_op_wf c -> cli_to_op c = Some o ->
  op_wf o /\ exists o', cli_doc_op c = Some o' /\ valid_op o = valid_op o' /\ (valid_op o' = true -> o = o').
Proof.
  intros Hwf Ho. destruct (cli_doc_op c) as [o'|] eqn:Hd.
  - destruct (op_agree c o' Hwf Hd) as (o1 & Ho1 & Hwf1 & Hv & Heq). rewrite Ho in Ho1. injection Ho1 as <-.
    split; [exact Hwf1|]. exists o'. auto.
  - destruct (doc_op_none c Hd) as [u ->]. discriminate Ho.
Qed.

Lemma rf_op_by_cases c : cli_op_wf c ->
  (exists u, c = CoSetUnit u /\ cli_rf_op c = RfSetUnit u /\ cli_rf_op_code c = RfSetUnit u) \/
  (exists o o', cli_doc_op c = Some o /\ cli_to_op c = Some o' /\ op_wf o' /\
                valid_op o' = valid_op o /\ (valid_op o = true -> o' = o) /\
                cli_rf_op c = RfCall o /\ cli_rf_op_code c = RfCall o').
Proof.
  intros Hwf. destruct (cli_doc_op c) as [o|] eqn:Hd.
  - right. destruct (op_agree c o Hwf Hd) as (o' & Ho' & Hwf' & Hv & Heq).
    exists o, o'. split; [reflexivity|]. do 4 (split; [assumption|]).
    unfold cli_rf_op, cli_rf_op_code, cli_rf_op_by. rewrite Hd, Ho'.
    destruct c; try (split; reflexivity). cbn in Hd. discriminate Hd.
  - left. destruct (doc_op_none c Hd) as [u ->]. exists u. repeat split.
Qed.

(* the code's call and the documented call are the same step of the register file *)
Lemma rf_step_agree fail s o o' : valid_op o' = valid_op o -> (valid_op o = true -> o' = o) ->
  rf_step fail s (RfCall o') = rf_step fail s (RfCall o).
Proof.
  intros Hv Heq. destruct (valid_op o) eqn:V; [rewrite (Heq eq_refl); reflexivity|].
  destruct s as [c m]. cbn [rf_step]. rewrite Hv, V. reflexivity.
Qed.

Lemma rf_step_code fail s c : cli_op_wf c ->
  rf_step fail s (cli_rf_op_code c) = rf_step fail s (cli_rf_op c).
Proof.
  intros Hwf. destruct (rf_op_by_cases c Hwf) as [(u & _ & -> & ->)|(o & o' & _ & _ & _ & Hv & Heq & -> & ->)];
    [reflexivity|]. apply rf_step_agree; assumption.
Qed.

Lemma rf_run_code cs : Forall cli_op_wf cs -> forall s,
  rf_run s (cli_history_code cs) = rf_run s (cli_history cs).
Proof.
  induction 1 as [|c t Hc _ IH]; intros s; [reflexivity|].
  unfold cli_history_code, cli_history, cli_history_by in *. cbn [map rf_run].
  rewrite (rf_step_code rf_nofail s c Hc).
  destruct (rf_step rf_nofail s (cli_rf_op c)) as [s1 out]. rewrite IH. reflexivity.
Qed.

(* the CLI's state against the state of the C04 composition *)
Definition cli_e2e_sim (st : cli_state) (s : e2e_state) : Prop :=
  cs_cfg st = e2e_cfg s /\ cs_txn st = e2e_txn s /\ cli_dev_sim (cs_dev st) (e2e_mem s) /\ e2e_wf s.

(* the composition a CLI state stands for *)
Definition cli_e2e_of (st : cli_state) : e2e_state :=
  mke2e (cs_cfg st) (cli_dev_mem (cs_dev st)) (cs_txn st) [].

Lemma e2e_of_sim st : cfg_wf (cs_cfg st) -> cs_txn st < 65536 -> cli_dev_wf (cs_dev st) ->
  cli_e2e_sim st (cli_e2e_of st).
Proof.
  intros Hc Ht Hd. unfold cli_e2e_sim, cli_e2e_of, e2e_wf. cbn [e2e_cfg e2e_txn e2e_mem e2e_left].
  repeat split; try assumption; try apply dev_mem_wf; assumption.
Qed.

(* one iteration of the execution loop is one step of the composition *)
Lemma cli_exec_e2e st s c : cli_op_wf c -> cli_e2e_sim st s ->
  let r := e2e_step rf_nofail s (cli_rf_op_code c) in
  cli_e2e_sim (cli_exec st c) (fst r) /\
  cs_out (cli_exec st c) = cs_out st ++ cli_print c (fst (snd r)).
Proof.
  intros Hwf (Hcfg & Htxn & Hsim & Hs) r. subst r.
  pose proof Hs as (Hc & Hm & Ht & Hleft).
  destruct (rf_op_by_cases c Hwf) as [(u & -> & _ & ->)|(o' & o & Hd & Ho & Hwfo & Hv & Heq & _ & ->)].
  - (* sid *)
    destruct (e2e_step_refines rf_nofail s (RfSetUnit u) Hs Hwf rf_nofail_wf) as [_ Hs'].
    cbn [e2e_step fst snd] in *. rewrite exec_set_unit. cbn [cs_out cli_print].
    split; [|rewrite app_nil_r; reflexivity].
    unfold cli_e2e_sim. cbn [cs_cfg cs_txn cs_dev e2e_cfg e2e_txn e2e_mem]. rewrite Hcfg.
    split; [reflexivity|]. split; [exact Htxn|]. split; [exact Hsim|exact Hs'].
  - cbn [e2e_step]. destruct (e2e_call_refines rf_nofail s o Hs Hwfo rf_nofail_wf) as (_ & _ & Hs').
    destruct (valid_op o) eqn:V.
    + (* within limits: one exchange, the device in place of the server *)
      rewrite <- Hcfg, <- Htxn in *.
      assert (Htu : u16 (cs_txn st + 1) < 65536) by (unfold u16; lia).
      destruct (dev_serves_op (cs_cfg st) o (cs_dev st) (e2e_mem s) (u16 (cs_txn st + 1))
                  Hwfo V Hc Htu Hsim Hm) as (Hreq & Hsrv & Hsim').
      cbv zeta in Hreq, Hsrv, Hsim'.
      destruct (client_transmit FMbap (cs_cfg st) (cs_txn st) o Stall [] Hwfo Hc Ht) as [Hw _].
      cbv zeta in Hw. specialize (Hw V).
      assert (Hcall : e2e_call rf_nofail s o =
                let cr := client_call FMbap (cs_cfg st) (cs_txn st) o Stall
                            (assemble_mbap (u16 (cs_txn st + 1))
                               (fst (cli_dev_serve (cs_dev st) (spec_pdu (cs_cfg st) o)))) in
                (mke2e (cs_cfg st) (rf_commit (cs_cfg st) (e2e_mem s) o) (cr_txn cr) (cr_rest cr),
                 (cr_res cr, [rf_request (cs_cfg st) o]))).
      { unfold e2e_call. rewrite <- Hcfg, <- Htxn, Hleft, Hw. cbn [concat]. rewrite app_nil_r, Hsrv.
        cbn [app]. reflexivity. }
      rewrite Hcall in Hs' |- *. cbv zeta in Hs' |- *. cbn [fst snd] in Hs' |- *.
      unfold cli_exec. rewrite Ho, Hreq.
      destruct (cli_dev_serve (cs_dev st) (spec_pdu (cs_cfg st) o)) as [res d'] eqn:Es.
      cbn [fst snd] in *. cbn [cs_out].
      split; [|reflexivity].
      unfold cli_e2e_sim. cbn [cs_cfg cs_txn cs_dev e2e_cfg e2e_txn e2e_mem].
      split; [reflexivity|]. split; [reflexivity|]. split; [exact Hsim'|exact Hs'].
    + (* beyond the limits: rejected locally on both sides *)
      symmetry in Hv.
      rewrite (exec_invalid st c o' Hwf Hd Hv). cbn [cs_out].
      destruct (e2e_call_refines rf_nofail s o Hs Hwfo rf_nofail_wf) as (H1 & H2 & _).
      unfold e2e_view in H1, H2. cbn [rf_step] in H1, H2. rewrite V in H1, H2.
      cbn [fst snd] in H1, H2. rewrite H2. cbn [fst cli_print]. split; [|reflexivity].
      rewrite H1 in Hs' |- *.
      unfold cli_e2e_sim. cbn [cs_cfg cs_txn cs_dev e2e_cfg e2e_txn e2e_mem].
      split; [exact Hcfg|]. split; [exact Htxn|]. split; [exact Hsim|exact Hs'].
Qed.

(* (2a) the whole run, with the library's server model in the loop: the CLI's
   execution loop IS the C04 composition run on the commands' calls *)
Theorem cli_run_e2e : forall cs st s, Forall cli_op_wf cs -> cli_e2e_sim st s ->
  let r := e2e_run s (cli_history_code cs) in
  cli_e2e_sim (cli_run st cs) (fst r) /\
  cs_out (cli_run st cs) = cs_out st ++ cli_printed_of cs (snd r).
Proof.
  induction cs as [|c t IH]; intros st s Hall Hsim.
  - cbn. rewrite app_nil_r. split; [exact Hsim|reflexivity].
  - inversion Hall as [|? ? Hc Ht]; subst.
    destruct (cli_exec_e2e st s c Hc Hsim) as [H1 H2]. cbv zeta in H1, H2.
    unfold cli_history_code, cli_history_by in *. cbn [map e2e_run cli_run fold_left].
    destruct (e2e_step rf_nofail s (cli_rf_op_code c)) as [s1 out]. cbn [fst snd] in H1, H2.
    destruct (IH (cli_exec st c) s1 Ht H1) as [H3 H4]. cbv zeta in H3, H4.
    destruct (e2e_run s1 (map (fun c0 => (rf_nofail, cli_rf_op_code c0)) t)) as [s2 outs].
    cbn [fst snd] in *. unfold cli_run in H3, H4. split; [exact H3|].
    rewrite H4, H2, <- app_assoc. reflexivity.
Qed.

(* ------------------------------------------------------------ composition with C04 *)

Lemma history_code_wf cs : Forall cli_op_wf cs -> rf_history_wf (cli_history_code cs).
Proof.
  intros H. unfold rf_history_wf, cli_history_code, cli_history_by. apply Forall_map.
  eapply Forall_impl; [|exact H]. intros c Hc. cbn [fst snd]. split; [exact rf_nofail_wf|].
  destruct (rf_op_by_cases c Hc) as [(u & -> & _ & ->)|(o & o' & _ & _ & Hwf & _ & _ & _ & ->)];
    cbn [rf_op_wf]; [exact Hc|exact Hwf].
Qed.

Lemma sim_dev_wf d m : cli_dev_sim d m -> rfmem_wf m -> cli_dev_wf d.
Proof.
  intros Hs Hm k. destruct (Hs k) as (_ & _ & H1 & H2). rewrite H1, H2. apply Hm.
Qed.

(* one command = one step of the register file on its documented operation *)
Theorem cli_exec_refines_rf : forall st m c,
  cli_op_wf c -> cfg_wf (cs_cfg st) -> cs_txn st < 65536 -> cli_dev_sim (cs_dev st) m -> rfmem_wf m ->
  let r := rf_step rf_nofail (cs_cfg st, m) (cli_rf_op c) in
  cs_cfg (cli_exec st c) = fst (fst r) /\
  cli_dev_sim (cs_dev (cli_exec st c)) (snd (fst r)) /\ rfmem_wf (snd (fst r)) /\
  cs_txn (cli_exec st c) < 65536 /\
  cs_out (cli_exec st c) = cs_out st ++ cli_print c (fst (snd r)).
Proof.
  intros st m c Hwf Hc Ht Hsim Hm r. subst r.
  set (s := mke2e (cs_cfg st) m (cs_txn st) []).
  assert (Hs : e2e_wf s) by (unfold e2e_wf, s; cbn [e2e_cfg e2e_mem e2e_txn e2e_left]; auto).
  assert (Hss : cli_e2e_sim st s) by (unfold cli_e2e_sim, s; cbn [e2e_cfg e2e_mem e2e_txn]; auto).
  destruct (cli_exec_e2e st s c Hwf Hss) as [(E1 & E2 & E3 & E4) E5]. cbv zeta in *.
  assert (Hx : rf_op_wf (cli_rf_op_code c)).
  { destruct (rf_op_by_cases c Hwf) as [(u & -> & _ & ->)|(o & o' & _ & _ & Hwf' & _ & _ & _ & ->)];
      cbn [rf_op_wf]; assumption. }
  destruct (e2e_step_refines rf_nofail s (cli_rf_op_code c) Hs Hx rf_nofail_wf) as [R _].
  rewrite (rf_step_code rf_nofail (e2e_view s) c Hwf) in R.
  change (e2e_view s) with (cs_cfg st, m) in R. rewrite <- R. cbn [fst snd]. unfold e2e_view. cbn [fst snd].
  destruct E4 as (_ & Hm' & Ht' & _).
  split; [exact E1|]. split; [exact E3|]. split; [exact Hm'|]. split; [rewrite E2; exact Ht'|exact E5].
Qed.

(* (2b) the whole run: CLI command -> documented operation -> register file.
   The CLI's execution loop against its device is a run of the abstract
   register file on the documented operations of the commands: the final
   unit id / encoding, the final device contents and every printed line are
   those of rf_run. (cli_run_e2e: the loop is the C04 composition;
   e2e_run_refines: the composition refines the register file; rf_run_code:
   the code's 16-bit quantity + 1 does not matter.) *)
Theorem cli_run_refines_rf : forall cs st m,
  Forall cli_op_wf cs -> cfg_wf (cs_cfg st) -> cs_txn st < 65536 -> cli_dev_sim (cs_dev st) m -> rfmem_wf m ->
  let r := rf_run (cs_cfg st, m) (cli_history cs) in
  cs_cfg (cli_run st cs) = fst (fst r) /\
  cli_dev_sim (cs_dev (cli_run st cs)) (snd (fst r)) /\ rfmem_wf (snd (fst r)) /\
  cs_out (cli_run st cs) = cs_out st ++ cli_printed_of cs (snd r).
Proof.
  intros cs st m Hall Hc Ht Hsim Hm r. subst r.
  set (s := mke2e (cs_cfg st) m (cs_txn st) []).
  assert (Hs : e2e_wf s) by (unfold e2e_wf, s; cbn [e2e_cfg e2e_mem e2e_txn e2e_left]; auto).
  assert (Hss : cli_e2e_sim st s) by (unfold cli_e2e_sim, s; cbn [e2e_cfg e2e_mem e2e_txn]; auto).
  destruct (cli_run_e2e cs st s Hall Hss) as [(E1 & E2 & E3 & E4) E5]. cbv zeta in *.
  destruct (e2e_run_refines (cli_history_code cs) s Hs (history_code_wf cs Hall)) as [R _].
  rewrite (rf_run_code cs Hall) in R. change (e2e_view s) with (cs_cfg st, m) in R.
  rewrite <- R. cbn [fst snd]. unfold e2e_view. cbn [fst snd].
  destruct E4 as (_ & Hm' & _ & _).
  split; [exact E1|]. split; [exact E3|]. split; [exact Hm'|exact E5].
Qed.

(* the same from main: an accepted command line, run against a device, prints
   what the register file holding the device's initial contents returns for
   the documented operations of its commands, and leaves the device with the
   register file's final contents *)
Theorem cli_main_refines_rf : forall pf32 pf64,
  (forall s v, pf32 s = Some v -> v < 2 ^ 32) -> (forall s v, pf64 s = Some v -> v < 2 ^ 64) ->
  forall e w u args dev st,
  Forall (fun a => bytesb a = true) args -> bytesb u = true -> cli_dev_wf dev ->
  cli_main pf32 pf64 e w u args dev = CliDone st ->
  exists unit en wo ops,
    sc_parse_uint 64 u = ScOk unit /\ unit < 256 /\
    cli_endian_of e = Some en /\ cli_word_of w = Some wo /\
    Forall2 (fun a o => cli_parse_cmd pf32 pf64 a = CliOk o) args ops /\
    let r := rf_run (mkcfg unit en wo, cli_dev_mem dev) (cli_history ops) in
    cs_cfg st = fst (fst r) /\ cli_dev_sim (cs_dev st) (snd (fst r)) /\
    cs_out st = cli_printed_of ops (snd r).
Proof.
  intros pf32 pf64 B32 B64 e w u args dev st Hb Hu Hd H.
  destruct (main_done pf32 pf64 e w u args dev st H) as (unit & en & wo & ops & H1 & H2 & H3 & H4 & H5 & H6).
  exists unit, en, wo, ops. do 4 (split; [assumption|]). split; [apply parse_all_ok; exact H5|].
  pose proof (parse_all_wf pf32 pf64 B32 B64 args ops Hb H5) as Hall.
  destruct (cli_run_refines_rf ops (mkclist (mkcfg unit en wo) 0 dev [] []) (cli_dev_mem dev) Hall
              ltac:(cbn; exact H2) ltac:(cbn; lia) (dev_mem_sim dev) (dev_mem_wf dev Hd)) as (E1 & E2 & _ & E4).
  cbv zeta in *. cbn [cs_cfg cs_out app] in *. subst st. split; [exact E1|]. split; [exact E2|exact E4].
Qed.

(* ------------------------------------------------------------ the register commands, spelled out *)

(* rh/ri:T:a+q (T numeric, within limits): value i printed is the register
   file's registers a + i*w(T) .. a + i*w(T) + w(T) - 1 of the addressed table
   decoded in the selected encoding (Spec/RegFile.v: rf_regs_value), printed
   at address a + i*w(T); the device is unchanged *)
Theorem exec_read_regs_rf : forall st m h t a q,
  t <> CtBytes -> a < 65536 -> q < 65536 -> cfg_wf (cs_cfg st) -> cs_txn st < 65536 ->
  cli_dev_sim (cs_dev st) m -> rfmem_wf m ->
  (q + 1) * cli_width t <= 125 -> a + (q + 1) * cli_width t <= 65536 ->
  let c := CoReadRegs h t a q in
  let w := cli_width t in
  let tbl := if h then rf_holding m else rf_input m in
  cli_rf_op c = RfCall (OpReadRegs w a (q + 1) (if h then Holding else InputReg)) /\
  cs_out (cli_exec st c) = cs_out st ++
    cli_print c (Ok (VNums (map (fun i => rf_regs_value (cs_cfg st) (cells_load tbl (a + N.of_nat i * w) w))
                                (seq 0 (N.to_nat (q + 1)))))) /\
  cli_dev_sim (cs_dev (cli_exec st c)) m.
Proof.
  intros st m h t a q Ht Ha Hq Hc Htx Hsim Hm Hlim Hend c w tbl.
  set (o := OpReadRegs w a (q + 1) (if h then Holding else InputReg)).
  assert (Hd : cli_doc_op c = Some o) by (unfold c, o, w; destruct t; try congruence; reflexivity).
  assert (Hop : cli_rf_op c = RfCall o) by (unfold cli_rf_op, cli_rf_op_by, c; fold c; rewrite Hd; reflexivity).
  assert (Hv : valid_op o = true) by (rewrite (read_regs_valid h t a q o Ht Hd); fold w; lia).
  assert (Hwf : cli_op_wf c) by (cbn; split; assumption).
  destruct (cli_exec_refines_rf st m c Hwf Hc Htx Hsim Hm) as (_ & E2 & _ & _ & E5). cbv zeta in E2, E5.
  rewrite Hop in E2, E5. cbn [rf_step] in E2, E5. rewrite Hv in E2, E5.
  cbn [rf_nofail rf_failure fst snd rf_commit rf_read] in E2, E5.
  split; [exact Hop|]. split; [|exact E2]. rewrite E5. unfold tbl, rf_table. destruct h; reflexivity.
Qed.

(* wr:T:a:v (T numeric): "wrote" is printed and the device holds the register
   file's documented store: registers a .. a+w(T)-1 hold the value's words,
   most significant word first unless low-word-first, each register byte
   swapped for little-endian (Spec/RegFile.v: rf_value_regs), every other
   cell unchanged (Base/Cells.v: cells_store) *)
Theorem exec_write_num_rf : forall st m t a v,
  t <> CtBytes -> a < 65536 -> v < 2 ^ (16 * cli_width t) -> a + cli_width t <= 65536 ->
  cfg_wf (cs_cfg st) -> cs_txn st < 65536 -> cli_dev_sim (cs_dev st) m -> rfmem_wf m ->
  let c := CoWriteNum t a v in
  cs_out (cli_exec st c) = cs_out st ++ [ClWrote] /\
  cli_dev_sim (cs_dev (cli_exec st c))
    (mkrfmem (rf_coils m) (rf_discrete m)
       (cells_store (rf_holding m) a (rf_value_regs (cs_cfg st) (cli_width t) v)) (rf_input m)).
Proof.
  intros st m t a v Ht Ha Hv Hend Hc Htx Hsim Hm c.
  assert (Hwf : cli_op_wf c) by (cbn; repeat split; assumption).
  destruct (cli_exec_refines_rf st m c Hwf Hc Htx Hsim Hm) as (_ & E2 & _ & _ & E5). cbv zeta in E2, E5.
  destruct (width_cases t) as [Hw | Hw2].
  - assert (Hop : cli_rf_op c = RfCall (OpWriteReg a v)).
    { unfold cli_rf_op, cli_rf_op_by, c. cbn [cli_doc_op]. rewrite Hw. reflexivity. }
    assert (Hvalid : valid_op (OpWriteReg a v) = true) by valid_tac.
    rewrite Hop in E2, E5. cbn [rf_step] in E2, E5. rewrite Hvalid in E2, E5.
    cbn [rf_nofail rf_failure fst snd rf_commit rf_read] in E2, E5. rewrite Hw.
    split; [exact E5|exact E2].
  - set (w := cli_width t) in *.
    assert (Hop : cli_rf_op c = RfCall (OpWriteRegs w a [v])).
    { unfold cli_rf_op, cli_rf_op_by, c. cbn [cli_doc_op]. fold w. destruct Hw2 as [-> | ->]; reflexivity. }
    assert (Hvalid : valid_op (OpWriteRegs w a [v]) = true).
    { unfold valid_op. cbn [op_regtype_ok op_count op_limit op_addr lenN length]. destruct Hw2 as [-> | ->]; cbn; lia. }
    rewrite Hop in E2, E5. cbn [rf_step] in E2, E5. rewrite Hvalid in E2, E5.
    cbn [rf_nofail rf_failure fst snd rf_commit rf_read flat_map] in E2, E5. rewrite app_nil_r in E2.
    split; [exact E5|exact E2].
Qed.

(* rc/rdi:a+q within limits: the printed values are the register file's coils
   / discrete inputs a .. a+q *)
Theorem exec_read_bools_rf : forall st m coil a q,
  a < 65536 -> q < 65536 -> cfg_wf (cs_cfg st) -> cs_txn st < 65536 ->
  cli_dev_sim (cs_dev st) m -> rfmem_wf m -> q + 1 <= 2000 -> a + q + 1 <= 65536 ->
  let c := CoReadBools coil a q in
  cs_out (cli_exec st c) = cs_out st ++
    cli_print c (Ok (VBools (cells_load (if coil then rf_coils m else rf_discrete m) a (q + 1)))) /\
  cli_dev_sim (cs_dev (cli_exec st c)) m.
Proof.
  intros st m coil a q Ha Hq Hc Htx Hsim Hm Hlim Hend c.
  set (o := OpReadBools (negb coil) a (q + 1)).
  assert (Hd : cli_doc_op c = Some o) by reflexivity.
  assert (Hv : valid_op o = true) by (rewrite (read_bools_valid coil a q o Hd); lia).
  assert (Hwf : cli_op_wf c) by (cbn; split; assumption).
  destruct (cli_exec_refines_rf st m c Hwf Hc Htx Hsim Hm) as (_ & E2 & _ & _ & E5). cbv zeta in E2, E5.
  change (cli_rf_op c) with (RfCall o) in E2, E5. cbn [rf_step] in E2, E5. rewrite Hv in E2, E5.
  cbn [rf_nofail rf_failure fst snd rf_commit rf_read o] in E2, E5.
  split; [|exact E2]. rewrite E5. destruct coil; reflexivity.
Qed.

(* wc:a:v: coil a holds v, every other cell unchanged *)
Theorem exec_write_coil_rf : forall st m a v,
  a < 65536 -> cfg_wf (cs_cfg st) -> cs_txn st < 65536 -> cli_dev_sim (cs_dev st) m -> rfmem_wf m ->
  let c := CoWriteCoil a v in
  cs_out (cli_exec st c) = cs_out st ++ [ClWrote] /\
  cli_dev_sim (cs_dev (cli_exec st c))
    (mkrfmem (cells_store (rf_coils m) a [v]) (rf_discrete m) (rf_holding m) (rf_input m)).
Proof.
  intros st m a v Ha Hc Htx Hsim Hm c.
  assert (Hwf : cli_op_wf c) by exact Ha.
  assert (Hvalid : valid_op (OpWriteCoil a v) = true) by valid_tac.
  destruct (cli_exec_refines_rf st m c Hwf Hc Htx Hsim Hm) as (_ & E2 & _ & _ & E5). cbv zeta in E2, E5.
  change (cli_rf_op c) with (RfCall (OpWriteCoil a v)) in E2, E5. cbn [rf_step] in E2, E5. rewrite Hvalid in E2, E5.
  cbn [rf_nofail rf_failure fst snd rf_commit rf_read] in E2, E5. split; [exact E5|exact E2].
Qed.

(* rh/ri:bytes:a+q within limits: the printed bytes are the first q+1 bytes of
   the register file's registers a .., high byte first (low byte first when
   --endianness little) *)
Theorem exec_read_bytes_rf : forall st m h a q,
  a < 65536 -> q < 65536 -> cfg_wf (cs_cfg st) -> cs_txn st < 65536 ->
  cli_dev_sim (cs_dev st) m -> rfmem_wf m -> (q + 2) / 2 <= 125 -> a + (q + 2) / 2 <= 65536 ->
  let c := CoReadRegs h CtBytes a q in
  let tbl := if h then rf_holding m else rf_input m in
  cs_out (cli_exec st c) = cs_out st ++
    cli_print c (Ok (VBytes (firstn (N.to_nat (q + 1))
      (flat_map (rf_reg_bytes (rf_swapped (cs_cfg st) false)) (cells_load tbl a ((q + 2) / 2)))))) /\
  cli_dev_sim (cs_dev (cli_exec st c)) m.
Proof.
  intros st m h a q Ha Hq Hc Htx Hsim Hm Hlim Hend c tbl.
  set (o := OpReadBytes false a (q + 1) (if h then Holding else InputReg)).
  assert (Hd : cli_doc_op c = Some o) by reflexivity.
  assert (Hv : valid_op o = true) by (rewrite (read_bytes_valid h a q o Hd); lia).
  assert (Hwf : cli_op_wf c) by (cbn; split; assumption).
  destruct (cli_exec_refines_rf st m c Hwf Hc Htx Hsim Hm) as (_ & E2 & _ & _ & E5). cbv zeta in E2, E5.
  change (cli_rf_op c) with (RfCall o) in E2, E5. cbn [rf_step] in E2, E5. rewrite Hv in E2, E5.
  cbn [rf_nofail rf_failure fst snd rf_commit rf_read o] in E2, E5.
  split; [|exact E2]. rewrite E5. replace (q + 1 + 1) with (q + 2) by lia.
  unfold tbl, rf_table. destruct h; reflexivity.
Qed.

(* wr:bytes / wr:string: the registers a .. hold the bytes two per register,
   the first byte in the high half (the low half when --endianness little),
   odd lengths zero padded *)
Theorem exec_write_bytes_rf : forall st m a bs,
  a < 65536 -> bytesb bs = true -> 1 <= (lenN bs + 1) / 2 <= 123 -> a + (lenN bs + 1) / 2 <= 65536 ->
  cfg_wf (cs_cfg st) -> cs_txn st < 65536 -> cli_dev_sim (cs_dev st) m -> rfmem_wf m ->
  let c := CoWriteBytes a bs in
  cs_out (cli_exec st c) = cs_out st ++ [ClWrote] /\
  cli_dev_sim (cs_dev (cli_exec st c))
    (mkrfmem (rf_coils m) (rf_discrete m)
       (cells_store (rf_holding m) a (rf_bytes_regs (rf_swapped (cs_cfg st) false) bs)) (rf_input m)).
Proof.
  intros st m a bs Ha Hb Hn Hend Hc Htx Hsim Hm c.
  assert (Hwf : cli_op_wf c) by (cbn; split; assumption).
  assert (Hvalid : valid_op (OpWriteBytes false a bs) = true).
  { unfold valid_op. cbn [op_regtype_ok op_count op_limit op_addr]. lia. }
  destruct (cli_exec_refines_rf st m c Hwf Hc Htx Hsim Hm) as (_ & E2 & _ & _ & E5). cbv zeta in E2, E5.
  change (cli_rf_op c) with (RfCall (OpWriteBytes false a bs)) in E2, E5. cbn [rf_step] in E2, E5.
  rewrite Hvalid in E2, E5.
  cbn [rf_nofail rf_failure fst snd rf_commit rf_read] in E2, E5. split; [exact E5|exact E2].
Qed.

(* (1) for the commands of the CLI: the request a command within limits
   issues is served alike by the reference device and by the library's server
   model over the register file *)
Theorem cli_cmd_served : forall c o cfg d m t,
  cli_op_wf c -> cli_doc_op c = Some o -> valid_op o = true -> cfg_wf cfg -> t < 65536 ->
  cli_dev_sim d m -> rfmem_wf m ->
  let req := spec_pdu cfg o in
  cli_to_op c = Some o /\ client_request cfg o = Ok req /\
  e2e_serve rf_nofail m (spec_frame FMbap t req) =
    (rf_commit cfg m o, [rf_request cfg o], assemble_mbap t (fst (cli_dev_serve d req)), Stall) /\
  cli_dev_sim (snd (cli_dev_serve d req)) (rf_commit cfg m o).
Proof.
  intros c o cfg d m t Hwf Hd V Hc Ht Hs Hm req.
  destruct (op_agree c o Hwf Hd) as (o' & Ho' & Hwf' & _ & Heq). specialize (Heq V). subst o'.
  split; [exact Ho'|]. exact (dev_serves_op cfg o d m t Hwf' V Hc Ht Hs Hm).
Qed.
