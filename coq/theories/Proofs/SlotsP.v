(* Invariants of the admission / teardown / lifecycle system, for every
   sequence of steps (= every interleaving). *)
From Coq Require Import List Arith Bool Lia Permutation.
Import ListNotations.
From Modbus Require Import Model.Slots.

(* ------------------------------------------------------------ remove_swap *)

Lemma in_split_first (c : conn) l : In c l ->
  exists pre post, l = pre ++ c :: post /\ ~ In c pre.
Proof.
  induction l as [|x t IH]; intros H; [contradiction|].
  destruct (Nat.eq_dec x c) as [->|Hne].
  - exists [], t. split; [reflexivity|intros []].
  - destruct H as [H|H]; [congruence|]. destruct (IH H) as (pre & post & -> & Hn).
    exists (x :: pre), post. split; [reflexivity|]. intros [E|E]; [congruence|contradiction].
Qed.

Lemma replace_first_split c v pre post : ~ In c pre ->
  replace_first c v (pre ++ c :: post) = Some (pre ++ v :: post).
Proof.
  induction pre as [|x t IH]; intros Hn; cbn [app replace_first].
  - rewrite Nat.eqb_refl. reflexivity.
  - destruct (Nat.eqb x c) eqn:E.
    + apply Nat.eqb_eq in E. subst. exfalso. apply Hn. left. reflexivity.
    + rewrite IH; [reflexivity|]. intros H. apply Hn. right. exact H.
Qed.

Lemma replace_first_none c v l : ~ In c l -> replace_first c v l = None.
Proof.
  induction l as [|x t IH]; intros Hn; [reflexivity|]. cbn [replace_first].
  destruct (Nat.eqb x c) eqn:E.
  - apply Nat.eqb_eq in E. subst. exfalso. apply Hn. left. reflexivity.
  - rewrite IH; [reflexivity|]. intros H. apply Hn. right. exact H.
Qed.

Lemma remove_swap_perm c l : In c l -> Permutation l (c :: remove_swap c l).
Proof.
  intros Hin. destruct (in_split_first c l Hin) as (pre & post & -> & Hn).
  unfold remove_swap. rewrite replace_first_split by exact Hn.
  destruct post as [|p0 pt].
  - (* c is the last element: it replaces itself and is dropped *)
    rewrite last_last. rewrite removelast_last.
    rewrite Permutation_app_comm. reflexivity.
  - destruct (@exists_last _ (p0 :: pt)) as (post' & y & E); [discriminate|]. rewrite E.
    replace (pre ++ c :: post' ++ [y]) with ((pre ++ c :: post') ++ [y])
      by (rewrite <- app_assoc; reflexivity).
    rewrite last_last.
    replace (pre ++ y :: post' ++ [y]) with ((pre ++ y :: post') ++ [y])
      by (rewrite <- app_assoc; reflexivity).
    rewrite removelast_last. rewrite <- app_assoc. cbn [app].
    transitivity (c :: pre ++ post' ++ [y]).
    + symmetry. apply Permutation_middle.
    + constructor. apply Permutation_app_head.
      rewrite Permutation_app_comm. reflexivity.
Qed.

Lemma remove_swap_absent c l : ~ In c l -> remove_swap c l = l.
Proof. intros H. unfold remove_swap. rewrite replace_first_none by exact H. reflexivity. Qed.

Lemma remove_swap_nodup c l : NoDup l -> In c l -> NoDup (remove_swap c l) /\ ~ In c (remove_swap c l).
Proof.
  intros Hnd Hin. pose proof (remove_swap_perm c l Hin) as P.
  pose proof (Permutation_NoDup P Hnd) as N. inversion N; subst. split; assumption.
Qed.

Lemma remove_swap_in c l x : NoDup l -> In c l ->
  (In x (remove_swap c l) <-> In x l /\ x <> c).
Proof.
  intros Hnd Hin. pose proof (remove_swap_perm c l Hin) as P.
  destruct (remove_swap_nodup c l Hnd Hin) as [N1 N2]. split.
  - intros H. split.
    + apply (Permutation_in x (Permutation_sym P)). right. exact H.
    + intros ->. contradiction.
  - intros [H Hne]. apply (Permutation_in x P) in H. destruct H as [H|H]; [congruence|exact H].
Qed.

Lemma remove_swap_length c l : In c l -> S (length (remove_swap c l)) = length l.
Proof. intros Hin. pose proof (Permutation_length (remove_swap_perm c l Hin)) as E. cbn in E. lia. Qed.

(* ------------------------------------------------------------ the invariant *)

Definition in_list (s : sstate) (c : conn) : Prop :=
  stat s c = Serving \/ stat s c = Ended.

Record Inv (s : sstate) : Prop := {
  inv_bound : length (clients s) <= maxc s;
  inv_nodup : NoDup (clients s);
  inv_members : forall c, In c (clients s) <-> in_list s c;
  inv_closed : forall c, stat s c = Rejected \/ stat s c = Removed -> closed s c = true;
  inv_stopped : started s = false -> forall c, stat s c = Serving -> closed s c = true;
  inv_listen : listening s = started s;
  inv_acceptors : started s = false -> acceptors s = 0
}.

Lemma inv_init m : Inv (init m).
Proof.
  constructor; cbn.
  - lia.
  - constructor.
  - intros x. unfold in_list. cbn. split; [contradiction|intros [H|H]; discriminate].
  - intros x [H|H]; discriminate.
  - intros _ x H. discriminate.
  - reflexivity.
  - reflexivity.
Qed.

Lemma stat_eqb_eq a b : stat_eqb a b = true <-> a = b.
Proof. destruct a, b; cbn; split; intros H; try reflexivity; try discriminate. Qed.

Lemma upd_same {A} (f : conn -> A) c v : upd f c v c = v.
Proof. unfold upd. rewrite Nat.eqb_refl. reflexivity. Qed.

Lemma upd_other {A} (f : conn -> A) c v x : x <> c -> upd f c v x = f x.
Proof. intros H. unfold upd. destruct (Nat.eqb x c) eqn:E; [apply Nat.eqb_eq in E; congruence|reflexivity]. Qed.

Ltac upd_cases x c :=
  destruct (Nat.eq_dec x c) as [->|?];
  [rewrite ?upd_same in *|rewrite ?upd_other in * by assumption].

Lemma close_all_spec l f x : close_all l f x = true <-> In x l \/ f x = true.
Proof.
  unfold close_all. destruct (existsb (Nat.eqb x) l) eqn:E.
  - apply existsb_exists in E as [y [Hy E]]. apply Nat.eqb_eq in E. subst. tauto.
  - split; [tauto|]. intros [H|H]; [|exact H].
    assert (existsb (Nat.eqb x) l = true) by (apply existsb_exists; exists x; split; [exact H|apply Nat.eqb_refl]).
    congruence.
Qed.

Lemma nodup_snoc (c : conn) l : NoDup l -> ~ In c l -> NoDup (l ++ [c]).
Proof.
  intros Hn Hc. apply (Permutation_NoDup (Permutation_cons_append l c)).
  constructor; assumption.
Qed.

Lemma inv_step s l : Inv s -> Inv (step s l).
Proof.
  intros I. pose proof I as I0. unfold step. destruct (enabled s l) eqn:En; cbn [negb]; [|exact I].
  destruct I as [Ib Ind Im Ic Is Il Ia].
  destruct l as [c|c|c|c|c w|c| | | ]; cbn [enabled] in En.
  - (* Arrive *)
    apply andb_true_iff in En as [_ En]. apply stat_eqb_eq in En.
    constructor; cbn; try assumption.
    + intros x. unfold in_list. cbn. upd_cases x c.
      * rewrite Im. unfold in_list. rewrite En. split; intros [H|H]; discriminate.
      * apply Im.
    + intros x. upd_cases x c; [intros [H|H]; discriminate|apply Ic].
    + intros Hs x. upd_cases x c; [discriminate|apply Is; exact Hs].
  - (* Take *)
    apply andb_true_iff in En as [En _]. apply stat_eqb_eq in En.
    constructor; cbn; try assumption.
    + intros x. unfold in_list. cbn. upd_cases x c.
      * rewrite Im. unfold in_list. rewrite En. split; intros [H|H]; discriminate.
      * apply Im.
    + intros x. upd_cases x c; [intros [H|H]; discriminate|apply Ic].
    + intros Hs x. upd_cases x c; [discriminate|apply Is; exact Hs].
  - (* Enrol *)
    apply stat_eqb_eq in En.
    assert (Hnot : ~ In c (clients s)).
    { rewrite Im. unfold in_list. rewrite En. intros [H|H]; discriminate. }
    destruct (started s && Nat.ltb (length (clients s)) (maxc s)) eqn:Eadm.
    + apply andb_true_iff in Eadm as [Est Elt]. apply Nat.ltb_lt in Elt.
      constructor; cbn; try assumption.
      * rewrite app_length. cbn. lia.
      * apply nodup_snoc; assumption.
      * intros x. unfold in_list. cbn. rewrite in_app_iff. upd_cases x c.
        -- split; [intros _; left; reflexivity|intros _; right; left; reflexivity].
        -- rewrite Im. unfold in_list. cbn. split; [intros [H|[H|[]]]; [exact H|congruence]|intros H; left; exact H].
      * intros x. upd_cases x c; [intros [H|H]; discriminate|apply Ic].
      * intros Hs. congruence.
    + constructor; cbn; try assumption.
      * intros x. unfold in_list. cbn. upd_cases x c.
        -- split; [intros H; contradiction|intros [H|H]; discriminate].
        -- apply Im.
      * intros x. upd_cases x c; [reflexivity|apply Ic].
      * intros Hs x. upd_cases x c; [discriminate|apply Is; exact Hs].
  - (* Req *) exact I0.
  - (* End *)
    assert (En' : stat s c = Serving).
    { destruct w; try (apply stat_eqb_eq; exact En);
      apply andb_true_iff in En as [En _]; apply stat_eqb_eq; exact En. }
    constructor; cbn; try assumption.
    + intros x. unfold in_list. cbn. upd_cases x c.
      * rewrite Im. unfold in_list. rewrite En'. split; intros _; [right|left]; reflexivity.
      * apply Im.
    + intros x. upd_cases x c; [intros [H|H]; discriminate|apply Ic].
    + intros Hs x. upd_cases x c; [discriminate|apply Is; exact Hs].
  - (* Remove *)
    apply stat_eqb_eq in En.
    assert (Hin : In c (clients s)) by (apply Im; right; exact En).
    destruct (remove_swap_nodup c _ Ind Hin) as [N1 N2].
    constructor; cbn; try assumption.
    + pose proof (remove_swap_length c _ Hin). lia.
    + intros x. unfold in_list. cbn. rewrite (remove_swap_in c _ x Ind Hin). upd_cases x c.
      * split; [intros [_ H]; congruence|intros [H|H]; discriminate].
      * rewrite Im. unfold in_list. tauto.
    + intros x. upd_cases x c; [reflexivity|apply Ic].
    + intros Hs x. upd_cases x c; [discriminate|apply Is; exact Hs].
  - (* Start *)
    destruct (started s) eqn:Est; [exact I0|].
    constructor; cbn; try assumption; try reflexivity; try discriminate.
  - (* Stop *)
    destruct (started s) eqn:Est; cbn [negb]; [|exact I0].
    constructor; cbn; try assumption; try reflexivity.
    + intros x. unfold in_list, drop_queued. cbn. rewrite Im. unfold in_list.
      destruct (stat s x); split; intros [H|H]; try discriminate; tauto.
    + intros x. unfold drop_queued. rewrite close_all_spec. intros H. right. apply Ic.
      destruct (stat s x); destruct H as [H|H]; try discriminate; tauto.
    + intros _ x. unfold drop_queued. rewrite close_all_spec. intros H. left. apply Im. left.
      destruct (stat s x); try discriminate; reflexivity.
  - (* AcceptExit *) constructor; cbn; assumption.
Qed.

Lemma inv_run tr : forall s, Inv s -> Inv (run s tr).
Proof.
  induction tr as [|l tr IH]; intros s I; [exact I|].
  unfold run in *. cbn [fold_left]. apply IH, inv_step, I.
Qed.

Theorem reachable_inv m tr : Inv (run (init m) tr).
Proof. apply inv_run, inv_init. Qed.

(* ------------------------------------------------------------ consequences *)

Lemma serving_le_clients s : serving_count s <= length (clients s).
Proof.
  unfold serving_count. induction (clients s) as [|x t IH]; [cbn; lia|].
  cbn [filter]. destruct (stat_eqb (stat s x) Serving); cbn [length]; lia.
Qed.

Lemma maxc_step s l : maxc (step s l) = maxc s.
Proof.
  unfold step. destruct (negb (enabled s l)); [reflexivity|].
  destruct l as [c|c|c|c|c w|c| | | ]; cbn; try reflexivity;
    repeat match goal with |- context [if ?b then _ else _] => destruct b end; reflexivity.
Qed.

Lemma maxc_run tr : forall s, maxc (run s tr) = maxc s.
Proof.
  induction tr as [|l tr IH]; intros s; [reflexivity|].
  unfold run in *. cbn [fold_left]. rewrite IH. apply maxc_step.
Qed.

(* C09-T1: at every instant at most maxc connections are being served *)
Theorem served_at_most_max m tr :
  let s := run (init m) tr in
  serving_count s <= m /\ NoDup (clients s) /\ (forall c, stat s c = Serving -> In c (clients s)).
Proof.
  cbn zeta. pose proof (reachable_inv m tr) as I. destruct I as [Ib Ind Im _ _ _ _].
  assert (Hm : maxc (run (init m) tr) = m) by (rewrite maxc_run; reflexivity).
  split; [|split].
  - pose proof (serving_le_clients (run (init m) tr)). lia.
  - exact Ind.
  - intros c H. apply Im. left. exact H.
Qed.

(* C09-T2: a connection refused at admission is closed and no request of it is
   ever dispatched afterwards *)
Lemma rejected_stays s l c : stat s c = Rejected -> stat (step s l) c = Rejected.
Proof.
  intros H. unfold step. destruct (enabled s l) eqn:En; cbn [negb]; [|exact H].
  assert (K : forall x v, stat_eqb (stat s x) v = true -> v <> Rejected -> c <> x).
  { intros x v E Hv ->. apply stat_eqb_eq in E. congruence. }
  destruct l as [x|x|x|x|x w|x| | | ]; cbn [enabled] in En; cbn [stat].
  - apply andb_true_iff in En as [_ En]. rewrite upd_other; [exact H|]. apply (K x Fresh En). discriminate.
  - apply andb_true_iff in En as [En _]. rewrite upd_other; [exact H|]. apply (K x Queued En). discriminate.
  - assert (c <> x) by (apply (K x Taken En); discriminate).
    destruct (started s && Nat.ltb (length (clients s)) (maxc s)); cbn [stat]; rewrite upd_other by assumption; exact H.
  - exact H.
  - assert (c <> x).
    { destruct w; try (apply (K x Serving En); discriminate);
        apply andb_true_iff in En as [En _]; apply (K x Serving En); discriminate. }
    rewrite upd_other by assumption. exact H.
  - rewrite upd_other; [exact H|]. apply (K x Ended En). discriminate.
  - destruct (started s); cbn [stat]; exact H.
  - destruct (started s); cbn [negb stat]; [|exact H]. unfold drop_queued. rewrite H. reflexivity.
  - exact H.
Qed.

Theorem rejected_never_served s tr c : stat s c = Rejected ->
  forall pre l post, tr = pre ++ l :: post -> l = Req c -> enabled (run s pre) l = false.
Proof.
  intros H pre l post _ ->. cbn [enabled].
  assert (Hs : stat (run s pre) c = Rejected).
  { revert s H. induction pre as [|x pre IH]; intros s H; [exact H|].
    unfold run. cbn [fold_left]. apply IH. apply rejected_stays. exact H. }
  rewrite Hs. reflexivity.
Qed.

Theorem full_list_rejects s c : Inv s -> stat s c = Taken ->
  (started s = false \/ maxc s <= length (clients s)) ->
  stat (step s (Enrol c)) c = Rejected /\ closed (step s (Enrol c)) c = true /\
  clients (step s (Enrol c)) = clients s.
Proof.
  intros I Ht Hfull.
  assert (E : (started s && Nat.ltb (length (clients s)) (maxc s)) = false).
  { destruct Hfull as [->|H]; [reflexivity|]. apply andb_false_iff. right. apply Nat.ltb_ge. exact H. }
  unfold step. cbn [enabled]. rewrite Ht. cbn [stat_eqb negb]. rewrite E.
  cbn [stat closed clients]. rewrite !upd_same. repeat split.
Qed.

(* C09-T3: the removal deletes exactly the ended connection, wherever it sits *)
Theorem remove_exact s c : Inv s -> stat s c = Ended ->
  Permutation (clients s) (c :: clients (step s (Remove c))) /\
  closed (step s (Remove c)) c = true.
Proof.
  intros I He. unfold step. cbn [enabled]. rewrite He. cbn [stat_eqb negb clients closed]. rewrite upd_same. split; [|reflexivity].
  apply remove_swap_perm. apply (inv_members s I). right. exact He.
Qed.

(* C09-T4: slots are reclaimed: the list holds exactly the connections that
   are being served or whose removal is pending, so after End; Remove the
   slot is free again and a later arrival is enrolled *)
Lemma enrol_accepts s d : stat s d = Taken -> started s = true ->
  length (clients s) < maxc s ->
  stat (step s (Enrol d)) d = Serving /\ In d (clients (step s (Enrol d))).
Proof.
  intros Ht Hst Hlt. apply Nat.ltb_lt in Hlt.
  unfold step. cbn [enabled]. rewrite Ht. cbn [stat_eqb negb]. rewrite Hst, Hlt.
  cbn [andb stat clients]. rewrite upd_same. split; [reflexivity|].
  apply in_or_app. right. left. reflexivity.
Qed.

Lemma remove_effect s c : stat s c = Ended ->
  let s1 := step s (Remove c) in
  clients s1 = remove_swap c (clients s) /\ started s1 = started s /\ maxc s1 = maxc s /\
  (forall d, d <> c -> stat s1 d = stat s d).
Proof.
  intros He. unfold step. cbn [enabled]. rewrite He. cbn [stat_eqb negb clients started maxc stat].
  repeat split. intros d Hd. apply upd_other. exact Hd.
Qed.

Theorem slot_reclaimed s c d : Inv s -> stat s c = Ended -> started s = true ->
  stat s d = Taken -> d <> c -> length (clients s) <= maxc s ->
  let s1 := step s (Remove c) in
  let s2 := step s1 (Enrol d) in
  stat s2 d = Serving /\ In d (clients s2).
Proof.
  intros I He Hst Ht Hne Hb. cbn zeta.
  assert (Hin : In c (clients s)) by (apply (inv_members s I); right; exact He).
  pose proof (remove_swap_length c _ Hin) as Hl.
  destruct (remove_effect s c He) as (E1 & E2 & E3 & E4).
  apply enrol_accepts.
  - rewrite E4 by exact Hne. exact Ht.
  - rewrite E2. exact Hst.
  - rewrite E1, E3. lia.
Qed.

(* ------------------------------------------------------------ C10 *)

(* T1/T2: once Stop has run, and until the next Start, the listener is closed,
   every enrolled connection is closed and no request can be dispatched *)
Theorem stopped_serves_nothing m tr c :
  let s := run (init m) tr in
  started s = false -> listening s = false /\ acceptors s = 0 /\ enabled s (Req c) = false.
Proof.
  cbn zeta. intros Hs. pose proof (reachable_inv m tr) as I.
  split; [rewrite (inv_listen _ I); exact Hs|]. split; [apply (inv_acceptors _ I); exact Hs|].
  cbn [enabled]. destruct (stat_eqb (stat (run (init m) tr) c) Serving) eqn:E; [|reflexivity].
  apply stat_eqb_eq in E. rewrite (inv_stopped _ I Hs c E). reflexivity.
Qed.

Theorem stop_closes_all s : started s = true ->
  let s' := step s Stop in
  started s' = false /\ listening s' = false /\ acceptors s' = 0 /\
  (forall c, In c (clients s) -> closed s' c = true).
Proof.
  intros Hs. unfold step. cbn. rewrite Hs. cbn. repeat split.
  intros c Hc. apply close_all_spec. left. exact Hc.
Qed.

(* a connection taken before Stop and enrolled after it is refused *)
Theorem taken_during_stop_rejected s c : Inv s -> stat s c = Taken -> started s = true ->
  let s' := step (step s Stop) (Enrol c) in
  stat s' c = Rejected /\ closed s' c = true.
Proof.
  intros I Ht Hs. cbn zeta.
  assert (Ht' : stat (step s Stop) c = Taken).
  { unfold step. cbn. rewrite Hs. cbn. unfold drop_queued. rewrite Ht. reflexivity. }
  assert (Hs' : started (step s Stop) = false) by (unfold step; cbn; rewrite Hs; reflexivity).
  destruct (full_list_rejects (step s Stop) c (inv_step s Stop I) Ht' (or_introl Hs')) as (A & B & _).
  split; assumption.
Qed.

(* T3: repeated Start / Stop are no-ops *)
Theorem start_idempotent s : step (step s Start) Start = step s Start.
Proof. unfold step. cbn. destruct (started s) eqn:E; cbn; rewrite ?E; reflexivity. Qed.

Theorem stop_idempotent s : step (step s Stop) Stop = step s Stop.
Proof. unfold step. cbn. destruct (started s) eqn:E; cbn; rewrite ?E; reflexivity. Qed.

Theorem stop_start_serves_again s : started s = true ->
  let s' := step (step s Stop) Start in
  started s' = true /\ listening s' = true /\ acceptors s' = 1.
Proof. intros Hs. unfold step. cbn. rewrite Hs. cbn. repeat split. Qed.

(* T4: after Stop every server goroutine has an exit path and takes it in at
   most two steps: a taken connection is refused, a served one (closed by
   Stop) ends and is removed, an accept goroutine returns; refused, removed
   and dropped connections have no enabled step left. Handlers that never
   return are outside the model. *)
Lemma end_effect s c : stat s c = Serving -> closed s c = true ->
  stat (step s (End c ClosedByStop)) c = Ended.
Proof.
  intros Hc Hcl. unfold step. cbn [enabled]. rewrite Hc, Hcl. cbn [stat_eqb andb negb stat].
  apply upd_same.
Qed.

Lemma remove_stat s c : stat s c = Ended -> stat (step s (Remove c)) c = Removed.
Proof.
  intros He. unfold step. cbn [enabled]. rewrite He. cbn [stat_eqb negb stat]. apply upd_same.
Qed.

Theorem stopped_session_winds_down s c : Inv s -> started s = false -> stat s c = Serving ->
  enabled s (End c ClosedByStop) = true /\
  let s1 := step s (End c ClosedByStop) in
  enabled s1 (Remove c) = true /\ stat (step s1 (Remove c)) c = Removed.
Proof.
  intros I Hs Hc. pose proof (inv_stopped s I Hs c Hc) as Hcl.
  split; [cbn [enabled]; rewrite Hc, Hcl; reflexivity|]. cbn zeta.
  pose proof (end_effect s c Hc Hcl) as He. split.
  - cbn [enabled]. rewrite He. reflexivity.
  - apply remove_stat. exact He.
Qed.

Theorem terminal_has_no_step s c :
  stat s c = Rejected \/ stat s c = Removed \/ stat s c = Dropped ->
  enabled s (Take c) = false /\ enabled s (Enrol c) = false /\ enabled s (Req c) = false /\
  (forall w, enabled s (End c w) = false) /\ enabled s (Remove c) = false /\ enabled s (Arrive c) = false.
Proof.
  intros H. cbn [enabled].
  destruct H as [H|[H|H]]; rewrite H; cbn; repeat split; try apply andb_false_r; intros w; destruct w; reflexivity.
Qed.

Theorem zombie_exits s : 0 < zombies s ->
  enabled s AcceptExit = true /\ zombies (step s AcceptExit) = pred (zombies s).
Proof.
  intros H. assert (E : Nat.ltb 0 (zombies s) = true) by (apply Nat.ltb_lt; exact H).
  cbn [enabled]. split; [exact E|]. unfold step. cbn [enabled]. rewrite E. reflexivity.
Qed.
