(* Proofs about Model/RoleResume.v (property C15, TLS clients that keep a
   session cache: later connections may resume an earlier session).  The
   handshake oracle (with resumption), the verification oracle and the clock
   are section variables; what crypto/tls documents (tls_resume_documented) is
   an explicit premise of the lemmas that need it. *)
From Modbus Require Import Base.Bytes Model.Utf8 Model.Der Model.Role Model.TlsPolicy Model.RoleSeq
  Model.RoleResume Spec.RoleSpec Proofs.RoleP Proofs.TlsPolicyP Proofs.RoleSeqP.
From Coq Require Import ZifyBool ZifyNat ZifyN.
Ltac Zify.zify_post_hook ::= Z.div_mod_to_equations.

(* DidResume does not enter the role: two outcomes of Handshake() with the
   same connection state give the same role *)
Lemma role_of_state_resumed_irrelevant b b' s :
  tls_role_of_state (trs_state (mk_tls_rsession b s)) =
  tls_role_of_state (trs_state (mk_tls_rsession b' s)).
Proof. reflexivity. Qed.

Section RoleResumeProofs.
  Variable hsr : tls_policy -> tls_peer -> option tls_session -> option tls_rsession.
  Variable verifies : option (list tls_cert) -> tls_usage -> N -> list N -> list tls_cert -> Prop.
  Variable now : N.

  Lemma start_tls_r_some c peer offer b role :
    tls_start_tls_r hsr c peer offer = Some (b, role) ->
    exists rs leaf more,
      hsr (tls_policy_of_server c) peer offer = Some rs /\ trs_resumed rs = b /\
      tss_peer_certs (trs_state rs) = leaf :: more /\ role = extract_role (tlc_exts leaf).
  Proof.
    unfold tls_start_tls_r, tls_role_of_state.
    destruct (hsr (tls_policy_of_server c) peer offer) as [rs|]; [|discriminate].
    destruct (tss_peer_certs (trs_state rs)) as [|leaf more] eqn:Ec; [discriminate|].
    intros [= <- <-]. exists rs, leaf, more. auto.
  Qed.

  (* the role handed to the handlers is the one startTLS computes from the
     connection state, whatever DidResume says *)
  Lemma start_tls_r_role c peer offer :
    option_map snd (tls_start_tls_r hsr c peer offer) =
    match hsr (tls_policy_of_server c) peer offer with
    | Some rs => tls_role_of_state (trs_state rs)
    | None => None
    end.
  Proof.
    unfold tls_start_tls_r. destruct (hsr (tls_policy_of_server c) peer offer) as [rs|]; [|reflexivity].
    destruct (tls_role_of_state (trs_state rs)); reflexivity.
  Qed.

  (* under the documented behaviour, when the ticket the peer offers (if any)
     was issued to a client presenting the same chain, Handshake() leaves the
     chain of THIS peer in the connection state - resumed or not *)
  Lemma handshake_r_chain c peer offer rs :
    tls_resume_documented hsr verifies now ->
    (forall t, offer = Some t -> tss_peer_certs t = tpe_chain peer) ->
    hsr (tls_policy_of_server c) peer offer = Some rs ->
    tss_peer_certs (trs_state rs) = tpe_chain peer.
  Proof.
    intros Hdoc Hoff Hh.
    destruct (Hdoc _ _ _ _ Hh) as (_ & _ & _ & Hfull & Hres).
    destruct (trs_resumed rs) eqn:Er.
    - destruct (Hres eq_refl) as (t & Ht & _ & Hc). rewrite Hc. apply Hoff, Ht.
    - destruct (Hfull eq_refl eq_refl) as (Hc & _). exact Hc.
  Qed.

  Lemma start_tls_r_leaf c peer offer b role :
    tls_resume_documented hsr verifies now ->
    (forall t, offer = Some t -> tss_peer_certs t = tpe_chain peer) ->
    tls_start_tls_r hsr c peer offer = Some (b, role) ->
    exists leaf more, tpe_chain peer = leaf :: more /\ role = extract_role (tlc_exts leaf).
  Proof.
    intros Hdoc Hoff Hs. apply start_tls_r_some in Hs.
    destruct Hs as (rs & leaf & more & Hh & _ & Hc & ->).
    exists leaf, more. split; [|reflexivity].
    rewrite <- (handshake_r_chain c peer offer rs Hdoc Hoff Hh). exact Hc.
  Qed.

  (* ------------------------------------------------ the caches of the clients *)

  (* every cache holds a session of the client it belongs to: ident k is the
     chain the client with cache k presents *)
  Definition caches_of (ident : N -> list tls_cert) (cs : tls_caches) : Prop :=
    forall k s, tls_cache_get k cs = Some s -> tss_peer_certs s = ident k.

  (* one cache per client identity: the connections that use cache k present ident k *)
  Definition per_identity (ident : N -> list tls_cert) (conns : list tls_rconn) : Prop :=
    forall x k, In x conns -> trc_cache x = Some k -> tpe_chain (trc_peer x) = ident k.

  Lemma caches_of_nil ident : caches_of ident [].
  Proof. intros k s. cbn. discriminate. Qed.

  Lemma caches_of_offer ident cs x :
    caches_of ident cs ->
    (forall k, trc_cache x = Some k -> tpe_chain (trc_peer x) = ident k) ->
    forall t, tls_cache_offer (trc_cache x) cs = Some t -> tss_peer_certs t = tpe_chain (trc_peer x).
  Proof.
    intros Hcs Hx t. unfold tls_cache_offer. destruct (trc_cache x) as [k|]; [|discriminate].
    intros Hg. rewrite (Hx k eq_refl). apply Hcs, Hg.
  Qed.

  Lemma caches_of_put ident c cs x :
    tls_resume_documented hsr verifies now ->
    caches_of ident cs ->
    (forall k, trc_cache x = Some k -> tpe_chain (trc_peer x) = ident k) ->
    caches_of ident
      (tls_cache_put (trc_cache x)
         (hsr (tls_policy_of_server c) (trc_peer x) (tls_cache_offer (trc_cache x) cs)) cs).
  Proof.
    intros Hdoc Hcs Hx. pose proof (caches_of_offer ident cs x Hcs Hx) as Hoff.
    unfold tls_cache_put.
    destruct (hsr (tls_policy_of_server c) (trc_peer x) (tls_cache_offer (trc_cache x) cs)) as [rs|] eqn:Eh.
    - pose proof (handshake_r_chain c (trc_peer x) _ rs Hdoc Hoff Eh) as Hc.
      destruct (trc_cache x) as [id|]; [|exact Hcs].
      intros k s. cbn [tls_cache_get]. destruct (id =? k) eqn:Eid; [|apply Hcs].
      intros [= <-]. apply N.eqb_eq in Eid. subst k. rewrite <- (Hx id eq_refl). exact Hc.
    - destruct (trc_cache x); exact Hcs.
  Qed.

  Lemma serve_cached_length c cs conns : length (tls_serve_cached hsr c cs conns) = length conns.
  Proof.
    revert cs. induction conns as [|x l IH]; intros cs; cbn [tls_serve_cached length]; [reflexivity|].
    rewrite IH. reflexivity.
  Qed.

  (* the role of a served connection is extract_role of the leaf presented by
     the client of THAT connection, whether the session was resumed or not and
     whatever the other clients of the server did *)
  Lemma serve_cached_leaf ident c cs conns i b role :
    tls_resume_documented hsr verifies now ->
    per_identity ident conns -> caches_of ident cs ->
    nth_error (tls_serve_cached hsr c cs conns) i = Some (Some (b, role)) ->
    exists x leaf more,
      nth_error conns i = Some x /\ tpe_chain (trc_peer x) = leaf :: more /\
      role = extract_role (tlc_exts leaf).
  Proof.
    intros Hdoc. revert cs i. induction conns as [|x l IH]; intros cs i Hid Hcs.
    - destruct i; discriminate.
    - assert (Hx : forall k, trc_cache x = Some k -> tpe_chain (trc_peer x) = ident k).
      { intros k. apply Hid. left. reflexivity. }
      cbn [tls_serve_cached]. destruct i as [|i]; cbn [nth_error].
      + intros [= Hs].
        destruct (start_tls_r_leaf c (trc_peer x) _ b role Hdoc (caches_of_offer ident cs x Hcs Hx) Hs)
          as (leaf & more & Hc & Hr).
        exists x, leaf, more. auto.
      + apply IH.
        * intros y k Hy. apply Hid. right. exact Hy.
        * apply caches_of_put; assumption.
  Qed.

  Lemma serve_cached_states ident c cs conns i b role :
    tls_resume_documented hsr verifies now ->
    per_identity ident conns -> caches_of ident cs ->
    nth_error (tls_serve_cached hsr c cs conns) i = Some (Some (b, role)) -> role <> [] ->
    exists x leaf more,
      nth_error conns i = Some x /\ tpe_chain (trc_peer x) = leaf :: more /\
      (all_bytes (tlc_exts leaf) = true -> states_role (tlc_exts leaf) role).
  Proof.
    intros Hdoc Hid Hcs Hn Hne.
    destruct (serve_cached_leaf ident c cs conns i b role Hdoc Hid Hcs Hn) as (x & leaf & more & Hp & Hc & Hr).
    exists x, leaf, more. split; [exact Hp|]. split; [exact Hc|].
    intros Hb. apply role_sound_spec; auto.
  Qed.

  Lemma serve_cached_complete ident c cs conns i x leaf more r b role :
    tls_resume_documented hsr verifies now ->
    per_identity ident conns -> caches_of ident cs ->
    nth_error conns i = Some x -> tpe_chain (trc_peer x) = leaf :: more ->
    states_role (tlc_exts leaf) r -> lenN r < 2 ^ 31 ->
    nth_error (tls_serve_cached hsr c cs conns) i = Some (Some (b, role)) ->
    role = r.
  Proof.
    intros Hdoc Hid Hcs Hx Hc Hst Hlen Hn.
    destruct (serve_cached_leaf ident c cs conns i b role Hdoc Hid Hcs Hn) as (x' & leaf' & more' & Hx' & Hc' & ->).
    rewrite Hx in Hx'. injection Hx' as <-. rewrite Hc in Hc'. injection Hc' as <- _.
    apply role_complete_spec; assumption.
  Qed.
  (* the clients start with empty caches *)
  Lemma serve_fresh_leaf ident c conns i b role :
    tls_resume_documented hsr verifies now ->
    per_identity ident conns ->
    nth_error (tls_serve_cached hsr c [] conns) i = Some (Some (b, role)) ->
    exists x leaf more,
      nth_error conns i = Some x /\ tpe_chain (trc_peer x) = leaf :: more /\
      role = extract_role (tlc_exts leaf).
  Proof. intros Hdoc Hid. apply (serve_cached_leaf ident); auto using caches_of_nil. Qed.

  Lemma serve_fresh_states ident c conns i b role :
    tls_resume_documented hsr verifies now ->
    per_identity ident conns ->
    nth_error (tls_serve_cached hsr c [] conns) i = Some (Some (b, role)) -> role <> [] ->
    exists x leaf more,
      nth_error conns i = Some x /\ tpe_chain (trc_peer x) = leaf :: more /\
      (all_bytes (tlc_exts leaf) = true -> states_role (tlc_exts leaf) role).
  Proof. intros Hdoc Hid. apply (serve_cached_states ident); auto using caches_of_nil. Qed.

  Lemma serve_fresh_complete ident c conns i x leaf more r b role :
    tls_resume_documented hsr verifies now ->
    per_identity ident conns ->
    nth_error conns i = Some x -> tpe_chain (trc_peer x) = leaf :: more ->
    states_role (tlc_exts leaf) r -> lenN r < 2 ^ 31 ->
    nth_error (tls_serve_cached hsr c [] conns) i = Some (Some (b, role)) ->
    role = r.
  Proof. intros Hdoc Hid. apply (serve_cached_complete ident); auto using caches_of_nil. Qed.
End RoleResumeProofs.

(* two TLS stacks (one that resumes, one that does not; or any two that behave
   as documented) serving the same connections: a connection both of them
   serve gets the same role from both *)
Lemma serve_cached_role_independent hsr1 hsr2 verifies1 verifies2 now1 now2 ident c conns i b1 b2 role1 role2 :
  tls_resume_documented hsr1 verifies1 now1 ->
  tls_resume_documented hsr2 verifies2 now2 ->
  per_identity ident conns ->
  nth_error (tls_serve_cached hsr1 c [] conns) i = Some (Some (b1, role1)) ->
  nth_error (tls_serve_cached hsr2 c [] conns) i = Some (Some (b2, role2)) ->
  role1 = role2.
Proof.
  intros H1 H2 Hid Hn1 Hn2.
  destruct (serve_cached_leaf hsr1 verifies1 now1 ident c [] conns i b1 role1 H1 Hid (caches_of_nil ident) Hn1)
    as (x & leaf & more & Hx & Hc & ->).
  destruct (serve_cached_leaf hsr2 verifies2 now2 ident c [] conns i b2 role2 H2 Hid (caches_of_nil ident) Hn2)
    as (x' & leaf' & more' & Hx' & Hc' & ->).
  rewrite Hx in Hx'. injection Hx' as <-. rewrite Hc in Hc'. injection Hc' as <- _. reflexivity.
Qed.

(* a server whose TLS stack never resumes is the server of Model/RoleSeq.v:
   the caches of the clients make no difference *)
Lemma serve_cached_never_resumes hs c cs conns :
  tls_roles_only (tls_serve_cached (tls_never_resumes hs) c cs conns) =
  tls_serve_sessions hs c (map trc_peer conns).
Proof.
  revert cs. induction conns as [|x l IH]; intros cs; [reflexivity|].
  cbn [tls_serve_cached tls_roles_only map tls_serve_sessions].
  fold (tls_roles_only (tls_serve_cached (tls_never_resumes hs) c
          (tls_cache_put (trc_cache x)
             (tls_never_resumes hs (tls_policy_of_server c) (trc_peer x) (tls_cache_offer (trc_cache x) cs)) cs) l)).
  rewrite IH. f_equal.
  unfold tls_start_tls_r, tls_never_resumes, tls_start_tls, tls_role_of_state.
  destruct (hs (tls_policy_of_server c) (trc_peer x)) as [s|]; [|reflexivity].
  cbn [trs_state trs_resumed]. destruct (tss_peer_certs s); reflexivity.
Qed.

(* ... and it satisfies the documented behaviour with resumption when the
   full handshake satisfies the documented behaviour without *)
Lemma never_resumes_documented hs verifies now :
  tls_srv_documented hs verifies now ->
  tls_resume_documented (tls_never_resumes hs) verifies now.
Proof.
  intros Hdoc pol peer offer rs. unfold tls_never_resumes.
  destruct (hs pol peer) as [s|] eqn:Eh; [|discriminate].
  intros [= <-]. cbn [trs_state trs_resumed].
  destruct (Hdoc _ _ _ Eh) as (Ht & Hv & Hm & Hauth).
  repeat split; auto; try discriminate; apply Hauth; assumption.
Qed.
