(* Proofs about the timed model (Model/Timed.v): time bounds that do not
   depend on the peer stream, the byte measure of the skip loop, and the
   simulation "timed exchange with deadline D = untimed exchange on what has
   arrived by D", from which timely replies are accepted (via C02). *)
From Modbus Require Import Base.Bytes Model.Crc Model.Encoding Model.Wire Model.Client
  Model.Timed Spec.ModbusSpec Spec.ClientSpec Spec.TimedSpec
  Proofs.FramingP Proofs.ClientReqP Proofs.ClientRespP.
From Coq Require Import ZifyBool ZifyNat ZifyN.
Ltac Zify.zify_post_hook ::= Z.div_mod_to_equations.

(* ---------------------------------------------------------------- horizon *)

Lemma tm_horizon_bounds g cur D : (0 <= g)%Z -> (cur <= D)%Z ->
  (D <= tm_horizon g cur D <= D + g)%Z /\ (0 < g -> D < tm_horizon g cur D)%Z.
Proof.
  intros Hg Hc. unfold tm_horizon. destruct (g <=? 0)%Z eqn:E; [lia|].
  assert (Hpos : (0 < g)%Z) by lia.
  pose proof (Z.div_mod (D - cur) g ltac:(lia)) as Hdm.
  pose proof (Z.mod_pos_bound (D - cur) g Hpos) as Hm.
  replace ((cur + ((D - cur) / g + 1) * g))%Z with (cur + g * ((D - cur) / g) + g)%Z by ring.
  lia.
Qed.

Lemma tm_horizon_zero cur D : tm_horizon 0 cur D = D.
Proof. reflexivity. Qed.

(* ---------------------------------------------------------------- read_full_t *)

Definition tm_rf_time (r : tm_rf) : Z :=
  match r with TmFull _ t _ => t | TmShort _ _ t _ => t end.

Definition tm_rf_rest (r : tm_rf) : list (Z * N) :=
  match r with TmFull _ _ rest => rest | TmShort _ _ _ rest => rest end.

Lemma tm_rf_cons_time b r : tm_rf_time (tm_rf_cons b r) = tm_rf_time r.
Proof. destruct r; reflexivity. Qed.

Lemma tm_rf_cons_rest b r : tm_rf_rest (tm_rf_cons b r) = tm_rf_rest r.
Proof. destruct r; reflexivity. Qed.

(* the read never ends before it starts, and never later than the deadline
   plus the poll granularity (unless it was entered later than that) *)
Lemma rft_time g D c n : (0 <= g)%Z -> forall cur s,
  (cur <= tm_rf_time (read_full_t g D c n cur s) <= Z.max cur (D + g))%Z.
Proof.
  intros Hg. induction n as [|n IH]; intros cur s; cbn [read_full_t].
  - cbn. lia.
  - destruct (D <? cur)%Z eqn:E; [cbn; lia|].
    pose proof (tm_horizon_bounds g cur D Hg ltac:(lia)) as [Hh _].
    destruct s as [|[t b] s'].
    + destruct c as [tc|]; [destruct (tc <=? tm_horizon g cur D)%Z eqn:E2|]; cbn; lia.
    + destruct (t <=? tm_horizon g cur D)%Z eqn:E2; [|cbn; lia].
      rewrite tm_rf_cons_time. specialize (IH (Z.max cur t) s'). lia.
Qed.

(* with a net.Conn (g = 0) and the deadline still ahead, the read ends by D *)
Lemma rft_time0 D c n cur s : (cur <= D)%Z ->
  (cur <= tm_rf_time (read_full_t 0 D c n cur s) <= D)%Z.
Proof. intros H. pose proof (rft_time 0 D c n ltac:(lia) cur s). lia. Qed.

(* bytes: a full read takes exactly n, a short read fewer than n *)
Lemma rft_full_len g D c n : forall cur s got t rest,
  read_full_t g D c n cur s = TmFull got t rest ->
  length got = n /\ length s = (n + length rest)%nat.
Proof.
  induction n as [|n IH]; intros cur s got t rest; cbn [read_full_t].
  - intros H; inversion H; subst. split; reflexivity.
  - destruct (D <? cur)%Z; [discriminate|].
    destruct s as [|[t' b] s']; [destruct c as [tc|]; [destruct (tc <=? _)%Z|]; discriminate|].
    destruct (t' <=? _)%Z; [|discriminate].
    destruct (read_full_t g D c n (Z.max cur t') s') as [got' t2 rest'|] eqn:E; [|discriminate].
    cbn [tm_rf_cons]. intros H; inversion H; subst.
    apply IH in E as [H1 H2]. cbn [length]. lia.
Qed.

Lemma rft_rest_len g D c n : forall cur s,
  (length (tm_rf_rest (read_full_t g D c n cur s)) <= length s)%nat.
Proof.
  induction n as [|n IH]; intros cur s; cbn [read_full_t]; [cbn; lia|].
  destruct (D <? cur)%Z; [cbn; lia|].
  destruct s as [|[t' b] s']; [destruct c as [tc|]; [destruct (tc <=? _)%Z|]; cbn; lia|].
  destruct (t' <=? _)%Z; [|cbn; lia].
  rewrite tm_rf_cons_rest. specialize (IH (Z.max cur t') s'). cbn [length]. lia.
Qed.

(* the only errors a read produces *)
Lemma rft_short_err g D c n : forall cur s got e t rest,
  read_full_t g D c n cur s = TmShort got e t rest -> e = ETimeout \/ e = EIO.
Proof.
  induction n as [|n IH]; intros cur s got e t rest; cbn [read_full_t]; [discriminate|].
  destruct (D <? cur)%Z; [intros H; inversion H; auto|].
  destruct s as [|[t' b] s'].
  - destruct c as [tc|]; [destruct (tc <=? _)%Z|]; intros H; inversion H; auto.
  - destruct (t' <=? _)%Z; [|intros H; inversion H; auto].
    destruct (read_full_t g D c n (Z.max cur t') s') as [|got' e' t2 rest'] eqn:E; [discriminate|].
    cbn [tm_rf_cons]. intros H; inversion H; subst. eapply IH; exact E.
Qed.

(* ---------------------------------------------------------------- MBAP: time *)

Lemma tm_read_mbap_time g D c now s : (0 <= g)%Z ->
  let '(_, t, _) := tm_read_mbap g D c now s in (now <= t <= Z.max now (D + g))%Z.
Proof.
  intros Hg. unfold tm_read_mbap.
  pose proof (rft_time g D c 7 Hg now s) as H1.
  destruct (read_full_t g D c 7 now s) as [hdr t1 rest|got e t1 rest];
    cbn [tm_rf_time] in H1; [|exact H1].
  destruct hdr as [|a1 [|a0 [|p1 [|p0 [|l1 [|l0 [|unit [|x hdr]]]]]]]]; try exact H1.
  destruct (260 <? _); [exact H1|]. destruct (_ <=? 1); [exact H1|].
  pose proof (rft_time g D c (N.to_nat (l1 * 256 + l0 - 1)) Hg t1 rest) as H2.
  destruct (read_full_t g D c (N.to_nat (l1 * 256 + l0 - 1)) t1 rest) as [body t2 r2|got e t2 r2];
    cbn [tm_rf_time] in H2; [|lia].
  destruct (negb _); [lia|]. destruct body; lia.
Qed.

Lemma tm_mbap_loop_time g D c txn fuel : (0 <= g)%Z -> forall now s,
  let '(_, t, _) := tm_mbap_read_response fuel g D c txn now s in
  (now <= t <= Z.max now (D + g))%Z.
Proof.
  intros Hg. induction fuel as [|f IH]; intros now s; cbn [tm_mbap_read_response]; [lia|].
  pose proof (tm_read_mbap_time g D c now s Hg) as H1.
  destruct (tm_read_mbap g D c now s) as [[r t] s'].
  assert (Hrec : let '(_, t', _) := tm_mbap_read_response f g D c txn t s' in
                 (now <= t' <= Z.max now (D + g))%Z).
  { specialize (IH t s'). destruct (tm_mbap_read_response f g D c txn t s') as [[r' t'] s'']. lia. }
  destruct r as [p tid|x].
  - destruct (tid =? txn); [exact H1|exact Hrec].
  - destruct x; try exact H1. exact Hrec.
Qed.

(* T1 for the MBAP transports: whatever the peer sends, the exchange is over
   by the deadline armed at its start *)
Lemma mbap_exchange_time timeout t0 c txn s : (0 <= timeout)%Z ->
  let '(_, t, _) := mbap_exchange_t timeout t0 c txn s in (t0 <= t <= t0 + timeout)%Z.
Proof.
  intros H. unfold mbap_exchange_t.
  pose proof (tm_mbap_loop_time 0 (t0 + timeout) c txn (S (length s)) ltac:(lia) t0 s) as H1.
  destruct (tm_mbap_read_response _ _ _ _ _ _ _) as [[r t] s']. lia.
Qed.

(* ---------------------------------------------------------------- MBAP: measure (T4) *)

(* any frame result that lets the skip loop go on has consumed 8 bytes or more *)
Lemma tm_read_mbap_len g D c now s r t rest : tm_read_mbap g D c now s = (r, t, rest) ->
  match r with
  | FOk _ _ | FErr EUnknownProto => (length rest + 8 <= length s)%nat
  | FErr _ => (length rest <= length s)%nat
  end.
Proof.
  unfold tm_read_mbap.
  pose proof (rft_rest_len g D c 7 now s) as R1.
  destruct (read_full_t g D c 7 now s) as [hdr t1 r1|got e t1 r1] eqn:E1; cbn [tm_rf_rest] in R1.
  2:{ intros H; inversion H; subst.
      destruct (rft_short_err _ _ _ _ _ _ _ _ _ _ E1) as [-> | ->]; exact R1. }
  apply rft_full_len in E1 as [Hl Hs].
  destruct hdr as [|a1 [|a0 [|p1 [|p0 [|l1 [|l0 [|unit [|x hdr]]]]]]]]; try discriminate Hl.
  set (len := l1 * 256 + l0).
  destruct (260 <? len - 1 + 7) eqn:C1; [intros H; inversion H; subst; exact R1|].
  destruct (len <=? 1) eqn:C2; [intros H; inversion H; subst; exact R1|].
  pose proof (rft_rest_len g D c (N.to_nat (len - 1)) t1 r1) as R2.
  destruct (read_full_t g D c (N.to_nat (len - 1)) t1 r1) as [body t2 r2|got e t2 r2] eqn:E2;
    cbn [tm_rf_rest] in R2.
  2:{ intros H; inversion H; subst.
      destruct (rft_short_err _ _ _ _ _ _ _ _ _ _ E2) as [-> | ->]; lia. }
  apply rft_full_len in E2 as [Hb Hr1].
  assert (Hlen : (length r2 + 8 <= length s)%nat) by lia.
  destruct (negb (p1 * 256 + p0 =? 0)); [intros H; inversion H; subst; exact Hlen|].
  destruct body as [|fc payload]; intros H; inversion H; subst; [lia|exact Hlen].
Qed.

Lemma tm_mbap_no_panic g D c txn fuel : forall now s,
  fst (fst (tm_mbap_read_response fuel g D c txn now s)) <> Panic.
Proof.
  induction fuel as [|f IH]; intros now s; [cbn; discriminate|].
  cbn [tm_mbap_read_response]. destruct (tm_read_mbap g D c now s) as [[r t] s'].
  destruct r as [p tid|x].
  - destruct (tid =? txn); [cbn; discriminate|apply IH].
  - destruct x; try (cbn; discriminate). apply IH.
Qed.

(* every iteration eats at least 8 bytes: one unit of fuel per 8 bytes is enough *)
Lemma tm_mbap_no_oof g D c txn fuel : forall now s, (length s < 8 * fuel)%nat ->
  fst (fst (tm_mbap_read_response fuel g D c txn now s)) <> OutOfFuel.
Proof.
  induction fuel as [|f IH]; intros now s Hf; [lia|].
  cbn [tm_mbap_read_response]. destruct (tm_read_mbap g D c now s) as [[r t] s'] eqn:E.
  apply tm_read_mbap_len in E.
  destruct r as [p tid|x].
  - destruct (tid =? txn); [cbn; discriminate|apply IH; lia].
  - destruct x; try (cbn; discriminate). apply IH; lia.
Qed.

Lemma mbap_exchange_no_oof timeout t0 c txn s :
  fst (fst (mbap_exchange_t timeout t0 c txn s)) <> OutOfFuel /\
  fst (fst (mbap_exchange_t timeout t0 c txn s)) <> Panic.
Proof.
  unfold mbap_exchange_t. split; [apply tm_mbap_no_oof; lia|apply tm_mbap_no_panic].
Qed.

(* ---------------------------------------------------------------- simulation, g = 0 *)

Lemma read_full_cons n b l :
  read_full (S n) (b :: l) =
  match read_full n l with
  | RFull got rest => RFull (b :: got) rest
  | RShort got => RShort (b :: got)
  end.
Proof.
  unfold read_full. cbn [length Nat.leb firstn skipn].
  destruct (Nat.leb n (length l)); reflexivity.
Qed.

Lemma tm_end_cons D c t b s : (t <= D)%Z -> tm_end D c ((t, b) :: s) = tm_end D c s.
Proof.
  intros H. unfold tm_end. cbn [tm_avail].
  replace (t <=? D)%Z with true by lia. reflexivity.
Qed.

Lemma tm_end_late D c t b s : (D < t)%Z -> tm_end D c ((t, b) :: s) = Stall.
Proof.
  intros H. unfold tm_end. cbn [tm_avail].
  replace (t <=? D)%Z with false by lia. destruct c; reflexivity.
Qed.

(* io.ReadFull against the deadline D = io.ReadFull on what arrives by D *)
Lemma rft_sim D c n : forall cur s, (cur <= D)%Z ->
  match read_full_t 0 D c n cur s, read_full n (map snd (tm_avail D s)) with
  | TmFull got t rest, RFull got' ru =>
      got = got' /\ (cur <= t <= D)%Z /\ map snd (tm_avail D rest) = ru /\
      tm_end D c rest = tm_end D c s
  | TmShort got e t rest, RShort got' =>
      got = got' /\ e = short_err (tm_end D c s) /\ (cur <= t <= D)%Z /\
      tm_avail D rest = [] /\ tm_end D c rest = tm_end D c s
  | _, _ => False
  end.
Proof.
  induction n as [|n IH]; intros cur s Hc.
  - cbn [read_full_t]. unfold read_full. cbn [Nat.leb firstn skipn].
    repeat split; lia.
  - cbn [read_full_t]. replace (D <? cur)%Z with false by lia. rewrite tm_horizon_zero.
    destruct s as [|[t b] s'].
    + cbn [tm_avail map]. unfold read_full. cbn [length Nat.leb].
      destruct c as [tc|]; [destruct (tc <=? D)%Z eqn:E|].
      * unfold tm_end. cbn [tm_avail length Nat.eqb andb]. rewrite E. cbn [short_err].
        repeat split; lia.
      * unfold tm_end. cbn [tm_avail length Nat.eqb andb]. rewrite E. cbn [short_err].
        repeat split; lia.
      * cbn [tm_end short_err]. repeat split; lia.
    + cbn [tm_avail]. destruct (t <=? D)%Z eqn:E.
      * cbn [map snd]. rewrite read_full_cons. rewrite (tm_end_cons D c t b s') by lia.
        specialize (IH (Z.max cur t) s' ltac:(lia)).
        destruct (read_full_t 0 D c n (Z.max cur t) s') as [got t2 rest|got e t2 rest];
          destruct (read_full n (map snd (tm_avail D s'))) as [got' ru|got'];
          cbn [tm_rf_cons]; try exact IH.
        -- destruct IH as (-> & Ht & Hr & He). repeat split; try assumption; lia.
        -- destruct IH as (-> & Hx & Ht & Hr & He). repeat split; try assumption; lia.
      * cbn [map]. unfold read_full. cbn [length Nat.leb].
        rewrite (tm_end_late D c t b s') by lia. cbn [short_err tm_avail]. rewrite E.
        repeat split; lia.
Qed.

Lemma tm_read_mbap_sim D c now s : (now <= D)%Z ->
  let '(r, t, rest) := tm_read_mbap 0 D c now s in
  let '(r', ru) := read_mbap (tm_end D c s) (map snd (tm_avail D s)) in
  r = r' /\ (now <= t <= D)%Z /\ map snd (tm_avail D rest) = ru /\
  tm_end D c rest = tm_end D c s.
Proof.
  intros Hn. unfold tm_read_mbap, read_mbap.
  pose proof (rft_sim D c 7 now s Hn) as H1.
  destruct (read_full_t 0 D c 7 now s) as [hdr t1 r1|got e t1 r1];
    destruct (read_full 7 (map snd (tm_avail D s))) as [hdr' u1|got']; try contradiction.
  2:{ destruct H1 as (_ & -> & Ht & Hr & He). rewrite Hr. repeat split; try assumption; lia. }
  destruct H1 as (<- & Ht & Hr & He).
  destruct hdr as [|a1 [|a0 [|p1 [|p0 [|l1 [|l0 [|unit [|x hdr]]]]]]]];
    try (repeat split; try assumption; lia).
  set (len := l1 * 256 + l0).
  destruct (260 <? len - 1 + 7); [repeat split; try assumption; lia|].
  destruct (len <=? 1); [repeat split; try assumption; lia|].
  pose proof (rft_sim D c (N.to_nat (len - 1)) t1 r1 ltac:(lia)) as H2.
  rewrite Hr, He in H2.
  destruct (read_full_t 0 D c (N.to_nat (len - 1)) t1 r1) as [body t2 r2|got e t2 r2];
    destruct (read_full (N.to_nat (len - 1)) u1) as [body' u2|got']; try contradiction.
  2:{ destruct H2 as (_ & -> & Ht2 & Hr2 & He2). rewrite Hr2. repeat split; try assumption; lia. }
  destruct H2 as (<- & Ht2 & Hr2 & He2).
  destruct (negb (p1 * 256 + p0 =? 0)); [repeat split; try assumption; lia|].
  destruct body; repeat split; try assumption; lia.
Qed.

Lemma tm_mbap_loop_sim D c txn fuel : forall now s, (now <= D)%Z ->
  let '(r, t, rest) := tm_mbap_read_response fuel 0 D c txn now s in
  let '(r', ru) := mbap_read_response fuel (tm_end D c s) txn (map snd (tm_avail D s)) in
  r = r' /\ (now <= t <= D)%Z /\ map snd (tm_avail D rest) = ru.
Proof.
  induction fuel as [|f IH]; intros now s Hn;
    cbn [tm_mbap_read_response mbap_read_response]; [repeat split; lia|].
  pose proof (tm_read_mbap_sim D c now s Hn) as H1.
  destruct (tm_read_mbap 0 D c now s) as [[r t] s'].
  destruct (read_mbap (tm_end D c s) (map snd (tm_avail D s))) as [r' u'].
  destruct H1 as (<- & Ht & Hr & He).
  assert (Hrec : let '(r2, t2, rest2) := tm_mbap_read_response f 0 D c txn t s' in
                 let '(r2', ru2) := mbap_read_response f (tm_end D c s) txn u' in
                 r2 = r2' /\ (now <= t2 <= D)%Z /\ map snd (tm_avail D rest2) = ru2).
  { specialize (IH t s' ltac:(lia)). rewrite Hr, He in IH.
    destruct (tm_mbap_read_response f 0 D c txn t s') as [[r2 t2] rest2].
    destruct (mbap_read_response f (tm_end D c s) txn u') as [r2' ru2].
    destruct IH as (H & H' & H''). repeat split; try assumption; lia. }
  destruct r as [p tid|x].
  - destruct (tid =? txn); [repeat split; try assumption; lia|exact Hrec].
  - destruct x; first [exact Hrec | repeat split; try assumption; lia].
Qed.

(* above the stream length, the fuel of the untimed loop is irrelevant *)
Lemma mbap_fuel_irrel f1 : forall f2 e txn s, (length s < f1)%nat -> (length s < f2)%nat ->
  mbap_read_response f1 e txn s = mbap_read_response f2 e txn s.
Proof.
  induction f1 as [|f1 IH]; intros f2 e txn s H1 H2; [lia|].
  destruct f2 as [|f2]; [lia|].
  cbn [mbap_read_response]. destruct (read_mbap e s) as [r s'] eqn:E.
  apply read_mbap_len in E.
  destruct r as [p t|x].
  - destruct (t =? txn); [reflexivity|apply IH; lia].
  - destruct x; try reflexivity. apply IH; lia.
Qed.

Lemma tm_avail_len D s : (length (tm_avail D s) <= length s)%nat.
Proof.
  induction s as [|[t b] s IH]; cbn [tm_avail length]; [lia|].
  destruct (t <=? D)%Z; cbn [length]; lia.
Qed.

(* the MBAP exchange with deadline D is the untimed exchange on what has
   arrived by D (result, and what is left of those bytes) *)
Lemma mbap_exchange_sim timeout t0 c txn s : (0 <= timeout)%Z ->
  let D := (t0 + timeout)%Z in
  let a := map snd (tm_avail D s) in
  let '(r, t, rest) := mbap_exchange_t timeout t0 c txn s in
  let '(r', ru) := mbap_read_response (S (length a)) (tm_end D c s) txn a in
  r = r' /\ (t0 <= t <= D)%Z /\ map snd (tm_avail D rest) = ru.
Proof.
  intros Ht D a. unfold mbap_exchange_t. fold D.
  pose proof (tm_mbap_loop_sim D c txn (S (length s)) t0 s ltac:(subst D; lia)) as H.
  fold a in H.
  assert (La : (length a <= length s)%nat).
  { subst a. rewrite map_length. apply tm_avail_len. }
  rewrite (mbap_fuel_irrel (S (length s)) (S (length a))) in H by lia.
  exact H.
Qed.

(* ---------------------------------------------------------------- RTU: time *)

Lemma tm_read_rtu_time g D c now s : (0 <= g)%Z ->
  let '(_, t, _) := tm_read_rtu g D c now s in (now <= t <= Z.max now (D + g))%Z.
Proof.
  intros Hg. unfold tm_read_rtu.
  pose proof (rft_time g D c 3 Hg now s) as H1.
  destruct (read_full_t g D c 3 now s) as [hdr t1 rest|got e t1 rest]; cbn [tm_rf_time] in H1.
  2:{ destruct got; exact H1. }
  destruct hdr as [|unit [|fc [|b2 [|x hdr]]]]; try exact H1.
  destruct (expected_len fc b2) as [n|]; [|exact H1].
  destruct (256 <? 3 + (n + 2)); [exact H1|].
  pose proof (rft_time g D c (N.to_nat (n + 2)) Hg t1 rest) as H2.
  destruct (read_full_t g D c (N.to_nat (n + 2)) t1 rest) as [body t2 r2|got e t2 r2];
    cbn [tm_rf_time] in H2.
  2:{ destruct e, got; lia. }
  destruct (skipn (N.to_nat n) body) as [|lo [|hi [|y tl]]]; try lia.
  destruct (crc_is_equal _ lo hi); lia.
Qed.

Lemma tm_discard_time g c now s : (0 <= g)%Z ->
  let '(t, _) := tm_discard g c now s in (now <= t <= now + 500000 + g)%Z.
Proof.
  intros Hg. unfold tm_discard, tm_flush_window.
  pose proof (rft_time g (now + 500000) c 1024 Hg now s) as H.
  destruct (read_full_t g (now + 500000) c 1024 now s); cbn [tm_rf_time] in H; lia.
Qed.

(* the sleeps before the read add up to what the configuration says *)
Lemma tm_rtu_now2_eq k la t0 nreq : tm_conf_wf k -> (0 <= nreq)%Z ->
  tm_rtu_now2 k la t0 nreq = tm_rtu_read_start k la t0 nreq.
Proof.
  intros (Ht & H1 & H35 & Hg) Hn. unfold tm_rtu_now2, tm_rtu_read_start, tm_sleep.
  pose proof (Z.mul_nonneg_nonneg nreq (tm_t1 k) Hn H1) as Hm.
  destruct (t0 - (la + tm_t35 k) <? 0)%Z eqn:E; lia.
Qed.

Lemma tm_rtu_read_start_bounds k la t0 nreq : tm_conf_wf k -> (la <= t0)%Z -> (0 <= nreq)%Z ->
  (t0 <= tm_rtu_read_start k la t0 nreq <= t0 + tm_t35 k + nreq * tm_t1 k + tm_t35 k)%Z.
Proof.
  intros (Ht & H1 & H35 & Hg) Hla Hn. unfold tm_rtu_read_start.
  pose proof (Z.mul_nonneg_nonneg nreq (tm_t1 k) Hn H1) as Hm. lia.
Qed.

(* T1 for the RTU transports *)
Lemma rtu_exchange_time k la t0 nreq c s : tm_conf_wf k -> (la <= t0)%Z -> (0 <= nreq)%Z ->
  let '(_, t, _) := rtu_exchange_t k la t0 nreq c s in
  (t0 <= t <= tm_rtu_bound k t0 nreq)%Z.
Proof.
  intros Hwf Hla Hn. unfold rtu_exchange_t.
  rewrite (tm_rtu_now2_eq k la t0 nreq Hwf Hn).
  pose proof (tm_rtu_read_start_bounds k la t0 nreq Hwf Hla Hn) as Hs.
  destruct Hwf as (Ht & H1 & H35 & Hg).
  pose proof (tm_read_rtu_time (tm_gran k) (t0 + tm_timeout k) c
                (tm_rtu_read_start k la t0 nreq) s Hg) as Hr.
  destruct (tm_read_rtu _ _ _ _ _) as [[r t3] rest].
  unfold tm_rtu_bound.
  destruct r as [p|x| |]; try lia.
  destruct (tm_resync x); [|lia].
  pose proof (tm_discard_time (tm_gran k) c (tm_sleep t3 (256 * tm_t1 k)) rest Hg) as Hd.
  destruct (tm_discard _ _ _ _) as [t4 rest']. unfold tm_sleep in Hd. lia.
Qed.

(* ---------------------------------------------------------------- RTU: simulation, g = 0 *)

Lemma tm_end_cases D c s : tm_end D c s = Stall \/ tm_end D c s = Closed.
Proof. unfold tm_end. destruct c as [tc|]; [destruct (_ && _)%bool|]; auto. Qed.

Lemma tm_read_rtu_sim D c now s : (now <= D)%Z ->
  let '(r, t, _) := tm_read_rtu 0 D c now s in
  r = fst (read_rtu (tm_end D c s) (map snd (tm_avail D s))) /\ (now <= t <= D)%Z.
Proof.
  intros Hn. unfold tm_read_rtu, read_rtu.
  pose proof (rft_sim D c 3 now s Hn) as H1.
  destruct (read_full_t 0 D c 3 now s) as [hdr t1 r1|got e t1 r1];
    destruct (read_full 3 (map snd (tm_avail D s))) as [hdr' u1|got']; try contradiction.
  2:{ destruct H1 as (<- & -> & Ht & _). destruct got; cbn [fst]; split; (reflexivity || lia). }
  destruct H1 as (<- & Ht & Hr & He).
  destruct hdr as [|unit [|fc [|b2 [|x hdr]]]]; try (cbn [fst]; split; (reflexivity || lia)).
  destruct (expected_len fc b2) as [n|]; [|cbn [fst]; split; (reflexivity || lia)].
  destruct (256 <? 3 + (n + 2)); [cbn [fst]; split; (reflexivity || lia)|].
  pose proof (rft_sim D c (N.to_nat (n + 2)) t1 r1 ltac:(lia)) as H2.
  rewrite Hr, He in H2.
  destruct (read_full_t 0 D c (N.to_nat (n + 2)) t1 r1) as [body t2 r2|got e t2 r2];
    destruct (read_full (N.to_nat (n + 2)) u1) as [body' u2|got']; try contradiction.
  2:{ destruct H2 as (<- & -> & Ht2 & _).
      destruct (tm_end_cases D c s) as [-> | ->]; destruct got; cbn [short_err fst];
        split; (reflexivity || lia). }
  destruct H2 as (<- & Ht2 & _).
  destruct (skipn (N.to_nat n) body) as [|lo [|hi [|y tl]]];
    try (cbn [fst]; split; (reflexivity || lia)).
  destruct (crc_is_equal _ lo hi); cbn [fst]; split; (reflexivity || lia).
Qed.

(* the RTU exchange with deadline D gives the result of the untimed exchange
   on what has arrived by D, provided the read starts before the deadline *)
Lemma rtu_exchange_sim k la t0 nreq c s : tm_conf_wf k -> tm_gran k = 0%Z -> (0 <= nreq)%Z ->
  (tm_rtu_read_start k la t0 nreq <= t0 + tm_timeout k)%Z ->
  let D := (t0 + tm_timeout k)%Z in
  fst (fst (rtu_exchange_t k la t0 nreq c s)) =
  fst (rtu_read_response (tm_end D c s) (map snd (tm_avail D s))).
Proof.
  intros Hwf Hg Hn Hs D. unfold rtu_exchange_t, rtu_read_response. fold D.
  rewrite (tm_rtu_now2_eq k la t0 nreq Hwf Hn), Hg.
  pose proof (tm_read_rtu_sim D c (tm_rtu_read_start k la t0 nreq) s Hs) as H.
  destruct (tm_read_rtu 0 D c _ s) as [[r t3] rest].
  destruct H as [-> _].
  destruct (read_rtu (tm_end D c s) (map snd (tm_avail D s))) as [r' u]. cbn [fst].
  destruct r' as [p|x| |]; try reflexivity.
  destruct x; cbn [tm_resync]; try reflexivity;
    destruct (tm_discard 0 c _ rest); reflexivity.
Qed.

Lemma tm_read_rtu_no_panic g D c now s :
  fst (fst (tm_read_rtu g D c now s)) <> Panic /\ fst (fst (tm_read_rtu g D c now s)) <> OutOfFuel.
Proof.
  unfold tm_read_rtu.
  destruct (read_full_t g D c 3 now s) as [hdr t1 r1|got e t1 r1] eqn:E1.
  2:{ destruct got; cbn; split; discriminate. }
  apply rft_full_len in E1 as [Hl _].
  destruct hdr as [|unit [|fc [|b2 [|x hdr]]]]; try discriminate Hl.
  destruct (expected_len fc b2) as [n|]; [|cbn; split; discriminate].
  destruct (256 <? 3 + (n + 2)); [cbn; split; discriminate|].
  destruct (read_full_t g D c (N.to_nat (n + 2)) t1 r1) as [body t2 r2|got e t2 r2] eqn:E2.
  2:{ destruct e, got; cbn; split; discriminate. }
  apply rft_full_len in E2 as [Hb _].
  assert (Hsk : length (skipn (N.to_nat n) body) = 2%nat) by (rewrite skipn_length; lia).
  destruct (skipn (N.to_nat n) body) as [|lo [|hi [|y tl]]]; try discriminate Hsk.
  destruct (crc_is_equal _ lo hi); cbn; split; discriminate.
Qed.

Lemma rtu_exchange_no_panic k la t0 nreq c s :
  fst (fst (rtu_exchange_t k la t0 nreq c s)) <> Panic /\
  fst (fst (rtu_exchange_t k la t0 nreq c s)) <> OutOfFuel.
Proof.
  unfold rtu_exchange_t.
  pose proof (tm_read_rtu_no_panic (tm_gran k) (t0 + tm_timeout k) c (tm_rtu_now2 k la t0 nreq) s) as H.
  destruct (tm_read_rtu _ _ _ _ _) as [[r t3] rest]. cbn [fst] in H.
  destruct r as [p|x| |]; try exact H.
  destruct (tm_resync x); [destruct (tm_discard _ _ _ _)|]; cbn; split; discriminate.
Qed.

(* ---------------------------------------------------------------- the client call *)

Definition tm_xchg (fr : framing) (k : tm_conf) (la : Z) (txn : N) (req : pdu) (t0 : Z)
  (c : option Z) (s : list (Z * N)) : result pdu * Z * list (Z * N) :=
  match fr with
  | FMbap => mbap_exchange_t (tm_timeout k) t0 c (u16 (txn + 1)) s
  | FRtu => rtu_exchange_t k la t0 (Z.of_nat (length (assemble_rtu req))) c s
  end.

Lemma tm_client_call_ok fr k la cfg txn o t0 c s req : client_request cfg o = Ok req ->
  let x := tm_xchg fr k la txn req t0 c s in
  let r := tm_client_call fr k la cfg txn o t0 c s in
  tmc_res r = after_recv cfg o req (fst (fst x)) /\ tmc_finish r = snd (fst x) /\
  tmc_rest r = snd x.
Proof.
  intros Hreq. unfold tm_client_call, tm_xchg, after_recv. rewrite Hreq.
  destruct fr.
  - destruct (mbap_exchange_t _ _ _ _ _) as [[r t] rest].
    destruct r as [res|x| |]; try (repeat split; reflexivity).
    cbn [fst snd]. destruct (unit_check req res); repeat split; reflexivity.
  - destruct (rtu_exchange_t _ _ _ _ _ _) as [[r t] rest].
    destruct r as [res|x| |]; try (repeat split; reflexivity).
    cbn [fst snd]. destruct (unit_check req res); repeat split; reflexivity.
Qed.

Lemma tm_client_call_rejected fr k la cfg txn o t0 c s : op_wf o -> valid_op o = false ->
  let r := tm_client_call fr k la cfg txn o t0 c s in
  tmc_res r = Err EParams /\ tmc_finish r = t0 /\ tmc_rest r = s.
Proof.
  intros Hwf V. unfold tm_client_call. rewrite (client_request_exact cfg o Hwf), V.
  repeat split; reflexivity.
Qed.

Lemma tm_request cfg o : op_wf o -> valid_op o = true ->
  client_request cfg o = Ok (spec_pdu cfg o).
Proof. intros Hwf V. rewrite (client_request_exact cfg o Hwf), V. reflexivity. Qed.

(* T1, MBAP: every call is over by t0 + timeout *)
Lemma tm_client_time_mbap : forall k la cfg txn o t0 c s, (0 <= tm_timeout k)%Z ->
  (t0 <= tmc_finish (tm_client_call FMbap k la cfg txn o t0 c s) <= tm_mbap_bound k t0)%Z.
Proof.
  intros k la cfg txn o t0 c s Ht. unfold tm_mbap_bound.
  destruct (client_request cfg o) as [req|x| |] eqn:Hreq.
  - destruct (tm_client_call_ok FMbap k la cfg txn o t0 c s req Hreq) as (_ & -> & _).
    cbn [tm_xchg].
    pose proof (mbap_exchange_time (tm_timeout k) t0 c (u16 (txn + 1)) s Ht) as H.
    destruct (mbap_exchange_t _ _ _ _ _) as [[r t] rest]. cbn [fst snd]. exact H.
  - unfold tm_client_call. rewrite Hreq. cbn. lia.
  - unfold tm_client_call. rewrite Hreq. cbn. lia.
  - unfold tm_client_call. rewrite Hreq. cbn. lia.
Qed.

(* T1, RTU: the bound depends on the configuration and the request only *)
Lemma tm_client_time_rtu : forall k la cfg txn o t0 c s,
  op_wf o -> tm_conf_wf k -> (la <= t0)%Z ->
  (t0 <= tmc_finish (tm_client_call FRtu k la cfg txn o t0 c s)
      <= tm_rtu_bound k t0 (tm_req_len cfg o))%Z.
Proof.
  intros k la cfg txn o t0 c s Hwf Hk Hla.
  assert (Hn : (0 <= tm_req_len cfg o)%Z) by (unfold tm_req_len; lia).
  destruct (valid_op o) eqn:V.
  - destruct (tm_client_call_ok FRtu k la cfg txn o t0 c s _ (tm_request cfg o Hwf V))
      as (_ & -> & _).
    cbn [tm_xchg]. fold (tm_req_len cfg o).
    pose proof (rtu_exchange_time k la t0 (tm_req_len cfg o) c s Hk Hla Hn) as H.
    destruct (rtu_exchange_t _ _ _ _ _ _) as [[r t] rest]. cbn [fst snd]. exact H.
  - destruct (tm_client_call_rejected FRtu k la cfg txn o t0 c s Hwf V) as (_ & -> & _).
    pose proof (tm_rtu_read_start_bounds k la t0 (tm_req_len cfg o) Hk Hla Hn) as Hs.
    destruct Hk as (Ht & H1 & H35 & Hg). unfold tm_rtu_bound. lia.
Qed.

(* the timed client = the untimed client (C01/C02 model) on what has arrived
   by the deadline *)
Lemma tm_client_sim_mbap : forall k la cfg txn o t0 c s, (0 <= tm_timeout k)%Z ->
  let D := (t0 + tm_timeout k)%Z in
  let r := tm_client_call FMbap k la cfg txn o t0 c s in
  let u := client_call FMbap cfg txn o (tm_end D c s) (map snd (tm_avail D s)) in
  tmc_res r = cr_res u /\ map snd (tm_avail D (tmc_rest r)) = cr_rest u.
Proof.
  intros k la cfg txn o t0 c s Ht D r u. subst r u.
  destruct (client_request cfg o) as [req|x| |] eqn:Hreq.
  - destruct (tm_client_call_ok FMbap k la cfg txn o t0 c s req Hreq) as (-> & _ & ->).
    destruct (client_call_ok FMbap cfg txn (o) (tm_end D c s) (map snd (tm_avail D s)) req Hreq)
      as (-> & ->).
    cbn [tm_xchg recv].
    pose proof (mbap_exchange_sim (tm_timeout k) t0 c (u16 (txn + 1)) s Ht) as H.
    cbv zeta in H. fold D in H.
    destruct (mbap_exchange_t _ _ _ _ _) as [[r t] rest].
    destruct (mbap_read_response _ _ _ _) as [r' ru]. cbn [fst snd].
    destruct H as (-> & _ & ->). split; reflexivity.
  - unfold tm_client_call, client_call. rewrite Hreq. split; reflexivity.
  - unfold tm_client_call, client_call. rewrite Hreq. split; reflexivity.
  - unfold tm_client_call, client_call. rewrite Hreq. split; reflexivity.
Qed.

Lemma tm_client_sim_rtu : forall k la cfg txn o t0 c s,
  op_wf o -> tm_conf_wf k -> tm_gran k = 0%Z ->
  (tm_rtu_read_start k la t0 (tm_req_len cfg o) <= t0 + tm_timeout k)%Z ->
  let D := (t0 + tm_timeout k)%Z in
  tmc_res (tm_client_call FRtu k la cfg txn o t0 c s) =
  cr_res (client_call FRtu cfg txn o (tm_end D c s) (map snd (tm_avail D s))).
Proof.
  intros k la cfg txn o t0 c s Hwf Hk Hg Hs D.
  assert (Hn : (0 <= tm_req_len cfg o)%Z) by (unfold tm_req_len; lia).
  destruct (valid_op o) eqn:V.
  - pose proof (tm_request cfg o Hwf V) as Hreq.
    destruct (tm_client_call_ok FRtu k la cfg txn o t0 c s _ Hreq) as (-> & _ & _).
    destruct (client_call_ok FRtu cfg txn o (tm_end D c s) (map snd (tm_avail D s)) _ Hreq)
      as (-> & _).
    cbn [tm_xchg recv]. fold (tm_req_len cfg o).
    rewrite (rtu_exchange_sim k la t0 (tm_req_len cfg o) c s Hk Hg Hn Hs). reflexivity.
  - destruct (tm_client_call_rejected FRtu k la cfg txn o t0 c s Hwf V) as (-> & _ & _).
    unfold client_call. rewrite (client_request_exact cfg o Hwf), V. reflexivity.
Qed.

(* ---------------------------------------------------------------- what has arrived *)

Lemma tm_avail_app D pre post : Forall (fun p => (fst p <= D)%Z) pre ->
  tm_avail D (pre ++ post) = pre ++ tm_avail D post.
Proof.
  induction 1 as [|[t b] pre Hp _ IH]; [reflexivity|].
  cbn [app tm_avail]. cbn [fst] in Hp. replace (t <=? D)%Z with true by lia.
  rewrite IH. reflexivity.
Qed.

Lemma tm_avail_all D s : Forall (fun p => (fst p <= D)%Z) s -> tm_avail D s = s.
Proof.
  intros H. rewrite <- (app_nil_r s) at 1. rewrite tm_avail_app by exact H.
  cbn [tm_avail]. apply app_nil_r.
Qed.

(* equivalence with the untimed model: when every byte is there before the
   call starts and the peer then stays silent, the timed call returns what
   Client.client_call returns with end Stall *)
Lemma tm_client_untimed_mbap : forall k la cfg txn o t0 s, (0 <= tm_timeout k)%Z ->
  Forall (fun p => (fst p <= t0)%Z) s ->
  let r := tm_client_call FMbap k la cfg txn o t0 None s in
  let u := client_call FMbap cfg txn o Stall (map snd s) in
  tmc_res r = cr_res u /\ map snd (tm_avail (t0 + tm_timeout k) (tmc_rest r)) = cr_rest u.
Proof.
  intros k la cfg txn o t0 s Ht Hs.
  pose proof (tm_client_sim_mbap k la cfg txn o t0 None s Ht) as H. cbv zeta in H.
  rewrite tm_avail_all in H.
  2:{ eapply Forall_impl; [|exact Hs]. cbn. intros a Ha. lia. }
  exact H.
Qed.

Lemma tm_client_untimed_rtu : forall k la cfg txn o t0 s,
  op_wf o -> tm_conf_wf k -> tm_gran k = 0%Z ->
  (tm_rtu_read_start k la t0 (tm_req_len cfg o) <= t0 + tm_timeout k)%Z ->
  Forall (fun p => (fst p <= t0)%Z) s ->
  tmc_res (tm_client_call FRtu k la cfg txn o t0 None s) =
  cr_res (client_call FRtu cfg txn o Stall (map snd s)).
Proof.
  intros k la cfg txn o t0 s Hwf Hk Hg Hst Hs.
  pose proof (tm_client_sim_rtu k la cfg txn o t0 None s Hwf Hk Hg Hst) as H. cbv zeta in H.
  rewrite tm_avail_all in H.
  2:{ eapply Forall_impl; [|exact Hs]. cbn. intros a Ha. destruct Hk as (Ht & _). lia. }
  exact H.
Qed.

(* ---------------------------------------------------------------- T2: silence *)

Lemma tm_silence_mbap : forall k la cfg txn o t0,
  op_wf o -> valid_op o = true -> (0 <= tm_timeout k)%Z ->
  let r := tm_client_call FMbap k la cfg txn o t0 None [] in
  tmc_res r = Err ETimeout /\ tmc_finish r = (t0 + tm_timeout k)%Z.
Proof.
  intros k la cfg txn o t0 Hwf V Ht. cbv zeta.
  destruct (tm_client_call_ok FMbap k la cfg txn o t0 None [] _ (tm_request cfg o Hwf V))
    as (-> & -> & _).
  cbn [tm_xchg]. unfold mbap_exchange_t. cbn [length tm_mbap_read_response].
  unfold tm_read_mbap. cbn [read_full_t].
  replace (t0 + tm_timeout k <? t0)%Z with false by lia.
  rewrite tm_horizon_zero. cbn. split; reflexivity.
Qed.

(* RTU on a net.Conn: the timeout error, at the deadline (or at the end of
   the post-write sleep when that is later) *)
Lemma tm_silence_rtu : forall k la cfg txn o t0,
  op_wf o -> valid_op o = true -> tm_conf_wf k -> tm_gran k = 0%Z ->
  let r := tm_client_call FRtu k la cfg txn o t0 None [] in
  tmc_res r = Err ETimeout /\
  tmc_finish r = Z.max (t0 + tm_timeout k) (tm_rtu_read_start k la t0 (tm_req_len cfg o)).
Proof.
  intros k la cfg txn o t0 Hwf V Hk Hg. cbv zeta.
  assert (Hn : (0 <= tm_req_len cfg o)%Z) by (unfold tm_req_len; lia).
  destruct (tm_client_call_ok FRtu k la cfg txn o t0 None [] _ (tm_request cfg o Hwf V))
    as (-> & -> & _).
  cbn [tm_xchg]. fold (tm_req_len cfg o). unfold rtu_exchange_t.
  rewrite (tm_rtu_now2_eq k la t0 _ Hk Hn), Hg.
  unfold tm_read_rtu. cbn [read_full_t]. rewrite tm_horizon_zero.
  destruct (_ <? _)%Z eqn:E; cbn [after_recv fst snd tm_resync]; split; (reflexivity || lia).
Qed.

(* serial wrapper: the timeout is noticed at the end of the poll that
   straddles the deadline, less than one poll period late *)
Lemma tm_silence_serial : forall k la cfg txn o t0,
  op_wf o -> valid_op o = true -> tm_conf_wf k -> (0 < tm_gran k)%Z ->
  (tm_rtu_read_start k la t0 (tm_req_len cfg o) <= t0 + tm_timeout k)%Z ->
  let r := tm_client_call FRtu k la cfg txn o t0 None [] in
  tmc_res r = Err ETimeout /\
  (t0 + tm_timeout k < tmc_finish r <= t0 + tm_timeout k + tm_gran k)%Z.
Proof.
  intros k la cfg txn o t0 Hwf V Hk Hg Hs. cbv zeta.
  assert (Hn : (0 <= tm_req_len cfg o)%Z) by (unfold tm_req_len; lia).
  destruct (tm_client_call_ok FRtu k la cfg txn o t0 None [] _ (tm_request cfg o Hwf V))
    as (-> & -> & _).
  cbn [tm_xchg]. fold (tm_req_len cfg o). unfold rtu_exchange_t.
  rewrite (tm_rtu_now2_eq k la t0 _ Hk Hn).
  unfold tm_read_rtu. cbn [read_full_t].
  replace (_ <? _)%Z with false by lia.
  pose proof (tm_horizon_bounds (tm_gran k) (tm_rtu_read_start k la t0 (tm_req_len cfg o))
                (t0 + tm_timeout k) ltac:(lia) Hs) as [H1 H2].
  cbn [after_recv fst snd tm_resync]. split; [reflexivity|]. lia.
Qed.

(* ---------------------------------------------------------------- T3: timely replies *)

Lemma tm_timely_mbap : forall k la cfg txn o t0 c pre post res vs frames,
  op_wf o -> cfg_wf cfg -> txn < 65536 -> valid_op o = true -> (0 <= tm_timeout k)%Z ->
  bytesb (p_payload res) = true -> answers cfg o res vs ->
  Forall (skippable (u16 (txn + 1))) frames ->
  map snd pre = concat frames ++ spec_frame FMbap (u16 (txn + 1)) res ->
  Forall (fun p => (fst p <= t0 + tm_timeout k)%Z) pre ->
  let r := tm_client_call FMbap k la cfg txn o t0 c (pre ++ post) in
  tmc_res r = Ok vs /\ (t0 <= tmc_finish r <= t0 + tm_timeout k)%Z.
Proof.
  intros k la cfg txn o t0 c pre post res vs frames Hwf Hcfg Htx V Ht Hb Hans HF Hpre Htimes r.
  subst r. split; [|apply tm_client_time_mbap; exact Ht].
  destruct (tm_client_sim_mbap k la cfg txn o t0 c (pre ++ post) Ht) as [-> _].
  rewrite tm_avail_app by exact Htimes. rewrite map_app, Hpre, <- app_assoc.
  apply (client_complete_mbap cfg txn o _ res vs frames _ Hwf Hcfg Htx V Hb Hans HF).
Qed.

Lemma tm_timely_rtu : forall k la cfg txn o t0 c pre post res vs,
  op_wf o -> cfg_wf cfg -> valid_op o = true -> tm_conf_wf k -> tm_gran k = 0%Z ->
  (tm_rtu_read_start k la t0 (tm_req_len cfg o) <= t0 + tm_timeout k)%Z ->
  bytesb (p_payload res) = true -> answers cfg o res vs ->
  map snd pre = spec_frame FRtu 0 res ->
  Forall (fun p => (fst p <= t0 + tm_timeout k)%Z) pre ->
  tmc_res (tm_client_call FRtu k la cfg txn o t0 c (pre ++ post)) = Ok vs.
Proof.
  intros k la cfg txn o t0 c pre post res vs Hwf Hcfg V Hk Hg Hs Hb Hans Hpre Htimes.
  rewrite (tm_client_sim_rtu k la cfg txn o t0 c (pre ++ post) Hwf Hk Hg Hs).
  rewrite tm_avail_app by exact Htimes. rewrite map_app, Hpre.
  apply (client_complete_rtu cfg txn o _ res vs _ Hwf Hcfg V Hb Hans).
Qed.

(* ---------------------------------------------------------------- T4: no panic, no fuel artefact *)

Lemma tm_client_no_panic : forall fr k la cfg txn o t0 c s, op_wf o ->
  tmc_res (tm_client_call fr k la cfg txn o t0 c s) <> Panic /\
  tmc_res (tm_client_call fr k la cfg txn o t0 c s) <> OutOfFuel.
Proof.
  intros fr k la cfg txn o t0 c s Hwf.
  destruct (valid_op o) eqn:V.
  - pose proof (tm_request cfg o Hwf V) as Hreq.
    destruct (tm_client_call_ok fr k la cfg txn o t0 c s _ Hreq) as (-> & _ & _).
    assert (Hx : fst (fst (tm_xchg fr k la txn (spec_pdu cfg o) t0 c s)) <> Panic /\
                 fst (fst (tm_xchg fr k la txn (spec_pdu cfg o) t0 c s)) <> OutOfFuel).
    { destruct fr; cbn [tm_xchg].
      - destruct (mbap_exchange_no_oof (tm_timeout k) t0 c (u16 (txn + 1)) s). split; assumption.
      - apply rtu_exchange_no_panic. }
    destruct Hx as [Hp Ho]. unfold after_recv.
    destruct (fst (fst (tm_xchg fr k la txn (spec_pdu cfg o) t0 c s))) as [res|y| |];
      try congruence.
    + destruct (unit_check (spec_pdu cfg o) res); [split; discriminate|].
      apply validate_no_panic; assumption.
    + split; discriminate.
  - destruct (tm_client_call_rejected fr k la cfg txn o t0 c s Hwf V) as (-> & _ & _).
    split; discriminate.
Qed.

(* ---------------------------------------------------------------- closed form of read_full_t *)

Lemma tm_tmax_ge l : forall a, (a <= tm_tmax l a)%Z.
Proof.
  unfold tm_tmax. induction l as [|p l IH]; intros a; cbn [fold_left]; [lia|].
  specialize (IH (Z.max a (fst p))). lia.
Qed.

Lemma tm_tmax_cons t b l a : tm_tmax ((t, b) :: l) a = tm_tmax l (Z.max a t).
Proof. reflexivity. Qed.

(* on a net.Conn: n bytes and the completion time max(now, latest arrival
   among them) when that is not after the deadline ... *)
Lemma rft_full D c n : forall cur s, (cur <= D)%Z -> (n <= length s)%nat ->
  (tm_tmax (firstn n s) cur <= D)%Z ->
  read_full_t 0 D c n cur s =
    TmFull (map snd (firstn n s)) (tm_tmax (firstn n s) cur) (skipn n s).
Proof.
  induction n as [|n IH]; intros cur s Hc Hl Ht; [reflexivity|].
  destruct s as [|[t b] s']; [cbn [length] in Hl; lia|].
  cbn [firstn] in Ht. rewrite tm_tmax_cons in Ht.
  pose proof (tm_tmax_ge (firstn n s') (Z.max cur t)) as Hge.
  cbn [read_full_t]. replace (D <? cur)%Z with false by lia. rewrite tm_horizon_zero.
  replace (t <=? D)%Z with true by lia.
  rewrite IH by (cbn [length] in Hl; lia).
  cbn [tm_rf_cons firstn skipn map snd]. rewrite tm_tmax_cons. reflexivity.
Qed.

(* ... otherwise the bytes that arrived by the deadline and the timeout
   error, at the deadline *)
Lemma rft_late D n : forall cur s, (cur <= D)%Z ->
  ((length s < n)%nat \/ (D < tm_tmax (firstn n s) cur)%Z) ->
  read_full_t 0 D None n cur s =
    TmShort (map snd (tm_avail D s)) ETimeout D (skipn (length (tm_avail D s)) s).
Proof.
  induction n as [|n IH]; intros cur s Hc H.
  - cbn [firstn] in H. unfold tm_tmax in H. cbn [fold_left] in H. lia.
  - cbn [read_full_t]. replace (D <? cur)%Z with false by lia. rewrite tm_horizon_zero.
    destruct s as [|[t b] s']; [reflexivity|].
    cbn [tm_avail]. destruct (t <=? D)%Z eqn:E; [|reflexivity].
    rewrite IH.
    + reflexivity.
    + lia.
    + cbn [length firstn] in H. rewrite tm_tmax_cons in H. destruct H as [H|H]; [left; lia|right; exact H].
Qed.

(* for non-decreasing arrival times the latest arrival among the first n
   bytes is the arrival of the n-th *)
Lemma tm_tmax_sorted n : forall s cur, tm_sorted s -> (n < length s)%nat ->
  tm_tmax (firstn (S n) s) cur = Z.max cur (fst (nth n s (0%Z, 0))).
Proof.
  induction n as [|n IH]; intros s cur Hs Hl.
  - destruct s as [|[t b] s']; [cbn in Hl; lia|]. reflexivity.
  - destruct s as [|[t b] s']; [cbn in Hl; lia|].
    change (firstn (S (S n)) ((t, b) :: s')) with ((t, b) :: firstn (S n) s').
    rewrite tm_tmax_cons. rewrite IH.
    + pose proof (Hs 0%nat (S n) ltac:(lia)) as H0. cbn [nth fst] in *. lia.
    + intros i j Hij. apply (Hs (S i) (S j)). cbn [length]. lia.
    + cbn [length] in Hl. lia.
Qed.

(* ---------------------------------------------------------------- a timeout is never early *)

Lemma rft_timeout_time D c n : forall cur s got t rest,
  read_full_t 0 D c n cur s = TmShort got ETimeout t rest -> t = Z.max cur D.
Proof.
  induction n as [|n IH]; intros cur s got t rest; cbn [read_full_t]; [discriminate|].
  destruct (D <? cur)%Z eqn:E; [intros H; inversion H; lia|].
  rewrite tm_horizon_zero.
  destruct s as [|[t' b] s'].
  - destruct c as [tc|]; [destruct (tc <=? D)%Z|]; intros H; inversion H; lia.
  - destruct (t' <=? D)%Z eqn:E2; [|intros H; inversion H; lia].
    destruct (read_full_t 0 D c n (Z.max cur t') s') as [|got' e' t2 rest'] eqn:E3; [discriminate|].
    cbn [tm_rf_cons]. intros H; inversion H; subst.
    apply IH in E3. lia.
Qed.

Lemma tm_read_mbap_timeout D c now s t rest :
  tm_read_mbap 0 D c now s = (FErr ETimeout, t, rest) -> t = Z.max now D.
Proof.
  unfold tm_read_mbap.
  pose proof (rft_time 0 D c 7 ltac:(lia) now s) as T1.
  destruct (read_full_t 0 D c 7 now s) as [hdr t1 r1|got e t1 r1] eqn:E1; cbn [tm_rf_time] in T1.
  2:{ intros H; inversion H; subst. apply rft_timeout_time in E1. exact E1. }
  destruct hdr as [|a1 [|a0 [|p1 [|p0 [|l1 [|l0 [|unit [|x hdr]]]]]]]]; try discriminate.
  destruct (260 <? _); [discriminate|]. destruct (_ <=? 1); [discriminate|].
  destruct (read_full_t 0 D c _ t1 r1) as [body t2 r2|got e t2 r2] eqn:E2.
  2:{ intros H; inversion H; subst. apply rft_timeout_time in E2. lia. }
  destruct (negb _); [discriminate|]. destruct body; discriminate.
Qed.

Lemma tm_mbap_loop_timeout D c txn fuel : forall now s t rest,
  tm_mbap_read_response fuel 0 D c txn now s = (Err ETimeout, t, rest) -> t = Z.max now D.
Proof.
  induction fuel as [|f IH]; intros now s t rest; cbn [tm_mbap_read_response]; [discriminate|].
  pose proof (tm_read_mbap_time 0 D c now s ltac:(lia)) as T.
  destruct (tm_read_mbap 0 D c now s) as [[r t1] s'] eqn:E.
  assert (Hrec : tm_mbap_read_response f 0 D c txn t1 s' = (Err ETimeout, t, rest) -> t = Z.max now D).
  { intros H. apply IH in H. lia. }
  destruct r as [p tid|x].
  - destruct (tid =? txn); [discriminate|exact Hrec].
  - destruct x; try discriminate; try exact Hrec.
    intros H; inversion H; subst. apply tm_read_mbap_timeout in E. exact E.
Qed.

(* MBAP: a timeout is reported exactly at the deadline, never before *)
Lemma mbap_exchange_timeout : forall timeout t0 c txn s t rest, (0 <= timeout)%Z ->
  mbap_exchange_t timeout t0 c txn s = (Err ETimeout, t, rest) -> t = (t0 + timeout)%Z.
Proof.
  intros timeout t0 c txn s t rest Ht H. unfold mbap_exchange_t in H.
  apply tm_mbap_loop_timeout in H. lia.
Qed.

Lemma tm_read_rtu_timeout D c now s t rest :
  tm_read_rtu 0 D c now s = (Err ETimeout, t, rest) -> t = Z.max now D.
Proof.
  unfold tm_read_rtu.
  pose proof (rft_time 0 D c 3 ltac:(lia) now s) as T1.
  destruct (read_full_t 0 D c 3 now s) as [hdr t1 r1|got e t1 r1] eqn:E1; cbn [tm_rf_time] in T1.
  2:{ destruct got; [|discriminate]. intros H; inversion H; subst.
      apply rft_timeout_time in E1. exact E1. }
  destruct hdr as [|unit [|fc [|b2 [|x hdr]]]]; try discriminate.
  destruct (expected_len fc b2) as [n|]; [|discriminate].
  destruct (256 <? 3 + (n + 2)); [discriminate|].
  destruct (read_full_t 0 D c _ t1 r1) as [body t2 r2|got e t2 r2] eqn:E2.
  2:{ destruct e, got; try discriminate; intros H; inversion H; subst;
        apply rft_timeout_time in E2; lia. }
  destruct (skipn (N.to_nat n) body) as [|lo [|hi [|y tl]]]; try discriminate.
  destruct (crc_is_equal _ lo hi); discriminate.
Qed.

(* RTU on a net.Conn: at the deadline (or at the end of the post-write sleep
   when that is later), and no re-synchronisation delay is added *)
Lemma rtu_exchange_timeout : forall k la t0 nreq c s t rest,
  tm_conf_wf k -> tm_gran k = 0%Z -> (0 <= nreq)%Z ->
  rtu_exchange_t k la t0 nreq c s = (Err ETimeout, t, rest) ->
  t = Z.max (t0 + tm_timeout k) (tm_rtu_read_start k la t0 nreq).
Proof.
  intros k la t0 nreq c s t rest Hk Hg Hn. unfold rtu_exchange_t.
  rewrite (tm_rtu_now2_eq k la t0 nreq Hk Hn), Hg.
  destruct (tm_read_rtu 0 _ c _ s) as [[r t3] rest3] eqn:E.
  destruct r as [p|x| |]; try discriminate.
  destruct (tm_resync x) eqn:R.
  - destruct (tm_discard 0 c _ rest3). intros H; inversion H; subst. discriminate R.
  - intros H; inversion H; subst. apply tm_read_rtu_timeout in E. lia.
Qed.
