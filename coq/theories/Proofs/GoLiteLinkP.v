(* Linking lemmas for GoLite programs: what [call p fuel name args] is, in
   terms of the run of the function's body in the environment of the functions
   listed before it. Generic in the program; the side conditions are closed
   computations on the function names. *)
From Coq Require Import List NArith String Bool.
Import ListNotations.
From Modbus Require Import Model.GoLite.

Fixpoint prefix_before (name : string) (fs : list (string * fn)) : list (string * fn) :=
  match fs with
  | [] => []
  | (n, f) :: t => if String.eqb n name then [] else (n, f) :: prefix_before name t
  end.

Fixpoint suffix_after (name : string) (fs : list (string * fn)) : list (string * fn) :=
  match fs with
  | [] => []
  | (n, f) :: t => if String.eqb n name then t else suffix_after name t
  end.

Fixpoint lookup_fn (name : string) (fs : list (string * fn)) : option fn :=
  match fs with
  | [] => None
  | (n, f) :: t => if String.eqb n name then Some f else lookup_fn name t
  end.

Fixpoint absent (name : string) (fs : list (string * fn)) : bool :=
  match fs with
  | [] => true
  | (n, _) :: t => andb (negb (String.eqb name n)) (absent name t)
  end.

Lemma split_lookup name : forall fs f, lookup_fn name fs = Some f ->
  fs = prefix_before name fs ++ (name, f) :: suffix_after name fs.
Proof.
  induction fs as [|[n g] t IH]; intros f H; cbn [lookup_fn prefix_before suffix_after] in *.
  - discriminate.
  - destruct (String.eqb n name) eqn:E.
    + apply String.eqb_eq in E. inversion H; subst. reflexivity.
    + cbn [app]. f_equal. apply IH. exact H.
Qed.

Section Link.
  Variable ge : genv.
  Variable fuel : nat.

  Lemma link_absent : forall fs fe name args, absent name fs = true ->
    link ge fuel fs fe name args = fe name args.
  Proof.
    induction fs as [|[n f] t IH]; intros fe name args H; cbn [link absent] in *.
    - reflexivity.
    - apply andb_true_iff in H as [H1 H2]. rewrite IH by exact H2.
      apply negb_true_iff in H1. rewrite H1. reflexivity.
  Qed.

  Lemma link_split : forall pre name f post fe args, absent name post = true ->
    link ge fuel (pre ++ (name, f) :: post) fe name args = run_fn ge (link ge fuel pre fe) fuel f args.
  Proof.
    induction pre as [|[n g] pre IH]; intros name f post fe args H; cbn [app link].
    - rewrite link_absent by exact H. rewrite String.eqb_refl. reflexivity.
    - apply IH. exact H.
  Qed.
End Link.

Definition env_in (p : program) (name : string) (fuel : nat) : fenv :=
  link (globals (p_globals p)) fuel (prefix_before name (p_fns p)) no_fns.

Lemma call_env p name f :
  lookup_fn name (p_fns p) = Some f ->
  absent name (suffix_after name (p_fns p)) = true ->
  forall fuel args,
    call p fuel name args = run_fn (globals (p_globals p)) (env_in p name fuel) fuel f args.
Proof.
  intros Hl Ha fuel args. unfold call, env_in.
  rewrite (split_lookup name (p_fns p) f Hl) at 1.
  apply link_split. exact Ha.
Qed.

Lemma env_call p name callee g :
  lookup_fn callee (prefix_before name (p_fns p)) = Some g ->
  lookup_fn callee (p_fns p) = Some g ->
  prefix_before callee (prefix_before name (p_fns p)) = prefix_before callee (p_fns p) ->
  absent callee (suffix_after callee (prefix_before name (p_fns p))) = true ->
  absent callee (suffix_after callee (p_fns p)) = true ->
  forall fuel args, env_in p name fuel callee args = call p fuel callee args.
Proof.
  intros H1 H2 H3 H4 H5 fuel args.
  rewrite (call_env p callee g H2 H5).
  unfold env_in at 1.
  rewrite (split_lookup callee _ g H1) at 1.
  rewrite link_split by exact H4.
  unfold env_in. rewrite H3. reflexivity.
Qed.

(* the same with a base environment of external functions (oracles) under the program *)
Definition call_with (p : program) (base : fenv) (fuel : nat) (f : string) (args : list val)
  : res (list val) :=
  link (globals (p_globals p)) fuel (p_fns p) base f args.

Definition env_in_with (p : program) (base : fenv) (name : string) (fuel : nat) : fenv :=
  link (globals (p_globals p)) fuel (prefix_before name (p_fns p)) base.

Lemma call_with_no_fns p fuel f args : call_with p no_fns fuel f args = call p fuel f args.
Proof. reflexivity. Qed.

Lemma call_env_with p base name f :
  lookup_fn name (p_fns p) = Some f ->
  absent name (suffix_after name (p_fns p)) = true ->
  forall fuel args,
    call_with p base fuel name args =
    run_fn (globals (p_globals p)) (env_in_with p base name fuel) fuel f args.
Proof.
  intros Hl Ha fuel args. unfold call_with, env_in_with.
  rewrite (split_lookup name (p_fns p) f Hl) at 1.
  apply link_split. exact Ha.
Qed.

Lemma env_call_with p base name callee g :
  lookup_fn callee (prefix_before name (p_fns p)) = Some g ->
  lookup_fn callee (p_fns p) = Some g ->
  prefix_before callee (prefix_before name (p_fns p)) = prefix_before callee (p_fns p) ->
  absent callee (suffix_after callee (prefix_before name (p_fns p))) = true ->
  absent callee (suffix_after callee (p_fns p)) = true ->
  forall fuel args, env_in_with p base name fuel callee args = call_with p base fuel callee args.
Proof.
  intros H1 H2 H3 H4 H5 fuel args.
  rewrite (call_env_with p base callee g H2 H5).
  unfold env_in_with at 1.
  rewrite (split_lookup callee _ g H1) at 1.
  rewrite link_split by exact H4.
  unfold env_in_with. rewrite H3. reflexivity.
Qed.

(* the three computational side conditions of [env_call_with] that concern the
   caller's prefix follow from the lookup of the callee in that prefix (checking
   them by computation is exponential in the caller's position) *)
Lemma absent_prefix c name : forall fs, absent c fs = true -> absent c (prefix_before name fs) = true.
Proof.
  induction fs as [|[n f] t IH]; intros H; cbn [absent prefix_before] in *; [reflexivity|].
  apply andb_true_iff in H as [H1 H2].
  destruct (String.eqb n name); [reflexivity|].
  cbn [absent]. rewrite H1, (IH H2). reflexivity.
Qed.

Lemma lookup_in_prefix name c : forall fs g,
  lookup_fn c (prefix_before name fs) = Some g ->
  lookup_fn c fs = Some g /\
  prefix_before c (prefix_before name fs) = prefix_before c fs /\
  (absent c (suffix_after c fs) = true -> absent c (suffix_after c (prefix_before name fs)) = true).
Proof.
  induction fs as [|[n f] t IH]; intros g H; cbn [prefix_before lookup_fn] in *; [discriminate|].
  destruct (String.eqb n name) eqn:E1; [discriminate|].
  cbn [lookup_fn prefix_before suffix_after] in *.
  destruct (String.eqb n c) eqn:E2.
  - split; [exact H|]. split; [reflexivity|]. apply absent_prefix.
  - destruct (IH g H) as (A & B & C). split; [exact A|]. split; [|exact C].
    rewrite B. reflexivity.
Qed.

Lemma env_call_with2 p base name c g :
  lookup_fn c (prefix_before name (p_fns p)) = Some g ->
  absent c (suffix_after c (p_fns p)) = true ->
  forall fuel args, env_in_with p base name fuel c args = call_with p base fuel c args.
Proof.
  intros H1 H5. destruct (lookup_in_prefix name c (p_fns p) g H1) as (H2 & H3 & H4).
  exact (env_call_with p base name c g H1 H2 H3 (H4 H5) H5).
Qed.

(* a name that is not a function of the program is looked up in the base environment *)
Lemma env_base p base name ext :
  absent ext (prefix_before name (p_fns p)) = true ->
  forall fuel args, env_in_with p base name fuel ext args = base ext args.
Proof. intros H fuel args. unfold env_in_with. apply link_absent. exact H. Qed.

(* the functions that use no external function do not see the base environment:
   for them [call_with] is [call] as soon as their callees' specifications hold
   in both; the per-function lemmas are therefore stated for an arbitrary [fe] *)
