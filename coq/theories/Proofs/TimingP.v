(* Proofs about Model/Timing.v: the computed delays meet Spec/TimingSpec.v for
   every rate, int64 arithmetic never overflows for the rates of the property,
   and the send-time machine keeps the inter-frame silence for every history
   and every clock behaviour. *)
From Modbus Require Import Base.Bytes Model.Timing Spec.TimingSpec.
From Coq Require Import ZifyBool ZifyNat ZifyN.
Ltac Zify.zify_post_hook ::= Z.div_mod_to_equations.
Local Open Scope Z_scope.

(* ------------------------------------------------------------ computation *)

(* Go's truncating division is the floor for the operands that occur here *)
Lemma char_time_div r : 0 < r -> char_time r = (11 * 1000000000) / r.
Proof. intros Hr. unfold char_time, second_ns. apply Z.quot_div_nonneg; lia. Qed.

Lemma char_time_nonneg r : 0 < r -> 0 <= char_time r.
Proof.
  intros Hr. rewrite char_time_div by exact Hr. apply Z.div_pos; lia.
Qed.

Lemma t35_low_div r : 0 < r -> r < 19200 -> t35 r = (char_time r * 35) / 10.
Proof.
  intros Hr Hlt. unfold t35.
  destruct (19200 <=? r) eqn:E; [lia|].
  apply Z.quot_div_nonneg; [|lia].
  pose proof (char_time_nonneg r Hr). lia.
Qed.

Lemma t35_high r : 19200 <= r -> t35 r = 1750000.
Proof. intros Hr. unfold t35. destruct (19200 <=? r) eqn:E; lia. Qed.

(* T1: eleven bit times, to the nanosecond *)
Lemma char_time_spec r : 1 <= r -> char_time_ok r (char_time r).
Proof.
  intros Hr. unfold char_time_ok, ns_per_s. rewrite char_time_div by lia.
  pose proof (Z.div_mod (11 * 1000000000) r ltac:(lia)) as Hdm.
  pose proof (Z.mod_pos_bound (11 * 1000000000) r ltac:(lia)) as Hb.
  set (c := 11 * 1000000000 / r) in *. set (m := (11 * 1000000000) mod r) in *.
  split; nia.
Qed.

Lemma char_time_floor r : 1 <= r ->
  11 * 1000000000 - r < char_time r * r /\ char_time r * r <= 11 * 1000000000.
Proof.
  intros Hr. destruct (char_time_spec r Hr) as [H1 H2]. unfold ns_per_s in *. split; lia.
Qed.

(* T2 *)
Lemma t35_spec r : 1 <= r -> t35_ok r (char_time r) (t35 r).
Proof.
  intros Hr. unfold t35_ok. split.
  - intros Hlt. rewrite t35_low_div by lia.
    pose proof (char_time_nonneg r ltac:(lia)). lia.
  - intros Hge. rewrite t35_high by exact Hge. reflexivity.
Qed.

Lemma t35_exact r : 1 <= r -> r < 19200 -> t35_exact_ok r (t35 r).
Proof.
  intros Hr Hlt. unfold t35_exact_ok, ns_per_s.
  destruct (char_time_floor r Hr) as [Hc1 Hc2].
  destruct (t35_spec r Hr) as [Hlow _]. destruct (Hlow Hlt) as [Hd1 Hd2].
  set (c := char_time r) in *. set (d := t35 r) in *.
  (* 10 d r <= 35 c r <= 35 A   and   10 d r > 35 c r - 10 r > 35 (A - r) - 10 r *)
  assert (H1 : 10 * d * r <= 35 * c * r) by nia.
  assert (H2 : 35 * c * r < 10 * (d + 1) * r) by nia.
  split; nia.
Qed.

Lemma timing_okb_sound r c d : timing_okb r c d = true <-> char_time_ok r c /\ t35_ok r c d.
Proof.
  unfold timing_okb, char_time_ok, t35_ok, ns_per_s.
  destruct (r <? 19200) eqn:E; lia.
Qed.

Lemma timing_model_ok r : 1 <= r -> timing_okb r (char_time r) (t35 r) = true.
Proof.
  intros Hr. apply timing_okb_sound. split; [apply char_time_spec | apply t35_spec]; exact Hr.
Qed.

(* the two rules determine the pair uniquely: any implementation whose numbers
   satisfy the specification computes exactly the model's numbers *)
Lemma timing_unique r c d : 1 <= r -> char_time_ok r c -> t35_ok r c d ->
  c = char_time r /\ d = t35 r.
Proof.
  intros Hr [Hc1 Hc2] [Hlo Hhi].
  destruct (char_time_spec r Hr) as [Hm1 Hm2].
  assert (Hc : c = char_time r) by nia.
  split; [exact Hc|]. subst c.
  destruct (t35_spec r Hr) as [Mlo Mhi].
  destruct (Z_lt_ge_dec r 19200) as [Hlt|Hge].
  - specialize (Hlo Hlt). specialize (Mlo Hlt). lia.
  - rewrite (Hhi ltac:(lia)), (Mhi ltac:(lia)). reflexivity.
Qed.

(* int64: every intermediate value of the Go computation stays in range, so
   the unbounded integers of the model are the values the machine computes *)
Definition int64_max : Z := 9223372036854775807.

Lemma timing_no_overflow r : 1 <= r -> r <= 10000000 ->
  11 * second_ns <= int64_max /\ r <= int64_max /\
  0 <= char_time r <= int64_max /\
  0 <= char_time r * 35 <= int64_max /\
  0 <= t35 r <= int64_max /\
  (forall n, 0 <= n <= 256 -> 0 <= n * char_time r <= int64_max).
Proof.
  intros H1 H2. unfold int64_max, second_ns.
  assert (Hc : 0 <= char_time r <= 11000000000).
  { rewrite char_time_div by lia. split; [apply Z.div_pos; lia|].
    apply Z.div_le_upper_bound; nia. }
  assert (Ht : 0 <= t35 r <= 38500000000).
  { unfold t35. destruct (19200 <=? r); [lia|].
    rewrite Z.quot_div_nonneg by lia. lia. }
  repeat split; try lia; nia.
Qed.

(* both delays are strictly positive for the rates of the property *)
Lemma timing_pos r : 1 <= r -> r <= 10000000 -> 1100 <= char_time r /\ 3850 <= t35 r.
Proof.
  intros H1 H2.
  assert (Hc : 1100 <= char_time r).
  { rewrite char_time_div by lia. apply Z.div_le_lower_bound; lia. }
  split; [exact Hc|].
  unfold t35. destruct (19200 <=? r); [lia|].
  rewrite Z.quot_div_nonneg by lia. lia.
Qed.

(* ------------------------------------------------------- send-time machine *)

Lemma exchange_facts t1 t35 s x s' e :
  0 <= t1 -> 0 <= t35 -> admissible x -> exchange t1 t35 s x = (s', e) ->
  (* the request starts at least t35 after the recorded end of the last frame *)
  last_activity s + t35 <= ev_tx_start e /\
  (* the recorded end of the last frame never moves backwards *)
  last_activity s <= last_activity s' /\
  (* and covers the end of this exchange's frame *)
  (forall f, frame_end e = Some f -> f <= last_activity s') /\
  (* the clock is monotone *)
  clock s <= clock s'.
Proof.
  intros Ht1 Ht35 (Hn & He & Hs1 & Hw & Hwr & Hs2 & Hr & Hrx & Hst) Hex.
  unfold exchange, sleep in Hex.
  assert (Hnt : 0 <= x_n x * t1) by nia.
  remember (x_n x * t1) as nt eqn:Ent.
  destruct (x_out x) eqn:Eo; inversion Hex; subst s' e; clear Hex;
    unfold frame_end; cbn [ev_out ev_tx_start ev_tx_end ev_rx_end last_activity clock];
    (repeat split; [| | intros f Hf; inversion Hf; subst f |]);
    destruct (clock s + x_enter x - (last_activity s + t35) <? 0) eqn:E; lia.
Qed.

(* the invariant, by induction over the history: every transmission of the
   rest of the history starts at least t35 after any instant the state
   records as not later than last_activity *)
Lemma run_after t1 t35 xs : 0 <= t1 -> 0 <= t35 -> Forall admissible xs ->
  forall s, Forall (fun e => last_activity s + t35 <= ev_tx_start e) (run t1 t35 s xs).
Proof.
  intros Ht1 Ht35 Hadm. induction Hadm as [|x xs Hx _ IH]; intros s; cbn [run]; [constructor|].
  destruct (exchange t1 t35 s x) as [s' e] eqn:Ex.
  destruct (exchange_facts t1 t35 s x s' e Ht1 Ht35 Hx Ex) as (Hstart & Hmono & _ & _).
  constructor; [exact Hstart|].
  eapply Forall_impl; [|apply IH]. cbn beta. intros e' He'. lia.
Qed.

(* T3, all pairs: a request never starts earlier than t35 after the recorded
   end of ANY earlier frame of the history *)
Lemma run_silence t1 t35 xs : 0 <= t1 -> 0 <= t35 -> Forall admissible xs ->
  forall s, ForallOrdPairs
    (fun e1 e2 => forall f, frame_end e1 = Some f -> f + t35 <= ev_tx_start e2)
    (run t1 t35 s xs).
Proof.
  intros Ht1 Ht35 Hadm. induction Hadm as [|x xs Hx Hxs IH]; intros s; cbn [run]; [constructor|].
  destruct (exchange t1 t35 s x) as [s' e] eqn:Ex.
  destruct (exchange_facts t1 t35 s x s' e Ht1 Ht35 Hx Ex) as (_ & _ & Hend & _).
  constructor; [|apply IH].
  eapply Forall_impl; [|apply (run_after t1 t35 xs Ht1 Ht35 Hxs s')].
  cbn beta. intros e' He' f Hf. specialize (Hend f Hf). lia.
Qed.

(* T3, consecutive exchanges, by position in the history *)
Lemma ordpairs_nth {A} (R : A -> A -> Prop) l : ForallOrdPairs R l ->
  forall i j a b, (i < j)%nat -> nth_error l i = Some a -> nth_error l j = Some b -> R a b.
Proof.
  induction 1 as [|x l Hx _ IH]; intros i j a b Hij Ha Hb.
  - destruct i; discriminate.
  - destruct j as [|j]; [lia|]. cbn [nth_error] in Hb.
    destruct i as [|i]; cbn [nth_error] in Ha.
    + inversion Ha; subst x. rewrite Forall_forall in Hx. apply Hx.
      eapply nth_error_In; exact Hb.
    + eapply IH; [|exact Ha|exact Hb]. lia.
Qed.

Lemma run_silence_nth t1 t35 xs s i j e1 e2 f :
  0 <= t1 -> 0 <= t35 -> Forall admissible xs -> (i < j)%nat ->
  nth_error (run t1 t35 s xs) i = Some e1 -> nth_error (run t1 t35 s xs) j = Some e2 ->
  frame_end e1 = Some f -> f + t35 <= ev_tx_start e2.
Proof.
  intros Ht1 Ht35 Hadm Hij H1 H2 Hf.
  exact (ordpairs_nth _ _ (run_silence t1 t35 xs Ht1 Ht35 Hadm s) i j e1 e2 Hij H1 H2 f Hf).
Qed.

(* the run has one event per exchange, with the prescribed outcome *)
Lemma run_outcomes t1 t35 xs : forall s, map ev_out (run t1 t35 s xs) = map x_out xs.
Proof.
  induction xs as [|x xs IH]; intros s; cbn [run map]; [reflexivity|].
  destruct (exchange t1 t35 s x) as [s' e] eqn:Ex. cbn [map]. rewrite IH. f_equal.
  unfold exchange in Ex. destruct (x_out x); inversion Ex; reflexivity.
Qed.

(* the instant called rx_end is not later than the instant the code stamps,
   and the reply is heard after the request went out: the events are
   physically meaningful *)
Lemma exchange_heard t1 t35 s x s' e :
  0 <= t1 -> 0 <= t35 -> admissible x -> x_out x = Heard -> exchange t1 t35 s x = (s', e) ->
  frame_end e = Some (ev_rx_end e) /\ ev_rx_end e <= last_activity s' /\
  last_activity s' = clock s' /\ ev_tx_end e + t35 <= clock s'.
Proof.
  intros Ht1 Ht35 (Hn & He & Hs1 & Hw & Hwr & Hs2 & Hr & Hrx & Hst) Ho Hex.
  unfold exchange, sleep in Hex. rewrite Ho in Hex. inversion Hex; subst s' e; clear Hex.
  unfold frame_end. cbn [ev_out ev_tx_start ev_tx_end ev_rx_end last_activity clock].
  remember (x_n x * t1) as nt.
  repeat split; destruct (clock s + x_enter x - (last_activity s + t35) <? 0); lia.
Qed.

(* ------------------------------------------- statements in the property's form *)

Lemma char_time_range : forall r, 1 <= r -> r <= 10000000 ->
  char_time r = (11 * 1000000000) / r /\
  11 * 1000000000 - r < char_time r * r /\ char_time r * r <= 11 * 1000000000.
Proof.
  intros r H1 _. split; [apply char_time_div; lia | apply char_time_floor; exact H1].
Qed.

Lemma char_time_spec_range : forall r, 1 <= r -> r <= 10000000 -> char_time_ok r (char_time r).
Proof. intros r H1 _. exact (char_time_spec r H1). Qed.

Lemma t35_low : forall r, 1 <= r -> r < 19200 ->
  t35 r = (char_time r * 35) / 10 /\
  10 * t35 r <= 35 * char_time r /\ 35 * char_time r < 10 * t35 r + 10.
Proof.
  intros r H1 H2. split; [apply t35_low_div; lia|].
  destruct (t35_spec r H1) as [Hlow _]. specialize (Hlow H2). lia.
Qed.

Lemma t35_high_range : forall r, 19200 <= r -> r <= 10000000 -> t35 r = 1750 * 1000.
Proof. intros r H1 _. exact (t35_high r H1). Qed.

Lemma t35_spec_range : forall r, 1 <= r -> r <= 10000000 -> t35_ok r (char_time r) (t35 r).
Proof. intros r H1 _. exact (t35_spec r H1). Qed.

Lemma run_silence_all : forall t1 t35 xs s, 0 <= t1 -> 0 <= t35 -> Forall admissible xs ->
  ForallOrdPairs
    (fun e1 e2 => forall f, frame_end e1 = Some f -> f + t35 <= ev_tx_start e2)
    (run t1 t35 s xs).
Proof. intros. apply run_silence; assumption. Qed.

Lemma run_silence_rate : forall r xs s i j e1 e2 f,
  1 <= r -> r <= 10000000 -> Forall admissible xs -> (i < j)%nat ->
  nth_error (run (char_time r) (t35 r) s xs) i = Some e1 ->
  nth_error (run (char_time r) (t35 r) s xs) j = Some e2 ->
  frame_end e1 = Some f -> f + t35 r <= ev_tx_start e2.
Proof.
  intros r xs s i j e1 e2 f H1 H2 Hadm Hij Hi Hj Hf.
  destruct (timing_pos r H1 H2) as [Hc Ht].
  eapply run_silence_nth; try eassumption; lia.
Qed.

Lemma run_outcomes_all : forall t1 t35 xs s, map ev_out (run t1 t35 s xs) = map x_out xs.
Proof. intros. apply run_outcomes. Qed.
