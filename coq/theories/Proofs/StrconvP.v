(* Proofs about Model/Strconv.v: the integer parsers accept exactly Go's
   integer literal syntax (Spec/StrconvSpec.v) and return the denoted value,
   range refusal exactly beyond the bounds, signs, canonical round trips. *)
From Modbus Require Import Base.Bytes Base.Enum Model.Strconv Spec.StrconvSpec.
From Coq Require Import ZifyBool ZifyNat ZifyN.
Ltac Zify.zify_post_hook ::= Z.div_mod_to_equations.

(* ------------------------------------------------------------ characters *)

Definition sc_digit_lt (base c : N) : bool :=
  match sc_digit c with Some d => d <? base | None => false end.

Definition char_bridge_b (c : N) : bool :=
  Bool.eqb (sc_digit_lt 2 c) (sl_is_bin c) && Bool.eqb (sc_digit_lt 8 c) (sl_is_oct c)
  && Bool.eqb (sc_digit_lt 10 c) (sl_is_dec c) && Bool.eqb (sc_digit_lt 16 c) (sl_is_hex c)
  && (match sc_digit c with
      | Some d => if sl_is_hex c then d =? sl_val c else true
      | None => negb (sl_is_hex c)
      end)
  && Bool.eqb (sc_lower c =? 98) ((c =? 98) || (c =? 66))
  && Bool.eqb (sc_lower c =? 111) ((c =? 111) || (c =? 79))
  && Bool.eqb (sc_lower c =? 120) ((c =? 120) || (c =? 88))
  && Bool.eqb (((48 <=? c) && (c <=? 57)) || ((97 <=? sc_lower c) && (sc_lower c <=? 102))) (sl_is_hex c).

Lemma char_bridge_all : forallb char_bridge_b bytes_all = true.
Proof. vm_cast_no_check (eq_refl true). Qed.

Lemma char_bridge c : c < 256 -> char_bridge_b c = true.
Proof. apply (forall_bytes char_bridge_b char_bridge_all). Qed.

Lemma digit_lt_bin c : c < 256 -> sc_digit_lt 2 c = sl_is_bin c.
Proof. intros H. pose proof (char_bridge c H) as B. unfold char_bridge_b in B.
  repeat (apply andb_true_iff in B as [B ?]). apply eqb_prop. assumption. Qed.
Lemma digit_lt_oct c : c < 256 -> sc_digit_lt 8 c = sl_is_oct c.
Proof. intros H. pose proof (char_bridge c H) as B. unfold char_bridge_b in B.
  repeat (apply andb_true_iff in B as [B ?]). apply eqb_prop. assumption. Qed.
Lemma digit_lt_dec c : c < 256 -> sc_digit_lt 10 c = sl_is_dec c.
Proof. intros H. pose proof (char_bridge c H) as B. unfold char_bridge_b in B.
  repeat (apply andb_true_iff in B as [B ?]). apply eqb_prop. assumption. Qed.
Lemma digit_lt_hex c : c < 256 -> sc_digit_lt 16 c = sl_is_hex c.
Proof. intros H. pose proof (char_bridge c H) as B. unfold char_bridge_b in B.
  repeat (apply andb_true_iff in B as [B ?]). apply eqb_prop. assumption. Qed.
Lemma digit_val c : c < 256 -> sl_is_hex c = true -> sc_digit c = Some (sl_val c).
Proof. intros H Hh. pose proof (char_bridge c H) as B. unfold char_bridge_b in B.
  repeat (apply andb_true_iff in B as [B ?]).
  destruct (sc_digit c) as [d|]; rewrite Hh in *; [|discriminate].
  f_equal. lia. Qed.
Lemma lower_b c : c < 256 -> (sc_lower c =? 98) = ((c =? 98) || (c =? 66)).
Proof. intros H. pose proof (char_bridge c H) as B. unfold char_bridge_b in B.
  repeat (apply andb_true_iff in B as [B ?]). apply eqb_prop. assumption. Qed.
Lemma lower_o c : c < 256 -> (sc_lower c =? 111) = ((c =? 111) || (c =? 79)).
Proof. intros H. pose proof (char_bridge c H) as B. unfold char_bridge_b in B.
  repeat (apply andb_true_iff in B as [B ?]). apply eqb_prop. assumption. Qed.
Lemma lower_x c : c < 256 -> (sc_lower c =? 120) = ((c =? 120) || (c =? 88)).
Proof. intros H. pose proof (char_bridge c H) as B. unfold char_bridge_b in B.
  repeat (apply andb_true_iff in B as [B ?]). apply eqb_prop. assumption. Qed.
Lemma uok_test_hex c : c < 256 ->
  ((48 <=? c) && (c <=? 57)) || ((97 <=? sc_lower c) && (sc_lower c <=? 102)) = sl_is_hex c.
Proof. intros H. pose proof (char_bridge c H) as B. unfold char_bridge_b in B.
  repeat (apply andb_true_iff in B as [B ?]). apply eqb_prop. assumption. Qed.

(* ------------------------------------------------------------ the digit loop *)

Definition sc_body_ok (base : N) (body : list N) : bool :=
  forallb (fun c => (c =? 95) || sc_digit_lt base c) body.

Definition sc_has_us (body : list N) : bool := existsb (fun c => c =? 95) body.

Definition sc_dval (c : N) : N := match sc_digit c with Some d => d | None => 0 end.

Definition sc_fold_val (base : N) (body : list N) (n : N) : N :=
  fold_left (fun acc c => if c =? 95 then acc else acc * base + sc_dval c) body n.

Lemma fold_val_ge base body n : 1 <= base -> n <= sc_fold_val base body n.
Proof.
  intros Hb. revert n. induction body as [|c t IH]; intros n; cbn [sc_fold_val fold_left].
  - lia.
  - unfold sc_fold_val in IH. destruct (c =? 95).
    + apply IH.
    + etransitivity; [|apply IH]. nia.
Qed.

(* a successful loop saw only digits of the base and underscores, and its flag
   tells whether there were underscores *)
Lemma loop_ok_inv base cutoff maxv body : forall n us v us',
  sc_loop base cutoff maxv body n us = (ScOk v, us') ->
  sc_body_ok base body = true /\ us' = us || sc_has_us body.
Proof.
  induction body as [|c t IH]; intros n us v us' H; cbn [sc_loop] in H.
  - inversion H; subst. cbn. split; [reflexivity|]. now rewrite orb_false_r.
  - cbn [sc_body_ok forallb sc_has_us existsb]. unfold sc_digit_lt.
    destruct (c =? 95) eqn:E95.
    + apply IH in H as [H1 H2]. split; [exact H1|]. rewrite H2. cbn. now rewrite orb_true_r.
    + destruct (sc_digit c) as [d|]; [|discriminate].
      destruct (base <=? d) eqn:Ebd; [discriminate|].
      destruct (cutoff <=? n); [discriminate|].
      match type of H with (if ?b then _ else _) = _ => destruct b; [discriminate|] end.
      apply IH in H as [H1 H2]. split.
      * cbn. replace (d <? base) with true by lia. exact H1.
      * exact H2.
Qed.

Definition sc_known_base (base : N) : Prop := base = 2 \/ base = 8 \/ base = 10 \/ base = 16.

(* on digits of the base and underscores the loop computes the positional
   value, with a range error exactly when it exceeds maxv *)
Lemma loop_value base maxv body : sc_known_base base -> maxv < 18446744073709551616 ->
  sc_body_ok base body = true ->
  forall n us, n <= maxv ->
  let r := sc_loop base (sc_max_u64 / base + 1) maxv body n us in
  fst r = (if sc_fold_val base body n <=? maxv then ScOk (sc_fold_val base body n) else ScRange) /\
  (sc_fold_val base body n <= maxv -> snd r = us || sc_has_us body).
Proof.
  intros Hb Hm. induction body as [|c t IH]; intros Hok n us Hn; cbn [sc_loop sc_fold_val fold_left].
  - cbn. replace (n <=? maxv) with true by lia. split; [reflexivity|]. intros _. now rewrite orb_false_r.
  - cbn [sc_body_ok forallb] in Hok. apply andb_true_iff in Hok as [Hc Hok].
    specialize (IH Hok). cbn [sc_has_us existsb].
    destruct (c =? 95) eqn:E95.
    + specialize (IH n true Hn). cbn zeta in IH. destruct IH as [I1 I2]. split; [exact I1|].
      intros Hle. rewrite (I2 Hle). cbn. now rewrite orb_true_r.
    + cbn [orb] in Hc. unfold sc_digit_lt in Hc.
      destruct (sc_digit c) as [d|] eqn:Ed; [|discriminate].
      assert (Hdv : sc_dval c = d) by (unfold sc_dval; rewrite Ed; reflexivity).
      rewrite Hdv.
      assert (Hd : d < base) by lia.
      replace (base <=? d) with false by lia.
      change (fold_left _ t (n * base + d)) with (sc_fold_val base t (n * base + d)).
      assert (Hmono := fold_val_ge base t (n * base + d)).
      assert (Hb1 : 1 <= base) by (destruct Hb as [-> | [-> | [-> | ->]]]; lia).
      specialize (Hmono Hb1).
      destruct (sc_max_u64 / base + 1 <=? n) eqn:Ecut.
      * (* n * base does not fit 64 bits *)
        assert (maxv < n * base + d).
        { unfold sc_max_u64 in Ecut. destruct Hb as [-> | [-> | [-> | ->]]]; lia. }
        replace (sc_fold_val base t (n * base + d) <=? maxv) with false by lia.
        cbn. split; [reflexivity|]. intros; lia.
      * assert (Hnb : n * base <= 18446744073709551615).
        { unfold sc_max_u64 in Ecut. destruct Hb as [-> | [-> | [-> | ->]]]; lia. }
        assert (Hd16 : d < 16) by (destruct Hb as [-> | [-> | [-> | ->]]]; lia).
        destruct (((n * base + d) mod 18446744073709551616 <? n * base)
                  || (maxv <? (n * base + d) mod 18446744073709551616)) eqn:Er.
        -- assert (maxv < n * base + d) by lia.
           replace (sc_fold_val base t (n * base + d) <=? maxv) with false by lia.
           cbn. split; [reflexivity|]. intros; lia.
        -- assert (Heq : (n * base + d) mod 18446744073709551616 = n * base + d) by lia.
           rewrite Heq.
           assert (Hn1 : n * base + d <= maxv) by lia.
           specialize (IH (n * base + d) us Hn1). cbn zeta in IH. exact IH.
Qed.

(* ------------------------------------------------------------ underscores *)

Definition sc_uok_test (hex : bool) (c : N) : bool :=
  ((48 <=? c) && (c <=? 57)) || (hex && (97 <=? sc_lower c) && (sc_lower c <=? 102)).

Lemma uok_test_95 hex : sc_uok_test hex 95 = false.
Proof. destruct hex; vm_compute; reflexivity. Qed.

(* digits separated by single underscores, each followed by a digit *)
Lemma sep_digits_all isd body :
  forallb isd body = true -> sl_sep_digits isd body = true.
Proof.
  induction body as [|c t IH]; cbn [forallb sl_sep_digits]; [reflexivity|].
  intros H. apply andb_true_iff in H as [-> H]. auto.
Qed.

Lemma sep_digits_chars isd body :
  sl_sep_digits isd body = true -> forallb (fun c => (c =? 95) || isd c) body = true.
Proof.
  induction body as [|c t IH]; cbn [forallb sl_sep_digits]; [reflexivity|].
  destruct (isd c) eqn:Ec.
  - intros H. rewrite orb_true_r. cbn. auto.
  - destruct (c =? 95); [|discriminate]. destruct t as [|d t']; [discriminate|].
    intros H. apply andb_true_iff in H as [Hd H]. cbn [orb andb]. apply IH.
    cbn [sl_sep_digits]. rewrite Hd. exact H.
Qed.

(* underscoreOK's scan on a digit part = the grammar's { ["_"] digit } *)
Lemma uok_sep hex isd body :
  (forall c, isd c = true -> sc_uok_test hex c = true) ->
  forallb (fun c => (c =? 95) || isd c) body = true ->
  sc_uok_loop hex body SawDigit = sl_sep_digits isd body /\
  sc_uok_loop hex body SawUnder =
    match body with d :: t => isd d && sl_sep_digits isd t | [] => false end.
Proof.
  intros Hd. induction body as [|c t IH]; intros Hok; cbn [sc_uok_loop sl_sep_digits].
  - split; reflexivity.
  - cbn [forallb] in Hok. apply andb_true_iff in Hok as [Hc Hok]. destruct (IH Hok) as [I1 I2].
    fold (sc_uok_test hex c).
    destruct (isd c) eqn:Ec.
    + rewrite (Hd c Ec). split; [exact I1|]. cbn. exact I1.
    + rewrite orb_false_r in Hc. apply N.eqb_eq in Hc. subst c.
      rewrite uok_test_95. cbn [N.eqb Pos.eqb andb]. split; [|reflexivity].
      rewrite I2. reflexivity.
Qed.

Lemma no_us_all base body :
  sc_body_ok base body = true -> sc_has_us body = false ->
  forallb (sc_digit_lt base) body = true.
Proof.
  induction body as [|c t IH]; cbn [sc_body_ok forallb sc_has_us existsb]; [reflexivity|].
  intros H1 H2. apply orb_false_iff in H2 as [E H2]. rewrite E in H1. cbn [orb] in H1.
  apply andb_true_iff in H1 as [-> H1]. cbn. apply IH; assumption.
Qed.

Lemma forallb_ext_in {A} (f g : A -> bool) l :
  (forall x, In x l -> f x = g x) -> forallb f l = forallb g l.
Proof.
  induction l as [|x t IH]; cbn; [reflexivity|]. intros H. rewrite (H x (or_introl eq_refl)).
  f_equal. apply IH. intros y Hy. apply H. now right.
Qed.

Lemma fold_left_ext_in {A B} (f g : A -> B -> A) l : forall a,
  (forall a x, In x l -> f a x = g a x) -> fold_left f l a = fold_left g l a.
Proof.
  induction l as [|x t IH]; cbn; [reflexivity|]. intros a H. rewrite (H a x (or_introl eq_refl)).
  apply IH. intros b y Hy. apply H. now right.
Qed.

Lemma bytes_in s c : bytesb s = true -> In c s -> c < 256.
Proof. intros H Hin. apply bytesb_Forall in H. rewrite Forall_forall in H. exact (H c Hin). Qed.

(* ------------------------------------------------------------ digit classes *)

Definition isd_of (base : N) : N -> bool :=
  if base =? 2 then sl_is_bin else if base =? 8 then sl_is_oct
  else if base =? 10 then sl_is_dec else sl_is_hex.

Lemma isd_bridge base c : sc_known_base base -> c < 256 -> sc_digit_lt base c = isd_of base c.
Proof.
  intros [-> | [-> | [-> | ->]]] H; unfold isd_of; cbn [N.eqb Pos.eqb].
  - apply digit_lt_bin, H.
  - apply digit_lt_oct, H.
  - apply digit_lt_dec, H.
  - apply digit_lt_hex, H.
Qed.

Lemma isd_hex base c : sc_known_base base -> isd_of base c = true -> sl_is_hex c = true.
Proof.
  intros [-> | [-> | [-> | ->]]]; unfold isd_of; cbn [N.eqb Pos.eqb];
    unfold sl_is_hex, sl_is_dec, sl_is_bin, sl_is_oct; lia.
Qed.

Lemma isd_not_95 base c : sc_known_base base -> isd_of base c = true -> (c =? 95) = false.
Proof.
  intros Hb H. apply (isd_hex _ _ Hb) in H. unfold sl_is_hex, sl_is_dec in H. lia.
Qed.

Lemma isd_uok base c : sc_known_base base -> c < 256 ->
  isd_of base c = true -> sc_uok_test (base =? 16) c = true.
Proof.
  intros Hb Hc H. destruct (N.eq_dec base 16) as [->|Hne].
  - unfold isd_of in H. cbn [N.eqb Pos.eqb] in H. unfold sc_uok_test. cbn [N.eqb Pos.eqb andb].
    rewrite (uok_test_hex c Hc). exact H.
  - replace (base =? 16) with false by lia. unfold sc_uok_test. cbn [andb]. rewrite orb_false_r.
    destruct Hb as [-> | [-> | [-> | ->]]]; [| | |lia]; unfold isd_of in H; cbn [N.eqb Pos.eqb] in H;
      unfold sl_is_dec, sl_is_bin, sl_is_oct in *; lia.
Qed.

Lemma body_ok_bridge base body : sc_known_base base -> bytesb body = true ->
  sc_body_ok base body = forallb (fun c => (c =? 95) || isd_of base c) body.
Proof.
  intros Hb Hby. unfold sc_body_ok. apply forallb_ext_in. intros c Hc.
  rewrite (isd_bridge base c Hb (bytes_in body c Hby Hc)). reflexivity.
Qed.

Lemma fold_val_spec base body : sc_known_base base -> bytesb body = true ->
  forallb (fun c => (c =? 95) || isd_of base c) body = true ->
  sc_fold_val base body 0 = sl_digits_value base body.
Proof.
  intros Hb Hby Hok. unfold sc_fold_val, sl_digits_value. apply fold_left_ext_in.
  intros a c Hc. destruct (c =? 95) eqn:E; [reflexivity|].
  rewrite forallb_forall in Hok. specialize (Hok c Hc). rewrite E in Hok. cbn [orb] in Hok.
  unfold sc_dval. rewrite (digit_val c (bytes_in body c Hby Hc) (isd_hex base c Hb Hok)). reflexivity.
Qed.

Lemma pow2_bounds bits : 1 <= bits <= 64 -> 2 <= 2 ^ bits <= 18446744073709551616.
Proof.
  intros [H1 H2]. split.
  - change 2 with (2 ^ 1) at 1. apply N.pow_le_mono_r; lia.
  - change 18446744073709551616 with (2 ^ 64). apply N.pow_le_mono_r; lia.
Qed.

(* the parser on a string whose base and digit part are known *)
Lemma parse_assemble bits s base body :
  s <> [] -> sc_base_of s = (base, body) -> sc_known_base base -> bytesb body = true ->
  1 <= bits <= 64 ->
  sl_sep_digits (isd_of base) body = true ->
  (sc_has_us body = true -> sc_underscore_ok s = true) ->
  sc_parse_uint bits s =
    if sl_digits_value base body <? 2 ^ bits then ScOk (sl_digits_value base body) else ScRange.
Proof.
  intros Hne Hbase Hb Hby Hbits Hsep Hus.
  unfold sc_parse_uint. destruct s as [|c0 t0]; [congruence|]. rewrite Hbase.
  pose proof (pow2_bounds bits Hbits) as Hp. remember (2 ^ bits) as P eqn:HP.
  assert (Hchars := sep_digits_chars _ _ Hsep).
  assert (Hok : sc_body_ok base body = true) by (rewrite body_ok_bridge; assumption).
  assert (Hm : P - 1 < 18446744073709551616) by lia.
  destruct (loop_value base (P - 1) body Hb Hm Hok 0 false ltac:(lia)) as [L1 L2].
  rewrite (fold_val_spec base body Hb Hby Hchars) in L1, L2.
  destruct (sc_loop base (sc_max_u64 / base + 1) (P - 1) body 0 false) as [r us].
  cbn [fst snd] in L1, L2. subst r.
  destruct (sl_digits_value base body <? P) eqn:Ev.
  - replace (sl_digits_value base body <=? P - 1) with true by lia.
    rewrite (L2 ltac:(lia)). cbn [orb].
    destruct (sc_has_us body) eqn:Eu; [|reflexivity]. rewrite (Hus eq_refl). reflexivity.
  - replace (sl_digits_value base body <=? P - 1) with false by lia. reflexivity.
Qed.

(* ------------------------------------------------------------ literals are parsed *)

Lemma bytesb_cons c t : bytesb (c :: t) = true -> c < 256 /\ bytesb t = true.
Proof. unfold bytesb, is_byte. cbn [forallb]. intros H. apply andb_true_iff in H as [H1 H2]. split; [lia|exact H2]. Qed.

Lemma digits1_sep isd s : sl_digits1 isd s = true -> s <> [] /\ sl_sep_digits isd s = true.
Proof. destruct s; cbn; [discriminate|]. intros H. split; [discriminate|exact H]. Qed.

(* 0b / 0o / 0x literals *)
Lemma parse_prefixed bits c1 t' base :
  c1 < 256 -> bytesb t' = true -> 1 <= bits <= 64 -> sc_known_base base ->
  sc_base_of (48 :: c1 :: t') = (base, t') ->
  sc_is_prefix_letter c1 = true -> (sc_lower c1 =? 120) = (base =? 16) ->
  sl_sep_digits (isd_of base) t' = true ->
  sc_parse_uint bits (48 :: c1 :: t') =
    if sl_digits_value base t' <? 2 ^ bits then ScOk (sl_digits_value base t') else ScRange.
Proof.
  intros Hc1 Hby Hbits Hb Hbase Hpl Hx Hsep.
  apply parse_assemble; try assumption; [discriminate|].
  intros _. unfold sc_underscore_ok. cbn [N.eqb Pos.eqb orb andb]. rewrite Hpl. rewrite Hx.
  assert (Hchars := sep_digits_chars _ _ Hsep).
  destruct (uok_sep (base =? 16) (isd_of base) t') as [U _]; [|exact Hchars|].
  - intros c Hc. unfold sc_uok_test.
    (* digits of the base are digits for underscoreOK *)
    destruct (N.lt_ge_cases c 256) as [Hlt|Hge].
    + exact (isd_uok base c Hb Hlt Hc).
    + apply (isd_hex base c Hb) in Hc. unfold sl_is_hex, sl_is_dec in Hc. lia.
  - rewrite U. exact Hsep.
Qed.

Theorem parse_uint_literal bits s :
  1 <= bits <= 64 -> bytesb s = true -> sl_int_lit s = true ->
  sc_parse_uint bits s = if sl_value s <? 2 ^ bits then ScOk (sl_value s) else ScRange.
Proof.
  intros Hbits Hby Hlit. pose proof (pow2_bounds bits Hbits) as Hp.
  destruct s as [|c0 t]; [discriminate|]. cbn [sl_int_lit] in Hlit.
  apply bytesb_cons in Hby as [Hc0 Hbt].
  destruct (c0 =? 48) eqn:E0.
  - apply N.eqb_eq in E0. subst c0.
    destruct t as [|c1 t'].
    + (* "0" *) vm_compute sl_value. unfold sc_parse_uint. cbn.
      replace (0 <? 2 ^ bits) with true by lia. reflexivity.
    + apply bytesb_cons in Hbt as [Hc1 Hbt'].
      unfold sl_value, sl_base_body. cbn [N.eqb Pos.eqb].
      destruct ((c1 =? 98) || (c1 =? 66)) eqn:Eb.
      { apply digits1_sep in Hlit as [Hne Hsep]. destruct t' as [|c2 t'']; [congruence|].
        apply (parse_prefixed bits c1 (c2 :: t'') 2); try assumption.
        - left; reflexivity.
        - unfold sc_base_of. cbn [N.eqb Pos.eqb]. rewrite (lower_b c1 Hc1), Eb. reflexivity.
        - unfold sc_is_prefix_letter. rewrite (lower_b c1 Hc1), Eb. reflexivity.
        - rewrite (lower_x c1 Hc1). cbn [N.eqb Pos.eqb]. lia. }
      destruct ((c1 =? 111) || (c1 =? 79)) eqn:Eo.
      { apply digits1_sep in Hlit as [Hne Hsep]. destruct t' as [|c2 t'']; [congruence|].
        apply (parse_prefixed bits c1 (c2 :: t'') 8); try assumption.
        - right; left; reflexivity.
        - unfold sc_base_of. cbn [N.eqb Pos.eqb]. rewrite (lower_b c1 Hc1), Eb, (lower_o c1 Hc1), Eo. reflexivity.
        - unfold sc_is_prefix_letter. rewrite (lower_o c1 Hc1), Eo. now rewrite orb_true_r.
        - rewrite (lower_x c1 Hc1). cbn [N.eqb Pos.eqb]. lia. }
      destruct ((c1 =? 120) || (c1 =? 88)) eqn:Ex.
      { apply digits1_sep in Hlit as [Hne Hsep]. destruct t' as [|c2 t'']; [congruence|].
        apply (parse_prefixed bits c1 (c2 :: t'') 16); try assumption.
        - right; right; right; reflexivity.
        - unfold sc_base_of. cbn [N.eqb Pos.eqb].
          rewrite (lower_b c1 Hc1), Eb, (lower_o c1 Hc1), Eo, (lower_x c1 Hc1), Ex. reflexivity.
        - unfold sc_is_prefix_letter. rewrite (lower_x c1 Hc1), Ex. now rewrite !orb_true_r.
        - rewrite (lower_x c1 Hc1), Ex. reflexivity. }
      (* "0" [ "_" ] octal_digits *)
      apply parse_assemble; try assumption.
      * discriminate.
      * unfold sc_base_of. cbn [N.eqb Pos.eqb].
        destruct t' as [|c2 t'']; [reflexivity|].
        rewrite (lower_b c1 Hc1), Eb, (lower_o c1 Hc1), Eo, (lower_x c1 Hc1), Ex. reflexivity.
      * right; left; reflexivity.
      * unfold bytesb, is_byte in *. cbn [forallb]. rewrite Hbt'. replace (c1 <? 256) with true by lia. reflexivity.
      * intros _. unfold sc_underscore_ok. cbn [N.eqb Pos.eqb orb andb].
        replace (sc_is_prefix_letter c1) with false
          by (unfold sc_is_prefix_letter; rewrite (lower_b c1 Hc1), Eb, (lower_o c1 Hc1), Eo, (lower_x c1 Hc1), Ex; reflexivity).
        cbn [sc_uok_loop N.leb N.compare Pos.compare Pos.compare_cont andb orb].
        assert (Hchars := sep_digits_chars _ _ Hlit).
        destruct (uok_sep false sl_is_oct (c1 :: t')) as [U _]; [|exact Hchars|].
        { intros c Hc. unfold sc_uok_test. unfold sl_is_oct in Hc. lia. }
        transitivity (sc_uok_loop false (c1 :: t') SawDigit); [reflexivity|]. rewrite U. exact Hlit.
  - (* decimal *)
    apply andb_true_iff in Hlit as [Hd Hsep].
    assert (Hs : sl_base_body (c0 :: t) = (10, c0 :: t)).
    { unfold sl_base_body. destruct t; [reflexivity|]. rewrite E0. reflexivity. }
    unfold sl_value. rewrite Hs.
    assert (Hsep' : sl_sep_digits (isd_of 10) (c0 :: t) = true).
    { unfold isd_of. cbn [N.eqb Pos.eqb sl_sep_digits].
      replace (sl_is_dec c0) with true by (unfold sl_is_dec; lia). exact Hsep. }
    apply parse_assemble; try assumption.
    + discriminate.
    + unfold sc_base_of. rewrite E0. reflexivity.
    + right; right; left; reflexivity.
    + unfold bytesb, is_byte in *. cbn [forallb]. rewrite Hbt. replace (c0 <? 256) with true by lia. reflexivity.
    + intros _. unfold sc_underscore_ok.
      replace ((c0 =? 45) || (c0 =? 43)) with false by lia.
      assert (Hstart : sc_uok_loop false (c0 :: t) SawStart = true).
      { cbn [sc_uok_loop]. replace ((48 <=? c0) && (c0 <=? 57)) with true by lia. cbn [orb].
        assert (Hchars := sep_digits_chars _ _ Hsep).
        destruct (uok_sep false sl_is_dec t) as [U _]; [|exact Hchars|].
        { intros c Hc. unfold sc_uok_test. unfold sl_is_dec in Hc. lia. }
        rewrite U. exact Hsep. }
      destruct t as [|c1 t']; [exact Hstart|]. rewrite E0. cbn [andb]. exact Hstart.
Qed.

(* ------------------------------------------------------------ only literals are parsed *)

Lemma sep_from_ok base body : sc_known_base base -> bytesb body = true ->
  sc_body_ok base body = true ->
  (sc_has_us body = false \/ sc_uok_loop (base =? 16) body SawDigit = true) ->
  sl_sep_digits (isd_of base) body = true.
Proof.
  intros Hb Hby Hok Hus. pose proof Hok as Hchars. rewrite (body_ok_bridge base body Hb Hby) in Hchars.
  destruct Hus as [Hno|Hu].
  - apply sep_digits_all. rewrite <- (no_us_all base body Hok Hno).
    apply forallb_ext_in. intros c Hc. symmetry. apply isd_bridge; [exact Hb|]. exact (bytes_in body c Hby Hc).
  - destruct (uok_sep (base =? 16) (isd_of base) body) as [U _]; [|exact Hchars|].
    + intros c Hc. destruct (N.lt_ge_cases c 256) as [Hlt|Hge].
      * exact (isd_uok base c Hb Hlt Hc).
      * apply (isd_hex base c Hb) in Hc. unfold sl_is_hex, sl_is_dec in Hc. lia.
    + rewrite <- U. exact Hu.
Qed.

Lemma parse_ok_parts bits s v :
  sc_parse_uint bits s = ScOk v ->
  s <> [] /\
  let '(base, body) := sc_base_of s in
  sc_body_ok base body = true /\ (sc_has_us body = false \/ sc_underscore_ok s = true).
Proof.
  unfold sc_parse_uint. destruct s as [|c0 t]; [discriminate|]. intros H. split; [discriminate|].
  destruct (sc_base_of (c0 :: t)) as [base body].
  destruct (sc_loop base (sc_max_u64 / base + 1) (2 ^ bits - 1) body 0 false) as [r us] eqn:EL.
  destruct r as [n| |]; try discriminate.
  apply loop_ok_inv in EL as [Hok Hus]. cbn [orb] in Hus. subst us. split; [exact Hok|].
  destruct (sc_has_us body); [|left; reflexivity]. right.
  destruct (sc_underscore_ok (c0 :: t)); [reflexivity|discriminate].
Qed.

Theorem parse_uint_only_literals bits s v :
  bytesb s = true -> sc_parse_uint bits s = ScOk v -> sl_int_lit s = true.
Proof.
  intros Hby H. apply parse_ok_parts in H as [Hne H].
  destruct s as [|c0 t]; [congruence|]. apply bytesb_cons in Hby as [Hc0 Hbt].
  cbn [sl_int_lit]. destruct (c0 =? 48) eqn:E0.
  - apply N.eqb_eq in E0. subst c0. destruct t as [|c1 t']; [reflexivity|].
    apply bytesb_cons in Hbt as [Hc1 Hbt'].
    assert (Hlegacy : sc_base_of (48 :: c1 :: t') = (8, c1 :: t') ->
                      sc_is_prefix_letter c1 = false -> sl_sep_digits sl_is_oct (c1 :: t') = true).
    { intros Eb Hpl. rewrite Eb in H. destruct H as [Hok Hus].
      apply (sep_from_ok 8 (c1 :: t')); [right; left; reflexivity| |exact Hok|].
      - unfold bytesb, is_byte in *. cbn [forallb]. rewrite Hbt'. replace (c1 <? 256) with true by lia. reflexivity.
      - destruct Hus as [Hno|Hu]; [left; exact Hno|right].
        unfold sc_underscore_ok in Hu. cbn [N.eqb Pos.eqb orb andb] in Hu. rewrite Hpl in Hu.
        exact Hu. }
    unfold sc_is_prefix_letter in Hlegacy.
    rewrite (lower_b c1 Hc1), (lower_o c1 Hc1), (lower_x c1 Hc1) in Hlegacy.
    destruct t' as [|c2 t''].
    + (* two characters: the second is an octal digit *)
      assert (Hc : (c1 =? 95) || sl_is_oct c1 = true).
      { cbn in H. destruct H as [Hok _]. unfold sc_body_ok in Hok. cbn [forallb] in Hok.
        rewrite andb_true_r in Hok. rewrite (digit_lt_oct c1 Hc1) in Hok. exact Hok. }
      assert (Hnp : (c1 =? 98) || (c1 =? 66) = false /\ (c1 =? 111) || (c1 =? 79) = false
                    /\ (c1 =? 120) || (c1 =? 88) = false) by (unfold sl_is_oct in Hc; lia).
      destruct Hnp as (E1 & E2 & E3). rewrite E1, E2, E3.
      apply Hlegacy; [reflexivity|]. rewrite E1, E2, E3. reflexivity.
    + unfold sc_base_of in H, Hlegacy. cbn [N.eqb Pos.eqb] in H, Hlegacy.
      rewrite (lower_b c1 Hc1), (lower_o c1 Hc1), (lower_x c1 Hc1) in H, Hlegacy.
      assert (Hpre : forall base, sc_known_base base ->
                sc_body_ok base (c2 :: t'') = true /\
                (sc_has_us (c2 :: t'') = false \/ sc_underscore_ok (48 :: c1 :: c2 :: t'') = true) ->
                sc_is_prefix_letter c1 = true -> (sc_lower c1 =? 120) = (base =? 16) ->
                sl_digits1 (isd_of base) (c2 :: t'') = true).
      { intros base Hb [Hok Hus] Hpl Hx. cbn [sl_digits1].
        apply (sep_from_ok base (c2 :: t'') Hb Hbt' Hok).
        destruct Hus as [Hno|Hu]; [left; exact Hno|right].
        unfold sc_underscore_ok in Hu. cbn [N.eqb Pos.eqb orb andb] in Hu. rewrite Hpl, Hx in Hu. exact Hu. }
      unfold sc_is_prefix_letter in Hpre.
      rewrite (lower_b c1 Hc1), (lower_o c1 Hc1), (lower_x c1 Hc1) in Hpre.
      destruct ((c1 =? 98) || (c1 =? 66)) eqn:Eb.
      { apply (Hpre 2); [left; reflexivity|exact H|reflexivity|cbn [N.eqb Pos.eqb]; lia]. }
      destruct ((c1 =? 111) || (c1 =? 79)) eqn:Eo.
      { apply (Hpre 8); [right; left; reflexivity|exact H|reflexivity|cbn [N.eqb Pos.eqb]; lia]. }
      destruct ((c1 =? 120) || (c1 =? 88)) eqn:Ex.
      { apply (Hpre 16); [right; right; right; reflexivity|exact H|reflexivity|reflexivity]. }
      apply Hlegacy; reflexivity.
  - (* no leading zero: decimal *)
    assert (Eb : sc_base_of (c0 :: t) = (10, c0 :: t)) by (unfold sc_base_of; rewrite E0; reflexivity).
    rewrite Eb in H. destruct H as [Hok Hus].
    pose proof Hok as Hok0. unfold sc_body_ok in Hok0. cbn [forallb] in Hok0.
    apply andb_true_iff in Hok0 as [Hc Hokt]. rewrite (digit_lt_dec c0 Hc0) in Hc.
    assert (Hstart : sc_underscore_ok (c0 :: t) = sc_uok_loop false (c0 :: t) SawStart).
    { unfold sc_underscore_ok. replace ((c0 =? 45) || (c0 =? 43)) with false by (unfold sl_is_dec in Hc; lia).
      destruct t as [|c1 t']; [reflexivity|]. rewrite E0. reflexivity. }
    rewrite Hstart in Hus.
    destruct (c0 =? 95) eqn:E95.
    + (* a leading underscore is refused *)
      exfalso. apply N.eqb_eq in E95. subst c0. destruct Hus as [Hno|Hu].
      * cbn in Hno. discriminate.
      * cbn in Hu. discriminate.
    + cbn [orb] in Hc. apply andb_true_iff. split; [unfold sl_is_dec in Hc; lia|].
      apply (sep_from_ok 10 t); [right; right; left; reflexivity|exact Hbt|exact Hokt|].
      destruct Hus as [Hno|Hu].
      * left. cbn [sc_has_us existsb] in Hno. rewrite E95 in Hno. exact Hno.
      * right. cbn [sc_uok_loop] in Hu. unfold sl_is_dec in Hc. rewrite Hc in Hu. exact Hu.
Qed.

(* ------------------------------------------------------------ characterisation *)

Theorem parse_uint_exact bits s v :
  1 <= bits <= 64 -> bytesb s = true ->
  (sc_parse_uint bits s = ScOk v <-> sl_int_lit s = true /\ sl_value s = v /\ v < 2 ^ bits).
Proof.
  intros Hbits Hby. split.
  - intros H. pose proof (parse_uint_only_literals bits s v Hby H) as Hlit.
    rewrite (parse_uint_literal bits s Hbits Hby Hlit) in H.
    destruct (sl_value s <? 2 ^ bits) eqn:E; [|discriminate]. inversion H; subst. repeat split; [assumption|lia].
  - intros (Hlit & Hv & Hlt). rewrite (parse_uint_literal bits s Hbits Hby Hlit). subst v.
    replace (sl_value s <? 2 ^ bits) with true by lia. reflexivity.
Qed.

Theorem parse_uint_range bits s :
  1 <= bits <= 64 -> bytesb s = true -> sl_int_lit s = true -> 2 ^ bits <= sl_value s ->
  sc_parse_uint bits s = ScRange.
Proof.
  intros Hbits Hby Hlit Hge. rewrite (parse_uint_literal bits s Hbits Hby Hlit).
  replace (sl_value s <? 2 ^ bits) with false by lia. reflexivity.
Qed.

Theorem parse_uint_bound bits s v :
  1 <= bits <= 64 -> bytesb s = true -> sc_parse_uint bits s = ScOk v -> v < 2 ^ bits.
Proof. intros Hbits Hby H. apply (parse_uint_exact bits s v Hbits Hby) in H. tauto. Qed.

(* ParseUint refuses signs and the empty string *)
Theorem parse_uint_sign bits t :
  sc_parse_uint bits (43 :: t) = ScSyntax /\ sc_parse_uint bits (45 :: t) = ScSyntax /\
  sc_parse_uint bits [] = ScSyntax.
Proof. repeat split. Qed.

(* ------------------------------------------------------------ signed *)

Lemma pow2_half bits : 1 <= bits -> 2 ^ bits = 2 * 2 ^ (bits - 1).
Proof.
  intros H. replace bits with (N.succ (bits - 1)) at 1 by lia. apply N.pow_succ_r'.
Qed.

Theorem parse_int_literal bits s :
  2 <= bits <= 64 -> bytesb s = true -> sl_signed_lit s = true ->
  sc_parse_int bits s =
    if ((- Z.of_N (2 ^ (bits - 1)) <=? sl_signed_value s) && (sl_signed_value s <? Z.of_N (2 ^ (bits - 1))))%Z
    then ScIOk (sl_signed_value s) else ScIRange.
Proof.
  intros Hbits Hby Hlit.
  assert (Hbits1 : 1 <= bits <= 64) by lia.
  pose proof (pow2_half bits ltac:(lia)) as Hh.
  assert (Hpos : 2 <= 2 ^ (bits - 1)).
  { change 2 with (2 ^ 1) at 1. apply N.pow_le_mono_r; lia. }
  unfold sl_signed_lit, sl_signed_value in *. unfold sc_parse_int.
  destruct s as [|c t]; [discriminate|]. apply bytesb_cons in Hby as [Hc Hbt].
  unfold sl_unsign in *.
  assert (Hbody : forall m, bytesb m = true -> sl_int_lit m = true ->
     sc_parse_uint bits m = if sl_value m <? 2 ^ bits then ScOk (sl_value m) else ScRange)
    by (intros; apply parse_uint_literal; assumption).
  remember (2 ^ (bits - 1)) as h eqn:Eh. remember (2 ^ bits) as P eqn:EP.
  destruct (c =? 45) eqn:E45.
  - apply N.eqb_eq in E45. subst c. cbn [N.eqb Pos.eqb snd] in *.
    rewrite (Hbody t Hbt Hlit). remember (sl_value t) as V.
    destruct (V <? P) eqn:EV.
    + cbn [negb andb]. destruct (h <? V) eqn:Ec.
      * replace ((- Z.of_N h <=? - Z.of_N V)%Z && (- Z.of_N V <? Z.of_N h)%Z) with false by lia. reflexivity.
      * replace ((- Z.of_N h <=? - Z.of_N V)%Z && (- Z.of_N V <? Z.of_N h)%Z) with true by lia. reflexivity.
    + cbn [negb andb]. replace (h <? P - 1) with true by lia.
      replace ((- Z.of_N h <=? - Z.of_N V)%Z && (- Z.of_N V <? Z.of_N h)%Z) with false by lia. reflexivity.
  - destruct (c =? 43) eqn:E43.
    + cbn [snd] in *. rewrite (Hbody t Hbt Hlit). remember (sl_value t) as V.
      destruct (V <? P) eqn:EV.
      * cbn [negb andb]. destruct (h <=? V) eqn:Ec.
        -- replace ((- Z.of_N h <=? Z.of_N V)%Z && (Z.of_N V <? Z.of_N h)%Z) with false by lia. reflexivity.
        -- replace ((- Z.of_N h <=? Z.of_N V)%Z && (Z.of_N V <? Z.of_N h)%Z) with true by lia. reflexivity.
      * cbn [negb andb]. replace (h <=? P - 1) with true by lia.
        replace ((- Z.of_N h <=? Z.of_N V)%Z && (Z.of_N V <? Z.of_N h)%Z) with false by lia. reflexivity.
    + cbn [snd] in *.
      assert (Hby' : bytesb (c :: t) = true).
      { unfold bytesb, is_byte in *. cbn [forallb]. rewrite Hbt. replace (c <? 256) with true by lia. reflexivity. }
      rewrite (Hbody (c :: t) Hby' Hlit). remember (sl_value (c :: t)) as V.
      destruct (V <? P) eqn:EV.
      * cbn [negb andb]. destruct (h <=? V) eqn:Ec.
        -- replace ((- Z.of_N h <=? Z.of_N V)%Z && (Z.of_N V <? Z.of_N h)%Z) with false by lia. reflexivity.
        -- replace ((- Z.of_N h <=? Z.of_N V)%Z && (Z.of_N V <? Z.of_N h)%Z) with true by lia. reflexivity.
      * cbn [negb andb]. replace (h <=? P - 1) with true by lia.
        replace ((- Z.of_N h <=? Z.of_N V)%Z && (Z.of_N V <? Z.of_N h)%Z) with false by lia. reflexivity.
Qed.

Theorem parse_int_only_literals bits s z :
  2 <= bits -> bytesb s = true -> sc_parse_int bits s = ScIOk z -> sl_signed_lit s = true.
Proof.
  intros Hbits Hby H. unfold sc_parse_int in H. destruct s as [|c t]; [discriminate|].
  apply bytesb_cons in Hby as [Hc Hbt]. unfold sl_signed_lit, sl_unsign.
  assert (Hby' : bytesb (c :: t) = true).
  { unfold bytesb, is_byte in *. cbn [forallb]. rewrite Hbt. replace (c <? 256) with true by lia. reflexivity. }
  pose proof (pow2_half bits ltac:(lia)) as Hh.
  assert (Hpos : 2 <= 2 ^ (bits - 1)).
  { change 2 with (2 ^ 1) at 1. apply N.pow_le_mono_r; lia. }
  remember (2 ^ (bits - 1)) as h eqn:Eh. remember (2 ^ bits) as P eqn:EP.
  (* a range error of the magnitude parser never turns into success *)
  assert (R1 : (h <=? P - 1) = true) by lia.
  assert (R2 : (h <? P - 1) = true) by lia.
  destruct (c =? 43) eqn:E43.
  - replace (c =? 45) with false by lia. cbn [snd].
    destruct (sc_parse_uint bits t) as [v| |] eqn:Eu; try discriminate.
    + exact (parse_uint_only_literals bits t v Hbt Eu).
    + exfalso. cbn [negb andb] in H. rewrite R1 in H. discriminate.
  - destruct (c =? 45) eqn:E45; cbn [snd].
    + destruct (sc_parse_uint bits t) as [v| |] eqn:Eu; try discriminate.
      * exact (parse_uint_only_literals bits t v Hbt Eu).
      * exfalso. cbn [negb andb] in H. rewrite R2 in H. discriminate.
    + destruct (sc_parse_uint bits (c :: t)) as [v| |] eqn:Eu; try discriminate.
      * exact (parse_uint_only_literals bits (c :: t) v Hby' Eu).
      * exfalso. cbn [negb andb] in H. rewrite R1 in H. discriminate.
Qed.

(* ------------------------------------------------------------ canonical renderings *)

Ltac by_base Hb := destruct Hb as [-> | [-> | [-> | ->]]]; lia.

Lemma digit_char_props base d : sc_known_base base -> d < base ->
  let c := sl_digit_char d in
  c < 256 /\ (c =? 95) = false /\ sl_val c = d /\ isd_of base c = true /\ (d <> 0 -> c <> 48) /\ (d = 0 -> c = 48).
Proof.
  intros Hb Hd. unfold sl_digit_char, sl_val.
  assert (d < 16) by by_base Hb.
  destruct (d <? 10) eqn:E; cbn zeta.
  - replace (48 + d <=? 57) with true by lia.
    repeat split; try lia.
    destruct Hb as [-> | [-> | [-> | ->]]]; unfold isd_of; cbn [N.eqb Pos.eqb];
      unfold sl_is_hex, sl_is_dec, sl_is_bin, sl_is_oct; lia.
  - replace (87 + d <=? 57) with false by lia. replace (87 + d <=? 70) with false by lia.
    repeat split; try lia.
    destruct Hb as [-> | [-> | [-> | ->]]]; unfold isd_of; cbn [N.eqb Pos.eqb];
      unfold sl_is_hex, sl_is_dec, sl_is_bin, sl_is_oct; lia.
Qed.

Definition rd_step (base acc c : N) : N := if c =? 95 then acc else acc * base + sl_val c.

Lemma render_unfold f base n acc :
  sl_render_digits (S f) base n acc =
    if n / base =? 0 then sl_digit_char (n mod base) :: acc
    else sl_render_digits f base (n / base) (sl_digit_char (n mod base) :: acc).
Proof. reflexivity. Qed.

Lemma render_spec base : sc_known_base base -> forall f n acc, n < 2 ^ N.of_nat f ->
  exists ds, sl_render_digits (S f) base n acc = ds ++ acc /\ ds <> [] /\
    forallb (isd_of base) ds = true /\ bytesb ds = true /\
    fold_left (rd_step base) ds 0 = n /\ (n <> 0 -> hd 0 ds <> 48) /\ (n = 0 -> ds = [48]).
Proof.
  intros Hb. induction f as [|f IH]; intros n acc Hn; rewrite render_unfold.
  - assert (n = 0) by (cbn in Hn; lia). subst n.
    replace (0 / base =? 0) with true by by_base Hb. replace (0 mod base) with 0 by by_base Hb.
    exists [48]. repeat split; try discriminate; try reflexivity; try lia.
    destruct Hb as [-> | [-> | [-> | ->]]]; reflexivity.
  - destruct (n / base =? 0) eqn:Ediv.
    + assert (Hlt : n < base) by by_base Hb.
      replace (n mod base) with n by by_base Hb.
      destruct (digit_char_props base n Hb Hlt) as (P1 & P2 & P3 & P4 & P5 & P6).
      exists [sl_digit_char n]. repeat split; try discriminate.
      * cbn. rewrite P4. reflexivity.
      * unfold bytesb, is_byte. cbn. lia.
      * cbn. unfold rd_step. rewrite P2, P3. lia.
      * cbn. exact P5.
      * intros ->. rewrite (P6 eq_refl). reflexivity.
    + rewrite Nat2N.inj_succ, N.pow_succ_r' in Hn. remember (2 ^ N.of_nat f) as p eqn:Hp.
      assert (Hq : n / base < p) by by_base Hb.
      assert (Hm : n mod base < base) by by_base Hb.
      destruct (IH (n / base) (sl_digit_char (n mod base) :: acc) Hq) as (ds & E & Hne & Hall & Hby & Hv & Hhd & _).
      destruct (digit_char_props base (n mod base) Hb Hm) as (P1 & P2 & P3 & P4 & _).
      exists (ds ++ [sl_digit_char (n mod base)]). repeat split.
      * rewrite E, <- app_assoc. reflexivity.
      * destruct ds; discriminate.
      * rewrite forallb_app, Hall. cbn. rewrite P4. reflexivity.
      * rewrite bytesb_app, Hby. unfold bytesb, is_byte. cbn. lia.
      * rewrite fold_left_app, Hv. cbn. unfold rd_step. rewrite P2, P3. by_base Hb.
      * intros _. destruct ds as [|x ds']; [congruence|]. cbn. cbn in Hhd. apply Hhd. lia.
      * intros ->. exfalso. assert (0 / base = 0) by by_base Hb. lia.
Qed.

Lemma render_props base n : sc_known_base base ->
  let ds := sl_render base n in
  ds <> [] /\ forallb (isd_of base) ds = true /\ bytesb ds = true /\
  sl_digits_value base ds = n /\ (n <> 0 -> hd 0 ds <> 48) /\ (n = 0 -> ds = [48]).
Proof.
  intros Hb. unfold sl_render.
  destruct (render_spec base Hb (N.to_nat (N.size n)) n []) as (ds & E & H).
  - rewrite N2Nat.id. apply N.size_gt.
  - rewrite E, app_nil_r. exact H.
Qed.

Theorem decimal_is_literal n :
  bytesb (sl_decimal n) = true /\ sl_int_lit (sl_decimal n) = true /\ sl_value (sl_decimal n) = n.
Proof.
  assert (Hb : sc_known_base 10) by (right; right; left; reflexivity).
  destruct (render_props 10 n Hb) as (Hne & Hall & Hby & Hv & Hhd & Hz).
  unfold sl_decimal. remember (sl_render 10 n) as ds. split; [exact Hby|].
  destruct ds as [|c0 t]; [congruence|]. cbn [forallb] in Hall. apply andb_true_iff in Hall as [Hc0 Hall].
  unfold isd_of in Hc0, Hall. cbn [N.eqb Pos.eqb] in Hc0, Hall.
  destruct (N.eq_dec n 0) as [->|Hn0].
  - rewrite (Hz eq_refl). split; reflexivity.
  - specialize (Hhd Hn0). cbn in Hhd.
    assert (E0 : (c0 =? 48) = false) by lia. split.
    + cbn [sl_int_lit]. rewrite E0. unfold sl_is_dec in Hc0.
      replace ((49 <=? c0) && (c0 <=? 57)) with true by lia. cbn [andb].
      apply sep_digits_all. exact Hall.
    + unfold sl_value, sl_base_body. destruct t; [exact Hv|]. rewrite E0. exact Hv.
Qed.

Lemma prefixed_is_literal base p n :
  sc_known_base base ->
  (base = 2 /\ p = 98 \/ base = 8 /\ p = 111 \/ base = 16 /\ p = 120) ->
  let s := [48; p] ++ sl_render base n in
  bytesb s = true /\ sl_int_lit s = true /\ sl_value s = n.
Proof.
  intros Hb Hp.
  destruct (render_props base n Hb) as (Hne & Hall & Hby & Hv & _ & _).
  cbn zeta. remember (sl_render base n) as ds.
  assert (Hsep : sl_digits1 (isd_of base) ds = true).
  { destruct ds; [congruence|]. cbn [sl_digits1]. apply sep_digits_all. exact Hall. }
  destruct Hp as [[-> ->] | [[-> ->] | [-> ->]]]; (split; [|split]);
    try (unfold bytesb, is_byte in *; cbn [app forallb]; rewrite Hby; reflexivity);
    try exact Hsep; try exact Hv.
Qed.

(* parsing the canonical decimal / 0x / 0o / 0b rendering of n returns n when
   it fits, a range error otherwise *)
Theorem roundtrip bits n :
  1 <= bits <= 64 ->
  let r := if n <? 2 ^ bits then ScOk n else ScRange in
  sc_parse_uint bits (sl_decimal n) = r /\ sc_parse_uint bits (sl_hex n) = r /\
  sc_parse_uint bits (sl_octal n) = r /\ sc_parse_uint bits (sl_binary n) = r.
Proof.
  intros Hbits. cbn zeta.
  destruct (decimal_is_literal n) as (D1 & D2 & D3).
  destruct (prefixed_is_literal 16 120 n) as (X1 & X2 & X3); [right; right; right; reflexivity|tauto|].
  destruct (prefixed_is_literal 8 111 n) as (O1 & O2 & O3); [right; left; reflexivity|tauto|].
  destruct (prefixed_is_literal 2 98 n) as (B1 & B2 & B3); [left; reflexivity|tauto|].
  unfold sl_hex, sl_octal, sl_binary.
  rewrite (parse_uint_literal bits _ Hbits D1 D2), D3.
  rewrite (parse_uint_literal bits _ Hbits X1 X2), X3.
  rewrite (parse_uint_literal bits _ Hbits O1 O2), O3.
  rewrite (parse_uint_literal bits _ Hbits B1 B2), B3.
  repeat split.
Qed.

Theorem parse_int_exact bits s z :
  2 <= bits <= 64 -> bytesb s = true ->
  (sc_parse_int bits s = ScIOk z <->
   sl_signed_lit s = true /\ sl_signed_value s = z /\
   (- Z.of_N (2 ^ (bits - 1)) <= z < Z.of_N (2 ^ (bits - 1)))%Z).
Proof.
  intros Hbits Hby. split.
  - intros H. pose proof (parse_int_only_literals bits s z ltac:(lia) Hby H) as Hlit.
    rewrite (parse_int_literal bits s Hbits Hby Hlit) in H.
    match type of H with (if ?b then _ else _) = _ => destruct b eqn:E; [|discriminate] end.
    inversion H; subst. repeat split; [assumption|lia|lia].
  - intros (Hlit & Hv & Hr). rewrite (parse_int_literal bits s Hbits Hby Hlit). subst z.
    match goal with |- (if ?b then _ else _) = _ => replace b with true by lia end. reflexivity.
Qed.

(* ------------------------------------------------------------ hex strings *)

Lemma hexval_bound c v : sc_hexval c = Some v -> v < 16.
Proof.
  unfold sc_hexval. destruct ((48 <=? c) && (c <=? 57)) eqn:E1; [intros H; inversion H; lia|].
  destruct ((97 <=? c) && (c <=? 102)) eqn:E2; [intros H; inversion H; lia|].
  destruct ((65 <=? c) && (c <=? 70)) eqn:E3; [intros H; inversion H; lia|discriminate].
Qed.

(* hex.DecodeString succeeds exactly on an even number of hex digits, two per byte *)
Theorem hex_decode_ok s bs :
  sc_hex_decode s = Some bs -> length s = (2 * length bs)%nat /\ bytesb bs = true.
Proof.
  revert bs. induction s as [|p| p q t IH] using list_ind2; intros bs H; cbn [sc_hex_decode] in H.
  - inversion H. split; reflexivity.
  - discriminate.
  - destruct (sc_hexval p) as [a|] eqn:Ea; [|discriminate].
    destruct (sc_hexval q) as [b|] eqn:Eb; [|discriminate].
    destruct (sc_hex_decode t) as [r|] eqn:Er; [|discriminate]. inversion H; subst.
    destruct (IH r eq_refl) as [I1 I2]. split; [cbn; lia|].
    apply hexval_bound in Ea, Eb. unfold bytesb, is_byte in *. cbn [forallb]. rewrite I2.
    replace (a * 16 + b <? 256) with true by lia. reflexivity.
Qed.

Definition sc_hex_render (bs : list N) : list N :=
  flat_map (fun b => [sl_digit_char (b / 16); sl_digit_char (b mod 16)]) bs.

Theorem hex_decode_roundtrip bs : bytesb bs = true -> sc_hex_decode (sc_hex_render bs) = Some bs.
Proof.
  induction bs as [|b t IH]; intros H; [reflexivity|]. apply bytesb_cons in H as [Hb Ht].
  cbn [sc_hex_render flat_map app sc_hex_decode]. fold (sc_hex_render t). rewrite (IH Ht).
  assert (Hx : forall d, d < 16 -> sc_hexval (sl_digit_char d) = Some d).
  { intros d Hd. unfold sl_digit_char, sc_hexval. destruct (d <? 10) eqn:E.
    - replace ((48 <=? 48 + d) && (48 + d <=? 57)) with true by lia. f_equal. lia.
    - replace ((48 <=? 87 + d) && (87 + d <=? 57)) with false by lia.
      replace ((97 <=? 87 + d) && (87 + d <=? 102)) with true by lia. f_equal. lia. }
  rewrite (Hx (b / 16)) by lia. rewrite (Hx (b mod 16)) by lia. f_equal. f_equal. lia.
Qed.
