(* Proofs about Model/Config.v against Spec/ConfigSpec.v (property C16). *)
From Modbus Require Import Base.Bytes Model.Config Spec.ConfigSpec.
From Coq Require Import ZifyBool ZifyNat ZifyN.
From Coq Require String.
Import String.StringSyntax.
Ltac Zify.zify_post_hook ::= Z.div_mod_to_equations.

(* ------------------------------------------------- text constants agree *)

Lemma sep_text_eq : sep_text = url_sep.
Proof. reflexivity. Qed.

Lemma scheme_name_model s :
  scheme_name s =
  match s with
  | STcp => nm_tcp | STcpTls => nm_tcptls | SUdp => nm_udp
  | SRtu => nm_rtu | SRtuOverTcp => nm_rtuovertcp | SRtuOverUdp => nm_rtuoverudp
  end.
Proof. destruct s; reflexivity. Qed.

(* --------------------------------------------------------- has_prefix *)

Lemma has_prefix_iff p s : has_prefix p s = true <-> exists y, s = p ++ y.
Proof.
  revert s; induction p as [|x p IH]; intros s; cbn [has_prefix].
  - split; [intros _; exists s; reflexivity | reflexivity].
  - destruct s as [|y s].
    + split; [discriminate | intros [z Hz]; discriminate].
    + rewrite andb_true_iff, N.eqb_eq, IH. split.
      * intros [-> [z ->]]. exists z. reflexivity.
      * intros [z Hz]. cbn in Hz. inversion Hz; subst. split; [reflexivity | exists z; reflexivity].
Qed.

(* the first three characters decide: a non-empty head followed by ":/" or by
   "://"+b start alike *)
Lemma has_prefix_sep_ext c a b :
  has_prefix url_sep (c :: a ++ [58; 47]) = has_prefix url_sep (c :: a ++ url_sep ++ b).
Proof. destruct a as [|x [|y a]]; reflexivity. Qed.

Lemma occurs_cons_inv p c l :
  occurs p (c :: l) -> has_prefix p (c :: l) = true \/ occurs p l.
Proof.
  intros [x [y H]]. destruct x as [|c' x].
  - left. apply has_prefix_iff. exists y. exact H.
  - right. cbn in H. inversion H; subst. exists x, y. reflexivity.
Qed.

Lemma occurs_cons p c l : occurs p l -> occurs p (c :: l).
Proof. intros [x [y ->]]. exists (c :: x), y. reflexivity. Qed.

Lemma occurs_prefix p l : has_prefix p l = true -> occurs p l.
Proof. intros H. apply has_prefix_iff in H as [y ->]. exists [], y. reflexivity. Qed.

Lemma not_occurs_short : ~ occurs url_sep [58; 47].
Proof.
  intros [x [y H]]. apply (f_equal (@length N)) in H.
  rewrite !app_length in H. cbn in H. lia.
Qed.

(* ----------------------------------------------------------- split_url *)

Lemma split_url_sound u a b :
  split_url u = Some (a, b) ->
  u = a ++ url_sep ++ b /\ ~ occurs url_sep (a ++ [58; 47]).
Proof.
  revert a b; induction u as [|c t IH]; intros a b H; [discriminate|].
  cbn [split_url] in H.
  destruct (has_prefix url_sep (c :: t)) eqn:Hp.
  - apply has_prefix_iff in Hp as [y Hy]. rewrite Hy in *.
    change (skipn 3 (url_sep ++ y)) with y in H. inversion H; subst.
    split; [reflexivity | exact not_occurs_short].
  - destruct (split_url t) as [[a' b']|] eqn:Ht; [|discriminate].
    inversion H; subst. destruct (IH a' b eq_refl) as [Hu Hn]. split.
    + rewrite Hu at 1. reflexivity.
    + intros Ho. cbn [app] in Ho. apply occurs_cons_inv in Ho as [Hq | Ho]; [|exact (Hn Ho)].
      rewrite (has_prefix_sep_ext c a' b), <- Hu in Hq. congruence.
Qed.

Lemma split_url_complete a b :
  ~ occurs url_sep (a ++ [58; 47]) -> split_url (a ++ url_sep ++ b) = Some (a, b).
Proof.
  induction a as [|c a IH]; intros Hn.
  - reflexivity.
  - cbn [app split_url].
    destruct (has_prefix url_sep (c :: a ++ url_sep ++ b)) eqn:Hp.
    + exfalso. apply Hn. apply occurs_prefix. cbn [app].
      rewrite (has_prefix_sep_ext c a b). exact Hp.
    + rewrite IH; [reflexivity|]. intros Ho. apply Hn. cbn [app]. apply occurs_cons. exact Ho.
Qed.

Lemma split_url_spec u a b :
  split_url u = Some (a, b) <-> first_split u a b.
Proof.
  unfold first_split. rewrite sep_text_eq. change (str ":/") with [58; 47]. split.
  - apply split_url_sound.
  - intros [-> Hn]. apply split_url_complete. exact Hn.
Qed.

Lemma split_url_none u : split_url u = None <-> ~ occurs sep_text u.
Proof.
  rewrite sep_text_eq. split.
  - induction u as [|c t IH]; intros H Ho.
    + destruct Ho as [x [y Ho]]. apply (f_equal (@length N)) in Ho.
      rewrite !app_length in Ho. cbn in Ho. lia.
    + cbn [split_url] in H. destruct (has_prefix url_sep (c :: t)) eqn:Hp; [discriminate|].
      destruct (split_url t) as [[a b]|] eqn:Ht; [discriminate|].
      apply occurs_cons_inv in Ho as [Hq | Ho]; [congruence | exact (IH eq_refl Ho)].
  - induction u as [|c t IH]; intros Hn; [reflexivity|].
    cbn [split_url]. destruct (has_prefix url_sep (c :: t)) eqn:Hp.
    + exfalso. apply Hn. apply occurs_prefix. exact Hp.
    + rewrite IH; [reflexivity|]. intros Ho. apply Hn. apply occurs_cons. exact Ho.
Qed.

(* the split is a function of the URL: at most one first occurrence *)
Lemma first_split_unique u a b a' b' :
  first_split u a b -> first_split u a' b' -> a = a' /\ b = b'.
Proof.
  intros H1 H2. apply split_url_spec in H1, H2. rewrite H1 in H2. inversion H2. auto.
Qed.

(* ------------------------------------------------------ scheme names *)

Lemma split_scheme s rest :
  split_url (scheme_name s ++ sep_text ++ rest) = Some (scheme_name s, rest).
Proof. destruct s; reflexivity. Qed.

Lemma url_scheme_first_split u s rest :
  url_scheme u s rest -> first_split u (scheme_name s) rest.
Proof. intros ->. apply split_url_spec. apply split_scheme. Qed.

Lemma kind_of_scheme s : kind_of_name (scheme_name s) = Some (scheme_transport s).
Proof. destruct s; reflexivity. Qed.

Lemma kind_of_name_inv a t :
  kind_of_name a = Some t -> exists s, a = scheme_name s /\ t = scheme_transport s.
Proof.
  unfold kind_of_name.
  destruct (list_eqb a nm_rtu) eqn:E1;
    [apply list_eqb_eq in E1; intros [= <-]; exists SRtu; auto|].
  destruct (list_eqb a nm_rtuovertcp) eqn:E2;
    [apply list_eqb_eq in E2; intros [= <-]; exists SRtuOverTcp; auto|].
  destruct (list_eqb a nm_rtuoverudp) eqn:E3;
    [apply list_eqb_eq in E3; intros [= <-]; exists SRtuOverUdp; auto|].
  destruct (list_eqb a nm_tcp) eqn:E4;
    [apply list_eqb_eq in E4; intros [= <-]; exists STcp; auto|].
  destruct (list_eqb a nm_tcptls) eqn:E5;
    [apply list_eqb_eq in E5; intros [= <-]; exists STcpTls; auto|].
  destruct (list_eqb a nm_udp) eqn:E6;
    [apply list_eqb_eq in E6; intros [= <-]; exists SUdp; auto|].
  discriminate.
Qed.

Lemma kind_of_name_none a :
  (forall s, a <> scheme_name s) -> kind_of_name a = None.
Proof.
  intros H. destruct (kind_of_name a) as [t|] eqn:E; [|reflexivity].
  apply kind_of_name_inv in E as [s [Hs _]]. destruct (H s Hs).
Qed.

Lemma scheme_name_inj s s' : scheme_name s = scheme_name s' -> s = s'.
Proof. destruct s, s'; intros H; try reflexivity; discriminate H. Qed.

Lemma scheme_transport_inj s s' : scheme_transport s = scheme_transport s' -> s = s'.
Proof. destruct s, s'; intros H; try reflexivity; discriminate H. Qed.

(* a URL has at most one reading <scheme>://<rest> *)
Lemma url_scheme_unique u s rest s' rest' :
  url_scheme u s rest -> url_scheme u s' rest' -> s = s' /\ rest = rest'.
Proof.
  intros H1 H2. apply url_scheme_first_split in H1, H2.
  destruct (first_split_unique _ _ _ _ _ H1 H2) as [Hn Hr].
  split; [apply scheme_name_inj; exact Hn | exact Hr].
Qed.

Lemma url_parts_scheme u s rest :
  url_scheme u s rest -> url_parts u = (scheme_name s, rest).
Proof. intros ->. unfold url_parts. rewrite split_scheme. reflexivity. Qed.

Lemma url_parts_some u a b :
  url_parts u = (a, b) -> a <> [] -> split_url u = Some (a, b).
Proof.
  unfold url_parts. destruct (split_url u) as [[a' b']|]; intros [= <- <-] Ha;
    [reflexivity | destruct (Ha eq_refl)].
Qed.

(* -------------------------------------------------------------- client *)

Lemma dfl_fill x d : dfl x d = fill x (Some d).
Proof. reflexivity. Qed.

Lemma dflz_fillz x d : dflz x d = fillz x d.
Proof. reflexivity. Qed.

Lemma new_client_ok c s rest :
  url_scheme (cc_url c) s rest -> client_creds_ok s c ->
  new_client c = CfgOk (spec_client_eff s rest c).
Proof.
  intros Hu Hc. unfold new_client. rewrite (url_parts_scheme _ _ _ Hu), kind_of_scheme.
  unfold spec_client_eff.
  destruct s; cbn [scheme_transport default_speed default_data_bits default_stop_bits
                   default_timeout fill]; try reflexivity.
  (* what is left is tcp+tls *)
  destruct (Hc eq_refl) as [-> ->]. reflexivity.
Qed.

Lemma new_client_inv c e :
  new_client c = CfgOk e ->
  exists s rest, url_scheme (cc_url c) s rest /\ client_creds_ok s c.
Proof.
  unfold new_client. destruct (url_parts (cc_url c)) as [a b] eqn:Hp.
  destruct (kind_of_name a) as [t|] eqn:Hk; [|discriminate].
  apply kind_of_name_inv in Hk as [s [-> ->]]. intros H.
  assert (Hs : split_url (cc_url c) = Some (scheme_name s, b)).
  { apply url_parts_some; [exact Hp | destruct s; discriminate]. }
  apply split_url_sound in Hs as [Hu _].
  exists s, b. split; [unfold url_scheme; rewrite sep_text_eq; exact Hu|].
  unfold client_creds_ok. intros Hn.
  destruct s; try discriminate Hn. cbn [scheme_transport] in H.
  destruct (cc_has_cert c); [|discriminate H].
  destruct (cc_has_cas c); [|discriminate H]. auto.
Qed.

Lemma new_client_total c :
  (exists e, new_client c = CfgOk e) \/ new_client c = CfgErr EConfig.
Proof.
  unfold new_client. destruct (url_parts (cc_url c)) as [a b].
  destruct (kind_of_name a) as [[]|]; try (left; eexists; reflexivity); try (right; reflexivity).
  destruct (cc_has_cert c); [|right; reflexivity].
  destruct (cc_has_cas c); [left; eexists; reflexivity | right; reflexivity].
Qed.

Lemma new_client_iff c :
  (exists e, new_client c = CfgOk e) <->
  exists s rest, url_scheme (cc_url c) s rest /\ client_creds_ok s c.
Proof.
  split.
  - intros [e H]. exact (new_client_inv c e H).
  - intros [s [rest [Hu Hc]]]. eexists. apply new_client_ok; eassumption.
Qed.

Lemma new_client_refused c :
  ~ (exists s rest, url_scheme (cc_url c) s rest /\ client_creds_ok s c) ->
  new_client c = CfgErr EConfig.
Proof.
  intros Hn. destruct (new_client_total c) as [He | He]; [|exact He].
  apply new_client_iff in He. destruct (Hn He).
Qed.

(* the three ways of being refused, spelled out *)
Lemma new_client_no_sep c :
  ~ occurs sep_text (cc_url c) -> new_client c = CfgErr EConfig.
Proof.
  intros H. apply split_url_none in H. unfold new_client, url_parts. rewrite H. reflexivity.
Qed.

Lemma new_client_unknown_scheme c a b :
  first_split (cc_url c) a b -> (forall s, a <> scheme_name s) ->
  new_client c = CfgErr EConfig.
Proof.
  intros Hs Ha. apply split_url_spec in Hs. unfold new_client, url_parts. rewrite Hs.
  rewrite (kind_of_name_none a Ha). reflexivity.
Qed.

Lemma new_client_tls_no_creds c rest :
  url_scheme (cc_url c) STcpTls rest ->
  cc_has_cert c = false \/ cc_has_cas c = false ->
  new_client c = CfgErr EConfig.
Proof.
  intros Hu Hc. apply new_client_refused. intros [s [r [Hu' Hok]]].
  destruct (url_scheme_unique _ _ _ _ _ Hu Hu') as [<- _].
  destruct (Hok eq_refl) as [H1 H2]. destruct Hc; congruence.
Qed.

(* the effective configuration in the success case *)
Lemma new_client_eff c e s rest :
  new_client c = CfgOk e -> url_scheme (cc_url c) s rest ->
  e = spec_client_eff s rest c.
Proof.
  intros H Hu. destruct (new_client_inv c e H) as [s' [r' [Hu' Hc]]].
  destruct (url_scheme_unique _ _ _ _ _ Hu Hu') as [<- <-].
  rewrite (new_client_ok c s rest Hu Hc) in H. congruence.
Qed.

Lemma new_client_scheme c e :
  new_client c = CfgOk e ->
  exists s rest, url_scheme (cc_url c) s rest /\ e = spec_client_eff s rest c.
Proof.
  intros H. destruct (new_client_inv c e H) as [s [rest [Hu Hc]]].
  exists s, rest. split; [exact Hu | exact (new_client_eff c e s rest H Hu)].
Qed.

(* the defaults, field by field *)
Lemma client_defaults c e s rest :
  new_client c = CfgOk e -> url_scheme (cc_url c) s rest ->
  ce_url e = rest /\
  ce_parity e = cc_parity c /\
  ce_unit e = 1 /\ ce_endianness e = 1 /\ ce_word_order e = 1 /\
  (cc_speed c <> 0 -> ce_speed e = cc_speed c) /\
  (cc_data_bits c <> 0 -> ce_data_bits e = cc_data_bits c) /\
  (cc_stop_bits c <> 0 -> ce_stop_bits e = cc_stop_bits c) /\
  (cc_timeout c <> 0%Z -> ce_timeout e = cc_timeout c) /\
  (cc_timeout c = 0%Z ->
   ce_timeout e = match s with SRtu => 300000000%Z | _ => 1000000000%Z end) /\
  (cc_speed c = 0 ->
   ce_speed e = match s with SRtu | SRtuOverTcp | SRtuOverUdp => 19200 | _ => 0 end) /\
  (cc_data_bits c = 0 -> ce_data_bits e = match s with SRtu => 8 | _ => 0 end) /\
  (cc_stop_bits c = 0 ->
   ce_stop_bits e = match s with
                    | SRtu => if cc_parity c =? 0 then 2 else 1
                    | _ => 0
                    end).
Proof.
  intros H Hu. rewrite (new_client_eff c e s rest H Hu).
  unfold spec_client_eff; cbn [ce_url ce_speed ce_data_bits ce_parity ce_stop_bits ce_timeout
                                ce_unit ce_endianness ce_word_order].
  repeat split; try reflexivity.
  - intros Hz. unfold fill. destruct (default_speed s); [|reflexivity].
    destruct (N.eqb_spec (cc_speed c) 0); [contradiction | reflexivity].
  - intros Hz. unfold fill. destruct (default_data_bits s); [|reflexivity].
    destruct (N.eqb_spec (cc_data_bits c) 0); [contradiction | reflexivity].
  - intros Hz. unfold fill. destruct (default_stop_bits s (cc_parity c)); [|reflexivity].
    destruct (N.eqb_spec (cc_stop_bits c) 0); [contradiction | reflexivity].
  - intros Hz. unfold fillz. destruct (Z.eqb_spec (cc_timeout c) 0); [contradiction | reflexivity].
  - intros ->. destruct s; reflexivity.
  - intros ->. destruct s; reflexivity.
  - intros ->. destruct s; reflexivity.
  - intros ->. destruct s; reflexivity.
Qed.

(* -------------------------------------------------------------- wiring *)

Lemma wiring_table s : wiring (scheme_transport s) = spec_wiring s.
Proof. destruct s; reflexivity. Qed.

Lemma client_wiring c e s rest :
  new_client c = CfgOk e -> url_scheme (cc_url c) s rest ->
  wiring (ce_transport e) = spec_wiring s.
Proof.
  intros H Hu. rewrite (new_client_eff c e s rest H Hu). apply wiring_table.
Qed.

(* -------------------------------------------------------------- server *)

Lemma new_server_ok c s rest :
  url_scheme (sc_url c) s rest -> server_scheme s = true -> rest <> [] ->
  server_creds_ok s c ->
  new_server c = CfgOk (spec_server_eff s rest c).
Proof.
  intros Hu Hs Hr Hc. unfold new_server. rewrite (url_parts_scheme _ _ _ Hu), kind_of_scheme.
  destruct rest as [|r0 rest]; [destruct (Hr eq_refl)|].
  unfold spec_server_eff. destruct s; try discriminate Hs; cbn [scheme_transport].
  - reflexivity.
  - destruct (Hc eq_refl) as [-> ->]. reflexivity.
Qed.

Lemma new_server_inv c e :
  new_server c = CfgOk e ->
  exists s rest, url_scheme (sc_url c) s rest /\ server_scheme s = true /\ rest <> [] /\
                 server_creds_ok s c.
Proof.
  unfold new_server. destruct (url_parts (sc_url c)) as [a b] eqn:Hp.
  destruct b as [|b0 b]; [discriminate|].
  destruct (kind_of_name a) as [t|] eqn:Hk; [|discriminate].
  apply kind_of_name_inv in Hk as [s [-> ->]]. intros H.
  assert (Hs : split_url (sc_url c) = Some (scheme_name s, b0 :: b)).
  { apply url_parts_some; [exact Hp | destruct s; discriminate]. }
  apply split_url_sound in Hs as [Hu _].
  exists s, (b0 :: b). split; [unfold url_scheme; rewrite sep_text_eq; exact Hu|].
  destruct s; cbn [scheme_transport] in H; try discriminate H;
    (split; [reflexivity|]); (split; [discriminate|]); unfold server_creds_ok; intros Hn;
    try discriminate Hn.
  destruct (sc_has_cert c); [|discriminate H].
  destruct (sc_has_cas c); [|discriminate H]. auto.
Qed.

Lemma new_server_total c :
  (exists e, new_server c = CfgOk e) \/ new_server c = CfgErr EConfig.
Proof.
  unfold new_server. destruct (url_parts (sc_url c)) as [a b].
  destruct b as [|b0 b]; [right; reflexivity|].
  destruct (kind_of_name a) as [[]|]; try (left; eexists; reflexivity); try (right; reflexivity).
  destruct (sc_has_cert c); [|right; reflexivity].
  destruct (sc_has_cas c); [left; eexists; reflexivity | right; reflexivity].
Qed.

Lemma new_server_iff c :
  (exists e, new_server c = CfgOk e) <->
  exists s rest, url_scheme (sc_url c) s rest /\ server_scheme s = true /\ rest <> [] /\
                 server_creds_ok s c.
Proof.
  split.
  - intros [e H]. exact (new_server_inv c e H).
  - intros [s [rest [Hu [Hs [Hr Hc]]]]]. eexists. apply new_server_ok; eassumption.
Qed.

Lemma new_server_refused c :
  ~ (exists s rest, url_scheme (sc_url c) s rest /\ server_scheme s = true /\ rest <> [] /\
                    server_creds_ok s c) ->
  new_server c = CfgErr EConfig.
Proof.
  intros Hn. destruct (new_server_total c) as [He | He]; [|exact He].
  apply new_server_iff in He. destruct (Hn He).
Qed.

Lemma new_server_eff c e s rest :
  new_server c = CfgOk e -> url_scheme (sc_url c) s rest ->
  e = spec_server_eff s rest c.
Proof.
  intros H Hu. destruct (new_server_inv c e H) as [s' [r' [Hu' [Hs [Hr Hc]]]]].
  destruct (url_scheme_unique _ _ _ _ _ Hu Hu') as [<- <-].
  rewrite (new_server_ok c s rest Hu Hs Hr Hc) in H. congruence.
Qed.

Lemma new_server_no_host c s :
  url_scheme (sc_url c) s [] -> new_server c = CfgErr EConfig.
Proof.
  intros Hu. apply new_server_refused. intros [s' [r [Hu' [_ [Hr _]]]]].
  destruct (url_scheme_unique _ _ _ _ _ Hu Hu') as [_ <-]. apply Hr. reflexivity.
Qed.

Lemma new_server_no_sep c :
  ~ occurs sep_text (sc_url c) -> new_server c = CfgErr EConfig.
Proof.
  intros H. apply split_url_none in H. unfold new_server, url_parts. rewrite H.
  destruct (sc_url c); reflexivity.
Qed.

Lemma server_defaults c e :
  new_server c = CfgOk e ->
  (sc_timeout c = 0%Z -> se_timeout e = 120000000000%Z) /\
  (sc_timeout c <> 0%Z -> se_timeout e = sc_timeout c) /\
  (sc_max_clients c = 0 -> se_max_clients e = 10) /\
  (sc_max_clients c <> 0 -> se_max_clients e = sc_max_clients c) /\
  (se_transport e = TTcp \/ se_transport e = TTcpOverTls) /\
  exists sk, server_wiring (se_transport e) = Some (sk, KMbap).
Proof.
  intros H. destruct (new_server_inv c e H) as [s [rest [Hu [Hs _]]]].
  rewrite (new_server_eff c e s rest H Hu).
  unfold spec_server_eff; cbn [se_timeout se_max_clients se_transport].
  repeat split.
  - intros ->. reflexivity.
  - intros Hz. unfold fillz. destruct (Z.eqb_spec (sc_timeout c) 0); [contradiction | reflexivity].
  - intros ->. reflexivity.
  - intros Hz. unfold fill. destruct (N.eqb_spec (sc_max_clients c) 0); [contradiction | reflexivity].
  - destruct s; try discriminate Hs; [left | right]; reflexivity.
  - destruct s; try discriminate Hs; eexists; reflexivity.
Qed.

(* --------------------------------------------------------- SetEncoding *)

Lemma set_encoding_ok st e w :
  valid_selector e -> valid_selector w ->
  set_encoding st e w = (mkes e w, None).
Proof. intros [-> | ->] [-> | ->]; reflexivity. Qed.

Lemma set_encoding_refused st e w :
  ~ (valid_selector e /\ valid_selector w) ->
  set_encoding st e w = (st, Some EUnexpectedParams).
Proof.
  intros H. unfold set_encoding, valid_selector in *.
  destruct (N.eqb_spec e 1), (N.eqb_spec e 2), (N.eqb_spec w 1), (N.eqb_spec w 2);
    cbn [negb andb]; try reflexivity; exfalso; apply H; auto.
Qed.

Lemma set_encoding_iff st e w :
  snd (set_encoding st e w) = None <-> valid_selector e /\ valid_selector w.
Proof.
  split.
  - intros H. destruct (N.eq_dec e 1) as [He1 | He1], (N.eq_dec e 2) as [He2 | He2],
      (N.eq_dec w 1) as [Hw1 | Hw1], (N.eq_dec w 2) as [Hw2 | Hw2];
      try (split; unfold valid_selector; auto; fail);
      rewrite set_encoding_refused in H; try discriminate H;
      unfold valid_selector; intros [[?|?] [?|?]]; congruence.
  - intros [He Hw]. rewrite set_encoding_ok; auto.
Qed.

Lemma set_encoding_total st e w :
  set_encoding st e w = (mkes e w, None) \/ set_encoding st e w = (st, Some EUnexpectedParams).
Proof.
  unfold set_encoding.
  destruct (andb (negb (e =? 1)) (negb (e =? 2))); [right; reflexivity|].
  destruct (andb (negb (w =? 1)) (negb (w =? 2))); [right | left]; reflexivity.
Qed.

(* ------------------------------------- restatements used by Properties *)

Lemma url_scheme_split u s rest :
  url_scheme u s rest -> split_url u = Some (scheme_name s, rest).
Proof. intros H. apply split_url_spec. apply url_scheme_first_split. exact H. Qed.

Lemma new_client_accept_iff c :
  (exists e, new_client c = CfgOk e) <->
  exists s rest, cc_url c = scheme_name s ++ str "://" ++ rest /\
                 (s = STcpTls -> cc_has_cert c = true /\ cc_has_cas c = true).
Proof.
  rewrite new_client_iff. split; intros [s [rest [Hu Hc]]]; exists s, rest;
    (split; [exact Hu|]); unfold client_creds_ok in *.
  - intros ->. apply Hc. reflexivity.
  - intros Hn. apply Hc. destruct s; try discriminate Hn. reflexivity.
Qed.

Lemma new_client_unknown_scheme' c a b :
  split_url (cc_url c) = Some (a, b) -> (forall s, a <> scheme_name s) ->
  new_client c = CfgErr EConfig.
Proof. intros H. apply (new_client_unknown_scheme c a b). apply split_url_spec. exact H. Qed.

Lemma new_server_accept_iff c :
  (exists e, new_server c = CfgOk e) <->
  exists s rest, sc_url c = scheme_name s ++ str "://" ++ rest /\
                 (s = STcp \/ s = STcpTls) /\ rest <> [] /\
                 (s = STcpTls -> sc_has_cert c = true /\ sc_has_cas c = true).
Proof.
  rewrite new_server_iff.
  split; intros [s [rest [Hu [Hs [Hr Hc]]]]]; exists s, rest;
    (split; [exact Hu|]); unfold server_creds_ok in *.
  - split; [destruct s; try discriminate Hs; auto|]. split; [exact Hr|].
    intros ->. apply Hc. reflexivity.
  - split; [destruct Hs as [-> | ->]; reflexivity|]. split; [exact Hr|].
    intros Hn. apply Hc. destruct s; try discriminate Hn. reflexivity.
Qed.
