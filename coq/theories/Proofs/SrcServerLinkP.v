(* server.go handleTransport inside the linked program [src_pure]: one iteration
   of the loop for every request (the per-class lemmas put together), the whole
   function in an environment that satisfies the world and callee hypotheses,
   and the function called through [call_with src_pure base], the callee
   hypotheses discharged by the lemmas about the linked callees. The transport
   and the handler are the external functions of the base environment. *)
From Coq Require Import List NArith String Lia Bool.
From Coq Require Import ZifyBool ZifyNat ZifyN.
Import ListNotations.
From Modbus Require Import Base.Bytes Model.GoLite Gen.SrcPure Model.Crc Model.Encoding.
From Modbus Require Import Model.Wire Model.Client Model.Server.
From Modbus Require Import Proofs.GoLiteP Proofs.GoLiteLinkP Proofs.SrcCrcP Proofs.SrcLinkP Proofs.SrcMiscP Proofs.SrcClientP.
From Modbus Require Import Proofs.SrcServerP.
From Modbus Require Proofs.SrcServerReadBitsP Proofs.SrcServerReadRegsP Proofs.SrcServerWriteSingleP
                    Proofs.SrcServerWriteMultiP Proofs.SrcServerLoopP.
Open Scope string_scope.
Open Scope N_scope.

(* ---------------------------------------------------------------- one iteration, any request *)

Lemma srv_iteration fe fuel W started tt ca cr w rest req :
  world_hyp fe W -> srv_callee_hyp fe -> List.length rest = 18%nat -> snd (w_read W w) = RdOk req ->
  srv_iter_spec fe fuel W started tt ca cr w rest req.
Proof.
  intros HW HC Hlen Hrd.
  destruct (N.eq_dec (p_fc req) 1) as [E1|N1];
    [apply SrcServerReadBitsP.srv_iter_read_bits; try assumption; left; exact E1|].
  destruct (N.eq_dec (p_fc req) 2) as [E2|N2];
    [apply SrcServerReadBitsP.srv_iter_read_bits; try assumption; right; exact E2|].
  destruct (N.eq_dec (p_fc req) 3) as [E3|N3];
    [apply SrcServerReadRegsP.srv_iter_read_regs; try assumption; left; exact E3|].
  destruct (N.eq_dec (p_fc req) 4) as [E4|N4];
    [apply SrcServerReadRegsP.srv_iter_read_regs; try assumption; right; exact E4|].
  destruct (N.eq_dec (p_fc req) 5) as [E5|N5];
    [apply SrcServerWriteSingleP.srv_iter_write_single; try assumption; left; exact E5|].
  destruct (N.eq_dec (p_fc req) 6) as [E6|N6];
    [apply SrcServerWriteSingleP.srv_iter_write_single; try assumption; right; exact E6|].
  destruct (N.eq_dec (p_fc req) 15) as [E15|N15];
    [apply SrcServerWriteMultiP.srv_iter_write_multi; try assumption; left; exact E15|].
  destruct (N.eq_dec (p_fc req) 16) as [E16|N16];
    [apply SrcServerWriteMultiP.srv_iter_write_multi; try assumption; right; exact E16|].
  apply SrcServerLoopP.srv_iter_unsupported; assumption.
Qed.

(* ---------------------------------------------------------------- the whole function, callees as hypotheses *)

Lemma run_handleTransport_all fe fuel W started tt ca cr w : world_hyp fe W -> srv_callee_hyp fe ->
  run_fn ge fe fuel src_fn_ModbusServer_handleTransport [started; tt; VN ca; VN cr; w] =
  match srv_loop W ca cr fuel w with Some w' => GOk [started; tt; w'] | None => GoLite.OutOfFuel end.
Proof.
  intros HW HC.
  apply (SrcServerLoopP.run_handleTransport fe fuel W started tt ca cr HW).
  intros w0 rest req Hlen Hrd. apply srv_iteration; assumption.
Qed.

(* ---------------------------------------------------------------- the hypotheses in the linked program *)

(* the external functions are not functions of the program: the body of
   handleTransport finds them in the base environment *)
Lemma world_hyp_linked base fuel W : world_hyp base W ->
  world_hyp (env_of base "ModbusServer.handleTransport" fuel) W.
Proof.
  intros (Hread & Hcoils & Hdisc & Hhold & Hinp & Hwrite & Hclose & Hherr).
  unfold world_hyp, env_of.
  split; [|split; [|split; [|split; [|split; [|split; [|split]]]]]].
  - intros w0.
    rewrite (env_base src_pure base "ModbusServer.handleTransport" "transport.ReadRequest" eq_refl).
    exact (Hread w0).
  - intros w0 ca cr u a q wr args.
    rewrite (env_base src_pure base "ModbusServer.handleTransport" "handler.HandleCoils" eq_refl).
    exact (Hcoils w0 ca cr u a q wr args).
  - intros w0 ca cr u a q.
    rewrite (env_base src_pure base "ModbusServer.handleTransport" "handler.HandleDiscreteInputs" eq_refl).
    exact (Hdisc w0 ca cr u a q).
  - intros w0 ca cr u a q wr args.
    rewrite (env_base src_pure base "ModbusServer.handleTransport" "handler.HandleHoldingRegisters" eq_refl).
    exact (Hhold w0 ca cr u a q wr args).
  - intros w0 ca cr u a q.
    rewrite (env_base src_pure base "ModbusServer.handleTransport" "handler.HandleInputRegisters" eq_refl).
    exact (Hinp w0 ca cr u a q).
  - intros w0 res.
    rewrite (env_base src_pure base "ModbusServer.handleTransport" "transport.WriteResponse" eq_refl).
    exact (Hwrite w0 res).
  - intros w0.
    rewrite (env_base src_pure base "ModbusServer.handleTransport" "transport.Close" eq_refl).
    exact (Hclose w0).
  - exact Hherr.
Qed.

(* the internal callees are the linked functions, whose lemmas ask for fuel
   above the sizes that the server lets through *)
Lemma srv_callee_hyp_linked base fuel : (2000 < fuel)%nat ->
  srv_callee_hyp (env_of base "ModbusServer.handleTransport" fuel).
Proof.
  intros Hfuel. unfold srv_callee_hyp, env_of.
  split; [|split; [|split; [|split; [|split; [|split]]]]].
  - intros e v. callee "ModbusServer.handleTransport" "uint16ToBytes" src_fn_uint16ToBytes.
    apply src_uint16ToBytes_ok.
  - intros e l. callee "ModbusServer.handleTransport" "bytesToUint16" src_fn_bytesToUint16.
    apply src_bytesToUint16_ok.
  - intros l Hl. callee "ModbusServer.handleTransport" "encodeBools" src_fn_encodeBools.
    apply src_encodeBools_ok; [|lia].
    apply N.le_lt_trans with 2000; [lia|reflexivity].
  - intros q bs Hq Hbs. callee "ModbusServer.handleTransport" "decodeBools" src_fn_decodeBools.
    apply src_decodeBools_ok; [lia|lia|exact Hbs].
  - intros l Hl. callee "ModbusServer.handleTransport" "bytesToUint16s" src_fn_bytesToUint16s.
    apply (src_bytesToUint16s_ok base fuel BigE l); [|lia].
    apply N.le_lt_trans with 254; [lia|reflexivity].
  - intros vs Hvs. callee "ModbusServer.handleTransport" "uint16sToBytes" src_fn_uint16sToBytes.
    apply (src_uint16sToBytes_ok base fuel BigE vs).
    apply N.le_lt_trans with 125; [lia|reflexivity].
  - intros v Hv. callee "ModbusServer.handleTransport" "mapErrorToExceptionCode" src_fn_mapErrorToExceptionCode.
    apply src_mapErrorToExceptionCode_ok. exact Hv.
Qed.

(* ---------------------------------------------------------------- the linked function *)

(* the call is the run of the body in the environment of the functions before it *)
Lemma handleTransport_link base fuel args :
  call_with src_pure base fuel "ModbusServer.handleTransport" args =
  run_fn (globals (p_globals src_pure)) (env_in_with src_pure base "ModbusServer.handleTransport" fuel) fuel
         src_fn_ModbusServer_handleTransport args.
Proof. link_step "ModbusServer.handleTransport" src_fn_ModbusServer_handleTransport. reflexivity. Qed.

Lemma handleTransport_link_env base fuel args :
  call_with src_pure base fuel "ModbusServer.handleTransport" args =
  run_fn ge (env_of base "ModbusServer.handleTransport" fuel) fuel src_fn_ModbusServer_handleTransport args.
Proof. exact (handleTransport_link base fuel args). Qed.

Theorem src_handleTransport_ok base fuel W started tt ca cr w : world_hyp base W -> (2000 < fuel)%nat ->
  call_with src_pure base fuel "ModbusServer.handleTransport" [started; tt; VN ca; VN cr; w] =
  match srv_loop W ca cr fuel w with Some w' => GOk [started; tt; w'] | None => GoLite.OutOfFuel end.
Proof.
  intros HW Hfuel.
  rewrite handleTransport_link_env.
  exact (run_handleTransport_all (env_of base "ModbusServer.handleTransport" fuel) fuel W started tt ca cr w
           (world_hyp_linked base fuel W HW) (srv_callee_hyp_linked base fuel Hfuel)).
Qed.

Print Assumptions src_handleTransport_ok.
