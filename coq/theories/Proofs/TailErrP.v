(* Proofs about Model/TailErr.v: io.ReadFull over a connection whose Reads may
   report the end of the stream together with the last bytes agrees with
   read_full over the flat stream, hence (generic lemmas of Proofs/ChunksP.v)
   every reader, the client call and the server session over that delivery
   equal their value on the concatenation: where the end condition is
   reported - with the last bytes or after them - cannot be observed. The C13
   facts about cut streams then hold for this delivery as well. *)
From Modbus Require Import Base.Bytes Model.Crc Model.Encoding Model.Wire Model.Client Model.Server
  Model.Chunks Model.TailErr
  Spec.ModbusSpec Spec.ClientSpec Spec.ServerSpec Spec.ServerSessionSpec Spec.SegmentSpec Spec.CutSpec
  Proofs.ClientRespP Proofs.ServerP Proofs.ChunksP Proofs.CutP.
From Coq Require Import ZifyBool ZifyNat ZifyN.
Ltac Zify.zify_post_hook ::= Z.div_mod_to_equations.

(* ---------------------------------------------------------------- io.ReadFull *)

Section ReadFullE.
  Context {T : Type} (rd : nat -> T -> rde_res T) (flat : T -> list N) (measure : T -> nat).

  (* one Read delivers a prefix of the stream, no more than asked for; a Read
     of 0 bytes without error uses up some finite resource; once a Read has
     reported the end nothing is left *)
  Definition rde_ok : Prop := forall n s, (0 < n)%nat ->
    match rd n s with
    | RdE got fin s' =>
        flat s = got ++ flat s' /\ (length got <= n)%nat /\
        if fin then flat s' = []
        else (measure s' <= measure s)%nat /\ (got = [] -> (measure s' < measure s)%nat)
    end.

  Lemma io_read_full_e_ok : rde_ok -> forall fuel n acc s, (n + measure s <= fuel)%nat ->
    match io_read_full_e rd fuel n acc s with
    | GFull g r => (n <= length (flat s))%nat /\ g = acc ++ firstn n (flat s) /\ flat r = skipn n (flat s)
    | GShort g r => (length (flat s) < n)%nat /\ g = acc ++ flat s /\ flat r = []
    end.
  Proof.
    intros Hok. induction fuel as [|f IH]; intros n acc s Hf.
    - destruct n as [|k]; [|lia]. cbn [io_read_full_e firstn skipn].
      rewrite app_nil_r. repeat split. lia.
    - destruct n as [|k].
      + cbn [io_read_full_e firstn skipn]. rewrite app_nil_r. repeat split. lia.
      + cbn [io_read_full_e]. pose proof (Hok (S k) s ltac:(lia)) as H1.
        destruct (rd (S k) s) as [got fin s']. destruct H1 as (Hfl & Hlen & Hfin).
        destruct fin.
        * (* the Read carries the end condition: its bytes count first *)
          rewrite Hfl, Hfin, app_nil_r.
          destruct (Nat.leb (S k) (length got)) eqn:El.
          -- apply Nat.leb_le in El. rewrite Hfin.
             rewrite firstn_all2 by lia. rewrite skipn_all2 by lia. repeat split. lia.
          -- apply Nat.leb_gt in El. rewrite Hfin. repeat split. lia.
        * destruct Hfin as (Hm & Hm0).
          assert (Hfuel : (S k - length got + measure s' <= f)%nat).
          { destruct got as [|x got]; [specialize (Hm0 eq_refl); cbn [length]; lia|cbn [length] in *; lia]. }
          specialize (IH (S k - length got)%nat (acc ++ got) s' Hfuel).
          destruct (io_read_full_e rd f (S k - length got) (acc ++ got) s') as [g r|g r].
          -- destruct IH as (Hn & Hg & Hr). rewrite Hfl. rewrite app_length.
             rewrite firstn_app, skipn_app.
             rewrite (firstn_all2 got) by lia. rewrite (skipn_all2 got) by lia.
             cbn [app]. rewrite <- app_assoc in Hg. repeat split; [lia|exact Hg|exact Hr].
          -- destruct IH as (Hn & Hg & Hr). rewrite Hfl. rewrite app_length.
             rewrite <- app_assoc in Hg. repeat split; [lia|exact Hg|exact Hr].
  Qed.
End ReadFullE.

Lemma rdf_ok_of_rde {T : Type} (rd : nat -> T -> rde_res T) flat measure :
  rde_ok rd flat measure ->
  rdf_ok (fun n s => io_read_full_e rd (n + measure s) n [] s) flat.
Proof.
  intros Hok n s. pose proof (io_read_full_e_ok rd flat measure Hok (n + measure s) n [] s (le_n _)) as H.
  destruct (io_read_full_e rd (n + measure s) n [] s) as [g r|g r]; destruct H as (Hn & Hg & Hr);
    cbn [app] in Hg; unfold read_full.
  - replace (Nat.leb n (length (flat s))) with true by (symmetry; apply Nat.leb_le; lia).
    rewrite Hg, Hr. reflexivity.
  - replace (Nat.leb n (length (flat s))) with false by (symmetry; apply Nat.leb_gt; lia).
    rewrite Hg. split; [reflexivity|exact Hr].
Qed.

(* ---------------------------------------------------------------- the delivery *)

Definition tc_measure (c : tconn) : nat := length (tc_chunks c).

Lemma tail_read_ok : rde_ok tail_read tc_flat tc_measure.
Proof.
  intros n c Hn. unfold tail_read, tc_flat, tc_measure. destruct c as [cs tl]. cbn [tc_chunks tc_tail].
  destruct cs as [|ch cs'].
  - cbn [concat app length]. repeat split. lia.
  - destruct (Nat.leb (length ch) n) eqn:El.
    + apply Nat.leb_le in El. cbn [tc_chunks concat]. split; [reflexivity|]. split; [exact El|].
      destruct (andb tl (is_nil cs')) eqn:Ef.
      * apply andb_prop in Ef. destruct Ef as [_ Ef]. destruct cs'; [reflexivity|discriminate Ef].
      * cbn [length]. split; [lia|]. intros _. lia.
    + apply Nat.leb_gt in El. cbn [tc_chunks concat length]. rewrite app_assoc, firstn_skipn.
      split; [reflexivity|]. split; [rewrite firstn_length; lia|]. split; [lia|].
      intros H0. apply (f_equal (@length N)) in H0. rewrite firstn_length in H0. cbn [length] in H0. lia.
Qed.

(* T1: a full read obtains exactly the bytes, and leaves exactly the rest,
   that a full read over the concatenated stream does *)
Lemma read_full_tail_ok : rdf_ok read_full_tail tc_flat.
Proof. exact (rdf_ok_of_rde tail_read tc_flat tc_measure tail_read_ok). Qed.

Lemma tc_size_ok c : tc_size c = length (tc_flat c).
Proof. reflexivity. Qed.

(* T2: the readers over the delivery = the flat readers on the concatenation *)
Lemma read_mbap_tail e c :
  read_mbap e (tc_flat c) = (fst (read_mbap_t e c), tc_flat (snd (read_mbap_t e c))).
Proof. exact (g_read_mbap_flat read_full_tail tc_flat read_full_tail_ok e c). Qed.

Lemma read_rtu_tail e c :
  read_rtu e (tc_flat c) = (fst (read_rtu_t e c), tc_flat (snd (read_rtu_t e c))).
Proof. exact (g_read_rtu_flat read_full_tail tc_flat read_full_tail_ok e c). Qed.

Lemma client_call_tail fr cfg txn o e c :
  client_call fr cfg txn o e (tc_flat c) =
  let r := client_call_t fr cfg txn o e c in
  mkcall (gcr_res r) (gcr_writes r) (tc_flat (gcr_rest r)) (gcr_txn r).
Proof.
  exact (g_client_call_flat read_full_tail tc_size tc_flat read_full_tail_ok tc_size_ok fr cfg txn o e c).
Qed.

Lemma client_call_tail_res fr cfg txn o e c :
  gcr_res (client_call_t fr cfg txn o e c) = cr_res (client_call fr cfg txn o e (tc_flat c)).
Proof. rewrite client_call_tail. reflexivity. Qed.

Lemma server_run_tail {St : Type} (h : handler St) st e c :
  server_run_t h st e c = server_run h st e (tc_flat c).
Proof.
  symmetry.
  exact (g_server_run_flat read_full_tail tc_size tc_flat read_full_tail_ok tc_size_ok h st e c).
Qed.

(* where the end is reported cannot be observed: the same chunks with the end
   in the last data Read, or in a Read of its own (Model/Chunks.v) *)
Lemma server_run_tail_any {St : Type} (h : handler St) st e cs tl :
  server_run_t h st e (mktconn cs tl) = server_run_c h st e cs.
Proof. rewrite server_run_tail, server_run_chunks. reflexivity. Qed.

Lemma client_call_tail_any fr cfg txn o e cs tl :
  let r := client_call_t fr cfg txn o e (mktconn cs tl) in
  let r' := client_call_c fr cfg txn o e cs in
  gcr_res r = gcr_res r' /\ gcr_writes r = gcr_writes r' /\ gcr_txn r = gcr_txn r' /\
  tc_flat (gcr_rest r) = concat (gcr_rest r').
Proof.
  pose proof (client_call_tail fr cfg txn o e (mktconn cs tl)) as H1.
  pose proof (client_call_chunks fr cfg txn o e cs) as H2.
  unfold tc_flat in H1 at 1. cbn [tc_chunks] in H1. rewrite H1 in H2. cbv zeta in H2.
  injection H2 as Ha Hb Hc Hd. cbv zeta. auto.
Qed.

(* ---------------------------------------------------------------- C13 over the delivery *)

Section CutTail.
  Context {St : Type} (h : handler St).

  (* a request cut inside, however it is delivered: no handler call *)
  Lemma server_cut_tail st e t p k cs tl :
    pdu_wf p -> (k < length (spec_mbap t p))%nat -> concat cs = firstn k (spec_mbap t p) ->
    server_run_t h st e (mktconn cs tl) = [EvClosed].
  Proof.
    intros Hp Hk Hc. rewrite server_run_tail. unfold tc_flat. cbn [tc_chunks]. rewrite Hc.
    apply server_cut; assumption.
  Qed.

  (* the request fully received, the end reported with its last bytes or
     after them: exactly the events of processing it once *)
  Lemma server_full_tail st e t p cs tl :
    t < 65536 -> pdu_wf p -> concat cs = spec_mbap t p ->
    server_run_t h st e (mktconn cs tl) =
    let '(st', calls, act) := server_process h st p in
    map EvCall calls ++
    match act with
    | Respond r => [EvResp (spec_mbap t r); EvClosed]
    | CloseLink => [EvClosed]
    end.
  Proof.
    intros Ht Hp Hc. rewrite server_run_tail. unfold tc_flat. cbn [tc_chunks]. rewrite Hc.
    apply server_full; assumption.
  Qed.

  Lemma server_full_once_tail st e t p r cs tl :
    t < 65536 -> pdu_wf p -> handler_wf h -> spec_decode p = Some r -> in_range r = true ->
    concat cs = spec_mbap t p ->
    server_run_t h st e (mktconn cs tl) =
      [EvCall r; EvResp (spec_mbap t (spec_response p r (snd (h st r)))); EvClosed].
  Proof.
    intros Ht Hp Hh Hd Hr Hc. rewrite server_run_tail. unfold tc_flat. cbn [tc_chunks]. rewrite Hc.
    apply server_full_once; assumption.
  Qed.

  (* pipelined requests, only the last Read carries the end: every complete
     request is processed once, in order, then whatever the cut tail gives *)
  Lemma server_pipelined_tail frames rest st e cs tl :
    Forall (fun f => fst f < 65536 /\ pdu_wf (snd f)) frames ->
    concat cs = concat (map (fun f => spec_mbap (fst f) (snd f)) frames) ++ rest ->
    server_run_t h st e (mktconn cs tl) =
    spec_session h st frames (fun st' => server_run h st' e rest).
  Proof.
    intros HF Hc. rewrite server_run_tail_any. apply server_pipelined_chunks; assumption.
  Qed.

  Lemma spec_session_ext frames : forall st (k1 k2 : St -> list event),
    (forall st', k1 st' = k2 st') -> spec_session h st frames k1 = spec_session h st frames k2.
  Proof.
    induction frames as [|[t p] fs IH]; intros st k1 k2 Hk; cbn [spec_session]; [apply Hk|].
    destruct (server_process h st p) as [[st' calls] act]. f_equal.
    destruct act as [r|]; [|reflexivity]. f_equal. apply IH. exact Hk.
  Qed.

  (* ... and the request cut inside contributes no call at all *)
  Lemma server_pipelined_cut_tail frames t p k st e cs tl :
    Forall (fun f => fst f < 65536 /\ pdu_wf (snd f)) frames ->
    pdu_wf p -> (k < length (spec_mbap t p))%nat ->
    concat cs = concat (map (fun f => spec_mbap (fst f) (snd f)) frames) ++ firstn k (spec_mbap t p) ->
    server_run_t h st e (mktconn cs tl) = spec_session h st frames (fun _ => [EvClosed]).
  Proof.
    intros HF Hp Hk Hc. rewrite (server_pipelined_tail frames (firstn k (spec_mbap t p)) st e cs tl HF Hc).
    apply spec_session_ext. intros st'. apply server_cut; assumption.
  Qed.
End CutTail.

(* a reply cut inside, however it is delivered: never a success *)
Lemma client_cut_tail_never_ok fr cfg txn o e res vs frames k cs tl :
  op_wf o -> cfg_wf cfg -> valid_op o = true ->
  bytesb (p_payload res) = true -> answers cfg o res vs ->
  match fr with
  | FMbap => txn < 65536 /\ Forall (skippable (u16 (txn + 1))) frames
  | FRtu => frames = []
  end ->
  (k < length (concat frames ++ spec_frame fr (u16 (txn + 1)) res))%nat ->
  concat cs = firstn k (concat frames ++ spec_frame fr (u16 (txn + 1)) res) ->
  let r := gcr_res (client_call_t fr cfg txn o e (mktconn cs tl)) in
  cut_failed r /\ forall vs', r <> Ok vs'.
Proof.
  intros Hwf Hcfg V Hb Hans Hfr Hk Hc. cbv zeta. rewrite client_call_tail_res.
  unfold tc_flat. cbn [tc_chunks]. rewrite Hc.
  exact (client_cut_never_ok fr cfg txn o e res vs frames k Hwf Hcfg V Hb Hans Hfr Hk).
Qed.

(* the complete valid reply, the end reported with its last bytes: success *)
Lemma client_full_tail_mbap cfg txn o e res vs frames cs tl :
  op_wf o -> cfg_wf cfg -> txn < 65536 -> valid_op o = true ->
  bytesb (p_payload res) = true -> answers cfg o res vs ->
  Forall (skippable (u16 (txn + 1))) frames ->
  concat cs = concat frames ++ spec_frame FMbap (u16 (txn + 1)) res ->
  gcr_res (client_call_t FMbap cfg txn o e (mktconn cs tl)) = Ok vs.
Proof.
  intros Hwf Hcfg Ht V Hb Hans HF Hc. rewrite client_call_tail_res.
  unfold tc_flat. cbn [tc_chunks]. rewrite Hc.
  pose proof (client_complete_mbap cfg txn o e res vs frames [] Hwf Hcfg Ht V Hb Hans HF) as H.
  cbv zeta in H. rewrite app_nil_r in H. exact (proj1 H).
Qed.

Lemma client_full_tail_rtu cfg txn o e res vs cs tl :
  op_wf o -> cfg_wf cfg -> valid_op o = true ->
  bytesb (p_payload res) = true -> answers cfg o res vs ->
  concat cs = spec_frame FRtu 0 res ->
  gcr_res (client_call_t FRtu cfg txn o e (mktconn cs tl)) = Ok vs.
Proof.
  intros Hwf Hcfg V Hb Hans Hc. rewrite client_call_tail_res.
  unfold tc_flat. cbn [tc_chunks]. rewrite Hc.
  pose proof (client_complete_rtu cfg txn o e res vs [] Hwf Hcfg V Hb Hans) as H.
  cbv zeta in H. rewrite app_nil_r in H. exact (proj1 H).
Qed.

Lemma client_full_tail cfg txn o e res vs cs tl :
  op_wf o -> cfg_wf cfg -> valid_op o = true ->
  bytesb (p_payload res) = true -> answers cfg o res vs ->
  (forall frames, txn < 65536 -> Forall (skippable (u16 (txn + 1))) frames ->
     concat cs = concat frames ++ spec_frame FMbap (u16 (txn + 1)) res ->
     gcr_res (client_call_t FMbap cfg txn o e (mktconn cs tl)) = Ok vs) /\
  (concat cs = spec_frame FRtu 0 res ->
     gcr_res (client_call_t FRtu cfg txn o e (mktconn cs tl)) = Ok vs).
Proof.
  intros Hwf Hcfg V Hb Hans. split.
  - intros frames Ht HF Hc. exact (client_full_tail_mbap cfg txn o e res vs frames cs tl Hwf Hcfg Ht V Hb Hans HF Hc).
  - intros Hc. exact (client_full_tail_rtu cfg txn o e res vs cs tl Hwf Hcfg V Hb Hans Hc).
Qed.

(* the two "cannot be observed" facts with the chunk list spelled out *)
Lemma server_run_tail_flat {St : Type} (h : handler St) st e cs tl :
  server_run_t h st e (mktconn cs tl) = server_run h st e (concat cs).
Proof. exact (server_run_tail h st e (mktconn cs tl)). Qed.

Lemma client_call_tail_flat fr cfg txn o e cs tl :
  client_call fr cfg txn o e (concat cs) =
  let r := client_call_t fr cfg txn o e (mktconn cs tl) in
  mkcall (gcr_res r) (gcr_writes r) (tc_flat (gcr_rest r)) (gcr_txn r).
Proof. exact (client_call_tail fr cfg txn o e (mktconn cs tl)). Qed.
