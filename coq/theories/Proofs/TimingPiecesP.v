(* Proofs about Model/TimingPieces.v: a reply read in pieces. The send-time
   machine keeps the inter-frame silence for every history, every clock and
   every way the replies are cut into reads, PROVIDED the instant recorded as
   the end of a received frame is not earlier than the return of the read
   that consumed its last byte; the code's time.Now() is such an instant; an
   estimate made from the header is not. *)
From Modbus Require Import Base.Bytes Model.Timing Model.TimingPieces Proofs.TimingP.
From Coq Require Import ZifyBool ZifyNat ZifyN.
Ltac Zify.zify_post_hook ::= Z.div_mod_to_equations.
Local Open Scope Z_scope.

(* ------------------------------------------------------------------ pieces *)

Lemma pieces_span_nonneg ps : Forall piece_ok ps -> 0 <= pieces_span ps.
Proof.
  induction 1 as [|p ps (_ & Hd & _) _ IH]; cbn [pieces_span fold_right]; [lia|].
  fold (pieces_span ps). lia.
Qed.

Lemma header_span_bounds ps : Forall piece_ok ps ->
  forall got, 0 <= header_span got ps /\ header_span got ps <= pieces_span ps.
Proof.
  induction 1 as [|p ps (_ & Hd & _) Hps IH]; intros got; cbn [header_span pieces_span fold_right]; [lia|].
  fold (pieces_span ps). pose proof (pieces_span_nonneg ps Hps) as Hs.
  destruct (3 <=? got + pc_len p); [lia|].
  specialize (IH (got + pc_len p)). lia.
Qed.

Lemma pieces_early_nonneg ps : Forall piece_ok ps -> 0 <= pieces_early ps.
Proof.
  unfold pieces_early. induction 1 as [|p ps Hp Hps IH]; [cbn; lia|].
  destruct ps as [|q ps']; [cbn [last]; destruct Hp as (_ & _ & He); exact He|].
  exact IH.
Qed.

Lemma plan_reads_ok segs : plan_ok segs -> Forall piece_ok (plan_reads segs).
Proof.
  unfold plan_ok, plan_reads. induction 1 as [|sp segs (Hl & Hp) _ IH]; cbn [map]; constructor.
  - unfold piece_ok. cbn [pc_len pc_dur pc_early]. lia.
  - exact IH.
Qed.

Lemma plan_reads_early segs : pieces_early (plan_reads segs) = 0.
Proof.
  unfold pieces_early, plan_reads. induction segs as [|sp segs IH]; [reflexivity|].
  cbn [map]. destruct segs as [|sq segs']; [reflexivity|].
  cbn [map] in IH |- *. exact IH.
Qed.

(* --------------------------------------------------------------- policies *)

Lemma stamp_now_sound : sound_policy stamp_now.
Proof. intros t1 tr _ (_ & _ & H). exact H. Qed.

Lemma stamp_last_read_sound : sound_policy stamp_last_read.
Proof. intros t1 tr _ _. unfold stamp_last_read. lia. Qed.

(* a policy that is sound is the pointwise condition of the property *)
Lemma sound_policy_later pol pol' : sound_policy pol ->
  (forall t1 tr, pol t1 tr <= pol' t1 tr) -> sound_policy pol'.
Proof. intros H Hle t1 tr Ht Htr. specialize (H t1 tr Ht Htr). specialize (Hle t1 tr). lia. Qed.

(* the estimate: a header, then a body that comes later than line rate *)
Lemma stamp_estimate_unsound : ~ sound_policy stamp_estimate.
Proof.
  intros H. specialize (H 1 (mk_rtrace 0 0 4 10 10) ltac:(lia)).
  unfold trace_ok, stamp_estimate in H. cbn [rt_call rt_header rt_need rt_last rt_now] in H. lia.
Qed.

(* ------------------------------------------------------- send-time machine *)

(* with the code's stamp the refined machine is the machine of Model/Timing.v
   run on the reads taken together *)
Lemma exchange_p_flat t1 t35 s x ps :
  exchange_p stamp_now t1 t35 s x ps = exchange t1 t35 s (flat x ps).
Proof.
  unfold exchange_p, flat. destruct (x_out x) eqn:Eo; try reflexivity.
  unfold exchange, stamp_now.
  cbn [x_n x_out x_enter x_sleep1 x_write x_written x_sleep2 x_read x_rx x_stamp rt_now].
  f_equal; f_equal; lia.
Qed.

Lemma flat_admissible x ps : admissible x -> Forall piece_ok ps -> admissible (flat x ps).
Proof.
  intros (Hn & He & Hs1 & Hw & Hwr & Hs2 & Hr & Hrx & Hst) Hps. unfold flat.
  destruct (x_out x); unfold admissible; try (repeat split; assumption).
  pose proof (pieces_span_nonneg ps Hps). pose proof (pieces_early_nonneg ps Hps).
  cbn [x_n x_out x_enter x_sleep1 x_write x_written x_sleep2 x_read x_rx x_stamp].
  repeat split; lia.
Qed.

Definition step_ok (xp : xchg * list piece) : Prop := admissible (fst xp) /\ Forall piece_ok (snd xp).

Lemma exchange_p_facts pol t1 t35 s x ps s' e :
  sound_policy pol -> 0 <= t1 -> 0 <= t35 -> admissible x -> Forall piece_ok ps ->
  exchange_p pol t1 t35 s x ps = (s', e) ->
  last_activity s + t35 <= ev_tx_start e /\
  last_activity s <= last_activity s' /\
  (forall f, frame_end e = Some f -> f <= last_activity s') /\
  clock s <= clock s'.
Proof.
  intros Hpol Ht1 Ht35 Hx Hps Hex.
  unfold exchange_p in Hex. destruct (x_out x) eqn:Eo;
    try (apply (exchange_facts t1 t35 s x s' e Ht1 Ht35 Hx Hex)).
  destruct Hx as (Hn & He & Hs1 & Hw & Hwr & Hs2 & Hr & Hrx & Hst).
  pose proof (pieces_span_nonneg ps Hps) as Hsp.
  pose proof (pieces_early_nonneg ps Hps) as Hea.
  destruct (header_span_bounds ps Hps 0) as [Hh0 Hh1].
  assert (Hnt : 0 <= x_n x * t1) by nia.
  unfold sleep in Hex. remember (x_n x * t1) as nt eqn:Ent.
  match type of Hex with (mk_tstate _ (pol t1 ?tr), _) = _ => remember tr as tr0 eqn:Etr end.
  assert (Htr : trace_ok tr0).
  { subst tr0. unfold trace_ok. cbn [rt_call rt_header rt_last rt_now]. lia. }
  pose proof (Hpol t1 tr0 Ht1 Htr) as Hla.
  subst tr0. cbn [rt_last] in Hla.
  inversion Hex; subst s' e; clear Hex.
  unfold frame_end; cbn [ev_out ev_tx_start ev_tx_end ev_rx_end last_activity clock].
  (repeat split; [| | intros f Hf; inversion Hf; subst f |]);
    destruct (clock s + x_enter x - (last_activity s + t35) <? 0) eqn:E; lia.
Qed.

Lemma run_p_after pol t1 t35 xs : sound_policy pol -> 0 <= t1 -> 0 <= t35 -> Forall step_ok xs ->
  forall s, Forall (fun e => last_activity s + t35 <= ev_tx_start e) (run_p pol t1 t35 s xs).
Proof.
  intros Hpol Ht1 Ht35 Hok. induction Hok as [|[x ps] xs [Hx Hps] _ IH]; intros s; cbn [run_p]; [constructor|].
  cbn [fst snd] in Hx, Hps.
  destruct (exchange_p pol t1 t35 s x ps) as [s' e] eqn:Ex.
  destruct (exchange_p_facts pol t1 t35 s x ps s' e Hpol Ht1 Ht35 Hx Hps Ex) as (Hstart & Hmono & _ & _).
  constructor; [exact Hstart|].
  eapply Forall_impl; [|apply IH]. cbn beta. intros e' He'. lia.
Qed.

(* every history, every cutting of the replies into reads, every sound policy *)
Lemma run_p_silence pol t1 t35 xs : sound_policy pol -> 0 <= t1 -> 0 <= t35 -> Forall step_ok xs ->
  forall s, ForallOrdPairs
    (fun e1 e2 => forall f, frame_end e1 = Some f -> f + t35 <= ev_tx_start e2)
    (run_p pol t1 t35 s xs).
Proof.
  intros Hpol Ht1 Ht35 Hok. induction Hok as [|[x ps] xs [Hx Hps] Hxs IH]; intros s; cbn [run_p]; [constructor|].
  cbn [fst snd] in Hx, Hps.
  destruct (exchange_p pol t1 t35 s x ps) as [s' e] eqn:Ex.
  destruct (exchange_p_facts pol t1 t35 s x ps s' e Hpol Ht1 Ht35 Hx Hps Ex) as (_ & _ & Hend & _).
  constructor; [|apply IH].
  eapply Forall_impl; [|apply (run_p_after pol t1 t35 xs Hpol Ht1 Ht35 Hxs s')].
  cbn beta. intros e' He' f Hf. specialize (Hend f Hf). lia.
Qed.

Lemma run_p_silence_all : forall pol t1 t35 xs s,
  sound_policy pol -> 0 <= t1 -> 0 <= t35 -> Forall step_ok xs ->
  ForallOrdPairs
    (fun e1 e2 => forall f, frame_end e1 = Some f -> f + t35 <= ev_tx_start e2)
    (run_p pol t1 t35 s xs).
Proof. intros. apply run_p_silence; assumption. Qed.

Lemma run_p_silence_rate : forall pol r xs s i j e1 e2 f,
  sound_policy pol -> 1 <= r -> r <= 10000000 -> Forall step_ok xs -> (i < j)%nat ->
  nth_error (run_p pol (char_time r) (t35 r) s xs) i = Some e1 ->
  nth_error (run_p pol (char_time r) (t35 r) s xs) j = Some e2 ->
  frame_end e1 = Some f -> f + t35 r <= ev_tx_start e2.
Proof.
  intros pol r xs s i j e1 e2 f Hpol H1 H2 Hok Hij Hi Hj Hf.
  destruct (timing_pos r H1 H2) as [Hc Ht].
  assert (Hc0 : 0 <= char_time r) by lia. assert (Ht0 : 0 <= t35 r) by lia.
  exact (ordpairs_nth _ _ (run_p_silence pol (char_time r) (t35 r) xs Hpol Hc0 Ht0 Hok s) i j e1 e2 Hij Hi Hj f Hf).
Qed.

(* the code (stamp_now): the refined history is a history of Model/Timing.v *)
Lemma run_p_flat t1 t35 xs : forall s,
  run_p stamp_now t1 t35 s xs = run t1 t35 s (map (fun xp => flat (fst xp) (snd xp)) xs).
Proof.
  induction xs as [|[x ps] xs IH]; intros s; cbn [run_p run map fst snd]; [reflexivity|].
  rewrite exchange_p_flat. destruct (exchange t1 t35 s (flat x ps)) as [s' e]. rewrite IH. reflexivity.
Qed.

(* the one-sided measurement of the check can never fail a sound policy *)
Lemma run_p_measurement_sound : forall pol r xs s i j e1 e2 f before arrive,
  sound_policy pol -> 1 <= r -> r <= 10000000 -> Forall step_ok xs -> (i < j)%nat ->
  nth_error (run_p pol (char_time r) (t35 r) s xs) i = Some e1 ->
  nth_error (run_p pol (char_time r) (t35 r) s xs) j = Some e2 ->
  frame_end e1 = Some f -> before <= f -> ev_tx_start e2 <= arrive ->
  t35 r <= arrive - before.
Proof.
  intros pol r xs s i j e1 e2 f before arrive Hpol H1 H2 Hok Hij Hi Hj Hf Hb Ha.
  pose proof (run_p_silence_rate pol r xs s i j e1 e2 f Hpol H1 H2 Hok Hij Hi Hj Hf). lia.
Qed.

(* ------------------------------------------------ delivery plans of the check *)

(* nothing but the line takes time: the model keeps exactly t35, however the
   reply is cut and however long the pauses are *)
Lemma plan_gap_now : forall rate n segs, 1 <= rate -> rate <= 10000000 ->
  plan_gap stamp_now rate n segs = t35 rate.
Proof.
  intros rate n segs H1 H2. destruct (timing_pos rate H1 H2) as [_ Ht].
  unfold plan_gap. cbn [run_p]. unfold exchange_p, quiet_xchg, stamp_now, sleep.
  cbn [x_n x_out x_enter x_sleep1 x_write x_written x_sleep2 x_read x_rx x_stamp rt_now
       clock last_activity ev_tx_start ev_rx_end].
  rewrite plan_reads_early.
  remember (pieces_span (plan_reads segs)) as sp. remember (n * char_time rate) as nt.
  remember (t35 rate) as d.
  repeat match goal with |- context [if ?c then _ else _] => destruct c eqn:? end; lia.
Qed.

Lemma slow_silence_okb_iff : forall rate n segs gap, 1 <= rate -> rate <= 10000000 ->
  slow_silence_okb rate n segs gap = true <-> t35 rate <= gap.
Proof.
  intros rate n segs gap H1 H2. unfold slow_silence_okb.
  rewrite (plan_gap_now rate n segs H1 H2). apply Z.leb_le.
Qed.

(* any sound policy keeps at least that much on the same plan *)
Lemma plan_gap_sound : forall pol rate n segs, sound_policy pol -> 1 <= rate -> rate <= 10000000 ->
  0 <= n -> plan_ok segs -> t35 rate <= plan_gap pol rate n segs.
Proof.
  intros pol rate n segs Hpol H1 H2 Hn Hsegs.
  destruct (timing_pos rate H1 H2) as [Hc Ht].
  assert (Hc0 : 0 <= char_time rate) by lia. assert (Ht0 : 0 <= t35 rate) by lia.
  assert (Hq : admissible (quiet_xchg n)).
  { unfold admissible, quiet_xchg.
    cbn [x_n x_enter x_sleep1 x_write x_written x_sleep2 x_read x_rx x_stamp]. lia. }
  pose proof (plan_reads_ok segs Hsegs) as Hps.
  assert (Hok : Forall step_ok [(quiet_xchg n, plan_reads segs); (quiet_xchg n, plan_reads segs)]).
  { constructor; [split; assumption|]. constructor; [split; assumption|]. constructor. }
  pose proof (run_p_silence pol (char_time rate) (t35 rate) _ Hpol Hc0 Ht0 Hok
                (mk_tstate 0 (- t35 rate))) as Hsil.
  unfold plan_gap. cbn [run_p] in Hsil |- *.
  destruct (exchange_p pol (char_time rate) (t35 rate) (mk_tstate 0 (- t35 rate))
              (quiet_xchg n) (plan_reads segs)) as [s1 e1] eqn:E1.
  destruct (exchange_p pol (char_time rate) (t35 rate) s1 (quiet_xchg n) (plan_reads segs)) as [s2 e2] eqn:E2.
  inversion Hsil as [|a l Ha _]; subst. inversion Ha as [|b l' Hb _]; subst.
  assert (He1 : frame_end e1 = Some (ev_rx_end e1)).
  { unfold exchange_p, quiet_xchg in E1. cbn [x_out] in E1. inversion E1. reflexivity. }
  specialize (Hb _ He1). lia.
Qed.

Lemma plan_gap_sound_okb : forall pol rate n segs,
  sound_policy pol -> 1 <= rate -> rate <= 10000000 -> 0 <= n -> plan_ok segs ->
  slow_silence_okb rate n segs (plan_gap pol rate n segs) = true.
Proof.
  intros pol rate n segs Hpol H1 H2 Hn Hs. apply slow_silence_okb_iff; [assumption..|].
  apply plan_gap_sound; assumption.
Qed.

Lemma run_p_flat_all : forall t1 t35 xs s,
  run_p stamp_now t1 t35 s xs = run t1 t35 s (map (fun xp => flat (fst xp) (snd xp)) xs).
Proof. intros. apply run_p_flat. Qed.
