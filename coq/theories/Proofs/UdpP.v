(* Proofs about Model/Udp.v: io.ReadFull through udpSockWrapper.Read presents
   the datagrams (each cut to the 260-byte receive buffer) as one byte stream;
   the leftover is always a suffix of the last datagram received. *)
From Modbus Require Import Base.Bytes Model.Crc Model.Encoding Model.Wire Model.Client Model.Server
  Model.Chunks Model.Udp Spec.SegmentSpec Proofs.ChunksP.
From Coq Require Import ZifyBool ZifyNat ZifyN.
Ltac Zify.zify_post_hook ::= Z.div_mod_to_equations.

Definition usw_measure (u : usw) : nat := length (usw_net u).

Lemma usw_read_ok : rd1_ok usw_read usw_flat usw_measure.
Proof.
  intros n [left net] Hn. unfold usw_read, usw_flat, usw_measure. cbn [usw_left usw_net].
  destruct left as [|b left].
  - destruct net as [|d net']; [reflexivity|]. cbn [usw_left usw_net map concat length app].
    rewrite app_assoc, firstn_skipn. repeat split; try lia.
    rewrite firstn_length. lia.
  - cbn [usw_left usw_net]. rewrite app_assoc, firstn_skipn. repeat split; try lia.
    + rewrite firstn_length. lia.
    + intros H0. destruct n as [|k]; [lia|]. cbn [firstn] in H0. discriminate H0.
Qed.

Lemma usw_read_full_ok : rdf_ok usw_read_full usw_flat.
Proof. exact (rdf_ok_of_rd1 usw_read usw_flat usw_measure usw_read_ok). Qed.

Lemma usw_size_ok u : usw_size u = length (usw_flat u).
Proof. reflexivity. Qed.

(* datagrams within the bound are not cut *)
Lemma dgrams_ok_flat ds : dgrams_ok ds -> usw_flat (usw_init ds) = concat ds.
Proof.
  unfold usw_flat, usw_init. cbn [usw_left usw_net app]. intros H.
  induction H as [|d ds Hd _ IH]; [reflexivity|]. cbn [map concat].
  rewrite IH. f_equal. apply firstn_all2. unfold usw_rxbuf_len. lia.
Qed.

(* T3: full reads through the wrapper = full reads over the concatenation *)
Lemma usw_read_full_dgrams n ds : dgrams_ok ds ->
  match usw_read_full n (usw_init ds) with
  | GFull g r => read_full n (concat ds) = RFull g (usw_flat r)
  | GShort g r => read_full n (concat ds) = RShort g /\ usw_flat r = []
  end.
Proof.
  intros H. rewrite <- (dgrams_ok_flat ds H). apply usw_read_full_ok.
Qed.

(* ---------------------------------------------------------------- invariant *)

(* all: every datagram the peer sends during the life of the wrapper *)
Definition usw_inv (all : list (list N)) (u : usw) : Prop :=
  exists pre, all = pre ++ usw_net u /\
              is_suffix (usw_left u) (firstn usw_rxbuf_len (last pre [])).

Lemma usw_inv_init ds : usw_inv ds (usw_init ds).
Proof. exists []. split; [reflexivity|]. exists []. reflexivity. Qed.

Lemma usw_read_inv all n u got u' : usw_inv all u -> usw_read n u = Rd1 got u' -> usw_inv all u'.
Proof.
  intros (pre & Hall & (p & Hp)) Hr. destruct u as [left net]. unfold usw_read in Hr.
  cbn [usw_left usw_net] in *. destruct left as [|b left].
  - destruct net as [|d net']; [discriminate|]. injection Hr as _ <-.
    exists (pre ++ [d]). cbn [usw_left usw_net]. split.
    + rewrite <- app_assoc. exact Hall.
    + rewrite last_last. exists (firstn n (firstn usw_rxbuf_len d)). symmetry. apply firstn_skipn.
  - injection Hr as _ <-. exists pre. cbn [usw_left usw_net]. split; [exact Hall|].
    exists (p ++ firstn n (b :: left)). rewrite <- app_assoc, firstn_skipn. exact Hp.
Qed.

Lemma io_read_full_inv {T : Type} (rd1 : nat -> T -> rd1_res T) (P : T -> Prop) :
  (forall n s got s', P s -> rd1 n s = Rd1 got s' -> P s') ->
  forall fuel n acc s, P s ->
    match io_read_full rd1 fuel n acc s with GFull _ r => P r | GShort _ r => P r end.
Proof.
  intros Hstep. induction fuel as [|f IH]; intros n acc s Hs.
  - destruct n; exact Hs.
  - destruct n as [|k]; [exact Hs|]. cbn [io_read_full].
    destruct (rd1 (S k) s) as [got s'|] eqn:Er; [|exact Hs].
    apply IH. exact (Hstep _ _ _ _ Hs Er).
Qed.

Lemma usw_read_full_inv all n u : usw_inv all u ->
  match usw_read_full n u with GFull _ r => usw_inv all r | GShort _ r => usw_inv all r end.
Proof.
  intros H. unfold usw_read_full. apply io_read_full_inv; [|exact H].
  intros k s got s'. apply usw_read_inv.
Qed.

(* consequence: the leftover always fits the receive buffer *)
Lemma usw_inv_bound all u : usw_inv all u -> (length (usw_left u) <= usw_rxbuf_len)%nat.
Proof.
  intros (pre & _ & (p & Hp)). apply (f_equal (@length N)) in Hp.
  rewrite firstn_length, app_length in Hp. lia.
Qed.

(* ---------------------------------------------------------------- truncation *)

(* a datagram longer than the receive buffer loses its tail: asking for the
   whole datagram yields a short read of its first 260 bytes *)
Lemma usw_truncates d : (usw_rxbuf_len < length d)%nat ->
  exists r, usw_read_full (length d) (usw_init [d]) = GShort (firstn usw_rxbuf_len d) r /\
            usw_flat r = [].
Proof.
  intros Hd. pose proof (usw_read_full_ok (length d) (usw_init [d])) as H.
  assert (Hf : usw_flat (usw_init [d]) = firstn usw_rxbuf_len d).
  { unfold usw_flat, usw_init. cbn [usw_left usw_net map concat app]. apply app_nil_r. }
  rewrite Hf in H. unfold read_full in H. rewrite firstn_length in H.
  replace (Nat.leb (length d) (Nat.min usw_rxbuf_len (length d))) with false in H
    by (symmetry; apply Nat.leb_gt; lia).
  destruct (usw_read_full (length d) (usw_init [d])) as [g r|g r]; [discriminate|].
  destruct H as [H He]. injection H as <-. exists r. split; [reflexivity|exact He].
Qed.

Lemma usw_flat_cons d ds :
  usw_flat (usw_init (d :: ds)) = firstn usw_rxbuf_len d ++ usw_flat (usw_init ds).
Proof. reflexivity. Qed.

(* ---------------------------------------------------------------- client *)

Lemma read_mbap_udp e u :
  read_mbap e (usw_flat u) = (fst (read_mbap_u e u), usw_flat (snd (read_mbap_u e u))).
Proof. exact (g_read_mbap_flat usw_read_full usw_flat usw_read_full_ok e u). Qed.

Lemma read_rtu_udp e u :
  read_rtu e (usw_flat u) = (fst (read_rtu_u e u), usw_flat (snd (read_rtu_u e u))).
Proof. exact (g_read_rtu_flat usw_read_full usw_flat usw_read_full_ok e u). Qed.

Lemma client_call_udp fr cfg txn o e u :
  client_call fr cfg txn o e (usw_flat u) =
  let r := client_call_u fr cfg txn o e u in
  mkcall (gcr_res r) (gcr_writes r) (usw_flat (gcr_rest r)) (gcr_txn r).
Proof.
  exact (g_client_call_flat usw_read_full usw_size usw_flat usw_read_full_ok usw_size_ok
           fr cfg txn o e u).
Qed.

Lemma client_call_dgrams fr cfg txn o e ds : dgrams_ok ds ->
  client_call fr cfg txn o e (concat ds) =
  let r := client_call_u fr cfg txn o e (usw_init ds) in
  mkcall (gcr_res r) (gcr_writes r) (usw_flat (gcr_rest r)) (gcr_txn r).
Proof. intros H. rewrite <- (dgrams_ok_flat ds H). apply client_call_udp. Qed.

(* any two partitions of the same stream into datagrams of at most 260 bytes *)
Lemma client_call_dgram_partitions fr cfg txn o e ds1 ds2 :
  dgrams_ok ds1 -> dgrams_ok ds2 -> same_stream ds1 ds2 ->
  let r1 := client_call_u fr cfg txn o e (usw_init ds1) in
  let r2 := client_call_u fr cfg txn o e (usw_init ds2) in
  gcr_res r1 = gcr_res r2 /\ gcr_writes r1 = gcr_writes r2 /\ gcr_txn r1 = gcr_txn r2 /\
  usw_flat (gcr_rest r1) = usw_flat (gcr_rest r2).
Proof.
  intros H1 H2 Hs. pose proof (client_call_dgrams fr cfg txn o e ds1 H1) as E1.
  pose proof (client_call_dgrams fr cfg txn o e ds2 H2) as E2.
  unfold same_stream in Hs. rewrite Hs in E1. rewrite E1 in E2. cbv zeta in E2.
  injection E2 as Ha Hb Hc Hd. cbv zeta. auto.
Qed.

(* the invariant holds after a client call *)
Lemma g_read_mbap_inv {T : Type} (rdf : nat -> T -> grf T) (P : T -> Prop) :
  (forall n s, P s -> match rdf n s with GFull _ r => P r | GShort _ r => P r end) ->
  forall e s, P s -> P (snd (g_read_mbap rdf e s)).
Proof.
  intros Hp e s Hs. unfold g_read_mbap. pose proof (Hp 7%nat s Hs) as H7.
  destruct (rdf 7%nat s) as [hdr r|g r]; [|exact H7].
  destruct hdr as [|t1 [|t0 [|p1 [|p0 [|l1 [|l0 [|u [|x hdr]]]]]]]]; try exact H7.
  destruct (260 <? _); [exact H7|]. destruct (_ <=? 1); [exact H7|].
  match goal with |- context [rdf ?n r] =>
    pose proof (Hp n r H7) as Hb; destruct (rdf n r) as [body r'|g r'] end; [|exact Hb].
  destruct (negb _); [exact Hb|]. destruct body; exact Hb.
Qed.

Lemma read_mbap_udp_inv all e u : usw_inv all u -> usw_inv all (snd (read_mbap_u e u)).
Proof.
  apply g_read_mbap_inv. intros n s. apply usw_read_full_inv.
Qed.
