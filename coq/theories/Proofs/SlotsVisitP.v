(* Slots held by connections that never have a request dispatched (peers of a
   tcp+tls server whose handshake fails): the slot is given back, after any
   number of them a later connection is served. *)
From Coq Require Import List Arith Bool Lia Permutation.
Import ListNotations.
From Modbus Require Import Model.Slots Proofs.SlotsP Model.SlotsVisit.

Lemma run_app s a b : run s (a ++ b) = run (run s a) b.
Proof. unfold run. apply fold_left_app. Qed.

Lemma arrive_eff s c : listening s = true -> stat s c = Fresh ->
  step s (Arrive c) =
  mkst (started s) (listening s) (acceptors s) (zombies s) (maxc s) (clients s)
       (upd (stat s) c Queued) (closed s).
Proof. intros Hl Hf. unfold step. cbn [enabled]. rewrite Hl, Hf. reflexivity. Qed.

Lemma take_eff s c : stat s c = Queued -> 0 < acceptors s ->
  step s (Take c) =
  mkst (started s) (listening s) (acceptors s) (zombies s) (maxc s) (clients s)
       (upd (stat s) c Taken) (closed s).
Proof. intros Hq Ha. apply Nat.ltb_lt in Ha. unfold step. cbn [enabled]. rewrite Hq, Ha. reflexivity. Qed.

Lemma enrol_eff s c : stat s c = Taken ->
  step s (Enrol c) =
  if started s && Nat.ltb (length (clients s)) (maxc s)
  then mkst (started s) (listening s) (acceptors s) (zombies s) (maxc s) (clients s ++ [c])
            (upd (stat s) c Serving) (closed s)
  else mkst (started s) (listening s) (acceptors s) (zombies s) (maxc s) (clients s)
            (upd (stat s) c Rejected) (upd (closed s) c true).
Proof. intros Ht. unfold step. cbn [enabled]. rewrite Ht. reflexivity. Qed.

Lemma end_eff s c w : stat s c = Serving -> w <> ClosedByStop ->
  step s (End c w) =
  mkst (started s) (listening s) (acceptors s) (zombies s) (maxc s) (clients s)
       (upd (stat s) c Ended) (closed s).
Proof.
  intros Hs Hw. unfold step. destruct w; try congruence; cbn [enabled]; rewrite Hs; reflexivity.
Qed.

Lemma remove_eff s c : stat s c = Ended ->
  step s (Remove c) =
  mkst (started s) (listening s) (acceptors s) (zombies s) (maxc s)
       (remove_swap c (clients s)) (upd (stat s) c Removed) (upd (closed s) c true).
Proof. intros He. unfold step. cbn [enabled]. rewrite He. reflexivity. Qed.

Lemma end_disabled s c w : stat s c <> Serving -> step s (End c w) = s.
Proof.
  intros H. unfold step.
  assert (E : stat_eqb (stat s c) Serving = false).
  { destruct (stat_eqb (stat s c) Serving) eqn:E; [apply stat_eqb_eq in E; congruence|reflexivity]. }
  destruct w; cbn [enabled]; rewrite E; reflexivity.
Qed.

Lemma remove_disabled s c : stat s c <> Ended -> step s (Remove c) = s.
Proof.
  intros H. unfold step. cbn [enabled].
  destruct (stat_eqb (stat s c) Ended) eqn:E; [apply stat_eqb_eq in E; congruence|reflexivity].
Qed.

(* the admission of a connection that is new to the server *)
Lemma arrival_eff s c : Inv s -> started s = true -> 0 < acceptors s -> stat s c = Fresh ->
  let s1 := run s (arrival c) in
  started s1 = true /\ listening s1 = listening s /\ acceptors s1 = acceptors s /\ maxc s1 = maxc s /\
  (forall x, x <> c -> stat s1 x = stat s x) /\
  (length (clients s) < maxc s -> clients s1 = clients s ++ [c] /\ stat s1 c = Serving) /\
  (maxc s <= length (clients s) -> clients s1 = clients s /\ stat s1 c = Rejected /\ closed s1 c = true).
Proof.
  intros I Hst Ha Hf.
  assert (Hl : listening s = true) by (rewrite (inv_listen s I); exact Hst).
  unfold arrival, run. cbn [fold_left].
  rewrite (arrive_eff s c Hl Hf).
  rewrite take_eff by (cbn [stat acceptors]; first [apply upd_same|exact Ha]).
  cbn [started listening acceptors zombies maxc clients stat closed].
  rewrite enrol_eff by (cbn [stat]; apply upd_same).
  cbn [started listening acceptors zombies maxc clients stat closed]. rewrite Hst. cbn [andb].
  destruct (Nat.ltb (length (clients s)) (maxc s)) eqn:E;
    cbn [started listening acceptors zombies maxc clients stat closed].
  - apply Nat.ltb_lt in E. repeat split; try assumption; try reflexivity.
    + intros x Hx. rewrite !upd_other by exact Hx. reflexivity.
    + apply upd_same.
    + lia.
    + lia.
    + lia.
  - apply Nat.ltb_ge in E. repeat split; try assumption; try reflexivity.
    + intros x Hx. rewrite !upd_other by exact Hx. reflexivity.
    + lia.
    + lia.
    + apply upd_same.
    + apply upd_same.
Qed.

(* the departure of a connection that is on the list, however it spent its
   time there: exactly its slot is given back and the socket is closed *)
Theorem departure_frees s c w : Inv s -> stat s c = Serving -> w <> ClosedByStop ->
  let s1 := run s (departure c w) in
  Permutation (clients s) (c :: clients s1) /\ stat s1 c = Removed /\ closed s1 c = true /\
  started s1 = started s /\ listening s1 = listening s /\ acceptors s1 = acceptors s /\ maxc s1 = maxc s /\
  (forall x, x <> c -> stat s1 x = stat s x).
Proof.
  intros I Hs Hw.
  assert (Hin : In c (clients s)) by (apply (inv_members s I); left; exact Hs).
  unfold departure, run. cbn [fold_left].
  rewrite (end_eff s c w Hs Hw).
  rewrite remove_eff by (cbn [stat]; apply upd_same).
  cbn [started listening acceptors zombies maxc clients stat closed].
  repeat split.
  - apply remove_swap_perm. exact Hin.
  - apply upd_same.
  - apply upd_same.
  - intros x Hx. rewrite !upd_other by exact Hx. reflexivity.
Qed.

(* a departure of a connection that was refused at the admission is no step at all *)
Lemma departure_of_rejected s c w : stat s c = Rejected -> run s (departure c w) = s.
Proof.
  intros H. unfold departure, run. cbn [fold_left].
  rewrite end_disabled by congruence. rewrite remove_disabled by congruence. reflexivity.
Qed.

(* a whole visit leaves the list as it was *)
Theorem visit_neutral s c w : Inv s -> started s = true -> 0 < acceptors s ->
  stat s c = Fresh -> w <> ClosedByStop ->
  let s1 := run s (visit c w) in
  Permutation (clients s) (clients s1) /\ closed s1 c = true /\
  (stat s1 c = Removed \/ stat s1 c = Rejected) /\
  started s1 = true /\ acceptors s1 = acceptors s /\ maxc s1 = maxc s /\
  (forall x, x <> c -> stat s1 x = stat s x).
Proof.
  intros I Hst Ha Hf Hw. cbn zeta. unfold visit. rewrite run_app.
  pose proof (inv_run (arrival c) s I) as I1.
  destruct (arrival_eff s c I Hst Ha Hf) as (A1 & A2 & A3 & A4 & A5 & A6 & A7).
  cbn zeta in *. set (s1 := run s (arrival c)) in *.
  destruct (Nat.lt_ge_cases (length (clients s)) (maxc s)) as [Hlt|Hge].
  - destruct (A6 Hlt) as [Ec Es].
    destruct (departure_frees s1 c w I1 Es Hw) as (D1 & D2 & D3 & D4 & D5 & D6 & D7 & D8).
    cbn zeta in *. repeat split.
    + rewrite Ec in D1. apply Permutation_cons_inv with (a := c).
      eapply Permutation_trans; [|exact D1]. apply Permutation_cons_append.
    + exact D3.
    + left. exact D2.
    + rewrite D4. exact A1.
    + rewrite D6. exact A3.
    + rewrite D7. exact A4.
    + intros x Hx. rewrite D8 by exact Hx. apply A5. exact Hx.
  - destruct (A7 Hge) as (Ec & Es & Ecl).
    rewrite departure_of_rejected by exact Es. repeat split; try assumption.
    + rewrite Ec. apply Permutation_refl.
    + right. exact Es.
Qed.

(* any number of such visits, one after the other *)
Lemma visits_frame : forall l s, Inv s -> started s = true -> 0 < acceptors s ->
  NoDup (map fst l) ->
  (forall c w, In (c, w) l -> stat s c = Fresh /\ w <> ClosedByStop) ->
  let s1 := run s (visits l) in
  Inv s1 /\ Permutation (clients s) (clients s1) /\ started s1 = true /\
  acceptors s1 = acceptors s /\ maxc s1 = maxc s /\
  (forall x, ~ In x (map fst l) -> stat s1 x = stat s x) /\
  (forall c w, In (c, w) l -> closed s1 c = true).
Proof.
  induction l as [|[c w] t IH]; intros s I Hst Ha Hnd Hall; cbn zeta.
  - cbn [visits]. unfold run. cbn [fold_left]. split; [exact I|].
    repeat split; try assumption; try reflexivity.
    intros c w [].
  - cbn [visits]. rewrite run_app. cbn [map fst] in Hnd. inversion Hnd as [|? ? Hnotin Hnd']; subst.
    destruct (Hall c w (or_introl eq_refl)) as [Hf Hw].
    destruct (visit_neutral s c w I Hst Ha Hf Hw) as (V1 & V2 & V3 & V4 & V5 & V6 & V7).
    cbn zeta in *. pose proof (inv_run (visit c w) s I) as I1.
    set (s1 := run s (visit c w)) in *.
    assert (Hall1 : forall c0 w0, In (c0, w0) t -> stat s1 c0 = Fresh /\ w0 <> ClosedByStop).
    { intros c0 w0 Hin. destruct (Hall c0 w0 (or_intror Hin)) as [H1 H2]. split; [|exact H2].
      rewrite V7; [exact H1|]. intros ->. apply Hnotin. apply in_map_iff. exists (c, w0). split; [reflexivity|exact Hin]. }
    assert (Ha1 : 0 < acceptors s1) by (rewrite V5; exact Ha).
    destruct (IH s1 I1 V4 Ha1 Hnd' Hall1) as (J1 & J2 & J3 & J4 & J5 & J6 & J7).
    cbn zeta in *. split; [exact J1|]. repeat split.
    + eapply Permutation_trans; [exact V1|exact J2].
    + exact J3.
    + rewrite J4. exact V5.
    + rewrite J5. exact V6.
    + intros x Hx. cbn [map fst In] in Hx.
      rewrite J6 by (intros H; apply Hx; right; exact H).
      apply V7. intros ->. apply Hx. left. reflexivity.
    + intros c0 w0 [Heq|Hin].
      * inversion Heq; subst. 
        destruct (in_dec Nat.eq_dec c0 (map fst t)) as [Hi|Hn]; [contradiction|].
        (* closed is only ever set: go through the invariant of the final state *)
        apply (inv_closed _ J1). rewrite J6 by exact Hn.
        destruct V3 as [V3|V3]; [right|left]; exact V3.
      * exact (J7 c0 w0 Hin).
Qed.

(* ... and a connection that arrives afterwards is served if there was room
   for it before *)
Theorem visits_then_served l s d : Inv s -> started s = true -> 0 < acceptors s ->
  NoDup (map fst l) ->
  (forall c w, In (c, w) l -> stat s c = Fresh /\ w <> ClosedByStop) ->
  stat s d = Fresh -> ~ In d (map fst l) -> length (clients s) < maxc s ->
  let s1 := run s (visits l ++ arrival d) in
  stat s1 d = Serving /\ In d (clients s1) /\ length (clients s1) = S (length (clients s)).
Proof.
  intros I Hst Ha Hnd Hall Hd Hnotin Hroom. cbn zeta. rewrite run_app.
  destruct (visits_frame l s I Hst Ha Hnd Hall) as (J1 & J2 & J3 & J4 & J5 & J6 & _).
  cbn zeta in *. set (s1 := run s (visits l)) in *.
  assert (Ha1 : 0 < acceptors s1) by (rewrite J4; exact Ha).
  assert (Hd1 : stat s1 d = Fresh) by (rewrite J6 by exact Hnotin; exact Hd).
  destruct (arrival_eff s1 d J1 J3 Ha1 Hd1) as (_ & _ & _ & _ & _ & A6 & _).
  cbn zeta in *.
  assert (Hlen : length (clients s1) = length (clients s)) by (symmetry; apply Permutation_length; exact J2).
  destruct A6 as [Ec Es]; [rewrite Hlen, J5; exact Hroom|].
  repeat split.
  - exact Es.
  - rewrite Ec. apply in_or_app. right. left. reflexivity.
  - rewrite Ec, app_length, Hlen. cbn [length]. lia.
Qed.
