(* Proofs about Model/RoleSeq.v (property C15, sequences of TLS sessions on
   one server).  The handshake oracle, the verification oracle and the clock
   are section variables; what crypto/tls documents (tls_srv_documented) is an
   explicit premise of the lemmas that need it. *)
From Modbus Require Import Base.Bytes Model.Utf8 Model.Der Model.Role Model.TlsPolicy Model.RoleSeq
  Spec.RoleSpec Proofs.RoleP Proofs.TlsPolicyP.
From Coq Require Import ZifyBool ZifyNat ZifyN.
Ltac Zify.zify_post_hook ::= Z.div_mod_to_equations.

Section RoleSeqProofs.
  Variable hs : tls_policy -> tls_peer -> option tls_session.
  Variable verifies : option (list tls_cert) -> tls_usage -> N -> list N -> list tls_cert -> Prop.
  Variable now : N.

  Lemma serve_sessions_map c peers :
    tls_serve_sessions hs c peers = map (tls_start_tls hs c) peers.
  Proof. induction peers as [|p l IH]; cbn [tls_serve_sessions map]; [reflexivity|]. rewrite IH. reflexivity. Qed.

  Lemma serve_sessions_length c peers : length (tls_serve_sessions hs c peers) = length peers.
  Proof. rewrite serve_sessions_map. apply map_length. Qed.

  (* the sessions before and after a connection do not matter to it *)
  Lemma serve_sessions_app c earlier peer later :
    tls_serve_sessions hs c (earlier ++ peer :: later) =
    tls_serve_sessions hs c earlier ++ tls_start_tls hs c peer :: tls_serve_sessions hs c later.
  Proof. rewrite !serve_sessions_map, map_app. reflexivity. Qed.

  Lemma serve_sessions_nth c peers i :
    nth_error (tls_serve_sessions hs c peers) i = option_map (tls_start_tls hs c) (nth_error peers i).
  Proof. rewrite serve_sessions_map. apply nth_error_map. Qed.

  Lemma serve_sessions_alone c earlier peer later :
    nth_error (tls_serve_sessions hs c (earlier ++ peer :: later)) (length earlier) =
    nth_error (tls_serve_sessions hs c [peer]) 0.
  Proof.
    rewrite serve_sessions_app, nth_error_app2 by (rewrite serve_sessions_length; lia).
    rewrite serve_sessions_length, Nat.sub_diag. reflexivity.
  Qed.

  (* startTLS under the documented behaviour of crypto/tls: the role is that
     of the leaf the peer of THIS connection presented *)
  Lemma start_tls_leaf c peer role :
    tls_srv_documented hs verifies now ->
    tls_start_tls hs c peer = Some role ->
    exists leaf more, tpe_chain peer = leaf :: more /\ role = extract_role (tlc_exts leaf).
  Proof.
    intros Hdoc Hs. apply tls_start_tls_some in Hs. destruct Hs as (sess & leaf & more & Hh & Hc & ->).
    destruct (Hdoc _ _ _ Hh) as (_ & _ & _ & Hauth).
    destruct (Hauth eq_refl) as (Hcerts & _ & _).
    exists leaf, more. split; [|reflexivity]. rewrite <- Hcerts. exact Hc.
  Qed.

  Lemma serve_sessions_leaf c peers i role :
    tls_srv_documented hs verifies now ->
    nth_error (tls_serve_sessions hs c peers) i = Some (Some role) ->
    exists peer leaf more,
      nth_error peers i = Some peer /\ tpe_chain peer = leaf :: more /\
      role = extract_role (tlc_exts leaf).
  Proof.
    intros Hdoc. rewrite serve_sessions_nth.
    destruct (nth_error peers i) as [peer|]; [|discriminate].
    cbn [option_map]. intros [= Hs].
    destruct (start_tls_leaf c peer role Hdoc Hs) as (leaf & more & Hc & Hr).
    exists peer, leaf, more. auto.
  Qed.

  (* ... in the vocabulary of the specification: a non-empty role is the one
     the leaf of that session states *)
  Lemma serve_sessions_states c peers i role :
    tls_srv_documented hs verifies now ->
    nth_error (tls_serve_sessions hs c peers) i = Some (Some role) -> role <> [] ->
    exists peer leaf more,
      nth_error peers i = Some peer /\ tpe_chain peer = leaf :: more /\
      (all_bytes (tlc_exts leaf) = true -> states_role (tlc_exts leaf) role).
  Proof.
    intros Hdoc Hn Hne.
    destruct (serve_sessions_leaf c peers i role Hdoc Hn) as (peer & leaf & more & Hp & Hc & Hr).
    exists peer, leaf, more. split; [exact Hp|]. split; [exact Hc|].
    intros Hb. apply role_sound_spec; auto.
  Qed.

  (* a session that is served and whose leaf states r has role r, whatever
     the other sessions of the server presented *)
  Lemma serve_sessions_complete c earlier peer later leaf more r role :
    tls_srv_documented hs verifies now ->
    tpe_chain peer = leaf :: more -> states_role (tlc_exts leaf) r -> lenN r < 2 ^ 31 ->
    nth_error (tls_serve_sessions hs c (earlier ++ peer :: later)) (length earlier) = Some (Some role) ->
    role = r.
  Proof.
    intros Hdoc Hc Hst Hlen. rewrite serve_sessions_alone. cbn [tls_serve_sessions nth_error].
    intros [= Hs].
    destruct (start_tls_leaf c peer role Hdoc Hs) as (leaf' & more' & Hc' & ->).
    rewrite Hc in Hc'. injection Hc' as <- _.
    apply role_complete_spec; assumption.
  Qed.
End RoleSeqProofs.
