(* The translated transports (tcp_transport.go, rtu_transport.go inside the
   linked program [src_pure]) run on concrete worlds: on a byte stream they
   compute the framing model of Model/Wire.v, on a world with a clock they keep
   the RTU inter-frame timing. Composition of Proofs/SrcTransportLinkP.v
   (translated program = transport model, for any world) with
   Proofs/TransportStreamP.v and Proofs/TransportClockP.v (transport model on
   the concrete worlds). *)
From Coq Require Import List NArith String Lia Bool.
From Coq Require Import ZifyBool ZifyNat ZifyN.
Import ListNotations.
From Modbus Require Import Base.Bytes Model.GoLite Gen.SrcPure Model.Crc Model.Encoding.
From Modbus Require Import Model.Wire Model.Transport.
From Modbus Require Import Proofs.GoLiteP Proofs.GoLiteLinkP Proofs.SrcMiscP Proofs.SrcTransportP Proofs.SrcTransportLinkP.
From Modbus Require Import Proofs.TransportStreamP Proofs.TransportClockP.
Open Scope string_scope.
Open Scope N_scope.

(* ------------------------------------------------------------------ the stream world of the translated source *)

Definition EC : N -> err := err_class src_codes 2.

Lemma src_distinct :
  distinctb [0; 1; 2; src_eof; c_ueof src_codes; c_proto src_codes; c_unkproto src_codes;
             c_badcrc src_codes; c_short src_codes] = true.
Proof. vm_compute. reflexivity. Qed.

Lemma sw_wf e : tworld_wf (sw e) src_codes.
Proof. exact (stream_world_wf src_codes e 2 src_eof src_distinct). Qed.

Lemma sw_hyp e x : x = "socket" \/ x = "link" \/ x = "rtuLink" -> tworld_hyp (world_base (sw e)) (sw e) x.
Proof. apply world_base_hyp. Qed.

Lemma read_rtu_bytes e s : bytesb s = true -> bytesb (snd (read_rtu e s)) = true.
Proof.
  intros H. unfold read_rtu, read_full.
  pose proof (bytesb_skipn 3 s H) as H3.
  destruct (Nat.leb 3 (length s)); [|destruct s; reflexivity].
  generalize dependent (skipn 3 s). intros rest H3.
  destruct (firstn 3 s) as [|u [|fc [|b2 [|x hdr]]]]; try exact H3.
  destruct (expected_len fc b2) as [n|]; [|exact H3].
  destruct (256 <? _); [exact H3|].
  destruct (Nat.leb _ (length rest)).
  - pose proof (bytesb_skipn (N.to_nat (n + 2)) rest H3) as H4.
    destruct (skipn (N.to_nat n) _) as [|lo [|hi [|z tl]]]; try exact H4.
    destruct (crc_is_equal _ _ _); exact H4.
  - destruct e; [reflexivity|destruct rest; reflexivity|reflexivity].
Qed.

(* ------------------------------------------------------------------ 1 *)

Theorem src_readMBAPFrame_stream fuel e tmo last s : bytesb s = true -> exists w' p txn c,
  call_with src_pure (world_base (sw e)) fuel "tcpTransport.readMBAPFrame" [VN tmo; VN last; vbytes s] =
    GOk ([VN tmo; VN last; w'] ++ enc_opdu p ++ [VN txn; VN c])%list /\ w' = vbytes (snd (read_mbap e s)) /\
  match fst (read_mbap e s) with FOk q t => p = Some q /\ txn = t /\ c = 0 | FErr x => p = None /\ c <> 0 /\ EC c = x end.
Proof.
  intros Hs.
  rewrite (src_readMBAPFrame_ok (world_base (sw e)) fuel (sw e) tmo last (vbytes s)
             (sw_hyp e "socket" (or_introl eq_refl)) (sw_wf e)).
  unfold out_read_mbap.
  pose proof (t_read_mbap_stream src_codes e 2 src_eof src_distinct s Hs) as H.
  change (SW src_codes e 2 src_eof) with (sw e) in H.
  destruct (t_read_mbap (sw e) src_codes (vbytes s)) as [[[w' p] txn] c].
  destruct H as [Hw H].
  exists w', p, txn, c. split; [reflexivity|]. split; [exact Hw|exact H].
Qed.

(* ------------------------------------------------------------------ 2 *)

(* on the stream world the clock shows 0, the deadline and the write are accepted,
   the write does not touch the stream *)
Lemma tcp_execute_sw e fuel tmo last req w :
  t_tcp_execute (sw e) src_codes fuel tmo last req w =
  match t_read_response (sw e) src_codes fuel ((last + 1) mod 65536) w with
  | Some (w3, p, e3) => Some ((last + 1) mod 65536, w3, p, e3)
  | None => None
  end.
Proof. reflexivity. Qed.

Theorem src_tcp_ExecuteRequest_stream fuel e tmo last req s : bytesb s = true -> pdu_ok req ->
  let last' := (last + 1) mod 65536 in
  let run := call_with src_pure (world_base (sw e)) fuel "tcpTransport.ExecuteRequest" ([VN tmo; VN last] ++ pdu_args req ++ [vbytes s])%list in
  match mbap_read_response fuel e last' s with
  | (Wire.Ok q, s') => run = GOk ([VN tmo; VN last'; vbytes s'] ++ enc_opdu (Some q) ++ [VN 0])%list
  | (Wire.Err x, s') => exists c, run = GOk ([VN tmo; VN last'; vbytes s'] ++ enc_opdu None ++ [VN c])%list /\ c <> 0 /\ EC c = x
  | (Wire.OutOfFuel, _) => run = GoLite.OutOfFuel
  | (Wire.Panic, _) => False end.
Proof.
  intros Hs Hok last' run.
  assert (Hrun : run = out_tcp_execute (sw e) fuel tmo last req (vbytes s)).
  { subst run. apply src_tcp_ExecuteRequest_ok;
      [apply sw_hyp; left; reflexivity|apply sw_wf|exact Hok]. }
  unfold out_tcp_execute in Hrun. rewrite tcp_execute_sw in Hrun. fold last' in Hrun.
  clearbody run.
  pose proof (t_read_response_stream src_codes e 2 src_eof src_distinct fuel last' s Hs) as H.
  change (SW src_codes e 2 src_eof) with (sw e) in H.
  destruct (mbap_read_response fuel e last' s) as [[q|x| |] s'].
  - rewrite H in Hrun. exact Hrun.
  - destruct H as (c & H & Hc & Hx). exists c. rewrite H in Hrun.
    split; [exact Hrun|]. split; [exact Hc|exact Hx].
  - exact H.
  - rewrite H in Hrun. exact Hrun.
Qed.

(* ------------------------------------------------------------------ 3 *)

Theorem src_readRTUFrame_stream fuel e tmo la t35 t1 s : bytesb s = true -> exists w' p c,
  call_with src_pure (world_base (sw e)) fuel "rtuTransport.readRTUFrame" [VN tmo; VN la; VN t35; VN t1; vbytes s] =
    GOk ([VN tmo; VN la; VN t35; VN t1; w'] ++ enc_opdu p ++ [VN c])%list /\ w' = vbytes (snd (read_rtu e s)) /\
  match fst (read_rtu e s) with Wire.Ok q => p = Some q /\ c = 0 | Wire.Err x => p = None /\ c <> 0 /\ EC c = x | _ => False end.
Proof.
  intros Hs.
  rewrite (src_readRTUFrame_ok (world_base (sw e)) fuel (sw e) tmo la t35 t1 (vbytes s)
             (sw_hyp e "link" (or_intror (or_introl eq_refl))) (sw_wf e)).
  unfold out_read_rtu.
  pose proof (t_read_rtu_stream src_codes e 2 src_eof src_distinct s Hs) as H.
  change (SW src_codes e 2 src_eof) with (sw e) in H.
  destruct (t_read_rtu (sw e) src_codes (vbytes s)) as [[w' p] c].
  destruct H as [Hw H].
  exists w', p, c. split; [reflexivity|]. split; [exact Hw|exact H].
Qed.

(* ------------------------------------------------------------------ 4 *)

Lemma if_same (A : Type) (b : bool) (x : A) : (if b then x else x) = x.
Proof. destruct b; reflexivity. Qed.

(* on the stream world nothing but the read (and the flush) touches the stream *)
Lemma rtu_execute_sw e tmo la t35 t1 req w :
  t_rtu_execute (sw e) src_codes tmo la t35 t1 req w =
  let '(w8, res, e3) := t_read_rtu (sw e) src_codes w in
  (if negb (e3 =? c_timedout src_codes) then 0 else add64 0 (mul64 (w64 (lenN (assemble_rtu req))) t1),
   if (e3 =? c_badcrc src_codes) || (e3 =? c_proto src_codes) || (e3 =? c_short src_codes)
   then t_discard (sw e) w8 else w8,
   res, e3).
Proof.
  unfold t_rtu_execute.
  cbn [sw stream_world t_now t_setdl t_sleep t_write].
  rewrite if_same.
  change (negb (0 =? 0)) with false. cbv iota.
  destruct (t_read_rtu _ src_codes w) as [[w8 res] e3].
  destruct (negb _); reflexivity.
Qed.

Lemma EC_badcrc : EC (c_badcrc src_codes) = EBadCRC.
Proof. exact (ec_badcrc src_codes 2 src_eof src_distinct). Qed.
Lemma EC_proto : EC (c_proto src_codes) = EProtocol.
Proof. exact (ec_proto src_codes 2 src_eof src_distinct). Qed.
Lemma EC_short : EC (c_short src_codes) = EShortFrame.
Proof. exact (ec_short src_codes 2 src_eof src_distinct). Qed.

(* no other error value has the class of a framing error *)
Lemma EC_other c :
  c <> c_badcrc src_codes -> c <> c_proto src_codes -> c <> c_short src_codes ->
  EC c = ETimeout \/ EC c = EUnknownProto \/ EC c = EIO.
Proof.
  intros H1 H2 H3. unfold EC, err_class.
  destruct (c =? 2); [left; reflexivity|].
  destruct (N.eqb_spec c (c_proto src_codes)); [contradiction|].
  destruct (c =? c_unkproto src_codes); [right; left; reflexivity|].
  destruct (N.eqb_spec c (c_badcrc src_codes)); [contradiction|].
  destruct (N.eqb_spec c (c_short src_codes)); [contradiction|].
  right; right; reflexivity.
Qed.

Lemma discard_sw e s : bytesb s = true -> t_discard (sw e) (vbytes s) = vbytes (skipn 1024 s).
Proof. exact (t_discard_stream src_codes e 2 src_eof s). Qed.

Theorem src_rtu_ExecuteRequest_stream fuel e tmo la t35 t1 req s : bytesb s = true -> pdu_ok req -> exists la' p c,
  call_with src_pure (world_base (sw e)) fuel "rtuTransport.ExecuteRequest" ([VN tmo; VN la; VN t35; VN t1] ++ pdu_args req ++ [vbytes s])%list =
    GOk ([VN tmo; VN la'; VN t35; VN t1; vbytes (snd (rtu_read_response e s))] ++ enc_opdu p ++ [VN c])%list /\
  match fst (rtu_read_response e s) with Wire.Ok q => p = Some q /\ c = 0 | Wire.Err x => p = None /\ c <> 0 /\ EC c = x | _ => False end.
Proof.
  intros Hs Hok.
  rewrite (src_rtu_ExecuteRequest_ok (world_base (sw e)) fuel (sw e) tmo la t35 t1 req (vbytes s)
             (sw_hyp e "link" (or_intror (or_introl eq_refl)))
             (sw_hyp e "rtuLink" (or_intror (or_intror eq_refl))) (sw_wf e) Hok).
  unfold out_rtu_execute. rewrite rtu_execute_sw.
  pose proof (t_read_rtu_stream src_codes e 2 src_eof src_distinct s Hs) as H.
  change (SW src_codes e 2 src_eof) with (sw e) in H.
  change (err_class src_codes 2) with EC in H.
  pose proof (read_rtu_bytes e s Hs) as Hb.
  destruct (t_read_rtu (sw e) src_codes (vbytes s)) as [[w8 res] c].
  unfold rtu_read_response.
  destruct (read_rtu e s) as [r s'].
  cbn [fst snd] in H, Hb. destruct H as [Hw H]. subst w8.
  match goal with |- context [if negb ?b then 0 else ?y] => set (la' := if negb b then 0 else y) end.
  exists la', res, c. clearbody la'.
  destruct r as [q|x| |]; try contradiction.
  - destruct H as [Hp Hc]. subst res c.
    replace ((0 =? c_badcrc src_codes) || (0 =? c_proto src_codes) || (0 =? c_short src_codes))
      with false by (vm_compute; reflexivity).
    cbn [fst snd]. split; [reflexivity|]. split; reflexivity.
  - destruct H as (Hp & Hc & Hx). subst res.
    destruct (N.eqb_spec c (c_badcrc src_codes)) as [E1|E1].
    { subst c. rewrite EC_badcrc in Hx. subst x. cbn [orb fst snd].
      rewrite (discard_sw e s' Hb). split; [reflexivity|]. split; [reflexivity|]. split; [exact Hc|exact EC_badcrc]. }
    destruct (N.eqb_spec c (c_proto src_codes)) as [E2|E2].
    { subst c. rewrite EC_proto in Hx. subst x. cbn [orb fst snd].
      rewrite (discard_sw e s' Hb). split; [reflexivity|]. split; [reflexivity|]. split; [exact Hc|exact EC_proto]. }
    destruct (N.eqb_spec c (c_short src_codes)) as [E3|E3].
    { subst c. rewrite EC_short in Hx. subst x. cbn [orb fst snd].
      rewrite (discard_sw e s' Hb). split; [reflexivity|]. split; [reflexivity|]. split; [exact Hc|exact EC_short]. }
    cbn [orb].
    destruct (EC_other c E1 E2 E3) as [Ho|[Ho|Ho]]; rewrite Ho in Hx; subst x; cbn [fst snd];
      (split; [reflexivity|]); (split; [reflexivity|]); split; assumption.
Qed.

(* ------------------------------------------------------------------ 5 *)

Theorem clock_world_wf sc : sc <> 0 -> sc <> c_ueof src_codes -> tworld_wf (clock_world sc) src_codes.
Proof.
  intros H0 Hu. unfold tworld_wf. split.
  - intros w bs. cbn [clock_world t_write]. apply N.le_refl.
  - intros w n. cbn [clock_world t_readfull].
    assert (Hz : c_ueof src_codes <> 0) by (vm_compute; discriminate).
    change (lenN (@nil N)) with 0.
    destruct (N.eqb_spec n 0) as [E|E].
    + subst n. split; [reflexivity|]. split; [apply N.le_refl|]. split; [split; reflexivity|].
      intros Hc. exfalso. apply Hz. symmetry. exact Hc.
    + split; [reflexivity|]. split; [apply N.le_0_l|]. split.
      * split; intros Hc; exfalso; [exact (H0 Hc)|apply E; symmetry; exact Hc].
      * intros Hc. exfalso. exact (Hu Hc).
Qed.

Lemma cw_hyp sc x : x = "socket" \/ x = "link" \/ x = "rtuLink" ->
  tworld_hyp (world_base (clock_world sc)) (clock_world sc) x.
Proof. apply world_base_hyp. Qed.

(* ------------------------------------------------------------------ 6 *)

Theorem src_rtu_ExecuteRequest_timing fuel tmo la t35 t1 req c0 log :
  c0 < 2^62 -> la < 2^62 -> t35 < 2^40 -> t1 < 2^40 -> lenN (assemble_rtu req) < 2^16 -> pdu_ok req ->
  let sc := c_timedout src_codes in let tw := N.max c0 (la + t35) in let busy := lenN (assemble_rtu req) * t1 in
  exists w', call_with src_pure (world_base (clock_world sc)) fuel "rtuTransport.ExecuteRequest"
               ([VN tmo; VN la; VN t35; VN t1] ++ pdu_args req ++ [mkclock c0 log])%list =
             GOk ([VN tmo; VN (tw + busy); VN t35; VN t1; w'] ++ enc_opdu None ++ [VN sc])%list /\
             log_of w' = (log ++ [VN tw])%list /\ clock_of w' = tw + busy + t35.
Proof.
  intros Hc Hla Ht35 Ht1 Hn Hok sc tw busy.
  assert (Hsc0 : sc <> 0) by (vm_compute; discriminate).
  assert (Hscu : sc <> c_ueof src_codes) by (vm_compute; discriminate).
  rewrite (src_rtu_ExecuteRequest_ok (world_base (clock_world sc)) fuel (clock_world sc) tmo la t35 t1 req
             (mkclock c0 log)
             (cw_hyp sc "link" (or_intror (or_introl eq_refl)))
             (cw_hyp sc "rtuLink" (or_intror (or_intror eq_refl)))
             (clock_world_wf sc Hsc0 Hscu) Hok).
  unfold out_rtu_execute.
  assert (H : let '(la', w', p, e) := t_rtu_execute (clock_world sc) src_codes tmo la t35 t1 req (mkclock c0 log) in
              log_of w' = (log ++ [VN tw])%list /\ la' = tw + busy /\ clock_of w' = tw + busy + t35 /\
              p = None /\ e = sc).
  { apply (rtu_execute_timing src_codes sc tmo la t35 t1 req c0 log Hc Hla Ht35 Ht1 Hn eq_refl Hsc0);
      vm_compute; discriminate. }
  destruct (t_rtu_execute (clock_world sc) src_codes tmo la t35 t1 req (mkclock c0 log)) as [[[la' w'] p] e'].
  destruct H as (Hl & Hla' & Hck & Hp & He). subst la' p e'.
  exists w'. split; [reflexivity|]. split; [exact Hl|exact Hck].
Qed.

(* ------------------------------------------------------------------ 7 *)

Theorem src_rtu_ExecuteRequest_never_early T sc fuel tmo la t35 t1 req c0 log :
  (forall w, t_now T w = t_now (clock_world sc) w) ->
  (forall w d, t_sleep T w d = t_sleep (clock_world sc) w d) ->
  (forall w bs, t_write T w bs = t_write (clock_world sc) w bs) ->
  (forall w d, clock_of w < 2 ^ 62 ->
     clock_of w <= clock_of (fst (t_setdl T w d)) /\ clock_of (fst (t_setdl T w d)) < 2 ^ 62) ->
  (forall w d, log_of (fst (t_setdl T w d)) = log_of w) ->
  (forall w n, log_of (fst (fst (t_readfull T w n))) = log_of w) ->
  tworld_wf T src_codes -> pdu_ok req ->
  c0 < 2 ^ 62 -> la < 2 ^ 62 -> t35 < 2 ^ 40 ->
  exists la' w' p c,
    call_with src_pure (world_base T) fuel "rtuTransport.ExecuteRequest"
      ([VN tmo; VN la; VN t35; VN t1] ++ pdu_args req ++ [mkclock c0 log])%list =
    GOk ([VN tmo; VN la'; VN t35; VN t1; w'] ++ enc_opdu p ++ [VN c])%list /\
    exists extra, log_of w' = (log ++ extra)%list /\ Forall (fun v => exists t, v = VN t /\ la + t35 <= t) extra.
Proof.
  intros Hnow Hsleep Hwrite Hdc Hdl Hrl Hwf Hok Hc Hla Ht35.
  rewrite (src_rtu_ExecuteRequest_ok (world_base T) fuel T tmo la t35 t1 req (mkclock c0 log)
             (world_base_hyp T "link" (or_intror (or_introl eq_refl)))
             (world_base_hyp T "rtuLink" (or_intror (or_intror eq_refl))) Hwf Hok).
  unfold out_rtu_execute.
  pose proof (rtu_execute_never_early_all T src_codes sc tmo la t35 t1 req c0 log
                Hnow Hsleep Hwrite Hdc Hdl Hrl Hc Hla Ht35) as H.
  destruct (t_rtu_execute T src_codes tmo la t35 t1 req (mkclock c0 log)) as [[[la' w'] p] c].
  exists la', w', p, c. split; [reflexivity|exact H].
Qed.

(* ------------------------------------------------------------------ 8 *)

Theorem src_rtu_WriteResponse_timing fuel sc tmo la t35 t1 res c0 log :
  c0 < 2^62 -> t1 < 2^40 -> lenN (assemble_rtu res) < 2^16 -> pdu_ok res ->
  exists w', call_with src_pure (world_base (clock_world sc)) fuel "rtuTransport.WriteResponse"
               ([VN tmo; VN la; VN t35; VN t1] ++ pdu_args res ++ [mkclock c0 log])%list =
             GOk [VN tmo; VN (c0 + lenN (assemble_rtu res) * t1); VN t35; VN t1; w'; VN 0] /\
             log_of w' = (log ++ [VN c0])%list /\ clock_of w' = c0.
Proof.
  intros Hc Ht1 Hn Hok.
  rewrite (src_rtu_WriteResponse_ok (world_base (clock_world sc)) fuel (clock_world sc) tmo la t35 t1 res
             (mkclock c0 log) (cw_hyp sc "link" (or_intror (or_introl eq_refl))) Hok).
  unfold out_rtu_write_response.
  pose proof (rtu_write_response_timing sc la t1 res c0 log Hc Ht1 Hn) as H.
  assert (Hk : clock_of (snd (fst (t_rtu_write_response (clock_world sc) la t1 res (mkclock c0 log)))) = c0).
  { unfold t_rtu_write_response. cbn [clock_world t_now t_write].
    change (negb (0 =? 0)) with false. cbv iota. reflexivity. }
  destruct (t_rtu_write_response (clock_world sc) la t1 res (mkclock c0 log)) as [[la' w'] e'].
  cbn [fst snd] in Hk.
  destruct H as (Hl & Hla' & He). subst la' e'.
  exists w'. split; [reflexivity|]. split; [exact Hl|exact Hk].
Qed.

Print Assumptions src_readMBAPFrame_stream.
Print Assumptions src_tcp_ExecuteRequest_stream.
Print Assumptions src_readRTUFrame_stream.
Print Assumptions src_rtu_ExecuteRequest_stream.
Print Assumptions clock_world_wf.
Print Assumptions src_rtu_ExecuteRequest_timing.
Print Assumptions src_rtu_ExecuteRequest_never_early.
Print Assumptions src_rtu_WriteResponse_timing.
