(* encoding.go as translated from the Go source (Gen/SrcPure.v) computes the
   model of Model/Encoding.v, for every input: the list codecs
   uint16sToBytes, bytesToUint32s, bytesToUint64s, bytesToFloat32s,
   bytesToFloat64s. *)
From Coq Require Import List NArith String Lia Bool.
From Coq Require Import ZifyBool ZifyNat ZifyN.
Import ListNotations.
From Modbus Require Import Base.Bytes Model.GoLite Gen.SrcPure Model.Crc Model.Encoding.
From Modbus Require Import Proofs.GoLiteP Proofs.SrcCrcP Proofs.SrcEncodingP.
Open Scope N_scope.

(* ---------------------------------------------------------------- list helpers *)

Lemma nth_error_pre_k (pre rest : list N) k :
  nth_error (map VN (pre ++ rest)) (N.to_nat (N.of_nat (List.length pre) + k)) =
  nth_error (map VN rest) (N.to_nat k).
Proof.
  replace (N.to_nat (N.of_nat (List.length pre) + k)) with (List.length pre + N.to_nat k)%nat by lia.
  apply nth_error_map_app.
Qed.

Lemma nth_error_pre_0 (pre rest : list N) :
  nth_error (map VN (pre ++ rest)) (N.to_nat (N.of_nat (List.length pre))) =
  nth_error (map VN rest) 0.
Proof.
  replace (N.to_nat (N.of_nat (List.length pre))) with (List.length pre + 0)%nat by lia.
  apply nth_error_map_app.
Qed.

Lemma skipn_pre (pre rest : list N) :
  skipn (N.to_nat (N.of_nat (List.length pre))) (map VN (pre ++ rest)) = map VN rest.
Proof. rewrite Nat2N.id. apply skipn_map_app. Qed.

(* induction four / eight elements at a time; the middle case is a remainder
   that is too short for a full group *)
Lemma list_ind4 {A} (P : list A -> Prop) :
  P [] -> (forall l, (0 < List.length l < 4)%nat -> P l) ->
  (forall a b c d t, P t -> P (a :: b :: c :: d :: t)) -> forall l, P l.
Proof.
  intros H0 H1 H2. fix IH 1.
  intros [|a [|b [|c [|d t]]]];
    [exact H0 | apply H1; cbn [List.length]; lia .. | apply H2, IH].
Qed.

Lemma list_ind8 {A} (P : list A -> Prop) :
  P [] -> (forall l, (0 < List.length l < 8)%nat -> P l) ->
  (forall a b c d a' b' c' d' t, P t -> P (a :: b :: c :: d :: a' :: b' :: c' :: d' :: t)) ->
  forall l, P l.
Proof.
  intros H0 H1 H2. fix IH 1.
  intros [|a [|b [|c [|d [|a' [|b' [|c' [|d' t]]]]]]]];
    [exact H0 | apply H1; cbn [List.length]; lia .. | apply H2, IH].
Qed.

(* ---------------------------------------------------------------- uint16sToBytes *)

Definition u16s2b_body : stmt :=
  Eval cbv in match f_body src_fn_uint16sToBytes with
              | SSeq (SRange _ _ _ b) _ => b
              | _ => SSkip
              end.

Section U16s2B.
  Variable fe : fenv.
  Variable fuel : nat.
  Variable e : endian.
  Hypothesis Hc : forall e v, fe "uint16ToBytes"%string [VN (endian_sel e); VN v] = Ok [vbytes (u16_to_bytes e v)].

  Lemma u16s2b_body_step pre v t acc :
    exec ge fe fuel [VN (endian_sel e); vbytes (pre ++ v :: t); vbytes acc; VN (N.of_nat (List.length pre))]
         u16s2b_body =
    ONormal [VN (endian_sel e); vbytes (pre ++ v :: t); vbytes (acc ++ u16_to_bytes e v);
             VN (N.of_nat (List.length pre))].
  Proof.
    unfold u16s2b_body, vbytes.
    cbn [exec resolve eval evals rbind get_slot sget].
    rewrite nth_error_pre_0. cbn [map nth_error].
    cbn [rbind]. rewrite Hc.
    cbn [rbind store set_slot sset vbytes].
    rewrite (map_app VN acc). reflexivity.
  Qed.

  Lemma u16s2b_loop : forall rest pre acc idx,
    exists idx',
    range_go (fun st' => exec ge fe fuel st' u16s2b_body) (Some 3%nat) None
             (N.of_nat (List.length pre)) (map VN rest)
             [VN (endian_sel e); vbytes (pre ++ rest); vbytes acc; idx]
    = ONormal [VN (endian_sel e); vbytes (pre ++ rest); vbytes (acc ++ u16s_to_bytes e rest); idx'].
  Proof.
    induction rest as [|v t IH]; intros pre acc idx.
    - exists idx. cbn [map range_go u16s_to_bytes flat_map]. rewrite !app_nil_r. reflexivity.
    - cbn [map range_go set_opt rbind set_slot sset].
      rewrite u16s2b_body_step.
      replace (N.of_nat (List.length pre) + 1) with (N.of_nat (List.length (pre ++ [v])))
        by (rewrite app_length; cbn [List.length]; lia).
      replace (pre ++ v :: t) with ((pre ++ [v]) ++ t) by (rewrite <- app_assoc; reflexivity).
      destruct (IH (pre ++ [v]) (acc ++ u16_to_bytes e v) (VN (N.of_nat (List.length pre)))) as (idx' & E).
      exists idx'. rewrite E.
      unfold u16s_to_bytes. cbn [flat_map]. rewrite <- !app_assoc. reflexivity.
  Qed.
End U16s2B.

Lemma run_uint16sToBytes fe fuel e vs :
  (forall e v, fe "uint16ToBytes"%string [VN (endian_sel e); VN v] = Ok [vbytes (u16_to_bytes e v)]) ->
  N.of_nat (List.length vs) < 2 ^ 62 ->
  run_fn ge fe fuel src_fn_uint16sToBytes [VN (endian_sel e); vbytes vs] = Ok [vbytes (u16s_to_bytes e vs)].
Proof.
  intros Hc _.
  destruct (u16s2b_loop fe fuel e Hc vs [] [] (VN 0)) as (idx' & E).
  cbn [app List.length N.of_nat] in E.
  unfold run_fn.
  change (f_body src_fn_uint16sToBytes) with
    (SSeq (SRange (Some 3%nat) None (EVar 1) u16s2b_body) (SReturn ENil)).
  cbn [f_nparams f_zeros f_outs f_results src_fn_uint16sToBytes List.length Nat.eqb negb app].
  cbn [exec resolve eval rbind store set_slot sset get_slot sget].
  change (VL []) with (vbytes []).
  unfold vbytes at 1. rewrite E.
  reflexivity.
Qed.

(* ---------------------------------------------------------------- tactics *)

(* symbolic evaluation that also keeps the byte-order primitives folded *)
Ltac gl_cbv_sym2 :=
  cbv -[N.add N.sub N.mul N.div N.modulo N.pow N.land N.lor N.lxor N.ldiff N.shiftl N.shiftr
        N.eqb N.ltb N.leb N.to_nat N.of_nat
        map nth_error upd firstn skipn List.length app repeat rev fold_left range_go for_go
        bytes_to_uint be_value].

(* [gl_consts] gives up as soon as the first conversion it meets has an open
   argument; this variant skips such occurrences and goes on *)
Ltac closed_term t := match t with context [?x] => is_var x; fail 1 | _ => idtac end.
Ltac gl_consts2 :=
  repeat match goal with
  | |- context [N.to_nat ?a] => closed_term a; let r := eval vm_compute in (N.to_nat a) in change (N.to_nat a) with r
  | |- context [N.of_nat ?a] => closed_term a; let r := eval vm_compute in (N.of_nat a) in change (N.of_nat a) with r
  | |- context [N.eqb ?a ?b] => closed_term a; closed_term b; let r := eval vm_compute in (N.eqb a b) in change (N.eqb a b) with r
  | |- context [N.ltb ?a ?b] => closed_term a; closed_term b; let r := eval vm_compute in (N.ltb a b) in change (N.ltb a b) with r
  | |- context [N.leb ?a ?b] => closed_term a; closed_term b; let r := eval vm_compute in (N.leb a b) in change (N.leb a b) with r
  end.

(* decide the comparisons of the goal by lia *)
Ltac cmp_lia :=
  repeat match goal with
  | |- context [N.ltb ?a ?b] =>
      first [replace (N.ltb a b) with true by lia | replace (N.ltb a b) with false by lia]
  | |- context [N.leb ?a ?b] =>
      first [replace (N.leb a b) with true by lia | replace (N.leb a b) with false by lia]
  end.
Ltac gl_eval_sym2 :=
  repeat (progress (gl_cbv_sym2; gl_consts2; rewrite ?map_length, ?app_length; cbn [List.length]; cmp_lia)).

Ltac sub_lia :=
  repeat match goal with
  | |- context [N.to_nat (?x + ?k - ?x)] => replace (N.to_nat (x + k - x)) with (N.to_nat k) by lia
  end.

Lemma bytes_to_uint_4 big a b c d :
  bytes_to_uint big 4 [VN a; VN b; VN c; VN d] =
  Ok (VN (be_value (if big then [a; b; c; d] else [d; c; b; a]))).
Proof. destruct big; reflexivity. Qed.

Lemma bytes_to_uint_8 big a b c d a' b' c' d' :
  bytes_to_uint big 8 [VN a; VN b; VN c; VN d; VN a'; VN b'; VN c'; VN d'] =
  Ok (VN (be_value (if big then [a; b; c; d; a'; b'; c'; d'] else [d'; c'; b'; a'; d; c; b; a]))).
Proof. destruct big; reflexivity. Qed.

(* evaluation of a loop body reading in[i..i+k-1] at i = length pre *)
Ltac gl_eval_pre :=
  repeat (progress (
    gl_cbv_sym2; gl_consts2;
    rewrite ?map_length, ?app_length, ?skipn_pre, ?nth_error_pre_k, ?nth_error_pre_0;
    gl_consts2; sub_lia; gl_consts2;
    cbn [List.length map nth_error firstn];
    rewrite ?bytes_to_uint_4, ?bytes_to_uint_8;
    cmp_lia)).

(* ---------------------------------------------------------------- bytesToUint32s *)

Definition b2u32s_parts : expr * stmt * stmt :=
  Eval cbv in match f_body src_fn_bytesToUint32s with
              | SSeq _ (SSeq (SSeq _ (SFor c p b)) _) => (c, p, b)
              | _ => (EB false, SSkip, SSkip)
              end.
Definition b2u32s_cond := fst (fst b2u32s_parts).
Definition b2u32s_post := snd (fst b2u32s_parts).
Definition b2u32s_body := snd b2u32s_parts.
Definition b2u32s_sel : stmt :=
  Eval cbv in match b2u32s_body with SSeq s _ => s | _ => SSkip end.
Definition b2u32s_app : stmt :=
  Eval cbv in match b2u32s_body with SSeq _ s => s | _ => SSkip end.

Section B2U32s.
  Variable fe : fenv.
  Variable fuel : nat.
  Variable e : endian.
  Variable w : wordorder.

  Let condf := fun st' : state => eval ge fe st' b2u32s_cond.
  Let bodyf := fun st' : state => exec ge fe fuel st' b2u32s_body.
  Let postf := fun st' : state => exec ge fe fuel st' b2u32s_post.

  Lemma b2u32s_cond_eval inl out u i :
    condf [VN (endian_sel e); VN (word_sel w); VL inl; out; u; VN i] = Ok (VB (i <? lenN inl)).
  Proof. reflexivity. Qed.

  Lemma b2u32s_post_eval inl out u i : i + 4 < 2 ^ 63 ->
    postf [VN (endian_sel e); VN (word_sel w); inl; out; u; VN i] =
    ONormal [VN (endian_sel e); VN (word_sel w); inl; out; u; VN (i + 4)].
  Proof.
    intros Hi. unfold postf. gl_eval_sym.
    replace (i + 4 <? 2 ^ 63) with true by lia. reflexivity.
  Qed.

  Lemma b2u32s_sel_eval pre a b c d t out u :
    N.of_nat (List.length (pre ++ a :: b :: c :: d :: t)) < 2 ^ 62 ->
    exec ge fe fuel
         [VN (endian_sel e); VN (word_sel w); vbytes (pre ++ a :: b :: c :: d :: t); out; u;
          VN (N.of_nat (List.length pre))] b2u32s_sel =
    ONormal [VN (endian_sel e); VN (word_sel w); vbytes (pre ++ a :: b :: c :: d :: t); out;
             VN (dec_u32 e w a b c d); VN (N.of_nat (List.length pre))].
  Proof.
    intros Hlen. unfold vbytes. rewrite app_length in Hlen. cbn [List.length] in Hlen.
    destruct e, w; gl_eval_pre; reflexivity.
  Qed.

  Lemma b2u32s_sel_short pre rest out u :
    (0 < List.length rest < 4)%nat ->
    N.of_nat (List.length (pre ++ rest)) < 2 ^ 62 ->
    exec ge fe fuel
         [VN (endian_sel e); VN (word_sel w); vbytes (pre ++ rest); out; u;
          VN (N.of_nat (List.length pre))] b2u32s_sel = OFail Panic.
  Proof.
    intros Hr Hlen. unfold vbytes. rewrite app_length in Hlen.
    destruct rest as [|x1 [|x2 [|x3 [|x4 r]]]]; cbn [List.length] in Hr, Hlen; try lia.
    all: destruct e, w; gl_eval_pre; reflexivity.
  Qed.

  Lemma b2u32s_body_eval pre a b c d t acc u :
    N.of_nat (List.length (pre ++ a :: b :: c :: d :: t)) < 2 ^ 62 ->
    bodyf [VN (endian_sel e); VN (word_sel w); vbytes (pre ++ a :: b :: c :: d :: t); vbytes acc; u;
           VN (N.of_nat (List.length pre))] =
    ONormal [VN (endian_sel e); VN (word_sel w); vbytes (pre ++ a :: b :: c :: d :: t);
             vbytes (acc ++ [dec_u32 e w a b c d]); VN (dec_u32 e w a b c d);
             VN (N.of_nat (List.length pre))].
  Proof.
    intros Hlen. unfold bodyf.
    change b2u32s_body with (SSeq b2u32s_sel b2u32s_app).
    cbn [exec]. rewrite b2u32s_sel_eval by exact Hlen.
    generalize (dec_u32 e w a b c d); intros x.
    unfold b2u32s_app, vbytes. gl_eval_sym.
    rewrite (map_app VN acc). reflexivity.
  Qed.

  Lemma b2u32s_body_short pre rest acc u :
    (0 < List.length rest < 4)%nat ->
    N.of_nat (List.length (pre ++ rest)) < 2 ^ 62 ->
    bodyf [VN (endian_sel e); VN (word_sel w); vbytes (pre ++ rest); vbytes acc; u;
           VN (N.of_nat (List.length pre))] = OFail Panic.
  Proof.
    intros Hr Hlen. unfold bodyf.
    change b2u32s_body with (SSeq b2u32s_sel b2u32s_app).
    cbn [exec]. rewrite b2u32s_sel_short by assumption. reflexivity.
  Qed.

  Lemma b2u32s_short_none rest :
    (0 < List.length rest < 4)%nat -> bytes_to_u32s e w rest = None.
  Proof.
    intros Hr.
    destruct rest as [|x1 [|x2 [|x3 [|x4 r]]]]; cbn [List.length] in Hr; try lia; reflexivity.
  Qed.

  Lemma b2u32s_loop : forall rest pre acc u n,
    N.of_nat (List.length (pre ++ rest)) < 2 ^ 62 -> (List.length rest < n)%nat ->
    exists u',
    for_go n condf bodyf postf
           [VN (endian_sel e); VN (word_sel w); vbytes (pre ++ rest); vbytes acc; u;
            VN (N.of_nat (List.length pre))] =
    match bytes_to_u32s e w rest with
    | Some r => ONormal [VN (endian_sel e); VN (word_sel w); vbytes (pre ++ rest); vbytes (acc ++ r); u';
                         VN (N.of_nat (List.length (pre ++ rest)))]
    | None => OFail Panic
    end.
  Proof.
    induction rest as [|rest Hr|a b c d t IH] using list_ind4; intros pre acc u n Hlen Hn.
    - destruct n as [|n]; [cbn in Hn; lia|].
      exists u. rewrite for_go_exit.
      + cbn [bytes_to_u32s]. rewrite !app_nil_r. reflexivity.
      + unfold vbytes. rewrite b2u32s_cond_eval. unfold lenN. rewrite map_length, app_nil_r.
        replace (N.of_nat (List.length pre) <? N.of_nat (List.length pre)) with false by lia. reflexivity.
    - destruct n as [|n]; [lia|].
      exists u. rewrite b2u32s_short_none by exact Hr.
      apply for_go_body_fail.
      + unfold vbytes. rewrite b2u32s_cond_eval. unfold lenN. rewrite map_length, app_length.
        replace (N.of_nat (List.length pre) <? N.of_nat (List.length pre + List.length rest)) with true by lia.
        reflexivity.
      + apply b2u32s_body_short; assumption.
    - destruct n as [|n]; [cbn in Hn; lia|].
      destruct (IH (pre ++ [a; b; c; d]) (acc ++ [dec_u32 e w a b c d]) (VN (dec_u32 e w a b c d)) n)
        as (u' & E).
      { rewrite <- app_assoc. exact Hlen. }
      { cbn [List.length] in Hn. lia. }
      exists u'.
      erewrite for_go_step.
      2:{ unfold vbytes. rewrite b2u32s_cond_eval. unfold lenN. rewrite map_length, app_length. cbn [List.length].
          replace (N.of_nat (List.length pre) <? N.of_nat (List.length pre + S (S (S (S (List.length t))))))
            with true by lia.
          reflexivity. }
      2:{ apply b2u32s_body_eval. exact Hlen. }
      2:{ apply b2u32s_post_eval. rewrite app_length in Hlen. cbn [List.length] in Hlen. lia. }
      replace (N.of_nat (List.length pre) + 4) with (N.of_nat (List.length (pre ++ [a; b; c; d])))
        by (rewrite app_length; cbn [List.length]; lia).
      replace (pre ++ a :: b :: c :: d :: t) with ((pre ++ [a; b; c; d]) ++ t)
        by (rewrite <- app_assoc; reflexivity).
      rewrite E.
      cbn [bytes_to_u32s]. destruct (bytes_to_u32s e w t) as [r|]; [|reflexivity].
      rewrite <- !app_assoc. reflexivity.
  Qed.
End B2U32s.

Lemma run_bytesToUint32s fe fuel e w l :
  N.of_nat (List.length l) < 2 ^ 62 -> (List.length l < fuel)%nat ->
  run_fn ge fe fuel src_fn_bytesToUint32s [VN (endian_sel e); VN (word_sel w); vbytes l] =
  match bytes_to_u32s e w l with Some r => Ok [vbytes r] | None => Panic end.
Proof.
  intros Hlen Hfuel.
  destruct (b2u32s_loop fe fuel e w l [] [] (VN 0) fuel Hlen Hfuel) as (u' & E).
  cbn [app List.length N.of_nat] in E.
  unfold run_fn.
  change (f_body src_fn_bytesToUint32s) with
    (SSeq (SSet (LVar 4) (EN 0))
       (SSeq (SSeq (SSet (LVar 5) (EN 0)) (SFor b2u32s_cond b2u32s_post b2u32s_body)) (SReturn ENil))).
  cbn [f_nparams f_zeros f_outs f_results src_fn_bytesToUint32s List.length Nat.eqb negb app].
  cbn [exec resolve eval rbind store set_slot sset get_slot sget].
  change (VL []) with (vbytes []).
  rewrite E.
  destruct (bytes_to_u32s e w l) as [r|]; reflexivity.
Qed.

(* ---------------------------------------------------------------- bytesToUint64s *)

Definition b2u64s_parts : expr * stmt * stmt :=
  Eval cbv in match f_body src_fn_bytesToUint64s with
              | SSeq _ (SSeq (SSeq _ (SFor c p b)) _) => (c, p, b)
              | _ => (EB false, SSkip, SSkip)
              end.
Definition b2u64s_cond := fst (fst b2u64s_parts).
Definition b2u64s_post := snd (fst b2u64s_parts).
Definition b2u64s_body := snd b2u64s_parts.
Definition b2u64s_sel : stmt :=
  Eval cbv in match b2u64s_body with SSeq s _ => s | _ => SSkip end.
Definition b2u64s_app : stmt :=
  Eval cbv in match b2u64s_body with SSeq _ s => s | _ => SSkip end.

Section B2U64s.
  Variable fe : fenv.
  Variable fuel : nat.
  Variable e : endian.
  Variable w : wordorder.

  Let condf := fun st' : state => eval ge fe st' b2u64s_cond.
  Let bodyf := fun st' : state => exec ge fe fuel st' b2u64s_body.
  Let postf := fun st' : state => exec ge fe fuel st' b2u64s_post.

  Lemma b2u64s_cond_eval inl out u i :
    condf [VN (endian_sel e); VN (word_sel w); VL inl; out; u; VN i] = Ok (VB (i <? lenN inl)).
  Proof. reflexivity. Qed.

  Lemma b2u64s_post_eval inl out u i : i + 8 < 2 ^ 63 ->
    postf [VN (endian_sel e); VN (word_sel w); inl; out; u; VN i] =
    ONormal [VN (endian_sel e); VN (word_sel w); inl; out; u; VN (i + 8)].
  Proof.
    intros Hi. unfold postf. gl_eval_sym.
    replace (i + 8 <? 2 ^ 63) with true by lia. reflexivity.
  Qed.

  Lemma b2u64s_sel_eval pre a b c d a' b' c' d' t out u :
    N.of_nat (List.length (pre ++ a :: b :: c :: d :: a' :: b' :: c' :: d' :: t)) < 2 ^ 62 ->
    exec ge fe fuel
         [VN (endian_sel e); VN (word_sel w); vbytes (pre ++ a :: b :: c :: d :: a' :: b' :: c' :: d' :: t); out; u;
          VN (N.of_nat (List.length pre))] b2u64s_sel =
    ONormal [VN (endian_sel e); VN (word_sel w); vbytes (pre ++ a :: b :: c :: d :: a' :: b' :: c' :: d' :: t); out;
             VN (dec_u64 e w a b c d a' b' c' d'); VN (N.of_nat (List.length pre))].
  Proof.
    intros Hlen. unfold vbytes. rewrite app_length in Hlen. cbn [List.length] in Hlen.
    destruct e, w; gl_eval_pre; reflexivity.
  Qed.

  Lemma b2u64s_sel_short pre rest out u :
    (0 < List.length rest < 8)%nat ->
    N.of_nat (List.length (pre ++ rest)) < 2 ^ 62 ->
    exec ge fe fuel
         [VN (endian_sel e); VN (word_sel w); vbytes (pre ++ rest); out; u;
          VN (N.of_nat (List.length pre))] b2u64s_sel = OFail Panic.
  Proof.
    intros Hr Hlen. unfold vbytes. rewrite app_length in Hlen.
    destruct rest as [|x1 [|x2 [|x3 [|x4 [|x5 [|x6 [|x7 [|x8 r]]]]]]]]; cbn [List.length] in Hr, Hlen; try lia.
    all: destruct e, w; gl_eval_pre; reflexivity.
  Qed.

  Lemma b2u64s_body_eval pre a b c d a' b' c' d' t acc u :
    N.of_nat (List.length (pre ++ a :: b :: c :: d :: a' :: b' :: c' :: d' :: t)) < 2 ^ 62 ->
    bodyf [VN (endian_sel e); VN (word_sel w); vbytes (pre ++ a :: b :: c :: d :: a' :: b' :: c' :: d' :: t); vbytes acc; u;
           VN (N.of_nat (List.length pre))] =
    ONormal [VN (endian_sel e); VN (word_sel w); vbytes (pre ++ a :: b :: c :: d :: a' :: b' :: c' :: d' :: t);
             vbytes (acc ++ [dec_u64 e w a b c d a' b' c' d']); VN (dec_u64 e w a b c d a' b' c' d');
             VN (N.of_nat (List.length pre))].
  Proof.
    intros Hlen. unfold bodyf.
    change b2u64s_body with (SSeq b2u64s_sel b2u64s_app).
    cbn [exec]. rewrite b2u64s_sel_eval by exact Hlen.
    generalize (dec_u64 e w a b c d a' b' c' d'); intros x.
    unfold b2u64s_app, vbytes. gl_eval_sym.
    rewrite (map_app VN acc). reflexivity.
  Qed.

  Lemma b2u64s_body_short pre rest acc u :
    (0 < List.length rest < 8)%nat ->
    N.of_nat (List.length (pre ++ rest)) < 2 ^ 62 ->
    bodyf [VN (endian_sel e); VN (word_sel w); vbytes (pre ++ rest); vbytes acc; u;
           VN (N.of_nat (List.length pre))] = OFail Panic.
  Proof.
    intros Hr Hlen. unfold bodyf.
    change b2u64s_body with (SSeq b2u64s_sel b2u64s_app).
    cbn [exec]. rewrite b2u64s_sel_short by assumption. reflexivity.
  Qed.

  Lemma b2u64s_short_none rest :
    (0 < List.length rest < 8)%nat -> bytes_to_u64s e w rest = None.
  Proof.
    intros Hr.
    destruct rest as [|x1 [|x2 [|x3 [|x4 [|x5 [|x6 [|x7 [|x8 r]]]]]]]]; cbn [List.length] in Hr; try lia; reflexivity.
  Qed.

  Lemma b2u64s_loop : forall rest pre acc u n,
    N.of_nat (List.length (pre ++ rest)) < 2 ^ 62 -> (List.length rest < n)%nat ->
    exists u',
    for_go n condf bodyf postf
           [VN (endian_sel e); VN (word_sel w); vbytes (pre ++ rest); vbytes acc; u;
            VN (N.of_nat (List.length pre))] =
    match bytes_to_u64s e w rest with
    | Some r => ONormal [VN (endian_sel e); VN (word_sel w); vbytes (pre ++ rest); vbytes (acc ++ r); u';
                         VN (N.of_nat (List.length (pre ++ rest)))]
    | None => OFail Panic
    end.
  Proof.
    induction rest as [|rest Hr|a b c d a' b' c' d' t IH] using list_ind8; intros pre acc u n Hlen Hn.
    - destruct n as [|n]; [cbn in Hn; lia|].
      exists u. rewrite for_go_exit.
      + cbn [bytes_to_u64s]. rewrite !app_nil_r. reflexivity.
      + unfold vbytes. rewrite b2u64s_cond_eval. unfold lenN. rewrite map_length, app_nil_r.
        replace (N.of_nat (List.length pre) <? N.of_nat (List.length pre)) with false by lia. reflexivity.
    - destruct n as [|n]; [lia|].
      exists u. rewrite b2u64s_short_none by exact Hr.
      apply for_go_body_fail.
      + unfold vbytes. rewrite b2u64s_cond_eval. unfold lenN. rewrite map_length, app_length.
        replace (N.of_nat (List.length pre) <? N.of_nat (List.length pre + List.length rest)) with true by lia.
        reflexivity.
      + apply b2u64s_body_short; assumption.
    - destruct n as [|n]; [cbn in Hn; lia|].
      destruct (IH (pre ++ [a; b; c; d; a'; b'; c'; d']) (acc ++ [dec_u64 e w a b c d a' b' c' d']) (VN (dec_u64 e w a b c d a' b' c' d')) n)
        as (u' & E).
      { rewrite <- app_assoc. exact Hlen. }
      { cbn [List.length] in Hn. lia. }
      exists u'.
      erewrite for_go_step.
      2:{ unfold vbytes. rewrite b2u64s_cond_eval. unfold lenN. rewrite map_length, app_length. cbn [List.length].
          replace (N.of_nat (List.length pre) <? N.of_nat (List.length pre + S (S (S (S (S (S (S (S (List.length t))))))))))
            with true by lia.
          reflexivity. }
      2:{ apply b2u64s_body_eval. exact Hlen. }
      2:{ apply b2u64s_post_eval. rewrite app_length in Hlen. cbn [List.length] in Hlen. lia. }
      replace (N.of_nat (List.length pre) + 8) with (N.of_nat (List.length (pre ++ [a; b; c; d; a'; b'; c'; d'])))
        by (rewrite app_length; cbn [List.length]; lia).
      replace (pre ++ a :: b :: c :: d :: a' :: b' :: c' :: d' :: t) with ((pre ++ [a; b; c; d; a'; b'; c'; d']) ++ t)
        by (rewrite <- app_assoc; reflexivity).
      rewrite E.
      cbn [bytes_to_u64s]. destruct (bytes_to_u64s e w t) as [r|]; [|reflexivity].
      rewrite <- !app_assoc. reflexivity.
  Qed.
End B2U64s.

Lemma run_bytesToUint64s fe fuel e w l :
  N.of_nat (List.length l) < 2 ^ 62 -> (List.length l < fuel)%nat ->
  run_fn ge fe fuel src_fn_bytesToUint64s [VN (endian_sel e); VN (word_sel w); vbytes l] =
  match bytes_to_u64s e w l with Some r => Ok [vbytes r] | None => Panic end.
Proof.
  intros Hlen Hfuel.
  destruct (b2u64s_loop fe fuel e w l [] [] (VN 0) fuel Hlen Hfuel) as (u' & E).
  cbn [app List.length N.of_nat] in E.
  unfold run_fn.
  change (f_body src_fn_bytesToUint64s) with
    (SSeq (SSet (LVar 4) (EN 0))
       (SSeq (SSeq (SSet (LVar 5) (EN 0)) (SFor b2u64s_cond b2u64s_post b2u64s_body)) (SReturn ENil))).
  cbn [f_nparams f_zeros f_outs f_results src_fn_bytesToUint64s List.length Nat.eqb negb app].
  cbn [exec resolve eval rbind store set_slot sset get_slot sget].
  change (VL []) with (vbytes []).
  rewrite E.
  destruct (bytes_to_u64s e w l) as [r|]; reflexivity.
Qed.

(* ---------------------------------------------------------------- bytesToFloat32s, bytesToFloat64s *)

(* for _, x := range xs { out = append(out, x) } with out in slot 3 and x in slot 6 *)
Definition copy_body : stmt := SSet (LVar 3) (EAppend (EVar 3) (ECons (EVar 6) ENil)).

Lemma copy_body_step fe fuel s0 s1 s2 acc s4 s5 x :
  exec ge fe fuel [s0; s1; s2; vbytes acc; s4; s5; VN x] copy_body =
  ONormal [s0; s1; s2; vbytes (acc ++ [x]); s4; s5; VN x].
Proof.
  unfold copy_body, vbytes.
  cbn [exec resolve eval evals rbind get_slot sget store set_slot sset].
  rewrite map_app. reflexivity.
Qed.

Lemma copy_loop fe fuel : forall r s0 s1 s2 acc s4 s5 s6 i,
  exists s6',
  range_go (fun st' => exec ge fe fuel st' copy_body) None (Some 6%nat) i (map VN r)
           [s0; s1; s2; vbytes acc; s4; s5; s6]
  = ONormal [s0; s1; s2; vbytes (acc ++ r); s4; s5; s6'].
Proof.
  induction r as [|x r IH]; intros s0 s1 s2 acc s4 s5 s6 i.
  - exists s6. cbn [map range_go]. rewrite app_nil_r. reflexivity.
  - cbn [map range_go set_opt rbind set_slot sset].
    rewrite copy_body_step.
    destruct (IH s0 s1 s2 (acc ++ [x]) s4 s5 (VN x) (i + 1)) as (s6' & E).
    exists s6'. rewrite E. rewrite <- app_assoc. reflexivity.
Qed.

(* the callee's behaviour is only needed at the arguments of this call *)
Lemma run_bytesToFloat32s_at fe fuel e w l :
  fe "bytesToUint32s"%string [VN (endian_sel e); VN (word_sel w); vbytes l] =
    match bytes_to_u32s e w l with Some r => Ok [vbytes r] | None => Panic end ->
  run_fn ge fe fuel src_fn_bytesToFloat32s [VN (endian_sel e); VN (word_sel w); vbytes l] =
  match bytes_to_u32s e w l with Some r => Ok [vbytes r] | None => Panic end.
Proof.
  intros Hc. unfold run_fn.
  change (f_body src_fn_bytesToFloat32s) with
    (SSeq (SSet (LVar 4) (ELit ENil))
       (SSeq (SSet (LVar 4) (ECall "bytesToUint32s" (ECons (EVar 0) (ECons (EVar 1) (ECons (EVar 2) ENil)))))
          (SSeq (SRange None (Some 6%nat) (EVar 4) copy_body) (SReturn ENil)))).
  cbn [f_nparams f_zeros f_outs f_results src_fn_bytesToFloat32s List.length Nat.eqb negb app].
  cbn [exec resolve eval evals rbind store set_slot sset get_slot sget].
  rewrite Hc.
  destruct (bytes_to_u32s e w l) as [r|]; [|reflexivity].
  cbn [rbind store set_slot sset get_slot sget].
  destruct (copy_loop fe fuel r (VN (endian_sel e)) (VN (word_sel w)) (vbytes l) [] (vbytes r) (VN 0) (VN 0) 0)
    as (s6' & E).
  unfold vbytes in E |- *. cbn [map app] in E.
  cbv beta iota. rewrite E. reflexivity.
Qed.

(* the callee's behaviour is only needed at the arguments of this call *)
Lemma run_bytesToFloat64s_at fe fuel e w l :
  fe "bytesToUint64s"%string [VN (endian_sel e); VN (word_sel w); vbytes l] =
    match bytes_to_u64s e w l with Some r => Ok [vbytes r] | None => Panic end ->
  run_fn ge fe fuel src_fn_bytesToFloat64s [VN (endian_sel e); VN (word_sel w); vbytes l] =
  match bytes_to_u64s e w l with Some r => Ok [vbytes r] | None => Panic end.
Proof.
  intros Hc. unfold run_fn.
  change (f_body src_fn_bytesToFloat64s) with
    (SSeq (SSet (LVar 4) (ELit ENil))
       (SSeq (SSet (LVar 4) (ECall "bytesToUint64s" (ECons (EVar 0) (ECons (EVar 1) (ECons (EVar 2) ENil)))))
          (SSeq (SRange None (Some 6%nat) (EVar 4) copy_body) (SReturn ENil)))).
  cbn [f_nparams f_zeros f_outs f_results src_fn_bytesToFloat64s List.length Nat.eqb negb app].
  cbn [exec resolve eval evals rbind store set_slot sset get_slot sget].
  rewrite Hc.
  destruct (bytes_to_u64s e w l) as [r|]; [|reflexivity].
  cbn [rbind store set_slot sset get_slot sget].
  destruct (copy_loop fe fuel r (VN (endian_sel e)) (VN (word_sel w)) (vbytes l) [] (vbytes r) (VN 0) (VN 0) 0)
    as (s6' & E).
  unfold vbytes in E |- *. cbn [map app] in E.
  cbv beta iota. rewrite E. reflexivity.
Qed.

Lemma run_bytesToFloat32s fe fuel e w l :
  (forall e w l, fe "bytesToUint32s"%string [VN (endian_sel e); VN (word_sel w); vbytes l] =
                 match bytes_to_u32s e w l with Some r => Ok [vbytes r] | None => Panic end) ->
  run_fn ge fe fuel src_fn_bytesToFloat32s [VN (endian_sel e); VN (word_sel w); vbytes l] =
  match bytes_to_u32s e w l with Some r => Ok [vbytes r] | None => Panic end.
Proof. intros Hc. apply run_bytesToFloat32s_at. apply Hc. Qed.

Lemma run_bytesToFloat64s fe fuel e w l :
  (forall e w l, fe "bytesToUint64s"%string [VN (endian_sel e); VN (word_sel w); vbytes l] =
                 match bytes_to_u64s e w l with Some r => Ok [vbytes r] | None => Panic end) ->
  run_fn ge fe fuel src_fn_bytesToFloat64s [VN (endian_sel e); VN (word_sel w); vbytes l] =
  match bytes_to_u64s e w l with Some r => Ok [vbytes r] | None => Panic end.
Proof. intros Hc. apply run_bytesToFloat64s_at. apply Hc. Qed.
