(* The typed register readers of client.go (ReadRegisters, ReadRegister,
   ReadUint32s, ReadUint32, ReadFloat32s, ReadFloat32, ReadUint64s, ReadUint64,
   ReadFloat64s, ReadFloat64) as translated from the Go source (Gen/SrcPure.v),
   against the client model: each is readRegisters + encoding + a decoder of
   encoding.go; the one-value readers index the result of the slice readers. *)
From Coq Require Import List NArith String Lia Bool.
From Coq Require Import ZifyBool ZifyNat ZifyN.
Import ListNotations.
From Modbus Require Import Base.Bytes Model.GoLite Gen.SrcPure Model.Crc Model.Encoding.
From Modbus Require Import Model.Wire Model.Client.
From Modbus Require Import Proofs.GoLiteP Proofs.GoLiteLinkP Proofs.SrcCrcP Proofs.SrcLinkP Proofs.SrcMiscP Proofs.SrcClientP.
Open Scope string_scope.
Open Scope N_scope.

(* ---------------------------------------------------------------- the model side *)

(* the number of registers asked from readRegisters *)
Definition rr_count (w q : N) : N := if w =? 1 then q else register_count q w.

(* the decoder applied to the returned bytes *)
Definition dec_values (cfg : ccfg) (w : N) (data : list N) : option (list N) :=
  if w =? 1 then bytes_to_u16s (c_endian cfg) data
  else if w =? 2 then bytes_to_u32s (c_endian cfg) (c_word cfg) data
  else bytes_to_u64s (c_endian cfg) (c_word cfg) data.

(* what a typed reader makes of the outcome of readRegisters: an error is
   passed on, the bytes are decoded (a ragged byte slice panics) *)
Definition dec_out (cfg : ccfg) (w : N) (s : sout) : sout :=
  match s with
  | SVal (VBytes data) =>
      match dec_values cfg w data with Some r => SVal (VNums r) | None => SPanic end
  | SVal _ => SPanic      (* readRegisters returns bytes only *)
  | SCode c => SCode c
  | SPanic => SPanic
  end.

(* key lemma: a typed read is readRegisters followed by the decoder *)
Lemma call_out_read_regs cfg w a q rt X :
  call_out cfg (OpReadRegs w a q rt) X = dec_out cfg w (rr_out cfg a (rr_count w q) rt X).
Proof.
  unfold call_out, rr_out. cbn [client_request client_validate]. fold (rr_count w q).
  destruct (req_read_regs cfg a (rr_count w q) rt) as [req|e| |]; cbn [sout_of dec_out]; try reflexivity.
  destruct (X req) as [res|c rnil ru rf rp]; [|reflexivity].
  unfold validate_read_regs.
  destruct (p_fc res =? p_fc req).
  - destruct (p_payload res) as [|bc data]; [reflexivity|].
    destruct (negb (lenN (bc :: data) =? 1 + 2 * rr_count w q)); [reflexivity|].
    destruct (negb (bc =? 2 * rr_count w q)); [reflexivity|].
    cbn [sout_of dec_out]. unfold dec_values, opt_result.
    destruct (w =? 1); [|destruct (w =? 2)].
    + destruct (bytes_to_u16s (c_endian cfg) data); reflexivity.
    + destruct (bytes_to_u32s (c_endian cfg) (c_word cfg) data); reflexivity.
    + destruct (bytes_to_u64s (c_endian cfg) (c_word cfg) data); reflexivity.
  - unfold exception_or_protocol.
    destruct (p_fc res =? N.lor (p_fc req) 128); [|reflexivity].
    destruct (p_payload res) as [|c [|c2 t]]; reflexivity.
Qed.

(* a successful readRegisters returns 2*q bytes, q <= 125 *)
Lemma rr_out_val cfg a q rt X v :
  rr_out cfg a q rt X = SVal v -> exists data, v = VBytes data /\ lenN data = 2 * q /\ q <= 125.
Proof.
  unfold rr_out. intros H.
  assert (Hq : forall req, req_read_regs cfg a q rt = MOk req -> q <= 125).
  { intros req. unfold req_read_regs.
    destruct rt; try discriminate;
      (destruct (q =? 0); [discriminate|]); (destruct (125 <? q) eqn:E; [discriminate|]); intros _; lia. }
  destruct (req_read_regs cfg a q rt) as [req|e| |]; try discriminate.
  specialize (Hq req eq_refl).
  destruct (X req) as [res|c rnil ru rf rp]; [|discriminate].
  unfold validate_read_regs in H.
  destruct (p_fc res =? p_fc req).
  - destruct (p_payload res) as [|bc data]; [discriminate|].
    destruct (lenN (bc :: data) =? 1 + 2 * q) eqn:El; cbn [negb] in H; [|discriminate].
    destruct (negb (bc =? 2 * q)); [discriminate|].
    cbn [sout_of] in H. inversion H; subst v. exists data. split; [reflexivity|]. split; [|exact Hq].
    unfold lenN in *. cbn [List.length] in El. lia.
  - unfold exception_or_protocol in H.
    destruct (p_fc res =? N.lor (p_fc req) 128); [|discriminate].
    destruct (p_payload res) as [|c [|c2 t]]; discriminate.
Qed.

(* error values of the model's error classes are non-nil *)
Lemma err_code_exc_err_nz c : err_code (exc_err c) <> 0.
Proof.
  rewrite <- err_value_exc_err.
  destruct (known_exception c) eqn:K.
  - destruct (exc_err_value_known c K) as [E1 E2]. rewrite E1. lia.
  - unfold exc_err. rewrite K. vm_compute. discriminate.
Qed.

Lemma rr_out_code cfg a q rt X c :
  (forall req, treply_wf (X req)) -> rr_out cfg a q rt X = SCode c -> c <> 0.
Proof.
  intros Hwf. unfold rr_out. intros H.
  destruct (req_read_regs cfg a q rt) as [req|e| |] eqn:Er; try discriminate.
  - specialize (Hwf req).
    destruct (X req) as [res|c' rnil ru rf rp].
    + unfold validate_read_regs in H.
      destruct (p_fc res =? p_fc req).
      * destruct (p_payload res) as [|bc data];
          [inversion H; vm_compute; discriminate|].
        destruct (negb (lenN (bc :: data) =? 1 + 2 * q)); [inversion H; vm_compute; discriminate|].
        destruct (negb (bc =? 2 * q)); [inversion H; vm_compute; discriminate|].
        discriminate.
      * unfold exception_or_protocol in H.
        destruct (p_fc res =? N.lor (p_fc req) 128); [|inversion H; vm_compute; discriminate].
        destruct (p_payload res) as [|c1 [|c2 t]]; cbn [sout_of] in H;
          try (inversion H; vm_compute; discriminate).
        inversion H. apply err_code_exc_err_nz.
    + cbn [treply_wf] in Hwf. inversion H; subst. exact Hwf.
  - assert (e = EParams) as ->.
    { unfold req_read_regs in Er.
      destruct rt; try (inversion Er; reflexivity);
        (destruct (q =? 0); [inversion Er; reflexivity|]);
        (destruct (125 <? q); [inversion Er; reflexivity|]);
        (destruct (65535 <? a + q - 1); [inversion Er; reflexivity|discriminate]). }
    inversion H. vm_compute. discriminate.
Qed.

(* the outcomes a one-value reader can see from its slice reader *)
Definition nums_or_code (s : sout) : Prop :=
  match s with
  | SVal (VNums _) => True
  | SVal _ => False
  | SCode c => c <> 0
  | SPanic => True
  end.

Lemma call_out_read_regs_shape cfg w a q rt X :
  (forall req, treply_wf (X req)) -> nums_or_code (call_out cfg (OpReadRegs w a q rt) X).
Proof.
  intros Hwf. rewrite call_out_read_regs.
  destruct (rr_out cfg a (rr_count w q) rt X) as [v|c|] eqn:E; cbn [dec_out nums_or_code].
  - destruct v; cbn [nums_or_code]; try exact I.
    destruct (dec_values cfg w l); exact I.
  - exact (rr_out_code _ _ _ _ _ _ Hwf E).
  - exact I.
Qed.

Lemma register_count_u16 q w : register_count q w < 65536.
Proof. unfold register_count. destruct (65535 <? q * w) eqn:E; lia. Qed.

(* ---------------------------------------------------------------- callee hypotheses *)

Definition rregs_hyp (fe : fenv) (X : pdu -> treply) : Prop :=
  forall cfg tt a q rtn rt, a < 65536 -> q < 65536 -> regtype_sel rt rtn ->
    fe "ModbusClient.readRegisters" (mc_fields cfg tt ++ [VN a; VN q; VN rtn])%list =
    out_vals (mc_fields cfg tt) (rr_out cfg a q rt X).

Definition encoding_hyp (fe : fenv) : Prop :=
  forall cfg tt, fe "ModbusClient.encoding" (mc_fields cfg tt) =
    GOk (mc_fields cfg tt ++ [VN (endian_sel (c_endian cfg)); VN (word_sel (c_word cfg))])%list.

Definition regcount_hyp (fe : fenv) : Prop :=
  forall q w, q < 65536 -> w < 65536 -> fe "registerCount" [VN q; VN w] = GOk [VN (register_count q w)].

(* the decoders of encoding.go, as src_bytesToUint16s_ok ... of Proofs/SrcLinkP.v say *)
Definition dec16_hyp (fe : fenv) (fuel : nat) : Prop :=
  forall e l, N.of_nat (List.length l) < 2 ^ 62 -> (List.length l < fuel)%nat ->
    fe "bytesToUint16s" [VN (endian_sel e); vbytes l] =
    match bytes_to_u16s e l with Some r => GOk [vbytes r] | None => GoLite.Panic end.

(* a decoder with a word order; [name] is bytesToUint32s / bytesToFloat32s /
   bytesToUint64s / bytesToFloat64s, [decf] bytes_to_u32s / bytes_to_u64s *)
Definition decw_hyp (fe : fenv) (fuel : nat) (name : string)
           (decf : endian -> wordorder -> list N -> option (list N)) : Prop :=
  forall e w l, N.of_nat (List.length l) < 2 ^ 62 -> (List.length l < fuel)%nat ->
    fe name [VN (endian_sel e); VN (word_sel w); vbytes l] =
    match decf e w l with Some r => GOk [vbytes r] | None => GoLite.Panic end.

(* a slice reader, for the one-value readers: [name] is ModbusClient.ReadRegisters /
   ReadUint32s / ... and [w] the registers per value *)
Definition typed_hyp (fe : fenv) (name : string) (w : N) (X : pdu -> treply) : Prop :=
  forall cfg tt a q rtn rt, a < 65536 -> q < 65536 -> regtype_sel rt rtn ->
    fe name (mc_fields cfg tt ++ [VN a; VN q; VN rtn])%list =
    out_vals (mc_fields cfg tt) (call_out cfg (OpReadRegs w a q rt) X).

Lemma data_len_bounds (data : list N) q fuel :
  lenN data = 2 * q -> q <= 125 -> (300 < fuel)%nat ->
  N.of_nat (List.length data) < 2 ^ 62 /\ (List.length data < fuel)%nat.
Proof.
  unfold lenN. intros H1 H2 H3. split; [|lia].
  apply N.le_lt_trans with 250; [lia|reflexivity].
Qed.

(* ---------------------------------------------------------------- ReadRegisters *)

Lemma run_ReadRegisters fe fuel cfg tt X a q rtn rt :
  rregs_hyp fe X -> encoding_hyp fe -> dec16_hyp fe fuel ->
  a < 65536 -> q < 65536 -> regtype_sel rt rtn -> (300 < fuel)%nat ->
  run_fn ge fe fuel src_fn_ModbusClient_ReadRegisters (mc_fields cfg tt ++ [VN a; VN q; VN rtn])%list =
  out_vals (mc_fields cfg tt) (call_out cfg (OpReadRegs 1 a q rt) X).
Proof.
  intros Hrr Henc Hdec Ha Hq Hrt Hfuel.
  rewrite call_out_read_regs. unfold rr_count. change (1 =? 1) with true. cbv iota.
  pose proof (Hrr cfg tt a q rtn rt Ha Hq Hrt) as Er.
  pose proof (Henc cfg tt) as Ee.
  unfold run_fn, src_fn_ModbusClient_ReadRegisters, mc_fields in *. cbn [app] in Er, Ee.
  gl_step. rewrite Er.
  destruct (rr_out cfg a q rt X) as [v|c|] eqn:Eo; cbn [out_vals dec_out app].
  - destruct (rr_out_val _ _ _ _ _ _ Eo) as (data & -> & Hlen & Hq125).
    destruct (data_len_bounds data q fuel Hlen Hq125 Hfuel) as [Hl1 Hl2].
    cbn [sval]. gl_auto. rewrite Ee. gl_auto.
    rewrite (Hdec (c_endian cfg) data Hl1 Hl2).
    unfold dec_values. change (1 =? 1) with true. cbv iota.
    destruct (bytes_to_u16s (c_endian cfg) data) as [r|]; gl_auto; reflexivity.
  - gl_auto. destruct (c =? 0) eqn:Ec; gl_auto; [|reflexivity].
    apply N.eqb_eq in Ec. subst c.
    rewrite Ee. gl_auto.
    change (VL []) with (vbytes []).
    rewrite (Hdec (c_endian cfg) []) by (cbn [List.length]; first [reflexivity|lia]).
    cbn [bytes_to_u16s]. gl_auto. reflexivity.
  - gl_auto. reflexivity.
Qed.

(* ---------------------------------------------------------------- ReadUint32s, ReadFloat32s, ReadUint64s, ReadFloat64s *)

(* the common shape of the four readers with a word order: [k] registers per
   value, decoder [dec] *)
Definition typed_reader (k : N) (dec : string) : fn := {|
  f_nparams := 7;
  f_zeros := [VL []; VN 0; VL []; VN 0; VN 0];
  f_outs := [0%nat; 1%nat; 2%nat; 3%nat];
  f_results := [7%nat; 8%nat];
  f_body :=
    SSeq (SSet (LVar 9) (ELit ENil))
    (SSeq (SSet (LVar 10) (EN 0))
    (SSeq (SSet (LVar 11) (EN 0))
    (SSeq (SCall "ModbusClient.readRegisters" (ECons (EVar 0) (ECons (EVar 1) (ECons (EVar 2) (ECons (EVar 3) (ECons (EVar 4) (ECons (ECall "registerCount" (ECons (EVar 5) (ECons (EN k) (ENil)))) (ECons (EVar 6) (ENil)))))))) [LVar 0; LVar 1; LVar 2; LVar 3; LVar 9; LVar 8])
    (SSeq (SIf (ECmp CNe (EVar 8) (EN 0))
    (SReturn (ENil))
    (SSkip))
    (SSeq (SCall "ModbusClient.encoding" (ECons (EVar 0) (ECons (EVar 1) (ECons (EVar 2) (ECons (EVar 3) (ENil))))) [LVar 0; LVar 1; LVar 2; LVar 3; LVar 10; LVar 11])
    (SSeq (SSet (LVar 7) (ECall dec (ECons (EVar 10) (ECons (EVar 11) (ECons (EVar 9) (ENil))))))
    (SReturn (ENil))))))))
|}.

Lemma ReadUint32s_shape : src_fn_ModbusClient_ReadUint32s = typed_reader 2 "bytesToUint32s".
Proof. reflexivity. Qed.
Lemma ReadFloat32s_shape : src_fn_ModbusClient_ReadFloat32s = typed_reader 2 "bytesToFloat32s".
Proof. reflexivity. Qed.
Lemma ReadUint64s_shape : src_fn_ModbusClient_ReadUint64s = typed_reader 4 "bytesToUint64s".
Proof. reflexivity. Qed.
Lemma ReadFloat64s_shape : src_fn_ModbusClient_ReadFloat64s = typed_reader 4 "bytesToFloat64s".
Proof. reflexivity. Qed.

Definition decw_out (cfg : ccfg) (decf : endian -> wordorder -> list N -> option (list N))
           (s : sout) : sout :=
  match s with
  | SVal (VBytes data) =>
      match decf (c_endian cfg) (c_word cfg) data with Some r => SVal (VNums r) | None => SPanic end
  | SVal _ => SPanic
  | SCode c => SCode c
  | SPanic => SPanic
  end.

Lemma run_typed_reader fe fuel cfg tt X a q rtn rt k dec decf :
  rregs_hyp fe X -> encoding_hyp fe -> regcount_hyp fe -> decw_hyp fe fuel dec decf ->
  (forall e w, decf e w [] = Some []) ->
  k < 65536 -> a < 65536 -> q < 65536 -> regtype_sel rt rtn -> (300 < fuel)%nat ->
  run_fn ge fe fuel (typed_reader k dec) (mc_fields cfg tt ++ [VN a; VN q; VN rtn])%list =
  out_vals (mc_fields cfg tt) (decw_out cfg decf (rr_out cfg a (register_count q k) rt X)).
Proof.
  intros Hrr Henc Hrc Hdec Hnil Hk Ha Hq Hrt Hfuel.
  pose proof (Hrr cfg tt a (register_count q k) rtn rt Ha (register_count_u16 q k) Hrt) as Er.
  pose proof (Henc cfg tt) as Ee.
  unfold run_fn, typed_reader, mc_fields in *. cbn [app] in Er, Ee.
  gl_step. rewrite (Hrc q k Hq Hk). gl_step. rewrite Er.
  destruct (rr_out cfg a (register_count q k) rt X) as [v|c|] eqn:Eo; cbn [out_vals decw_out app].
  - destruct (rr_out_val _ _ _ _ _ _ Eo) as (data & -> & Hlen & Hq125).
    destruct (data_len_bounds data _ fuel Hlen Hq125 Hfuel) as [Hl1 Hl2].
    cbn [sval]. gl_auto. rewrite Ee. gl_auto.
    rewrite (Hdec (c_endian cfg) (c_word cfg) data Hl1 Hl2).
    destruct (decf (c_endian cfg) (c_word cfg) data) as [r|]; gl_auto; reflexivity.
  - gl_auto. destruct (c =? 0) eqn:Ec; gl_auto; [|reflexivity].
    apply N.eqb_eq in Ec. subst c.
    rewrite Ee. gl_auto.
    change (VL []) with (vbytes []).
    rewrite (Hdec (c_endian cfg) (c_word cfg) []) by (cbn [List.length]; first [reflexivity|lia]).
    rewrite Hnil. gl_auto. reflexivity.
  - gl_auto. reflexivity.
Qed.

Lemma call_out_w2 cfg a q rt X :
  call_out cfg (OpReadRegs 2 a q rt) X =
  decw_out cfg bytes_to_u32s (rr_out cfg a (register_count q 2) rt X).
Proof. rewrite call_out_read_regs. reflexivity. Qed.

Lemma call_out_w4 cfg a q rt X :
  call_out cfg (OpReadRegs 4 a q rt) X =
  decw_out cfg bytes_to_u64s (rr_out cfg a (register_count q 4) rt X).
Proof. rewrite call_out_read_regs. reflexivity. Qed.

Lemma run_ReadUint32s fe fuel cfg tt X a q rtn rt :
  rregs_hyp fe X -> encoding_hyp fe -> regcount_hyp fe -> decw_hyp fe fuel "bytesToUint32s" bytes_to_u32s ->
  a < 65536 -> q < 65536 -> regtype_sel rt rtn -> (300 < fuel)%nat ->
  run_fn ge fe fuel src_fn_ModbusClient_ReadUint32s (mc_fields cfg tt ++ [VN a; VN q; VN rtn])%list =
  out_vals (mc_fields cfg tt) (call_out cfg (OpReadRegs 2 a q rt) X).
Proof.
  intros Hrr Henc Hrc Hdec Ha Hq Hrt Hfuel.
  rewrite ReadUint32s_shape, call_out_w2.
  apply run_typed_reader; try assumption; [reflexivity|lia].
Qed.

Lemma run_ReadFloat32s fe fuel cfg tt X a q rtn rt :
  rregs_hyp fe X -> encoding_hyp fe -> regcount_hyp fe -> decw_hyp fe fuel "bytesToFloat32s" bytes_to_u32s ->
  a < 65536 -> q < 65536 -> regtype_sel rt rtn -> (300 < fuel)%nat ->
  run_fn ge fe fuel src_fn_ModbusClient_ReadFloat32s (mc_fields cfg tt ++ [VN a; VN q; VN rtn])%list =
  out_vals (mc_fields cfg tt) (call_out cfg (OpReadRegs 2 a q rt) X).
Proof.
  intros Hrr Henc Hrc Hdec Ha Hq Hrt Hfuel.
  rewrite ReadFloat32s_shape, call_out_w2.
  apply run_typed_reader; try assumption; [reflexivity|lia].
Qed.

Lemma run_ReadUint64s fe fuel cfg tt X a q rtn rt :
  rregs_hyp fe X -> encoding_hyp fe -> regcount_hyp fe -> decw_hyp fe fuel "bytesToUint64s" bytes_to_u64s ->
  a < 65536 -> q < 65536 -> regtype_sel rt rtn -> (300 < fuel)%nat ->
  run_fn ge fe fuel src_fn_ModbusClient_ReadUint64s (mc_fields cfg tt ++ [VN a; VN q; VN rtn])%list =
  out_vals (mc_fields cfg tt) (call_out cfg (OpReadRegs 4 a q rt) X).
Proof.
  intros Hrr Henc Hrc Hdec Ha Hq Hrt Hfuel.
  rewrite ReadUint64s_shape, call_out_w4.
  apply run_typed_reader; try assumption; [reflexivity|lia].
Qed.

Lemma run_ReadFloat64s fe fuel cfg tt X a q rtn rt :
  rregs_hyp fe X -> encoding_hyp fe -> regcount_hyp fe -> decw_hyp fe fuel "bytesToFloat64s" bytes_to_u64s ->
  a < 65536 -> q < 65536 -> regtype_sel rt rtn -> (300 < fuel)%nat ->
  run_fn ge fe fuel src_fn_ModbusClient_ReadFloat64s (mc_fields cfg tt ++ [VN a; VN q; VN rtn])%list =
  out_vals (mc_fields cfg tt) (call_out cfg (OpReadRegs 4 a q rt) X).
Proof.
  intros Hrr Henc Hrc Hdec Ha Hq Hrt Hfuel.
  rewrite ReadFloat64s_shape, call_out_w4.
  apply run_typed_reader; try assumption; [reflexivity|lia].
Qed.

(* ---------------------------------------------------------------- the one-value readers *)

(* their common shape: call the slice reader [callee] with quantity 1, take
   element 0 when there is no error *)
Definition single_reader (callee : string) : fn := {|
  f_nparams := 6;
  f_zeros := [VN 0; VN 0; VL []];
  f_outs := [0%nat; 1%nat; 2%nat; 3%nat];
  f_results := [6%nat; 7%nat];
  f_body :=
    SSeq (SSet (LVar 8) (ELit ENil))
    (SSeq (SCall callee (ECons (EVar 0) (ECons (EVar 1) (ECons (EVar 2) (ECons (EVar 3) (ECons (EVar 4) (ECons (EN 1) (ECons (EVar 5) (ENil)))))))) [LVar 0; LVar 1; LVar 2; LVar 3; LVar 8; LVar 7])
    (SSeq (SIf (ECmp CEq (EVar 7) (EN 0))
    (SSet (LVar 6) (EIndex (EVar 8) (EN 0)))
    (SSkip))
    (SReturn (ENil))))
|}.

Lemma ReadRegister_shape : src_fn_ModbusClient_ReadRegister = single_reader "ModbusClient.ReadRegisters".
Proof. reflexivity. Qed.
Lemma ReadUint32_shape : src_fn_ModbusClient_ReadUint32 = single_reader "ModbusClient.ReadUint32s".
Proof. reflexivity. Qed.
Lemma ReadFloat32_shape : src_fn_ModbusClient_ReadFloat32 = single_reader "ModbusClient.ReadFloat32s".
Proof. reflexivity. Qed.
Lemma ReadUint64_shape : src_fn_ModbusClient_ReadUint64 = single_reader "ModbusClient.ReadUint64s".
Proof. reflexivity. Qed.
Lemma ReadFloat64_shape : src_fn_ModbusClient_ReadFloat64 = single_reader "ModbusClient.ReadFloat64s".
Proof. reflexivity. Qed.

Lemma run_single_reader fe fuel cfg tt a rtn callee s :
  fe callee (mc_fields cfg tt ++ [VN a; VN 1; VN rtn])%list = out_vals (mc_fields cfg tt) s ->
  nums_or_code s ->
  run_fn ge fe fuel (single_reader callee) (mc_fields cfg tt ++ [VN a; VN rtn])%list =
  out_one (mc_fields cfg tt) (VN 0) s.
Proof.
  intros Ec Hs.
  unfold run_fn, single_reader, mc_fields in *. cbn [app] in Ec.
  gl_step. rewrite Ec.
  destruct s as [v|c|]; cbn [out_vals out_one nums_or_code app] in *.
  - destruct v as [|l|l|l]; try contradiction.
    cbn [sval]. gl_auto. unfold vbytes.
    destruct l as [|n l]; cbn [map nth_error]; gl_auto; reflexivity.
  - gl_auto. replace (c =? 0) with false by lia. gl_auto. reflexivity.
  - gl_auto. reflexivity.
Qed.

Lemma run_single_typed fe fuel cfg tt X a rtn rt callee w :
  typed_hyp fe callee w X -> (forall req, treply_wf (X req)) ->
  a < 65536 -> regtype_sel rt rtn ->
  run_fn ge fe fuel (single_reader callee) (mc_fields cfg tt ++ [VN a; VN rtn])%list =
  out_one (mc_fields cfg tt) (VN 0) (call_out cfg (OpReadRegs w a 1 rt) X).
Proof.
  intros Hc Hwf Ha Hrt. apply run_single_reader.
  - apply Hc; [exact Ha|lia|exact Hrt].
  - apply call_out_read_regs_shape. exact Hwf.
Qed.

Lemma run_ReadRegister fe fuel cfg tt X a rtn rt :
  typed_hyp fe "ModbusClient.ReadRegisters" 1 X -> (forall req, treply_wf (X req)) ->
  a < 65536 -> regtype_sel rt rtn ->
  run_fn ge fe fuel src_fn_ModbusClient_ReadRegister (mc_fields cfg tt ++ [VN a; VN rtn])%list =
  out_one (mc_fields cfg tt) (VN 0) (call_out cfg (OpReadRegs 1 a 1 rt) X).
Proof. intros. rewrite ReadRegister_shape. apply run_single_typed; assumption. Qed.

Lemma run_ReadUint32 fe fuel cfg tt X a rtn rt :
  typed_hyp fe "ModbusClient.ReadUint32s" 2 X -> (forall req, treply_wf (X req)) ->
  a < 65536 -> regtype_sel rt rtn ->
  run_fn ge fe fuel src_fn_ModbusClient_ReadUint32 (mc_fields cfg tt ++ [VN a; VN rtn])%list =
  out_one (mc_fields cfg tt) (VN 0) (call_out cfg (OpReadRegs 2 a 1 rt) X).
Proof. intros. rewrite ReadUint32_shape. apply run_single_typed; assumption. Qed.

Lemma run_ReadFloat32 fe fuel cfg tt X a rtn rt :
  typed_hyp fe "ModbusClient.ReadFloat32s" 2 X -> (forall req, treply_wf (X req)) ->
  a < 65536 -> regtype_sel rt rtn ->
  run_fn ge fe fuel src_fn_ModbusClient_ReadFloat32 (mc_fields cfg tt ++ [VN a; VN rtn])%list =
  out_one (mc_fields cfg tt) (VN 0) (call_out cfg (OpReadRegs 2 a 1 rt) X).
Proof. intros. rewrite ReadFloat32_shape. apply run_single_typed; assumption. Qed.

Lemma run_ReadUint64 fe fuel cfg tt X a rtn rt :
  typed_hyp fe "ModbusClient.ReadUint64s" 4 X -> (forall req, treply_wf (X req)) ->
  a < 65536 -> regtype_sel rt rtn ->
  run_fn ge fe fuel src_fn_ModbusClient_ReadUint64 (mc_fields cfg tt ++ [VN a; VN rtn])%list =
  out_one (mc_fields cfg tt) (VN 0) (call_out cfg (OpReadRegs 4 a 1 rt) X).
Proof. intros. rewrite ReadUint64_shape. apply run_single_typed; assumption. Qed.

Lemma run_ReadFloat64 fe fuel cfg tt X a rtn rt :
  typed_hyp fe "ModbusClient.ReadFloat64s" 4 X -> (forall req, treply_wf (X req)) ->
  a < 65536 -> regtype_sel rt rtn ->
  run_fn ge fe fuel src_fn_ModbusClient_ReadFloat64 (mc_fields cfg tt ++ [VN a; VN rtn])%list =
  out_one (mc_fields cfg tt) (VN 0) (call_out cfg (OpReadRegs 4 a 1 rt) X).
Proof. intros. rewrite ReadFloat64_shape. apply run_single_typed; assumption. Qed.
