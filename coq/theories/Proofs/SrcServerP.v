(* server.go handleTransport as translated from the Go source (Gen/SrcPure.v):
   vocabulary of the statements. The transport and the user's handler are
   external functions that take and return the state of the outside world (an
   arbitrary GoLite value threaded through every external call), so that
   their answers may depend on everything that happened before. *)
From Coq Require Import List NArith String Lia Bool.
From Coq Require Import ZifyBool ZifyNat ZifyN.
Import ListNotations.
From Modbus Require Import Base.Bytes Model.GoLite Gen.SrcPure Model.Crc Model.Encoding.
From Modbus Require Import Model.Wire Model.Client Model.Server.
From Modbus Require Import Proofs.GoLiteP Proofs.GoLiteLinkP Proofs.SrcCrcP Proofs.SrcLinkP Proofs.SrcMiscP Proofs.SrcClientP.
Open Scope string_scope.
Open Scope N_scope.

(* ---------------------------------------------------------------- the outside world *)

(* t.ReadRequest(): a request, or an error (the session then ends) *)
Inductive rdres :=
| RdOk (req : pdu)
| RdErr (code : N).

(* what a handler returns: values and a Go error value *)
Record hret := mkhret { hr_bools : list bool; hr_regs : list N; hr_code : N }.

Record world_fns := mkworld {
  w_read : val -> val * rdres;
  w_handle : val -> N -> N -> hreq -> val * hret;   (* world, client address, client role, request *)
  w_write : val -> pdu -> val * N;                  (* t.WriteResponse(res): new world, error value *)
  w_close : val -> val * N                          (* t.Close() *)
}.

Definition rd_wf (r : rdres) : Prop :=
  match r with
  | RdOk req => bytesb (p_payload req) = true /\ p_unit req < 256 /\ p_fc req < 256
  | RdErr c => c <> 0
  end.

Definition enc_rd (r : rdres) : list val :=
  match r with
  | RdOk req => [VB false; VN (p_unit req); VN (p_fc req); vbytes (p_payload req); VN 0]
  | RdErr c => [VB true; VN 0; VN 0; VL []; VN c]
  end.

(* the handler error value as the model's error class *)
Definition herr_of_code (c : N) : herr :=
  if c =? 0 then HNone
  else if c =? code_of "ErrIllegalFunction" then HModbus 1
  else if c =? code_of "ErrIllegalDataAddress" then HModbus 2
  else if c =? code_of "ErrIllegalDataValue" then HModbus 3
  else if c =? code_of "ErrServerDeviceFailure" then HModbus 4
  else if c =? code_of "ErrAcknowledge" then HModbus 5
  else if c =? code_of "ErrServerDeviceBusy" then HModbus 6
  else if c =? code_of "ErrMemoryParityError" then HModbus 8
  else if c =? code_of "ErrGWPathUnavailable" then HModbus 10
  else if c =? code_of "ErrGWTargetFailedToRespond" then HModbus 11
  else if c =? code_of "ErrProtocolError" then HProtocol
  else HOther.

(* the model's handler obtained from the world functions (client address and role fixed for the session) *)
Definition model_handler (W : world_fns) (ca cr : N) : handler val :=
  fun w r => let '(w', x) := w_handle W w ca cr r in
             (w', mkhres (hr_bools x) (hr_regs x) (herr_of_code (hr_code x))).

(* hypotheses on the function environment: the external functions are the world functions *)
Definition world_hyp (fe : fenv) (W : world_fns) : Prop :=
  (forall w, fe "transport.ReadRequest" [w] = GOk (fst (w_read W w) :: enc_rd (snd (w_read W w))) /\
             rd_wf (snd (w_read W w))) /\
  (forall w ca cr u a q wr args,
     fe "handler.HandleCoils" [w; VN ca; VN cr; VN u; VN a; VN q; VB wr; vbools args] =
     let '(w', x) := w_handle W w ca cr (mkhreq HCoils u a q wr args []) in
     GOk [w'; vbools (hr_bools x); VN (hr_code x)]) /\
  (forall w ca cr u a q,
     fe "handler.HandleDiscreteInputs" [w; VN ca; VN cr; VN u; VN a; VN q] =
     let '(w', x) := w_handle W w ca cr (mkhreq HDiscrete u a q false [] []) in
     GOk [w'; vbools (hr_bools x); VN (hr_code x)]) /\
  (forall w ca cr u a q wr args,
     fe "handler.HandleHoldingRegisters" [w; VN ca; VN cr; VN u; VN a; VN q; VB wr; vbytes args] =
     let '(w', x) := w_handle W w ca cr (mkhreq HHolding u a q wr [] args) in
     GOk [w'; vbytes (hr_regs x); VN (hr_code x)]) /\
  (forall w ca cr u a q,
     fe "handler.HandleInputRegisters" [w; VN ca; VN cr; VN u; VN a; VN q] =
     let '(w', x) := w_handle W w ca cr (mkhreq HInput u a q false [] []) in
     GOk [w'; vbytes (hr_regs x); VN (hr_code x)]) /\
  (forall w res,
     fe "transport.WriteResponse" [w; VN (p_unit res); VN (p_fc res); vbytes (p_payload res)] =
     GOk [fst (w_write W w res); VN (snd (w_write W w res))]) /\
  (forall w, fe "transport.Close" [w] = GOk [fst (w_close W w); VN (snd (w_close W w))]) /\
  (* handlers return error values that exist, and register values that are 16-bit words *)
  (forall w ca cr r, In (hr_code (snd (w_handle W w ca cr r))) all_error_values /\
                     Forall (fun v => v < 65536) (hr_regs (snd (w_handle W w ca cr r)))).

(* ---------------------------------------------------------------- the session, as the model says *)

(* one request: the model's server_process over the world; then the response is written, or the link closed *)
Definition srv_request (W : world_fns) (ca cr : N) (w : val) (req : pdu) : val * bool :=
  let '(w1, _, act) := server_process (model_handler W ca cr) w req in
  match act with
  | Respond res => (fst (w_write W w1 res), true)        (* go on *)
  | CloseLink => (fst (w_close W w1), false)             (* return *)
  end.

(* the loop: [None] when the fuel runs out *)
Fixpoint srv_loop (W : world_fns) (ca cr : N) (n : nat) (w : val) : option val :=
  match n with
  | O => None
  | S n' =>
      let '(w1, r) := w_read W w in
      match r with
      | RdErr _ => Some w1
      | RdOk req =>
          let '(w2, go_on) := srv_request W ca cr w1 req in
          if go_on then srv_loop W ca cr n' w2 else Some w2
      end
  end.

(* the per-iteration part of the translated function *)
Definition srv_parts : stmt :=
  Eval cbv in match f_body src_fn_ModbusServer_handleTransport with
              | SSeq _ (SSeq _ (SSeq _ (SSeq _ (SSeq _ (SSeq (SFor _ _ b) _))))) => b
              | _ => SSkip
              end.

(* a state of the function: the receiver fields, client address and role, the
   world, and 18 further slots (request, response, err and the locals) *)
Definition srv_state (started tt : val) (ca cr : N) (w : val) (rest : list val) : state :=
  started :: tt :: VN ca :: VN cr :: w :: rest.

(* ---------------------------------------------------------------- callees, as hypotheses *)

Definition srv_callee_hyp (fe : fenv) : Prop :=
  u16tb_hyp fe /\ b2u16_hyp fe /\
  (forall l, (List.length l <= 2000)%nat -> fe "encodeBools" [vbools l] = GOk [vbytes (encode_bools l)]) /\
  (forall q bs, q <= 1968 -> bytesb bs = true ->
     fe "decodeBools" [VN q; vbytes bs] =
     match decode_bools (N.to_nat q) bs with Some r => GOk [vbools r] | None => GoLite.Panic end) /\
  (forall l, (List.length l <= 254)%nat ->
     fe "bytesToUint16s" [VN 1; vbytes l] =
     match bytes_to_u16s BigE l with Some r => GOk [vbytes r] | None => GoLite.Panic end) /\
  (forall vs, (List.length vs <= 125)%nat ->
     fe "uint16sToBytes" [VN 1; vbytes vs] = GOk [vbytes (u16s_to_bytes BigE vs)]) /\
  (forall v, In v all_error_values -> fe "mapErrorToExceptionCode" [VN v] = GOk [VN (err_to_exc v)]).

(* ---------------------------------------------------------------- one iteration of the loop *)

(* what one iteration does when ReadRequest delivers [req]: the model's
   processing of that request over the world, then the response written (loop
   goes on) or the link closed (the function returns) *)
Definition srv_iter_spec (fe : fenv) (fuel : nat) (W : world_fns) (started tt : val) (ca cr : N)
           (w : val) (rest : list val) (req : pdu) : Prop :=
  exists rest', List.length rest' = 18%nat /\
    exec ge fe fuel (srv_state started tt ca cr w rest) srv_parts =
    (let '(w2, go_on) := srv_request W ca cr (fst (w_read W w)) req in
     if go_on then ONormal (srv_state started tt ca cr w2 rest')
     else OReturn (srv_state started tt ca cr w2 rest') None).

(* the same when ReadRequest fails: the function returns *)
Definition srv_iter_end_spec (fe : fenv) (fuel : nat) (W : world_fns) (started tt : val) (ca cr : N)
           (w : val) (rest : list val) : Prop :=
  exists rest', List.length rest' = 18%nat /\
    exec ge fe fuel (srv_state started tt ca cr w rest) srv_parts =
    OReturn (srv_state started tt ca cr (fst (w_read W w)) rest') None.
