(* Proofs about Model/CliRepeat.v: a repeated command list puts the documented
   frames of the SAME list on the wire in every pass; each pass is a run of
   the execution loop of Model/Cli.v from the state the previous pass left;
   the two extra commands keep parsing all-or-nothing and leave the meaning of
   the other commands alone. *)
From Modbus Require Import Base.Bytes Model.Encoding Model.Wire Model.Client
  Model.Strconv Model.Cli Model.CliRepeat Spec.ModbusSpec Spec.ClientSpec Spec.CliSpec Spec.CliRepeatSpec
  Proofs.CliP.
From Coq Require Import ZifyBool ZifyNat ZifyN.
Ltac Zify.zify_post_hook ::= Z.div_mod_to_equations.

(* ------------------------------------------------------------ one pass *)

(* unit id and transaction counter after a run are the documented ones and
   stay within their Go types *)
Lemma run_end : forall cs st,
  Forall cli_op_wf cs -> cfg_wf (cs_cfg st) -> cs_txn st < 65536 ->
  cli_doc_end (cs_cfg st) (cs_txn st) cs = (cs_cfg (cli_run st cs), cs_txn (cli_run st cs)) /\
  cfg_wf (cs_cfg (cli_run st cs)) /\ cs_txn (cli_run st cs) < 65536.
Proof.
  induction cs as [|c t IH]; intros st Hwf Hcfg Htxn.
  - cbn. auto.
  - inversion Hwf as [|? ? Hc Ht]; subst. unfold cli_run. cbn [fold_left]. fold (cli_run (cli_exec st c) t).
    destruct (cli_doc_op c) as [o|] eqn:Hd.
    + assert (Hns : forall u, c <> CoSetUnit u) by (intros u ->; discriminate).
      assert (Hfr : cli_doc_end (cs_cfg st) (cs_txn st) (c :: t) =
                    if valid_op o
                    then cli_doc_end (cs_cfg st) (u16 (cs_txn st + 1)) t
                    else cli_doc_end (cs_cfg st) (cs_txn st) t).
      { cbn [cli_doc_end]. rewrite Hd. destruct c; try reflexivity. exfalso. eapply Hns. reflexivity. }
      rewrite Hfr. destruct (valid_op o) eqn:Hv.
      * destruct (exec_valid st c o Hc Hcfg Htxn Hd Hv) as [E1 E2 E3].
        rewrite <- E2, <- E3.
        apply IH; [exact Ht|rewrite E2; exact Hcfg|rewrite E3; unfold u16; lia].
      * rewrite (exec_invalid st c o Hc Hd Hv).
        apply (IH (mkclist (cs_cfg st) (cs_txn st) (cs_dev st) (cs_tx st) (cs_out st ++ [ClFail]))); assumption.
    + destruct (doc_op_none c Hd) as [u ->]. rewrite exec_set_unit. cbn [cli_doc_end].
      apply (IH (mkclist (mkcfg u (c_endian (cs_cfg st)) (c_word (cs_cfg st))) (cs_txn st) (cs_dev st)
                   (cs_tx st) (cs_out st))); [exact Ht|exact Hc|exact Htxn].
Qed.

(* ------------------------------------------------------------ n passes *)

(* pass n+1 is one more run of the list from the state pass n left *)
Lemma iter_snoc : forall n st ops,
  clr_iter (S n) st ops = cli_run (clr_iter n st ops) ops.
Proof.
  induction n as [|n IH]; intros st ops; [reflexivity|].
  change (clr_iter (S (S n)) st ops) with (clr_iter (S n) (cli_run st ops) ops).
  rewrite IH. reflexivity.
Qed.

Lemma iter_wf : forall n cs st,
  Forall cli_op_wf cs -> cfg_wf (cs_cfg st) -> cs_txn st < 65536 ->
  cfg_wf (cs_cfg (clr_iter n st cs)) /\ cs_txn (clr_iter n st cs) < 65536.
Proof.
  induction n as [|n IH]; intros cs st Hwf Hcfg Htxn; [cbn; auto|].
  cbn [clr_iter]. destruct (run_end cs st Hwf Hcfg Htxn) as (_ & H1 & H2).
  apply IH; assumption.
Qed.

(* the frames of n passes: the documented frames of the list, n times over *)
Theorem iter_frames : forall n cs st,
  Forall cli_op_wf cs -> cfg_wf (cs_cfg st) -> cs_txn st < 65536 ->
  cs_tx (clr_iter n st cs) = cs_tx st ++ clr_doc_frames n (cs_cfg st) (cs_txn st) cs.
Proof.
  induction n as [|n IH]; intros cs st Hwf Hcfg Htxn.
  - cbn. now rewrite app_nil_r.
  - cbn [clr_iter clr_doc_frames].
    destruct (run_end cs st Hwf Hcfg Htxn) as (E & H1 & H2).
    rewrite (IH cs (cli_run st cs) Hwf H1 H2), (run_frames cs st Hwf Hcfg Htxn), E, <- app_assoc.
    reflexivity.
Qed.

(* the frames of pass n+1 alone *)
Theorem pass_frames : forall n cs st,
  Forall cli_op_wf cs -> cfg_wf (cs_cfg st) -> cs_txn st < 65536 ->
  let s := clr_iter n st cs in
  cs_tx (clr_iter (S n) st cs) = cs_tx s ++ cli_doc_frames (cs_cfg s) (cs_txn s) cs.
Proof.
  intros n cs st Hwf Hcfg Htxn. cbn zeta. rewrite iter_snoc.
  destruct (iter_wf n cs st Hwf Hcfg Htxn) as [H1 H2].
  apply run_frames; assumption.
Qed.

(* ------------------------------------------------------------ the list *)

Lemma pass_split pre post : clr_loops pre = false ->
  clr_pass (pre ++ ClrRepeat :: post) = clr_pass pre /\ clr_loops (pre ++ ClrRepeat :: post) = true.
Proof.
  induction pre as [|i t IH]; intros H; [split; reflexivity|].
  destruct i; cbn [clr_loops] in H; try discriminate; cbn [app clr_pass clr_loops];
    destruct (IH H) as [E1 E2]; rewrite E1, E2; split; reflexivity.
Qed.

Lemma pass_all_ops ops : clr_pass (map ClrOp ops) = ops /\ clr_loops (map ClrOp ops) = false.
Proof.
  induction ops as [|c t [E1 E2]]; [split; reflexivity|]. cbn [map clr_pass clr_loops]. rewrite E1, E2. auto.
Qed.

(* ------------------------------------------------------------ parsing *)

Section WithOracles.
  Variable pf32 pf64 : list N -> option N.
  Variable dur : list N -> bool.

  (* the names of the request commands are not "repeat" / "sleep": a command
     of the one-shot grammar keeps its meaning *)
  Lemma parse_cmd_kept arg c :
    cli_parse_cmd pf32 pf64 arg = CliOk c -> clr_parse_cmd pf32 pf64 dur arg = CliOk (ClrOp c).
  Proof.
    intros H. unfold clr_parse_cmd. rewrite H.
    unfold cli_parse_cmd in H.
    destruct (cli_split 58 arg) as [|name args]; [discriminate|].
    destruct (list_eqb name clr_s_repeat) eqn:E1.
    { apply list_eqb_eq in E1. subst name. exfalso. revert H.
      change (cli_in clr_s_repeat cli_n_rc) with false. change (cli_in clr_s_repeat cli_n_rdi) with false.
      change (cli_in clr_s_repeat cli_n_rh) with false. change (cli_in clr_s_repeat cli_n_ri) with false.
      change (cli_in clr_s_repeat cli_n_wc) with false. change (cli_in clr_s_repeat cli_n_wr) with false.
      change (cli_in clr_s_repeat cli_n_sid) with false. cbn [orb]. discriminate. }
    destruct (list_eqb name clr_s_sleep) eqn:E2.
    { apply list_eqb_eq in E2. subst name. exfalso. revert H.
      change (cli_in clr_s_sleep cli_n_rc) with false. change (cli_in clr_s_sleep cli_n_rdi) with false.
      change (cli_in clr_s_sleep cli_n_rh) with false. change (cli_in clr_s_sleep cli_n_ri) with false.
      change (cli_in clr_s_sleep cli_n_wc) with false. change (cli_in clr_s_sleep cli_n_wr) with false.
      change (cli_in clr_s_sleep cli_n_sid) with false. cbn [orb]. discriminate. }
    reflexivity.
  Qed.

  (* what is accepted: "repeat", "sleep:<accepted duration>", or a command of
     the one-shot grammar *)
  Lemma parse_cmd_cases arg i :
    clr_parse_cmd pf32 pf64 dur arg = CliOk i ->
    (i = ClrRepeat /\ arg = clr_s_repeat) \/
    (i = ClrSleep /\ exists d, cli_split 58 arg = [clr_s_sleep; d] /\ dur d = true) \/
    (exists c, i = ClrOp c /\ cli_parse_cmd pf32 pf64 arg = CliOk c).
  Proof.
    unfold clr_parse_cmd. destruct (cli_split 58 arg) as [|name args] eqn:Es; [discriminate|].
    destruct (list_eqb name clr_s_repeat) eqn:E1.
    { apply list_eqb_eq in E1. subst name. destruct args; [|discriminate]. intros H. inversion H; subst.
      left. split; [reflexivity|].
      destruct (split_join 58 arg) as [J _]. rewrite Es in J. cbn in J. symmetry. exact J. }
    destruct (list_eqb name clr_s_sleep) eqn:E2.
    { apply list_eqb_eq in E2. subst name. destruct args as [|d [|? ?]]; try discriminate.
      destruct (dur d) eqn:Ed; [|discriminate]. intros H. inversion H; subst.
      right; left. split; [reflexivity|]. exists d. split; [reflexivity|exact Ed]. }
    destruct (cli_parse_cmd pf32 pf64 arg) as [c|]; [|discriminate].
    intros H. inversion H; subst. right; right. exists c. split; reflexivity.
  Qed.

  Lemma rparse_all_ok args items :
    clr_parse_all pf32 pf64 dur args = CliOk items <->
    Forall2 (fun a o => clr_parse_cmd pf32 pf64 dur a = CliOk o) args items.
  Proof.
    revert items. induction args as [|a t IH]; intros items; cbn [clr_parse_all].
    - split; intros H; [inversion H; constructor|inversion H; reflexivity].
    - destruct (clr_parse_cmd pf32 pf64 dur a) as [o|] eqn:Ea.
      + destruct (clr_parse_all pf32 pf64 dur t) as [os|] eqn:Et.
        * split; intros H.
          -- inversion H; subst. constructor; [exact Ea|]. apply IH. reflexivity.
          -- inversion H as [|? ? ? ? H1 H2]; subst. rewrite Ea in H1. inversion H1; subst.
             apply IH in H2. inversion H2; subst. reflexivity.
        * split; intros H; [discriminate|]. inversion H as [|? ? ? ? H1 H2]; subst.
          apply IH in H2. discriminate.
      + split; intros H; [discriminate|]. inversion H as [|? ? ? ? H1 H2]; subst. congruence.
  Qed.

  Lemma rparse_all_refused args :
    clr_parse_all pf32 pf64 dur args = CliRefused <->
    exists a, In a args /\ clr_parse_cmd pf32 pf64 dur a = CliRefused.
  Proof.
    induction args as [|a t IH]; cbn [clr_parse_all].
    - split; [discriminate|]. intros (a & [] & _).
    - destruct (clr_parse_cmd pf32 pf64 dur a) as [o|] eqn:Ea.
      + destruct (clr_parse_all pf32 pf64 dur t) as [os|] eqn:Et.
        * split; [discriminate|]. intros (b & [<-|Hb] & Hr); [congruence|].
          assert (CliOk os = CliRefused) by (apply IH; eauto). discriminate.
        * split; [|reflexivity]. intros _. destruct (proj1 IH eq_refl) as (b & Hb & Hr).
          exists b. split; [now right|exact Hr].
      + split; [|reflexivity]. intros _. exists a. split; [now left|exact Ea].
  Qed.

  (* a list of one-shot commands parses to the same operations *)
  Lemma rparse_all_kept args ops :
    cli_parse_all pf32 pf64 args = CliOk ops ->
    clr_parse_all pf32 pf64 dur args = CliOk (map ClrOp ops).
  Proof.
    intros H. apply parse_all_ok in H. apply rparse_all_ok.
    induction H as [|a o t os Ha _ IH]; cbn [map]; constructor; [|exact IH].
    apply parse_cmd_kept. exact Ha.
  Qed.

  (* all-or-nothing with the two extra commands: a refused argument anywhere
     (also behind a `repeat`) exits before any connection, whatever n *)
  Theorem rmain_all_or_nothing n e w u args dev a :
    In a args -> clr_parse_cmd pf32 pf64 dur a = CliRefused ->
    exists code, clr_main pf32 pf64 dur n e w u args dev = CliExit code /\ code <> 0.
  Proof.
    intros Hin Hr. unfold clr_main.
    destruct (sc_parse_uint 64 u); [|exists 2; split; [reflexivity|lia]..].
    destruct (cli_endian_of e); [|exists 1; split; [reflexivity|lia]].
    destruct (cli_word_of w); [|exists 1; split; [reflexivity|lia]].
    destruct args as [|a0 t]; [destruct Hin|].
    replace (clr_parse_all pf32 pf64 dur (a0 :: t)) with (@CliRefused (list clr_item))
      by (symmetry; apply rparse_all_refused; eauto).
    exists 2. split; [reflexivity|lia].
  Qed.

  (* a command line of the one-shot grammar behaves as before *)
  Theorem rmain_one_shot n e w u args dev ops :
    cli_parse_all pf32 pf64 args = CliOk ops ->
    clr_main pf32 pf64 dur n e w u args dev = cli_main pf32 pf64 e w u args dev /\
    clr_main_loops pf32 pf64 dur args = false.
  Proof.
    intros H. unfold clr_main, cli_main, clr_main_loops.
    rewrite (rparse_all_kept args ops H), H.
    destruct (pass_all_ops ops) as [E1 E2]. rewrite E1, E2. split; reflexivity.
  Qed.

  (* an accepted looping line: the state after n passes *)
  Lemma rmain_done n e w u args dev st :
    clr_main pf32 pf64 dur n e w u args dev = CliDone st ->
    exists unit en wo items,
      sc_parse_uint 64 u = ScOk unit /\ unit < 256 /\
      cli_endian_of e = Some en /\ cli_word_of w = Some wo /\
      clr_parse_all pf32 pf64 dur args = CliOk items /\
      st = if clr_loops items
           then clr_iter n (mkclist (mkcfg unit en wo) 0 dev [] []) (clr_pass items)
           else cli_run (mkclist (mkcfg unit en wo) 0 dev [] []) (clr_pass items).
  Proof.
    unfold clr_main. destruct (sc_parse_uint 64 u) as [unit| |]; try discriminate.
    destruct (cli_endian_of e) as [en|]; [|discriminate].
    destruct (cli_word_of w) as [wo|]; [|discriminate].
    destruct args as [|a0 t]; [discriminate|].
    destruct (clr_parse_all pf32 pf64 dur (a0 :: t)) as [items|]; [|discriminate].
    destruct (255 <? unit) eqn:E; [discriminate|]. intros H.
    exists unit, en, wo, items. repeat split; try reflexivity; [lia|].
    destruct (clr_loops items); inversion H; reflexivity.
  Qed.
End WithOracles.

Section Wf.
  Variable pf32 pf64 : list N -> option N.
  Variable dur : list N -> bool.
  Hypothesis pf32_bound : forall s v, pf32 s = Some v -> v < 2 ^ 32.
  Hypothesis pf64_bound : forall s v, pf64 s = Some v -> v < 2 ^ 64.

  Lemma rparse_all_wf args items :
    Forall (fun a => bytesb a = true) args ->
    clr_parse_all pf32 pf64 dur args = CliOk items -> Forall cli_op_wf (clr_pass items).
  Proof.
    intros Hb H. apply rparse_all_ok in H.
    induction H as [|a i t is Ha _ IH]; [constructor|].
    inversion Hb as [|? ? Hba Hbt]; subst. specialize (IH Hbt).
    destruct (parse_cmd_cases pf32 pf64 dur a i Ha) as [[-> _]|[[-> _]|(c & -> & Hc)]]; cbn [clr_pass].
    - constructor.
    - exact IH.
    - constructor; [|exact IH]. exact (parse_cmd_wf pf32 pf64 pf32_bound pf64_bound a c Hba Hc).
  Qed.

  (* the frames n passes of an accepted looping command line put on the wire *)
  Theorem rmain_frames n e w u args dev st :
    Forall (fun a => bytesb a = true) args -> bytesb u = true ->
    clr_main pf32 pf64 dur n e w u args dev = CliDone st ->
    clr_main_loops pf32 pf64 dur args = true ->
    exists unit en wo items,
      sc_parse_uint 64 u = ScOk unit /\ unit < 256 /\
      cli_endian_of e = Some en /\ cli_word_of w = Some wo /\
      Forall2 (fun a o => clr_parse_cmd pf32 pf64 dur a = CliOk o) args items /\
      cs_tx st = clr_doc_frames n (mkcfg unit en wo) 0 (clr_pass items).
  Proof.
    intros Hb Hu H HL.
    destruct (rmain_done pf32 pf64 dur n e w u args dev st H) as (unit & en & wo & items & H1 & H2 & H3 & H4 & H5 & H6).
    exists unit, en, wo, items. repeat split; try assumption.
    - apply rparse_all_ok. exact H5.
    - unfold clr_main_loops in HL. rewrite H5 in HL. rewrite HL in H6. subst st.
      rewrite iter_frames; [reflexivity| |exact H2|cbn; lia].
      exact (rparse_all_wf args items Hb H5).
  Qed.
End Wf.
