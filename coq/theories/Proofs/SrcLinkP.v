(* The functions of encoding.go inside the linked program [src_pure]: each
   [call_with src_pure base fuel name args] is the run of the generated function in the
   environment of the functions listed before it, whose behaviour is given by
   the lemmas already proved for them. *)
From Coq Require Import List NArith String Lia Bool.
Import ListNotations.
From Modbus Require Import Base.Bytes Model.GoLite Gen.SrcPure Model.Crc Model.Encoding.
From Modbus Require Import Proofs.GoLiteP Proofs.GoLiteLinkP Proofs.SrcCrcP Proofs.SrcEncodingP Proofs.SrcEncoding2P Proofs.SrcBoolsP.
Open Scope N_scope.
Open Scope string_scope.

Lemma src_uint32ToBytes_ok base fuel e w v :
  call_with src_pure base fuel "uint32ToBytes" [VN (endian_sel e); VN (word_sel w); VN v] =
  Ok [vbytes (u32_to_bytes e w v)].
Proof. link_step "uint32ToBytes" src_fn_uint32ToBytes. apply run_uint32ToBytes. Qed.

Lemma src_uint64ToBytes_ok base fuel e w v :
  call_with src_pure base fuel "uint64ToBytes" [VN (endian_sel e); VN (word_sel w); VN v] =
  Ok [vbytes (u64_to_bytes e w v)].
Proof. link_step "uint64ToBytes" src_fn_uint64ToBytes. apply run_uint64ToBytes. Qed.

Lemma src_float32ToBytes_ok base fuel e w v :
  call_with src_pure base fuel "float32ToBytes" [VN (endian_sel e); VN (word_sel w); VN v] =
  Ok [vbytes (u32_to_bytes e w v)].
Proof.
  link_step "float32ToBytes" src_fn_float32ToBytes. apply run_float32ToBytes.
  intros e' w' v'. callee "float32ToBytes" "uint32ToBytes" src_fn_uint32ToBytes. apply src_uint32ToBytes_ok.
Qed.

Lemma src_float64ToBytes_ok base fuel e w v :
  call_with src_pure base fuel "float64ToBytes" [VN (endian_sel e); VN (word_sel w); VN v] =
  Ok [vbytes (u64_to_bytes e w v)].
Proof.
  link_step "float64ToBytes" src_fn_float64ToBytes. apply run_float64ToBytes.
  intros e' w' v'. callee "float64ToBytes" "uint64ToBytes" src_fn_uint64ToBytes. apply src_uint64ToBytes_ok.
Qed.

Lemma src_uint16sToBytes_ok base fuel e vs :
  N.of_nat (List.length vs) < 2 ^ 62 ->
  call_with src_pure base fuel "uint16sToBytes" [VN (endian_sel e); vbytes vs] = Ok [vbytes (u16s_to_bytes e vs)].
Proof.
  intros H. link_step "uint16sToBytes" src_fn_uint16sToBytes. apply run_uint16sToBytes; [|exact H].
  intros e' v'. callee "uint16sToBytes" "uint16ToBytes" src_fn_uint16ToBytes. apply src_uint16ToBytes_ok.
Qed.

Lemma src_bytesToUint16s_ok base fuel e l :
  N.of_nat (List.length l) < 2 ^ 62 -> (List.length l < fuel)%nat ->
  call_with src_pure base fuel "bytesToUint16s" [VN (endian_sel e); vbytes l] =
  match bytes_to_u16s e l with Some r => Ok [vbytes r] | None => Panic end.
Proof.
  intros H1 H2. link_step "bytesToUint16s" src_fn_bytesToUint16s.
  apply run_bytesToUint16s; [|exact H1|exact H2].
  intros l'. callee "bytesToUint16s" "bytesToUint16" src_fn_bytesToUint16. apply src_bytesToUint16_ok.
Qed.

Lemma src_bytesToUint32s_ok base fuel e w l :
  N.of_nat (List.length l) < 2 ^ 62 -> (List.length l < fuel)%nat ->
  call_with src_pure base fuel "bytesToUint32s" [VN (endian_sel e); VN (word_sel w); vbytes l] =
  match bytes_to_u32s e w l with Some r => Ok [vbytes r] | None => Panic end.
Proof.
  intros H1 H2. link_step "bytesToUint32s" src_fn_bytesToUint32s.
  apply run_bytesToUint32s; assumption.
Qed.

Lemma src_bytesToUint64s_ok base fuel e w l :
  N.of_nat (List.length l) < 2 ^ 62 -> (List.length l < fuel)%nat ->
  call_with src_pure base fuel "bytesToUint64s" [VN (endian_sel e); VN (word_sel w); vbytes l] =
  match bytes_to_u64s e w l with Some r => Ok [vbytes r] | None => Panic end.
Proof.
  intros H1 H2. link_step "bytesToUint64s" src_fn_bytesToUint64s.
  apply run_bytesToUint64s; assumption.
Qed.

Lemma src_bytesToFloat32s_ok base fuel e w l :
  N.of_nat (List.length l) < 2 ^ 62 -> (List.length l < fuel)%nat ->
  call_with src_pure base fuel "bytesToFloat32s" [VN (endian_sel e); VN (word_sel w); vbytes l] =
  match bytes_to_u32s e w l with Some r => Ok [vbytes r] | None => Panic end.
Proof.
  intros H1 H2. link_step "bytesToFloat32s" src_fn_bytesToFloat32s.
  apply run_bytesToFloat32s_at.
  callee "bytesToFloat32s" "bytesToUint32s" src_fn_bytesToUint32s. apply src_bytesToUint32s_ok; assumption.
Qed.

Lemma src_bytesToFloat64s_ok base fuel e w l :
  N.of_nat (List.length l) < 2 ^ 62 -> (List.length l < fuel)%nat ->
  call_with src_pure base fuel "bytesToFloat64s" [VN (endian_sel e); VN (word_sel w); vbytes l] =
  match bytes_to_u64s e w l with Some r => Ok [vbytes r] | None => Panic end.
Proof.
  intros H1 H2. link_step "bytesToFloat64s" src_fn_bytesToFloat64s.
  apply run_bytesToFloat64s_at.
  callee "bytesToFloat64s" "bytesToUint64s" src_fn_bytesToUint64s. apply src_bytesToUint64s_ok; assumption.
Qed.

Lemma src_encodeBools_ok base fuel l :
  N.of_nat (List.length l) < 2 ^ 62 -> (List.length l < fuel)%nat ->
  call_with src_pure base fuel "encodeBools" [vbools l] = Ok [vbytes (encode_bools l)].
Proof.
  intros H1 H2. link_step "encodeBools" src_fn_encodeBools. apply run_encodeBools; assumption.
Qed.

Lemma src_decodeBools_ok base fuel q bs :
  q < 65536 -> (N.to_nat q < fuel)%nat -> bytesb bs = true ->
  call_with src_pure base fuel "decodeBools" [VN q; vbytes bs] =
  match decode_bools (N.to_nat q) bs with Some r => Ok [vbools r] | None => Panic end.
Proof.
  intros H1 H2 H3. link_step "decodeBools" src_fn_decodeBools. apply run_decodeBools; assumption.
Qed.
