(* C06 over sessions on one RTU transport: every frame of the session ends with
   its own CRC-16 (bit-serial reference), whatever was sent before it, and a
   well-behaved device therefore answers every request of the session. *)
From Modbus Require Import Base.Bytes Model.Crc Model.Encoding Model.Wire Model.Client Model.RtuSeq
  Spec.ModbusSpec Spec.ClientSpec Spec.RtuSeqSpec Proofs.ClientReqP Proofs.ClientRespP.
From Coq Require Import ZifyBool ZifyNat ZifyN.
Ltac Zify.zify_post_hook ::= Z.div_mod_to_equations.

(* ------------------------------------------------ the trailer test *)

Lemma ends_with_crcb_sound f : ends_with_crcb f = true -> ends_with_crc f.
Proof.
  unfold ends_with_crcb, ends_with_crc. intros H.
  apply andb_true_iff in H as [_ H]. apply list_eqb_eq in H.
  exists (firstn (length f - 2) f). rewrite <- H. symmetry. apply firstn_skipn.
Qed.

Lemma ends_with_crcb_complete body :
  ends_with_crcb (body ++ [crc_ref body mod 256; crc_ref body / 256]) = true.
Proof.
  unfold ends_with_crcb. rewrite app_length. cbn [length].
  replace (length body + 2 - 2)%nat with (length body) by lia.
  rewrite firstn_app, Nat.sub_diag, firstn_all. cbn [firstn]. rewrite app_nil_r.
  rewrite skipn_app, Nat.sub_diag, skipn_all. cbn [skipn app].
  apply andb_true_iff. split.
  - apply Nat.leb_le. lia.
  - apply list_eqb_eq. reflexivity.
Qed.

Lemma ends_with_crcb_iff f : ends_with_crcb f = true <-> ends_with_crc f.
Proof.
  split; [apply ends_with_crcb_sound|]. intros [body ->]. apply ends_with_crcb_complete.
Qed.

Lemma spec_frame_rtu_crc t p : ends_with_crc (spec_frame FRtu t p).
Proof. exists ([p_unit p; p_fc p] ++ p_payload p). reflexivity. Qed.

(* ------------------------------------------------ sessions *)

Definition rs_step_wf (s : rs_step) : Prop :=
  match s with
  | RsCall o _ => op_wf o
  | RsCfg c => cfg_wf c
  end.

(* one call: at most one frame, and it is the specified one *)
Lemma call_frames_crc cfg txn o e s : op_wf o -> cfg_wf cfg -> txn < 65536 ->
  Forall ends_with_crc (cr_writes (client_call FRtu cfg txn o e s)).
Proof.
  intros Hwf Hcfg Ht.
  destruct (client_transmit FRtu cfg txn o e s Hwf Hcfg Ht) as [Hv Hn].
  destruct (valid_op o) eqn:V.
  - rewrite (Hv eq_refl). constructor; [apply spec_frame_rtu_crc|constructor].
  - destruct (Hn eq_refl) as [-> _]. constructor.
Qed.

(* every frame of a session carries the CRC-16 of its own bytes - whatever the
   calls before it were, whatever the device answered, whatever is left on the line *)
Theorem rtuseq_frames_crc : forall steps cfg left,
  cfg_wf cfg -> Forall rs_step_wf steps ->
  Forall (fun r => Forall ends_with_crc (cr_writes r)) (rtuseq_run cfg left steps).
Proof.
  induction steps as [|st t IH]; intros cfg left Hcfg Hs; cbn [rtuseq_run]; [constructor|].
  inversion Hs as [|? ? Hst Ht]; subst.
  destruct st as [o reply|c]; cbn [rs_step_wf] in Hst.
  - constructor.
    + apply call_frames_crc; [exact Hst|exact Hcfg|lia].
    + apply IH; assumption.
  - apply IH; assumption.
Qed.

(* the replies of a well-behaved device to the calls of a session: vss lists
   the values they deliver, in order *)
Fixpoint rs_answered (cfg : ccfg) (steps : list rs_step) (vss : list values) : Prop :=
  match steps with
  | [] => vss = []
  | RsCfg c :: t => cfg_wf c /\ rs_answered c t vss
  | RsCall o reply :: t =>
      match vss with
      | [] => False
      | vs :: vt =>
          op_wf o /\ valid_op o = true /\
          (exists res, bytesb (p_payload res) = true /\ answers cfg o res vs /\
                       reply = spec_frame FRtu 0 res) /\
          rs_answered cfg t vt
      end
  end.

(* hence the device accepts every request of the session and every call
   succeeds with the values of its reply; nothing is left on the line *)
Theorem rtuseq_all_succeed : forall steps cfg vss,
  cfg_wf cfg -> rs_answered cfg steps vss ->
  map cr_res (rtuseq_run cfg [] steps) = map (fun vs => Ok vs) vss.
Proof.
  induction steps as [|st t IH]; intros cfg vss Hcfg Ha; cbn [rtuseq_run rs_answered] in *.
  - subst vss. reflexivity.
  - destruct st as [o reply|c].
    + destruct vss as [|vs vt]; [contradiction|].
      destruct Ha as (Hwf & V & (res & Hb & Hans & ->) & Ht).
      assert (H0 : (0 < 65536)%N) by lia.
      destruct (client_transmit FRtu cfg 0 o Stall [] Hwf Hcfg H0) as [Hv _].
      cbv zeta in Hv. rewrite (Hv V). unfold rs_device. cbn [flat_map].
      change (spec_frame FRtu (u16 (0 + 1)) (spec_pdu cfg o))
        with (([p_unit (spec_pdu cfg o); p_fc (spec_pdu cfg o)] ++ p_payload (spec_pdu cfg o)) ++
              [crc_ref ([p_unit (spec_pdu cfg o); p_fc (spec_pdu cfg o)] ++ p_payload (spec_pdu cfg o)) mod 256;
               crc_ref ([p_unit (spec_pdu cfg o); p_fc (spec_pdu cfg o)] ++ p_payload (spec_pdu cfg o)) / 256]).
      rewrite ends_with_crcb_complete. rewrite app_nil_r. cbn [app].
      pose proof (client_complete_rtu cfg 0 o Stall res vs [] Hwf Hcfg V Hb Hans) as Hc.
      cbv zeta in Hc. rewrite app_nil_r in Hc. destruct Hc as [Hr Hrest].
      cbn [map]. rewrite Hr, Hrest. f_equal. apply IH; assumption.
    + destruct Ha as [Hc Ht]. apply IH; assumption.
Qed.
