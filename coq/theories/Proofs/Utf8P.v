(* utf8_valid accepts exactly the encodings of sequences of Unicode scalar
   values (C15, T5). *)
From Modbus Require Import Base.Bytes Model.Utf8.
From Coq Require Import ZifyBool ZifyNat ZifyN.
Ltac Zify.zify_post_hook ::= Z.div_mod_to_equations.

Ltac split_ifs :=
  repeat match goal with
         | |- context [if ?c then _ else _] => destruct c eqn:?; try lia
         end.

(* ---------------------------------------------------- unfolding equations *)

Lemma valid1 b t : b < 0x80 -> utf8_valid (b :: t) = utf8_valid t.
Proof. intros H. cbn [utf8_valid]. split_ifs. reflexivity. Qed.

Lemma valid2 b0 b1 t : byte_between 0xC2 0xDF b0 = true ->
  utf8_valid (b0 :: b1 :: t) = andb (is_cont b1) (utf8_valid t).
Proof.
  intros H. cbn [utf8_valid]. rewrite H. unfold byte_between in H.
  destruct (b0 <? 0x80) eqn:E; [lia|reflexivity].
Qed.

Lemma valid3 b0 b1 b2 t : byte_between 0xE0 0xEF b0 = true ->
  utf8_valid (b0 :: b1 :: b2 :: t) =
  andb (byte_between (second_lo b0) (second_hi b0) b1) (andb (is_cont b2) (utf8_valid t)).
Proof.
  intros H. cbn [utf8_valid]. rewrite H. unfold byte_between in H.
  destruct (b0 <? 0x80) eqn:E; [lia|].
  destruct (byte_between 0xC2 0xDF b0) eqn:E2; [unfold byte_between in E2; lia|reflexivity].
Qed.

Lemma valid4 b0 b1 b2 b3 t : byte_between 0xF0 0xF4 b0 = true ->
  utf8_valid (b0 :: b1 :: b2 :: b3 :: t) =
  andb (byte_between (second_lo b0) (second_hi b0) b1)
       (andb (is_cont b2) (andb (is_cont b3) (utf8_valid t))).
Proof.
  intros H. cbn [utf8_valid]. rewrite H. unfold byte_between in H.
  destruct (b0 <? 0x80) eqn:E; [lia|].
  destruct (byte_between 0xC2 0xDF b0) eqn:E2; [unfold byte_between in E2; lia|].
  destruct (byte_between 0xE0 0xEF b0) eqn:E3; [unfold byte_between in E3; lia|reflexivity].
Qed.

(* -------------------------------------- encodings of scalars are accepted *)

Lemma valid_encode1 c t : is_scalar c = true ->
  utf8_valid (utf8_encode1 c ++ t) = utf8_valid t.
Proof.
  intros Hc. unfold is_scalar in Hc. unfold utf8_encode1.
  destruct (c <? 0x80) eqn:E1; [cbn [app]; apply valid1; lia|].
  destruct (c <? 0x800) eqn:E2.
  { cbn [app]. rewrite valid2 by (unfold byte_between; lia).
    replace (is_cont (0x80 + c mod 64)) with true by (unfold is_cont, byte_between; lia). reflexivity. }
  destruct (c <? 0x10000) eqn:E3.
  { cbn [app]. rewrite valid3 by (unfold byte_between; lia).
    replace (is_cont (0x80 + c mod 64)) with true by (unfold is_cont, byte_between; lia).
    match goal with |- (?x && _)%bool = _ => replace x with true end; [reflexivity|].
    unfold byte_between, second_lo, second_hi. split_ifs. }
  cbn [app]. rewrite valid4 by (unfold byte_between; lia).
  replace (is_cont (0x80 + c mod 64)) with true by (unfold is_cont, byte_between; lia).
  replace (is_cont (0x80 + (c / 64) mod 64)) with true by (unfold is_cont, byte_between; lia).
  match goal with |- (?x && _)%bool = _ => replace x with true end; [reflexivity|].
  unfold byte_between, second_lo, second_hi. split_ifs.
Qed.

Lemma encode_valid cps : forallb is_scalar cps = true -> utf8_valid (utf8_encode cps) = true.
Proof.
  induction cps as [|c cps IH]; intros H; [reflexivity|].
  cbn [forallb] in H. apply andb_true_iff in H as [Hc H].
  unfold utf8_encode in *. cbn [flat_map]. rewrite valid_encode1 by exact Hc. apply IH, H.
Qed.

(* the encoder produces bytes *)
Lemma encode1_bytes c : is_scalar c = true -> bytesb (utf8_encode1 c) = true.
Proof.
  intros Hc. unfold is_scalar in Hc. unfold utf8_encode1, bytesb, is_byte.
  split_ifs; cbn [forallb]; lia.
Qed.

Lemma encode_bytes cps : forallb is_scalar cps = true -> bytesb (utf8_encode cps) = true.
Proof.
  induction cps as [|c cps IH]; intros H; [reflexivity|].
  cbn [forallb] in H. apply andb_true_iff in H as [Hc H].
  unfold utf8_encode in *. cbn [flat_map]. rewrite bytesb_app, encode1_bytes, IH by assumption.
  reflexivity.
Qed.

Lemma encode1_nonempty c : utf8_encode1 c <> [].
Proof. unfold utf8_encode1. split_ifs; discriminate. Qed.

(* ------------------------------- accepted strings are encodings of scalars *)

Lemma utf8_valid_inv l : utf8_valid l = true ->
  l = [] \/ exists c t, is_scalar c = true /\ l = utf8_encode1 c ++ t /\ utf8_valid t = true.
Proof.
  intros H. destruct l as [|b0 t]; [left; reflexivity|right].
  cbn [utf8_valid] in H.
  destruct (b0 <? 0x80) eqn:E1.
  { exists b0, t. unfold is_scalar, utf8_encode1. rewrite E1. repeat split; [lia|exact H]. }
  destruct (byte_between 0xC2 0xDF b0) eqn:E2.
  { destruct t as [|b1 t]; [discriminate|].
    apply andb_true_iff in H as [H1 H]. unfold is_cont, byte_between in *.
    exists ((b0 - 0xC0) * 64 + (b1 - 0x80)), t. repeat split; [unfold is_scalar; lia| |exact H].
    unfold utf8_encode1. split_ifs. cbn [app]. f_equal; [lia|f_equal; lia]. }
  destruct (byte_between 0xE0 0xEF b0) eqn:E3.
  { destruct t as [|b1 [|b2 t]]; try discriminate.
    apply andb_true_iff in H as [H1 H]. apply andb_true_iff in H as [H2 H].
    unfold is_cont, byte_between, second_lo, second_hi in *.
    assert (Hb : 0x80 <= b1 <= 0xBF /\ (b0 = 0xE0 -> 0xA0 <= b1) /\ (b0 = 0xED -> b1 <= 0x9F)).
    { destruct (b0 =? 0xE0) eqn:Ea; destruct (b0 =? 0xED) eqn:Eb;
        destruct (b0 =? 0xF0) eqn:Ec; destruct (b0 =? 0xF4) eqn:Ed; lia. }
    clear H1.
    exists ((b0 - 0xE0) * 4096 + (b1 - 0x80) * 64 + (b2 - 0x80)), t.
    repeat split; [unfold is_scalar; lia| |exact H].
    unfold utf8_encode1. split_ifs. cbn [app].
    f_equal; [lia|f_equal; [lia|f_equal; lia]]. }
  destruct (byte_between 0xF0 0xF4 b0) eqn:E4; [|discriminate].
  destruct t as [|b1 [|b2 [|b3 t]]]; try discriminate.
  apply andb_true_iff in H as [H1 H]. apply andb_true_iff in H as [H2 H].
  apply andb_true_iff in H as [H3 H].
  unfold is_cont, byte_between, second_lo, second_hi in *.
  assert (Hb : 0x80 <= b1 <= 0xBF /\ (b0 = 0xF0 -> 0x90 <= b1) /\ (b0 = 0xF4 -> b1 <= 0x8F)).
  { destruct (b0 =? 0xE0) eqn:Ea; destruct (b0 =? 0xED) eqn:Eb;
      destruct (b0 =? 0xF0) eqn:Ec; destruct (b0 =? 0xF4) eqn:Ed; lia. }
  clear H1.
  exists ((b0 - 0xF0) * 262144 + (b1 - 0x80) * 4096 + (b2 - 0x80) * 64 + (b3 - 0x80)), t.
  repeat split; [unfold is_scalar; lia| |exact H].
  unfold utf8_encode1. split_ifs. cbn [app].
  f_equal; [lia|f_equal; [lia|f_equal; [lia|f_equal; lia]]].
Qed.

Lemma valid_decodes_n n : forall l, (length l <= n)%nat -> utf8_valid l = true ->
  exists cps, forallb is_scalar cps = true /\ l = utf8_encode cps.
Proof.
  induction n as [|n IH]; intros l Hl H.
  - destruct l; [|cbn in Hl; lia]. exists []. split; reflexivity.
  - destruct (utf8_valid_inv l H) as [->|(c & t & Hc & -> & Ht)].
    + exists []. split; reflexivity.
    + destruct (IH t) as (cps & Hs & ->); [|exact Ht|].
      * rewrite app_length in Hl. pose proof (encode1_nonempty c) as Hne.
        destruct (utf8_encode1 c); [congruence|cbn [length] in Hl; lia].
      * exists (c :: cps). cbn [forallb]. rewrite Hc, Hs. split; reflexivity.
Qed.

Theorem utf8_valid_iff bs :
  utf8_valid bs = true <-> exists cps, forallb is_scalar cps = true /\ bs = utf8_encode cps.
Proof.
  split.
  - apply (valid_decodes_n (length bs)). lia.
  - intros (cps & Hs & ->). apply encode_valid, Hs.
Qed.

Lemma valid_bytes bs : utf8_valid bs = true -> bytesb bs = true.
Proof. intros H. apply utf8_valid_iff in H as (cps & Hs & ->). apply encode_bytes, Hs. Qed.

(* ---------------------------------------- the encoding is uniquely decodable *)

Lemma cons_eq {A} (a b : A) l m : a :: l = b :: m -> a = b /\ l = m.
Proof. intros H. inversion H. split; reflexivity. Qed.

Lemma encode1_inj c1 c2 t1 t2 : is_scalar c1 = true -> is_scalar c2 = true ->
  utf8_encode1 c1 ++ t1 = utf8_encode1 c2 ++ t2 -> c1 = c2 /\ t1 = t2.
Proof.
  intros H1 H2. unfold is_scalar in *. unfold utf8_encode1.
  destruct (c1 <? 0x80) eqn:A1; destruct (c2 <? 0x80) eqn:B1;
    [| destruct (c2 <? 0x800) eqn:B2; [|destruct (c2 <? 0x10000) eqn:B3]
     | destruct (c1 <? 0x800) eqn:A2; [|destruct (c1 <? 0x10000) eqn:A3]
     | destruct (c1 <? 0x800) eqn:A2; [|destruct (c1 <? 0x10000) eqn:A3];
       (destruct (c2 <? 0x800) eqn:B2; [|destruct (c2 <? 0x10000) eqn:B3]) ];
    cbn [app]; intros E;
    repeat match goal with
           | H : _ :: _ = _ :: _ |- _ => apply cons_eq in H; destruct H
           end; split; try lia; try congruence.
Qed.

Lemma encode_inj cps1 : forall cps2, forallb is_scalar cps1 = true -> forallb is_scalar cps2 = true ->
  utf8_encode cps1 = utf8_encode cps2 -> cps1 = cps2.
Proof.
  unfold utf8_encode.
  induction cps1 as [|c1 l1 IH]; intros [|c2 l2] H1 H2 E; cbn [flat_map forallb] in *.
  - reflexivity.
  - apply andb_true_iff in H2 as [Hc _]. pose proof (encode1_nonempty c2).
    destruct (utf8_encode1 c2); [congruence|discriminate].
  - pose proof (encode1_nonempty c1). destruct (utf8_encode1 c1); [congruence|discriminate].
  - apply andb_true_iff in H1 as [Hc1 H1]. apply andb_true_iff in H2 as [Hc2 H2].
    destruct (encode1_inj _ _ _ _ Hc1 Hc2 E) as [-> E']. f_equal. apply IH; assumption.
Qed.
