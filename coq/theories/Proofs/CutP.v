(* C13: a stream that ends inside a frame. Server: a strict prefix of a
   well-formed request frame never reaches a handler; the complete frame is
   processed exactly once. Client: a strict prefix of a valid reply (also
   behind skippable frames) is never a success; Close; Open recovers. *)
From Modbus Require Import Base.Bytes Model.Crc Model.Encoding Model.Wire Model.Client
  Model.Server Model.Handle
  Spec.ModbusSpec Spec.ClientSpec Spec.ServerSpec Spec.ServerSessionSpec Spec.CutSpec
  Proofs.CrcP Proofs.FramingP Proofs.ClientRespP Proofs.MbapServerP Proofs.ServerP.
From Modbus Require Proofs.ClientReqP.
From Coq Require Import ZifyBool ZifyNat ZifyN.
Ltac Zify.zify_post_hook ::= Z.div_mod_to_equations.

(* ---------------------------------------------------------------- lists *)

Lemma firstn_app_le {A} k (a b : list A) : (k <= length a)%nat ->
  firstn k (a ++ b) = firstn k a.
Proof.
  intros H. rewrite firstn_app. replace (k - length a)%nat with 0%nat by lia.
  rewrite firstn_O, app_nil_r. reflexivity.
Qed.

Lemma firstn_app_ge {A} k (a b : list A) : (length a <= k)%nat ->
  firstn k (a ++ b) = a ++ firstn (k - length a) b.
Proof. intros H. rewrite firstn_app, firstn_all2 by exact H. reflexivity. Qed.

(* ---------------------------------------------------------------- MBAP *)

(* a strict prefix of any frame with a consistent length field is a short
   read: of the header below 7 bytes, of the body from 7 bytes on *)
Lemma read_mbap_cut e t proto unit fc payload k :
  lenN payload <= 252 -> (k < length (mbap_frame t proto unit fc payload))%nat ->
  read_mbap e (firstn k (mbap_frame t proto unit fc payload)) = (FErr (short_err e), []).
Proof.
  intros Hl Hk. rewrite mbap_frame_length in Hk. unfold mbap_frame.
  remember (lenN payload) as L eqn:HL.
  change (be16 t ++ be16 proto ++ be16 (2 + L) ++ [unit; fc] ++ payload)
    with ([(t / 256) mod 256; t mod 256; (proto / 256) mod 256; proto mod 256;
           ((2 + L) / 256) mod 256; (2 + L) mod 256; unit] ++ (fc :: payload)).
  destruct (Nat.lt_ge_cases k 7) as [H7|H7].
  - unfold read_mbap. rewrite read_full_short_iff; [reflexivity|].
    rewrite firstn_length. lia.
  - rewrite firstn_app_ge by (cbn [length]; lia). cbn [length].
    unfold read_mbap. rewrite read_full_app by reflexivity. cbv beta iota.
    replace (((2 + L) / 256) mod 256 * 256 + (2 + L) mod 256) with (2 + L) by lia.
    replace (260 <? 2 + L - 1 + 7) with false by lia.
    replace (2 + L <=? 1) with false by lia.
    rewrite read_full_short_iff; [reflexivity|].
    rewrite firstn_length. cbn [length]. unfold lenN in HL. lia.
Qed.

Lemma spec_mbap_frame t p :
  spec_mbap t p = mbap_frame t 0 (p_unit p) (p_fc p) (p_payload p).
Proof. reflexivity. Qed.

(* the receive loop on a stream that ends inside any of its frames *)
Lemma mbap_cut_stream e txn frames t' proto' unit fc payload :
  Forall (skippable txn) frames -> lenN payload <= 252 ->
  forall k fuel,
    (k < length (concat frames ++ mbap_frame t' proto' unit fc payload))%nat -> (k < fuel)%nat ->
    mbap_read_response fuel e txn
      (firstn k (concat frames ++ mbap_frame t' proto' unit fc payload)) = (Err (short_err e), []).
Proof.
  intros HF Hl. induction HF as [|f fs Hf Hfs IH]; intros k fuel Hk Hfuel.
  - cbn [concat app] in *. destruct fuel as [|fuel]; [lia|].
    cbn [mbap_read_response]. rewrite read_mbap_cut by assumption. destruct e; reflexivity.
  - cbn [concat] in *. rewrite <- app_assoc in *. destruct fuel as [|fuel]; [lia|].
    destruct Hf as (t & proto & u & c & pl & -> & Ht & Hp & Hpl & Hd).
    fold (mbap_frame t proto u c pl) in *.
    destruct (Nat.lt_ge_cases k (length (mbap_frame t proto u c pl))) as [Hlt|Hge].
    + rewrite firstn_app_le by lia. cbn [mbap_read_response].
      rewrite read_mbap_cut by assumption. destruct e; reflexivity.
    + rewrite firstn_app_ge by exact Hge. cbn [mbap_read_response].
      rewrite FramingP.read_mbap_frame by assumption.
      rewrite app_length in Hk. pose proof (mbap_frame_length t proto u c pl) as Hlen.
      destruct (proto =? 0) eqn:E.
      * apply N.eqb_eq in E. replace (t =? txn) with false by lia. apply IH; lia.
      * apply IH; lia.
Qed.

(* ---------------------------------------------------------------- RTU *)

(* the first three bytes fix the expected length; fewer bytes are available *)
Lemma read_rtu_cut e unit fc b2 data k :
  expected_len fc b2 = Some (lenN data) -> lenN data <= 251 ->
  (k < length (rtu_frame unit fc (b2 :: data)))%nat ->
  read_rtu e (firstn k (rtu_frame unit fc (b2 :: data))) = (Err (cut_err_class FRtu e k), []).
Proof.
  intros He Hl. unfold rtu_frame.
  change ([unit; fc] ++ b2 :: data) with ([unit; fc; b2] ++ data).
  unfold crc_bytes, crc_value, le16. set (c := crc16 _). rewrite <- app_assoc.
  set (tl := data ++ [c mod 256; (c / 256) mod 256]).
  assert (Htl : length tl = (length data + 2)%nat) by (subst tl; rewrite app_length; reflexivity).
  clearbody tl. clear c. rewrite app_length. cbn [length]. intros Hk.
  destruct k as [|[|[|k]]]; try reflexivity.
  change (firstn (S (S (S k))) ([unit; fc; b2] ++ tl)) with ([unit; fc; b2] ++ firstn k tl).
  unfold read_rtu. rewrite read_full_app by reflexivity. cbv beta iota. rewrite He.
  replace (256 <? 3 + (lenN data + 2)) with false by lia.
  rewrite read_full_short_iff by (rewrite firstn_length; unfold lenN; lia).
  destruct k as [|k].
  - cbn [firstn]. destruct e; reflexivity.
  - destruct tl as [|x tl]; [cbn [length] in Htl; lia|]. cbn [firstn].
    destruct e; reflexivity.
Qed.

Lemma rtu_response_cut e unit fc b2 data k :
  expected_len fc b2 = Some (lenN data) -> lenN data <= 251 ->
  (k < length (rtu_frame unit fc (b2 :: data)))%nat ->
  rtu_read_response e (firstn k (rtu_frame unit fc (b2 :: data))) =
    (Err (cut_err_class FRtu e k), []).
Proof.
  intros He Hl Hk. unfold rtu_read_response. rewrite read_rtu_cut by assumption.
  destruct (cut_err_class FRtu e k); reflexivity.
Qed.

(* ---------------------------------------------------------------- client *)

Lemma recv_cut fr txn e res frames k :
  bytesb ([p_unit res; p_fc res] ++ p_payload res) = true ->
  frame_ok fr txn res frames ->
  (k < length (concat frames ++ spec_frame fr (u16 (txn + 1)) res))%nat ->
  recv fr txn e (firstn k (concat frames ++ spec_frame fr (u16 (txn + 1)) res)) =
    (Err (cut_err_class fr e k), []).
Proof.
  intros Hb Hfr Hk. destruct res as [unit fc payload]. cbn [p_unit p_fc p_payload] in *.
  destruct fr; cbn [recv frame_ok p_unit p_fc p_payload cut_err_class] in *.
  - destruct Hfr as (Ht & Hl & HF). rewrite spec_frame_mbap in *. cbn [p_unit p_fc p_payload] in *.
    apply mbap_cut_stream; try assumption.
    rewrite firstn_length. lia.
  - destruct Hfr as (-> & b2 & data & -> & He & Hl). cbn [concat app] in *.
    rewrite spec_frame_rtu in * by exact Hb. cbn [p_unit p_fc p_payload] in *.
    apply rtu_response_cut; assumption.
Qed.

(* the exchange on a reply stream cut at offset k *)
Lemma exchange_cut fr cfg txn o e res frames req k :
  client_request cfg o = Ok req ->
  bytesb ([p_unit res; p_fc res] ++ p_payload res) = true ->
  frame_ok fr txn res frames ->
  (k < length (concat frames ++ spec_frame fr (u16 (txn + 1)) res))%nat ->
  let r := client_call fr cfg txn o e
             (firstn k (concat frames ++ spec_frame fr (u16 (txn + 1)) res)) in
  cr_res r = Err (cut_err_class fr e k) /\ cr_rest r = [].
Proof.
  intros Hreq Hb Hfr Hk r. subst r.
  destruct (client_call_ok fr cfg txn o e
              (firstn k (concat frames ++ spec_frame fr (u16 (txn + 1)) res)) req Hreq) as [H1 H2].
  rewrite H1, H2, (recv_cut fr txn e res frames k Hb Hfr Hk). split; reflexivity.
Qed.

(* T2: a valid reply cut at any offset, behind any skippable frames (the cut
   may also fall inside one of those) *)
Lemma client_cut_gen fr cfg txn o e res vs frames k :
  op_wf o -> cfg_wf cfg -> valid_op o = true ->
  bytesb (p_payload res) = true -> answers cfg o res vs ->
  match fr with
  | FMbap => txn < 65536 /\ Forall (skippable (u16 (txn + 1))) frames
  | FRtu => frames = []
  end ->
  (k < length (concat frames ++ spec_frame fr (u16 (txn + 1)) res))%nat ->
  let r := client_call fr cfg txn o e
             (firstn k (concat frames ++ spec_frame fr (u16 (txn + 1)) res)) in
  cr_res r = Err (cut_err_class fr e k) /\ cr_rest r = [].
Proof.
  intros Hwf Hcfg V Hb Hans Hfr Hk.
  destruct (request_valid_ok cfg o Hwf V) as (req & Hreq & Hru & Hrf).
  pose proof (answers_frame_ok fr cfg txn o res vs frames (p_unit res) Hwf V Hans Hfr) as Hok.
  rewrite pdu_eta in Hok.
  pose proof Hans as (Hu & Hf & _).
  assert (Hbody : bytesb ([p_unit res; p_fc res] ++ p_payload res) = true).
  { apply body_bytes; [rewrite Hu; exact Hcfg|rewrite Hf; pose proof (spec_fc_byte o); lia|exact Hb]. }
  exact (exchange_cut fr cfg txn o e res frames req k Hreq Hbody Hok Hk).
Qed.

Lemma client_cut_rtu : forall cfg txn o e res vs k,
  op_wf o -> cfg_wf cfg -> valid_op o = true ->
  bytesb (p_payload res) = true -> answers cfg o res vs ->
  (k < length (spec_frame FRtu 0 res))%nat ->
  let r := client_call FRtu cfg txn o e (firstn k (spec_frame FRtu 0 res)) in
  cr_res r = Err (cut_err_class FRtu e k) /\ cr_rest r = [].
Proof.
  intros cfg txn o e res vs k Hwf Hcfg V Hb Hans Hk.
  exact (client_cut_gen FRtu cfg txn o e res vs [] k Hwf Hcfg V Hb Hans eq_refl Hk).
Qed.

Lemma client_cut_mbap : forall cfg txn o e res vs frames k,
  op_wf o -> cfg_wf cfg -> txn < 65536 -> valid_op o = true ->
  bytesb (p_payload res) = true -> answers cfg o res vs ->
  Forall (skippable (u16 (txn + 1))) frames ->
  (k < length (concat frames ++ spec_frame FMbap (u16 (txn + 1)) res))%nat ->
  let r := client_call FMbap cfg txn o e
             (firstn k (concat frames ++ spec_frame FMbap (u16 (txn + 1)) res)) in
  cr_res r = Err (short_err e) /\ cr_rest r = [].
Proof.
  intros cfg txn o e res vs frames k Hwf Hcfg Ht V Hb Hans HF Hk.
  exact (client_cut_gen FMbap cfg txn o e res vs frames k Hwf Hcfg V Hb Hans (conj Ht HF) Hk).
Qed.

(* the same for exception replies: a cut exception reply is reported as the
   cut, never as the exception (and never as a success) *)
Lemma client_cut_exception fr cfg txn o e res code frames k :
  op_wf o -> cfg_wf cfg -> valid_op o = true -> code < 256 ->
  exception_reply cfg o res code ->
  match fr with
  | FMbap => txn < 65536 /\ Forall (skippable (u16 (txn + 1))) frames
  | FRtu => frames = []
  end ->
  (k < length (concat frames ++ spec_frame fr (u16 (txn + 1)) res))%nat ->
  cr_res (client_call fr cfg txn o e
            (firstn k (concat frames ++ spec_frame fr (u16 (txn + 1)) res))) =
    Err (cut_err_class fr e k).
Proof.
  intros Hwf Hcfg V Hc (Hu & Hf & Hp) Hfr Hk.
  destruct (request_valid_ok cfg o Hwf V) as (req & Hreq & Hru & Hrf).
  pose proof (exception_frame_ok fr txn o (p_unit res) code frames Hfr) as Hok.
  rewrite <- Hf, <- Hp, pdu_eta in Hok.
  assert (Hbody : bytesb ([p_unit res; p_fc res] ++ p_payload res) = true).
  { apply body_bytes.
    - unfold cfg_wf in Hcfg. destruct Hu as [Hu|Hu]; rewrite Hu; lia.
    - rewrite Hf. pose proof (spec_fc_byte o). lia.
    - rewrite Hp. apply FramingP.bytesb_cons. split; [exact Hc|reflexivity]. }
  exact (proj1 (exchange_cut fr cfg txn o e res frames req k Hreq Hbody Hok Hk)).
Qed.

(* never a success *)
Lemma client_cut_never_ok : forall fr cfg txn o e res vs frames k,
  op_wf o -> cfg_wf cfg -> valid_op o = true ->
  bytesb (p_payload res) = true -> answers cfg o res vs ->
  match fr with
  | FMbap => txn < 65536 /\ Forall (skippable (u16 (txn + 1))) frames
  | FRtu => frames = []
  end ->
  (k < length (concat frames ++ spec_frame fr (u16 (txn + 1)) res))%nat ->
  let r := cr_res (client_call fr cfg txn o e
             (firstn k (concat frames ++ spec_frame fr (u16 (txn + 1)) res))) in
  cut_failed r /\ forall vs', r <> Ok vs'.
Proof.
  intros fr cfg txn o e res vs frames k Hwf Hcfg V Hb Hans Hfr Hk.
  destruct (client_cut_gen fr cfg txn o e res vs frames k Hwf Hcfg V Hb Hans Hfr Hk) as [H _].
  cbv zeta. rewrite H. split; [eexists; reflexivity|discriminate].
Qed.

(* the class table, spelled out *)
Lemma cut_err_class_cases fr e k :
  cut_err_class fr e k =
  match fr, e with
  | FMbap, Stall => ETimeout
  | FMbap, _ => EIO
  | FRtu, Stall => if Nat.eqb k 0 then ETimeout else if Nat.ltb k 3 then EShortFrame else ETimeout
  | FRtu, Reset => if Nat.eqb k 0 then EIO else if Nat.ltb k 3 then EShortFrame else EIO
  | FRtu, Closed => if Nat.eqb k 0 then EIO else if Nat.ltb k 3 then EShortFrame
                    else if Nat.eqb k 3 then EIO else EShortFrame
  end.
Proof. destruct fr, e; cbn [cut_err_class short_err]; reflexivity. Qed.

(* ---------------------------------------------------------------- the handle *)

Lemma hd_reopen_fresh s : hd_open (hd_close s) = mkhd 0 [] false.
Proof. reflexivity. Qed.

(* T3: whatever happened on the handle before (e.g. a cut-off call), after
   Close; Open the next call on a valid reply succeeds; the transaction
   counter restarts at 0, so the reply carries transaction id 1 *)
Lemma handle_reopen_ok : forall fr cfg h o1 e1 s1 o e res vs post,
  op_wf o -> cfg_wf cfg -> valid_op o = true ->
  bytesb (p_payload res) = true -> answers cfg o res vs ->
  let h1 := snd (hd_call fr cfg h o1 e1 s1) in
  let h2 := hd_open (hd_close h1) in
  let r := fst (hd_call fr cfg h2 o e (spec_frame fr 1 res ++ post)) in
  cr_res r = Ok vs /\ cr_rest r = post /\
  cr_writes r = [spec_frame fr 1 (spec_pdu cfg o)].
Proof.
  intros fr cfg h o1 e1 s1 o e res vs post Hwf Hcfg V Hb Hans h1 h2 r.
  subst r h2. rewrite hd_reopen_fresh. unfold hd_call. cbn [hd_closed hd_txn hd_unread fst app].
  assert (Hfr : match fr with
                | FMbap => 0 < 65536 /\ Forall (skippable (u16 (0 + 1))) (@nil (list N))
                | FRtu => @nil (list N) = []
                end) by (destruct fr; [split; [reflexivity|constructor]|reflexivity]).
  pose proof (client_complete_gen fr cfg 0 o e res vs [] post Hwf Hcfg V Hb Hans Hfr) as Hc.
  cbv zeta in Hc. cbn [concat app] in Hc. change (u16 (0 + 1)) with 1 in Hc.
  destruct Hc as [H1 H2]. split; [exact H1|]. split; [exact H2|].
  destruct (ClientReqP.client_transmit fr cfg 0 o e (spec_frame fr 1 res ++ post) Hwf Hcfg eq_refl)
    as [Hw _].
  exact (Hw V).
Qed.

(* a closed handle fails every call without touching the connection *)
Lemma handle_closed_fails fr cfg h o e s : op_wf o ->
  let r := fst (hd_call fr cfg (hd_close h) o e s) in
  cut_failed (cr_res r) /\ cr_writes r = [] /\ snd (hd_call fr cfg (hd_close h) o e s) = hd_close h.
Proof.
  intros Hwf. unfold hd_call. cbn [hd_close hd_closed fst snd cr_res cr_writes].
  split; [|split; reflexivity].
  destruct (client_request cfg o) as [req|x| |] eqn:E.
  - eexists; reflexivity.
  - eexists; reflexivity.
  - destruct (request_no_panic cfg o) as [Hp _]. congruence.
  - destruct (request_no_panic cfg o) as [_ Ho]. congruence.
Qed.

(* ---------------------------------------------------------------- server *)

Lemma cut_calls_app a b : cut_calls (a ++ b) = (cut_calls a + cut_calls b)%nat.
Proof. unfold cut_calls. rewrite filter_app, app_length. reflexivity. Qed.

Lemma cut_calls_map l : cut_calls (map EvCall l) = length l.
Proof.
  unfold cut_calls. induction l as [|x l IH]; [reflexivity|].
  cbn [map filter cut_is_call length]. rewrite IH. reflexivity.
Qed.

Section Cut.
  Context {St : Type} (h : handler St).

  (* T1: the stream ends inside a request: no handler call, session closed *)
  Lemma server_cut : forall st e t p k,
    pdu_wf p -> (k < length (spec_mbap t p))%nat ->
    server_run h st e (firstn k (spec_mbap t p)) = [EvClosed].
  Proof.
    intros st e t p k (_ & _ & _ & Hl) Hk. unfold server_run. cbn [server_session].
    rewrite spec_mbap_frame in *. rewrite read_mbap_cut by assumption. reflexivity.
  Qed.

  (* the reason: a strict prefix of a well-formed frame does not start with
     any well-formed frame (the length field lies in the first 7 bytes and
     determines the frame length) *)
  Lemma strict_prefix_not_frame : forall t p k t' p' rest,
    pdu_wf p -> (k < length (spec_mbap t p))%nat -> t' < 65536 -> pdu_wf p' ->
    firstn k (spec_mbap t p) <> spec_mbap t' p' ++ rest.
  Proof.
    intros t p k t' p' rest (_ & _ & _ & Hl) Hk Ht' Hp' Heq.
    pose proof (read_mbap_cut Closed t 0 (p_unit p) (p_fc p) (p_payload p) k Hl) as H1.
    rewrite <- spec_mbap_frame in H1. specialize (H1 Hk). rewrite Heq in H1.
    rewrite MbapServerP.read_mbap_frame in H1 by (try exact Ht'; apply Hp'). discriminate H1.
  Qed.

  (* the request was fully received, then the peer is gone: it is processed
     exactly once (the response write is attempted), then the session ends *)
  Lemma server_full : forall st e t p, t < 65536 -> pdu_wf p ->
    server_run h st e (spec_mbap t p) =
    let '(st', calls, act) := server_process h st p in
    map EvCall calls ++
    match act with
    | Respond r => [EvResp (spec_mbap t r); EvClosed]
    | CloseLink => [EvClosed]
    end.
  Proof.
    intros st e t p Ht Hp.
    pose proof (server_pipelined h [(t, p)] [] st e) as H.
    cbn [map concat fst snd] in H. rewrite !app_nil_r in H. rewrite H.
    2:{ constructor; [split; assumption|constructor]. }
    cbn [spec_session]. destruct (server_process h st p) as [[st' calls] act].
    destruct act; reflexivity.
  Qed.

  Lemma server_full_once : forall st e t p r, t < 65536 -> pdu_wf p -> handler_wf h ->
    spec_decode p = Some r -> in_range r = true ->
    server_run h st e (spec_mbap t p) =
      [EvCall r; EvResp (spec_mbap t (spec_response p r (snd (h st r)))); EvClosed].
  Proof.
    intros st e t p r Ht Hp Hwf Hd Hr. rewrite server_full by assumption.
    pose proof (server_process_spec h st p Hp Hwf) as HS. unfold process_ok in HS.
    destruct (server_process h st p) as [[st' calls] act]. rewrite Hd, Hr in HS.
    destruct HS as (-> & _ & _ & ->). reflexivity.
  Qed.

  (* handler invocation counts *)
  Lemma server_cut_calls : forall st e t p k,
    pdu_wf p -> (k < length (spec_mbap t p))%nat ->
    cut_calls (server_run h st e (firstn k (spec_mbap t p))) = 0%nat.
  Proof. intros st e t p k Hp Hk. rewrite server_cut by assumption. reflexivity. Qed.

  Lemma server_full_calls : forall st e t p, t < 65536 -> pdu_wf p -> handler_wf h ->
    cut_calls (server_run h st e (spec_mbap t p)) =
    match spec_decode p with
    | Some r => if in_range r then 1%nat else 0%nat
    | None => 0%nat
    end.
  Proof.
    intros st e t p Ht Hp Hwf. rewrite server_full by assumption.
    pose proof (server_process_spec h st p Hp Hwf) as HS. unfold process_ok in HS.
    destruct (server_process h st p) as [[st' calls] act].
    rewrite cut_calls_app, cut_calls_map.
    assert (Htail : cut_calls match act with
                              | Respond r => [EvResp (spec_mbap t r); EvClosed]
                              | CloseLink => [EvClosed]
                              end = 0%nat) by (destruct act; reflexivity).
    rewrite Htail.
    destruct (spec_decode p) as [r|]; [destruct (in_range r)|];
      destruct HS as (-> & _); reflexivity.
  Qed.
End Cut.
