From Coq Require Import List NArith String Lia Bool.
From Coq Require Import ZifyBool ZifyNat ZifyN.
Import ListNotations.
From Modbus Require Import Base.Bytes Model.GoLite Gen.SrcPure Model.Crc Model.Encoding.
From Modbus Require Import Model.Wire Model.Client Model.Server.
From Modbus Require Import Proofs.GoLiteP Proofs.GoLiteLinkP Proofs.SrcCrcP Proofs.SrcLinkP Proofs.SrcMiscP Proofs.SrcClientP Proofs.SrcServerP.
Open Scope string_scope.
Open Scope N_scope.
(* decode_bools_total, bytes_to_u16s_total: the decoders cannot fail behind the length checks *)
From Modbus Require Import Proofs.EncodingP Proofs.ServerP.

(* server.go handleTransport, one iteration of the loop on a write-multiple
   request (function codes 15 and 16): the translated body does what the
   model's server_process says. The body is cut into the front (ReadRequest,
   dispatch), the case and the common tail; the tail is evaluated once for each
   of its three behaviours (close, exception, response). *)

(* ---------------------------------------------------------------- the pieces of the loop body *)

Definition srv_read : stmt :=
  Eval cbv in match srv_parts with SSeq a _ => a | _ => SSkip end.
Definition srv_ifret : stmt :=
  Eval cbv in match srv_parts with SSeq _ (SSeq a _) => a | _ => SSkip end.
Definition srv_switch : stmt :=
  Eval cbv in match srv_parts with SSeq _ (SSeq _ (SSeq (SBlock s) _)) => s | _ => SSkip end.
Definition srv_tail : stmt :=
  Eval cbv in match srv_parts with SSeq _ (SSeq _ (SSeq _ t)) => t | _ => SSkip end.
Definition srv_case15 : stmt :=
  Eval cbv in match srv_switch with SIf _ _ (SIf _ _ (SIf _ c _)) => c | _ => SSkip end.
Definition srv_case16 : stmt :=
  Eval cbv in match srv_switch with
              | SIf _ _ (SIf _ _ (SIf _ _ (SIf _ _ (SIf _ _ (SIf _ c _))))) => c
              | _ => SSkip end.

Lemma srv_parts_eq : srv_parts = SSeq srv_read (SSeq srv_ifret (SSeq (SBlock srv_switch) srv_tail)).
Proof. reflexivity. Qed.


(* ---------------------------------------------------------------- the common tail *)

Ltac gl_auto2 :=
  repeat (progress (gl_step;
                    cbn [compare_v compare_n arith wrap negb andb orb ofail Bool.eqb
                         firstn skipn nth_error map];
                    gl_consts)).

Ltac known_eqb :=
  repeat match goal with
  | H : ?c <> ?k |- context [?c =? ?k] => replace (c =? k) with false by lia
  end.

Section Tail.
  Variables (fe : fenv) (fuel : nat) (W : world_fns).
  Hypothesis HW : world_hyp fe W.
  Hypothesis HC : srv_callee_hyp fe.
  Variables (started tt : val) (ca cr : N) (w1 : val) (u fc : N) (s8 : val).
  Variables (s9 s10 s11 s12 s14 s15 s16 s17 s18 s19 s20 s21 s22 : val).

  Lemma tail_close :
    exec ge fe fuel
      [started; tt; VN ca; VN cr; w1; VB false; VN u; VN fc; s8; s9; s10; s11; s12; VN 16;
       s14; s15; s16; s17; s18; s19; s20; s21; s22] srv_tail =
    OReturn (srv_state started tt ca cr (fst (w_close W w1))
       [VB false; VN u; VN fc; s8; s9; s10; s11; s12; VN 16;
        s14; s15; s16; s17; s18; s19; s20; s21; s22]) None.
  Proof.
    destruct HW as (_ & _ & _ & _ & _ & _ & Hclose & _).
    unfold srv_tail. gl_auto2. rewrite Hclose. gl_auto2. reflexivity.
  Qed.

  Lemma tail_exc c :
    c <> 0 -> c <> 16 -> In c all_error_values ->
    exec ge fe fuel
      [started; tt; VN ca; VN cr; w1; VB false; VN u; VN fc; s8; s9; s10; s11; s12; VN c;
       s14; s15; s16; s17; s18; s19; s20; s21; s22] srv_tail =
    ONormal (srv_state started tt ca cr
       (fst (w_write W w1 (mkpdu u (N.lor 128 fc) [err_to_exc c])))
       [VB true; VN 0; VN 0; VL []; VB true; VN 0; VN 0; VL [];
        VN (snd (w_write W w1 (mkpdu u (N.lor 128 fc) [err_to_exc c])));
        s14; s15; s16; s17; s18; s19; s20; s21; s22]).
  Proof.
    intros H0 H16 Hin.
    destruct HW as (_ & _ & _ & _ & _ & Hwrite & _ & _).
    unfold srv_tail. gl_auto2.
    destruct HC as (_ & _ & _ & _ & _ & _ & Hmap).
    repeat (progress (gl_auto2; known_eqb)).
    rewrite (Hmap c Hin). gl_auto2.
    pose proof (Hwrite w1 (mkpdu u (N.lor 128 fc) [err_to_exc c])) as Hw.
    unfold vbytes in Hw. cbn [p_unit p_fc p_payload map] in Hw.
    rewrite Hw. gl_auto2.
    match goal with |- context [negb (?x =? 0)] => destruct (x =? 0) end; gl_auto2; reflexivity.
  Qed.

  Lemma tail_ok ru rf l rp :
    l = map VN rp ->
    exec ge fe fuel
      [started; tt; VN ca; VN cr; w1; VB false; VN u; VN fc; s8; VB false; VN ru; VN rf; VL l; VN 0;
       s14; s15; s16; s17; s18; s19; s20; s21; s22] srv_tail =
    ONormal (srv_state started tt ca cr
       (fst (w_write W w1 (mkpdu ru rf rp)))
       [VB true; VN 0; VN 0; VL []; VB true; VN 0; VN 0; VL [];
        VN (snd (w_write W w1 (mkpdu ru rf rp)));
        s14; s15; s16; s17; s18; s19; s20; s21; s22]).
  Proof.
    intros ->.
    destruct HW as (_ & _ & _ & _ & _ & Hwrite & _ & _).
    unfold srv_tail. gl_auto2.
    pose proof (Hwrite w1 (mkpdu ru rf rp)) as Hw.
    unfold vbytes in Hw. cbn [p_unit p_fc p_payload] in Hw.
    rewrite Hw. gl_auto2.
    match goal with |- context [negb (?x =? 0)] => destruct (x =? 0) end; gl_auto2; reflexivity.
  Qed.
End Tail.

(* ---------------------------------------------------------------- from the top of the body to the case *)

Lemma exec_if_eval fe fuel st c a b v :
  eval ge fe st c = GOk (VB v) ->
  exec ge fe fuel st (SIf c a b) = if v then exec ge fe fuel st a else exec ge fe fuel st b.
Proof. intros H. cbn [exec]. rewrite H. destruct v; reflexivity. Qed.

Definition after_case fe fuel (o : outcome) : outcome :=
  match (match o with
         | ONormal s => ONormal s
         | OReturn s vs => OReturn s vs
         | OBreak s => ONormal s
         | OContinue s => OContinue s
         | OFail r => OFail r
         end) with
  | ONormal s => exec ge fe fuel s srv_tail
  | OReturn s vs => OReturn s vs
  | OBreak s => OBreak s
  | OContinue s => OContinue s
  | OFail r => OFail r
  end.

Section Front.
  Variables (fe : fenv) (fuel : nat) (W : world_fns).
  Hypothesis HW : world_hyp fe W.
  Variables (started tt : val) (ca cr : N) (w : val) (u : N) (pl : list N).
  Variables (r5 r6 r7 r8 r9 r10 r11 r12 r13 r14 r15 r16 r17 r18 r19 r20 r21 r22 : val).

  Lemma front15 :
    snd (w_read W w) = RdOk (mkpdu u 15 pl) ->
    exec ge fe fuel (srv_state started tt ca cr w
       [r5; r6; r7; r8; r9; r10; r11; r12; r13; r14; r15; r16; r17; r18; r19; r20; r21; r22]) srv_parts =
    after_case fe fuel (exec ge fe fuel
       [started; tt; VN ca; VN cr; fst (w_read W w); VB false; VN u; VN 15; VL (map VN pl);
        r9; r10; r11; r12; VN 0; r14; r15; r16; r17; r18; r19; r20; r21; r22] srv_case15).
  Proof.
    intros Hrd. destruct HW as (Hread & _). destruct (Hread w) as [Hr _]. rewrite Hrd in Hr.
    cbn [enc_rd p_unit p_fc p_payload] in Hr. unfold vbytes in Hr.
    rewrite srv_parts_eq. unfold srv_state, srv_read, srv_ifret. gl_auto2.
    rewrite Hr. gl_auto2.
    unfold srv_switch.
    rewrite (exec_if_eval _ _ _ _ _ _ false) by (gl_auto2; reflexivity).
    rewrite (exec_if_eval _ _ _ _ _ _ false) by (gl_auto2; reflexivity).
    rewrite (exec_if_eval _ _ _ _ _ _ true) by (gl_auto2; reflexivity).
    unfold after_case. reflexivity.
  Qed.

  Lemma front16 :
    snd (w_read W w) = RdOk (mkpdu u 16 pl) ->
    exec ge fe fuel (srv_state started tt ca cr w
       [r5; r6; r7; r8; r9; r10; r11; r12; r13; r14; r15; r16; r17; r18; r19; r20; r21; r22]) srv_parts =
    after_case fe fuel (exec ge fe fuel
       [started; tt; VN ca; VN cr; fst (w_read W w); VB false; VN u; VN 16; VL (map VN pl);
        r9; r10; r11; r12; VN 0; r14; r15; r16; r17; r18; r19; r20; r21; r22] srv_case16).
  Proof.
    intros Hrd. destruct HW as (Hread & _). destruct (Hread w) as [Hr _]. rewrite Hrd in Hr.
    cbn [enc_rd p_unit p_fc p_payload] in Hr. unfold vbytes in Hr.
    rewrite srv_parts_eq. unfold srv_state, srv_read, srv_ifret. gl_auto2.
    rewrite Hr. gl_auto2.
    unfold srv_switch.
    do 5 rewrite (exec_if_eval _ _ _ _ _ _ false) by (gl_auto2; reflexivity).
    rewrite (exec_if_eval _ _ _ _ _ _ true) by (gl_auto2; reflexivity).
    unfold after_case. reflexivity.
  Qed.
End Front.

(* ---------------------------------------------------------------- handler errors *)

Lemma herr_cases c : In c all_error_values -> c <> 0 ->
  norm_herr (herr_of_code c) <> HNone /\
  herr_code (norm_herr (herr_of_code c)) = err_to_exc (if c =? 16 then 8 else c).
Proof.
  intros Hin Hc. vm_compute in Hin.
  repeat (destruct Hin as [<-|Hin];
          [first [exfalso; apply Hc; reflexivity | vm_compute; split; [discriminate|reflexivity]]|]).
  destruct Hin.
Qed.

Lemma herr_match_exc {A} e (a : A) (f : herr -> A) : e <> HNone ->
  match e with HNone => a | HModbus c => f (HModbus c) | HProtocol => f HProtocol | HOther => f HOther end = f e.
Proof. destruct e; congruence. Qed.

Lemma after_case_break fe fuel s : after_case fe fuel (OBreak s) = exec ge fe fuel s srv_tail.
Proof. reflexivity. Qed.
Lemma after_case_normal fe fuel s : after_case fe fuel (ONormal s) = exec ge fe fuel s srv_tail.
Proof. reflexivity. Qed.

Ltac destruct18 rest Hlen :=
  do 18 (destruct rest as [|? rest]; [discriminate Hlen|]);
  destruct rest as [|? rest]; [|discriminate Hlen]; clear Hlen.

Lemma bytesb_cons' x l : bytesb (x :: l) = true -> x < 256 /\ bytesb l = true.
Proof.
  unfold bytesb. cbn [forallb]. unfold is_byte. intros H.
  apply andb_true_iff in H as [H1 H2]. split; [lia|exact H2].
Qed.

Lemma b2u16_pair fe : srv_callee_hyp fe ->
  forall x y, fe "bytesToUint16" [VN 1; VL [VN x; VN y]] = GOk [VN (x * 256 + y)].
Proof. intros (_ & H & _) x y. exact (H BigE [x; y]). Qed.

Lemma u16tb_be fe : srv_callee_hyp fe ->
  forall v, fe "uint16ToBytes" [VN 1; VN v] = GOk [VL (map VN (be16 v))].
Proof. intros (H & _) v. rewrite <- be16_u16_to_bytes. exact (H BigE v). Qed.

Lemma decb_call fe : srv_callee_hyp fe ->
  forall q bs, q <= 1968 -> bytesb bs = true ->
     fe "decodeBools" [VN q; vbytes bs] =
     match decode_bools (N.to_nat q) bs with Some r => GOk [vbools r] | None => GoLite.Panic end.
Proof. intros (_ & _ & _ & H & _). exact H. Qed.

Lemma b2u16s_call fe : srv_callee_hyp fe ->
  forall l, (List.length l <= 254)%nat ->
     fe "bytesToUint16s" [VN 1; vbytes l] =
     match bytes_to_u16s BigE l with Some r => GOk [vbytes r] | None => GoLite.Panic end.
Proof. intros (_ & _ & _ & _ & H & _). exact H. Qed.

Lemma coils_call fe W : world_hyp fe W ->
  forall w ca cr u a q wr args,
     fe "handler.HandleCoils" [w; VN ca; VN cr; VN u; VN a; VN q; VB wr; VL (map VB args)] =
     let '(w', x) := w_handle W w ca cr (mkhreq HCoils u a q wr args []) in
     GOk [w'; VL (map VB (hr_bools x)); VN (hr_code x)].
Proof. intros (_ & H & _). exact H. Qed.

Lemma holding_call fe W : world_hyp fe W ->
  forall w ca cr u a q wr args,
     fe "handler.HandleHoldingRegisters" [w; VN ca; VN cr; VN u; VN a; VN q; VB wr; VL (map VN args)] =
     let '(w', x) := w_handle W w ca cr (mkhreq HHolding u a q wr [] args) in
     GOk [w'; VL (map VN (hr_regs x)); VN (hr_code x)].
Proof. intros (_ & _ & _ & H & _). exact H. Qed.

Lemma handle_wf fe W : world_hyp fe W ->
  forall w ca cr r, In (hr_code (snd (w_handle W w ca cr r))) all_error_values /\
                    Forall (fun v => v < 65536) (hr_regs (snd (w_handle W w ca cr r))).
Proof. intros (_ & _ & _ & _ & _ & _ & _ & H). exact H. Qed.

Ltac fin_close :=
  match goal with HW : world_hyp ?fe ?W |- _ =>
    eexists; (split; [|rewrite (tail_close fe _ W HW); reflexivity]); reflexivity
  end.

Ltac exc_side := first [assumption | lia | (vm_compute; tauto)].

Ltac fin_exc :=
  match goal with HW : world_hyp ?fe ?W, HC : srv_callee_hyp ?fe |- _ =>
    eexists; (split; [|rewrite (tail_exc fe _ W HW HC); [reflexivity|exc_side..]]); reflexivity
  end.

Ltac br_close := gl_auto2; rewrite after_case_break; cbv beta iota; fin_close.

Ltac handler_error x Hin C0 :=
  let Hne := fresh "Hne" in let Hcode := fresh "Hcode" in let E16 := fresh "E16" in
  destruct (herr_cases (hr_code x) Hin C0) as [Hne Hcode];
  destruct (hr_code x =? 16) eqn:E16; gl_auto2; known_eqb; gl_auto2;
  rewrite after_case_break;
  (destruct (norm_herr (herr_of_code (hr_code x))); [congruence|..]);
  cbv beta iota; rewrite Hcode; fin_exc.

Ltac fin_ok :=
  match goal with HW : world_hyp ?fe ?W |- _ =>
    eexists; (split; [|erewrite (tail_ok fe _ W HW); [reflexivity|rewrite ?map_app; reflexivity]]); reflexivity
  end.

Ltac len_leb :=
  repeat match goal with
  | |- context [?a <=? N.of_nat ?b] => replace (a <=? N.of_nat b) with true by lia
  end.

(* ---------------------------------------------------------------- function code 15 *)

Lemma srv_iter_write_coils fe fuel W started tt ca cr w rest req :
  world_hyp fe W -> srv_callee_hyp fe -> List.length rest = 18%nat ->
  snd (w_read W w) = RdOk req -> p_fc req = 15 ->
  srv_iter_spec fe fuel W started tt ca cr w rest req.
Proof.
  intros HW HC Hlen Hrd Hfc.
  destruct req as [u fc pl]; cbn [p_fc] in Hfc; subst fc.
  destruct18 rest Hlen.
  unfold srv_iter_spec. rewrite (front15 fe fuel W HW _ _ _ _ _ u pl) by exact Hrd.
  assert (Hwf : bytesb pl = true /\ u < 256).
  { destruct HW as (Hread & _). destruct (Hread w) as [_ Hwf]. rewrite Hrd in Hwf.
    cbn [rd_wf p_payload p_unit] in Hwf. tauto. }
  destruct Hwf as [Hb Hu].
  set (w1 := fst (w_read W w)). clearbody w1. clear Hrd.
  unfold srv_request, server_process. cbn [p_fc p_payload p_unit]. gl_consts. cbn [orb].
  unfold srv_case15. gl_auto2. rewrite map_length.
  destruct (Datatypes.length pl <? 6)%nat eqn:E6.
  { replace (N.of_nat (Datatypes.length pl) <? 6) with true by lia. gl_auto2.
    rewrite after_case_break. cbv beta iota. fin_close. }
  replace (N.of_nat (Datatypes.length pl) <? 6) with false by lia.
  destruct pl as [|a0 [|a1 [|a2 [|a3 [|a4 [|a5 tl]]]]]]; try discriminate E6. clear E6.
  apply bytesb_cons' in Hb as [B0 Hb]; apply bytesb_cons' in Hb as [B1 Hb];
  apply bytesb_cons' in Hb as [B2 Hb]; apply bytesb_cons' in Hb as [B3 Hb];
  apply bytesb_cons' in Hb as [B4 Hb].
  cbn [skipn be_word nth]. gl_auto2. len_leb. gl_auto2.
  rewrite (b2u16_pair fe HC). gl_auto2. len_leb. gl_auto2. rewrite (b2u16_pair fe HC). gl_auto2.
  set (addr := a0 * 256 + a1). set (qty := a2 * 256 + a3).
  assert (Haddr : addr < 65536) by (unfold addr; lia).
  assert (Hqty : qty < 65536) by (unfold qty; lia).
  clearbody addr qty.
  destruct (1968 <? qty) eqn:Eq1; cbn [orb]; [br_close|].
  destruct (qty =? 0) eqn:Eq0; [br_close|].
  gl_auto2. change (2 ^ 32) with 4294967296.
  replace (65535 <? ((addr mod 4294967296 + qty mod 4294967296) mod 4294967296 + 4294967296 - 1 mod 4294967296) mod 4294967296)
    with (65535 <? addr + qty - 1) by lia.
  destruct (65535 <? addr + qty - 1) eqn:Eov.
  { gl_auto2. rewrite after_case_break. cbv beta iota. fin_exc. }
  gl_auto2. replace (qty <? 2 ^ 63) with true by lia. gl_auto2.
  remember (qty / 8 + (if qty mod 8 =? 0 then 0 else 1)) as expected eqn:Hexp.
  destruct (qty mod 8 =? 0) eqn:Em; cbn [negb];
    [replace (qty / 8) with expected by lia
    |replace (qty / 8 + 1 <? 2 ^ 63) with true by lia; gl_auto2; replace (qty / 8 + 1) with expected by lia].
  all: gl_auto2; change (2 ^ 8) with 256; unfold u8.
  all: destruct (a4 =? expected mod 256) eqn:Ebc; cbn [negb]; [|br_close].
  all: gl_auto2; len_leb; gl_auto2; unfold lenN; cbn [Datatypes.length]; rewrite !map_length.
  all: match goal with |- context [negb (N.of_nat ?x - 5 =? ?e)] => destruct (N.of_nat x - 5 =? e) eqn:El end; cbn [negb]; [|br_close].
  all: gl_auto2; len_leb; gl_auto2.
  all: rewrite firstn_all2 by (cbn [Datatypes.length]; rewrite map_length; lia).
  all: change (VL (VN a5 :: map VN tl)) with (vbytes (a5 :: tl)).
  all: rewrite (decb_call fe HC) by (first [lia | exact Hb]).
  all: destruct (decode_bools_total (N.to_nat qty) (a5 :: tl)) as [args Hargs];
    [cbn [Datatypes.length]; lia|rewrite Hargs].
  all: gl_auto2; unfold vbools; rewrite (coils_call fe W HW); unfold model_handler.
  all: match goal with |- context [w_handle ?W' ?w1' ?ca' ?cr' ?r] =>
         pose proof (handle_wf fe W' HW w1' ca' cr' r) as [Hin _];
         destruct (w_handle W' w1' ca' cr' r) as [w' x] eqn:Eh end.
  all: cbn [snd] in Hin; cbn [r_err]; gl_auto2.
  all: destruct (N.eq_dec (hr_code x) 0) as [C0|C0]; [|handler_error x Hin C0].
  all: rewrite C0; gl_auto2.
  all: rewrite !(u16tb_be fe HC); gl_auto2; rewrite !(u16tb_be fe HC); gl_auto2.
  all: rewrite after_case_normal; change (norm_herr (herr_of_code 0)) with HNone; cbv beta iota.
  all: fin_ok.
Qed.

(* ---------------------------------------------------------------- function code 16 *)

Lemma srv_iter_write_regs fe fuel W started tt ca cr w rest req :
  world_hyp fe W -> srv_callee_hyp fe -> List.length rest = 18%nat ->
  snd (w_read W w) = RdOk req -> p_fc req = 16 ->
  srv_iter_spec fe fuel W started tt ca cr w rest req.
Proof.
  intros HW HC Hlen Hrd Hfc.
  destruct req as [u fc pl]; cbn [p_fc] in Hfc; subst fc.
  destruct18 rest Hlen.
  unfold srv_iter_spec. rewrite (front16 fe fuel W HW _ _ _ _ _ u pl) by exact Hrd.
  assert (Hwf : bytesb pl = true /\ u < 256).
  { destruct HW as (Hread & _). destruct (Hread w) as [_ Hwf]. rewrite Hrd in Hwf.
    cbn [rd_wf p_payload p_unit] in Hwf. tauto. }
  destruct Hwf as [Hb Hu].
  set (w1 := fst (w_read W w)). clearbody w1. clear Hrd.
  unfold srv_request, server_process. cbn [p_fc p_payload p_unit]. gl_consts. cbn [orb].
  unfold srv_case16. gl_auto2. rewrite map_length.
  destruct (Datatypes.length pl <? 6)%nat eqn:E6.
  { replace (N.of_nat (Datatypes.length pl) <? 6) with true by lia. gl_auto2.
    rewrite after_case_break. cbv beta iota. fin_close. }
  replace (N.of_nat (Datatypes.length pl) <? 6) with false by lia.
  destruct pl as [|a0 [|a1 [|a2 [|a3 [|a4 [|a5 tl]]]]]]; try discriminate E6. clear E6.
  apply bytesb_cons' in Hb as [B0 Hb]; apply bytesb_cons' in Hb as [B1 Hb];
  apply bytesb_cons' in Hb as [B2 Hb]; apply bytesb_cons' in Hb as [B3 Hb];
  apply bytesb_cons' in Hb as [B4 Hb].
  cbn [skipn be_word nth]. gl_auto2. len_leb. gl_auto2.
  rewrite (b2u16_pair fe HC). gl_auto2. len_leb. gl_auto2. rewrite (b2u16_pair fe HC). gl_auto2.
  set (addr := a0 * 256 + a1). set (qty := a2 * 256 + a3).
  assert (Haddr : addr < 65536) by (unfold addr; lia).
  assert (Hqty : qty < 65536) by (unfold qty; lia).
  clearbody addr qty.
  destruct (123 <? qty) eqn:Eq1; cbn [orb]; [br_close|].
  destruct (qty =? 0) eqn:Eq0; [br_close|].
  gl_auto2. change (2 ^ 32) with 4294967296.
  replace (65535 <? ((addr mod 4294967296 + qty mod 4294967296) mod 4294967296 + 4294967296 - 1 mod 4294967296) mod 4294967296)
    with (65535 <? addr + qty - 1) by lia.
  destruct (65535 <? addr + qty - 1) eqn:Eov.
  { gl_auto2. rewrite after_case_break. cbv beta iota. fin_exc. }
  gl_auto2. replace (qty <? 2 ^ 63) with true by lia. gl_auto2.
  replace (qty * 2 <? 2 ^ 63) with true by lia. gl_auto2.
  change (2 ^ 8) with 256; unfold u8.
  destruct (a4 =? (qty * 2) mod 256) eqn:Ebc; cbn [negb]; [|br_close].
  gl_auto2; len_leb; gl_auto2; unfold lenN; cbn [Datatypes.length]; rewrite !map_length.
  match goal with |- context [negb (N.of_nat ?x - 5 =? ?e)] => destruct (N.of_nat x - 5 =? e) eqn:El end;
    cbn [negb]; [|br_close].
  gl_auto2; len_leb; gl_auto2.
  rewrite firstn_all2 by (cbn [Datatypes.length]; rewrite map_length; lia).
  change (VL (VN a5 :: map VN tl)) with (vbytes (a5 :: tl)).
  rewrite (b2u16s_call fe HC) by (cbn [Datatypes.length]; lia).
  destruct (bytes_to_u16s_total BigE (a5 :: tl)) as [args [Hargs _]].
  { replace (Datatypes.length (a5 :: tl)) with (2 * N.to_nat qty)%nat by (cbn [Datatypes.length]; lia).
    rewrite Nat.even_mul. reflexivity. }
  rewrite Hargs.
  gl_auto2; unfold vbytes; rewrite (holding_call fe W HW); unfold model_handler.
  match goal with |- context [w_handle ?W' ?w1' ?ca' ?cr' ?r] =>
         pose proof (handle_wf fe W' HW w1' ca' cr' r) as [Hin _];
         destruct (w_handle W' w1' ca' cr' r) as [w' x] eqn:Eh end.
  cbn [snd] in Hin; cbn [r_err]; gl_auto2.
  destruct (N.eq_dec (hr_code x) 0) as [C0|C0]; [|handler_error x Hin C0].
  rewrite C0; gl_auto2.
  rewrite !(u16tb_be fe HC); gl_auto2; rewrite !(u16tb_be fe HC); gl_auto2.
  rewrite after_case_normal; change (norm_herr (herr_of_code 0)) with HNone; cbv beta iota.
  fin_ok.
Qed.

(* ---------------------------------------------------------------- both *)

Lemma srv_iter_write_multi fe fuel W started tt ca cr w rest req :
  world_hyp fe W -> srv_callee_hyp fe -> List.length rest = 18%nat ->
  snd (w_read W w) = RdOk req -> (p_fc req = 15 \/ p_fc req = 16) ->
  srv_iter_spec fe fuel W started tt ca cr w rest req.
Proof.
  intros HW HC Hlen Hrd [Hfc|Hfc].
  - apply srv_iter_write_coils; assumption.
  - apply srv_iter_write_regs; assumption.
Qed.
