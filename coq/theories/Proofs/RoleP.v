(* extractRole (Model/Role.v) against the specification (Spec/RoleSpec.v). *)
From Modbus Require Import Base.Bytes Model.Utf8 Model.Der Model.Role Spec.RoleSpec
  Proofs.Utf8P Proofs.RoleSpecP Proofs.DerP.
From Coq Require Import ZifyBool ZifyNat ZifyN.
Ltac Zify.zify_post_hook ::= Z.div_mod_to_equations.

(* what one role extension value yields: the string, if the value is accepted *)
Definition good_value (v : list N) : option (list N) :=
  if hd 0 v =? 12 then
    match unmarshal_list v with
    | Some (s, []) => Some s
    | _ => None
    end
  else None.

(* the function computed by the loop plus the final blanking *)
Definition spec_result (role : list N) (exts : list cert_ext) : list N :=
  match role_values exts with
  | [] => role
  | [v] => match good_value v with Some s => s | None => [] end
  | _ => []
  end.

Lemma role_values_cons b v more :
  role_values ((b, v) :: more) = if b then v :: role_values more else role_values more.
Proof. unfold role_values. cbn [filter fst]. destruct b; reflexivity. Qed.

(* once found is set, the loop only looks for a second role extension *)
Lemma loop_found exts : forall role,
  role_loop exts role true =
  DOk (role, match role_values exts with [] => false | _ => true end).
Proof.
  induction exts as [|[b v] more IH]; intros role; [reflexivity|].
  cbn [role_loop]. rewrite role_values_cons. destruct b; [reflexivity|apply IH].
Qed.

Lemma loop_fresh exts : forall role, exists p,
  role_loop exts role false = DOk p /\
  (if snd p then [] else fst p) = spec_result role exts.
Proof.
  induction exts as [|[b v] more IH]; intros role.
  { exists (role, false). split; reflexivity. }
  cbn [role_loop]. unfold spec_result. rewrite role_values_cons.
  destruct b; [|apply IH].
  (* first role extension *)
  destruct v as [|b0 [|b1 t]].
  - exists (role, true). split; [reflexivity|]. cbn. destruct (role_values more); reflexivity.
  - exists (role, true). split; [reflexivity|]. unfold good_value. cbn [hd unmarshal_list].
    destruct (b0 =? 12); destruct (role_values more); reflexivity.
  - cbn [length Nat.ltb Nat.leb index_at nth_error]. unfold good_value. cbn [hd].
    destruct (b0 =? 12) eqn:E0; cbn [negb].
    2:{ exists (role, true). split; [reflexivity|]. destruct (role_values more); reflexivity. }
    apply N.eqb_eq in E0. subst b0. rewrite unmarshal_eq.
    destruct (unmarshal_list (12 :: b1 :: t)) as [[s rest]|].
    2:{ exists (role, true). split; [reflexivity|]. destruct (role_values more); reflexivity. }
    destruct rest as [|x rest]; cbn [length Nat.eqb negb].
    2:{ exists (s, true). split; [reflexivity|]. destruct (role_values more); reflexivity. }
    rewrite loop_found. eexists. split; [reflexivity|]. cbn [fst snd].
    destruct (role_values more); reflexivity.
Qed.

Lemma extract_role_run_eq exts : extract_role_run exts = DOk (spec_result [] exts).
Proof.
  unfold extract_role_run. destruct (loop_fresh exts []) as ([r bad] & -> & H).
  cbn [fst snd] in H. rewrite H. reflexivity.
Qed.

Lemma extract_role_eq exts : extract_role exts = spec_result [] exts.
Proof. unfold extract_role. rewrite extract_role_run_eq. reflexivity. Qed.

(* T4 *)
Lemma extract_role_total exts : extract_role_run exts = DOk (extract_role exts).
Proof. rewrite extract_role_eq. apply extract_role_run_eq. Qed.

(* ------------------------------------------------ accepted values *)

Lemma good_value_sound v s : bytesb v = true -> good_value v = Some s ->
  v = der_utf8string s /\ utf8_valid s = true /\ lenN s < 2 ^ 31.
Proof.
  intros Hb. unfold good_value.
  destruct (hd 0 v =? 12) eqn:E0; [|discriminate]. apply N.eqb_eq in E0.
  destruct (unmarshal_list v) as [[s' rest]|] eqn:U; [|discriminate].
  destruct rest; [|discriminate]. intros H. inversion H; subst s'. clear H.
  destruct v as [|b0 [|b1 t]]; try discriminate U. cbn [hd] in E0. subst b0.
  cbn [bytesb forallb] in Hb. apply andb_true_iff in Hb as [_ Hb].
  apply unmarshal_list_sound in U as (E & Hv & Hl); [|exact Hb].
  rewrite app_nil_r in E. unfold der_utf8string. rewrite E. repeat split; assumption.
Qed.

Lemma good_value_der s : lenN s < 2 ^ 31 ->
  good_value (der_utf8string s) = if utf8_valid s then Some s else None.
Proof.
  intros Hl. unfold good_value. change (hd 0 (der_utf8string s)) with 12.
  change (12 =? 12) with true. cbv iota.
  rewrite <- (app_nil_r (der_utf8string s)), unmarshal_list_complete by exact Hl.
  destruct (utf8_valid s); reflexivity.
Qed.

Lemma good_value_trailing s x t : lenN s < 2 ^ 31 -> good_value (der_utf8string s ++ x :: t) = None.
Proof.
  intros Hl. unfold good_value. destruct (hd 0 _ =? 12); [|reflexivity].
  rewrite unmarshal_list_complete by exact Hl. destruct (utf8_valid s); reflexivity.
Qed.

Lemma good_value_tag v : hd 0 v <> 12 -> good_value v = None.
Proof. intros H. unfold good_value. destruct (hd 0 v =? 12) eqn:E; [|reflexivity]. lia. Qed.

Lemma good_value_undecodable v : unmarshal_list v = None -> good_value v = None.
Proof. intros H. unfold good_value. rewrite H. destruct (hd 0 v =? 12); reflexivity. Qed.

(* ------------------------------------------------ the theorems of C15 *)

Lemma role_values_bytes exts v : all_bytes exts = true ->
  In v (role_values exts) -> bytesb v = true.
Proof.
  intros H Hin. unfold role_values in Hin. apply in_map_iff in Hin as (e & <- & He).
  apply filter_In in He as [He _]. unfold all_bytes in H. rewrite forallb_forall in H. apply H, He.
Qed.

(* T1 *)
Lemma role_sound exts r : all_bytes exts = true ->
  extract_role exts = r -> r <> [] ->
  role_values exts = [der_utf8string r] /\ utf8_valid r = true /\ lenN r < 2 ^ 31.
Proof.
  intros Hb E Hr. rewrite extract_role_eq in E. unfold spec_result in E.
  destruct (role_values exts) as [|v [|w l]] eqn:Ev; try congruence.
  destruct (good_value v) as [s|] eqn:G; [|congruence]. subst s.
  apply good_value_sound in G as (-> & Hv & Hl).
  - repeat split; assumption.
  - apply (role_values_bytes exts); [exact Hb|]. rewrite Ev. left. reflexivity.
Qed.

Lemma role_sound_spec exts r : all_bytes exts = true ->
  extract_role exts = r -> r <> [] -> states_role exts r.
Proof.
  intros Hb E Hr. destruct (role_sound exts r Hb E Hr) as (Ev & Hv & _).
  split; [exact Ev|]. apply utf8_valid_iff, Hv.
Qed.

(* T2 *)
Lemma role_complete exts r : role_values exts = [der_utf8string r] ->
  utf8_valid r = true -> lenN r < 2 ^ 31 -> extract_role exts = r.
Proof.
  intros Ev Hv Hl. rewrite extract_role_eq. unfold spec_result. rewrite Ev.
  rewrite good_value_der, Hv by exact Hl. reflexivity.
Qed.

Lemma role_complete_spec exts r : states_role exts r -> lenN r < 2 ^ 31 -> extract_role exts = r.
Proof.
  intros [Ev Hw] Hl. apply role_complete; [exact Ev| |exact Hl]. apply utf8_valid_iff, Hw.
Qed.

(* T3 *)
Lemma role_absent exts : role_values exts = [] -> extract_role exts = [].
Proof. intros Ev. rewrite extract_role_eq. unfold spec_result. rewrite Ev. reflexivity. Qed.

Lemma role_duplicated exts : (2 <= length (role_values exts))%nat -> extract_role exts = [].
Proof.
  intros H. rewrite extract_role_eq. unfold spec_result.
  destruct (role_values exts) as [|v [|w l]]; cbn [length] in H; try lia. reflexivity.
Qed.

Lemma role_bad_value exts v : role_values exts = [v] -> good_value v = None ->
  extract_role exts = [].
Proof.
  intros Ev G. rewrite extract_role_eq. unfold spec_result. rewrite Ev, G. reflexivity.
Qed.

(* anything that is not exactly one well-formed role extension gives "" *)
Lemma role_otherwise exts : all_bytes exts = true ->
  (forall r, role_values exts = [der_utf8string r] -> utf8_valid r = true -> lenN r < 2 ^ 31 -> r = []) ->
  extract_role exts = [].
Proof.
  intros Hb H. destruct (extract_role exts) as [|x r] eqn:E; [reflexivity|].
  destruct (role_sound exts (x :: r) Hb E ltac:(discriminate)) as (Ev & Hv & Hl).
  apply (H _ Ev Hv Hl).
Qed.

Lemma role_other_tag exts v : role_values exts = [v] -> hd 0 v <> 12 -> extract_role exts = [].
Proof. intros Ev H. apply (role_bad_value exts v Ev), good_value_tag, H. Qed.

Lemma role_trailing exts s x t : role_values exts = [der_utf8string s ++ x :: t] ->
  lenN s < 2 ^ 31 -> extract_role exts = [].
Proof. intros Ev H. apply (role_bad_value exts _ Ev), good_value_trailing, H. Qed.

Lemma role_invalid_utf8 exts s : role_values exts = [der_utf8string s] ->
  utf8_valid s = false -> lenN s < 2 ^ 31 -> extract_role exts = [].
Proof.
  intros Ev Hv Hl. apply (role_bad_value exts _ Ev). rewrite good_value_der, Hv by exact Hl.
  reflexivity.
Qed.

(* contents shorter than the announced length *)
Lemma role_truncated exts n s : role_values exts = [12 :: der_len n ++ s] ->
  lenN s < n -> n < 2 ^ 31 -> extract_role exts = [].
Proof.
  intros Ev Hs Hn. apply (role_bad_value exts _ Ev), good_value_undecodable.
  rewrite unmarshal_list_header by exact Hn. apply body_truncated, Hs.
Qed.

(* fewer than two octets *)
Lemma role_too_short exts v : role_values exts = [v] -> (length v < 2)%nat -> extract_role exts = [].
Proof. intros Ev H. apply (role_bad_value exts v Ev), good_value_undecodable, unmarshal_short, H. Qed.

(* malformed lengths: indefinite form *)
Lemma role_indefinite exts b0 t : role_values exts = [b0 :: 0x80 :: t] -> extract_role exts = [].
Proof. intros Ev. apply (role_bad_value exts _ Ev), good_value_undecodable. reflexivity. Qed.

(* long form used for a length below 128 (81 05, 82 00 05 is the next lemma) *)
Lemma role_nonminimal exts b0 b t : role_values exts = [b0 :: 0x81 :: b :: t] -> b < 128 ->
  extract_role exts = [].
Proof.
  intros Ev Hb. apply (role_bad_value exts _ Ev), good_value_undecodable.
  cbn [unmarshal_list]. change (129 / 128 =? 0) with false. change (129 mod 128) with 1.
  change (1 =? 0) with false. change (N.to_nat 1) with 1%nat. cbn [lo_list].
  destruct (2 ^ 23 <=? 0); [reflexivity|]. destruct (0 * 256 + b =? 0); [reflexivity|].
  destruct (0 * 256 + b <? 128) eqn:E; [reflexivity|lia].
Qed.

(* long form whose first length octet is zero *)
Lemma role_leading_zero exts b0 b1 t : role_values exts = [b0 :: b1 :: 0 :: t] -> 128 <= b1 ->
  extract_role exts = [].
Proof.
  intros Ev Hb. apply (role_bad_value exts _ Ev), good_value_undecodable.
  cbn [unmarshal_list]. destruct (b1 / 128 =? 0) eqn:E1; [lia|].
  destruct (b1 mod 128 =? 0) eqn:E2; [reflexivity|].
  destruct (N.to_nat (b1 mod 128)) as [|k] eqn:Ek; [lia|]. rewrite lo_list_zero. reflexivity.
Qed.

(* five or more length octets *)
Lemma role_length_too_long exts b0 b1 t : role_values exts = [b0 :: b1 :: t] -> 0x85 <= b1 < 256 ->
  extract_role exts = [].
Proof.
  intros Ev Hb. apply (role_bad_value exts _ Ev), good_value_undecodable.
  cbn [unmarshal_list]. destruct (b1 / 128 =? 0) eqn:E1; [lia|].
  destruct (b1 mod 128 =? 0) eqn:E2; [reflexivity|].
  destruct (N.to_nat (b1 mod 128)) as [|[|[|[|[|k]]]]] eqn:Ek; try lia.
  rewrite lo_list_5. reflexivity.
Qed.

(* the length octets themselves are cut short *)
Lemma role_truncated_length exts b0 b1 t : role_values exts = [b0 :: b1 :: t] -> 128 <= b1 ->
  (length t < N.to_nat (b1 mod 128))%nat -> extract_role exts = [].
Proof.
  intros Ev Hb Ht. apply (role_bad_value exts _ Ev), good_value_undecodable.
  cbn [unmarshal_list]. destruct (b1 / 128 =? 0) eqn:E1; [lia|].
  destruct (b1 mod 128 =? 0) eqn:E2; [reflexivity|].
  destruct (lo_list t (N.to_nat (b1 mod 128)) 0) as [p|] eqn:L; [|reflexivity].
  exfalso. exact (lo_list_short t _ p Ht 0 L).
Qed.

(* T6 *)
Lemma plain_tcp_role exts : session_role false exts = [].
Proof. reflexivity. Qed.

Lemma tls_role exts : session_role true exts = extract_role exts.
Proof. reflexivity. Qed.

(* the two readings of "exactly one role extension" *)
Lemma role_values_one exts v : role_values exts = [v] <->
  exists pre post, exts = pre ++ (true, v) :: post /\
                   forallb (fun e => negb (fst e)) pre = true /\
                   forallb (fun e => negb (fst e)) post = true.
Proof.
  split.
  - revert v. induction exts as [|[b w] more IH]; intros v H; [discriminate|].
    rewrite role_values_cons in H. destruct b.
    + inversion H as [[Hw Hm]]. exists [], more. repeat split.
      clear - Hm. induction more as [|[b u] more IH]; [reflexivity|].
      rewrite role_values_cons in Hm. destruct b; [discriminate|]. cbn [forallb fst negb andb].
      apply IH, Hm.
    + destruct (IH v H) as (pre & post & -> & Hp & Hq). exists ((false, w) :: pre), post.
      repeat split; [|exact Hq]. cbn [forallb fst negb andb]. exact Hp.
  - intros (pre & post & -> & Hp & Hq).
    assert (Hn : forall l, forallb (fun e : cert_ext => negb (fst e)) l = true -> role_values l = []).
    { induction l as [|[b u] l IH]; intros H; [reflexivity|]. cbn [forallb fst] in H.
      apply andb_true_iff in H as [Hb H]. destruct b; [discriminate|].
      rewrite role_values_cons. apply IH, H. }
    unfold role_values in *. rewrite filter_app, map_app. cbn [filter fst map snd].
    rewrite (Hn pre Hp), (Hn post Hq). reflexivity.
Qed.
