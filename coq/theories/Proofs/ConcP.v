(* Proofs about the lock-discipline model (Model/Conc.v):
   (S)  structured check => every flat path is sequentially well bracketed and
        has every ATx immediately followed by its ARx;
   (G)  well-bracketed threads => mutual exclusion in every reachable
        configuration, every access is made by the holder of the mutex;
   (T1-T3) at most one request outstanding, contiguity, own reply;
   (T4) two accesses by different threads are separated by an Unlock of the
        first and a later Lock of the second thread (release / acquire edge). *)
From Coq Require Import List Bool String Arith Lia.
Import ListNotations.
From Modbus Require Import Model.Conc.

(* ------------------------------------------------------------- flat facts *)

Lemma cc_swb_app h p q :
  cc_swb h (p ++ q) = match cc_swb h p with Some h' => cc_swb h' q | None => None end.
Proof.
  revert h. induction p as [|a p IH]; intros h; cbn [app cc_swb]; [reflexivity|].
  destruct (cc_act_held a h); [apply IH|reflexivity].
Qed.

Lemma cc_txrx_app_len n : forall p q, List.length p <= n ->
  cc_txrx_ok p = true -> cc_txrx_ok q = true -> cc_txrx_ok (p ++ q) = true.
Proof.
  induction n as [|n IH]; intros p q Hl Hp Hq.
  - destruct p; [exact Hq|cbn in Hl; lia].
  - destruct p as [|a p]; [exact Hq|]. cbn [List.length] in Hl.
    destruct a; cbn [app cc_txrx_ok] in *; try (apply IH; [lia|assumption|assumption]);
      try discriminate.
    destruct p as [|b p]; [discriminate|].
    destruct b; try discriminate. cbn [app]. apply IH; [cbn [List.length] in Hl; lia|assumption|assumption].
Qed.

Lemma cc_txrx_app p q :
  cc_txrx_ok p = true -> cc_txrx_ok q = true -> cc_txrx_ok (p ++ q) = true.
Proof. apply (cc_txrx_app_len (List.length p)). lia. Qed.

Lemma cc_exit_swb cm : cm_deferred cm = true -> cc_swb true (cc_exit cm) = Some false.
Proof. unfold cc_exit. intros ->. reflexivity. Qed.

Lemma cc_exit_nil cm : cm_deferred cm = false -> cc_exit cm = [].
Proof. unfold cc_exit. intros ->. reflexivity. Qed.

Lemma cc_exit_txrx cm : cc_txrx_ok (cc_exit cm) = true.
Proof. unfold cc_exit. destruct (cm_deferred cm); reflexivity. Qed.

Lemma cc_concat_flat_wb ps : Forall cc_flat_wb ps -> cc_flat_wb (List.concat ps).
Proof.
  induction 1 as [|p ps Hp _ IH]; [reflexivity|].
  unfold cc_flat_wb in *. cbn [List.concat]. rewrite cc_swb_app, Hp. exact IH.
Qed.

Lemma cc_concat_txrx ps :
  Forall (fun p => cc_txrx_ok p = true) ps -> cc_txrx_ok (List.concat ps) = true.
Proof.
  induction 1 as [|p ps Hp _ IH]; [reflexivity|]. cbn [List.concat]. apply cc_txrx_app; assumption.
Qed.

(* --------------------------------------------------- combinators of cc_wbs *)

Lemma cc_alt_spec f h : forall bs acc r, cc_alt_wbs f h acc bs = Some r ->
  (acc = None \/ acc = r) /\
  forall b, In b bs -> exists rb, f h b = Some rb /\ (rb = None \/ rb = r).
Proof.
  induction bs as [|b t IH]; intros acc r H; cbn [cc_alt_wbs] in H.
  - inversion H. subst. split; [right; reflexivity|intros b []].
  - destruct (f h b) as [rb|] eqn:Eb; [|discriminate].
    destruct (cc_merge acc rb) as [acc'|] eqn:Em; [|discriminate].
    destruct (IH _ _ H) as [Hacc Hall].
    assert (Hm : (acc = None \/ acc = acc') /\ (rb = None \/ rb = acc')).
    { unfold cc_merge in Em. destruct acc as [h1|], rb as [h2|].
      - destruct (Bool.eqb h1 h2) eqn:E; [|discriminate]. apply eqb_prop in E. subst.
        inversion Em. split; right; reflexivity.
      - inversion Em. split; [right|left]; reflexivity.
      - inversion Em. split; [left|right]; reflexivity.
      - inversion Em. split; left; reflexivity. }
    destruct Hm as [Ha Hb].
    assert (Hprop : forall x : option bool, (x = None \/ x = acc') -> (x = None \/ x = r)).
    { intros x [-> | ->]; [left; reflexivity|exact Hacc]. }
    split; [apply Hprop, Ha|].
    intros b' [<- | Hin].
    + exists rb. split; [exact Eb|apply Hprop, Hb].
    + apply Hall, Hin.
Qed.

(* ------------------------------------------------ (S) structured => flat *)

Section Structured.
  Variable tb : ctable.

  (* what a sound call handler guarantees *)
  Definition cc_callk_ok (callk : bool -> string -> option bool) : Prop :=
    forall h m h', callk h m = Some h' ->
      h' = h /\
      forall cm p o, cc_find tb m = Some cm -> cc_path tb (cm_body cm) p o ->
        cc_swb h (p ++ cc_exit cm) = Some h /\ cc_txrx_ok (p ++ cc_exit cm) = true.

  Definition cc_out_ok (rh : bool) (bh lh : option bool) (h : bool) (r : option bool)
             (p : list cact) (o : pout) : Prop :=
    match o with
    | PFall => exists h', r = Some h' /\ cc_swb h p = Some h'
    | PRet => cc_swb h p = Some rh
    | PBrk => exists h', bh = Some h' /\ cc_swb h p = Some h'
    | PCont => exists h', lh = Some h' /\ cc_swb h p = Some h'
    end.

  Lemma cc_leaf_ok a p h r callk rh bh lh :
    cc_leaf a = Some p -> cc_wbs callk rh bh lh h (SAct a) = Some r ->
    cc_txrx_ok p = true /\ exists h', r = Some h' /\ cc_swb h p = Some h'.
  Proof.
    intros Hl Hw. destruct a; cbn in Hl; inversion Hl; subst; cbn in Hw;
      try discriminate;
      try (destruct h; cbn in Hw; inversion Hw; subst; split; [reflexivity|eexists; split; reflexivity]).
  Qed.

  Lemma cc_wbs_paths callk : cc_callk_ok callk ->
    forall sp p o, cc_path tb sp p o ->
    forall rh bh lh h r, cc_wbs callk rh bh lh h sp = Some r ->
      cc_txrx_ok p = true /\ cc_out_ok rh bh lh h r p o.
  Proof.
    intros Hk sp p o Hp.
    induction Hp as
      [a p Hl| | | |m cm p o Hf Hb _| |s l p1 p2 o H1 IH1 H2 IH2|s l p1 o H1 IH1 Hne
       |bs b p o Hin Hb IH|bs b p o Hin Hb IH Hne|bs b p Hin Hb IH
       |b|b p1 p2 o o1 H1 IH1 Hoo H2 IH2|b p1 H1 IH1|b p1 H1 IH1];
      intros rh bh lh h r Hw.
    - (* leaf *) destruct (cc_leaf_ok _ _ _ _ _ _ _ _ Hl Hw) as [Ht Hs]. split; assumption.
    - (* ret *) cbn in Hw. destruct (Bool.eqb h rh) eqn:E; [|discriminate].
      apply eqb_prop in E. subst. split; reflexivity.
    - (* brk *) cbn in Hw. destruct bh as [h0|]; [|discriminate].
      destruct (Bool.eqb h h0) eqn:E; [|discriminate]. apply eqb_prop in E. subst.
      split; [reflexivity|]. exists h0. split; reflexivity.
    - (* cont *) cbn in Hw. destruct lh as [h0|]; [|discriminate].
      destruct (Bool.eqb h h0) eqn:E; [|discriminate]. apply eqb_prop in E. subst.
      split; [reflexivity|]. exists h0. split; reflexivity.
    - (* call *) cbn in Hw. destruct (callk h m) as [h'|] eqn:Ec; [|discriminate].
      inversion Hw; subst. destruct (Hk _ _ _ Ec) as [-> Hall].
      destruct (Hall _ _ _ Hf Hb) as [Hs Ht]. split; [exact Ht|].
      exists h. split; [reflexivity|exact Hs].
    - (* seq nil *) cbn in Hw. inversion Hw. split; [reflexivity|]. exists h. split; reflexivity.
    - (* seq fall *) cbn [cc_wbs cc_seq_wbs] in Hw.
      destruct (cc_wbs callk rh bh lh h s) as [rs|] eqn:Es; [|discriminate].
      destruct (IH1 _ _ _ _ _ Es) as [Ht1 (h1 & -> & Hs1)].
      change (cc_wbs callk rh bh lh h1 (SSeq l) = Some r) in Hw.
      destruct (IH2 _ _ _ _ _ Hw) as [Ht2 Ho2].
      split; [apply cc_txrx_app; assumption|].
      destruct o; cbn [cc_out_ok] in *.
      + destruct Ho2 as (h' & -> & Hs2). exists h'. split; [reflexivity|]. rewrite cc_swb_app, Hs1. exact Hs2.
      + rewrite cc_swb_app, Hs1. exact Ho2.
      + destruct Ho2 as (h' & -> & Hs2). exists h'. split; [reflexivity|]. rewrite cc_swb_app, Hs1. exact Hs2.
      + destruct Ho2 as (h' & -> & Hs2). exists h'. split; [reflexivity|]. rewrite cc_swb_app, Hs1. exact Hs2.
    - (* seq stop *) cbn [cc_wbs cc_seq_wbs] in Hw.
      destruct (cc_wbs callk rh bh lh h s) as [rs|] eqn:Es; [|discriminate].
      destruct (IH1 _ _ _ _ _ Es) as [Ht1 Ho1]. split; [exact Ht1|].
      destruct o; cbn [cc_out_ok] in *; [congruence|assumption|assumption|assumption].
    - (* if *) cbn [cc_wbs] in Hw. destruct (cc_alt_spec _ _ _ _ _ Hw) as [_ Hall].
      destruct (Hall _ Hin) as (rb & Eb & Hrb). destruct (IH _ _ _ _ _ Eb) as [Ht Ho].
      split; [exact Ht|]. destruct o; cbn [cc_out_ok] in *; try assumption.
      destruct Ho as (h' & -> & Hs). destruct Hrb as [Hrb|Hrb]; [discriminate|]. subst.
      exists h'. split; [reflexivity|exact Hs].
    - (* switch, no break *) cbn [cc_wbs] in Hw. destruct (cc_alt_spec _ _ _ _ _ Hw) as [_ Hall].
      destruct (Hall _ Hin) as (rb & Eb & Hrb). destruct (IH _ _ _ _ _ Eb) as [Ht Ho].
      split; [exact Ht|]. destruct o; cbn [cc_out_ok] in *; try assumption; [|congruence].
      destruct Ho as (h' & -> & Hs). destruct Hrb as [Hrb|Hrb]; [discriminate|]. subst.
      exists h'. split; [reflexivity|exact Hs].
    - (* switch, break *) cbn [cc_wbs] in Hw. destruct (cc_alt_spec _ _ _ _ _ Hw) as [Hacc Hall].
      destruct (Hall _ Hin) as (rb & Eb & _). destruct (IH _ _ _ _ _ Eb) as [Ht Ho].
      split; [exact Ht|]. cbn [cc_out_ok] in *. destruct Ho as (h' & Hh & Hs). inversion Hh; subst.
      destruct Hacc as [Hacc|Hacc]; [discriminate|]. subst. exists h'. split; [reflexivity|exact Hs].
    - (* loop exit *) cbn [cc_wbs] in Hw. split; [reflexivity|]. cbn [cc_out_ok cc_swb].
      exists h. split; [|reflexivity].
      destruct (cc_wbs callk rh (Some h) (Some h) h b) as [[h'|]|]; try discriminate.
      + destruct (Bool.eqb h' h); [inversion Hw; reflexivity|discriminate].
      + inversion Hw; reflexivity.
    - (* loop iteration *)
      assert (Hb : exists rb, cc_wbs callk rh (Some h) (Some h) h b = Some rb /\ (rb = None \/ rb = Some h) /\ r = Some h).
      { cbn [cc_wbs] in Hw. destruct (cc_wbs callk rh (Some h) (Some h) h b) as [[h'|]|]; try discriminate.
        - destruct (Bool.eqb h' h) eqn:E; [|discriminate]. apply eqb_prop in E. subst.
          inversion Hw. eexists. split; [reflexivity|]. split; [right|]; reflexivity.
        - inversion Hw. eexists. split; [reflexivity|]. split; [left|]; reflexivity. }
      destruct Hb as (rb & Eb & Hrb & ->).
      destruct (IH1 _ _ _ _ _ Eb) as [Ht1 Ho1].
      assert (Hs1 : cc_swb h p1 = Some h).
      { destruct Hoo as [->| ->]; cbn [cc_out_ok] in Ho1.
        - destruct Ho1 as (h' & -> & Hs). destruct Hrb as [Hrb|Hrb]; [discriminate|].
          inversion Hrb; subst. exact Hs.
        - destruct Ho1 as (h' & Hh & Hs). inversion Hh; subst. exact Hs. }
      destruct (IH2 _ _ _ _ _ Hw) as [Ht2 Ho2].
      split; [apply cc_txrx_app; assumption|].
      destruct o; cbn [cc_out_ok] in *.
      + destruct Ho2 as (h' & Hr & Hs2). exists h'. split; [exact Hr|]. rewrite cc_swb_app, Hs1. exact Hs2.
      + rewrite cc_swb_app, Hs1. exact Ho2.
      + destruct Ho2 as (h' & Hr & Hs2). exists h'. split; [exact Hr|]. rewrite cc_swb_app, Hs1. exact Hs2.
      + destruct Ho2 as (h' & Hr & Hs2). exists h'. split; [exact Hr|]. rewrite cc_swb_app, Hs1. exact Hs2.
    - (* loop left by break *)
      cbn [cc_wbs] in Hw.
      destruct (cc_wbs callk rh (Some h) (Some h) h b) as [rb|] eqn:Eb; [|discriminate].
      destruct (IH1 _ _ _ _ _ Eb) as [Ht1 Ho1]. split; [exact Ht1|].
      cbn [cc_out_ok] in *. destruct Ho1 as (h' & Hh & Hs). inversion Hh; subst.
      exists h'. split; [|exact Hs].
      destruct rb as [h''|]; [destruct (Bool.eqb h'' h')|]; inversion Hw; reflexivity.
    - (* loop left by return *)
      cbn [cc_wbs] in Hw.
      destruct (cc_wbs callk rh (Some h) (Some h) h b) as [rb|] eqn:Eb; [|discriminate].
      destruct (IH1 _ _ _ _ _ Eb) as [Ht1 Ho1]. split; [exact Ht1|exact Ho1].
  Qed.
End Structured.

(* the fuel-indexed call handler is sound, for every fuel *)
Lemma cc_wb_call_ok tb : forall n, cc_callk_ok tb (cc_wb_call tb n).
Proof.
  induction n as [|n IH]; intros h m h' Hc; cbn [cc_wb_call] in Hc; [discriminate|].
  destruct (cc_find tb m) as [cm|] eqn:Ef; [|discriminate].
  unfold cc_wb_method in Hc.
  destruct (cm_deferred cm && h) eqn:Edh; [discriminate|].
  set (rh := if cm_deferred cm then true else h) in *.
  destruct (cc_wbs (cc_wb_call tb n) rh None None h (cm_body cm)) as [r|] eqn:Ew; [|discriminate].
  assert (Hr : h' = h /\ (r = None \/ r = Some rh)).
  { destruct r as [h''|].
    - destruct (Bool.eqb h'' rh) eqn:E; [|discriminate]. apply eqb_prop in E. subst h''.
      inversion Hc. split; [reflexivity|right; reflexivity].
    - inversion Hc. split; [reflexivity|left; reflexivity]. }
  destruct Hr as [-> Hr]. split; [reflexivity|].
  intros cm' p o Hf Hp. assert (Ecm : cm' = cm) by congruence. subst cm'.
  destruct (cc_wbs_paths tb _ IH _ _ _ Hp _ _ _ _ _ Ew) as [Ht Ho].
  assert (Hs : cc_swb h p = Some rh).
  { destruct o; cbn [cc_out_ok] in Ho.
    - destruct Ho as (h'' & -> & Hs). destruct Hr as [Hr|Hr]; [discriminate|]. inversion Hr; subst. exact Hs.
    - exact Ho.
    - destruct Ho as (h'' & Hh & _). discriminate.
    - destruct Ho as (h'' & Hh & _). discriminate. }
  split.
  - rewrite cc_swb_app, Hs. subst rh. destruct (cm_deferred cm) eqn:Ed.
    + rewrite (cc_exit_swb _ Ed). cbn [andb] in Edh. subst h. reflexivity.
    + rewrite (cc_exit_nil _ Ed). reflexivity.
  - apply cc_txrx_app; [exact Ht|apply cc_exit_txrx].
Qed.

(* (S) for a public call and for a goroutine making a list of public calls *)
Lemma cc_entry_flat_wb tb fuel m p :
  cc_wb_entry tb fuel m = true -> cc_entry_path tb m p ->
  cc_flat_wb p /\ cc_txrx_ok p = true.
Proof.
  unfold cc_wb_entry, cc_entry_path. intros Hw Hp.
  destruct (cc_wb_call tb fuel false m) as [[|]|] eqn:Ec; try discriminate.
  inversion Hp as [a q Hl| | | |m' cm q o Hf Hb| | | | | | | | | |]; subst; [cbn in Hl; discriminate|].
  destruct (cc_wb_call_ok tb fuel _ _ _ Ec) as [_ Hall].
  destruct (Hall _ _ _ Hf Hb) as [Hs Ht]. split; [exact Hs|exact Ht].
Qed.

Lemma cc_thread_flat_wb tb fuel entries ms p :
  forallb (cc_wb_entry tb fuel) entries = true ->
  (forall m, In m ms -> In m entries) ->
  cc_thread_path tb ms p -> cc_flat_wb p /\ cc_txrx_ok p = true.
Proof.
  intros Hall Hin (ps & HF & ->).
  assert (H : Forall (fun q => cc_flat_wb q /\ cc_txrx_ok q = true) ps).
  { induction HF as [|m q ms' ps' Hq _ IH]; [constructor|]. constructor.
    - apply (cc_entry_flat_wb tb fuel m); [|exact Hq].
      rewrite forallb_forall in Hall. apply Hall, Hin. left. reflexivity.
    - apply IH. intros m' Hm'. apply Hin. right. exact Hm'. }
  split.
  - apply cc_concat_flat_wb. eapply Forall_impl; [|exact H]. intros q [Hq _]. exact Hq.
  - apply cc_concat_txrx. eapply Forall_impl; [|exact H]. intros q [_ Hq]. exact Hq.
Qed.

(* ------------------------------------------- the executable witness is a path *)

Section SprogInd.
  Variable P : sprog -> Prop.
  Hypothesis Hact : forall a, P (SAct a).
  Hypothesis Hseq : forall l, Forall P l -> P (SSeq l).
  Hypothesis Hif : forall l, Forall P l -> P (SIf l).
  Hypothesis Hsw : forall l, Forall P l -> P (SSwitch l).
  Hypothesis Hloop : forall b, P b -> P (SLoop b).
  Fixpoint sprog_ind2 (s : sprog) : P s :=
    let fix go (l : list sprog) : Forall P l :=
      match l with
      | [] => Forall_nil P
      | x :: t => Forall_cons x (sprog_ind2 x) (go t)
      end in
    match s with
    | SAct a => Hact a
    | SSeq l => Hseq l (go l)
    | SIf l => Hif l (go l)
    | SSwitch l => Hsw l (go l)
    | SLoop b => Hloop b (sprog_ind2 b)
    end.
End SprogInd.

Lemma cc_fp_pick_in f : forall bs b r, cc_fp_pick f bs = Some (b, r) -> In b bs /\ f b = Some r.
Proof.
  induction bs as [|x t IH]; intros b r H; cbn [cc_fp_pick] in H; [discriminate|].
  destruct (f x) as [[p o]|] eqn:Ex.
  - destruct o.
    + inversion H; subst. split; [left; reflexivity|exact Ex].
    + destruct (cc_fp_pick f t) as [[b' r']|] eqn:Et.
      * inversion H; subst. destruct (IH _ _ eq_refl) as [Hi Hf]. split; [right; exact Hi|exact Hf].
      * inversion H; subst. split; [left; reflexivity|exact Ex].
    + destruct (cc_fp_pick f t) as [[b' r']|] eqn:Et.
      * inversion H; subst. destruct (IH _ _ eq_refl) as [Hi Hf]. split; [right; exact Hi|exact Hf].
      * inversion H; subst. split; [left; reflexivity|exact Ex].
    + destruct (cc_fp_pick f t) as [[b' r']|] eqn:Et.
      * inversion H; subst. destruct (IH _ _ eq_refl) as [Hi Hf]. split; [right; exact Hi|exact Hf].
      * inversion H; subst. split; [left; reflexivity|exact Ex].
  - destruct (IH _ _ H) as [Hi Hf]. split; [right; exact Hi|exact Hf].
Qed.

Lemma cc_fp_gen_path tb callk :
  (forall m p, callk m = Some p -> cc_path tb (SAct (ACall m)) p PFall) ->
  forall sp p o, cc_fp_gen callk sp = Some (p, o) -> cc_path tb sp p o.
Proof.
  intros Hk. induction sp as [a|l IH|l IH|l IH|b IH] using sprog_ind2; intros p o H.
  - destruct a; cbn in H; inversion H; subst;
      try (apply cp_leaf; reflexivity); try constructor.
    destruct (callk m) as [q|] eqn:Ec; [|discriminate]. inversion H; subst. apply Hk, Ec.
  - cbn [cc_fp_gen] in H. revert p o H. induction IH as [|s t Hs _ IHt]; intros p o H; cbn [cc_fp_seq] in H.
    + inversion H. constructor.
    + destruct (cc_fp_gen callk s) as [[p1 o1]|] eqn:Es; [|discriminate].
      destruct o1.
      * destruct (cc_fp_seq (cc_fp_gen callk) t) as [[p2 o2]|] eqn:Et; [|discriminate].
        inversion H; subst. apply cp_seq_fall; [apply Hs; reflexivity|apply IHt; reflexivity].
      * inversion H; subst. apply cp_seq_stop; [apply Hs; reflexivity|discriminate].
      * inversion H; subst. apply cp_seq_stop; [apply Hs; reflexivity|discriminate].
      * inversion H; subst. apply cp_seq_stop; [apply Hs; reflexivity|discriminate].
  - cbn [cc_fp_gen] in H. destruct (cc_fp_pick (cc_fp_gen callk) l) as [[b r]|] eqn:Ep; [|discriminate].
    inversion H; subst. destruct (cc_fp_pick_in _ _ _ _ Ep) as [Hi Hf].
    rewrite Forall_forall in IH. apply cp_if with b; [exact Hi|apply IH; assumption].
  - cbn [cc_fp_gen] in H. destruct (cc_fp_pick (cc_fp_gen callk) l) as [[b [q oq]]|] eqn:Ep; [|discriminate].
    destruct (cc_fp_pick_in _ _ _ _ Ep) as [Hi Hf]. rewrite Forall_forall in IH.
    destruct oq; inversion H; subst.
    + apply cp_switch with b; [exact Hi|apply IH; assumption|discriminate].
    + apply cp_switch with b; [exact Hi|apply IH; assumption|discriminate].
    + apply cp_switch_brk with b; [exact Hi|apply IH; assumption].
    + apply cp_switch with b; [exact Hi|apply IH; assumption|discriminate].
  - cbn [cc_fp_gen] in H. inversion H. constructor.
Qed.

Lemma cc_fp_call_path tb : forall n m p, cc_fp_call tb n m = Some p -> cc_entry_path tb m p.
Proof.
  induction n as [|n IH]; intros m p H; cbn [cc_fp_call] in H; [discriminate|].
  destruct (cc_find tb m) as [cm|] eqn:Ef; [|discriminate].
  destruct (cc_fp_gen (cc_fp_call tb n) (cm_body cm)) as [[q o]|] eqn:Eg; [|discriminate].
  inversion H; subst. unfold cc_entry_path. eapply cp_call; [exact Ef|].
  eapply cc_fp_gen_path; [|exact Eg]. exact IH.
Qed.

Lemma cc_fp_thread_path tb n : forall ms p, cc_fp_thread tb n ms = Some p -> cc_thread_path tb ms p.
Proof.
  induction ms as [|m t IH]; intros p H; cbn [cc_fp_thread] in H.
  - inversion H. exists []. split; [constructor|reflexivity].
  - destruct (cc_fp_call tb n m) as [q|] eqn:Ec; [|discriminate].
    destruct (cc_fp_thread tb n t) as [q2|] eqn:Et; [|discriminate].
    inversion H; subst. destruct (IH _ eq_refl) as (ps & HF & ->).
    exists (q :: ps). split; [constructor; [apply cc_fp_call_path with n, Ec|exact HF]|reflexivity].
Qed.

(* ------------------------------------------------------------ interleavings *)

Lemma cc_act_eqb_eq a b : cc_act_eqb a b = true -> a = b.
Proof.
  destruct a, b; cbn; intros H; try discriminate; try reflexivity;
    apply String.eqb_eq in H; subst; reflexivity.
Qed.

Lemma cc_nth_upd_same : forall c i th x, nth_error c i = Some x -> nth_error (cc_upd c i th) i = Some th.
Proof.
  induction c as [|y t IH]; intros [|i] th x H; cbn in *; try discriminate; [reflexivity|].
  eapply IH, H.
Qed.

Lemma cc_nth_upd_other : forall c i j th, i <> j -> nth_error (cc_upd c i th) j = nth_error c j.
Proof.
  induction c as [|y t IH]; intros [|i] [|j] th H; cbn; try reflexivity; [congruence|].
  apply IH. congruence.
Qed.

Lemma cc_free_holds c j : cc_free c = true -> cc_holds c j = false.
Proof.
  unfold cc_free, cc_holds. intros H. apply negb_true_iff in H.
  destruct (nth_error c j) as [t|] eqn:E; [|reflexivity].
  destruct (ct_holds t) eqn:Eh; [|reflexivity].
  assert (existsb ct_holds c = true); [|congruence].
  apply existsb_exists. exists t. split; [eapply nth_error_In, E|exact Eh].
Qed.

(* inversion of one step *)
Lemma cc_stepf_inv c i a c' : cc_stepf c (i, a) = Some c' ->
  exists th r, nth_error c i = Some th /\ ct_rem th = a :: r /\
    (a = ALock -> cc_free c = true) /\
    c' = cc_upd c i (mk_cthread r (cc_holds_after a (ct_holds th))).
Proof.
  unfold cc_stepf. destruct (nth_error c i) as [th|] eqn:En; [|discriminate].
  destruct (ct_rem th) as [|b r] eqn:Er; [discriminate|].
  destruct (cc_act_eqb a b) eqn:Ea; [|discriminate]. apply cc_act_eqb_eq in Ea. subst b.
  cbn [andb]. intros H. exists th, r. split; [reflexivity|]. split; [exact Er|].
  destruct a; try (inversion H; split; [intros; discriminate|reflexivity]).
  destruct (cc_free c); [|discriminate]. inversion H. split; reflexivity.
Qed.

(* the held flag of every thread after a step *)
Lemma cc_step_holds c k b c' j : cc_stepf c (k, b) = Some c' ->
  cc_holds c' j = if Nat.eqb j k then cc_holds_after b (cc_holds c j) else cc_holds c j.
Proof.
  intros H. destruct (cc_stepf_inv _ _ _ _ H) as (th & r & En & _ & _ & ->).
  unfold cc_holds. destruct (Nat.eqb j k) eqn:E.
  - apply Nat.eqb_eq in E. subst j. rewrite (cc_nth_upd_same _ _ _ _ En), En. reflexivity.
  - apply Nat.eqb_neq in E. rewrite cc_nth_upd_other by congruence. reflexivity.
Qed.

Lemma cc_run_app c e1 : forall e2 c', cc_run c (e1 ++ e2) = Some c' <->
  exists cm, cc_run c e1 = Some cm /\ cc_run cm e2 = Some c'.
Proof.
  revert c. induction e1 as [|e t IH]; intros c e2 c'; cbn [app cc_run].
  - split; [intros H; exists c; split; [reflexivity|exact H]|intros (cm & H1 & H2); inversion H1; subst; exact H2].
  - destruct (cc_stepf c e) as [c1|]; [apply IH|].
    split; [discriminate|intros (cm & H1 & _); discriminate].
Qed.

(* every thread's remaining sequence is well bracketed from its current flag *)
Definition cc_thread_ok (th : cthread) : Prop := cc_swb (ct_holds th) (ct_rem th) = Some false.

Definition cc_inv1 (c : cconfig) : Prop :=
  (forall i th, nth_error c i = Some th -> cc_thread_ok th) /\ cc_mutex c.

Lemma cc_thread_ok_step th a r : cc_thread_ok th -> ct_rem th = a :: r ->
  cc_act_held a (ct_holds th) = Some (cc_holds_after a (ct_holds th)) /\
  cc_swb (cc_holds_after a (ct_holds th)) r = Some false.
Proof.
  unfold cc_thread_ok. intros H Er. rewrite Er in H. cbn [cc_swb] in H.
  destruct (cc_act_held a (ct_holds th)) as [h'|] eqn:Ea; [|discriminate].
  assert (h' = cc_holds_after a (ct_holds th)).
  { destruct a; cbn in Ea |- *; destruct (ct_holds th); inversion Ea; reflexivity. }
  subst h'. split; [reflexivity|exact H].
Qed.

(* an action other than Lock and a wait can only be performed by the holder *)
Lemma cc_thread_ok_holder th a r : cc_thread_ok th -> ct_rem th = a :: r ->
  a <> ALock -> (forall w, a <> AWait w) -> ct_holds th = true.
Proof.
  intros H Er Hne Hnw. destruct (cc_thread_ok_step _ _ _ H Er) as [Ha _].
  destruct a; cbn in Ha; destruct (ct_holds th); try discriminate; try reflexivity; try congruence.
Qed.

(* a wait is never the next action of the thread that holds the mutex *)
Lemma cc_thread_ok_wait th w r : cc_thread_ok th -> ct_rem th = AWait w :: r -> ct_holds th = false.
Proof.
  intros H Er. destruct (cc_thread_ok_step _ _ _ H Er) as [Ha _].
  cbn in Ha. destruct (ct_holds th); [discriminate|reflexivity].
Qed.

Lemma cc_inv1_step c e c' : cc_inv1 c -> cc_stepf c e = Some c' -> cc_inv1 c'.
Proof.
  intros [Hok Hmx] H. destruct e as [k b].
  destruct (cc_stepf_inv _ _ _ _ H) as (th & r & En & Er & Hfree & Ec). split.
  - intros i t Hi. subst c'. destruct (Nat.eq_dec k i) as [->|Hne].
    + rewrite (cc_nth_upd_same _ _ _ _ En) in Hi. inversion Hi; subst t.
      unfold cc_thread_ok. cbn [ct_holds ct_rem].
      apply (cc_thread_ok_step th b r); [apply (Hok _ _ En)|exact Er].
    + rewrite cc_nth_upd_other in Hi by exact Hne. apply (Hok _ _ Hi).
  - intros i j Hi Hj. rewrite (cc_step_holds _ _ _ _ i H) in Hi. rewrite (cc_step_holds _ _ _ _ j H) in Hj.
    destruct (Nat.eqb i k) eqn:Eik, (Nat.eqb j k) eqn:Ejk.
    + apply Nat.eqb_eq in Eik, Ejk. congruence.
    + apply Nat.eqb_eq in Eik. subst i. destruct b; cbn [cc_holds_after] in Hi;
        try (apply Hmx; assumption); try discriminate.
      rewrite (cc_free_holds _ j (Hfree eq_refl)) in Hj. discriminate.
    + apply Nat.eqb_eq in Ejk. subst j. destruct b; cbn [cc_holds_after] in Hj;
        try (apply Hmx; assumption); try discriminate.
      rewrite (cc_free_holds _ i (Hfree eq_refl)) in Hi. discriminate.
    + apply Hmx; assumption.
Qed.

Lemma cc_inv1_run evs : forall c c', cc_inv1 c -> cc_run c evs = Some c' -> cc_inv1 c'.
Proof.
  induction evs as [|e t IH]; intros c c' Hi H; cbn [cc_run] in H.
  - inversion H; subst; exact Hi.
  - destruct (cc_stepf c e) as [c1|] eqn:Es; [|discriminate].
    eapply IH; [eapply cc_inv1_step; eassumption|exact H].
Qed.

(* the initial configuration of well-bracketed threads *)
Definition cc_good (ps : list (list cact)) : Prop :=
  Forall (fun p => cc_flat_wb p /\ cc_txrx_ok p = true) ps.

Lemma cc_init_nth ps i th : nth_error (cc_init ps) i = Some th ->
  exists p, nth_error ps i = Some p /\ th = mk_cthread p false.
Proof.
  unfold cc_init. intros H. rewrite nth_error_map in H.
  destruct (nth_error ps i) as [p|]; [|discriminate]. inversion H. exists p. split; reflexivity.
Qed.

Lemma cc_init_holds ps i : cc_holds (cc_init ps) i = false.
Proof.
  unfold cc_holds. destruct (nth_error (cc_init ps) i) as [th|] eqn:E; [|reflexivity].
  destruct (cc_init_nth _ _ _ E) as (p & _ & ->). reflexivity.
Qed.

Lemma cc_inv1_init ps : cc_good ps -> cc_inv1 (cc_init ps).
Proof.
  intros Hg. split.
  - intros i th Hi. destruct (cc_init_nth _ _ _ Hi) as (p & Hp & ->).
    unfold cc_good in Hg. rewrite Forall_forall in Hg.
    destruct (Hg p (nth_error_In _ _ Hp)) as [Hw _]. exact Hw.
  - intros i j Hi _. rewrite cc_init_holds in Hi. discriminate.
Qed.

(* (G) mutual exclusion and accesses made by the holder only *)
Lemma cc_reach_mutex ps evs c : cc_good ps -> cc_exec (cc_init ps) evs c -> cc_mutex c.
Proof. intros Hg H. exact (proj2 (cc_inv1_run _ _ _ (cc_inv1_init _ Hg) H)). Qed.

Lemma cc_access_by_holder ps e1 i a e2 c : cc_good ps ->
  cc_exec (cc_init ps) (e1 ++ (i, a) :: e2) c -> a <> ALock -> (forall w, a <> AWait w) ->
  exists c1, cc_exec (cc_init ps) e1 c1 /\ cc_holds c1 i = true /\
             forall j, cc_holds c1 j = true -> j = i.
Proof.
  intros Hg H Hne Hnw. apply cc_run_app in H. destruct H as (c1 & H1 & H2).
  exists c1. split; [exact H1|].
  pose proof (cc_inv1_run _ _ _ (cc_inv1_init _ Hg) H1) as [Hok Hmx].
  cbn [cc_run] in H2. destruct (cc_stepf c1 (i, a)) as [c2|] eqn:Es; [|discriminate].
  destruct (cc_stepf_inv _ _ _ _ Es) as (th & r & En & Er & _ & _).
  assert (Hh : cc_holds c1 i = true).
  { unfold cc_holds. rewrite En. eapply cc_thread_ok_holder; [apply (Hok _ _ En)|exact Er|exact Hne|exact Hnw]. }
  split; [exact Hh|]. intros j Hj. apply Hmx; assumption.
Qed.

(* ------------------------------------------ (T1-T3) one exchange at a time *)

Definition cc_olist (o : option nat) : list nat := match o with Some i => [i] | None => [] end.

(* o = the thread whose request is outstanding (sent, reply not yet read) *)
Definition cc_inv2 (c : cconfig) (o : option nat) : Prop :=
  (forall j t, nth_error c j = Some t -> o <> Some j -> cc_txrx_ok (ct_rem t) = true) /\
  (forall j, o = Some j -> exists t r, nth_error c j = Some t /\ ct_rem t = ARx :: r /\
                                      cc_txrx_ok r = true /\ ct_holds t = true).

Lemma cc_inv2_init ps : cc_good ps -> cc_inv2 (cc_init ps) None.
Proof.
  intros Hg. split; [|intros j; discriminate].
  intros j t Hj _. destruct (cc_init_nth _ _ _ Hj) as (p & Hp & ->).
  unfold cc_good in Hg. rewrite Forall_forall in Hg.
  destruct (Hg p (nth_error_In _ _ Hp)) as [_ Ht]. exact Ht.
Qed.

Lemma cc_txrx_tail a r : cc_txrx_ok (a :: r) = true -> a <> ATx -> a <> ARx /\ cc_txrx_ok r = true.
Proof. destruct a; cbn; intros H Hne; try discriminate; try (split; [discriminate|exact H]). congruence. Qed.

Lemma cc_inv2_step c o i a c' : cc_inv1 c -> cc_inv2 c o -> cc_stepf c (i, a) = Some c' ->
  (forall k, o = Some k -> (i = k /\ a = ARx) \/ (i <> k /\ exists w, a = AWait w)) /\
  exists o', cc_inv2 c' o' /\
    cc_olist o ++ cc_txs [(i, a)] = cc_rxs [(i, a)] ++ cc_olist o' /\
    (a = ATx -> o' = Some i) /\
    (forall k, o' = Some k -> cc_holds c' k = true).
Proof.
  intros [Hok Hmx] [Hrest Hout] H.
  destruct (cc_stepf_inv _ _ _ _ H) as (th & r & En & Er & Hfree & Ec).
  destruct o as [k|].
  - (* a request of thread k is outstanding: k reads its reply; another thread can
       only wait for a peer (it cannot take the mutex, and every other action needs it) *)
    destruct (Hout k eq_refl) as (tk & rk & Enk & Erk & Htk & Hhk).
    destruct (Nat.eq_dec i k) as [E|Hne].
    + subst i. assert (th = tk) by congruence. subst tk.
      assert (a = ARx /\ r = rk) by (split; congruence). destruct H0 as [-> ->].
      split; [intros k' Hk'; inversion Hk'; subst; left; split; reflexivity|].
      exists None. split; [|split; [reflexivity|split; [discriminate|discriminate]]].
      split; [|intros j; discriminate].
      intros j t Hj _. subst c'. destruct (Nat.eq_dec k j) as [->|Hne].
      * rewrite (cc_nth_upd_same _ _ _ _ En) in Hj. inversion Hj. cbn [ct_rem]. exact Htk.
      * rewrite cc_nth_upd_other in Hj by exact Hne. apply (Hrest _ _ Hj). congruence.
    + assert (Hhi : ct_holds th = false).
      { destruct (ct_holds th) eqn:Eh; [|reflexivity]. exfalso. apply Hne.
        apply Hmx; unfold cc_holds; [rewrite En|rewrite Enk]; assumption. }
      destruct (cc_thread_ok_step _ _ _ (Hok _ _ En) Er) as [Ha _]. rewrite Hhi in Ha.
      assert (Hw : exists w, a = AWait w).
      { destruct a; cbn in Ha; try discriminate; [|eexists; reflexivity].
        exfalso. pose proof (cc_free_holds _ k (Hfree eq_refl)) as Hf. unfold cc_holds in Hf.
        rewrite Enk in Hf. congruence. }
      destruct Hw as [w ->].
      split; [intros k' Hk'; inversion Hk'; subst; right; split; [exact Hne|eexists; reflexivity]|].
      pose proof (Hrest _ _ En ltac:(congruence)) as Ht. rewrite Er in Ht.
      exists (Some k). split; [|split; [reflexivity|split; [discriminate|]]].
      * split.
        -- intros j t Hj Hjk. subst c'. destruct (Nat.eq_dec i j) as [->|Hij].
           ++ rewrite (cc_nth_upd_same _ _ _ _ En) in Hj. inversion Hj. cbn [ct_rem].
              apply (cc_txrx_tail _ _ Ht); discriminate.
           ++ rewrite cc_nth_upd_other in Hj by exact Hij. apply (Hrest _ _ Hj). exact Hjk.
        -- intros j Hj. inversion Hj; subst j. subst c'. exists tk, rk.
           rewrite cc_nth_upd_other by exact Hne. repeat split; assumption.
      * intros k' Hk'. inversion Hk'; subst k'.
        rewrite (cc_step_holds _ _ _ _ k H). replace (Nat.eqb k i) with false.
        -- unfold cc_holds. rewrite Enk. exact Hhk.
        -- symmetry. apply Nat.eqb_neq. congruence.
  - split; [intros k; discriminate|].
    pose proof (Hrest _ _ En ltac:(discriminate)) as Ht. rewrite Er in Ht.
    destruct (cc_thread_ok_step _ _ _ (Hok _ _ En) Er) as [Ha _].
    destruct a; try (
      (* neither Tx nor Rx *)
      exists None; split; [|split; [reflexivity|split; [discriminate|discriminate]]];
      split; [|intros j; discriminate];
      intros j t Hj _; subst c'; destruct (Nat.eq_dec i j) as [->|Hne];
      [rewrite (cc_nth_upd_same _ _ _ _ En) in Hj; inversion Hj; cbn [ct_rem];
       apply (cc_txrx_tail _ _ Ht); discriminate
      |rewrite cc_nth_upd_other in Hj by exact Hne; apply (Hrest _ _ Hj); discriminate]).
    + (* Tx: the request becomes outstanding, the thread holds the mutex *)
      cbn [cc_txrx_ok] in Ht. destruct r as [|b r']; [discriminate|]. destruct b; try discriminate.
      assert (Hh : ct_holds th = true) by (cbn in Ha; destruct (ct_holds th); [reflexivity|discriminate]).
      exists (Some i). split; [|split; [reflexivity|split; [reflexivity|]]].
      * split.
        -- intros j t Hj Hne. subst c'. rewrite cc_nth_upd_other in Hj by congruence.
           apply (Hrest _ _ Hj). discriminate.
        -- intros j Hj. inversion Hj; subst j. subst c'. eexists _, r'.
           split; [apply (cc_nth_upd_same _ _ _ _ En)|]. cbn [ct_rem ct_holds cc_holds_after].
           split; [reflexivity|split; [exact Ht|exact Hh]].
      * intros k Hk. inversion Hk; subst k. rewrite (cc_step_holds _ _ _ _ i H), Nat.eqb_refl.
        cbn [cc_holds_after]. unfold cc_holds. rewrite En. exact Hh.
    + (* Rx without an outstanding request: excluded *)
      cbn [cc_txrx_ok] in Ht. discriminate.
Qed.

Lemma cc_inv2_holds c k : cc_inv2 c (Some k) -> cc_holds c k = true.
Proof.
  intros [_ Hout]. destruct (Hout k eq_refl) as (t & r & En & _ & _ & Hh).
  unfold cc_holds. rewrite En. exact Hh.
Qed.

Lemma cc_txs_app x : forall y, cc_txs (x ++ y) = cc_txs x ++ cc_txs y.
Proof. induction x as [|[j b] x IHx]; intros y; [reflexivity|]. destruct b; cbn; rewrite ?IHx; reflexivity. Qed.

Lemma cc_rxs_app x : forall y, cc_rxs (x ++ y) = cc_rxs x ++ cc_rxs y.
Proof. induction x as [|[j b] x IHx]; intros y; [reflexivity|]. destruct b; cbn; rewrite ?IHx; reflexivity. Qed.

Lemma cc_inv2_run evs : forall c c' o, cc_inv1 c -> cc_inv2 c o -> cc_run c evs = Some c' ->
  exists o', cc_inv2 c' o' /\ cc_olist o ++ cc_txs evs = cc_rxs evs ++ cc_olist o'.
Proof.
  induction evs as [|e t IH]; intros c c' o H1 H2 H; cbn [cc_run] in H.
  - inversion H; subst. exists o. split; [exact H2|]. cbn. apply app_nil_r.
  - destruct (cc_stepf c e) as [c1|] eqn:Es; [|discriminate]. destruct e as [i a].
    destruct (cc_inv2_step _ _ _ _ _ H1 H2 Es) as [_ (o1 & Hi2 & Heq & _)].
    pose proof (cc_inv1_step _ _ _ H1 Es) as Hi1.
    destruct (IH _ _ _ Hi1 Hi2 H) as (o' & Hi2' & Heq').
    exists o'. split; [exact Hi2'|].
    change ((i, a) :: t) with ([(i, a)] ++ t).
    rewrite cc_txs_app, cc_rxs_app, app_assoc, Heq, <- app_assoc, Heq', app_assoc. reflexivity.
Qed.

(* T1: at most one request is outstanding, and its sender holds the mutex *)
Lemma cc_one_outstanding ps evs c : cc_good ps -> cc_exec (cc_init ps) evs c ->
  exists o, cc_txs evs = cc_rxs evs ++ cc_olist o /\ (forall k, o = Some k -> cc_holds c k = true).
Proof.
  intros Hg H.
  destruct (cc_inv2_run _ _ _ _ (cc_inv1_init _ Hg) (cc_inv2_init _ Hg) H) as (o & Hi & Heq).
  exists o. split; [exact Heq|]. intros k ->. apply cc_inv2_holds, Hi.
Qed.

(* T2: contiguity: the event that follows a Tx event is the Rx event of the same thread *)
Lemma cc_tx_then_rx ps e1 i e e2 c : cc_good ps ->
  cc_exec (cc_init ps) (e1 ++ (i, ATx) :: e :: e2) c ->
  e = (i, ARx) \/ exists j w, j <> i /\ e = (j, AWait w).
Proof.
  intros Hg H. apply cc_run_app in H. destruct H as (c1 & H1 & H2).
  pose proof (cc_inv1_run _ _ _ (cc_inv1_init _ Hg) H1) as Hi1.
  destruct (cc_inv2_run _ _ _ _ (cc_inv1_init _ Hg) (cc_inv2_init _ Hg) H1) as (o & Hi2 & _).
  cbn [cc_run] in H2. destruct (cc_stepf c1 (i, ATx)) as [c2|] eqn:Es; [|discriminate].
  destruct (cc_inv2_step _ _ _ _ _ Hi1 Hi2 Es) as [_ (o2 & Hi2' & _ & Ho2 & _)].
  rewrite (Ho2 eq_refl) in Hi2'. pose proof (cc_inv1_step _ _ _ Hi1 Es) as Hi1'.
  destruct e as [j b]. destruct (cc_stepf c2 (j, b)) as [c3|] eqn:Es2; [|discriminate].
  destruct (cc_inv2_step _ _ _ _ _ Hi1' Hi2' Es2) as [Hk _].
  destruct (Hk i eq_refl) as [[-> ->]|[Hne [w ->]]]; [left; reflexivity|].
  right. exists j, w. split; [exact Hne|reflexivity].
Qed.

(* T3: the k-th reply is consumed by the thread that sent the k-th request *)
Lemma cc_own_reply ps evs c k i : cc_good ps -> cc_exec (cc_init ps) evs c ->
  nth_error (cc_rxs evs) k = Some i -> nth_error (cc_txs evs) k = Some i.
Proof.
  intros Hg H Hk. destruct (cc_one_outstanding _ _ _ Hg H) as (o & -> & _).
  rewrite nth_error_app1; [exact Hk|]. apply nth_error_Some. congruence.
Qed.

(* ------------------------------------------- (T4) release / acquire edges *)

(* a thread that holds the mutex and later does not has unlocked in between *)
Lemma cc_first_unlock i : forall mid c c', cc_run c mid = Some c' ->
  cc_holds c i = true -> cc_holds c' i = false ->
  exists m1 m2 cm, mid = m1 ++ (i, AUnlock) :: m2 /\ cc_run c m1 = Some cm /\ cc_holds cm i = true.
Proof.
  induction mid as [|[k b] t IH]; intros c c' H Hh Hn; cbn [cc_run] in H.
  - inversion H; subst. congruence.
  - destruct (cc_stepf c (k, b)) as [c1|] eqn:Es; [|discriminate].
    destruct (Nat.eq_dec k i) as [->|Hne].
    + destruct (cc_holds c1 i) eqn:Eh1.
      * destruct (IH _ _ H Eh1 Hn) as (m1 & m2 & cm & -> & Hr & Hc).
        exists ((i, b) :: m1), m2, cm. split; [reflexivity|]. split; [|exact Hc].
        cbn [cc_run]. rewrite Es. exact Hr.
      * rewrite (cc_step_holds _ _ _ _ i Es), Nat.eqb_refl, Hh in Eh1.
        assert (b = AUnlock) by (destruct b; cbn in Eh1; try discriminate; reflexivity). subst b.
        exists [], t, c. split; [reflexivity|]. split; [reflexivity|exact Hh].
    + assert (Eh1 : cc_holds c1 i = true).
      { rewrite (cc_step_holds _ _ _ _ i Es). replace (Nat.eqb i k) with false; [exact Hh|].
        symmetry. apply Nat.eqb_neq. congruence. }
      destruct (IH _ _ H Eh1 Hn) as (m1 & m2 & cm & -> & Hr & Hc).
      exists ((k, b) :: m1), m2, cm. split; [reflexivity|]. split; [|exact Hc].
      cbn [cc_run]. rewrite Es. exact Hr.
Qed.

(* a thread that does not hold the mutex and later does has locked in between *)
Lemma cc_some_lock j : forall m c c', cc_run c m = Some c' ->
  cc_holds c j = false -> cc_holds c' j = true ->
  exists m2 m3, m = m2 ++ (j, ALock) :: m3.
Proof.
  induction m as [|[k b] t IH]; intros c c' H Hn Hh; cbn [cc_run] in H.
  - inversion H; subst. congruence.
  - destruct (cc_stepf c (k, b)) as [c1|] eqn:Es; [|discriminate].
    destruct (cc_holds c1 j) eqn:Eh1.
    + rewrite (cc_step_holds _ _ _ _ j Es) in Eh1. destruct (Nat.eqb j k) eqn:Ejk; [|congruence].
      apply Nat.eqb_eq in Ejk. subst k. rewrite Hn in Eh1.
      assert (b = ALock) by (destruct b; cbn in Eh1; try discriminate; reflexivity). subst b.
      exists [], t. reflexivity.
    + destruct (IH _ _ H Eh1 Hh) as (m2 & m3 & ->). exists ((k, b) :: m2), m3. reflexivity.
Qed.

Lemma cc_release_acquire ps e1 i a1 mid j a2 e2 c : cc_good ps ->
  cc_exec (cc_init ps) (e1 ++ (i, a1) :: mid ++ (j, a2) :: e2) c ->
  i <> j -> cc_is_access a1 = true -> cc_is_access a2 = true ->
  exists m1 m2 m3, mid = m1 ++ (i, AUnlock) :: m2 ++ (j, ALock) :: m3.
Proof.
  intros Hg H Hij Ha1 Ha2.
  apply cc_run_app in H. destruct H as (c1 & H1 & H2).
  pose proof (cc_inv1_run _ _ _ (cc_inv1_init _ Hg) H1) as Hi1.
  cbn [cc_run] in H2. destruct (cc_stepf c1 (i, a1)) as [c2|] eqn:Es1; [|discriminate].
  pose proof (cc_inv1_step _ _ _ Hi1 Es1) as Hi2.
  apply cc_run_app in H2. destruct H2 as (c3 & H3 & H4).
  pose proof (cc_inv1_run _ _ _ Hi2 H3) as Hi3.
  cbn [cc_run] in H4. destruct (cc_stepf c3 (j, a2)) as [c4|] eqn:Es2; [|discriminate].
  (* i holds in c2, j holds in c3 *)
  assert (Hh2 : cc_holds c2 i = true).
  { destruct (cc_stepf_inv _ _ _ _ Es1) as (th & r & En & Er & _ & _).
    rewrite (cc_step_holds _ _ _ _ i Es1), Nat.eqb_refl. unfold cc_holds. rewrite En.
    rewrite (cc_thread_ok_holder th a1 r); [destruct a1; try discriminate; reflexivity
      |apply (proj1 Hi1 _ _ En)|exact Er|destruct a1; discriminate|destruct a1; discriminate]. }
  assert (Hh3 : cc_holds c3 j = true).
  { destruct (cc_stepf_inv _ _ _ _ Es2) as (th & r & En & Er & _ & _).
    unfold cc_holds. rewrite En.
    apply (cc_thread_ok_holder th a2 r); [apply (proj1 Hi3 _ _ En)|exact Er|destruct a2; discriminate|destruct a2; discriminate]. }
  assert (Hn3 : cc_holds c3 i = false).
  { destruct (cc_holds c3 i) eqn:E; [|reflexivity]. exfalso. apply Hij. apply (proj2 Hi3); assumption. }
  destruct (cc_first_unlock i _ _ _ H3 Hh2 Hn3) as (m1 & m2 & cm & -> & Hr1 & Hcm).
  apply cc_run_app in H3. destruct H3 as (cm' & Hr1' & Hr2). rewrite Hr1 in Hr1'. inversion Hr1'; subst cm'.
  pose proof (cc_inv1_run _ _ _ Hi2 Hr1) as Him.
  cbn [cc_run] in Hr2. destruct (cc_stepf cm (i, AUnlock)) as [cu|] eqn:Esu; [|discriminate].
  assert (Hnu : cc_holds cu j = false).
  { rewrite (cc_step_holds _ _ _ _ j Esu). replace (Nat.eqb j i) with false.
    - destruct (cc_holds cm j) eqn:E; [|reflexivity]. exfalso. apply Hij. apply (proj2 Him); assumption.
    - symmetry. apply Nat.eqb_neq. congruence. }
  destruct (cc_some_lock j _ _ _ Hr2 Hnu Hh3) as (m2' & m3 & ->).
  exists m1, m2', m3. reflexivity.
Qed.

(* ------------------------------------------- (W) waits and the mutex *)

(* a thread that waits for a peer (Accept, a read or write on a connection, a
   handler call, ...) does not hold the mutex at that moment *)
Lemma cc_wait_not_holder ps e1 i w e2 c : cc_good ps ->
  cc_exec (cc_init ps) (e1 ++ (i, AWait w) :: e2) c ->
  exists c1, cc_exec (cc_init ps) e1 c1 /\ cc_holds c1 i = false.
Proof.
  intros Hg H. apply cc_run_app in H. destruct H as (c1 & H1 & H2).
  exists c1. split; [exact H1|].
  pose proof (cc_inv1_run _ _ _ (cc_inv1_init _ Hg) H1) as [Hok _].
  cbn [cc_run] in H2. destruct (cc_stepf c1 (i, AWait w)) as [c2|] eqn:Es; [|discriminate].
  destruct (cc_stepf_inv _ _ _ _ Es) as (th & r & En & Er & _ & _).
  unfold cc_holds. rewrite En. exact (cc_thread_ok_wait _ _ _ (Hok _ _ En) Er).
Qed.

(* in every reachable configuration the next action of the thread that holds
   the mutex is not a wait: the holder can always move on without any peer *)
Lemma cc_holder_not_waiting ps evs c i th w r : cc_good ps -> cc_exec (cc_init ps) evs c ->
  nth_error c i = Some th -> ct_holds th = true -> ct_rem th <> AWait w :: r.
Proof.
  intros Hg H En Hh Er.
  pose proof (cc_inv1_run _ _ _ (cc_inv1_init _ Hg) H) as [Hok _].
  rewrite (cc_thread_ok_wait _ _ _ (Hok _ _ En) Er) in Hh. discriminate.
Qed.

(* programs without waits (the client): no wait event in any execution *)
Definition cc_is_wait (a : cact) : bool := match a with AWait _ => true | _ => false end.
Definition cc_nowait (p : list cact) : bool := forallb (fun a => negb (cc_is_wait a)) p.

Lemma cc_exec_nowait ps : Forall (fun p => cc_nowait p = true) ps ->
  forall evs c, cc_exec (cc_init ps) evs c -> forall i a, In (i, a) evs -> cc_is_wait a = false.
Proof.
  intros Hnw.
  assert (Hinit : forall i th, nth_error (cc_init ps) i = Some th -> cc_nowait (ct_rem th) = true).
  { intros i th Hi. destruct (cc_init_nth _ _ _ Hi) as (p & Hp & ->). cbn [ct_rem].
    rewrite Forall_forall in Hnw. apply Hnw. exact (nth_error_In _ _ Hp). }
  generalize (cc_init ps) Hinit. clear Hinit Hnw.
  intros c0 H0 evs. revert c0 H0.
  induction evs as [|[k b] t IH]; intros c0 H0 c H i a Hin; [contradiction|].
  unfold cc_exec in H. cbn [cc_run] in H.
  destruct (cc_stepf c0 (k, b)) as [c1|] eqn:Es; [|discriminate].
  destruct (cc_stepf_inv _ _ _ _ Es) as (th & r & En & Er & _ & Ec).
  pose proof (H0 _ _ En) as Hth. rewrite Er in Hth. cbn [cc_nowait forallb] in Hth.
  apply andb_true_iff in Hth. destruct Hth as [Hb Hr].
  destruct Hin as [Hin|Hin].
  - inversion Hin; subst. destruct a; cbn in Hb |- *; try reflexivity. discriminate.
  - apply (IH c1) with (c := c) (i := i); [|exact H|exact Hin].
    intros j tj Hj. subst c1. destruct (Nat.eq_dec k j) as [->|Hne].
    + rewrite (cc_nth_upd_same _ _ _ _ En) in Hj. inversion Hj. cbn [ct_rem]. exact Hr.
    + rewrite cc_nth_upd_other in Hj by exact Hne. apply (H0 _ _ Hj).
Qed.

(* T2 for programs without waits: the event after a Tx is the Rx of the same thread *)
Lemma cc_tx_then_rx_nowait ps e1 i e e2 c : cc_good ps -> Forall (fun p => cc_nowait p = true) ps ->
  cc_exec (cc_init ps) (e1 ++ (i, ATx) :: e :: e2) c -> e = (i, ARx).
Proof.
  intros Hg Hnw H. destruct (cc_tx_then_rx _ _ _ _ _ _ Hg H) as [He|(j & w & _ & He)]; [exact He|].
  exfalso. subst e.
  assert (Hin : In (j, AWait w) (e1 ++ (i, ATx) :: (j, AWait w) :: e2)).
  { apply in_or_app. right. right. left. reflexivity. }
  pose proof (cc_exec_nowait ps Hnw _ _ H _ _ Hin) as Hf. discriminate Hf.
Qed.

(* flat paths of a table without waits have no waits *)
Definition cc_table_nowait (tb : ctable) : bool :=
  forallb (fun cm => cc_nowait (cc_acts (cm_body cm))) tb.

Lemma cc_nowait_app p q : cc_nowait (p ++ q) = cc_nowait p && cc_nowait q.
Proof. unfold cc_nowait. apply forallb_app. Qed.

Lemma cc_find_in tb m cm : cc_find tb m = Some cm -> In cm tb.
Proof.
  induction tb as [|x t IH]; cbn [cc_find]; [discriminate|].
  destruct (String.eqb (cm_name x) m); [intros H; inversion H; left; reflexivity|intros H; right; apply IH, H].
Qed.

Lemma cc_nowait_flat_map l : cc_nowait (flat_map cc_acts l) = true ->
  forall b, In b l -> cc_nowait (cc_acts b) = true.
Proof.
  induction l as [|x t IH]; intros H b Hb; [contradiction|].
  cbn [flat_map] in H. rewrite cc_nowait_app in H. apply andb_true_iff in H. destruct H as [Hx Ht].
  destruct Hb as [->|Hb]; [exact Hx|exact (IH Ht b Hb)].
Qed.

Lemma cc_path_nowait tb : cc_table_nowait tb = true ->
  forall sp p o, cc_path tb sp p o -> cc_nowait (cc_acts sp) = true -> cc_nowait p = true.
Proof.
  intros Htb sp p o Hp.
  induction Hp as
    [a p Hl| | | |m cm p o Hf Hb IHb| |s l p1 p2 o H1 IH1 H2 IH2|s l p1 o H1 IH1 Hne
     |bs b p o Hin Hb IH|bs b p o Hin Hb IH Hne|bs b p Hin Hb IH
     |b|b p1 p2 o o1 H1 IH1 Hoo H2 IH2|b p1 H1 IH1|b p1 H1 IH1]; intros Hs;
    try reflexivity.
  - destruct a; cbn in Hl; inversion Hl; subst; try reflexivity; exact Hs.
  - rewrite cc_nowait_app. apply andb_true_iff. split.
    + apply IHb. unfold cc_table_nowait in Htb. rewrite forallb_forall in Htb.
      apply Htb. exact (cc_find_in _ _ _ Hf).
    + unfold cc_exit. destruct (cm_deferred cm); reflexivity.
  - cbn [cc_acts flat_map] in Hs. rewrite cc_nowait_app in Hs. apply andb_true_iff in Hs.
    destruct Hs as [Ha Hb]. rewrite cc_nowait_app. apply andb_true_iff. split; [apply IH1, Ha|apply IH2, Hb].
  - cbn [cc_acts flat_map] in Hs. rewrite cc_nowait_app in Hs. apply andb_true_iff in Hs.
    apply IH1, Hs.
  - apply IH. exact (cc_nowait_flat_map _ Hs _ Hin).
  - apply IH. exact (cc_nowait_flat_map _ Hs _ Hin).
  - apply IH. exact (cc_nowait_flat_map _ Hs _ Hin).
  - rewrite cc_nowait_app. apply andb_true_iff. split; [apply IH1, Hs|apply IH2, Hs].
  - apply IH1, Hs.
  - apply IH1, Hs.
Qed.

Lemma cc_thread_path_nowait tb ms p : cc_table_nowait tb = true ->
  cc_thread_path tb ms p -> cc_nowait p = true.
Proof.
  intros Htb (ps & HF & ->). induction HF as [|m q ms' ps' Hq _ IH]; [reflexivity|].
  cbn [List.concat]. rewrite cc_nowait_app. apply andb_true_iff. split; [|exact IH].
  exact (cc_path_nowait tb Htb _ _ _ Hq eq_refl).
Qed.

(* the generated tables: threads that run public calls of a checked table are good *)
Lemma cc_table_good tb fuel entries prog ps :
  cc_table_wb tb fuel entries = true ->
  (forall ms, In ms prog -> forall m, In m ms -> In m entries) ->
  Forall2 (cc_thread_path tb) prog ps -> cc_good ps.
Proof.
  unfold cc_table_wb. intros Hw Hin HF. apply andb_true_iff in Hw. destruct Hw as [Hw _].
  unfold cc_good. induction HF as [|ms p prog' ps' Hp _ IH]; [constructor|]. constructor.
  - apply (cc_thread_flat_wb tb fuel entries ms p Hw); [|exact Hp]. apply Hin. left. reflexivity.
  - apply IH. intros ms' Hms'. apply Hin. right. exact Hms'.
Qed.
