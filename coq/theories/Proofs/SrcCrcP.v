(* crc.go as translated from the Go source (Gen/SrcPure.v) computes the model
   of Model/Crc.v, for every input. *)
From Coq Require Import List NArith String Lia Bool.
From Coq Require Import ZifyBool ZifyNat ZifyN.
Import ListNotations.
From Modbus Require Import Base.Bytes Model.GoLite Gen.SrcPure Model.Crc Model.Encoding.
From Modbus Require Import Spec.ModbusSpec Proofs.CrcP Proofs.GoLiteP Proofs.GoLiteLinkP.
Open Scope N_scope.

Definition ge : genv := globals (p_globals src_pure).

(* environment seen by the body of [name]: the functions listed before it *)
Definition env_of (base : fenv) (name : string) (fuel : nat) : fenv := env_in_with src_pure base name fuel.

(* [base] is the environment of external functions (oracles) under the program;
   the statements about [call] are the instances with [no_fns] *)
Ltac link_step name f := rewrite (call_env_with src_pure _ name f eq_refl eq_refl).
Ltac callee caller name g := rewrite (env_call_with2 src_pure _ caller name g eq_refl eq_refl).

(* ---------------------------------------------------------------- the table *)

Lemma src_table_eq : src_global_crcTable = crc_table.
Proof. vm_compute. reflexivity. Qed.

Lemma table_lookup i : i < 256 ->
  nth_error (map VN src_global_crcTable) (N.to_nat i) = Some (VN (tbl i)).
Proof.
  intros Hi. rewrite src_table_eq. unfold tbl.
  rewrite nth_error_map.
  rewrite (nth_error_nth' crc_table 0).
  - reflexivity.
  - change (List.length crc_table) with 256%nat. lia.
Qed.

(* ---------------------------------------------------------------- crc.init *)

Lemma run_crc_init fe fuel s :
  run_fn ge fe fuel src_fn_crc_init [VN s] = Ok [VN crc_init].
Proof. gl_eval. reflexivity. Qed.

(* ---------------------------------------------------------------- crc.add *)

Definition crc_add_loop_body : stmt :=
  Eval cbv in match f_body src_fn_crc_add with
              | SSeq _ (SSeq (SRange _ _ _ b) _) => b
              | _ => SSkip
              end.

Ltac gl_eval_crc :=
  repeat (progress (
    cbv -[N.add N.sub N.mul N.div N.modulo N.pow N.land N.lor N.lxor N.ldiff N.shiftl N.shiftr
          N.eqb N.ltb N.leb N.to_nat N.of_nat
          map nth_error upd firstn skipn List.length app repeat rev fold_left range_go for_go
          crc_table src_global_crcTable crc_from crc_step tbl];
    gl_consts)).

Lemma crc_add_body_step fe fuel s inv idx blank x :
  x < 256 ->
  exec ge fe fuel [VN s; inv; idx; blank; VN x] crc_add_loop_body =
  ONormal [VN (crc_step s x); inv; VN (N.lxor x (N.land s 255)); blank; VN x].
Proof.
  intros Hx. gl_eval_crc.
  assert (E : N.land s 255 mod 2 ^ 8 = N.land s 255).
  { rewrite land_255_mod. change (2 ^ 8) with 256. rewrite N.mod_mod by lia. reflexivity. }
  rewrite E.
  rewrite table_lookup.
  2:{ apply lxor_byte; [exact Hx|]. apply land_255_lt. }
  reflexivity.
Qed.

Lemma crc_add_loop fe fuel : forall l s inv idx blank b i,
  bytesb l = true ->
  exists idx' b',
  range_go (fun st' => exec ge fe fuel st' crc_add_loop_body) None (Some 4%nat) i (map VN l)
           [VN s; inv; idx; blank; b]
  = ONormal [VN (crc_from s l); inv; idx'; blank; b'].
Proof.
  induction l as [|x l IH]; intros s inv idx blank b i Hl.
  - exists idx, b. reflexivity.
  - cbn [bytesb forallb] in Hl. apply andb_true_iff in Hl as [Hx Hl]. unfold is_byte in Hx.
    cbn [map range_go set_opt rbind set_slot sset].
    rewrite crc_add_body_step by lia.
    apply IH. exact Hl.
Qed.

Lemma run_crc_add fe fuel s l :
  bytesb l = true ->
  run_fn ge fe fuel src_fn_crc_add [VN s; vbytes l] = Ok [VN (crc_from s l)].
Proof.
  intros Hl.
  destruct (crc_add_loop fe fuel l s (vbytes l) (VN 0) (VN 0) (VN 0) 0 Hl) as (idx' & b' & E).
  unfold run_fn.
  change (f_body src_fn_crc_add) with
    (SSeq (SSet (LVar 2) (EN 0)) (SSeq (SRange None (Some 4%nat) (EVar 1) crc_add_loop_body) (SReturn ENil))).
  cbn [f_nparams f_zeros f_outs f_results src_fn_crc_add List.length Nat.eqb negb app].
  cbn [exec resolve eval rbind store set_slot sset get_slot sget].
  unfold vbytes in *. rewrite E.
  reflexivity.
Qed.

(* ---------------------------------------------------------------- crc.value, crc.isEqual *)

Lemma run_uint16ToBytes fe fuel e v :
  run_fn ge fe fuel src_fn_uint16ToBytes [VN (endian_sel e); VN v] = Ok [vbytes (u16_to_bytes e v)].
Proof. destruct e; gl_eval; reflexivity. Qed.

Lemma run_bytesToUint16 fe fuel e l :
  run_fn ge fe fuel src_fn_bytesToUint16 [VN (endian_sel e); vbytes l] =
  match bytes_to_u16 e l with Some v => Ok [VN v] | None => Panic end.
Proof. destruct e; destruct l as [|a [|b t]]; gl_eval; reflexivity. Qed.

Lemma run_crc_value fe fuel s :
  (forall e v, fe "uint16ToBytes"%string [VN (endian_sel e); VN v] = Ok [vbytes (u16_to_bytes e v)]) ->
  run_fn ge fe fuel src_fn_crc_value [VN s] = Ok [VN s; vbytes (crc_value s)].
Proof.
  intros Hc. unfold run_fn.
  cbn [f_nparams f_zeros f_outs f_results f_body src_fn_crc_value List.length Nat.eqb negb app].
  cbn [exec resolve eval evals rbind store set_slot sset get_slot sget].
  change (VN 2) with (VN (endian_sel LittleE)).
  rewrite Hc.
  cbn [rbind store set_slot sset get_slots get_slot sget app].
  unfold crc_value, le16, u16_to_bytes, byte_of.
  change (2 ^ (8 * 0)) with 1. change (2 ^ (8 * 1)) with 256.
  rewrite N.div_1_r. reflexivity.
Qed.

Lemma run_crc_isEqual fe fuel s lo hi :
  (forall e l, fe "bytesToUint16"%string [VN (endian_sel e); vbytes l] =
               match bytes_to_u16 e l with Some v => Ok [VN v] | None => Panic end) ->
  run_fn ge fe fuel src_fn_crc_isEqual [VN s; VN lo; VN hi] = Ok [VN s; VB (crc_is_equal s lo hi)].
Proof.
  intros Hc. unfold run_fn.
  cbn [f_nparams f_zeros f_outs f_results f_body src_fn_crc_isEqual List.length Nat.eqb negb app].
  cbn [exec resolve eval evals rbind store set_slot sset get_slot sget].
  change (VN 2) with (VN (endian_sel LittleE)).
  change (VL [VN lo; VN hi]) with (vbytes [lo; hi]).
  rewrite Hc.
  cbn [bytes_to_u16 rbind compare_v compare_n store set_slot sset get_slots get_slot sget app].
  reflexivity.
Qed.

(* ---------------------------------------------------------------- linked program *)

Lemma src_crc_init_ok base fuel s : call_with src_pure base fuel "crc.init" [VN s] = Ok [VN crc_init].
Proof. link_step "crc.init"%string src_fn_crc_init. apply run_crc_init. Qed.

Lemma src_crc_add_ok base fuel s l : bytesb l = true ->
  call_with src_pure base fuel "crc.add" [VN s; vbytes l] = Ok [VN (crc_from s l)].
Proof. intros H. link_step "crc.add"%string src_fn_crc_add. apply run_crc_add. exact H. Qed.

Lemma src_uint16ToBytes_ok base fuel e v :
  call_with src_pure base fuel "uint16ToBytes" [VN (endian_sel e); VN v] = Ok [vbytes (u16_to_bytes e v)].
Proof. link_step "uint16ToBytes"%string src_fn_uint16ToBytes. apply run_uint16ToBytes. Qed.

Lemma src_bytesToUint16_ok base fuel e l :
  call_with src_pure base fuel "bytesToUint16" [VN (endian_sel e); vbytes l] =
  match bytes_to_u16 e l with Some v => Ok [VN v] | None => Panic end.
Proof. link_step "bytesToUint16"%string src_fn_bytesToUint16. apply run_bytesToUint16. Qed.

Lemma src_crc_value_ok base fuel s :
  call_with src_pure base fuel "crc.value" [VN s] = Ok [VN s; vbytes (crc_value s)].
Proof.
  link_step "crc.value"%string src_fn_crc_value. apply run_crc_value. intros e v.
  callee "crc.value"%string "uint16ToBytes"%string src_fn_uint16ToBytes.
  apply src_uint16ToBytes_ok.
Qed.

Lemma src_crc_isEqual_ok base fuel s lo hi :
  call_with src_pure base fuel "crc.isEqual" [VN s; VN lo; VN hi] = Ok [VN s; VB (crc_is_equal s lo hi)].
Proof.
  link_step "crc.isEqual"%string src_fn_crc_isEqual. apply run_crc_isEqual. intros e l.
  callee "crc.isEqual"%string "bytesToUint16"%string src_fn_bytesToUint16.
  apply src_bytesToUint16_ok.
Qed.

(* the checksum of a whole frame body, as the transports compute it:
   init; add(body); value() *)
Lemma src_crc_of_body base fuel l : bytesb l = true ->
  exists s0,
    call_with src_pure base fuel "crc.init" [VN 0] = Ok [VN s0] /\
    exists s1, call_with src_pure base fuel "crc.add" [VN s0; vbytes l] = Ok [VN s1] /\
    call_with src_pure base fuel "crc.value" [VN s1] = Ok [VN s1; vbytes (crc_bytes l)].
Proof.
  intros Hl. exists crc_init. split; [apply src_crc_init_ok|].
  exists (crc16 l). split; [apply src_crc_add_ok; exact Hl|].
  apply src_crc_value_ok.
Qed.

Lemma src_crc_add_ref base fuel l : bytesb l = true ->
  call_with src_pure base fuel "crc.add" [VN 0xffff; vbytes l] = Ok [VN (crc_ref l)].
Proof.
  intros Hl. rewrite src_crc_add_ok by exact Hl.
  change (crc_from 65535 l) with (crc16 l).
  rewrite crc16_is_ref by exact Hl. reflexivity.
Qed.
