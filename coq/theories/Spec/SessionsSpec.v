(* Declarative vocabulary of property C11 (concurrent server sessions are
   isolated from each other), written from the property text. *)
From Modbus Require Import Base.Bytes Model.Encoding Model.Wire Model.Server
  Spec.ModbusSpec Spec.ServerSpec Spec.ServerSessionSpec Model.Sessions.

(* a response frame that carries the given transaction id and unit id
   (MBAP header: transaction id, protocol id 0, length, unit id) *)
Definition resp_carries (txn unit : N) (fr : list N) : Prop :=
  exists l1 l0 body, fr = be16 txn ++ [0; 0; l1; l0; unit] ++ body.

(* What one connection may observe, given the request frames IT sent, in
   order: every response answers the next unanswered request of this
   connection and carries that request's transaction id and unit id; the
   handler calls made for a request carry its unit id; a close ends the
   observations. Requests beyond the listed ones are not constrained. *)
Inductive answers_ok : list (N * pdu) -> list event -> Prop :=
| ao_quiet : forall frames, answers_ok frames []
| ao_closed : forall frames, answers_ok frames [EvClosed]
| ao_call : forall t p frames r evs, h_unit r = p_unit p ->
    answers_ok ((t, p) :: frames) evs -> answers_ok ((t, p) :: frames) (EvCall r :: evs)
| ao_resp : forall t p frames fr evs, resp_carries t (p_unit p) fr ->
    answers_ok frames evs -> answers_ok ((t, p) :: frames) (EvResp fr :: evs)
| ao_beyond : forall evs, answers_ok [] evs.

(* every handler invocation among the events carries this address and role *)
Definition calls_from (a ro : N) (evs : list gevent) : Prop :=
  forall r ans, In (GEvCall r ans) evs -> g_conn_addr r = a /\ g_role r = ro.

(* the byte stream made of the given request frames *)
Definition frames_stream (frames : list (N * pdu)) : list N :=
  concat (map (fun f => spec_mbap (fst f) (snd f)) frames).

(* what is appended to the observations of a session that is still open to
   obtain the complete single-connection session (which ends with the close) *)
Definition close_tail (closed : bool) : list event := if closed then [] else [EvClosed].
