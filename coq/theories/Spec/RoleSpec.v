(* What C15 demands, written from the property text, X.690 (DER) and RFC 3629
   (UTF-8); nothing here looks at the Go code.

   "Handlers of a TLS session see a role equal to the UTF-8 string in the
   client leaf certificate's Modbus Role extension when exactly one such
   extension with a well-formed UTF8String value is present, and an empty role
   otherwise." *)
From Modbus Require Import Base.Bytes Model.Utf8.

(* big-endian base-256 digits of n without leading zeros ([] for 0);
   fuel: one more than the bit length always suffices (Proofs/RoleSpecP.v) *)
Fixpoint be_digits_fuel (fuel : nat) (n : N) : list N :=
  match fuel with
  | O => []
  | S f => if n =? 0 then [] else be_digits_fuel f (n / 256) ++ [n mod 256]
  end.
Definition be_digits (n : N) : list N := be_digits_fuel (S (N.to_nat (N.log2 n))) n.

(* X.690 8.1.3 + 10.1: definite length, minimal number of octets.
   Short form below 128; else 0x80 + k followed by the k digits. *)
Definition der_len (n : N) : list N :=
  if n <? 128 then [n]
  else let ds := be_digits n in (0x80 + lenN ds) :: ds.

(* DER encoding of the UTF8String whose UTF-8 octets are s:
   identifier octet 0x0c (UNIVERSAL 12, primitive), length, contents *)
Definition der_utf8string (s : list N) : list N := 0x0c :: der_len (lenN s) ++ s.

(* a certificate's extensions, projected to (has the Modbus Role OID, value):
   the values of the role extensions in certificate order *)
Definition role_values (exts : list (bool * list N)) : list (list N) :=
  map snd (filter fst exts).

(* well-formed UTF-8: the encoding of a sequence of Unicode scalar values *)
Definition well_formed_utf8 (bs : list N) : Prop :=
  exists cps, forallb is_scalar cps = true /\ bs = utf8_encode cps.

(* the certificate states role r: exactly one role extension, and its value is
   precisely the DER UTF8String r *)
Definition states_role (exts : list (bool * list N)) (r : list N) : Prop :=
  role_values exts = [der_utf8string r] /\ well_formed_utf8 r.

(* every extension value is a string of octets *)
Definition all_bytes (exts : list (bool * list N)) : bool := forallb (fun e => bytesb (snd e)) exts.
