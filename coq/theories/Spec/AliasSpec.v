(* Spec for C18, written from the property text: what "a call does not modify
   a slice passed to it - neither contents nor spare capacity", "sends the
   same bytes" and "returned slices are not altered by later calls" mean, in
   terms of heaps and slice headers only (nothing here says how calls work). *)
From Modbus Require Import Base.Bytes Model.Wire Model.Client Model.Heap.

(* the first k cells of the window of s in heap h *)
Definition spec_cells (h : hp_heap) (s : hslice) (k : nat) : list N :=
  firstn k (skipn (hs_off s) (nth (hs_arr s) h [])).

(* the elements of s; the elements together with the spare capacity *)
Definition spec_contents (h : hp_heap) (s : hslice) : list N := spec_cells h s (hs_len s).
Definition spec_room (h : hp_heap) (s : hslice) : list N := spec_cells h s (hs_cap s).

(* a slice value a caller can hold in heap h: Go's invariants of a slice header *)
Definition caller_slice (h : hp_heap) (s : hslice) : Prop :=
  (hs_len s <= hs_cap s)%nat /\
  (hs_cap s = 0%nat \/
   exists a, nth_error h (hs_arr s) = Some a /\ (hs_off s + hs_cap s <= length a)%nat).

Definition slice_untouched (h h' : hp_heap) (s : hslice) : Prop :=
  spec_contents h' s = spec_contents h s /\ spec_room h' s = spec_room h s.

(* stronger: no array that existed was modified anywhere (nor freed) *)
Definition memory_untouched (h h' : hp_heap) : Prop :=
  forall id a, nth_error h id = Some a -> nth_error h' id = Some a.

(* the slice argument of a call, if it takes one *)
Definition op_slice (o : hp_op) : option hslice :=
  match o with
  | HpWriteBytes _ _ s | HpWriteCoils _ s | HpWriteRegs _ _ s => Some s
  | HpOther _ => None
  end.

Definition args_are_caller_slices (o : hp_op) (h : hp_heap) : Prop :=
  match op_slice o with Some s => caller_slice h s | None => True end.

(* a transmitted frame without the MBAP transaction id (which numbers the
   calls and is not request data) *)
Definition frame_body (fr : framing) (f : list N) : list N :=
  match fr with FMbap => skipn 2 f | FRtu => f end.

(* the array of s (if it has one) was allocated after h and exists in h' *)
Definition allocated_between (h h' : hp_heap) (s : hslice) : Prop :=
  hs_cap s = 0%nat \/ (length h <= hs_arr s /\ hs_arr s < length h')%nat.
