(* The documented response timeout of an OPENED client, written from the
   property text (C16: "the documented defaults (1 s timeout, 300 ms for
   serial ...)") - a default is only worth something if it is the value the
   client enforces on its requests, not merely the value it stores. *)
From Modbus Require Import Base.Bytes Model.Encoding Model.Client Model.Config Model.Timing
  Spec.ConfigSpec Spec.TimedSpec.

(* the timeout the documentation promises: the caller's value, else 1 s
   (300 ms on a serial line) *)
Definition documented_timeout (s : scheme) (c : client_conf) : Z :=
  fillz (cc_timeout c) (default_timeout s).

(* the link speed the RTU timing derives from: the caller's, else 19200 bps *)
Definition documented_speed (s : scheme) (c : client_conf) : Z :=
  Z.of_N (fill (cc_speed c) (default_speed s)).

Definition rtu_scheme (s : scheme) : bool :=
  match s with SRtu | SRtuOverTcp | SRtuOverUdp => true | _ => false end.

(* a new client: unit id 1, big endian, high word first *)
Definition new_client_cfg : ccfg := mkcfg 1 BigE HighFirst.

(* the latest instant a request entered at t0 may report the timeout when the
   peer is silent:
   - MBAP schemes: t0 + timeout;
   - RTU schemes: the transport does not listen before the request has left
     the wire (pre-send wait up to la + t3.5, n character times, t3.5), so the
     timeout is reported at t0 + timeout or at the end of that wait, whichever
     is later; on a serial port one poll period (10 ms) later at most *)
Definition silent_ceiling (s : scheme) (c : client_conf) (la t0 : Z) (o : op) : Z :=
  let T := documented_timeout s c in
  if rtu_scheme s then
    let v := documented_speed s c in
    (Z.max (t0 + T)
           (Z.max t0 (la + t35 v) + tm_req_len new_client_cfg o * char_time v + t35 v)
     + match s with SRtu => 10000000 | _ => 0 end)%Z
  else (t0 + T)%Z.
