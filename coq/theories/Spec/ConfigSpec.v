(* Declarative specification of C16, written from the property text and the
   documentation of the configuration objects, not from the Go code:
   - the six documented URL schemes, spelled exactly;
   - the documented defaults per scheme;
   - the documented socket type and framing per scheme;
   - what a server accepts;
   - the valid byte/word-order selectors. *)
From Coq Require String Ascii.
Import String.StringSyntax.
From Modbus Require Import Base.Bytes Model.Config.

(* text as bytes *)
Definition str (s : String.string) : list N :=
  map (fun a => Ascii.N_of_ascii a) (String.list_ascii_of_string s).
Arguments str _%string_scope.

Inductive scheme := STcp | STcpTls | SUdp | SRtu | SRtuOverTcp | SRtuOverUdp.

Definition all_schemes : list scheme :=
  [STcp; STcpTls; SUdp; SRtu; SRtuOverTcp; SRtuOverUdp].

Definition scheme_name (s : scheme) : list N :=
  match s with
  | STcp => str "tcp"
  | STcpTls => str "tcp+tls"
  | SUdp => str "udp"
  | SRtu => str "rtu"
  | SRtuOverTcp => str "rtuovertcp"
  | SRtuOverUdp => str "rtuoverudp"
  end.

Definition sep_text : list N := str "://".

(* "p occurs in l" *)
Definition occurs (p l : list N) : Prop := exists x y, l = x ++ p ++ y.

(* u reads <a>://<b> with a the text before the FIRST "://": no occurrence of
   the separator starts inside a (an occurrence starting inside a lies within
   a followed by the first two characters of the separator) *)
Definition first_split (u a b : list N) : Prop :=
  u = a ++ sep_text ++ b /\ ~ occurs sep_text (a ++ str ":/").

(* the URL is <scheme>://<rest> for the documented scheme s *)
Definition url_scheme (u : list N) (s : scheme) (rest : list N) : Prop :=
  u = scheme_name s ++ sep_text ++ rest.

(* --------------------------------------------------- documented defaults *)

Definition ms : Z := 1000000%Z.          (* nanoseconds *)
Definition second : Z := (1000 * ms)%Z.

(* serial link defaults apply to the schemes that use them: the serial line
   itself, and the RTU-over-network schemes for the link speed (which the RTU
   timing is derived from) *)
Definition default_speed (s : scheme) : option N :=
  match s with
  | SRtu | SRtuOverTcp | SRtuOverUdp => Some 19200
  | _ => None
  end.

Definition default_data_bits (s : scheme) : option N :=
  match s with SRtu => Some 8 | _ => None end.

(* 2 stop bits without parity, 1 with *)
Definition default_stop_bits (s : scheme) (parity : N) : option N :=
  match s with
  | SRtu => Some (if parity =? 0 then 2 else 1)
  | _ => None
  end.

(* 1 s, 300 ms for serial *)
Definition default_timeout (s : scheme) : Z :=
  match s with SRtu => (300 * ms)%Z | _ => second end.

(* a field left at zero takes the documented default (if the scheme has one),
   a field set by the caller is kept *)
Definition fill (given : N) (d : option N) : N :=
  match d with
  | Some v => if given =? 0 then v else given
  | None => given
  end.

Definition fillz (given d : Z) : Z := if (given =? 0)%Z then d else given.

(* credentials are required for tcp+tls only *)
Definition needs_creds (s : scheme) : bool :=
  match s with STcpTls => true | _ => false end.

Definition client_creds_ok (s : scheme) (c : client_conf) : Prop :=
  needs_creds s = true -> cc_has_cert c = true /\ cc_has_cas c = true.

(* the transport selected by each scheme *)
Definition scheme_transport (s : scheme) : tkind :=
  match s with
  | STcp => TTcp
  | STcpTls => TTcpOverTls
  | SUdp => TTcpOverUdp
  | SRtu => TRtu
  | SRtuOverTcp => TRtuOverTcp
  | SRtuOverUdp => TRtuOverUdp
  end.

(* the effective client configuration demanded for scheme s, target rest *)
Definition spec_client_eff (s : scheme) (rest : list N) (c : client_conf) : client_eff :=
  {| ce_url := rest;
     ce_speed := fill (cc_speed c) (default_speed s);
     ce_data_bits := fill (cc_data_bits c) (default_data_bits s);
     ce_parity := cc_parity c;
     ce_stop_bits := fill (cc_stop_bits c) (default_stop_bits s (cc_parity c));
     ce_timeout := fillz (cc_timeout c) (default_timeout s);
     ce_unit := 1;                 (* unit id 1 *)
     ce_endianness := 1;           (* big endian *)
     ce_word_order := 1;           (* high word first *)
     ce_transport := scheme_transport s |}.

(* ------------------------------------------------------ documented wiring *)

Definition spec_wiring (s : scheme) : sock_kind * frame_kind :=
  match s with
  | STcp => (KTcp, KMbap)
  | STcpTls => (KTls, KMbap)
  | SUdp => (KUdp, KMbap)
  | SRtu => (KSerial, KRtu)
  | SRtuOverTcp => (KTcp, KRtu)
  | SRtuOverUdp => (KUdp, KRtu)
  end.

(* ------------------------------------------------------------------ server *)

Definition server_scheme (s : scheme) : bool :=
  match s with STcp | STcpTls => true | _ => false end.

Definition server_creds_ok (s : scheme) (c : server_conf) : Prop :=
  needs_creds s = true -> sc_has_cert c = true /\ sc_has_cas c = true.

(* 10 clients, 120 s idle timeout *)
Definition spec_server_eff (s : scheme) (rest : list N) (c : server_conf) : server_eff :=
  {| se_url := rest;
     se_timeout := fillz (sc_timeout c) (120 * second)%Z;
     se_max_clients := fill (sc_max_clients c) (Some 10);
     se_transport := scheme_transport s |}.

(* --------------------------------------------------------------- selectors *)

(* big endian = 1, little endian = 2; high word first = 1, low word first = 2 *)
Definition valid_selector (n : N) : Prop := n = 1 \/ n = 2.
