(* Declarative vocabulary of C05 (replies are matched to requests by
   transaction id), written from the property text, not from the Go code:
   request numbering, the peer's frames tagged with the request they answer,
   and the matching rule "request j takes the first pending Modbus reply
   built for a request i with i = j modulo 2^16; everything before it is
   passed over; if there is none it waits until the timeout". *)
From Modbus Require Import Base.Bytes Model.Wire Model.Client Model.TxnHistory
  Spec.ClientSpec.

(* transaction id of request number i (0-based) of a client whose counter was
   txn0 before its first request: consecutive 16-bit ids. A fresh client has
   txn0 = 0: its first request carries id 1. *)
Definition th_id (txn0 i : N) : N := (txn0 + i + 1) mod 65536.

(* what the peer puts on the wire: whole frames *)
Inductive th_frame :=
| ThReply (i : N) (res : pdu)             (* a Modbus frame built as the reply to request i *)
| ThForeign (t proto : N) (res : pdu).    (* a frame of another protocol (proto <> 0), any id t *)

(* the frame fits the 260-byte MBAP limit; header fields are 16-bit *)
Definition th_frame_wf (f : th_frame) : Prop :=
  match f with
  | ThReply _ res => lenN (p_payload res) <= 252
  | ThForeign t proto res =>
      t < 65536 /\ proto < 65536 /\ proto <> 0 /\ lenN (p_payload res) <= 252
  end.

Definition th_bytes (txn0 : N) (f : th_frame) : list N :=
  match f with
  | ThReply i res => spec_frame FMbap (th_id txn0 i) res
  | ThForeign t proto res =>
      be16 t ++ be16 proto ++ be16 (2 + lenN (p_payload res))
      ++ [p_unit res; p_fc res] ++ p_payload res
  end.

Definition th_stream (txn0 : N) (fs : list th_frame) : list N :=
  concat (map (th_bytes txn0) fs).

(* the matching rule *)
Definition th_accepts (j : N) (f : th_frame) : bool :=
  match f with
  | ThReply i _ => i mod 65536 =? j mod 65536
  | ThForeign _ _ _ => false
  end.

(* request j against the pending frames: the reply it returns and what stays
   pending, or nothing (then every pending frame has been passed over) *)
Fixpoint th_take (j : N) (pend : list th_frame) : option (pdu * list th_frame) :=
  match pend with
  | [] => None
  | ThReply i res :: t => if i mod 65536 =? j mod 65536 then Some (res, t) else th_take j t
  | ThForeign _ _ _ :: t => th_take j t
  end.

Definition th_next (j : N) (pend : list th_frame) : list th_frame :=
  match th_take j pend with Some (_, rest) => rest | None => [] end.

(* one step of a scripted history: the call, the whole frames the peer delivers
   while it is outstanding (on time, late replies to earlier requests,
   duplicates, foreign frames: any list), and whether the peer then ends the
   connection *)
Record th_sstep := mksstep { ss_op : op; ss_frames : list th_frame; ss_end : send }.

Definition th_concrete (txn0 : N) (x : th_sstep) : th_step :=
  mkthstep (ss_op x) (th_stream txn0 (ss_frames x)) (ss_end x).

(* frames pending when request number j + length pre is issued, pend being
   pending when request j was *)
Fixpoint th_pending (j : N) (pend : list th_frame) (pre : list th_sstep) : list th_frame :=
  match pre with
  | [] => pend
  | x :: t => th_pending (j + 1) (th_next j (pend ++ ss_frames x)) t
  end.

Definition th_end_run (e : send) (pre : list th_sstep) : send :=
  fold_left (fun e x => th_end_after e (ss_end x)) pre e.

(* every call of the history reaches the wire *)
Definition th_sstep_ok (x : th_sstep) : Prop :=
  op_wf (ss_op x) /\ valid_op (ss_op x) = true /\ Forall th_frame_wf (ss_frames x).

(* number of transmitted requests among the steps *)
Definition th_sent (xs : list th_step) : N :=
  lenN (filter (fun x => valid_op (ths_op x)) xs).
