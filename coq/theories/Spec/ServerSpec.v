(* Declarative server-side specification (property C03), written from the
   property text and the Modbus application protocol. *)
From Modbus Require Import Base.Bytes Model.Encoding Model.Wire Model.Server Spec.ModbusSpec.

(* a request PDU the server must dispatch: supported function code, lengths,
   limits, byte-count consistency, coil value 0xFF00 / 0x0000.
   Returns the decoded handler request (range past 0xFFFF NOT yet excluded). *)
Definition be2 (a b : N) : N := a * 256 + b.

Definition spec_decode (p : pdu) : option hreq :=
  let u := p_unit p in
  match p_fc p, p_payload p with
  | 1, [a1; a0; q1; q0] =>
      let q := be2 q1 q0 in
      if (1 <=? q) && (q <=? 2000) then Some (mkhreq HCoils u (be2 a1 a0) q false [] []) else None
  | 2, [a1; a0; q1; q0] =>
      let q := be2 q1 q0 in
      if (1 <=? q) && (q <=? 2000) then Some (mkhreq HDiscrete u (be2 a1 a0) q false [] []) else None
  | 3, [a1; a0; q1; q0] =>
      let q := be2 q1 q0 in
      if (1 <=? q) && (q <=? 125) then Some (mkhreq HHolding u (be2 a1 a0) q false [] []) else None
  | 4, [a1; a0; q1; q0] =>
      let q := be2 q1 q0 in
      if (1 <=? q) && (q <=? 125) then Some (mkhreq HInput u (be2 a1 a0) q false [] []) else None
  | 5, [a1; a0; v1; v0] =>
      if ((v1 =? 255) || (v1 =? 0)) && (v0 =? 0)
      then Some (mkhreq HCoils u (be2 a1 a0) 1 true [v1 =? 255] []) else None
  | 6, [a1; a0; v1; v0] => Some (mkhreq HHolding u (be2 a1 a0) 1 true [] [be2 v1 v0])
  | 15, a1 :: a0 :: q1 :: q0 :: bc :: data =>
      let q := be2 q1 q0 in
      if (1 <=? q) && (q <=? 1968) && (bc =? (q + 7) / 8) && (lenN data =? (q + 7) / 8)
      then
        match decode_bools (N.to_nat q) data with
        | Some args => Some (mkhreq HCoils u (be2 a1 a0) q true args [])
        | None => None
        end
      else None
  | 16, a1 :: a0 :: q1 :: q0 :: bc :: data =>
      let q := be2 q1 q0 in
      if (1 <=? q) && (q <=? 123) && (bc =? 2 * q) && (lenN data =? 2 * q)
      then
        match bytes_to_u16s BigE data with
        | Some args => Some (mkhreq HHolding u (be2 a1 a0) q true [] args)
        | None => None
        end
      else None
  | _, _ => None
  end.

Definition supported_fc (fc : N) : bool := mem fc [1; 2; 3; 4; 5; 6; 15; 16].

Definition in_range (r : hreq) : bool := h_addr r + h_qty r - 1 <=? 65535.

(* well-formedness of what reaches a handler *)
Definition hreq_ok (r : hreq) : Prop :=
  h_addr r < 65536 /\ 1 <= h_qty r /\ h_addr r + h_qty r - 1 <= 65535 /\ h_unit r < 256 /\
  match h_kind r, h_write r with
  | HCoils, false | HDiscrete, false => h_qty r <= 2000
  | HHolding, false | HInput, false => h_qty r <= 125
  | HCoils, true => h_qty r <= 1968 /\ lenN (h_bools r) = h_qty r
  | HHolding, true => h_qty r <= 123 /\ lenN (h_regs r) = h_qty r /\ Forall (fun v => v < 65536) (h_regs r)
  | _, true => False
  end.

(* the response the specification demands for a dispatched request, given
   what the handler returned *)
(* function code of an exception response: the request's function code with
   the error bit (0x80) set. For every function code below 0x80 (in particular
   all supported ones) this is fc + 128; a request whose function code already
   has the bit set keeps its code. *)
Definition err_fc (fc : N) : N := N.lor 128 fc.

Definition spec_exception (p : pdu) (c : N) : pdu := mkpdu (p_unit p) (err_fc (p_fc p)) [c].

Definition spec_response (p : pdu) (r : hreq) (res : hres) : pdu :=
  let exc c := spec_exception p c in
  match r_err res with
  | HModbus c => exc c
  | HProtocol | HOther => exc 4
  | HNone =>
      match h_kind r, h_write r with
      | HCoils, false | HDiscrete, false =>
          if lenN (r_bools res) =? h_qty r
          then mkpdu (p_unit p) (p_fc p) (((h_qty r + 7) / 8) :: spec_coil_bytes (r_bools res))
          else exc 4
      | HHolding, false | HInput, false =>
          if lenN (r_regs res) =? h_qty r
          then mkpdu (p_unit p) (p_fc p)
                 ((2 * h_qty r) :: flat_map (fun v => [v / 256; v mod 256]) (r_regs res))
          else exc 4
      | _, true =>
          (* writes echo the first four payload bytes (address + value / quantity) *)
          mkpdu (p_unit p) (p_fc p) (firstn 4 (p_payload p))
      end
  end.

(* MBAP framing of a response: echoes the transaction id, protocol id 0 *)
Definition spec_mbap (txn : N) (p : pdu) : list N :=
  be16 txn ++ [0; 0] ++ be16 (2 + lenN (p_payload p)) ++ [p_unit p; p_fc p] ++ p_payload p.
