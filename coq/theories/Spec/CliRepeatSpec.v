(* What the CLI's help text documents about `repeat`:

     * repeat
       Restart execution of the given commands.
       rh:uint32:100 sleep:1s repeat  reads a 32-bit unsigned integer at addresses
                                      100-101 and pauses for one second, forever in a loop.

   "the given commands": every pass executes the commands AS GIVEN on the
   command line - same addresses, counts, types and values. What carries over
   from pass to pass is what the commands themselves changed: the unit id
   selected by the last `sid`, the transaction counter of the connection and
   the device's memory. Written from the help text, not from the code. *)
From Modbus Require Import Base.Bytes Model.Client Model.Cli Spec.ModbusSpec Spec.ClientSpec Spec.CliSpec.

(* unit id / encoding and transaction counter at the end of one pass *)
Fixpoint cli_doc_end (cfg : ccfg) (txn : N) (cs : list cli_operation) : ccfg * N :=
  match cs with
  | [] => (cfg, txn)
  | c :: t =>
      match c with
      | CoSetUnit u => cli_doc_end (mkcfg u (c_endian cfg) (c_word cfg)) txn t
      | _ =>
          match cli_doc_op c with
          | Some o =>
              if valid_op o then cli_doc_end cfg (u16 (txn + 1)) t
              else cli_doc_end cfg txn t
          | None => cli_doc_end cfg txn t
          end
      end
  end.

(* the frames of n passes: the documented frames of the list (Spec/CliSpec.v:
   cli_doc_frames), n times over, each pass under the unit id and transaction
   counter the previous one ended with *)
Fixpoint clr_doc_frames (n : nat) (cfg : ccfg) (txn : N) (cs : list cli_operation) : list (list N) :=
  match n with
  | O => []
  | S k =>
      cli_doc_frames cfg txn cs ++
      clr_doc_frames k (fst (cli_doc_end cfg txn cs)) (snd (cli_doc_end cfg txn cs)) cs
  end.
