(* Vocabulary of property C13 (cut-off exchanges), written from the property
   text: the number of handler invocations of a session, and the error class
   a client call reports when the reply stream ends at byte offset k. *)
From Modbus Require Import Base.Bytes Model.Wire Model.Client Model.Server.

(* handler invocation count of a session's event list *)
Definition cut_is_call (ev : event) : bool :=
  match ev with EvCall _ => true | _ => false end.

Definition cut_calls (evs : list event) : nat := length (filter cut_is_call evs).

(* "returns an error - never success" *)
Definition cut_failed (r : result values) : Prop := exists x, r = Err x.

(* the error class of a call whose reply is cut after k bytes (k counted from
   the first byte the receive loop looks at):
   MBAP  every read is an io.ReadFull whose error is returned unchanged: the
         deadline error for a stalled peer, EOF / unexpected EOF / reset else;
   RTU   a partial 3-byte header is a short frame; with a complete header a
         deadline or a reset is returned as such, an orderly close inside the
         body is a short frame, and a close exactly at the header boundary
         (nothing of the body read) is a plain EOF. *)
Definition cut_err_class (fr : framing) (e : send) (k : nat) : err :=
  match fr with
  | FMbap => short_err e
  | FRtu =>
      if Nat.eqb k 0 then short_err e
      else if Nat.ltb k 3 then EShortFrame
      else match e with
           | Stall => ETimeout
           | Reset => EIO
           | Closed => if Nat.eqb k 3 then EIO else EShortFrame
           end
  end.
