(* Declarative statement of the serial-line timing rules of property C19,
   written from the property text and the "Modbus over serial line" guide
   (section 2.5.1.1), not from the Go code. All times are whole nanoseconds,
   rates are bits per second. No division occurs in this file: every rule is
   an inequality between integer products. *)
From Modbus Require Import Base.Bytes.
Local Open Scope Z_scope.

(* one second, in nanoseconds *)
Definition ns_per_s : Z := 1000000000.

(* "the character time is eleven bit times": c is 11 / r seconds, expressed in
   nanoseconds and rounded down to a whole number of nanoseconds, i.e.
   c <= 11 * 10^9 / r < c + 1 *)
Definition char_time_ok (r c : Z) : Prop :=
  c * r <= 11 * ns_per_s /\ 11 * ns_per_s < (c + 1) * r.

(* "the inter-frame delay is 3.5 character times below 19200 bps and 1750
   microseconds from 19200 bps upward"; d is 3.5 * c rounded down to a whole
   number of nanoseconds: d <= 35 * c / 10 < d + 1 *)
Definition t35_ok (r c d : Z) : Prop :=
  (r < 19200 -> 10 * d <= 35 * c /\ 35 * c < 10 * (d + 1)) /\
  (19200 <= r -> d = 1750 * 1000).

(* the same delay against the exact value 3.5 * 11 * 10^9 / r = 38.5 * 10^9 / r:
   never above it and less than 4.5 ns below it (two roundings), everything
   multiplied by 2 * r *)
Definition t35_exact_ok (r d : Z) : Prop :=
  2 * d * r <= 77 * ns_per_s /\ 77 * ns_per_s - 9 * r < 2 * d * r.

(* boolean form of char_time_ok /\ t35_ok, evaluated by the correspondence
   check on the numbers the implementation produced *)
Definition timing_okb (r c d : Z) : bool :=
  (c * r <=? 11 * ns_per_s) && (11 * ns_per_s <? (c + 1) * r) &&
  (if r <? 19200 then (10 * d <=? 35 * c) && (35 * c <? 10 * (d + 1))
   else d =? 1750 * 1000).
