(* The integer literal syntax the CLI's help text refers to ("decimal", "hex"
   addresses and values): Go's integer literals (language specification,
   section "Integer literals"), which strconv.ParseUint / ParseInt with base
   argument 0 are documented to accept, and the number a literal denotes.
   Written from that grammar, not from strconv's code.

     int_lit        = decimal_lit | binary_lit | octal_lit | hex_lit .
     decimal_lit    = "0" | ( "1" ... "9" ) [ [ "_" ] decimal_digits ] .
     binary_lit     = "0" ( "b" | "B" ) [ "_" ] binary_digits .
     octal_lit      = "0" [ "o" | "O" ] [ "_" ] octal_digits .
     hex_lit        = "0" ( "x" | "X" ) [ "_" ] hex_digits .
     X_digits       = X_digit { [ "_" ] X_digit } .

   Strings are lists of bytes. *)
From Modbus Require Import Base.Bytes.

Definition sl_is_dec (c : N) : bool := (48 <=? c) && (c <=? 57).
Definition sl_is_bin (c : N) : bool := (c =? 48) || (c =? 49).
Definition sl_is_oct (c : N) : bool := (48 <=? c) && (c <=? 55).
Definition sl_is_hex (c : N) : bool :=
  sl_is_dec c || ((97 <=? c) && (c <=? 102)) || ((65 <=? c) && (c <=? 70)).

(* the value of a digit character: '0'-'9', 'A'-'F', 'a'-'f' *)
Definition sl_val (c : N) : N :=
  if c <=? 57 then c - 48 else if c <=? 70 then c - 55 else c - 87.

(* { [ "_" ] digit } *)
Fixpoint sl_sep_digits (isd : N -> bool) (s : list N) : bool :=
  match s with
  | [] => true
  | c :: t =>
      if isd c then sl_sep_digits isd t
      else if c =? 95 then
        match t with
        | d :: t' => isd d && sl_sep_digits isd t'
        | [] => false
        end
      else false
  end.

(* [ "_" ] digits, i.e. a non-empty { [ "_" ] digit } *)
Definition sl_digits1 (isd : N -> bool) (s : list N) : bool :=
  match s with
  | [] => false
  | _ => sl_sep_digits isd s
  end.

Definition sl_int_lit (s : list N) : bool :=
  match s with
  | [] => false
  | c0 :: t =>
      if c0 =? 48 then
        match t with
        | [] => true                                                  (* "0" *)
        | c1 :: t' =>
            if (c1 =? 98) || (c1 =? 66) then sl_digits1 sl_is_bin t'
            else if (c1 =? 111) || (c1 =? 79) then sl_digits1 sl_is_oct t'
            else if (c1 =? 120) || (c1 =? 88) then sl_digits1 sl_is_hex t'
            else sl_sep_digits sl_is_oct t                            (* "0" [ "_" ] octal_digits *)
        end
      else (49 <=? c0) && (c0 <=? 57) && sl_sep_digits sl_is_dec t
  end.

(* base and digit part of a literal *)
Definition sl_base_body (s : list N) : N * list N :=
  match s with
  | c0 :: c1 :: t' =>
      if c0 =? 48 then
        if (c1 =? 98) || (c1 =? 66) then (2, t')
        else if (c1 =? 111) || (c1 =? 79) then (8, t')
        else if (c1 =? 120) || (c1 =? 88) then (16, t')
        else (8, c1 :: t')
      else (10, s)
  | _ => (10, s)
  end.

(* positional value of the digits, underscores skipped *)
Definition sl_digits_value (base : N) (body : list N) : N :=
  fold_left (fun acc c => if c =? 95 then acc else acc * base + sl_val c) body 0.

Definition sl_value (s : list N) : N :=
  let '(base, body) := sl_base_body s in sl_digits_value base body.

(* optionally signed literal: sign and magnitude *)
Definition sl_unsign (s : list N) : bool * list N :=
  match s with
  | c :: t => if c =? 45 then (true, t) else if c =? 43 then (false, t) else (false, s)
  | [] => (false, s)
  end.

Definition sl_signed_lit (s : list N) : bool := sl_int_lit (snd (sl_unsign s)).

Definition sl_signed_value (s : list N) : Z :=
  let '(neg, m) := sl_unsign s in
  if neg then Z.opp (Z.of_N (sl_value m)) else Z.of_N (sl_value m).

(* canonical renderings *)
Definition sl_digit_char (d : N) : N := if d <? 10 then 48 + d else 87 + d.

(* digits of n in the base, most significant first, at least one *)
Fixpoint sl_render_digits (fuel : nat) (base n : N) (acc : list N) : list N :=
  match fuel with
  | O => acc
  | S f =>
      let acc' := sl_digit_char (n mod base) :: acc in
      if n / base =? 0 then acc' else sl_render_digits f base (n / base) acc'
  end.

Definition sl_render (base n : N) : list N := sl_render_digits (S (N.to_nat (N.size n))) base n [].

Definition sl_decimal (n : N) : list N := sl_render 10 n.
Definition sl_hex (n : N) : list N := [48; 120] ++ sl_render 16 n.
Definition sl_octal (n : N) : list N := [48; 111] ++ sl_render 8 n.
Definition sl_binary (n : N) : list N := [48; 98] ++ sl_render 2 n.
