(* Declarative vocabulary of C05 across Close() + Open() (written from the
   property text): which socket is in use, and the peer's whole frames each
   addressed to one of the client's sockets.

   A device answers to where the request came from: the reply to a request
   made on socket s is addressed to s. A reply to a request made BEFORE a
   reopen is therefore addressed to a socket older than the current one. *)
From Modbus Require Import Base.Bytes Model.Wire Model.Client Model.TxnHistory Model.TxnReopen
  Spec.ClientSpec Spec.TxnSpec.

Definition tr_is_reopen (s : tr_step) : bool :=
  match s with TrReopen => true | _ => false end.

(* number of reopen steps: after the steps xs the client uses socket
   tr_sock st + tr_reopens xs *)
Definition tr_reopens (xs : list tr_step) : N := lenN (filter tr_is_reopen xs).

(* a whole frame and the socket it is addressed to. ThReply i res is the reply
   to request number i of the transport attached to that socket (every
   transport starts counting at 0: request i carries id th_id 0 i, whatever
   the socket) *)
Definition tr_tframe := (N * th_frame)%type.

Definition tr_dgram_of (p : tr_tframe) : tr_dgram := mkdgram (fst p) (th_bytes 0 (snd p)).

(* one scripted call: the frames the network delivers while it is outstanding,
   replies to requests of this or of earlier sockets, foreign frames: any list *)
Record tr_scall := mktrscall { tsc_op : op; tsc_frames : list tr_tframe; tsc_end : send }.

Definition tr_scall_concrete (c : tr_scall) : tr_call :=
  mktrcall (tsc_op c) (map tr_dgram_of (tsc_frames c)) (tsc_end c).

(* the frames socket k receives *)
Definition tr_visible (k : N) (fs : list tr_tframe) : list th_frame :=
  map snd (filter (fun p => fst p =? k) fs).

(* the call as a step of a history on socket k (Spec/TxnSpec.v) *)
Definition tr_sstep (k : N) (c : tr_scall) : th_sstep :=
  mksstep (tsc_op c) (tr_visible k (tsc_frames c)) (tsc_end c).

Definition tr_scall_ok (c : tr_scall) : Prop :=
  op_wf (tsc_op c) /\ valid_op (tsc_op c) = true /\
  Forall (fun p => th_frame_wf (snd p)) (tsc_frames c).
