(* Declarative statement of the protocol facts the properties refer to.
   Written from the property text / README / Modbus specification, not from
   the Go code. *)
From Modbus Require Import Base.Bytes Model.Encoding.

(* ---- CRC-16/MODBUS, bit-serial: reflected polynomial 0xA001, init 0xFFFF *)
Definition bit1 (s : N) : N :=
  if N.odd s then N.lxor (N.shiftr s 1) 0xA001 else N.shiftr s 1.
Definition bit8 (s : N) : N := bit1 (bit1 (bit1 (bit1 (bit1 (bit1 (bit1 (bit1 s))))))).
Definition step_ref (s b : N) : N := bit8 (N.lxor s b).
Definition crc_ref (l : list N) : N := fold_left step_ref l 0xFFFF.

(* ---- Register layout: a value of n 16-bit words, most significant word
   first, each word big-endian; LowFirst reverses the word order; LittleE
   swaps the two bytes of every word. *)
Definition words_of (n : nat) (v : N) : list N :=  (* most significant first *)
  map (fun k => (v / 2 ^ (16 * N.of_nat k)) mod 65536) (rev (seq 0 n)).
Definition word_bytes (e : endian) (x : N) : list N :=
  match e with BigE => [x / 256; x mod 256] | LittleE => [x mod 256; x / 256] end.
Definition layout (e : endian) (w : wordorder) (ws : list N) : list N :=
  flat_map (word_bytes e) (match w with HighFirst => ws | LowFirst => rev ws end).
Definition spec_bytes (n : nat) (e : endian) (w : wordorder) (v : N) : list N :=
  layout e w (words_of n v).

(* ---- Coil packing: bit (i mod 8) of byte (i / 8) is coil i, zero padded *)
Definition spec_coil_byte (l : list bool) (j : nat) : N :=
  fold_right (fun k acc => acc + (if nth (8 * j + k) l false then 2 ^ N.of_nat k else 0)) 0
             (seq 0 8).
Definition spec_coil_bytes (l : list bool) : list N :=
  map (spec_coil_byte l) (seq 0 ((length l + 7) / 8)).
