(* Declarative client-side specification, written from the property texts of
   C01 / C02 and the Modbus application protocol, not from the Go code. *)
From Modbus Require Import Base.Bytes Model.Encoding Model.Wire Model.Client Spec.ModbusSpec.

(* argument types of the public API: uint16 addresses and quantities, values
   that fit their width, byte slices *)
Definition op_wf (o : op) : Prop :=
  match o with
  | OpReadBools _ a q => a < 65536 /\ q < 65536
  | OpReadRegs w a q _ => (w = 1 \/ w = 2 \/ w = 4) /\ a < 65536 /\ q < 65536
  | OpReadBytes _ a q _ => a < 65536 /\ q < 65536
  | OpWriteCoil a _ => a < 65536
  | OpWriteCoils a _ => a < 65536
  | OpWriteReg a v => a < 65536 /\ v < 65536
  | OpWriteRegs w a vs =>
      (w = 1 \/ w = 2 \/ w = 4) /\ a < 65536 /\ Forall (fun v => v < 2 ^ (16 * w)) vs
  | OpWriteBytes _ a bs => a < 65536 /\ bytesb bs = true
  end.

Definition cfg_wf (cfg : ccfg) : Prop := c_unit cfg < 256.

Definition op_addr (o : op) : N :=
  match o with
  | OpReadBools _ a _ | OpReadRegs _ a _ _ | OpReadBytes _ a _ _ | OpWriteCoil a _
  | OpWriteCoils a _ | OpWriteReg a _ | OpWriteRegs _ a _ | OpWriteBytes _ a _ => a
  end.

(* number of coils / registers the operation covers: unbounded arithmetic *)
Definition op_count (o : op) : N :=
  match o with
  | OpReadBools _ _ q => q
  | OpReadRegs w _ q _ => q * w
  | OpReadBytes _ _ q _ => (q + 1) / 2
  | OpWriteCoil _ _ => 1
  | OpWriteCoils _ vs => lenN vs
  | OpWriteReg _ _ => 1
  | OpWriteRegs w _ vs => w * lenN vs
  | OpWriteBytes _ _ bs => (lenN bs + 1) / 2
  end.

(* per-function maxima of the property text *)
Definition op_limit (o : op) : N :=
  match o with
  | OpReadBools _ _ _ => 2000
  | OpReadRegs _ _ _ _ | OpReadBytes _ _ _ _ => 125
  | OpWriteCoil _ _ | OpWriteReg _ _ => 1
  | OpWriteCoils _ _ => 1968
  | OpWriteRegs _ _ _ | OpWriteBytes _ _ _ => 123
  end.

Definition op_regtype_ok (o : op) : bool :=
  match o with
  | OpReadRegs _ _ _ BadRegType | OpReadBytes _ _ _ BadRegType => false
  | _ => true
  end.

(* local rejection happens exactly when this is false *)
Definition valid_op (o : op) : bool :=
  op_regtype_ok o && (1 <=? op_count o) && (op_count o <=? op_limit o)
  && (op_addr o + op_count o - 1 <=? 65535).

Definition spec_fc (o : op) : N :=
  match o with
  | OpReadBools false _ _ => 1
  | OpReadBools true _ _ => 2
  | OpReadRegs _ _ _ Holding | OpReadBytes _ _ _ Holding => 3
  | OpReadRegs _ _ _ _ | OpReadBytes _ _ _ _ => 4
  | OpWriteCoil _ _ => 5
  | OpWriteReg _ _ => 6
  | OpWriteCoils _ _ => 15
  | OpWriteRegs _ _ _ | OpWriteBytes _ _ _ => 16
  end.

(* per-register byte swap *)
Fixpoint pair_swap (l : list N) : list N :=
  match l with
  | a :: b :: t => b :: a :: pair_swap t
  | l' => l'
  end.

(* bytes two per register, odd length zero padded; little-endian = per-register swap *)
Definition spec_byte_image (cfg : ccfg) (raw : bool) (bs : list N) : list N :=
  let padded := if Nat.even (length bs) then bs else bs ++ [0] in
  match raw, c_endian cfg with
  | false, LittleE => pair_swap padded
  | _, _ => padded
  end.

Definition spec_payload (cfg : ccfg) (o : op) : list N :=
  match o with
  | OpReadBools _ a _ | OpReadRegs _ a _ _ | OpReadBytes _ a _ _ =>
      be16 a ++ be16 (op_count o)
  | OpWriteCoil a v => be16 a ++ (if v then [255; 0] else [0; 0])
  | OpWriteCoils a vs =>
      be16 a ++ be16 (lenN vs) ++ [(lenN vs + 7) / 8] ++ spec_coil_bytes vs
  | OpWriteReg a v => be16 a ++ spec_bytes 1 (c_endian cfg) (c_word cfg) v
  | OpWriteRegs w a vs =>
      be16 a ++ be16 (op_count o) ++ [2 * op_count o]
      ++ flat_map (spec_bytes (N.to_nat w) (c_endian cfg) (c_word cfg)) vs
  | OpWriteBytes raw a bs =>
      be16 a ++ be16 (op_count o) ++ [2 * op_count o] ++ spec_byte_image cfg raw bs
  end.

Definition spec_pdu (cfg : ccfg) (o : op) : pdu :=
  mkpdu (c_unit cfg) (spec_fc o) (spec_payload cfg o).

(* the frame on the wire: MBAP header or RTU CRC (bit-serial reference) *)
Definition spec_frame (fr : framing) (txn : N) (p : pdu) : list N :=
  match fr with
  | FMbap => be16 txn ++ [0; 0] ++ be16 (2 + lenN (p_payload p)) ++ [p_unit p; p_fc p] ++ p_payload p
  | FRtu =>
      let body := [p_unit p; p_fc p] ++ p_payload p in
      body ++ [crc_ref body mod 256; crc_ref body / 256]
  end.

(* ------------------------------------------------------------- replies *)

(* coil i of a reply is bit (i mod 8) of data byte (i / 8) *)
Definition coil_at (data : list N) (i : nat) : bool :=
  N.testbit (nth (i / 8) data 0) (N.of_nat (i mod 8)).

(* res is a well-formed reply to the request of operation o, delivering vs *)
Definition answers (cfg : ccfg) (o : op) (res : pdu) (vs : values) : Prop :=
  p_unit res = c_unit cfg /\ p_fc res = spec_fc o /\
  match o with
  | OpReadBools _ _ q =>
      exists data l,
        p_payload res = lenN data :: data /\ lenN data = (q + 7) / 8 /\
        vs = VBools l /\ lenN l = q /\
        forall i, (i < length l)%nat -> nth i l false = coil_at data i
  | OpReadRegs w _ q _ =>
      exists xs,
        p_payload res = (2 * (q * w)) :: flat_map (spec_bytes (N.to_nat w) (c_endian cfg) (c_word cfg)) xs /\
        lenN xs = q /\ Forall (fun v => v < 2 ^ (16 * w)) xs /\ vs = VNums xs
  | OpReadBytes raw _ q _ =>
      exists data,
        p_payload res = (2 * op_count o) :: data /\ lenN data = 2 * op_count o /\
        vs = VBytes (firstn (N.to_nat q)
                       (match raw, c_endian cfg with
                        | false, LittleE => pair_swap data
                        | _, _ => data
                        end))
  | OpWriteCoil a v => p_payload res = be16 a ++ (if v then [255; 0] else [0; 0]) /\ vs = VUnit
  | OpWriteReg a v =>
      p_payload res = be16 a ++ spec_bytes 1 (c_endian cfg) (c_word cfg) v /\ vs = VUnit
  | OpWriteCoils a _ | OpWriteRegs _ a _ | OpWriteBytes _ a _ =>
      p_payload res = be16 a ++ be16 (op_count o) /\ vs = VUnit
  end.

(* a well-formed exception reply to o: error bit set on the function code, one
   code byte, from the addressed unit or the gateway unit 255 *)
Definition exception_reply (cfg : ccfg) (o : op) (res : pdu) (code : N) : Prop :=
  (p_unit res = c_unit cfg \/ p_unit res = 255) /\
  p_fc res = spec_fc o + 128 /\ p_payload res = [code].

(* the documented exception table *)
Definition documented_exception (code : N) : bool :=
  mem code [1; 2; 3; 4; 5; 6; 8; 10; 11].

(* an MBAP frame the client must skip: foreign protocol id or transaction id *)
Definition skippable (txn : N) (f : list N) : Prop :=
  exists t proto unit fc payload,
    f = be16 t ++ be16 proto ++ be16 (2 + lenN payload) ++ [unit; fc] ++ payload /\
    t < 65536 /\ proto < 65536 /\ lenN payload <= 252 /\ (proto <> 0 \/ t <> txn).
