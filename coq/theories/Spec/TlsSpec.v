(* Declarative vocabulary of property C14, written from the property text:

     "A tcp+tls server never invokes a handler for a peer that did not
      complete a TLS 1.2-or-later handshake presenting a certificate that
      verifies (chain or pinned leaf, validity period, client-auth usage)
      against the configured client CAs, and a tcp+tls client never sends a
      request to a server whose certificate does not verify against the
      configured roots for the dialled host or that negotiates below TLS 1.2."

   Whether a chain verifies is Go's crypto/x509 business (chain building or
   pinned leaf, validity period, extended key usage, host name): it is the
   predicate `verifies pool usage time host chain`, an oracle here. *)
From Modbus Require Import Base.Bytes Model.TlsPolicy.

Definition tls12_or_later (v : tls_version) : Prop := v = TLS12 \/ v = TLS13.

Section TlsSpec.
  Variable verifies : option (list tls_cert) -> tls_usage -> N -> list N -> list tls_cert -> Prop.
  Variable now : N.

  (* the peer of a server completed a handshake (session sess) at TLS 1.2 or
     later, at a version it offered, and presented a certificate chain that
     verifies against the client CAs `cas` for client authentication now *)
  Definition spec_client_authenticated (cas : list tls_cert) (peer : tls_peer) (sess : tls_session) : Prop :=
    tpe_speaks_tls peer = true /\
    tls12_or_later (tss_version sess) /\
    In (tss_version sess) (tpe_versions peer) /\
    exists leaf more,
      tpe_chain peer = leaf :: more /\
      tss_peer_certs sess = leaf :: more /\
      verifies (Some cas) TlsUsageClientAuth now [] (leaf :: more).

  (* the server a client dialled as `host` completed a handshake at TLS 1.2 or
     later and presented a chain that verifies against `roots` for server
     authentication, for that host name, now *)
  Definition spec_server_authenticated (roots : list tls_cert) (host : list N)
                                       (server : tls_peer) (sess : tls_session) : Prop :=
    tpe_speaks_tls server = true /\
    tls12_or_later (tss_version sess) /\
    In (tss_version sess) (tpe_versions server) /\
    exists leaf more,
      tpe_chain server = leaf :: more /\
      tss_peer_certs sess = leaf :: more /\
      verifies (Some roots) TlsUsageServerAuth now host (leaf :: more).
End TlsSpec.
