(* Vocabulary of property C12, written from the property text: the ways the
   peer's byte stream may be cut into reads (TCP segments) or datagrams (UDP),
   and what "the same result" means for a client call. *)
From Modbus Require Import Base.Bytes Model.Wire Model.Client Model.Chunks.

(* two deliveries carry the same byte stream *)
Definition same_stream (cs1 cs2 : list (list N)) : Prop := concat cs1 = concat cs2.

(* reference delivery: one frame per read is the list of frames itself *)

(* byte by byte *)
Definition seg_bytewise (s : list N) : list (list N) := map (fun b => [b]) s.

(* split at one position / at two positions *)
Definition seg_split (k : nat) (s : list N) : list (list N) := [firstn k s; skipn k s].
Definition seg_split2 (j k : nat) (s : list N) : list (list N) :=
  [firstn j s; firstn k (skipn j s); skipn k (skipn j s)].

(* all frames coalesced into one segment *)
Definition seg_coalesced (frames : list (list N)) : list (list N) := [concat frames].

(* UDP: no datagram exceeds the maximum frame size *)
Definition dgrams_ok (ds : list (list N)) : Prop := Forall (fun d => (length d <= 260)%nat) ds.

(* a client call has the same observable outcome on two connections: result,
   frames written, transaction counter and the bytes left unread *)
Definition call_same (r1 r2 : gcall_result (list (list N))) : Prop :=
  gcr_res r1 = gcr_res r2 /\ gcr_writes r1 = gcr_writes r2 /\
  gcr_txn r1 = gcr_txn r2 /\ concat (gcr_rest r1) = concat (gcr_rest r2).

(* b is a suffix of a *)
Definition is_suffix (b a : list N) : Prop := exists pre, a = pre ++ b.
