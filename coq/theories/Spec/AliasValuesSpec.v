(* Spec vocabulary for C18b (the deepening of C18), written from the property
   text: "what a read call returned" is what the caller finds when it reads
   the returned slice through memory; "the caller's own code" may store into
   any array it can reach between two calls. Nothing here says how calls
   work. *)
From Coq Require Import List.
From Modbus Require Import Base.Bytes Model.Wire Model.Client Model.Heap Model.HeapJunk Spec.AliasSpec.

(* the outcome of a call as its caller sees it in heap h: the error, or the
   ELEMENTS of the returned slice (spec_contents: the cells off .. off+len-1
   of its array in h); bools are stored as 0 / non-0 cells *)
Definition spec_result_values (h : hp_heap) (r : result hp_value) : result values :=
  match r with
  | Ok HvUnit => Ok VUnit
  | Ok (HvBools s) => Ok (VBools (map hp_bool (spec_contents h s)))
  | Ok (HvNums s) => Ok (VNums (spec_contents h s))
  | Ok (HvBytes s) => Ok (VBytes (spec_contents h s))
  | Err x => Err x
  | Panic => Panic
  | OutOfFuel => OutOfFuel
  end.

(* the whole heap-level call seen at the value level: outcome (read in h),
   transmitted frames, peer bytes left unread, transaction counter *)
Definition spec_call_view (h : hp_heap) (r : hp_callres) : call_result :=
  mkcall (spec_result_values h (hr_res r)) (hr_writes r) (hr_rest r) (hr_txn r).

(* ------------------------------------------- histories with caller stores *)

(* one client as in Model/Heap.v (hp_client), but
   - between two calls the caller's own code may store xs at the cells
     p, p+1, ... of ANY array id: an argument it will pass again, the spare
     capacity of a slice, a result it was returned. A store that does not fit
     the array stores nothing (it is a panic of the caller's code, not of the
     library);
   - the calls are those of Model/HeapJunk.v: besides what hp_call does they
     leave behind the arrays j1 (receive buffers of skipped / rejected
     frames) and j2 (temporaries of the decoders). *)
Inductive hx_event :=
| HxStore (id p : nat) (xs : list N)
| HxAlloc (xs : list N)
| HxCall (cfg : ccfg) (o : hp_op) (e : send) (chunk : list N) (j1 j2 : list (list N)).

Definition hx_store (id p : nat) (xs : list N) (h : hp_heap) : hp_heap :=
  if (p + length xs <=? length (hp_arr h id))%nat
  then hp_upd h id (arr_write (hp_arr h id) p xs)
  else h.

Definition hx_step (gr : nat -> nat) (fr : framing) (c : hp_client) (ev : hx_event) : hp_client :=
  match ev with
  | HxStore id p xs => mkhc (hx_store id p xs (hc_heap c)) (hc_txn c) (hc_left c) (hc_results c)
  | HxAlloc xs => mkhc (hc_heap c ++ [xs]) (hc_txn c) (hc_left c) (hc_results c)
  | HxCall cfg o e chunk j1 j2 =>
      let '(r, h') := hj_call gr fr cfg (hc_txn c) o e (hc_left c ++ chunk) j1 j2 (hc_heap c) in
      mkhc h' (hr_txn r) (hr_rest r) (hv_slices (hr_res r) ++ hc_results c)
  end.

Definition hx_run (gr : nat -> nat) (fr : framing) (c : hp_client) (evs : list hx_event)
  : hp_client := fold_left (hx_step gr fr) evs c.

(* the same history with every library event (calls, allocations) erased:
   what the caller's own stores alone do to heap h *)
Definition hx_caller_only (evs : list hx_event) (h : hp_heap) : hp_heap :=
  fold_left (fun h' ev => match ev with
                          | HxStore id p xs => hx_store id p xs h'
                          | _ => h'
                          end) evs h.

(* the histories of C18 (Model/Heap.v) are the histories without stores and
   without left-over buffers *)
Definition hx_of_event (ev : hp_event) : hx_event :=
  match ev with
  | HeAlloc xs => HxAlloc xs
  | HeCall cfg o e chunk => HxCall cfg o e chunk [] []
  end.
