(* Vocabulary of the C07c statements (a long-lived connection to a peer that
   is alive), written from the property text: "a valid reply that arrives
   before the timeout is never turned into a timeout" - for every call of a
   session of any length. *)
From Modbus Require Import Base.Bytes Model.Wire Model.Client Model.Timed Model.TimedWrite
  Model.TimedSteady Spec.ClientSpec Spec.TimedSpec.

(* what the peer may do with one request: answer within the timeout, stay
   silent, or send a frame with a foreign transaction id before the reply *)
Definition tm_act_wf (k : tm_conf) (a : tm_peer_act) : Prop :=
  match a with
  | PaReply d => (0 <= d <= tm_timeout k)%Z
  | PaSilent => True
  | PaForeign off => 0 < off < 65536
  end.

(* one call of the session: a valid operation and a reply PDU (at most 253
   bytes, as every Modbus PDU) that answers it *)
Definition tm_item_wf (k : tm_conf) (cfg : ccfg) (it : op * pdu * tm_peer_act) : Prop :=
  let '(o, res, a) := it in
  op_wf o /\ valid_op o = true /\ bytesb (p_payload res) = true /\ lenN (p_payload res) <= 252 /\
  (exists vs, answers cfg o res vs) /\ tm_act_wf k a.

(* what the call must yield: the values of the reply, within the timeout,
   unless the peer stayed silent: then request-timed-out at the deadline *)
Definition tm_step_ok (k : tm_conf) (cfg : ccfg) (it : op * pdu * tm_peer_act) (st : tm_wstep) : Prop :=
  let '(o, res, a) := it in
  match a with
  | PaSilent => tws_res st = Err ETimeout /\ tws_finish st = (tws_start st + tm_timeout k)%Z
  | _ => (exists vs, answers cfg o res vs /\ tws_res st = Ok vs) /\
         (tws_start st <= tws_finish st <= tws_start st + tm_timeout k)%Z
  end.
