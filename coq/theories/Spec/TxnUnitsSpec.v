(* Declarative vocabulary of C05 for histories in which the application
   changes the unit id between requests on one connection (written from the
   property text: "consecutive requests use distinct transaction ids" - all
   requests of the connection, whatever unit each one is addressed to).

   The requests of a connection are numbered 0, 1, 2, ... in the order they
   are made; unit changes are not requests and do not take a number. The
   matching rule is the one of Spec/TxnSpec.v on this numbering: request j
   takes the first pending Modbus reply built for a request i = j (mod 2^16),
   whatever unit request i was addressed to. *)
From Modbus Require Import Base.Bytes Model.Wire Model.Client Model.TxnHistory
  Model.TxnUnits Spec.ClientSpec Spec.TxnSpec.

(* ---- any byte streams: steps of Model/TxnUnits.v *)

(* the calls of a history in order, unit changes erased: position in this
   list = number of the request on the connection *)
Fixpoint thu_erase (xs : list thu_step) : list th_step :=
  match xs with
  | [] => []
  | UCall c :: t => c :: thu_erase t
  | USetUnit _ :: t => thu_erase t
  end.

(* the unit id in force after the steps: that of the last unit change, u if
   there was none *)
Fixpoint thu_unit_run (u : N) (xs : list thu_step) : N :=
  match xs with
  | [] => u
  | UCall _ :: t => thu_unit_run u t
  | USetUnit v :: t => thu_unit_run v t
  end.

(* SetUnitId takes a byte *)
Definition thu_step_wf (x : thu_step) : Prop :=
  match x with
  | UCall c => op_wf (ths_op c)
  | USetUnit u => u < 256
  end.

(* ---- whole tagged frames: scripted steps *)

Inductive thu_sstep :=
| SCall (x : th_sstep)     (* a call and the whole frames delivered while it is outstanding *)
| SSetUnit (u : N).        (* SetUnitId(u) *)

Definition thu_concrete (txn0 : N) (s : thu_sstep) : thu_step :=
  match s with
  | SCall x => UCall (th_concrete txn0 x)
  | SSetUnit u => USetUnit u
  end.

Fixpoint thu_calls (xs : list thu_sstep) : list th_sstep :=
  match xs with
  | [] => []
  | SCall x :: t => x :: thu_calls t
  | SSetUnit _ :: t => thu_calls t
  end.

Fixpoint thu_unit_after (u : N) (xs : list thu_sstep) : N :=
  match xs with
  | [] => u
  | SCall _ :: t => thu_unit_after u t
  | SSetUnit v :: t => thu_unit_after v t
  end.

Definition thu_sstep_ok (s : thu_sstep) : Prop :=
  match s with
  | SCall x => th_sstep_ok x
  | SSetUnit u => u < 256
  end.
