(* Property C04: the sequential register file a client-server pair must
   behave like. Written from the property text and the documented layout
   (README: big-endian registers on the wire, most significant word at the
   lowest address unless low-word-first is selected, per-register byte swap
   for little-endian), NOT from the codecs of the library: no function of
   Model/Encoding.v, of the client or of the server is used here; Model.Client
   and Model.Server are imported for the vocabulary only (op, ccfg, values,
   hreq, herr). *)
From Modbus Require Import Base.Bytes Base.Cells Model.Encoding Model.Wire Model.Client Model.Server
  Spec.ModbusSpec Spec.ClientSpec.

(* registers are 16-bit cells *)
Definition rfmem_wf (m : rfmem) : Prop :=
  forall k, rf_holding m k < 65536 /\ rf_input m k < 65536.

(* what a history is made of *)
Inductive rf_op :=
| RfCall (o : op)          (* a typed public client call *)
| RfSetUnit (u : N)        (* SetUnitId *)
| RfSetEnc (e w : N).      (* SetEncoding with its two selectors *)

Definition rf_op_wf (x : rf_op) : Prop :=
  match x with
  | RfCall o => op_wf o
  | RfSetUnit u => u < 256
  | RfSetEnc _ _ => True
  end.

(* ------------------------------------------------------------- layout *)

(* the two bytes of a 16-bit word exchanged *)
Definition rf_swap16 (x : N) : N := (x mod 256) * 256 + x / 256.

(* a register holds the wire image of its word read big-endian: the word
   itself for big-endian, the word with its bytes swapped for little-endian *)
Definition rf_image (e : endian) (x : N) : N :=
  match e with BigE => x | LittleE => rf_swap16 x end.

(* most significant word at the lowest address unless low-word-first *)
Definition rf_order {A} (w : wordorder) (l : list A) : list A :=
  match w with HighFirst => l | LowFirst => rev l end.

(* the w registers (lowest address first) a value of w words occupies *)
Definition rf_value_regs (c : ccfg) (w : N) (v : N) : list N :=
  map (rf_image (c_endian c)) (rf_order (c_word c) (words_of (N.to_nat w) v)).

(* words, most significant first, to the value *)
Definition rf_join (ws : list N) : N := fold_left (fun acc x => acc * 65536 + x) ws 0.

(* the value held by a group of registers (lowest address first) *)
Definition rf_regs_value (c : ccfg) (rs : list N) : N :=
  rf_join (rf_order (c_word c) (map (rf_image (c_endian c)) rs)).

(* bytes: two per register, the first byte is the high byte, odd length zero
   padded; swapped = per-register byte swap *)
Fixpoint rf_bytes_regs (swapped : bool) (l : list N) : list N :=
  match l with
  | a :: b :: t => (if swapped then b * 256 + a else a * 256 + b) :: rf_bytes_regs swapped t
  | [a] => [if swapped then a else a * 256]
  | [] => []
  end.

Definition rf_reg_bytes (swapped : bool) (r : N) : list N :=
  if swapped then [r mod 256; r / 256] else [r / 256; r mod 256].

(* WriteBytes / ReadBytes observe the byte order, the raw variants do not *)
Definition rf_swapped (c : ccfg) (raw : bool) : bool :=
  match raw, c_endian c with
  | false, LittleE => true
  | _, _ => false
  end.

Definition rf_kind (rt : regtype) : hkind :=
  match rt with Holding => HHolding | _ => HInput end.

Definition rf_table (m : rfmem) (rt : regtype) : N -> N :=
  match rt with Holding => rf_holding m | _ => rf_input m end.

(* ------------------------------------------------------------- one call *)

(* the invocation the handler must see *)
Definition rf_request (c : ccfg) (o : op) : hreq :=
  let u := c_unit c in
  match o with
  | OpReadBools di a q => mkhreq (if di then HDiscrete else HCoils) u a q false [] []
  | OpReadRegs w a q rt => mkhreq (rf_kind rt) u a (q * w) false [] []
  | OpReadBytes _ a q rt => mkhreq (rf_kind rt) u a ((q + 1) / 2) false [] []
  | OpWriteCoil a v => mkhreq HCoils u a 1 true [v] []
  | OpWriteCoils a vs => mkhreq HCoils u a (lenN vs) true vs []
  | OpWriteReg a v => mkhreq HHolding u a 1 true [] (rf_value_regs c 1 v)
  | OpWriteRegs w a vs =>
      mkhreq HHolding u a (w * lenN vs) true [] (flat_map (rf_value_regs c w) vs)
  | OpWriteBytes raw a bs =>
      mkhreq HHolding u a ((lenN bs + 1) / 2) true [] (rf_bytes_regs (rf_swapped c raw) bs)
  end.

(* the memory after the call *)
Definition rf_commit (c : ccfg) (m : rfmem) (o : op) : rfmem :=
  let coils l a := mkrfmem (cells_store (rf_coils m) a l) (rf_discrete m) (rf_holding m) (rf_input m) in
  let regs l a := mkrfmem (rf_coils m) (rf_discrete m) (cells_store (rf_holding m) a l) (rf_input m) in
  match o with
  | OpReadBools _ _ _ | OpReadRegs _ _ _ _ | OpReadBytes _ _ _ _ => m
  | OpWriteCoil a v => coils [v] a
  | OpWriteCoils a vs => coils vs a
  | OpWriteReg a v => regs (rf_value_regs c 1 v) a
  | OpWriteRegs w a vs => regs (flat_map (rf_value_regs c w) vs) a
  | OpWriteBytes raw a bs => regs (rf_bytes_regs (rf_swapped c raw) bs) a
  end.

(* what the caller gets: value i of a typed read at a is decoded from the
   registers a + i*w ... a + i*w + w - 1 *)
Definition rf_read (c : ccfg) (m : rfmem) (o : op) : values :=
  match o with
  | OpReadBools di a q => VBools (cells_load (if di then rf_discrete m else rf_coils m) a q)
  | OpReadRegs w a q rt =>
      VNums (map (fun i => rf_regs_value c (cells_load (rf_table m rt) (a + N.of_nat i * w) w))
                 (seq 0 (N.to_nat q)))
  | OpReadBytes raw a q rt =>
      VBytes (firstn (N.to_nat q)
                (flat_map (rf_reg_bytes (rf_swapped c raw)) (cells_load (rf_table m rt) a ((q + 1) / 2))))
  | _ => VUnit
  end.

(* the handler's failure as the caller sees it: a Modbus error surfaces as
   itself, any other error as server-device-failure (code 4) *)
Definition rf_failure (f : option herr) : option N :=
  match f with
  | Some (HModbus code) => Some code
  | Some HProtocol | Some HOther => Some 4
  | Some HNone | None => None
  end.

(* a Modbus error is one of the documented ones *)
Definition rf_fail_wf (fail : hreq -> option herr) : Prop :=
  forall r code, fail r = Some (HModbus code) -> documented_exception code = true.

Definition rf_endian (e : N) : option endian :=
  if e =? 1 then Some BigE else if e =? 2 then Some LittleE else None.
Definition rf_wordorder (w : N) : option wordorder :=
  if w =? 1 then Some HighFirst else if w =? 2 then Some LowFirst else None.

(* result of a step: what the caller sees and the handler invocations *)
Definition rf_result := (result values * list hreq)%type.

Definition rf_step (fail : hreq -> option herr) (s : ccfg * rfmem) (x : rf_op)
  : (ccfg * rfmem) * rf_result :=
  let '(c, m) := s in
  match x with
  | RfCall o =>
      if valid_op o then
        let r := rf_request c o in
        match rf_failure (fail r) with
        | Some code => ((c, m), (Err (EExc code), [r]))
        | None => ((c, rf_commit c m o), (Ok (rf_read c m o), [r]))
        end
      else ((c, m), (Err EParams, []))
  | RfSetUnit u => ((mkcfg u (c_endian c) (c_word c), m), (Ok VUnit, []))
  | RfSetEnc e w =>
      match rf_endian e, rf_wordorder w with
      | Some e', Some w' => ((mkcfg (c_unit c) e' w', m), (Ok VUnit, []))
      | _, _ => ((c, m), (Err EParams, []))
      end
  end.

(* histories: every step comes with the failure policy in force *)
Fixpoint rf_run (s : ccfg * rfmem) (h : list ((hreq -> option herr) * rf_op))
  : (ccfg * rfmem) * list rf_result :=
  match h with
  | [] => (s, [])
  | (fail, x) :: t =>
      let '(s1, out) := rf_step fail s x in
      let '(s2, outs) := rf_run s1 t in
      (s2, out :: outs)
  end.
