(* What the CLI's help text (displayHelp in cmd/modbus-cli.go) documents:
   the command grammar, the client operation each command stands for, and the
   requests a command list puts on the wire. Written from the help text and
   the property text, not from the parser's code.

     <rc|readCoils>:<addr>[+additional quantity]
     <rdi|readDiscreteInputs>:<addr>[+additional quantity]
     <rh|readHoldingRegisters>:<type>:<addr>[+additional quantity]
     <ri|readInputRegisters>:<type>:<addr>[+additional quantity]
     <wc|writeCoil>:<addr>:<true|false>
     <wr|writeRegister>:<type>:<addr>:<value>
     <setUnitId|suid|sid>:<unit id>

   Numbers are integer literals of the Go syntax (decimal, 0x, 0o/0, 0b, with
   digit-separating underscores); values of signed types may carry a sign. *)
From Modbus Require Import Base.Bytes Model.Encoding Model.Wire Model.Client Model.Strconv Model.Cli
  Spec.ModbusSpec Spec.ClientSpec Spec.StrconvSpec.

(* ------------------------------------------------------------ operations *)

(* "rh:float32:500+10 reads 11 32-bit floating point numbers at addresses
   500-521": ONE read of count = additional + 1 values of the type (bytes:
   count bytes, two per register), plain arithmetic *)
Definition cli_doc_op (c : cli_operation) : option op :=
  match c with
  | CoReadBools coil a q => Some (OpReadBools (negb coil) a (q + 1))
  | CoReadRegs holding t a q =>
      let rt := if holding then Holding else InputReg in
      match t with
      | CtBytes => Some (OpReadBytes false a (q + 1) rt)
      | _ => Some (OpReadRegs (cli_width t) a (q + 1) rt)
      end
  | CoWriteCoil a v => Some (OpWriteCoil a v)
  | CoWriteNum t a v =>
      match cli_width t with
      | 1 => Some (OpWriteReg a v)
      | w => Some (OpWriteRegs w a [v])
      end
  | CoWriteBytes a bs => Some (OpWriteBytes false a bs)
  | CoSetUnit _ => None
  end.

(* the frames a command list puts on the wire (Modbus/TCP): one request per
   command whose operation is within protocol limits, none for the others;
   "sid:n" selects the unit id of subsequent requests; transaction ids count
   the requests *)
Fixpoint cli_doc_frames (cfg : ccfg) (txn : N) (cs : list cli_operation) : list (list N) :=
  match cs with
  | [] => []
  | c :: t =>
      match c with
      | CoSetUnit u => cli_doc_frames (mkcfg u (c_endian cfg) (c_word cfg)) txn t
      | _ =>
          match cli_doc_op c with
          | Some o =>
              if valid_op o
              then spec_frame FMbap (u16 (txn + 1)) (spec_pdu cfg o)
                     :: cli_doc_frames cfg (u16 (txn + 1)) t
              else cli_doc_frames cfg txn t
          | None => cli_doc_frames cfg txn t
          end
      end
  end.

(* the fields of the operation are of their Go types *)
Definition cli_op_wf (c : cli_operation) : Prop :=
  match c with
  | CoReadBools _ a q | CoReadRegs _ _ a q => a < 65536 /\ q < 65536
  | CoWriteCoil a _ => a < 65536
  | CoWriteNum t a v => t <> CtBytes /\ a < 65536 /\ v < 2 ^ (16 * cli_width t)
  | CoWriteBytes a bs => a < 65536 /\ bytesb bs = true
  | CoSetUnit u => u < 256
  end.

(* ------------------------------------------------------------ grammar *)

(* an unsigned literal of at most the given number of bits *)
Definition cli_lit (bits : N) (s : list N) (v : N) : Prop :=
  bytesb s = true /\ sl_int_lit s = true /\ sl_value s = v /\ v < 2 ^ bits.

(* a signed literal within the type's range, as its two's-complement image *)
Definition cli_slit (bits : N) (s : list N) (v : N) : Prop :=
  bytesb s = true /\ sl_signed_lit s = true /\
  (- Z.of_N (2 ^ (bits - 1)) <= sl_signed_value s < Z.of_N (2 ^ (bits - 1)))%Z /\
  v = Z.to_N (Z.modulo (sl_signed_value s) (Z.of_N (2 ^ bits))).

(* <addr>[+additional quantity] *)
Definition cli_addr_qty (s : list N) (a q : N) : Prop :=
  (cli_lit 16 s a /\ q = 0) \/
  (exists sa sq, s = sa ++ [43] ++ sq /\ cli_lit 16 sa a /\ cli_lit 16 sq q).

(* an even number of hex digits, two per byte *)
Inductive cli_hex_string : list N -> list N -> Prop :=
| HexNil : cli_hex_string [] []
| HexCons h l t bs :
    sl_is_hex h = true -> sl_is_hex l = true -> cli_hex_string t bs ->
    cli_hex_string (h :: l :: t) (sl_val h * 16 + sl_val l :: bs).

Section Grammar.
  (* the IEEE bit pattern of a floating point literal (strconv.ParseFloat) *)
  Variable parse_float32 : list N -> option N.
  Variable parse_float64 : list N -> option N.

  Definition cli_doc_value (t : cli_type) (s : list N) (v : N) : Prop :=
    match t with
    | CtU16 => cli_lit 16 s v
    | CtI16 => cli_slit 16 s v
    | CtU32 => cli_lit 32 s v
    | CtI32 => cli_slit 32 s v
    | CtF32 => ~ In 58 s /\ parse_float32 s = Some v
    | CtU64 => cli_lit 64 s v
    | CtI64 => cli_slit 64 s v
    | CtF64 => ~ In 58 s /\ parse_float64 s = Some v
    | CtBytes => False
    end.

  Definition cli_colon : list N := [58].

  Inductive cli_doc_cmd : list N -> cli_operation -> Prop :=
  | DocReadCoils name x a q :
      In name cli_n_rc -> cli_addr_qty x a q ->
      cli_doc_cmd (name ++ cli_colon ++ x) (CoReadBools true a q)
  | DocReadDiscrete name x a q :
      In name cli_n_rdi -> cli_addr_qty x a q ->
      cli_doc_cmd (name ++ cli_colon ++ x) (CoReadBools false a q)
  | DocReadHolding name tn t x a q :
      In name cli_n_rh -> In (tn, t) cli_type_names -> cli_addr_qty x a q ->
      cli_doc_cmd (name ++ cli_colon ++ tn ++ cli_colon ++ x) (CoReadRegs true t a q)
  | DocReadInput name tn t x a q :
      In name cli_n_ri -> In (tn, t) cli_type_names -> cli_addr_qty x a q ->
      cli_doc_cmd (name ++ cli_colon ++ tn ++ cli_colon ++ x) (CoReadRegs false t a q)
  | DocWriteCoil name sa a sv v :
      In name cli_n_wc -> cli_lit 16 sa a ->
      (sv = cli_s_true /\ v = true \/ sv = cli_s_false /\ v = false) ->
      cli_doc_cmd (name ++ cli_colon ++ sa ++ cli_colon ++ sv) (CoWriteCoil a v)
  | DocWriteNum name tn t sa a sv v :
      In name cli_n_wr -> In (tn, t) cli_type_names -> cli_lit 16 sa a ->
      cli_doc_value t sv v ->
      cli_doc_cmd (name ++ cli_colon ++ tn ++ cli_colon ++ sa ++ cli_colon ++ sv) (CoWriteNum t a v)
  | DocWriteBytes name sa a sv bs :
      In name cli_n_wr -> cli_lit 16 sa a -> cli_hex_string sv bs ->
      cli_doc_cmd (name ++ cli_colon ++ cli_s_bytes ++ cli_colon ++ sa ++ cli_colon ++ sv) (CoWriteBytes a bs)
  | DocWriteString name sa a sv :
      In name cli_n_wr -> cli_lit 16 sa a -> ~ In 58 sv ->
      cli_doc_cmd (name ++ cli_colon ++ cli_s_string ++ cli_colon ++ sa ++ cli_colon ++ sv) (CoWriteBytes a sv)
  | DocSetUnit name su u :
      In name cli_n_sid -> cli_lit 8 su u ->
      cli_doc_cmd (name ++ cli_colon ++ su) (CoSetUnit u).
End Grammar.
