(* Session-level vocabulary of property C03: well-formed request PDUs,
   well-behaved handlers and the reference session a sequence of complete
   frames must produce. *)
From Modbus Require Import Base.Bytes Model.Encoding Model.Wire Model.Server
  Spec.ModbusSpec Spec.ServerSpec.

(* a request PDU as delivered by the MBAP reader: bytes, at most 253 PDU bytes *)
Definition pdu_wf (p : pdu) : Prop :=
  p_unit p < 256 /\ p_fc p < 256 /\ bytesb (p_payload p) = true /\ lenN (p_payload p) <= 252.

Section Session.
  Context {St : Type} (h : handler St).

  (* handlers return uint16 registers and, as modbus errors, documented codes *)
  Definition handler_wf : Prop :=
    forall st r, Forall (fun v => v < 65536) (r_regs (snd (h st r))) /\
                 (forall c, r_err (snd (h st r)) = HModbus c -> mem c [1; 2; 3; 4; 5; 6; 8; 10; 11] = true).

  (* the session a list of well-formed frames followed by anything produces *)
  Fixpoint spec_session (st : St) (frames : list (N * pdu)) (k : St -> list event) : list event :=
    match frames with
    | [] => k st
    | (txn, p) :: fs =>
        let '(st', calls, act) := server_process h st p in
        map EvCall calls ++
        match act with
        | Respond r => EvResp (spec_mbap txn r) :: spec_session st' fs k
        | CloseLink => [EvClosed]
        end
    end.
End Session.
