(* C06, first clause, for a SESSION of requests on one RTU transport: what
   "the frame ends with the CRC-16/MODBUS of all preceding bytes" means, and
   the acceptance test a well-behaved device applies to what it receives.
   Written from the property text (bit-serial reference crc_ref of
   Spec/ModbusSpec.v, low byte first), not from the Go code. *)
From Modbus Require Import Base.Bytes Spec.ModbusSpec.

Definition ends_with_crc (f : list N) : Prop :=
  exists body, f = body ++ [crc_ref body mod 256; crc_ref body / 256].

(* executable form: the last two bytes against the checksum of the others *)
Definition ends_with_crcb (f : list N) : bool :=
  let n := (length f - 2)%nat in
  let body := firstn n f in
  (2 <=? length f)%nat && list_eqb (skipn n f) [crc_ref body mod 256; crc_ref body / 256].
