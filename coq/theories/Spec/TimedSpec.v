(* Vocabulary of the C07 statements, written from the property text: what has
   arrived by an instant, how the peer's silence looks at that instant, the
   configuration-only bounds on the duration of a call. *)
From Modbus Require Import Base.Bytes Model.Wire Model.Client Model.Timed Spec.ClientSpec.

(* the bytes of the timed stream that can have been read by the instant D:
   the longest prefix whose arrival times are all <= D *)
Fixpoint tm_avail (D : Z) (s : list (Z * N)) : list (Z * N) :=
  match s with
  | (t, b) :: s' => if (t <=? D)%Z then (t, b) :: tm_avail D s' else []
  | [] => []
  end.

(* what a reader that has used up tm_avail D s sees at the instant D: the
   orderly close if the peer closed by then and nothing is still to come,
   silence otherwise *)
Definition tm_end (D : Z) (c : option Z) (s : list (Z * N)) : send :=
  match c with
  | Some tc =>
      if (Nat.eqb (length (tm_avail D s)) (length s) && (tc <=? D)%Z)%bool then Closed else Stall
  | None => Stall
  end.

(* latest arrival among the bytes of l, not earlier than t0 *)
Definition tm_tmax (l : list (Z * N)) (t0 : Z) : Z :=
  fold_left (fun a p => Z.max a (fst p)) l t0.

Definition tm_sorted (s : list (Z * N)) : Prop :=
  forall i j, (i <= j < length s)%nat ->
    (fst (nth i s (0%Z, 0%N)) <= fst (nth j s (0%Z, 0%N)))%Z.

(* a sane configuration: durations are not negative *)
Definition tm_conf_wf (k : tm_conf) : Prop :=
  (0 <= tm_timeout k /\ 0 <= tm_t1 k /\ 0 <= tm_t35 k /\ 0 <= tm_gran k)%Z.

(* the instant the RTU transport starts reading: pre-send wait (lastActivity
   la not in the future: at most t35), write of nreq bytes, n*t1 + t35 *)
Definition tm_rtu_read_start (k : tm_conf) (la t0 nreq : Z) : Z :=
  (Z.max t0 (la + tm_t35 k) + nreq * tm_t1 k + tm_t35 k)%Z.

(* bounds on the return instant of a call entered at t0; they depend on the
   configuration (and the request length) only *)
Definition tm_mbap_bound (k : tm_conf) (t0 : Z) : Z := (t0 + tm_timeout k)%Z.

Definition tm_rtu_bound (k : tm_conf) (t0 nreq : Z) : Z :=
  (Z.max (t0 + tm_timeout k + tm_gran k) (t0 + tm_t35 k + nreq * tm_t1 k + tm_t35 k)
   + 256 * tm_t1 k + 500000 + tm_gran k)%Z.

(* number of bytes the RTU client writes for operation o: the specified
   request PDU (C01) with unit id and CRC *)
Definition tm_req_len (cfg : ccfg) (o : op) : Z :=
  Z.of_nat (length (assemble_rtu (spec_pdu cfg o))).
