(* Vocabulary of C13 for a reply cut in the middle of a session (written from
   the property text): a valid exchange, the length of a reply frame (the cut
   offsets are 0 .. length - 1), and the request frames of consecutive calls
   on one connection. *)
From Modbus Require Import Base.Bytes Model.Wire Model.Client Model.CutSession
  Spec.ClientSpec.

(* a valid call together with a valid reply to it, delivering vs *)
Definition cs_valid (cfg : ccfg) (c : cs_call) (vs : values) : Prop :=
  op_wf (csc_op c) /\ valid_op (csc_op c) = true /\
  bytesb (p_payload (csc_reply c)) = true /\ answers cfg (csc_op c) (csc_reply c) vs.

(* bytes of a reply frame: MBAP header 6 + unit + function code + payload,
   RTU unit + function code + payload + CRC 2 *)
Definition reply_len (fr : framing) (res : pdu) : nat :=
  match fr with
  | FMbap => 8 + length (p_payload res)
  | FRtu => 4 + length (p_payload res)
  end.

(* the transaction counter after one transmitted request *)
Definition cs_count (fr : framing) (txn : N) : N :=
  match fr with FMbap => u16 (txn + 1) | FRtu => txn end.

(* the request frames of consecutive valid calls made with counter txn: each
   call exactly one frame, consecutive 16-bit transaction ids *)
Fixpoint cs_frames (fr : framing) (cfg : ccfg) (txn : N) (os : list op) : list (list N) :=
  match os with
  | [] => []
  | o :: t => spec_frame fr (u16 (txn + 1)) (spec_pdu cfg o) :: cs_frames fr cfg (cs_count fr txn) t
  end.

(* the counter after n requests *)
Fixpoint cs_count_n (fr : framing) (txn : N) (n : nat) : N :=
  match n with
  | O => txn
  | S m => cs_count_n fr (cs_count fr txn) m
  end.
