(* Vocabulary of the C07b statements (a peer that stops reading), written
   from the property text: the configuration-only bound of a call on either
   framing, the length of the request on the wire, a dead peer. *)
From Modbus Require Import Base.Bytes Model.Wire Model.Client Model.Timed Model.TimedWrite
  Spec.ClientSpec Spec.TimedSpec.

(* the bound of Spec/TimedSpec.v on the return instant of a call entered at t0 *)
Definition tm_call_bound (fr : framing) (k : tm_conf) (cfg : ccfg) (o : op) (t0 : Z) : Z :=
  match fr with
  | FMbap => tm_mbap_bound k t0
  | FRtu => tm_rtu_bound k t0 (tm_req_len cfg o)
  end.

(* number of bytes the transport writes for operation o: the specified
   request PDU (C01) in its MBAP or RTU frame *)
Definition tm_wire_len (fr : framing) (cfg : ccfg) (txn : N) (o : op) : Z :=
  Z.of_nat (length (tm_req_frame fr txn (spec_pdu cfg o))).

(* ts := time.Now() of the RTU transport, in closed form: the pre-send wait
   ends when the line has been quiet for t35 *)
Definition tm_write_start (fr : framing) (k : tm_conf) (la t0 : Z) : Z :=
  match fr with
  | FMbap => t0
  | FRtu => Z.max t0 (la + tm_t35 k)
  end.

(* a peer that neither reads nor sends: what a polling application faces
   once the device has hung with the connection still open *)
Definition tm_dead_calls (ops : list op) : list (op * bool * list (Z * N)) :=
  map (fun o => (o, false, [])) ops.
