(* C03 - Server validates, dispatches and answers every request per spec.
   Statements only; proofs in Proofs/ServerP.v. *)
From Modbus Require Import Base.Bytes Model.Encoding Model.Wire Model.Server
  Spec.ModbusSpec Spec.ServerSpec Proofs.ServerP.

Section C03.
  Context {St : Type} (h : handler St).

  (* a request PDU as delivered by the MBAP reader: bytes, at most 253 PDU bytes *)
  Definition pdu_wf (p : pdu) : Prop :=
    p_unit p < 256 /\ p_fc p < 256 /\ bytesb (p_payload p) = true /\ lenN (p_payload p) <= 252.

  (* handlers return uint16 registers and, as modbus errors, documented codes *)
  Definition handler_wf : Prop :=
    forall st r, Forall (fun v => v < 65536) (r_regs (snd (h st r))) /\
                 (forall c, r_err (snd (h st r)) = HModbus c -> mem c [1; 2; 3; 4; 5; 6; 8; 10; 11] = true).

  (* T2-T5, per frame, for every handler: a valid supported request causes
     exactly one invocation with the decoded fields and exactly the specified
     response (data, mapped exception, or exception 4 on a wrong-sized result);
     a range past 0xFFFF gets exception 2 without a call; an unsupported
     function code gets exception 1 without a call; malformed requests of a
     supported code never reach the handler and are rejected by closing the
     link or by an exception 2 / 3. *)
  Theorem c03_process_spec : forall st p, pdu_wf p -> handler_wf ->
    let '(st', calls, act) := server_process h st p in
    match spec_decode p with
    | Some r =>
        if in_range r
        then calls = [r] /\ hreq_ok r /\ st' = fst (h st r) /\
             act = Respond (spec_response p r (snd (h st r)))
        else calls = [] /\ st' = st /\ act = Respond (mkpdu (p_unit p) (p_fc p + 128) [2])
    | None =>
        calls = [] /\ st' = st /\
        if supported_fc (p_fc p)
        then act = CloseLink \/ act = Respond (mkpdu (p_unit p) (p_fc p + 128) [2])
             \/ act = Respond (mkpdu (p_unit p) (p_fc p + 128) [3])
        else act = Respond (mkpdu (p_unit p) (p_fc p + 128) [1])
    end.
  Proof. exact (server_process_spec h). Qed.

  (* the session a list of well-formed frames followed by anything produces *)
  Fixpoint spec_session (st : St) (frames : list (N * pdu)) (k : St -> list event) : list event :=
    match frames with
    | [] => k st
    | (txn, p) :: fs =>
        let '(st', calls, act) := server_process h st p in
        map EvCall calls ++
        match act with
        | Respond r => EvResp (spec_mbap txn r) :: spec_session st' fs k
        | CloseLink => [EvClosed]
        end
    end.

  (* T1 / pipelining: complete frames are handled strictly in order, each
     answered exactly once with its own transaction id, protocol id 0 and
     unit id; nothing follows a close *)
  Theorem c03_pipelined : forall frames tail st e,
    Forall (fun f => fst f < 65536 /\ pdu_wf (snd f)) frames ->
    server_run h st e (concat (map (fun f => spec_mbap (fst f) (snd f)) frames) ++ tail) =
    spec_session st frames (fun st' => server_run h st' e tail).
  Proof. exact (server_pipelined h). Qed.

  (* T5: a header that is cut short, announces a length outside 2..254 or a
     non-zero protocol id, or a body that is cut short: no call, session closed *)
  Theorem c03_bad_header : forall st e s, bytesb s = true ->
    (forall t p rest, t < 65536 -> pdu_wf p -> s <> spec_mbap t p ++ rest) ->
    server_run h st e s = [EvClosed].
  Proof. exact (server_bad_header h). Qed.

  (* T3: whatever the byte stream, a handler only ever sees in-range,
     within-limit requests whose Args match the quantity *)
  Theorem c03_calls_valid : forall st e s r, bytesb s = true -> handler_wf ->
    In (EvCall r) (server_run h st e s) -> hreq_ok r.
  Proof. exact (server_calls_valid h). Qed.

  (* T6: responses fit the maximum frame size; the event list always ends
     with the close and contains it exactly once *)
  Theorem c03_responses_bounded : forall st e s f, bytesb s = true -> handler_wf ->
    In (EvResp f) (server_run h st e s) -> lenN f <= 260.
  Proof. exact (server_responses_bounded h). Qed.

  Theorem c03_closed_last : forall st e s,
    exists evs, server_run h st e s = evs ++ [EvClosed] /\ ~ In EvClosed evs.
  Proof. exact (server_closed_last h). Qed.
End C03.

Print Assumptions c03_process_spec.
Print Assumptions c03_pipelined.
Print Assumptions c03_bad_header.
Print Assumptions c03_calls_valid.
Print Assumptions c03_responses_bounded.
Print Assumptions c03_closed_last.
