(* exhaustive finite tables: RTU length inference and exception map *)
open Model
open Conv

let explen inp impl =
  match inp with
  | [fc] ->
    let fcn = n_of_int (int_of_string fc) in
    let m = String.concat "," (List.init 256 (fun b2 ->
        match expected_len fcn (n_of_int b2) with
        | Some n -> string_of_int (int_of_n n)
        | None -> "e")) in
    (m, if m = impl then "1" else "0")
  | _ -> failwith "explen"

let excmap _inp impl =
  let m = String.concat "," (List.init 256 (fun c -> Lib_wire.err_str (exc_err (n_of_int c)))) in
  (m, if m = impl then "1" else "0")

(* errmap: the documented modbus errors map to their exception codes, every
   other error (the library's own transport/configuration errors included) to
   server-device-failure: herr_code of Model/Server.v *)
let errmap _inp impl =
  let code e = string_of_int (int_of_n (herr_code e)) in
  let hm c = HModbus (n_of_int c) in
  let l = [HOther; HOther; hm 1; hm 2; hm 3; hm 4; hm 5; hm 6; hm 8; hm 10; hm 11; HOther; HOther;
           HOther (* a protocol error passed to the map itself: device failure *); HOther; HOther; HOther; HOther;
           HOther; HOther; HOther; HOther] in
  let m = String.concat "," (List.map code l) in
  (m, if m = impl then "1" else "0")

let () = Registry.register "errmap" errmap; Registry.register "explen" explen; Registry.register "excmap" excmap
