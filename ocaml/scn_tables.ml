(* exhaustive finite tables: RTU length inference and exception map *)
open Model
open Conv

let explen inp impl =
  match inp with
  | [fc] ->
    let fcn = n_of_int (int_of_string fc) in
    let m = String.concat "," (List.init 256 (fun b2 ->
        match expected_len fcn (n_of_int b2) with
        | Some n -> string_of_int (int_of_n n)
        | None -> "e")) in
    (m, if m = impl then "1" else "0")
  | _ -> failwith "explen"

let excmap _inp impl =
  let m = String.concat "," (List.init 256 (fun c -> Lib_wire.err_str (exc_err (n_of_int c)))) in
  (m, if m = impl then "1" else "0")

let () = Registry.register "explen" explen; Registry.register "excmap" excmap
