(* scenario "concslow" (C08): goroutines sharing one client while the device
   is slow (callers queue for the client about as long as, or longer than, the
   request timeout) or answers after the timeout. See
   harness/cmd/implrun/c08_slow.go and harness/internal/concdrv/slow.go.

   input : timeout_ms stagger_ms latencies seed thread...
   impl  : "<verdict> <wire events>"   events q<id> (request written in one
           Write call), e<id> (its reply taken), x<id> (its deadline passed)

   Expected: whatever the calls, the latencies and the schedule, no anomaly
   (Properties/C08.v) and the wire events are atomic: the extracted check
   cw_atomic (Model/ConcWire.v) accepts them; by Properties/C08w.v it accepts
   the wire of every interleaving of the lock skeleton of client.go, so a
   rejected wire is one that no execution of the model shows. The events of an
   accepted run depend on the schedule: they are echoed into the model output
   (the comparison is then on the verdict). P = verdict ok and cw_atomic. *)
open Model
open Conv

let ev_of tok =
  let n = String.length tok in
  if n < 2 then None
  else match int_of_string_opt (String.sub tok 1 (n - 1)) with
    | None -> None
    | Some i when i < 0 || i > 100000 -> None
    | Some i ->
      (match tok.[0] with
       | 'q' -> Some (WReq (nat_of_int i))
       | 'e' | 'x' -> Some (WEnd (nat_of_int i))
       | _ -> None)

let nums_ok s =
  s <> "" && List.for_all (fun x -> match int_of_string_opt x with Some v -> v >= 0 | None -> false)
    (String.split_on_char ',' s)

let concslow inp impl =
  match inp with
  | tmo :: stagger :: lat :: _seed :: threads
    when threads <> [] && nums_ok tmo && nums_ok stagger && nums_ok lat ->
    if not (List.for_all Scn_conc.thread_ok threads) then ("bad-input", "0")
    else begin
      match String.split_on_char ' ' impl with
      | [verdict; tr] ->
        let toks = if tr = "-" then [] else String.split_on_char ',' tr in
        let evs = List.map ev_of toks in
        if List.mem None evs then ("ok <wire events>", "0")
        else begin
          let evs = List.filter_map (fun x -> x) evs in
          if cw_atomic evs then ("ok " ^ tr, if verdict = "ok" then "1" else "0")
          else ("ok wire-not-atomic", "0")
        end
      | _ -> ("ok <wire events>", "0")
    end
  | _ -> ("bad-input", "0")

let () = Registry.register "concslow" concslow
