(* scenario "holchurn" of property C11 (harness/cmd/implrun/c93_c11_holchurn.go):
   the handler call of connection 0 is blocked for the whole case while clients
   connect, leave, are closed by the server on a protocol error, and the other
   connections go on sending (whole frames, frames stalled mid-frame).
   Expected observables = grun of Model/Sessions.v on the same interleaving,
   exactly as for "iso"/"hol": the model's handler invocation is one atomic
   step, so the blocked call of connection 0 is the first input; a connection
   that shows up later is a session of the global state that has had no input
   yet (its private state is untouched by the steps of the others:
   Properties/C11.v, non-interference), a client that leaves simply has no
   further input. By the property text nothing of this may depend on the blocked
   call: the harness answers "ok ..." only when every response arrived while
   the call was still blocked.
     in: <frame of connection 0> <n0> step...    step = + | -<i> | <i>:<hex>:<k> *)
open Model
open Conv

let holchurn inp impl =
  match inp with
  | b :: n0 :: steps ->
    let c i = n_of_int i in
    let total = List.fold_left (fun n st -> if st = "+" then n + 1 else n) (int_of_string n0) steps in
    let data = List.filter_map (fun st ->
        if st = "+" || (String.length st > 0 && st.[0] = '-') then None
        else match String.split_on_char ':' st with
          | [i; h; _] -> Some (c (int_of_string i), GData (bytes_of_hex h))
          | _ -> failwith "holchurn: bad step") steps in
    let ins = (c 0, GData (bytes_of_hex b)) :: data in
    let (_, outs) = grun Scn_sessions.iso_handler (ginit 0 (Scn_sessions.conns total)) ins in
    let m = "ok " ^ Scn_sessions.render total outs in
    (m, if m = impl then "1" else "0")
  | _ -> failwith "holchurn: bad input"

let () = Registry.register "holchurn" holchurn
