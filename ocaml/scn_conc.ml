(* scenario "conc" (C08): goroutines sharing one client over a scripted
   connection. The model's prediction follows from the theorems of
   Properties/C08.v (mutual exclusion, one outstanding request, whole frames,
   own reply): whatever the calls and the schedule, no anomaly is observable.
   The handler validates the shape of the input (known public calls, Close only
   as the last call of a goroutine) and predicts "ok"; P = the implementation
   reported no anomaly. *)
let known = [
  "ReadCoils"; "ReadCoil"; "ReadDiscreteInputs"; "ReadDiscreteInput";
  "ReadRegisters"; "ReadRegister"; "ReadUint32s"; "ReadUint32"; "ReadFloat32s"; "ReadFloat32";
  "ReadUint64s"; "ReadUint64"; "ReadFloat64s"; "ReadFloat64"; "ReadBytes"; "ReadRawBytes";
  "WriteCoil"; "WriteCoils"; "WriteRegister"; "WriteRegisters"; "WriteUint32s"; "WriteUint32";
  "WriteFloat32s"; "WriteFloat32"; "WriteUint64s"; "WriteUint64"; "WriteFloat64s"; "WriteFloat64";
  "WriteBytes"; "WriteRawBytes"; "SetUnitId"; "SetEncoding" ]

let thread_ok (t : string) =
  let calls = String.split_on_char ',' t in
  let n = List.length calls in
  n > 0 &&
  List.for_all (fun x -> x) (List.mapi (fun i c -> List.mem c known || (c = "Close" && i = n - 1)) calls)

let conc inp impl =
  match inp with
  | iters :: _seed :: threads when threads <> [] && int_of_string_opt iters <> None ->
    let m = if List.for_all thread_ok threads then "ok" else "bad-input" in
    (m, if impl = "ok" then "1" else "0")
  | _ -> ("bad-input", "0")

let () = Registry.register "conc" conc
