(* C01, scenario txhang: a really opened client (tcp, rtuovertcp, tcp+tls)
   whose peer hangs up; the listener logs every connection it accepts.
   Expected observable = the extracted Model/PeerView.v (client_call_hangup):
   one connection - the one made by Open() - carrying what the peer read of the
   ONE specified frame (theorems c01_hangup_view / c01_hangup_never_two /
   c01_hangup_fails in Properties/C01r.v), never a second connection or frame. *)
open Model
open Conv
open Lib_wire

let rec take k l = if k <= 0 then [] else match l with [] -> [] | x :: t -> x :: take (k - 1) t

(* txhang: scheme unit e w mode k reply op... -> kind conns result-class *)
let txhang inp impl =
  match inp with
  | scheme :: unit :: e :: w :: mode :: k :: reply :: optoks ->
    let cfg = { c_unit = n_of_hex unit; c_endian = endian_of e; c_word = word_of w } in
    let (framing, kind) = match scheme with
      | "tcp" -> (FMbap, "tcp") | "tcp+tls" -> (FMbap, "tls") | _ -> (FRtu, "tcp") in
    let o = op_of_tokens optoks in
    let k = int_of_string k in
    let rep = bytes_of_hex reply in
    (* the request as the model's client writes it: the peer of the early modes
       reads min(k, length - 1) bytes of it *)
    let whole = List.concat (client_call_hangup framing cfg N0 o (HangAfter (Closed, []))).pv_conns in
    let k_early = max 0 (min k (List.length whole - 1)) in
    let h = match mode with
      | "c" -> HangAfter (Closed, [])
      | "r" -> HangAfter (Reset, [])
      | "p" -> HangAfter (Closed, take k rep)
      | "q" -> HangAfter (Reset, take k rep)
      | "e" -> HangEarly (Closed, nat_of_int k_early)
      | "f" -> HangEarly (Reset, nat_of_int k_early)
      | _ -> failwith "txhang: bad mode" in
    let v = client_call_hangup framing cfg N0 o h in
    let res = match v.pv_res with
      | Ok _ -> "ok" | Err EParams -> "params" | Err _ -> "err"
      | Panic -> "panic" | OutOfFuel -> "outoffuel" in
    let m = Printf.sprintf "%s %s %s" kind (String.concat "," (List.map hex_of_bytes v.pv_conns)) res in
    (* P, on what the listener saw: one connection, its bytes are the model's
       (= the specified frame, or its first bytes when the peer stopped reading;
       nothing for a rejected call), and the result class *)
    (m, if m = impl then "1" else "0")
  | _ -> failwith "txhang: bad input"

let () = Registry.register "txhang" txhang
