(* scenarios of C20: "cli" (the real modbus-cli binary against the reference
   device emulator; the model predicts exit status, frames on the wire, final
   memory differences and the output lines) and "atoi" (strconv.ParseUint /
   ParseInt with base 0). *)
open Model
open Conv

let str_bytes (s : string) = List.init (String.length s) (fun i -> n_of_int (Char.code s.[i]))

(* "K=hex" -> Some bytes, "K" -> None *)
let opt_tok (t : string) : string * n list option =
  match String.index_opt t '=' with
  | Some i -> (String.sub t 0 i, Some (bytes_of_hex (String.sub t (i + 1) (String.length t - i - 1))))
  | None -> (t, None)

(* the oracle table  lithex.bits.value|err,...  *)
let float_table (t : string) : (n list * int * n option) list =
  match String.index_opt t '=' with
  | None -> []
  | Some i ->
    let body = String.sub t (i + 1) (String.length t - i - 1) in
    List.map (fun ent ->
        match String.split_on_char '.' ent with
        | [lit; bits; v] ->
          (bytes_of_hex lit, int_of_string bits, if v = "err" then None else Some (n_of_hex v))
        | _ -> failwith "cli: bad float table") (String.split_on_char ',' body)

let oracle tbl bits (s : n list) : n option =
  match List.find_opt (fun (l, b, _) -> b = bits && l = s) tbl with
  | Some (_, _, v) -> v
  | None -> failwith "cli: float literal missing from the oracle table"

let pad_hex width (v : n) =
  let h = hex_of_n v in
  if String.length h >= width then h else String.make (width - String.length h) '0' ^ h

let hexb l = String.concat "" (List.map (fun b -> Printf.sprintf "%02x" (int_of_n b)) l)

let line_str = function
  | ClFail -> "F"
  | ClWrote -> "W"
  | ClCrash -> "CRASH"
  | ClBool (a, v) -> Printf.sprintf "b:%04x=%d" (int_of_n a) (if v then 1 else 0)
  | ClNum (w, a, v) -> Printf.sprintf "n:%04x=%s" (int_of_n a) (pad_hex (4 * int_of_n w) v)
  | ClBytes (a, bs) -> Printf.sprintf "x:%04x=%s" (int_of_n a) (hexb bs)

(* addresses written according to the frames on the wire: (coils, holding registers) *)
let touched (frames : n list list) : int list * int list =
  let cs = ref [] and hs = ref [] in
  List.iter (fun f ->
      match List.map int_of_n f with
      | _ :: _ :: _ :: _ :: _ :: _ :: _ :: fc :: a1 :: a0 :: b1 :: b0 :: _ ->
        let a = (a1 * 256) + a0 and q = (b1 * 256) + b0 in
        let range n = List.init n (fun i -> a + i) in
        (match fc with
         | 5 -> cs := a :: !cs
         | 6 -> hs := a :: !hs
         | 15 -> cs := range q @ !cs
         | 16 -> hs := range q @ !hs
         | _ -> ())
      | _ -> ()) frames;
  (List.sort_uniq compare !cs, List.sort_uniq compare !hs)

let cli inp impl =
  let e = ref (str_bytes "big") and w = ref (str_bytes "highfirst") and u = ref (str_bytes "1") in
  let tbl = ref [] and cmds = ref [] in
  List.iter (fun t ->
      match t.[0] with
      | 'F' -> tbl := float_table t
      | _ ->
        (match opt_tok t with
         | ("E", Some v) -> e := v
         | ("W", Some v) -> w := v
         | ("U", Some v) -> u := v
         | ("C", Some v) -> cmds := v :: !cmds
         | (("E" | "W" | "U"), None) -> ()
         | _ -> failwith "cli: bad token")) inp;
  let outcome = cli_main (oracle !tbl 32) (oracle !tbl 64) !e !w !u (List.rev !cmds) cli_dev_init in
  let frames = cli_tx_log outcome in
  let tx = if frames = [] then "-" else String.concat "," (List.map hexb frames) in
  let conns, diff =
    match outcome with
    | CliExit _ -> (0, "-")
    | CliDone st ->
      let (cs, hs) = touched frames in
      let dc = List.map (fun (a, v) -> Printf.sprintf "c:%04x=%d" (int_of_n a) (if v then 1 else 0))
          (cli_diff_coils st.cs_dev (List.map n_of_int cs)) in
      let dh = List.map (fun (a, v) -> Printf.sprintf "h:%04x=%04x" (int_of_n a) (int_of_n v))
          (cli_diff_holds st.cs_dev (List.map n_of_int hs)) in
      (1, if dc @ dh = [] then "-" else String.concat "," (dc @ dh)) in
  let lines = cli_printed outcome in
  let out = if lines = [] then "-" else String.concat "," (List.map line_str lines) in
  let m = Printf.sprintf "exit=%d conns=%d tx=%s diff=%s out=%s" (int_of_n (cli_exit_code outcome)) conns tx diff out in
  (* P: exit status, connections, every frame on the wire, the device's final
     memory and every printed (address, value) are the predicted ones; in
     particular a refused argument list leaves the wire silent *)
  (m, if m = impl then "1" else "0")

let atoi inp impl =
  match inp with
  | [bits; signed; lit] ->
    let b = n_of_int (int_of_string bits) in
    let s = bytes_of_hex lit in
    let m =
      if signed = "1" then
        (match sc_parse_int b s with
         | ScIOk Z0 -> "0"
         | ScIOk (Zpos p) -> hex_of_n (Npos p)
         | ScIOk (Zneg p) -> "-" ^ hex_of_n (Npos p)
         | ScISyntax -> "syntax"
         | ScIRange -> "range")
      else
        (match sc_parse_uint b s with
         | ScOk v -> hex_of_n v
         | ScSyntax -> "syntax"
         | ScRange -> "range") in
    (m, if m = impl then "1" else "0")
  | _ -> failwith "atoi: bad input"

let () = Registry.register "cli" cli; Registry.register "atoi" atoi
