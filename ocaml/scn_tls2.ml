(* C14 scenarios with several certificates or several connections:
   tlschainrole, tlsroles, tlsresume, tlsresumectl (harness/cmd/implrun/c14b.go).

   The model is the extracted Model/TlsPolicy.v (tls_server_conn,
   tls_start_tls, tls_client_open, tls_client_tx) run with the crypto/tls
   oracle of scn_tls.ml, plus Model/Sessions.v (grun) for the server that
   serves several TLS connections. None of these functions has any state that
   outlives a connection attempt: every handshake is decided by the policy of
   THAT object (its own pool) and the chain presented on THAT connection, and
   the role is extract_role of the FIRST presented certificate.

   tlschainrole: cred ver hascert verifies expected bytes-sent chain-extensions
                 (extension lists of all presented certificates, leaf first, joined by "/")
                 -> "calls=<n> resp=<0/1> role=<hex|->"
   tlsroles:     keyset mode(seq|conc|par) conn...   conn = cred;ver;verifies;leaf-exts;req.req...
                 -> per connection "<role>+<role>.../<responses>" | "none/0", joined by ","
   tlsresume:    servercred ver rootsA verifiesA rootsB verifiesB
                 -> "a=<ok|err> a_bytes=<n> b_open=<ok|err> b_bytes=<n>"
   tlsresumectl: keyset ver -> "ok" (harness self-test: the ticket server of
                 tlsresume does resume a harness client that has a session cache)

   P is computed from the property text, not from the model:
   C14: a peer is served / a request goes out iff the chain verifies against
        the pool of the object that takes the decision and the version is 1.2+;
   C15: the role the handler sees is the one STATED by the leaf certificate
        (Scn_role.spec_role: exactly one role extension whose value is the DER
        UTF8String of a well-formed string), empty otherwise;
   C11: every invocation carries the role of the connection it came from. *)
open Model
open Conv
open Scn_tls

let modern ver = (ver = Some TLS12 || ver = Some TLS13)

let split c s = String.split_on_char c s

(* ------------------------------------------------------------ tlschainrole *)

let tlschainrole inp impl =
  match inp with
  | [_cred; ver; hascert; verifies; expected; sent; chain] ->
    let ver = version_of_tok ver in
    let hascert = (hascert = "1") and verifies = (verifies = "1") in
    let exts = List.map (list_of_csv parse_ext) (split '/' chain) in
    let certs = List.mapi (fun i e -> { tlc_id = n_of_int (3 + i); tlc_exts = e }) exts in
    let peer = { tpe_speaks_tls = true;
                 tpe_chain = (if hascert then certs else []);
                 tpe_versions = (match ver with Some v -> [v] | None -> []) } in
    let c = { tsv_url = bytes_of_native "tcp+tls://127.0.0.1:0"; tsv_timeout = Z0; tsv_max_clients = N0;
              tsv_cert = Some own_cert; tsv_cas = Some [ca_cert] } in
    let stream = bytes_of_hex sent in
    let seen = ref [] in
    let evs = tls_server_conn (oracle_srv ~verifies) (recording_handler seen) c peer 0 Closed stream in
    let role = (match List.sort_uniq compare (List.map hex_of_bytes !seen) with
        | [] -> "-" | [r] -> r | _ -> "mixed") in
    let calls = List.length (List.filter (function EvCall _ -> true | _ -> false) evs) in
    let fc = nth_opt stream 7 in
    let resp = List.exists (function EvResp f -> fc <> None && nth_opt f 7 = fc | _ -> false) evs in
    let m = Printf.sprintf "calls=%d resp=%d role=%s" calls (if resp then 1 else 0) role in
    (* the property, from its text *)
    let want = hascert && verifies && modern ver in
    if (expected = "1") <> want then failwith "tlschainrole: inconsistent expected token";
    let leaf_role = (match exts with l :: _ -> hex_of_bytes (Scn_role.spec_role l) | [] -> "-") in
    let p = (match split ' ' impl with
        | [c; r; ro] ->
          if want then c = "calls=1" && r = "resp=1" && ro = "role=" ^ leaf_role
          else c = "calls=0" && r = "resp=0" && ro = "role=-"
        | _ -> false) in
    (m, if p then "1" else "0")
  | _ -> failwith "tlschainrole: bad input"

(* ------------------------------------------------------------ tlsroles *)

type rconn = { rc_ver : tls_version option; rc_verifies : bool; rc_exts : (bool * n list) list; rc_reqs : n list list }

let parse_rconn tok =
  match split ';' tok with
  | [_cred; ver; verifies; exts; reqs] ->
    { rc_ver = version_of_tok ver; rc_verifies = (verifies = "1");
      rc_exts = list_of_csv parse_ext exts; rc_reqs = List.map bytes_of_hex (split '.' reqs) }
  | _ -> failwith "tlsroles: bad connection token"

(* the harness handler: zeros of the requested size, no error *)
let zero_handler : int -> greq -> int * hres = fun st r ->
  let q = int_of_n r.g_req.h_qty in
  (st + 1, { r_bools = List.init q (fun _ -> false); r_regs = List.init q (fun _ -> N0); r_err = HNone })

let tlsroles inp impl =
  match inp with
  | _ks :: mode :: (_ :: _ as toks) ->
    let conns = List.map parse_rconn toks in
    let n = List.length conns in
    let conf = { tsv_url = bytes_of_native "tcp+tls://127.0.0.1:0"; tsv_timeout = Z0;
                 tsv_max_clients = n_of_int (n + 2); tsv_cert = Some own_cert; tsv_cas = Some [ca_cert] } in
    (match tls_new_server conf with
     | CfgOk eff when eff.se_transport = TTcpOverTls -> ()
     | _ -> failwith "tlsroles: the model builds no tcp+tls server");
    (* startTLS of every connection, on its own certificate *)
    let started = List.mapi (fun i c ->
        let peer = { tpe_speaks_tls = true;
                     tpe_chain = [{ tlc_id = n_of_int (100 + i); tlc_exts = c.rc_exts }];
                     tpe_versions = (match c.rc_ver with Some v -> [v] | None -> []) } in
        (i, c, tls_start_tls (oracle_srv ~verifies:c.rc_verifies) conf peer)) conns in
    (* the sessions that reach handleTransport: connection i has address id i and role id i+1 *)
    let live = List.filter_map (fun (i, c, r) -> match r with Some ro -> Some (i, c, ro) | None -> None) started in
    let role_of_id id = (match List.find_opt (fun (i, _, _) -> i + 1 = id) live with
        | Some (_, _, ro) -> hex_of_bytes ro
        | None -> "unknown-role-id") in
    let g = ginit 0 (List.map (fun (i, _, _) -> (n_of_int i, (n_of_int i, n_of_int (i + 1)))) live) in
    let whole (i, c, _) = List.map (fun r -> (n_of_int i, GData r)) c.rc_reqs @ [(n_of_int i, GEnd)] in
    let ins = (match mode with
        | "seq" | "par" -> List.concat_map whole live     (* par: any interleaving gives the same projections *)
        | "conc" ->
          let maxk = List.fold_left (fun a (_, c, _) -> max a (List.length c.rc_reqs)) 0 live in
          List.concat (List.init maxk (fun k ->
              List.filter_map (fun (i, c, _) ->
                  match nth_opt c.rc_reqs k with Some r -> Some (n_of_int i, GData r) | None -> None) live))
          @ List.map (fun (i, _, _) -> (n_of_int i, GEnd)) live
        | _ -> failwith "tlsroles: bad mode") in
    let (_, outs) = grun zero_handler g ins in
    let per i =
      if not (List.exists (fun (j, _, _) -> j = i) live) then "none/0"
      else begin
        let evs = gproj (n_of_int i) outs in
        let roles = List.filter_map (function
            | GEvCall (r, _) ->
              let s = role_of_id (int_of_n r.g_role) in
              Some (if int_of_n r.g_conn_addr = i then s else "?" ^ s)
            | _ -> None) evs in
        let resps = List.length (List.filter (function GEvResp _ -> true | _ -> false) evs) in
        Printf.sprintf "%s/%d" (if roles = [] then "none" else String.concat "+" roles) resps
      end in
    let m = String.concat "," (List.init n per) in
    (* the property, from its text: a verified TLS 1.2+ connection is served,
       and each of its invocations carries the role its own leaf states *)
    let want = String.concat "," (List.map (fun c ->
        if c.rc_verifies && modern c.rc_ver then
          let ro = hex_of_bytes (Scn_role.spec_role c.rc_exts) in
          Printf.sprintf "%s/%d" (String.concat "+" (List.map (fun _ -> ro) c.rc_reqs)) (List.length c.rc_reqs)
        else "none/0") conns) in
    (m, if impl = want then "1" else "0")
  | _ -> failwith "tlsroles: bad input"

(* ------------------------------------------------------------ tlsresume *)

let tlsresume inp impl =
  match inp with
  | [_cred; ver; ra; va; rb; vb] ->
    let ver = version_of_tok ver in
    let host = bytes_of_native "127.0.0.1" in
    (* the two root sets are two pools (the same one when the names are equal) *)
    let pool_a = [cert 10] in
    let pool_b = if rb = ra then pool_a else [cert 11] in
    if rb = ra && va <> vb then failwith "tlsresume: one pool, two verification results";
    (* crypto/x509 for the server's chain, per pool: the decision is taken with
       the pool of the policy the handshake runs under *)
    let oracle (pol : tls_policy) (peer : tls_peer) =
      let verifies = (match pol.tpo_pool with
          | Some p when p = pool_a -> va = "1"
          | Some p when p = pool_b -> vb = "1"
          | _ -> failwith "tlsresume: unknown pool") in
      oracle_cli ~verifies ~name:host pol peer in
    let server = peer_of ~tls:true ~hascert:true ~ver () in
    let cfg = { c_unit = n_of_int 1; c_endian = BigE; c_word = HighFirst } in
    let o = OpReadRegs (n_of_int 1, N0, n_of_int 1, Holding) in
    (* NewClient + Open + ReadRegister(0, HOLDING_REGISTER) on a fresh client object *)
    let run pool =
      let c = { tcl_url = bytes_of_native "tcp+tls://127.0.0.1:802"; tcl_timeout = Z0;
                tcl_cert = Some own_cert; tcl_roots = Some pool } in
      let tx = tls_client_tx oracle c server cfg N0 o Closed [] in
      let opened = (match tls_new_client c with
          | CfgOk eff -> tls_client_open oracle c eff server <> None
          | CfgErr _ -> false) in
      ((if opened then "ok" else "err"), List.fold_left (fun a w -> a + List.length w) 0 tx) in
    let (a, an) = run pool_a in
    let (b, bn) = run pool_b in
    let m = Printf.sprintf "a=%s a_bytes=%d b_open=%s b_bytes=%d" a an b bn in
    (* the property, from its text: a client sends nothing to a server its OWN
       roots do not verify, whatever another client of the process did before *)
    let num pre s =
      let k = String.length pre in
      if String.length s > k && String.sub s 0 k = pre then int_of_string_opt (String.sub s k (String.length s - k)) else None in
    let side want o n = (match n with
        | Some n -> if want then o = "ok" && n > 0 else o = "err" && n = 0
        | None -> false) in
    let p = (match split ' ' impl with
        | [ia; ian; ib; ibn] ->
          let strip pre s = let k = String.length pre in
            if String.length s >= k && String.sub s 0 k = pre then String.sub s k (String.length s - k) else "?" in
          side (va = "1" && modern ver) (strip "a=" ia) (num "a_bytes=" ian)
          && side (vb = "1" && modern ver) (strip "b_open=" ib) (num "b_bytes=" ibn)
        | _ -> false) in
    (m, if p then "1" else "0")
  | _ -> failwith "tlsresume: bad input"

let tlsresumectl inp impl =
  match inp with
  | [_keys; _ver] -> ("ok", if impl = "ok" then "1" else "0")
  | _ -> failwith "tlsresumectl: bad input"

let () =
  Registry.register "tlschainrole" tlschainrole;
  Registry.register "tlsroles" tlsroles;
  Registry.register "tlsresume" tlsresume;
  Registry.register "tlsresumectl" tlsresumectl
