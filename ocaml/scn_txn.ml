(* scenario "txh" (C05): a history of calls on ONE client and ONE connection,
   run through the extracted Model/TxnHistory.v (hist_run); same input and
   output format as the "ch" scenario, call steps only:
     fr unit e w { ; call end chunks op... }*   ->   "result writes consumed" per call, joined by ";"
   The C05 generators tag every scripted reply: a protocol-id-0 frame with
   transaction id t carries a register value v with v = t - 1 (mod 2^16), i.e.
   the number of the request it answers; a foreign-protocol frame carries a
   value that breaks this relation. *)
open Model
open Conv
open Lib_wire

let split_steps (toks : string list) : string list list =
  let steps = ref [] and cur = ref [] in
  let flush () = if !cur <> [] then (steps := List.rev !cur :: !steps; cur := []) in
  List.iter (fun t -> if t = ";" then flush () else cur := t :: !cur) toks;
  flush ();
  List.rev !steps

let txh inp impl =
  match inp with
  | fr :: unit :: e :: w :: rest ->
    let framing = if fr = "m" then FMbap else FRtu in
    let cfg = { c_unit = n_of_hex unit; c_endian = endian_of e; c_word = word_of w } in
    let xs = List.map (function
        | "call" :: send :: chunks :: optoks ->
          { ths_op = op_of_tokens optoks; ths_bytes = List.concat (chunks_of chunks); ths_end = send_of send }
        | _ -> failwith "txh: bad step") (split_steps rest) in
    let rs = hist_run framing cfg th_init xs in
    (* bytes consumed by a call = unread before + delivered - unread after *)
    let left = ref 0 in
    let outs = List.map2 (fun x r ->
        let avail = !left + List.length x.ths_bytes in
        let after = List.length r.cr_rest in
        left := after;
        (result_str r.cr_res, csv_of_list hex_of_bytes r.cr_writes, avail - after)) xs rs in
    let m = String.concat ";" (List.map (fun (rs, ws, c) -> Printf.sprintf "%s %s %d" rs ws c) outs) in
    (* P, evaluated on what the implementation did:
       (a) request number j (0-based, counting transmitted requests) went out with
           transaction id (j + 1) mod 2^16;
       (b) a call that returned a value returned one tagged with its own number
           modulo 2^16 - no misattribution;
       (c) per call, the projected outcome and the transmitted frames are the model's *)
    let isteps = if impl = "" then [] else String.split_on_char ';' impl in
    let ok = ref (List.length isteps = List.length outs) in
    let j = ref 0 in
    if !ok then
      List.iter2 (fun s (mrs, mws, _) ->
          match String.split_on_char ' ' s with
          | [ir; iw; _] ->
            if project ir <> project mrs || iw <> mws then ok := false;
            if iw <> "-" then begin
              (if String.length iw < 4 || int_of_string ("0x" ^ String.sub iw 0 4) <> (!j + 1) land 0xffff
               then ok := false);
              (if String.length ir > 5 && String.sub ir 0 5 = "ok:n:" then begin
                  let v = String.sub ir 5 (String.length ir - 5) in
                  match int_of_string_opt ("0x" ^ v) with
                  | Some v -> if v land 0xffff <> !j land 0xffff then ok := false
                  | None -> ok := false
                end);
              incr j
            end
          | _ -> ok := false) isteps outs;
    (m, if !ok then "1" else "0")
  | _ -> failwith "txh: bad input"

let () = Registry.register "txh" txh

(* txnids: the ids of the last 8 of n requests of a fresh client are (i + 1) mod 2^16 *)
let txnids inp impl =
  match inp with
  | [n] ->
    let n = int_of_string n in
    let ids = List.init (min 8 n) (fun k -> let i = n - (min 8 n) + k in
                                     Conv.hex_of_n (Model.u16 (Conv.n_of_int (i + 1)))) in
    let m = String.concat "," ids in
    (m, if m = impl then "1" else "0")
  | _ -> failwith "txnids: bad input"

let () = Registry.register "txnids" txnids
