(* scenarios of C18 (Model/Heap.v): "alias" (argument slices of every geometry
   passed twice to a write call) and "stable" (histories of calls, earlier
   results re-read after every later call) *)
open Model
open Conv
open Lib_wire

let gr = hp_gr_double

let mk_slice arr off len cap =
  { hs_arr = nat_of_int arr; hs_off = nat_of_int off; hs_len = nat_of_int len; hs_cap = nat_of_int cap }

type kind = KBytes | KBools | KNums

let kind_of_write = function
  | "WriteBytes" | "WriteRawBytes" -> KBytes
  | "WriteCoils" -> KBools
  | _ -> KNums

let is_slice_write = function
  | "WriteBytes" | "WriteRawBytes" | "WriteCoils" | "WriteRegisters" | "WriteUint32s" | "WriteFloat32s"
  | "WriteUint64s" | "WriteFloat64s" -> true
  | _ -> false

let cells_of_tok k s = match k with
  | KBytes -> bytes_tok s
  | KBools -> List.map (fun b -> if b then n1 else N0) (bools_tok s)
  | KNums -> nums_tok s

let tok_of_cells k l = match k with
  | KBytes -> hex_of_bytes l
  | KBools -> str_of_bools (List.map (fun x -> x <> N0) l)
  | KNums -> csv_of_list hex_of_n l

let hp_op_of name a s =
  match name with
  | "WriteBytes" -> HpWriteBytes (false, a, s)
  | "WriteRawBytes" -> HpWriteBytes (true, a, s)
  | "WriteCoils" -> HpWriteCoils (a, s)
  | "WriteRegisters" -> HpWriteRegs (n1, a, s)
  | "WriteUint32s" | "WriteFloat32s" -> HpWriteRegs (n2, a, s)
  | "WriteUint64s" | "WriteFloat64s" -> HpWriteRegs (n4, a, s)
  | _ -> failwith "hp_op_of"

let value_str h = function
  | HvUnit -> "u"
  | HvBools s -> "b:" ^ tok_of_cells KBools (h_read s h)
  | HvNums s -> "n:" ^ tok_of_cells KNums (h_read s h)
  | HvBytes s -> "y:" ^ tok_of_cells KBytes (h_read s h)

let hres_str h = function
  | Ok v -> "ok:" ^ value_str h v
  | Err e -> "err:" ^ err_str e
  | Panic -> "panic"
  | OutOfFuel -> "outoffuel"

let strip_txn fr f = if fr = "m" then (match f with _ :: _ :: t -> t | _ -> f) else f

(* alias: fr unit e w op addr backing off len cap
     -> backing-after same frames-1 result-1 result-2 *)
let alias inp impl =
  match inp with
  | [fr; unit; e; w; name; addr; backing; off; len; cap] ->
    let cfg = { c_unit = n_of_hex unit; c_endian = endian_of e; c_word = word_of w } in
    let framing = if fr = "m" then FMbap else FRtu in
    let k = kind_of_write name in
    let cells = cells_of_tok k backing in
    (* the caller's heap: some unrelated array, then the backing array *)
    let decoy = [n_of_int 0xde; n_of_int 0xc0; n_of_int 0x01] in
    let h0 = [decoy; cells] in
    let s = mk_slice 1 (int_of_string off) (int_of_string len) (int_of_string cap) in
    let o = hp_op_of name (n_of_hex addr) s in
    let (r1, h1) = hp_call gr framing cfg N0 o Stall [] h0 in
    let (r2, h2) = hp_call gr framing cfg r1.hr_txn o Stall [] h1 in
    let same = List.map (strip_txn fr) r1.hr_writes = List.map (strip_txn fr) r2.hr_writes in
    let after = hp_arr h2 (nat_of_int 1) in
    (* the frames of the heap model are those of the value-level model (C01) *)
    let v1 = client_call framing cfg N0 (hp_value_op o h0) Stall [] in
    let link = v1.cr_writes = r1.hr_writes && hp_arr h2 O = decoy in
    let m = Printf.sprintf "%s %s %s %s %s%s" (tok_of_cells k after) (if same then "1" else "0")
        (csv_of_list hex_of_bytes r1.hr_writes) (hres_str h1 r1.hr_res) (hres_str h2 r2.hr_res)
        (if link then "" else " MODEL-INCONSISTENT") in
    (* P: the implementation left the whole backing array as it was and sent the same bytes twice *)
    let p = (match String.split_on_char ' ' impl with
        | [ia; isame; _; _; _] -> if ia = backing && isame = "1" then "1" else "0"
        | _ -> "0") in
    (m, p)
  | _ -> failwith "alias: bad input"

(* stable: fr unit e w { ; call end chunks op... }*  ->  steps | verdict *)
let stable inp impl =
  match inp with
  | fr :: unit :: e :: w :: rest ->
    let framing = if fr = "m" then FMbap else FRtu in
    let cfg = { c_unit = n_of_hex unit; c_endian = endian_of e; c_word = word_of w } in
    let heap = ref [] and txn = ref N0 and left = ref [] and closed = ref Stall in
    let results : (int, hslice) Hashtbl.t = Hashtbl.create 16 in
    let kept = ref [] in
    let verdict = ref "stable" in
    let outs = ref [] and pouts = ref [] in
    let n = ref 0 in
    let step = ref [] in
    let whole s = { s with hs_len = s.hs_cap } in
    let flush () =
      (match List.rev !step with
       | "call" :: send :: chunks :: optoks ->
         let o = (match optoks with
             | [name; a; arg] when is_slice_write name ->
               let s =
                 if String.length arg > 0 && arg.[0] = '@' then
                   Hashtbl.find results (int_of_string (String.sub arg 1 (String.length arg - 1)))
                 else begin
                   (* the caller builds the argument: a new array *)
                   let cells = cells_of_tok (kind_of_write name) arg in
                   let id = List.length !heap in
                   heap := !heap @ [cells];
                   mk_slice id 0 (List.length cells) (List.length cells)
                 end in
               hp_op_of name (n_of_hex a) s
             | _ -> HpOther (op_of_tokens optoks)) in
         let stream = !left @ List.concat (chunks_of chunks) in
         (match send_of send with Stall -> () | x -> closed := x);
         let (r, h') = hp_call gr framing cfg !txn o !closed stream !heap in
         let consumed = List.length stream - List.length r.hr_rest in
         heap := h'; left := r.hr_rest; txn := r.hr_txn;
         let rs = hres_str h' r.hr_res in
         let ws = csv_of_list hex_of_bytes r.hr_writes in
         outs := Printf.sprintf "%s %s %d" rs ws consumed :: !outs;
         pouts := (project rs ^ " " ^ ws) :: !pouts;
         (* every earlier result, spare capacity included, must read as when it was returned *)
         List.iter (fun (k, s, snap) ->
             if !verdict = "stable" && h_read (whole s) h' <> snap then
               verdict := Printf.sprintf "changed:%d:%d" !n k) (List.rev !kept);
         (match r.hr_res with
          | Ok (HvBools s) | Ok (HvNums s) | Ok (HvBytes s) ->
            Hashtbl.replace results !n s;
            kept := (!n, s, h_read (whole s) h') :: !kept
          | _ -> ())
       | [] -> ()
       | _ -> failwith "stable: bad step");
      (if !step <> [] then incr n);
      step := [] in
    List.iter (fun t -> if t = ";" then flush () else step := t :: !step) rest;
    flush ();
    let m = String.concat ";" (List.rev !outs) ^ "|" ^ !verdict in
    (* P: per step the projected outcome and the transmitted frames agree, and
       the implementation never altered an earlier result *)
    let p = (match String.split_on_char '|' impl with
        | [isteps; iverdict] ->
          let ip = List.map (fun s -> match String.split_on_char ' ' s with
              | [r; w; _] -> project r ^ " " ^ w | [x] -> x | _ -> "?") (String.split_on_char ';' isteps) in
          if ip = List.rev !pouts && iverdict = "stable" then "1" else "0"
        | _ -> "0") in
    (m, p)
  | _ -> failwith "stable: bad input"

let () = Registry.register "alias" alias; Registry.register "stable" stable
