(* scenarios of C19 (serial-line timing)
   timing       rate            -> "t1 t35"                (decimal, nanoseconds)
   timingrange  lo hi           -> "t1:t35,t1:t35,..."     for every rate lo..hi
   silence      rate n delays   -> "ok" | "gap:<ns>:<t35>" | "err:..."
   Model output: char_time / t35 extracted from Model/Timing.v.
   P: the declarative rule timing_okb of Spec/TimingSpec.v (eleven bit times
   to the nanosecond; 3.5 character times below 19200 bps, 1750 us from 19200
   bps upward) evaluated on the numbers the IMPLEMENTATION produced. *)
open Model
open Conv

let pair_of_rate r =
  let rz = z_of_int r in
  (int_of_z (char_time rz), int_of_z (t35 rz))

(* P on one implementation pair *)
let ok_pair r c d = timing_okb (z_of_int r) (z_of_int c) (z_of_int d)

let timing inp impl =
  match inp with
  | [rs] ->
    let r = int_of_string rs in
    let (c, d) = pair_of_rate r in
    let m = Printf.sprintf "%d %d" c d in
    let p = (try
               (match String.split_on_char ' ' impl with
                | [ic; id] -> if ok_pair r (int_of_string ic) (int_of_string id) then "1" else "0"
                | _ -> "0")
             with _ -> "0") in
    (m, p)
  | _ -> failwith "timing: bad input"

let timingrange inp impl =
  match inp with
  | [los; his] ->
    let lo = int_of_string los and hi = int_of_string his in
    let b = Buffer.create 32768 in
    for r = lo to hi do
      let (c, d) = pair_of_rate r in
      if r > lo then Buffer.add_char b ',';
      Buffer.add_string b (string_of_int c); Buffer.add_char b ':'; Buffer.add_string b (string_of_int d)
    done;
    let p = (try
               let items = Array.of_list (String.split_on_char ',' impl) in
               if Array.length items <> hi - lo + 1 then "0"
               else begin
                 let ok = ref true in
                 Array.iteri (fun i it ->
                     match String.split_on_char ':' it with
                     | [ic; id] -> if not (ok_pair (lo + i) (int_of_string ic) (int_of_string id)) then ok := false
                     | _ -> ok := false) items;
                 if !ok then "1" else "0"
               end
             with _ -> "0") in
    (Buffer.contents b, p)
  | _ -> failwith "timingrange: bad input"

(* observed silence: the model keeps the silence for every history and every
   clock (theorem c19_silence), so its observable is always "ok" *)
let silence _inp impl = ("ok", if impl = "ok" then "1" else "0")

let () =
  Registry.register "timing" timing;
  Registry.register "timingrange" timingrange;
  Registry.register "silence" silence;
  Registry.register "silencegarble" silence;
  Registry.register "silencepartial" silence;
  Registry.register "silencewindow" silence
