(* scenarios of property C11: "iso" (interleaved traffic of several
   connections over one shared handler) and "hol" (head-of-line blocking).
   The model side is grun of Model/Sessions.v on the same interleaving, with
   the harness handler's answer formula (a function of the request). *)
open Model
open Conv
open Lib_wire

(* the Go isoHandler: data derived from the address, "device busy" on some
   addresses, writes acknowledged; the shared state counts the invocations *)
let iso_answer (r : greq) : hres =
  let q = r.g_req in
  let addr = int_of_n q.h_addr and qty = int_of_n q.h_qty in
  if addr mod 11 = 5 then { r_bools = []; r_regs = []; r_err = HModbus (n_of_int 6) }
  else if q.h_write then { r_bools = []; r_regs = []; r_err = HNone }
  else match q.h_kind with
    | HCoils | HDiscrete -> { r_bools = List.init qty (fun i -> pat_bool addr i); r_regs = []; r_err = HNone }
    | HHolding | HInput -> { r_bools = []; r_regs = List.init qty (fun i -> n_of_int (pat_reg addr i)); r_err = HNone }

let iso_handler : int -> greq -> int * hres = fun st r -> (st + 1, iso_answer r)

let join l = if l = [] then "-" else String.concat "," l

(* connection i has address id i and the empty role (id 0) *)
let render n (outs : (n * gevent) list) =
  let per i =
    let evs = gproj (n_of_int i) outs in
    let obs = List.filter_map (function
        | GEvResp f -> Some ("R:" ^ hex_of_bytes f)
        | GEvClosed -> Some "X"
        | GEvCall _ -> None) evs in
    let calls = List.filter_map (function
        | GEvCall (r, _) ->
          let q = r.g_req in
          let s = Printf.sprintf "H:%s%s:%d:%d:%d" (kind_str q.h_kind) (if q.h_write then "1" else "0")
              (int_of_n q.h_unit) (int_of_n q.h_addr) (int_of_n q.h_qty) in
          let s = if int_of_n r.g_role <> 0 then s ^ "!role=" ^ string_of_int (int_of_n r.g_role) else s in
          Some (if int_of_n r.g_conn_addr = i then s else "?" ^ string_of_int (int_of_n r.g_conn_addr) ^ "/" ^ s)
        | _ -> None) evs in
    Printf.sprintf "c%d:%s|%s" i (join obs) (join calls) in
  String.concat ";" (List.init n per)

let conns n = List.init n (fun i -> (n_of_int i, (n_of_int i, N0)))

let iso inp impl =
  match inp with
  | _mode :: n :: steps ->
    let n = int_of_string n in
    let ins = List.map (fun st ->
        match String.split_on_char ':' st with
        | [c; h; _] -> (n_of_int (int_of_string c), GData (bytes_of_hex h))
        | _ -> failwith "iso: bad step") steps in
    let (_, outs) = grun iso_handler (ginit 0 (conns n)) ins in
    let m = render n outs in
    (m, if m = impl then "1" else "0")
  | _ -> failwith "iso: bad input"

(* hol: A sends the first part of its frame and stalls, B's frame is being
   handled, C's frames are served meanwhile, then A's frame is completed *)
let hol inp impl =
  match inp with
  | [a1; a2; b; cs] ->
    let c i = n_of_int i in
    let ins = [(c 0, GData (bytes_of_hex a1)); (c 1, GData (bytes_of_hex b))]
              @ List.map (fun f -> (c 2, GData f)) (chunks_of cs)
              @ [(c 0, GData (bytes_of_hex a2))] in
    let (_, outs) = grun iso_handler (ginit 0 (conns 3)) ins in
    let m = "ok " ^ render 3 outs in
    (m, if m = impl then "1" else "0")
  | _ -> failwith "hol: bad input"

(* isostress: concurrent hammering; by c11_projection_pure every connection sees
   exactly its own session, so the only model observable is "ok" *)
let isostress _inp impl = ("ok", if impl = "ok" then "1" else "0")

let () = Registry.register "iso" iso; Registry.register "hol" hol; Registry.register "isostress" isostress; Registry.register "hollimit" isostress; Registry.register "holwrite" isostress
