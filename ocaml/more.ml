(* further scenarios (wire layer, server, ...) *)
let handle scn _inp _impl _p_eq : string * string =
  ("modeld-error:unknown-scenario:" ^ scn, "0")
