(* scenario "rtuflip": a corrupted RTU reply followed by a clean exchange *)
open Model
open Conv
open Lib_wire

let is_ok r = String.length r >= 3 && String.sub r 0 3 = "ok:"

let rtuflip inp impl =
  match inp with
  | unit :: e :: w :: corrupted :: valid2 :: optoks ->
    let cfg = { c_unit = n_of_hex unit; c_endian = endian_of e; c_word = word_of w } in
    let o = op_of_tokens optoks in
    let c = bytes_of_hex corrupted in
    let r1 = client_call FRtu cfg N0 o Stall c in
    let r2 = client_call FRtu cfg r1.cr_txn o Stall (r1.cr_rest @ bytes_of_hex valid2) in
    let s1 = result_str r1.cr_res and s2 = result_str r2.cr_res in
    let m = Printf.sprintf "%s left=%d %s" s1 (List.length r1.cr_rest) s2 in
    (* P is the property itself, on the implementation's observables: the
       corrupted reply is not a success, and the next exchange succeeds *)
    let p =
      match String.split_on_char ' ' impl with
      | [i1; _; i2] ->
        if (not (is_ok i1)) && is_ok i2 then "1"
        else begin
          (* the recorded finding F8 is the input family in which a strict
             prefix of the corrupted reply is itself a CRC-valid frame *)
          match read_rtu Stall c with
          | (Ok _, _ :: _) when not (is_ok i1) -> "0:F8"
          | _ -> "0"
        end
      | _ -> "0" in
    (m, p)
  | _ -> failwith "rtuflip: bad input"

(* rtufliptail: head and tail of the corrupted reply both arrive before the flush
   ends (the client keeps the line quiet for 256 character times first), so the
   untimed model sees them as one stream: unit speed head tail valid2 op... *)
let rtufliptail inp impl =
  match inp with
  | unit :: _speed :: head :: tail :: valid2 :: optoks ->
    let cfg = { c_unit = n_of_hex unit; c_endian = BigE; c_word = HighFirst } in
    let o = op_of_tokens optoks in
    let c = bytes_of_hex head @ bytes_of_hex tail in
    let r1 = client_call FRtu cfg N0 o Stall c in
    let r2 = client_call FRtu cfg r1.cr_txn o Stall (r1.cr_rest @ bytes_of_hex valid2) in
    let m = Printf.sprintf "%s left=%d %s" (result_str r1.cr_res) (List.length r1.cr_rest) (result_str r2.cr_res) in
    let p = match String.split_on_char ' ' impl with
      | [i1; _; i2] -> if (not (is_ok i1)) && is_ok i2 then "1" else "0"
      | _ -> "0" in
    (* the number of bytes still unread right after call 1 depends on whether the tail had arrived: compare outcomes only *)
    let strip s = match String.split_on_char ' ' s with [a; _; b] -> a ^ " " ^ b | _ -> s in
    if strip m = strip impl then (impl, p) else (m, p)
  | _ -> failwith "rtufliptail: bad input"

let () = Registry.register "rtuflip" rtuflip; Registry.register "rtufliptail" rtufliptail
