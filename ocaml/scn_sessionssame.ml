(* scenario "holsame" of property C11 (harness/cmd/implrun/c94_c11_holsame.go):
   the connections send BIT-IDENTICAL requests (same transaction id, unit id,
   function code, address, quantity / values) - while the handler call of
   connection 0 for that very request is blocked (phase 1), and all at the
   same moment with a slow handler (phase 3).
   Expected observables = grun of Model/Sessions.v on the same interleaving,
   exactly as for "iso"/"hol"/"holchurn": the model hands every complete frame
   of connection c to the shared handler through conn_handler (gs_addr c)
   (gs_role c), whatever the other connections are sending, so every request
   is one invocation that carries the address of its own connection and one
   response on that connection (Properties/C11.v: routing, non-interference;
   the projection on c does not depend on the interleaving, so the order in
   which the burst of phase 3 is fed is immaterial). The model's handler
   invocation is one atomic step: the blocked call of connection 0 is the
   first input. By the property text none of the other connections may wait
   for it: the harness answers "ok ..." only when every response of phase 1
   arrived while that call was still blocked.
     in: <hol|sim> <d> <n> <F> step... ! step...     step = <i>:<hex>:<k> *)
open Model
open Conv

let holsame inp impl =
  match inp with
  | mode :: _d :: n :: f :: steps ->
    let c i = n_of_int i in
    let n = int_of_string n in
    let data = List.filter_map (fun st ->
        if st = "!" then None
        else match String.split_on_char ':' st with
          | [i; h; _] -> Some (c (int_of_string i), GData (bytes_of_hex h))
          | _ -> failwith "holsame: bad step") steps in
    let ins = if mode = "hol" then (c 0, GData (bytes_of_hex f)) :: data else data in
    let (_, outs) = grun Scn_sessions.iso_handler (ginit 0 (Scn_sessions.conns n)) ins in
    let m = "ok " ^ Scn_sessions.render n outs in
    (m, if m = impl then "1" else "0")
  | _ -> failwith "holsame: bad input"

let () = Registry.register "holsame" holsame
