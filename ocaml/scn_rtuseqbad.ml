(* scenario "rtuseqbad" (C06, second and third clause, over sessions and over
   every RTU-framed transport): a session of calls on ONE client / ONE RTU
   transport (scripted stream, rtuovertcp and rtuoverudp on loopback) facing a
   well-behaved device behind a line that damages some of the replies.
   link unit e w { ; call <valid> <wire> op... | ; setunit u | ; setenc e w }*
   <valid> is the reply the device produced (data of its own in every reply),
   <wire> what reached the client: <valid>, or <valid> with a single-bit,
   double-bit, burst or CRC-field error, or cut short.
   The expected observables are rtuseqbad_run of the extracted
   Model/RtuSeqBad.v (= rtuseq_run of Model/RtuSeq.v on what the line delivers).
   P is the property text evaluated on what the real client did, per call
   (rtuseqbad_demands, theorems C06e): a damaged reply is not a success; a reply
   that arrived intact is a success with the values of THAT reply (not of an
   earlier one), however many damaged replies came before it; and every frame
   the device received ends with its own CRC-16 (ends_with_crcb).
   A failed demand on a call that the model starts with bytes left on the line
   is the documented gap F8 of the recovery clause (a leading part of an earlier
   damaged reply was itself a CRC-valid frame): tagged like scenario rtuflip
   does; the generator does not draw that family. *)
open Model
open Conv
open Lib_wire

let is_ok r = String.length r >= 3 && String.sub r 0 3 = "ok:"

type shown = SCall | SUnit | SEnc

let rtuseqbad inp impl =
  match inp with
  | _link :: unit :: e :: w :: rest ->
    let cfg0 = { c_unit = n_of_hex unit; c_endian = endian_of e; c_word = word_of w } in
    let cfg = ref cfg0 in
    let steps = ref [] and shown = ref [] in
    let step = ref [] in
    let flush () =
      (match List.rev !step with
       | "call" :: valid :: wire :: optoks ->
         steps := RbCall (op_of_tokens optoks, bytes_of_hex valid, bytes_of_hex wire) :: !steps;
         shown := SCall :: !shown
       | ["setunit"; u] ->
         cfg := { !cfg with c_unit = n_of_hex u };
         steps := RbCfg !cfg :: !steps; shown := SUnit :: !shown
       | ["setenc"; e; w] ->
         cfg := { !cfg with c_endian = endian_of e; c_word = word_of w };
         steps := RbCfg !cfg :: !steps; shown := SEnc :: !shown
       | [] -> ()
       | _ -> failwith "rtuseqbad: bad step");
      step := [] in
    List.iter (fun t -> if t = ";" then flush () else step := t :: !step) rest;
    flush ();
    let steps = List.rev !steps in
    let results = rtuseqbad_run cfg0 steps in
    let demands = rtuseqbad_demands cfg0 steps in
    let lefts = rtuseqbad_lefts [] results in
    (* per step: the model's observable and what the property asks of the call *)
    let rec render sh rs ds ls =
      match sh, rs, ds, ls with
      | [], _, _, _ -> []
      | SUnit :: t, _, _, _ -> ("ok", None) :: render t rs ds ls
      | SEnc :: t, _, _, _ -> ("ok:u", None) :: render t rs ds ls
      | SCall :: t, r :: rt, d :: dt, l :: lt ->
        (Printf.sprintf "%s %s" (result_str r.cr_res) (csv_of_list hex_of_bytes r.cr_writes), Some (d, l))
        :: render t rt dt lt
      | SCall :: _, _, _, _ -> failwith "rtuseqbad: model returned too few results" in
    let expected = render (List.rev !shown) results demands lefts in
    let m = String.concat ";" (List.map fst expected) in
    let got = String.split_on_char ';' impl in
    let verdict g (ms, dem) =
      match dem, String.split_on_char ' ' g with
      | None, [x] -> if x = ms then `Holds else `Fails
      | Some (d, left), [r; ws] ->
        if not (List.for_all (fun f -> ends_with_crcb f) (chunks_of ws)) then `Fails
        else begin
          match d with
          | RbNotSuccess -> if is_ok r then `Fails else `Holds
          | RbFresh (Ok vs) ->
            (* the device answered with vs: the call succeeds and delivers vs *)
            if r = result_str (Ok vs) then `Holds
            else if left <> [] then `F8
            else `Fails
          | RbFresh _ -> `Holds   (* not a reply the client accepts: nothing is asked *)
        end
      | _ -> `Fails in
    let p =
      if List.length got <> List.length expected then "0"
      else begin
        let vs = List.map2 verdict got expected in
        if List.mem `Fails vs then "0"
        else if List.mem `F8 vs then "0:F8"
        else "1"
      end in
    (m, p)
  | _ -> failwith "rtuseqbad: bad input"

let () = Registry.register "rtuseqbad" rtuseqbad
