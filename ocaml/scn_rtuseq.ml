(* scenario "rtuseq" (C06, first clause, over sequences): a session of calls on
   ONE client / ONE RTU transport facing a well-behaved device that answers a
   frame if and only if it ends with the CRC-16 of its preceding bytes.
   link unit e w { ; call <reply> op... | ; setunit u | ; setenc e w }*
   The expected observables are rtuseq_run of the extracted Model/RtuSeq.v;
   P is the property text evaluated on what the real client did:
   ends_with_crcb of the extracted Spec/RtuSeqSpec.v (bit-serial reference
   CRC) on every frame the device received, and every request the device was
   ready to answer is a success. *)
open Model
open Conv
open Lib_wire

let is_ok r = String.length r >= 3 && String.sub r 0 3 = "ok:"

type shown = SCall | SUnit | SEnc

let rtuseq inp impl =
  match inp with
  | _link :: unit :: e :: w :: rest ->
    let cfg0 = { c_unit = n_of_hex unit; c_endian = endian_of e; c_word = word_of w } in
    let cfg = ref cfg0 in
    let steps = ref [] and shown = ref [] in
    let step = ref [] in
    let flush () =
      (match List.rev !step with
       | "call" :: reply :: optoks ->
         steps := RsCall (op_of_tokens optoks, bytes_of_hex reply) :: !steps; shown := SCall :: !shown
       | ["setunit"; u] ->
         cfg := { !cfg with c_unit = n_of_hex u };
         steps := RsCfg !cfg :: !steps; shown := SUnit :: !shown
       | ["setenc"; e; w] ->
         cfg := { !cfg with c_endian = endian_of e; c_word = word_of w };
         steps := RsCfg !cfg :: !steps; shown := SEnc :: !shown
       | [] -> ()
       | _ -> failwith "rtuseq: bad step");
      step := [] in
    List.iter (fun t -> if t = ";" then flush () else step := t :: !step) rest;
    flush ();
    let results = rtuseq_run cfg0 [] (List.rev !steps) in
    (* model observables, one entry per step *)
    let rec render sh rs =
      match sh, rs with
      | [], _ -> []
      | SUnit :: t, _ -> ("ok", false) :: render t rs
      | SEnc :: t, _ -> ("ok:u", false) :: render t rs
      | SCall :: t, r :: rt ->
        let s = result_str r.cr_res in
        (Printf.sprintf "%s %s" s (csv_of_list hex_of_bytes r.cr_writes), is_ok s) :: render t rt
      | SCall :: _, [] -> failwith "rtuseq: model returned too few results" in
    let expected = render (List.rev !shown) results in
    let m = String.concat ";" (List.map fst expected) in
    let got = String.split_on_char ';' impl in
    let p =
      if List.length got <> List.length expected then "0"
      else if List.for_all2 (fun g (ms, mok) ->
          match String.split_on_char ' ' g with
          | [r; ws] ->
            (* the property: every frame on the wire carries its own CRC-16; a
               well-behaved device then answers, so the call succeeds *)
            List.for_all (fun f -> ends_with_crcb f) (chunks_of ws) && ((not mok) || is_ok r)
          | [x] -> x = ms
          | _ -> false) got expected then "1" else "0" in
    (m, p)
  | _ -> failwith "rtuseq: bad input"

let () = Registry.register "rtuseq" rtuseq
