(* C15 scenarios: role extraction from certificate extensions (role), and the
   UTF-8 validity test on its own (utf8).

   role:  input  = extensions "<kind>:<hex value>" joined by commas, "-" for none;
                   kind r = Modbus Role OID, n = near-miss OID, o = unrelated OID
          output = hex of the role ("-" if empty), "panic" if extraction panicked
   utf8:  input  = hex bytes, output = 1/0 (utf8.Valid)

   The model output comes from the extracted model (extract_role_run,
   utf8_valid).  P is computed from the SPEC, independently of the decoder
   model: the role must be r iff exactly one extension carries the role OID and
   its value equals der_utf8string r (extracted from Spec/RoleSpec.v, used in
   the encoding direction only) with r well-formed UTF-8, where well-formedness
   is "r is utf8_encode of scalar values": a native decoder proposes the scalar
   values and the extracted encoder must give back r. *)
open Model
open Conv

(* candidate decoding: bit patterns only, no range checks (those are the
   spec's: is_scalar on the values and utf8_encode giving back the input) *)
let propose_scalars (bs : int list) : int list option =
  let c b = b land 0xC0 = 0x80 in
  let rec go acc = function
    | [] -> Some (List.rev acc)
    | b0 :: t when b0 < 0x80 -> go (b0 :: acc) t
    | b0 :: b1 :: t when b0 land 0xE0 = 0xC0 && c b1 ->
      go ((((b0 land 0x1F) lsl 6) lor (b1 land 0x3F)) :: acc) t
    | b0 :: b1 :: b2 :: t when b0 land 0xF0 = 0xE0 && c b1 && c b2 ->
      go ((((b0 land 0x0F) lsl 12) lor ((b1 land 0x3F) lsl 6) lor (b2 land 0x3F)) :: acc) t
    | b0 :: b1 :: b2 :: b3 :: t when b0 land 0xF8 = 0xF0 && c b1 && c b2 && c b3 ->
      go ((((b0 land 0x07) lsl 18) lor ((b1 land 0x3F) lsl 12) lor ((b2 land 0x3F) lsl 6) lor (b3 land 0x3F)) :: acc) t
    | _ -> None in
  go [] bs

let well_formed (bs : n list) : bool =
  match propose_scalars (List.map int_of_n bs) with
  | None -> false
  | Some cps ->
    let cps = List.map n_of_int cps in
    List.for_all is_scalar cps && utf8_encode cps = bs

let rec drop k l = if k <= 0 then l else match l with [] -> [] | _ :: t -> drop (k - 1) t

(* the r with v = der_utf8string r, if any: the header is 2..6 octets long *)
let stated_string (v : n list) : n list option =
  let rec try_hdr h =
    if h > 6 then None
    else if List.length v >= h && der_utf8string (drop h v) = v then Some (drop h v)
    else try_hdr (h + 1) in
  try_hdr 2

let spec_role (exts : (bool * n list) list) : n list =
  match List.filter fst exts with
  | [ (_, v) ] ->
    (match stated_string v with
     | Some r when well_formed r -> r
     | _ -> [])
  | _ -> []

let parse_ext tok =
  match String.index_opt tok ':' with
  | Some i ->
    let kind = String.sub tok 0 i in
    let v = String.sub tok (i + 1) (String.length tok - i - 1) in
    (kind = "r", bytes_of_hex v)
  | None -> failwith "role: bad extension token"

let role inp impl =
  match inp with
  | [tok] ->
    let exts = list_of_csv parse_ext tok in
    let m = (match extract_role_run exts with
        | DOk r -> hex_of_bytes r
        | DErr -> "model-error"
        | DPanic -> "panic") in
    let want = hex_of_bytes (spec_role exts) in
    (m, if impl = want then "1" else "0")
  | _ -> failwith "role: bad input"

let utf8 inp impl =
  match inp with
  | [b] ->
    let bs = bytes_of_hex b in
    let m = if utf8_valid bs then "1" else "0" in
    let want = if well_formed bs then "1" else "0" in
    (m, if impl = want then "1" else "0")
  | _ -> failwith "utf8: bad input"

(* plain TCP / TLS session role: input  tls(0/1) exts ; output as for role *)
let srole inp impl =
  match inp with
  | [tls; tok] ->
    let exts = list_of_csv parse_ext tok in
    let m = hex_of_bytes (session_role (tls = "1") exts) in
    let want = if tls = "1" then hex_of_bytes (spec_role exts) else "-" in
    (m, if impl = want then "1" else "0")
  | _ -> failwith "srole: bad input"

let () =
  Registry.register "role" role;
  Registry.register "utf8" utf8;
  Registry.register "srole" srole
