(* C14 scenarios with a LOCAL certificate that is itself expired / not yet valid
   / about to expire: tlssrvl, tlsclil (harness/cmd/implrun/c14c_localcred.go).

   The model is the extracted Model/TlsLocal.v (tls_server_conn_l,
   tls_client_tx_l, tls_client_open_l): the configuration carries the validity
   period of the local key pair (tokens lnb / lna) and the crypto/tls oracle is
   a FAMILY indexed by the reading of the tls.Config clock, the instant at which
   the peer's certificates are validated. The harness computed `verifies` with
   x509.Certificate.Verify at the real current time (token now), so the family
   has a value at that instant only (the oracle of scn_tls.ml built from the
   tokens); a model that asked crypto/tls to validate the peer at any other
   instant has no oracle value to go by and the case fails.

   tlssrvl: cred(keyset:local:peer) ver hascert verifies expected now lnb lna bytes-sent leaf-extensions
            -> "calls=<n> resp=<0/1> role=<hex|->"
   tlsclil: cred(keyset:local:peer) ver hascert verifies expected now lnb lna host name-verified-for
            -> "open=<ok|err> bytes=<n>"

   P is computed from the property text, not from the model, and does not look
   at the local certificate at all: the peer is served / the request is sent
   iff its chain verifies now and the version is 1.2 or 1.3. *)
open Model
open Conv
open Scn_tls

let own_of ~lnb ~lna =
  Some { two_cert = own_cert; two_window = { twi_not_before = n_of_hex lnb; twi_not_after = n_of_hex lna } }

(* the oracle family: defined at the instant the harness computed `verifies` for *)
let family ~now (at_now : tls_policy -> tls_peer -> tls_session option) (t : n) =
  if t = now then at_now
  else failwith "tlslocal: the peer is validated at an instant other than the current time"

let modern ver = (ver = Some TLS12 || ver = Some TLS13)

let tlssrvl inp impl =
  match inp with
  | [_cred; ver; hascert; verifies; expected; now; lnb; lna; sent; exts] ->
    let ver = version_of_tok ver in
    let hascert = (hascert = "1") and verifies = (verifies = "1") in
    let now = n_of_hex now in
    let c = { tsl_url = bytes_of_native "tcp+tls://127.0.0.1:0"; tsl_timeout = Z0; tsl_max_clients = N0;
              tsl_own = own_of ~lnb ~lna; tsl_cas = Some [ca_cert] } in
    let peer = peer_of ~exts:(list_of_csv parse_ext exts) ~tls:true ~hascert ~ver () in
    let stream = bytes_of_hex sent in
    let seen = ref [] in
    let evs = tls_server_conn_l (family ~now (oracle_srv ~verifies)) now (recording_handler seen) c peer 0 Closed stream in
    let role = (match List.sort_uniq compare (List.map hex_of_bytes !seen) with
        | [] -> "-" | [r] -> r | _ -> "mixed") in
    let calls = List.length (List.filter (function EvCall _ -> true | _ -> false) evs) in
    let fc = nth_opt stream 7 in
    let resp = List.exists (function EvResp f -> fc <> None && nth_opt f 7 = fc | _ -> false) evs in
    let m = Printf.sprintf "calls=%d resp=%d role=%s" calls (if resp then 1 else 0) role in
    (* the property, from its text: nothing about the local certificate *)
    let want = hascert && verifies && modern ver in
    if (expected = "1") <> want then failwith "tlssrvl: inconsistent expected token";
    let p = (match String.split_on_char ' ' impl with
        | [c; r; _role] -> if want then c = "calls=1" && r = "resp=1" else c = "calls=0" && r = "resp=0"
        | _ -> false) in
    (m, if p then "1" else "0")
  | _ -> failwith "tlssrvl: bad input"

let tlsclil inp impl =
  match inp with
  | [_cred; ver; hascert; verifies; expected; now; lnb; lna; host; name] ->
    let ver = version_of_tok ver in
    let hascert = (hascert = "1") and verifies = (verifies = "1") in
    let now = n_of_hex now in
    let c = { tcl_url_l = bytes_of_native "tcp+tls://" @ bytes_of_hex host @ bytes_of_native ":802";
              tcl_timeout_l = Z0; tcl_own = own_of ~lnb ~lna; tcl_roots_l = Some [ca_cert] } in
    let server = peer_of ~tls:true ~hascert ~ver () in
    let oracle = family ~now (oracle_cli ~verifies ~name:(bytes_of_hex name)) in
    let cfg = { c_unit = n_of_int 1; c_endian = BigE; c_word = HighFirst } in
    (* ReadRegister(0, HOLDING_REGISTER) on a fresh client *)
    let o = OpReadRegs (n_of_int 1, N0, n_of_int 1, Holding) in
    let tx = tls_client_tx_l oracle now c server cfg N0 o Closed [] in
    let opened = (match tls_new_client (tcl_conf c) with
        | CfgOk eff -> tls_client_open_l oracle now c eff server <> None
        | CfgErr _ -> false) in
    let bytes = List.fold_left (fun a w -> a + List.length w) 0 tx in
    let m = Printf.sprintf "open=%s bytes=%d" (if opened then "ok" else "err") bytes in
    let want = hascert && verifies && modern ver in
    if (expected = "1") <> want then failwith "tlsclil: inconsistent expected token";
    let p = (match String.split_on_char ' ' impl with
        | [o; b] when String.length b > 6 && String.sub b 0 6 = "bytes=" ->
          let n = int_of_string (String.sub b 6 (String.length b - 6)) in
          if want then o = "open=ok" && n > 0 else o = "open=err" && n = 0
        | _ -> false) in
    (m, if p then "1" else "0")
  | _ -> failwith "tlsclil: bad input"

let () =
  Registry.register "tlssrvl" tlssrvl;
  Registry.register "tlsclil" tlsclil
