(* scenario "txr" (C05 across Close() + Open()): a history of calls, reopens
   and deliveries on REAL transports, run through the extracted
   Model/TxnReopen.v (tr_step_run: every Open() is a new socket and a new
   transport; what is addressed to an older socket is not delivered).

     scheme tmo unit e w { ; call <dur> op... | ; rel <list> | ; reopen }*
       -> per step, joined by ";":  call "<result> <request frame>" | "rel" | "ro:nil"

   The device of the harness numbers the requests in the order they arrive and
   answers request h with a frame that echoes h's transaction id, unit id and
   function code, carries register data naming h, and is sent to where request
   h came from. Here: the request frame of a call is the one the model
   transmits (it does not depend on what the peer sends: c05_request_id); the
   reply to request h is built from the model's request h and addressed to the
   socket the model was using when it made request h. *)
open Model
open Conv
open Lib_wire

let split_steps (toks : string list) : string list list =
  let steps = ref [] and cur = ref [] in
  let flush () = if !cur <> [] then (steps := List.rev !cur :: !steps; cur := []) in
  List.iter (fun t -> if t = ";" then flush () else cur := t :: !cur) toks;
  flush ();
  List.rev !steps

let ints_of s = if s = "-" || s = "" then [] else List.map int_of_string (String.split_on_char ',' s)

(* register image of tag v for a read of 1 or 2 registers under byte order e
   and word order w ("1": big endian / high word first) - the layout of the
   harness' tagData, from the documented encodings *)
let tag_data v regs e w =
  let word x = if e = "1" then [x lsr 8 land 0xff; x land 0xff] else [x land 0xff; x lsr 8 land 0xff] in
  if regs = 1 then word (v land 0xffff)
  else
    let hi = word ((v lsr 16) land 0xffff) and lo = word (v land 0xffff) in
    if w = "1" then hi @ lo else lo @ hi

(* the device's reply to request number h, whose bytes were req *)
let reply_to h (req : int list) e w : int list option =
  if List.length req < 12 then None
  else
    let b i = List.nth req i in
    let regs = (b 10 lsl 8) lor b 11 in
    if regs <> 1 && regs <> 2 then None
    else
      let data = tag_data h regs e w in
      let n = List.length data in
      Some ([b 0; b 1; 0; 0; 0; n + 3; b 6; b 7; n] @ data)

let txr inp impl =
  match inp with
  | _scheme :: _tmo :: unit :: e :: w :: rest ->
    let cfg = { c_unit = n_of_hex unit; c_endian = endian_of e; c_word = word_of w } in
    let steps = split_steps rest in
    let st = ref tr_init in
    (* requests in the order the device receives them: socket and bytes *)
    let reqs = ref [||] in
    let dgram h =
      if h < 0 || h >= Array.length !reqs then None
      else
        let (sock, frame) = (!reqs).(h) in
        match reply_to h frame e w with
        | Some f -> Some { tg_sock = sock; tg_bytes = List.map n_of_int f }
        | None -> None in
    let run s = let (st', r) = tr_step_run FMbap cfg !st s in st := st'; r in
    let outs = List.map (function
        | "call" :: dur :: optoks ->
          let op = op_of_tokens optoks in
          (* the request goes out first: what is transmitted does not depend on the peer *)
          let (_, dry) = tr_step_run FMbap cfg !st (TrCall { trc_op = op; trc_in = []; trc_end = Stall }) in
          (match dry with
           | Some r ->
             (match r.cr_writes with
              | f :: _ -> reqs := Array.append !reqs [| (!st.tr_sock, List.map int_of_n f) |]
              | [] -> ())
           | None -> ());
          let ds = List.filter_map dgram (ints_of dur) in
          (match run (TrCall { trc_op = op; trc_in = ds; trc_end = Stall }) with
           | Some r -> `Call (result_str r.cr_res, csv_of_list hex_of_bytes r.cr_writes)
           | None -> failwith "txr: call without result")
        | ["rel"; l] ->
          ignore (run (TrArrive (List.filter_map dgram (ints_of l))));
          `Rel
        | ["reopen"] -> ignore (run TrReopen); `Reopen
        | _ -> failwith "txr: bad step") steps in
    let str = function
      | `Call (r, ws) -> r ^ " " ^ ws
      | `Rel -> "rel"
      | `Reopen -> "ro:nil" in
    let m = String.concat ";" (List.map str outs) in
    (* P, evaluated on what the implementation did:
       (a) a call that returned a value returned the one naming ITS OWN request
           (request number g in order of arrival at the device) - in particular
           never the value of a request made before a reopen;
       (b) per call, the projected outcome and the transmitted request are the
           model's (a call keeps waiting for its own reply until the timeout; the
           ids restart at 1 with every transport);
       (c) every reopen succeeded *)
    let isteps = if impl = "" then [] else String.split_on_char ';' impl in
    let ok = ref (List.length isteps = List.length outs) in
    let g = ref 0 in
    if !ok then
      List.iter2 (fun s o ->
          match o, String.split_on_char ' ' s with
          | `Call (mr, mw), [ir; iw] ->
            if project ir <> project mr || iw <> mw then ok := false;
            (if String.length ir > 5 && String.sub ir 0 5 = "ok:n:" then
               match int_of_string_opt ("0x" ^ String.sub ir 5 (String.length ir - 5)) with
               | Some v -> if v <> !g then ok := false
               | None -> ok := false);
            if iw <> "-" then incr g
          | `Rel, ["rel"] -> ()
          | `Reopen, ["ro:nil"] -> ()
          | _ -> ok := false) isteps outs;
    (m, if !ok then "1" else "0")
  | _ -> failwith "txr: bad input"

let () = Registry.register "txr" txr
