(* scenario registry: every scn_*.ml registers its handlers here.
   A handler maps (input tokens, implementation output) to
   (model output, P) with P = "1"/"0". *)
let tbl : (string, string list -> string -> string * string) Hashtbl.t = Hashtbl.create 64
let register (name : string) f = Hashtbl.replace tbl name f
let dispatch scn inp impl : string * string =
  match Hashtbl.find_opt tbl scn with
  | Some f -> f inp impl
  | None -> ("modeld-error:unknown-scenario:" ^ scn, "0")
