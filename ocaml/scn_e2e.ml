(* scenario e2e (property C04): a history of typed client calls on a real
   client / real server pair with a memory-backed handler, against the
   register file specification (Spec/RegFile.v: rf_run). The end-to-end model
   (Model/E2E.v: e2e_run) is run on the same history as a cross-check of the
   proved refinement.
   input:   scheme e w { ; [fail k errname] (op... | setunit u | setenc e w) }*
   output:  per step "result calls" joined by ";" then ";M coilruns regruns" *)
open Model
open Conv
open Lib_wire

(* every step is introduced by a ";" token *)
let split_steps (toks : string list) : string list list =
  let steps = ref [] and cur = ref None in
  let close () = match !cur with Some s -> steps := List.rev s :: !steps | None -> () in
  List.iter (fun t ->
      if t = ";" then (close (); cur := Some [])
      else match !cur with
        | Some s -> cur := Some (t :: s)
        | None -> failwith "e2e: token before the first step") toks;
  close ();
  List.rev !steps

let herr_of (name : string) : herr =
  match name with
  | "eproto" -> HProtocol
  | "eother" -> HOther
  | s when String.length s > 1 && s.[0] = 'e' ->
    HModbus (n_of_int (int_of_string (String.sub s 1 (String.length s - 1))))
  | s -> failwith ("e2e: bad error name " ^ s)

let no_failure : hreq -> herr option = fun _ -> None

let parse_step (toks : string list) : (hreq -> herr option) * rf_op =
  let (policy, rest) =
    match toks with
    | "fail" :: k :: e :: rest ->
      let err = herr_of e in
      ((if int_of_string k = 0 then (fun _ -> Some err) else no_failure), rest)
    | _ -> (no_failure, toks) in
  let x =
    match rest with
    | ["setunit"; u] -> RfSetUnit (n_of_hex u)
    | ["setenc"; e; w] -> RfSetEnc (n_of_hex e, n_of_hex w)
    | _ -> RfCall (op_of_tokens rest) in
  (policy, x)

(* maximal runs of dirty addresses, the cells printed by [cell] joined by [sep] *)
let runs (dirty : Bytes.t) (cell : int -> string) (sep : string) : string =
  let out = ref [] in
  let i = ref 0 in
  while !i < 65536 do
    if Bytes.get dirty !i <> '\000' then begin
      let j = ref !i in
      while !j < 65536 && Bytes.get dirty !j <> '\000' do incr j done;
      let cells = List.init (!j - !i) (fun k -> cell (!i + k)) in
      out := Printf.sprintf "%x:%s" !i (String.concat sep cells) :: !out;
      i := !j
    end else incr i
  done;
  if !out = [] then "-" else String.concat "/" (List.rev !out)

let format_run (mem : rfmem) (results : rf_result list) : string =
  let dirty_c = Bytes.make 65536 '\000' and dirty_r = Bytes.make 65536 '\000' in
  let mark d r =
    let a = int_of_n r.h_addr and q = int_of_n r.h_qty in
    for k = a to a + q - 1 do
      if k < 65536 then Bytes.set d k '\001'
    done in
  let steps = List.map (fun ((res, calls) : rf_result) ->
      (match res with
       | Ok _ ->
         List.iter (fun r ->
             if r.h_write then
               (match r.h_kind with
                | HCoils -> mark dirty_c r
                | HHolding -> mark dirty_r r
                | _ -> ())) calls
       | _ -> ());
      let cs = if calls = [] then "-"
        else String.concat "+" (List.map (fun r -> event_str (EvCall r)) calls) in
      result_str res ^ " " ^ cs) results in
  let coilruns = runs dirty_c (fun a -> if mem.rf_coils (n_of_int a) then "1" else "0") "" in
  let regruns = runs dirty_r (fun a -> hex_of_n (mem.rf_holding (n_of_int a))) "," in
  String.concat ";" (steps @ [Printf.sprintf "M %s %s" coilruns regruns])

let e2e inp impl =
  try
    match inp with
    | _scheme :: e :: w :: rest ->
      let history = List.map parse_step (split_steps rest) in
      let cfg0 = { c_unit = n_of_int 1; c_endian = endian_of e; c_word = word_of w } in
      let mem0 = {
        rf_coils = (fun _ -> false);
        rf_discrete = (fun k -> let i = int_of_n k in ((i * 7) + (i / 3)) mod 3 = 0);
        rf_holding = (fun _ -> N0);
        rf_input = (fun k -> n_of_int (((int_of_n k * 31) + 5) mod 65536)) } in
      (* the specification *)
      let ((_, mem), results) = rf_run (cfg0, mem0) history in
      let spec = format_run mem results in
      (* the end-to-end model: proved to agree with the specification *)
      let (s, results') =
        e2e_run { e2e_cfg = cfg0; e2e_mem = mem0; e2e_txn = N0; e2e_left = [] } history in
      let (_, mem') = e2e_view s in
      let model = format_run mem' results' in
      if model <> spec then ("MODEL-SPEC-MISMATCH " ^ model, "0")
      else (spec, if impl = spec then "1" else "0")
    | _ -> failwith "e2e: bad input"
  with ex -> ("modeld-error:" ^ Printexc.to_string ex, "0")

let () = Registry.register "e2e" e2e
