(* C14 scenarios: tlssrv, tlscli, tlsctor, tlsctl.

   The extracted model (Model/TlsPolicy.v) takes Go's crypto/tls as an oracle
   argument. Here the oracle is instantiated from the case's input tokens:
   whether the presented chain verifies was computed by the harness with
   x509.Certificate.Verify (same pool / usage / time / host name as crypto/tls
   would use, but independently of any connection); the negotiated version is
   the single version the harness peer offers. The oracle below is what
   crypto/tls documents for EVERY ClientAuth mode / MinVersion /
   InsecureSkipVerify value, so that a model whose policy record differs from
   the repository's predicts something else than the implementation does.

   tlssrv: cred kind(tls|plain|garbage) ver(10..13|0) hascert verifies expected bytes-sent leaf-extensions
           -> "calls=<n> resp=<0/1> role=<hex|->"
   tlscli: cred ver hascert verifies expected host name-verified-for
           -> "open=<ok|err> bytes=<n>"
   tlsctor: side(s|c) scheme(hex) hascert haspool -> "ok" | "err:config"
   tlsctl: keyset ver -> "ok"      (harness self-test: the Go TLS stack of this
           process negotiates that version when asked to)

   P is computed from the property text, not from the model: the peer is
   served / the request is sent iff it speaks TLS, its chain verifies and the
   version is 1.2 or 1.3 (and that must be the harness' own `expected` token). *)
open Model
open Conv

let bytes_of_native s = List.init (String.length s) (fun i -> n_of_int (Char.code s.[i]))

let version_of_tok = function
  | "10" -> Some TLS10 | "11" -> Some TLS11 | "12" -> Some TLS12 | "13" -> Some TLS13
  | _ -> None

let cert id = { tlc_id = n_of_int id; tlc_exts = [] }
let ca_cert = cert 1
let own_cert = cert 2
let peer_leaf = cert 3

let parse_ext tok =
  match String.index_opt tok ':' with
  | Some i -> (String.sub tok 0 i = "r", bytes_of_hex (String.sub tok (i + 1) (String.length tok - i - 1)))
  | None -> failwith "tls: bad extension token"

let peer_of ?(exts = []) ~tls ~hascert ~ver () =
  { tpe_speaks_tls = tls;
    tpe_chain = (if hascert then [{ peer_leaf with tlc_exts = exts }] else []);
    tpe_versions = (match ver with Some v -> [v] | None -> []) }

let session_of peer v = Some { tss_version = v; tss_peer_certs = peer.tpe_chain }

(* crypto/tls, server side *)
let oracle_srv ~verifies (pol : tls_policy) (peer : tls_peer) : tls_session option =
  if not peer.tpe_speaks_tls then None
  else match peer.tpe_versions with
    | [v] when tls_version_geb v pol.tpo_min_version ->
      let has = peer.tpe_chain <> [] in
      let ok = (match pol.tpo_client_auth with
          | TlsNoClientCert | TlsRequestClientCert -> true
          | TlsRequireAnyClientCert -> has
          | TlsVerifyClientCertIfGiven -> (not has) || verifies
          | TlsRequireAndVerify -> has && verifies) in
      if ok then session_of peer v else None
    | _ -> None

(* crypto/tls, client side; `name` is the host name `verifies` was computed for *)
let oracle_cli ~verifies ~name (pol : tls_policy) (peer : tls_peer) : tls_session option =
  if not peer.tpe_speaks_tls then None
  else if peer.tpe_chain = [] then None          (* a server without certificate cannot complete a handshake *)
  else match peer.tpe_versions with
    | [v] when tls_version_geb v pol.tpo_min_version ->
      if pol.tpo_skip_verify then session_of peer v
      else if pol.tpo_server_name <> name then failwith "tls: the verification token is for another host name"
      else if verifies then session_of peer v else None
    | _ -> None

(* the harness' handler: zeros of the requested size, no error; it records
   the role the model hands to it at every invocation *)
let recording_handler (seen : n list list ref) (role : n list) : int handler =
  fun st r ->
    seen := role :: !seen;
    let q = int_of_n r.h_qty in
    (st + 1, { r_bools = List.init q (fun _ -> false); r_regs = List.init q (fun _ -> N0); r_err = HNone })

let nth_opt l i = try Some (List.nth l i) with _ -> None

let tlssrv inp impl =
  match inp with
  | [_cred; kind; ver; hascert; verifies; expected; sent; exts] ->
    let tls = (kind = "tls") in
    let ver = version_of_tok ver in
    let hascert = (hascert = "1") and verifies = (verifies = "1") in
    let c = { tsv_url = bytes_of_native "tcp+tls://127.0.0.1:0"; tsv_timeout = Z0; tsv_max_clients = N0;
              tsv_cert = Some own_cert; tsv_cas = Some [ca_cert] } in
    let peer = peer_of ~exts:(list_of_csv parse_ext exts) ~tls ~hascert ~ver () in
    let stream = bytes_of_hex sent in
    let seen = ref [] in
    let evs = tls_server_conn (oracle_srv ~verifies) (recording_handler seen) c peer 0 Closed stream in
    let role = (match List.sort_uniq compare (List.map hex_of_bytes !seen) with
        | [] -> "-" | [r] -> r | _ -> "mixed") in
    let calls = List.length (List.filter (function EvCall _ -> true | _ -> false) evs) in
    let fc = nth_opt stream 7 in
    let resp = List.exists (function EvResp f -> fc <> None && nth_opt f 7 = fc | _ -> false) evs in
    let m = Printf.sprintf "calls=%d resp=%d role=%s" calls (if resp then 1 else 0)
        role in
    (* the property, from its text *)
    let want = tls && hascert && verifies && (ver = Some TLS12 || ver = Some TLS13) in
    if (expected = "1") <> want then failwith "tlssrv: inconsistent expected token";
    let p = (match String.split_on_char ' ' impl with
        | [c; r; _role] -> if want then c = "calls=1" && r = "resp=1" else c = "calls=0" && r = "resp=0"
        | _ -> false) in
    (m, if p then "1" else "0")
  | _ -> failwith "tlssrv: bad input"

let tlscli inp impl =
  match inp with
  | [_cred; ver; hascert; verifies; expected; host; name] ->
    let ver = version_of_tok ver in
    let hascert = (hascert = "1") and verifies = (verifies = "1") in
    let c = { tcl_url = bytes_of_native "tcp+tls://" @ bytes_of_hex host @ bytes_of_native ":802";
              tcl_timeout = Z0; tcl_cert = Some own_cert; tcl_roots = Some [ca_cert] } in
    let server = peer_of ~tls:true ~hascert ~ver () in
    let oracle = oracle_cli ~verifies ~name:(bytes_of_hex name) in
    let cfg = { c_unit = n_of_int 1; c_endian = BigE; c_word = HighFirst } in
    (* ReadRegister(0, HOLDING_REGISTER) on a fresh client *)
    let o = OpReadRegs (n_of_int 1, N0, n_of_int 1, Holding) in
    let tx = tls_client_tx oracle c server cfg N0 o Closed [] in
    let opened = (match tls_new_client c with
        | CfgOk eff -> tls_client_open oracle c eff server <> None
        | CfgErr _ -> false) in
    let bytes = List.fold_left (fun a w -> a + List.length w) 0 tx in
    let m = Printf.sprintf "open=%s bytes=%d" (if opened then "ok" else "err") bytes in
    let want = hascert && verifies && (ver = Some TLS12 || ver = Some TLS13) in
    if (expected = "1") <> want then failwith "tlscli: inconsistent expected token";
    let p = (match String.split_on_char ' ' impl with
        | [o; b] when String.length b > 6 && String.sub b 0 6 = "bytes=" ->
          let n = int_of_string (String.sub b 6 (String.length b - 6)) in
          if want then o = "open=ok" && n > 0 else o = "open=err" && n = 0
        | _ -> false) in
    (m, if p then "1" else "0")
  | _ -> failwith "tlscli: bad input"

let ctor_str = function
  | CfgOk _ -> "ok"
  | CfgErr EConfig -> "err:config"
  | CfgErr EUnexpectedParams -> "err:params"

let tlsctor inp impl =
  match inp with
  | [side; scheme; hascert; haspool] ->
    let url = bytes_of_hex scheme @ bytes_of_native "://127.0.0.1:0" in
    let cert = if hascert = "1" then Some own_cert else None in
    let pool = if haspool = "1" then Some [ca_cert] else None in
    let m = (match side with
        | "s" -> ctor_str (tls_new_server { tsv_url = url; tsv_timeout = Z0; tsv_max_clients = N0;
                                            tsv_cert = cert; tsv_cas = pool })
        | "c" -> ctor_str (tls_new_client { tcl_url = url; tcl_timeout = Z0; tcl_cert = cert; tcl_roots = pool })
        | _ -> failwith "tlsctor: bad side") in
    (* property text: tcp+tls is refused when the certificate or the pool is
       missing (plain tcp needs neither) *)
    let want = (match scheme with
        | "7463702b746c73" (* tcp+tls *) -> if hascert = "1" && haspool = "1" then "ok" else "err:config"
        | "746370" (* tcp *) -> "ok"
        | _ -> failwith "tlsctor: unexpected scheme") in
    (m, if impl = want then "1" else "0")
  | _ -> failwith "tlsctor: bad input"

let tlsctl inp impl =
  match inp with
  | [_keys; _ver] -> ("ok", if impl = "ok" then "1" else "0")
  | _ -> failwith "tlsctl: bad input"

let () =
  Registry.register "tlssrv" tlssrv;
  Registry.register "tlscli" tlscli;
  Registry.register "tlsctor" tlsctor;
  Registry.register "tlsctl" tlsctl
