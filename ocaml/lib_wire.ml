(* helpers of the wire-layer scenarios: token parsing, printers, scripted handler *)
open Model
open Conv

let endian_of s = if s = "1" then BigE else LittleE
let word_of s = if s = "1" then HighFirst else LowFirst

(* list tokens may be written rep:<n>:<item> *)
let expand_rep (s : string) : (int * string) option =
  if String.length s > 4 && String.sub s 0 4 = "rep:" then
    match String.split_on_char ':' s with
    | [_; n; v] -> Some (int_of_string n, v)
    | _ -> None
  else None

let bools_tok s = match expand_rep s with
  | Some (n, v) -> List.init n (fun _ -> v = "1")
  | None -> bools_of_str s
let nums_tok s = match expand_rep s with
  | Some (n, v) -> let x = n_of_hex v in List.init n (fun _ -> x)
  | None -> list_of_csv n_of_hex s
let bytes_tok s = match expand_rep s with
  | Some (n, v) -> let x = n_of_hex v in List.init n (fun _ -> x)
  | None -> bytes_of_hex s

let regtype_of s = match s with "0" -> Holding | "1" -> InputReg | _ -> BadRegType

let n1 = n_of_int 1 and n2 = n_of_int 2 and n4 = n_of_int 4

(* public API call tokens -> model operation *)
let op_of_tokens (t : string list) : op =
  let n = n_of_hex in
  match t with
  | ["ReadCoils"; a; q] -> OpReadBools (false, n a, n q)
  | ["ReadCoil"; a] -> OpReadBools (false, n a, n1)
  | ["ReadDiscreteInputs"; a; q] -> OpReadBools (true, n a, n q)
  | ["ReadDiscreteInput"; a] -> OpReadBools (true, n a, n1)
  | ["ReadRegisters"; a; q; rt] -> OpReadRegs (n1, n a, n q, regtype_of rt)
  | ["ReadRegister"; a; rt] -> OpReadRegs (n1, n a, n1, regtype_of rt)
  | [("ReadUint32s" | "ReadFloat32s"); a; q; rt] -> OpReadRegs (n2, n a, n q, regtype_of rt)
  | [("ReadUint32" | "ReadFloat32"); a; rt] -> OpReadRegs (n2, n a, n1, regtype_of rt)
  | [("ReadUint64s" | "ReadFloat64s"); a; q; rt] -> OpReadRegs (n4, n a, n q, regtype_of rt)
  | [("ReadUint64" | "ReadFloat64"); a; rt] -> OpReadRegs (n4, n a, n1, regtype_of rt)
  | ["ReadBytes"; a; q; rt] -> OpReadBytes (false, n a, n q, regtype_of rt)
  | ["ReadRawBytes"; a; q; rt] -> OpReadBytes (true, n a, n q, regtype_of rt)
  | ["WriteCoil"; a; v] -> OpWriteCoil (n a, v = "1")
  | ["WriteCoils"; a; vs] -> OpWriteCoils (n a, bools_tok vs)
  | ["WriteRegister"; a; v] -> OpWriteReg (n a, n v)
  | ["WriteRegisters"; a; vs] -> OpWriteRegs (n1, n a, nums_tok vs)
  | [("WriteUint32s" | "WriteFloat32s"); a; vs] -> OpWriteRegs (n2, n a, nums_tok vs)
  | [("WriteUint32" | "WriteFloat32"); a; v] -> OpWriteRegs (n2, n a, [n v])
  | [("WriteUint64s" | "WriteFloat64s"); a; vs] -> OpWriteRegs (n4, n a, nums_tok vs)
  | [("WriteUint64" | "WriteFloat64"); a; v] -> OpWriteRegs (n4, n a, [n v])
  | ["WriteBytes"; a; bs] -> OpWriteBytes (false, n a, bytes_tok bs)
  | ["WriteRawBytes"; a; bs] -> OpWriteBytes (true, n a, bytes_tok bs)
  | _ -> failwith ("bad op tokens: " ^ String.concat " " t)

let err_str = function
  | ETimeout -> "timeout" | EParams -> "params" | EProtocol -> "protocol" | EBadCRC -> "badcrc"
  | EShortFrame -> "short" | EBadUnit -> "badunit"
  | EExc c -> "exc:" ^ string_of_int (int_of_n c)
  | EExcUnknown c -> "excunk:" ^ string_of_int (int_of_n c)
  | EUnknownProto -> "unknownproto" | EIO -> "io"

let values_str = function
  | VUnit -> "u"
  | VBools l -> "b:" ^ str_of_bools l
  | VNums l -> "n:" ^ csv_of_list hex_of_n l
  | VBytes l -> "y:" ^ hex_of_bytes l

let result_str = function
  | Ok v -> "ok:" ^ values_str v
  | Err e -> "err:" ^ err_str e
  | Panic -> "panic"
  | OutOfFuel -> "outoffuel"

(* the property-level projection of a result: success with its values, a
   specific exception, or "some error" *)
let project (r : string) : string =
  if String.length r >= 3 && String.sub r 0 3 = "ok:" then r
  else if String.length r >= 8 && String.sub r 0 8 = "err:exc:" then r
  else if String.length r >= 11 && String.sub r 0 11 = "err:excunk:" then "err"
  else if r = "err:timeout" then r
  else if r = "err:params" then r
  else if String.length r >= 4 && String.sub r 0 4 = "err:" then "err"
  else r

let chunks_of s = if s = "-" then [] else List.map bytes_of_hex (String.split_on_char ',' s)

(* ---- server handler scripts: shared formulas with the Go harness *)
let pat_bool addr i = ((addr + i) * 7 + (i / 3)) mod 3 = 0
let pat_reg addr i = ((addr * 31) + (i * 17) + 5) mod 65536

(* scripted handler: the extracted Model/ScriptHandler.v; tokens -> behaviours *)
let beh_of_tok t = match t with
  | "ok" -> ShOk | "short" -> ShShort | "long" -> ShLong | "nil" -> ShNil
  | "eproto" -> ShProto | "eother" -> ShOther
  | s when String.length s > 1 && s.[0] = 'e' ->
    ShErr (n_of_int (int_of_string (String.sub s 1 (String.length s - 1))))
  | _ -> ShOk

let script_of_tokens (sc : string array) : sh_beh list = List.map beh_of_tok (Array.to_list sc)

let kind_str = function HCoils -> "c" | HDiscrete -> "d" | HHolding -> "h" | HInput -> "i"

let event_str = function
  | EvCall r ->
    Printf.sprintf "C:%s:%d:%d:%d:%s:%s" (kind_str r.h_kind) (int_of_n r.h_unit) (int_of_n r.h_addr)
      (int_of_n r.h_qty) (if r.h_write then "1" else "0")
      (match r.h_kind with
       | HCoils | HDiscrete -> str_of_bools r.h_bools
       | _ -> csv_of_list hex_of_n r.h_regs)
  | EvResp f -> "R:" ^ hex_of_bytes f
  | EvClosed -> "X"


let send_of s = match s with "c" -> Closed | "r" -> Reset | _ -> Stall
