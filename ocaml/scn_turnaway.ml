(* scenario "turnaway" (C10): lifecycle traces on a real plain tcp server at
   its connection limit, with connections it serves and connections it has
   turned away, in every state their peers can have put them in, when Stop
   runs (see harness/cmd/implrun/c10_turnaway.go). Every expected token is
   read off the extracted transition system of Model/TurnAway.v (Slots.v +
   what each peer has sent + the handler counter + the responses written);
   theorems in Properties/C10e.v.
     S   Start                          "ok:<snap>"   (the model never produces "err:")
     P   Stop, then for every connection the harness holds (except a taken
         one) whether the peer sees it closed, and the bytes the peers
         received after Stop returned: "<snap>/g<n>:<id>c,...:b0"; the snapshot
         is taken after the sessions closed by Stop have wound down
     N   Arrive, Take, Enrol            "refused" | "<snap>:s" | "<snap>:t"
     T   Arrive, Take                   "taken" | "refused"
     E   Enrol of the taken connection  "<snap>:s" | "<snap>:t"
     M   APart                          "part"
     R   Req                            "resp+1" iff ta_live, else "closed+0"; while
                                        the server is stopped the bytes received
                                        are part of the token: "closed:b0+0"
     D   End Disconnect, Remove         "<snap>"
   <snap> = started/len(active list)/a<accept goroutines>/h<session goroutines>,
   g = every goroutine spawned by the server that is still alive *)
open Model
open Conv

let acc_held = ref false

(* accept goroutines whose listener was closed return at once, except one that
   is being held by the harness between Accept and the admission step *)
let settle (b : ta_state) : ta_state =
  let b = ref b in
  let keep = if !acc_held then 1 else 0 in
  while int_of_nat (!b).ta_srv.zombies > keep do b := ta_step !b (ASrv AcceptExit) done;
  !b

let snapshot (b : ta_state) =
  let s = b.ta_srv in
  Printf.sprintf "%d/%d/a%d/h%d" (if s.started then 1 else 0) (List.length s.clients)
    (int_of_nat (ta_acceptors b)) (int_of_nat (ta_sessions b))

let steps b ls = List.fold_left (fun b l -> ta_step b (ASrv l)) b ls

let resp_len = 11

let turnaway inp impl =
  match inp with
  | maxc :: ops ->
    let b = ref (ta_init (nat_of_int (int_of_string maxc))) in
    acc_held := false;
    let held = ref (-1) in
    (* connections the harness holds open (dialled, not disconnected) *)
    let opened = ref [] in
    let admitted c =
      if (!b).ta_srv.stat c = Serving then "s" else if ta_turned_away !b c then "t" else "?" in
    let out = List.map (fun op ->
        let f = String.split_on_char ':' op in
        let hd = List.hd f in
        let k = hd.[0] in
        let i = if String.length hd > 1 then int_of_string (String.sub hd 1 (String.length hd - 1)) else 0 in
        let c = nat_of_int i in
        match k with
        | 'S' -> b := settle (ta_step !b (ASrv Start)); "ok:" ^ snapshot !b
        | 'P' ->
          let wrote0 = List.map (fun j -> int_of_nat ((!b).ta_wrote (nat_of_int j))) !opened in
          b := ta_step !b (ASrv Stop);
          let flags = List.filter_map (fun j ->
              if j = !held then None
              else Some (Printf.sprintf "%d%s" j (if ta_peer_closed !b (nat_of_int j) then "c" else "o")))
              (List.sort compare !opened) in
          (* every session goroutine whose socket Stop closed winds down *)
          List.iter (fun c ->
              if (!b).ta_srv.stat c = Serving then b := steps !b [End (c, ClosedByStop); Remove c])
            (!b).ta_srv.clients;
          b := settle !b;
          let wrote1 = List.map (fun j -> int_of_nat ((!b).ta_wrote (nat_of_int j))) !opened in
          let late = resp_len * (List.fold_left (+) 0 wrote1 - List.fold_left (+) 0 wrote0) in
          Printf.sprintf "%s/g%d:%s:b%d" (snapshot !b) (int_of_nat (ta_goroutines !b))
            (if flags = [] then "-" else String.concat "," flags) late
        | 'N' ->
          if not (!b).ta_srv.listening then "refused"
          else (b := steps !b [Arrive c; Take c; Enrol c]; opened := i :: !opened;
                snapshot !b ^ ":" ^ admitted c)
        | 'T' ->
          if not (!b).ta_srv.listening then "refused"
          else (b := steps !b [Arrive c; Take c]; opened := i :: !opened;
                held := i; acc_held := true; "taken")
        | 'E' ->
          if !held < 0 then snapshot !b ^ ":-"
          else begin
            let hc = nat_of_int !held in
            b := steps !b [Enrol hc];
            held := -1; acc_held := false; b := settle !b;
            snapshot !b ^ ":" ^ admitted hc
          end
        | 'M' -> if List.mem i !opened then (b := ta_step !b (APart c); "part") else "-"
        | 'R' ->
          if i = !held then "held"
          else begin
            let w0 = int_of_nat ((!b).ta_wrote c) and c0 = int_of_nat (!b).ta_calls in
            let res = if List.mem i !opened && ta_live !b c then "resp" else "closed" in
            if List.mem i !opened then b := ta_step !b (ASrv (Req c));
            let w1 = int_of_nat ((!b).ta_wrote c) and c1 = int_of_nat (!b).ta_calls in
            if (!b).ta_srv.started then Printf.sprintf "%s+%d" res (c1 - c0)
            else Printf.sprintf "%s:b%d+%d" res (resp_len * (w1 - w0)) (c1 - c0)
          end
        | 'D' ->
          if List.mem i !opened && i <> !held then begin
            b := steps !b [End (c, Disconnect); Remove c];
            opened := List.filter (fun j -> j <> i) !opened
          end;
          snapshot !b
        | _ -> "?") ops in
    let m = String.concat " " (out @ [Printf.sprintf "calls=%d" (int_of_nat (!b).ta_calls)]) in
    (m, if m = impl then "1" else "0")
  | _ -> failwith "turnaway: bad input"

let () = Registry.register "turnaway" turnaway
