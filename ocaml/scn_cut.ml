(* C13 scenarios: a stream cut at byte offset k.
   cutsrv  : server session on frame[:k]
   cutcc   : client call on stream[:k]
   cutreal : real sockets - server side (handler count, active list, fresh
             connection) and client side (cut call, Close, Open, fresh call) *)
open Model
open Conv
open Lib_wire

let rec take k l = if k <= 0 then [] else match l with [] -> [] | x :: t -> x :: take (k - 1) t

let starts_with s p = String.length s >= String.length p && String.sub s 0 (String.length p) = p

let count_prefixed p evs = List.length (List.filter (fun e -> starts_with e p) evs)

(* cutsrv: end k frame script -> events *)
let cutsrv inp impl =
  match inp with
  | [send; k; frame; script] ->
    let f = bytes_of_hex frame in
    let k = int_of_string k in
    let sc = if script = "-" then [||] else Array.of_list (String.split_on_char ',' script) in
    let evs = server_run (sh_handler (script_of_tokens sc)) O (send_of send) (take k f) in
    let m = String.concat ";" (List.map event_str evs) in
    (* P, on what the implementation did: inside the frame no handler call and no
       response, just the close; at the end of the frame exactly as many calls as
       processing the request once makes (0 or 1), and the close *)
    let ievs = String.split_on_char ';' impl in
    let p =
      if k < List.length f then impl = "X"
      else
        count_prefixed "C:" ievs = int_of_nat (cut_calls evs)
        && count_prefixed "C:" ievs <= 1
        && List.nth ievs (List.length ievs - 1) = "X"
        && not (List.mem "PANIC" ievs) in
    (m, if p then "1" else "0")
  | _ -> failwith "cutsrv: bad input"

(* cutcc: fr unit e w end k stream op... -> result writes consumed *)
let cutcc inp impl =
  match inp with
  | fr :: unit :: e :: w :: send :: k :: stream :: optoks ->
    let cfg = { c_unit = n_of_hex unit; c_endian = endian_of e; c_word = word_of w } in
    let framing = if fr = "m" then FMbap else FRtu in
    let s = bytes_of_hex stream in
    let k = int_of_string k in
    let cut = take k s in
    let o = op_of_tokens optoks in
    let r = client_call framing cfg N0 o (send_of send) cut in
    let consumed = List.length cut - List.length r.cr_rest in
    let rs = result_str r.cr_res in
    let m = Printf.sprintf "%s %s %d" rs (csv_of_list hex_of_bytes r.cr_writes) consumed in
    (* P: a cut reply is never a success; the complete stream gives the model's
       (proved sound and complete) outcome *)
    let p = (match String.split_on_char ' ' impl with
        | [ir; _; _] ->
          if k < List.length s then starts_with ir "err:" else project ir = project rs
        | _ -> false) in
    (m, if p then "1" else "0")
  | _ -> failwith "cutcc: bad input"

(* the handler of the real-socket server cases: right-sized zero results *)
let zero_handler : int -> hreq -> int * hres =
  fun st r ->
    let q = int_of_n r.h_qty in
    (st + 1, { r_bools = List.init q (fun _ -> false); r_regs = List.init q (fun _ -> N0); r_err = HNone })

let steps s ls = List.fold_left step s ls

let cutreal inp impl =
  match inp with
  | ["srv"; send; k; frame] ->
    let f = bytes_of_hex frame in
    let k = int_of_string k in
    let e = send_of send in
    let evs = server_run zero_handler 0 e (take k f) in
    let calls = int_of_nat (cut_calls evs) in
    (* the bookkeeping side: one slot; the session ends (the peer went away, or
       the idle deadline expired), is removed, and the next connection is enrolled *)
    let c1 = nat_of_int 1 and c2 = nat_of_int 2 in
    let s = steps (init (nat_of_int 1)) [Start; Arrive c1; Take c1; Enrol c1] in
    let s = if calls > 0 && enabled s (Req c1) then step s (Req c1) else s in
    let why = (match e with Stall -> IdleExpiry | _ -> Disconnect) in
    let s = steps s [End (c1, why); Remove c1] in
    let count = List.length s.clients in
    let up = if s.started then 1 else 0 in
    let s = steps s [Arrive c2; Take c2; Enrol c2] in
    let fresh = if enabled s (Req c2) then "resp" else "closed" in
    let m = Printf.sprintf "calls=%d count=%d up=%d fresh=%s" calls count up fresh in
    (* P: no handler call inside the request, exactly one after it; slot freed;
       server up; the fresh connection is served *)
    let want = Printf.sprintf "calls=%d count=0 up=1 fresh=resp" (if k < List.length f then 0 else 1) in
    (m, if impl = want then "1" else "0")
  | "cli" :: fr :: send :: k :: unit :: e :: w :: fc :: payload :: optoks ->
    let cfg = { c_unit = n_of_hex unit; c_endian = endian_of e; c_word = word_of w } in
    let framing = if fr = "m" then FMbap else FRtu in
    let k = int_of_string k in
    let o = op_of_tokens optoks in
    let res = { p_unit = n_of_hex unit; p_fc = n_of_hex fc; p_payload = bytes_of_hex payload } in
    (* the device echoes the transaction id of the request: 1 on a fresh transport *)
    let v = (match framing with
        | FMbap -> assemble_mbap (n_of_int 1) res
        | FRtu -> assemble_rtu res) in
    let h0 = hd_open { hd_txn = N0; hd_unread = []; hd_closed = true } in
    let (r1, h1) = hd_call framing cfg h0 o (send_of send) (take k v) in
    let h2 = hd_close h1 in
    let (r2, h3) = hd_call framing cfg h2 o Stall [] in
    let h4 = hd_open h3 in
    let (r3, _) = hd_call framing cfg h4 o Stall v in
    let m = Printf.sprintf "%s closed=%s fresh=%s w2=%s"
        (project (result_str r1.cr_res)) (project (result_str r2.cr_res)) (result_str r3.cr_res)
        (hex_of_bytes (List.concat r3.cr_writes)) in
    (* P: the cut call is an error, the call on the closed handle is an error,
       after Open the same request is transmitted again and completes *)
    let p = (match String.split_on_char ' ' impl with
        | [i1; i2; i3; i4] ->
          (if k < List.length v then starts_with i1 "err" else starts_with i1 "ok:")
          && starts_with i2 "closed=err"
          && starts_with i3 "fresh=ok:"
          && i4 = "w2=" ^ hex_of_bytes (List.concat r3.cr_writes)
        | _ -> false) in
    (m, if p then "1" else "0")
  | _ -> failwith "cutreal: bad input"

let () =
  Registry.register "cutsrv" cutsrv;
  Registry.register "cutcc" cutcc;
  Registry.register "cutreal" cutreal
