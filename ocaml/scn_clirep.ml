(* scenario "clirep" of C20: command lists executed more than once (`repeat`,
   `sleep`). The real binary was observed for P complete passes and killed (or
   ended by itself when the line is refused / has no `repeat`). The model
   (Model/CliRepeat.v: clr_main = the parser of Model/Cli.v plus the two
   commands, then P iterations of the execution loop cli_run over the SAME
   parsed operations, each from the client state and device memory the
   previous pass left) predicts every frame on the wire, the device memory
   after the last complete pass and every printed (address, value) of every
   pass. time.ParseDuration enters as an oracle table computed by the harness,
   like strconv.ParseFloat. *)
open Model
open Conv
open Scn_cli

(* the oracle table  lithex.1|0,...  *)
let dur_table (t : string) : (n list * bool) list =
  match String.index_opt t '=' with
  | None -> []
  | Some i ->
    let body = String.sub t (i + 1) (String.length t - i - 1) in
    List.map (fun ent ->
        match String.split_on_char '.' ent with
        | [lit; ok] -> (bytes_of_hex lit, ok = "1")
        | _ -> failwith "clirep: bad duration table") (String.split_on_char ',' body)

let dur_oracle tbl (s : n list) : bool =
  match List.find_opt (fun (l, _) -> l = s) tbl with
  | Some (_, ok) -> ok
  | None -> failwith "clirep: sleep literal missing from the oracle table"

let clirep inp impl =
  let e = ref (str_bytes "big") and w = ref (str_bytes "highfirst") and u = ref (str_bytes "1") in
  let tbl = ref [] and durs = ref [] and cmds = ref [] and passes = ref 3 in
  List.iter (fun t ->
      match t.[0] with
      | 'F' -> tbl := float_table t
      | 'D' -> durs := dur_table t
      | 'P' -> passes := int_of_string (String.sub t 2 (String.length t - 2))
      | _ ->
        (match opt_tok t with
         | ("E", Some v) -> e := v
         | ("W", Some v) -> w := v
         | ("U", Some v) -> u := v
         | ("C", Some v) -> cmds := v :: !cmds
         | (("E" | "W" | "U"), None) -> ()
         | _ -> failwith "clirep: bad token")) inp;
  let args = List.rev !cmds in
  let pf32 = oracle !tbl 32 and pf64 = oracle !tbl 64 and dur = dur_oracle !durs in
  let outcome = clr_main pf32 pf64 dur (nat_of_int !passes) !e !w !u args cli_dev_init in
  let running =
    (match outcome with CliDone _ -> true | CliExit _ -> false) && clr_main_loops pf32 pf64 dur args in
  let frames = cli_tx_log outcome in
  let tx = if frames = [] then "-" else String.concat "," (List.map hexb frames) in
  let conns, diff =
    match outcome with
    | CliExit _ -> (0, "-")
    | CliDone st ->
      let (cs, hs) = touched frames in
      let dc = List.map (fun (a, v) -> Printf.sprintf "c:%04x=%d" (int_of_n a) (if v then 1 else 0))
          (cli_diff_coils st.cs_dev (List.map n_of_int cs)) in
      let dh = List.map (fun (a, v) -> Printf.sprintf "h:%04x=%04x" (int_of_n a) (int_of_n v))
          (cli_diff_holds st.cs_dev (List.map n_of_int hs)) in
      (1, if dc @ dh = [] then "-" else String.concat "," (dc @ dh)) in
  let lines = cli_printed outcome in
  let out = if lines = [] then "-" else String.concat "," (List.map line_str lines) in
  let m =
    if running then
      Printf.sprintf "exit=running passes=%d conns=%d tx=%s diff=%s out=%s" !passes conns tx diff out
    else
      Printf.sprintf "exit=%d conns=%d tx=%s diff=%s out=%s" (int_of_n (cli_exit_code outcome)) conns tx diff out in
  (* P: a looping line is still running after the passes observed, and in EVERY
     pass the frames on the wire, the device memory left behind and every
     printed (address, value) are those of the commands as given; a refused
     line (also one refused for what stands behind `repeat`) leaves the wire
     silent; a line without `repeat` runs once and ends *)
  (m, if m = impl then "1" else "0")

let () = Registry.register "clirep" clirep
