(* scenario of C19 for bytes that reach the client while it is idle
   silenceidle  link speed script
        -> "ok n=<requests> judged=<j> mingap=<ns>|none" | "hang" | "harness-error:..."
   script = comma separated steps of a session on one RTU link:
     q      a call the device answers            t   a call the device does not answer
     i<us>  the caller is idle for <us> microseconds
     L      the late answer to the last unanswered request lands on the link (7 bytes)
     U      a frame of another unit nobody asked for lands on the link (7 bytes)
     E      an exception frame of another unit lands on the link (5 bytes)
   The implementation reports how many requests it transmitted and the
   smallest time between a read of the link that returned bytes and the next
   request (both instants taken inside the client's own Read/Write calls; the
   measurement can only over-estimate), over the <j> requests that had such a
   read before them.
   P: idle_silence_okb of Model/TimingIdle.v (extracted): one request per call
   at least and mingap >= t35(speed) (theorems c19d_silence_okb, c19d_idle_gap,
   c19d_measurement_sound: every client that records the instant after a read
   that took bytes - the code's rule, or draining first and recording it -
   passes on every script). What the calls return is not judged: the property
   does not say which frame a call takes for its answer.
   Model output: the implementation's line when P holds, else the bound and
   the silence the extracted machine keeps on the same script with the code's
   rule (nothing but the line and the script taking time). *)
open Model
open Conv

let parse_script s =
  List.map (fun t ->
      match t with
      | "q" -> quiet_call (z_of_int 8) (z_of_int 7)
      | "t" -> quiet_call (z_of_int 8) (z_of_int 0)
      | "L" | "U" -> SArrive (z_of_int 7)
      | "E" -> SArrive (z_of_int 5)
      | _ when String.length t > 1 && t.[0] = 'i' ->
        SIdle (z_of_int (1000 * int_of_string (String.sub t 1 (String.length t - 1))))
      | _ -> failwith "silenceidle: bad script")
    (String.split_on_char ',' s)

let field prefix tok =
  let lp = String.length prefix in
  if String.length tok > lp && String.sub tok 0 lp = prefix
  then Some (String.sub tok lp (String.length tok - lp)) else None

let silenceidle inp impl =
  match inp with
  | [_link; speed; script] ->
    let rate = z_of_int (int_of_string speed) in
    let steps = parse_script script in
    let calls = int_of_z (script_calls steps) in
    let need = int_of_z (t35 rate) in
    let own = match idle_gap LeaveQueued rate steps with
      | Some g -> string_of_int (int_of_z g)
      | None -> "none" in
    let expect = Printf.sprintf "ok n>=%d mingap>=%d (model keeps %s)" calls need own in
    (match String.split_on_char ' ' impl with
     | ["ok"; ns; js; gs] ->
       (match field "n=" ns, field "judged=" js, field "mingap=" gs with
        | Some n, Some _, Some g ->
          let gap = if g = "none" then Some None
            else (match int_of_string_opt g with Some v -> Some (Some (z_of_int v)) | None -> None) in
          (match int_of_string_opt n, gap with
           | Some n, Some gap when idle_silence_okb rate steps (z_of_int n) gap -> (impl, "1")
           | _ -> (expect, "0"))
        | _ -> (expect, "0"))
     | _ -> (expect, "0"))
  | _ -> failwith "silenceidle: bad input"

let () = Registry.register "silenceidle" silenceidle
