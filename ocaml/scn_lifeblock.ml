(* scenario "lifeblock" (C10): lifecycle traces on a real server bound to a fixed
   address, during which the harness occupies the address with a foreign
   listener while the server is stopped (K) and releases it (U). The expected
   observables are computed with the extracted transition system of
   Model/Lifeblock.v (Slots.v + the failing listen step of Start):
     S  Start: "err:<snapshot>" when the listen step fails (address occupied,
        server stopped: state unchanged), "ok:<snapshot>" otherwise
     P  Stop: the snapshot after the sessions closed by Stop have wound down;
        the model never produces "panic" nor "err:"
     K  foreign listen: "blocked" if the address was free, else "busy"
     U  foreign listener closed: "free"
     C/T/E/R/D as in scenario "slots" *)
open Model
open Conv

let acc_held = ref false

(* accept goroutines whose listener was closed return at once, except one that
   is being held by the harness between Accept and the admission step *)
let settle (b : lb_state) : lb_state =
  let b = ref b in
  let keep = if !acc_held then 1 else 0 in
  while int_of_nat (!b).lb_srv.zombies > keep do b := lb_step !b (LSrv AcceptExit) done;
  !b

let snapshot (b : lb_state) =
  let s = b.lb_srv in
  Printf.sprintf "%d/%d/a%d" (if s.started then 1 else 0) (List.length s.clients)
    (int_of_nat s.acceptors + int_of_nat s.zombies)

let steps b ls = List.fold_left (fun b l -> lb_step b (LSrv l)) b ls

let lifeblock inp impl =
  match inp with
  | maxc :: ops ->
    let b = ref (lb_init (nat_of_int (int_of_string maxc))) in
    acc_held := false;
    let held = ref (-1) in
    let out = List.map (fun op ->
        let k = op.[0] in
        let i = if String.length op > 1 then int_of_string (String.sub op 1 (String.length op - 1)) else 0 in
        let c = nat_of_int i in
        match k with
        | 'S' ->
          let fails = lb_start_fails !b in
          b := settle (lb_step !b (LSrv Start));
          (if fails then "err:" else "ok:") ^ snapshot !b
        | 'P' ->
          b := lb_step !b (LSrv Stop);
          (* every session whose socket Stop closed winds down *)
          List.iter (fun c ->
              if (!b).lb_srv.stat c = Serving then b := steps !b [End (c, ClosedByStop); Remove c])
            (!b).lb_srv.clients;
          b := settle !b;
          snapshot !b
        | 'K' -> if lb_block_ok !b then (b := lb_step !b LBlock; "blocked") else "busy"
        | 'U' -> b := lb_step !b LUnblock; "free"
        | 'C' ->
          if not (!b).lb_srv.listening then "refused"
          else (b := steps !b [Arrive c; Take c; Enrol c]; snapshot !b)
        | 'T' ->
          if not (!b).lb_srv.listening then "refused"
          else (b := steps !b [Arrive c; Take c]; held := i; acc_held := true; "taken")
        | 'E' ->
          if !held >= 0 then b := steps !b [Enrol (nat_of_int !held)];
          held := -1; acc_held := false; b := settle !b; snapshot !b
        | 'R' -> if enabled (!b).lb_srv (Req c) then (b := steps !b [Req c]; "resp") else "closed"
        | 'D' -> b := steps !b [End (c, Disconnect); Remove c]; snapshot !b
        | _ -> "?") ops in
    let m = String.concat " " out in
    (m, if m = impl then "1" else "0")
  | _ -> failwith "lifeblock: bad input"

let () = Registry.register "lifeblock" lifeblock
