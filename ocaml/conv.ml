(* Conversions between OCaml values / text tokens and the extracted Coq types.
   Part of the trusted glue of the correspondence check. *)
open Model

let rec pos_of_int i =
  if i = 1 then XH
  else if i land 1 = 0 then XO (pos_of_int (i lsr 1))
  else XI (pos_of_int (i lsr 1))

let n_of_int i = if i <= 0 then N0 else Npos (pos_of_int i)

let rec int_of_pos = function
  | XH -> 1
  | XO p -> 2 * int_of_pos p
  | XI p -> (2 * int_of_pos p) + 1

let int_of_n = function N0 -> 0 | Npos p -> int_of_pos p

let z_of_int i = if i = 0 then Z0 else if i > 0 then Zpos (pos_of_int i) else Zneg (pos_of_int (-i))
let int_of_z = function Z0 -> 0 | Zpos p -> int_of_pos p | Zneg p -> - (int_of_pos p)

let rec nat_of_int i = if i <= 0 then O else S (nat_of_int (i - 1))

let int_of_nat n =
  let rec go acc = function O -> acc | S m -> go (acc + 1) m in
  go 0 n

let hexdigit c =
  match c with
  | '0' .. '9' -> Char.code c - 48
  | 'a' .. 'f' -> Char.code c - 87
  | 'A' .. 'F' -> Char.code c - 55
  | _ -> failwith ("bad hex digit " ^ String.make 1 c)

(* arbitrary-size naturals as hex text *)
let n_of_hex s =
  let acc = ref N0 in
  String.iter (fun c -> acc := N.add (N.mul !acc (n_of_int 16)) (n_of_int (hexdigit c))) s;
  !acc

let hex_of_n n =
  match n with
  | N0 -> "0"
  | Npos p ->
    let rec lsb p = match p with XH -> [1] | XO q -> 0 :: lsb q | XI q -> 1 :: lsb q in
    let rec nibbles = function
      | [] -> []
      | [a] -> [a]
      | [a; b] -> [a + 2*b]
      | [a; b; c] -> [a + 2*b + 4*c]
      | a :: b :: c :: d :: t -> (a + 2*b + 4*c + 8*d) :: nibbles t in
    let ns = List.rev (nibbles (lsb p)) in
    String.concat "" (List.map (fun d -> Printf.sprintf "%x" d) ns)

(* decimal text for values that fit an OCaml int, hex otherwise is the caller's choice *)
let n_of_dec s = n_of_int (int_of_string s)

(* byte strings: lower-case hex, "-" for empty *)
let bytes_of_hex s =
  if s = "-" || s = "" then []
  else begin
    let n = String.length s / 2 in
    List.init n (fun i -> n_of_int ((hexdigit s.[2*i] * 16) + hexdigit s.[2*i+1]))
  end

let hex_of_bytes l =
  if l = [] then "-"
  else String.concat "" (List.map (fun b -> Printf.sprintf "%02x" (int_of_n b)) l)

(* bool vectors: string of 0/1, "-" for empty *)
let bools_of_str s =
  if s = "-" || s = "" then []
  else List.init (String.length s) (fun i -> s.[i] = '1')

let str_of_bools l =
  if l = [] then "-" else String.concat "" (List.map (fun b -> if b then "1" else "0") l)

let split_on c s = if s = "" then [] else String.split_on_char c s

(* comma-separated lists, "-" for empty *)
let list_of_csv f s = if s = "-" || s = "" then [] else List.map f (String.split_on_char ',' s)
let csv_of_list f l = if l = [] then "-" else String.concat "," (List.map f l)
