(* scenario "slotsdrop": a trace of operations on a real tcp / tcp+tls server
   (see harness/cmd/implrun/c09_drop.go) in which served clients are dropped
   by the server for a protocol error and then do what they like with their
   own end of the connection. Expected observables come from the extracted Coq
   model:
     C<i>               = SlotsVisit.arrival i
     V<i>:<bytes>:<how> = SlotsDrop.drop_run on the bytes (Model/Server.v decides,
                          frame by frame, what is answered and what is refused),
                          then SlotsDrop.drop_labels i: Req steps and, when a
                          frame was refused, End (i, ProtocolError); Remove i.
                          <how> - what the peer does afterwards - is not looked
                          at (except that a peer that never reads cannot report
                          the closing): Properties/C09d.v
     D<i>               = SlotsVisit.departure i Disconnect
     R<i>               = Req i if enabled
   Every expected token - the length of the active list after each operation,
   ok / refused, resp / closed, handler invocations - is read off the model. *)
open Model
open Conv

(* the counting handler of the harness: right-sized zero results *)
let zero_handler : int -> hreq -> int * hres =
  fun st r ->
    let q = int_of_n r.h_qty in
    (st + 1, { r_bools = List.init q (fun _ -> false); r_regs = List.init q (fun _ -> N0); r_err = HNone })

let slotsdrop inp impl =
  match inp with
  | maxc :: _transport :: _timeout :: ops ->
    let s = ref (step (init (nat_of_int (int_of_string maxc))) Start) in
    let total = ref 0 in
    let n () = List.length (!s).clients in
    let serving c = (!s).stat c = Serving in
    let out = List.map (fun op ->
        let f = String.split_on_char ':' op in
        let hd = List.hd f in
        let k = hd.[0] in
        let i = if String.length hd > 1 then int_of_string (String.sub hd 1 (String.length hd - 1)) else 0 in
        let c = nat_of_int i in
        match k, f with
        | 'C', _ ->
          s := run !s (arrival c);
          Printf.sprintf "%d:%s" (n ()) (if serving c then "ok" else "refused")
        | 'R', _ ->
          if serving c && enabled !s (Req c) then (s := step !s (Req c); incr total; "resp+1")
          else "closed+0"
        | 'D', _ -> s := run !s (departure c Disconnect); string_of_int (n ())
        | 'V', [_; bytes; how] ->
          if serving c then begin
            let evs = drop_run zero_handler 0 (bytes_of_hex bytes) in
            let calls = int_of_nat (drop_calls evs) in
            total := !total + calls;
            s := run !s (drop_labels c evs);
            let seen = if how = "n" then "unseen" else if drop_dropped evs then "closed" else "open" in
            Printf.sprintf "%d:%s+%d" (n ()) seen calls
          end else
            (* refused at the limit or gone already: the socket was closed by the server *)
            Printf.sprintf "%d:%s+0" (n ()) (if how = "n" then "unseen" else "closed")
        | _ -> "?") ops in
    let m = String.concat " " (out @ [Printf.sprintf "calls=%d" !total]) in
    (* P: the implementation did what the model allows; never more than
       MaxClients connections on the list *)
    (m, if m = impl && int_of_nat (serving_count !s) <= int_of_string maxc then "1" else "0")
  | _ -> failwith "slotsdrop: bad input"

let () = Registry.register "slotsdrop" slotsdrop
