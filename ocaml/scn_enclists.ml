(* encl: a LIST of 16/32/64-bit values (floats as bit patterns) converted to
   register bytes by the typed writer and back by the typed reader, for one
   (byte order, word order) pair.
   input : writer e w regtype addr values
   impl  : <register bytes taken from the write request> <result of the typed read of these registers>
   model : enc_list / dec_list of Model/EncLists.v (extracted), i.e. the
           concatenation of the scalar model encoders and the model list decoder
   P     : from the property text - the register bytes are the documented layout
           (Spec: spec_bytes) of every value, in order, and reading them back
           gives exactly the values written. *)
open Model
open Conv

let endian_of s = if s = "1" then BigE else LittleE
let word_of s = if s = "1" then HighFirst else LowFirst

let width_of_writer = function
  | "WriteRegisters" -> Some W16
  | "WriteUint32s" | "WriteFloat32s" | "WriteUint32" | "WriteFloat32" -> Some W32
  | "WriteUint64s" | "WriteFloat64s" | "WriteUint64" | "WriteFloat64" -> Some W64
  | _ -> None

let () =
  Registry.register "encl" (fun inp impl ->
    match inp with
    | [op; e; w; _rt; _addr; vals] ->
      (match width_of_writer op with
       | None -> ("modeld-error:encl:unknown-writer", "0")
       | Some k ->
         let e = endian_of e and w = word_of w in
         let vs = list_of_csv n_of_hex vals in
         let bytes = enc_list k e w vs in
         let back = match dec_list k e w bytes with
           | Some l -> "ok:n:" ^ csv_of_list hex_of_n l
           | None -> "panic" in
         let m = hex_of_bytes bytes ^ " " ^ back in
         let s = hex_of_bytes (spec_list k e w vs) ^ " ok:n:" ^ csv_of_list hex_of_n vs in
         (m, if s = impl then "1" else "0"))
    | _ -> ("modeld-error:encl:bad-input", "0"))
