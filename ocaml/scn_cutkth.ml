(* C13, scenario cutkth: the reply that is cut belongs to the k-th exchange of
   its connection; the listener keeps accepting and logs the request frames of
   every connection.
   Expected observable = the extracted Model/CutSession.v (cut_session):
   theorems c13c_cut_kth / c13c_complete_kth / c13c_cut_any_state in
   Properties/C13c.v - the earlier calls complete, the cut call is an error,
   ONE connection carries one request frame per call (the cut call's exactly
   once), Close; Open gives a second connection with the next request only. *)
open Model
open Conv
open Lib_wire

let starts_with s p = String.length s >= String.length p && String.sub s 0 (String.length p) = p

let split_groups (toks : string list) : string list list =
  let gs = ref [] and cur = ref [] in
  let flush () = if !cur <> [] then (gs := List.rev !cur :: !gs; cur := []) in
  List.iter (fun t -> if t = ";" then flush () else cur := t :: !cur) toks;
  flush ();
  List.rev !gs

(* the class of a result as the harness projects it (c13.go projectRes) *)
let cls (r : string) : string =
  if starts_with r "ok:" || r = "err:timeout" || r = "panic" then r
  else if starts_with r "err:" then "err"
  else r

let frames_str fs =
  if fs = [] then "-" else String.concat "+" (List.map hex_of_bytes fs)

(* cutkth: scheme end k unit e w { ; fc payload op... }+ -> results closed= fresh= conns= *)
let cutkth inp impl =
  match inp with
  | scheme :: send :: k :: unit :: e :: w :: rest ->
    let cfg = { c_unit = n_of_hex unit; c_endian = endian_of e; c_word = word_of w } in
    let framing = if scheme = "rtuovertcp" then FRtu else FMbap in
    let k = int_of_string k in
    let calls = List.map (function
        | fc :: payload :: optoks ->
          { csc_op = op_of_tokens optoks;
            csc_reply = { p_unit = n_of_hex unit; p_fc = n_of_hex fc; p_payload = bytes_of_hex payload } }
        | _ -> failwith "cutkth: bad group") (split_groups rest) in
    let n = List.length calls in
    if n < 2 then failwith "cutkth: too few groups";
    let pre = List.filteri (fun i _ -> i < n - 2) calls in
    let cut = List.nth calls (n - 2) and fresh = List.nth calls (n - 1) in
    let v = cut_session framing cfg pre cut (send_of send) (nat_of_int k) fresh in
    let nres = List.length v.csv_results in
    let rs = List.mapi (fun i r -> let s = result_str r in if i = nres - 1 then cls s else s) v.csv_results in
    let conns = String.concat "," (List.map frames_str v.csv_conns) in
    let fresh_s = result_str v.csv_fresh in
    let m = Printf.sprintf "%s closed=%s fresh=%s conns=%s"
        (String.concat ";" rs) (cls (result_str v.csv_closed)) fresh_s conns in
    (* P, on what the implementation did: the calls before the cut returned the
       model's values; the cut call is an error when the reply ended inside
       (a success only for the complete reply); the call on the closed handle is
       an error; after Open the next call returns the model's value; and the
       listener saw exactly the model's frames: one connection with one request
       frame per call - the cut call's ONCE - and a second one with the request
       of the call after Open *)
    let reply_len = (match framing with FMbap -> 8 | FRtu -> 4) + List.length cut.csc_reply.p_payload in
    let p = (match String.split_on_char ' ' impl with
        | [ires; iclosed; ifresh; iconns] ->
          let irs = String.split_on_char ';' ires in
          List.length irs = nres
          && List.for_all2 (fun i (ir, mr) -> if i < nres - 1 then ir = mr && starts_with ir "ok:" else true)
            (List.init nres (fun i -> i)) (List.combine irs rs)
          && (let last = List.nth irs (nres - 1) in
              if k < reply_len then starts_with last "err" else starts_with last "ok:" && last = List.nth rs (nres - 1))
          && starts_with iclosed "closed=err"
          && ifresh = "fresh=" ^ fresh_s && starts_with fresh_s "ok:"
          && iconns = "conns=" ^ conns
        | _ -> false) in
    (m, if p then "1" else "0")
  | _ -> failwith "cutkth: bad input"

let () = Registry.register "cutkth" cutkth
