(* C15 scenario tlsroleseq (harness/cmd/implrun/c91_c15_roleseq.go): ONE real
   tcp+tls server, an ordered sequence of TLS sessions whose client
   certificates share identifying material (key pair / subject / serial
   number / everything) and differ in the Modbus Role extension.

   tlsroleseq: keyset family mode(seq|keep) sess...
               sess = member;role-exts;ver;verifies;leaf-exts;req.req...
               (member and role-exts tell the harness which certificate to
               build; leaf-exts is the extension list of the presented leaf as
               crypto/x509 parses it, in the token format of scenario role;
               verifies = x509.Certificate.Verify of that leaf against the
               server's pool, computed without any connection)
               -> per session "<role>+<role>.../<responses>" (one role per
               handler invocation, hex, "-" = empty) | "none/0", joined by ","

   Model output: the extracted Model/RoleSeq.v tls_serve_sessions (one server
   object, the connections in order, the crypto/tls oracle of scn_tls.ml
   instantiated per session from its verifies token) gives the role of every
   session; the sessions that are served are then run through the extracted
   Model/Sessions.v grun with the harness' handler, exactly as scenario
   tlsroles does.

   P is computed from the property text, not from the model: a session that
   verifies at TLS 1.2+ is served and EVERY invocation of it carries the role
   STATED by the leaf presented on that session (Scn_role.spec_role: exactly
   one role extension whose value is the DER UTF8String of a well-formed
   string; empty otherwise), whatever the sessions before it presented; any
   other session has no invocation. *)
open Model
open Conv
open Scn_tls

let split c s = String.split_on_char c s

type rsess = { rs_ver : tls_version option; rs_verifies : bool; rs_exts : (bool * n list) list; rs_reqs : n list list }

let parse_rsess tok =
  match split ';' tok with
  | [_member; _roleexts; ver; verifies; exts; reqs] ->
    { rs_ver = version_of_tok ver; rs_verifies = (verifies = "1");
      rs_exts = list_of_csv parse_ext exts; rs_reqs = List.map bytes_of_hex (split '.' reqs) }
  | _ -> failwith "tlsroleseq: bad session token"

let tlsroleseq inp impl =
  match inp with
  | _ks :: _family :: mode :: (_ :: _ as toks) ->
    if mode <> "seq" && mode <> "keep" then failwith "tlsroleseq: bad mode";
    let sess = List.map parse_rsess toks in
    let n = List.length sess in
    let conf = { tsv_url = bytes_of_native "tcp+tls://127.0.0.1:0"; tsv_timeout = Z0;
                 tsv_max_clients = n_of_int (n + 2); tsv_cert = Some own_cert; tsv_cas = Some [ca_cert] } in
    (match tls_new_server conf with
     | CfgOk eff when eff.se_transport = TTcpOverTls -> ()
     | _ -> failwith "tlsroleseq: the model builds no tcp+tls server");
    (* the peer of session i presents one certificate, known to the oracle by its id 100+i *)
    let peers = List.mapi (fun i s ->
        { tpe_speaks_tls = true;
          tpe_chain = [{ tlc_id = n_of_int (100 + i); tlc_exts = s.rs_exts }];
          tpe_versions = (match s.rs_ver with Some v -> [v] | None -> []) }) sess in
    (* crypto/tls for the whole run: whether a chain verifies is the token of the session that presents it *)
    let oracle (pol : tls_policy) (peer : tls_peer) =
      let verifies = (match peer.tpe_chain with
          | leaf :: _ -> (List.nth sess (int_of_n leaf.tlc_id - 100)).rs_verifies
          | [] -> false) in
      oracle_srv ~verifies pol peer in
    (* one server object, the connections in order *)
    let roles = tls_serve_sessions oracle conf peers in
    let live = List.concat (List.mapi (fun i (s, r) -> match r with Some ro -> [(i, s, ro)] | None -> [])
                              (List.combine sess roles)) in
    let role_of_id id = (match List.find_opt (fun (i, _, _) -> i + 1 = id) live with
        | Some (_, _, ro) -> hex_of_bytes ro
        | None -> "unknown-role-id") in
    (* handleTransport of the served sessions: session i has address id i and role id i+1; every
       session sends its requests and reads the responses before the next one connects (both modes) *)
    let g = ginit 0 (List.map (fun (i, _, _) -> (n_of_int i, (n_of_int i, n_of_int (i + 1)))) live) in
    let data (i, s, _) = List.map (fun r -> (n_of_int i, GData r)) s.rs_reqs in
    let fin (i, _, _) = [(n_of_int i, GEnd)] in
    let ins = (if mode = "seq" then List.concat_map (fun x -> data x @ fin x) live
               else List.concat_map data live @ List.concat_map fin live) in
    let (_, outs) = grun Scn_tls2.zero_handler g ins in
    let per i =
      if not (List.exists (fun (j, _, _) -> j = i) live) then "none/0"
      else begin
        let evs = gproj (n_of_int i) outs in
        let rs = List.filter_map (function
            | GEvCall (r, _) ->
              let s = role_of_id (int_of_n r.g_role) in
              Some (if int_of_n r.g_conn_addr = i then s else "?" ^ s)
            | _ -> None) evs in
        let resps = List.length (List.filter (function GEvResp _ -> true | _ -> false) evs) in
        Printf.sprintf "%s/%d" (if rs = [] then "none" else String.concat "+" rs) resps
      end in
    let m = String.concat "," (List.init n per) in
    (* the property, from its text *)
    let modern v = (v = Some TLS12 || v = Some TLS13) in
    let want = String.concat "," (List.map (fun s ->
        if s.rs_verifies && modern s.rs_ver then
          let ro = hex_of_bytes (Scn_role.spec_role s.rs_exts) in
          Printf.sprintf "%s/%d" (String.concat "+" (List.map (fun _ -> ro) s.rs_reqs)) (List.length s.rs_reqs)
        else "none/0") sess) in
    (m, if impl = want then "1" else "0")
  | _ -> failwith "tlsroleseq: bad input"

let () = Registry.register "tlsroleseq" tlsroleseq
