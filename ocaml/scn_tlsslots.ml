(* scenario "tlsslots": a trace of operations on a real tcp+tls server (see
   harness/cmd/implrun/c09_tlsslots.go), mapped to the labelled steps of
   Model/Slots.v. The Slots system does not know about TLS: a connection holds
   its slot from the admission step (Enrol) to the removal step (Remove),
   whatever happens on the socket in between. A peer whose handshake fails is
   an enrolled connection that ends without a single Req:
     N<i>        = SlotsVisit.arrival i     (Arrive i; Take i; Enrol i)
     F<i>:<how>  = SlotsVisit.departure i w (End (i, w); Remove i, w = Disconnect | ProtocolError)
   and a legitimate client is the same arrival, Req steps, then a departure
   (Disconnect, ProtocolError, IdleExpiry); Properties/C09b.v states what
   these step lists do to the active list in every reachable state. Every
   expected token - the length of the active list after each operation,
   ok / refused, resp / closed, the number of handler invocations - is read off
   the extracted model state. *)
open Model
open Conv

let tlsslots inp impl =
  match inp with
  | maxc :: _timeout :: ops ->
    let s = ref (step (init (nat_of_int (int_of_string maxc))) Start) in
    (* legitimate clients whose admission succeeded: the ones a handshake completes for *)
    let sessions = ref [] in
    let reqs = ref 0 in
    let n () = List.length (!s).clients in
    let admit c = s := run !s (arrival c) in
    let finish c w = s := run !s (departure c w) in
    let out = List.map (fun op ->
        let f = String.split_on_char ':' op in
        let hd = List.hd f in
        let k = hd.[0] in
        let i = if String.length hd > 1 then int_of_string (String.sub hd 1 (String.length hd - 1)) else 0 in
        let c = nat_of_int i in
        match k with
        | 'L' ->
          admit c;
          if (!s).stat c = Serving then (sessions := i :: !sessions; Printf.sprintf "%d:ok" (n ()))
          else Printf.sprintf "%d:refused" (n ())
        | 'N' -> admit c; string_of_int (n ())
        | 'R' ->
          if List.mem i !sessions && enabled !s (Req c) then (s := step !s (Req c); incr reqs; "resp+1")
          else "closed+0"
        | 'D' -> finish c Disconnect; sessions := List.filter (fun j -> j <> i) !sessions; string_of_int (n ())
        | 'B' -> finish c ProtocolError; sessions := List.filter (fun j -> j <> i) !sessions; string_of_int (n ())
        | 'F' ->
          (* the peer hangs up (x, g, m) or the server gives up on what it reads (c, t) *)
          let w = match f with _ :: ("x" | "g" | "m") :: _ -> Disconnect | _ -> ProtocolError in
          finish c w; string_of_int (n ())
        | 'I' ->
          List.iter (fun j -> finish (nat_of_int j) IdleExpiry) !sessions;
          sessions := [];
          Printf.sprintf "%d:idle:ok" (n ())
        | _ -> "?") ops in
    let m = String.concat " " (out @ [Printf.sprintf "calls=%d" !reqs]) in
    (* P: the implementation did what the model allows, and in particular never
       had more than MaxClients connections on its list *)
    (m, if m = impl && int_of_nat (serving_count !s) <= int_of_string maxc then "1" else "0")
  | _ -> failwith "tlsslots: bad input"

let () = Registry.register "tlsslots" tlsslots
