(* scenario of C16 (the documented defaults are the ENFORCED ones)
   enforced  scheme(hex) speed(hex) timeout(signed hex ns) op...
               -> "<result> dur=<ns>[,<ns>]"
   The harness builds a client with NewClient for <scheme>://<a silent peer>
   with the given Speed and Timeout (0 = left unset), opens it with the real
   Open() and issues the read op, timed until it returns; this is done twice,
   each time with a newly built and opened client (so every measured call is
   the first request of its transport).
   Model side: the extracted silent_call (Model/Opened.v) = new_client of
   Model/Config.v (the function C16's theorems are about) composed with the
   timed exchange of Model/Timed.v on the empty stream; it predicts the
   outcome and the instant the call returns.
   Model output: the predicted outcome followed by the measured durations when
   they lie in the predicted window, else by the window.
   P (from the property text, through Spec/OpenedSpec.v): the outcome is the
   request-timed-out error; no call returns before the documented timeout
   (the caller's value, else 1 s, 300 ms for rtu); the quickest call returns
   by the documented ceiling (MBAP: the timeout; RTU: the timeout or the end of
   the request's own transmission n*t1 + t3.5 when that is later, plus one
   10 ms poll on a serial port) plus the scheduling slack (150 ms), and none
   takes a full second more than that. *)
open Model
open Conv
open Lib_wire

let slack_ns = 150_000_000      (* scheduling slack of the quickest call *)
let gross_ns = 1_000_000_000    (* no call at all may overrun the ceiling by this much *)

let enforced inp impl =
  match inp with
  | name :: speed :: tmo :: optoks ->
    let scheme = Scn_config.native_of_bytes (bytes_of_hex name) in
    let c = { cc_url = bytes_of_hex name @ Scn_config.bytes_of_native "://peer";
              cc_speed = n_of_hex speed; cc_data_bits = N0; cc_parity = N0; cc_stop_bits = N0;
              cc_timeout = Scn_config.z_of_tok tmo; cc_has_cert = true; cc_has_cas = true } in
    let o = op_of_tokens optoks in
    (* a freshly opened transport: lastActivity is the zero time *)
    let la = z_of_int (-1_000_000_000_000_000) in
    (match silent_call c la o Z0, Scn_config.scheme_of_native scheme with
     | CfgOk r, Some s ->
       let res = result_str r.tmc_res in
       let finish = int_of_z r.tmc_finish in
       let lo = int_of_z (documented_timeout s c) in
       let ceiling = int_of_z (silent_ceiling s c la Z0 o) in
       (* the timeout the model's NewClient keeps (Model/Config.v) *)
       let mlo = (match new_client c with CfgOk e -> int_of_z e.ce_timeout | CfgErr _ -> max_int) in
       let window lo ds hi =
         ds <> [] && List.for_all (fun d -> d >= lo && d <= hi + gross_ns) ds
         && List.fold_left min max_int ds <= hi + slack_ns in
       (match String.split_on_char ' ' impl with
        | [ires; dtok] when String.length dtok > 4 && String.sub dtok 0 4 = "dur=" ->
          let ds = List.map int_of_string
              (String.split_on_char ',' (String.sub dtok 4 (String.length dtok - 4))) in
          (* the model's own prediction: [kept timeout, predicted finish + slack] *)
          let m = if window mlo ds finish then res ^ " " ^ dtok
            else Printf.sprintf "%s dur in [%d,%d+%d]" res mlo finish slack_ns in
          let p = ires = "err:timeout" && res = "err:timeout" && finish <= ceiling
                  && window lo ds ceiling in
          (m, if p then "1" else "0")
        | _ -> (res, "0"))
     | _, _ -> ("err:config", "0"))
  | _ -> failwith "enforced: bad input"

let () = Registry.register "enforced" enforced
