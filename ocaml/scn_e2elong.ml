(* scenario e2elong (property C04): a LONG history of typed client calls on ONE
   connection of a real client / real server pair with the memory-backed
   handler - tens of thousands of steps, more requests than the 16-bit MBAP
   transaction identifier has values - against the register file
   specification, step by step.
   input:   scheme e w reps stride { ; [fail k errname] (op... | setunit u | setenc e w) }*
            the steps are a cycle (syntax of e2e); the history is the cycle
            repeated reps times, the values written by step number i (0-based
            over the whole history) being the values of the cycle moved by i:
              WriteCoil v xor bit 0 of i; WriteCoils bit k xor bit (k mod 16) of i;
              16/32/64-bit values (floats: bit patterns) + i * stride mod 2^width;
              byte k + byte (k mod 3) of i mod 256
   output:  "n=<steps> req=<invocations> res=<class>*<count>,... odd=<i>:<result>|<calls>,...
             blocks=<digest>,... M <coilruns> <regruns>"  (see harness c04_long.go)
   The expected observables are computed with the extracted SPECIFICATION step
   rf_step (Spec/RegFile.v), one step at a time, for every step.
   The extracted composition e2e_step (Model/E2E.v: client model -> MBAP frame
   carrying the transaction counter of the connection -> server model ->
   handler -> reply -> client model) is evaluated alongside on a sample of the
   steps - every 16th, and every step within 32 requests of a multiple of
   65536 requests, where the 16-bit counter goes round - from the state
   (configuration and memory of the specification, counter = requests so far
   mod 65536, no unread bytes); by Properties/C04.v c04_step it must give the
   result, the invocations, the configuration and the content of the written
   cells of the specification step (running it at all 10^5 steps would cost
   three times the specification: the 64-bit divisions of the byte codecs).
   The memory is a Coq function N -> cell built by cells_store; after every
   step that wrote, the glue below replaces it by an extensionally equal
   function backed by an array (the cells the step wrote are read through the
   Coq function and stored), so that a lookup does not walk through tens of
   thousands of stores.
   P: the implementation's output is the specification's (every step: result
   and invocations through the block digests; no transport-level failure; the
   final memory) and the composition agreed with the specification. *)
open Model
open Conv
open Lib_wire

let block = 512

(* ---- the step of the cycle as step number i of the history *)
(* values below 2^64 as unsigned 64-bit integers *)
let int64_of_n (v : n) : int64 =
  let rec go = function
    | XH -> 1L
    | XO p -> Int64.shift_left (go p) 1
    | XI p -> Int64.logor (Int64.shift_left (go p) 1) 1L in
  match v with N0 -> 0L | Npos p -> go p
let n_of_int64 (v : int64) : n =
  let rec go v =
    if v = 1L then XH
    else if Int64.logand v 1L = 0L then XO (go (Int64.shift_right_logical v 1))
    else XI (go (Int64.shift_right_logical v 1)) in
  if v = 0L then N0 else Npos (go v)

let derive (i : int) (stride : int64) (o : op) : op =
  let shift bits v =
    let x = Int64.add (int64_of_n v) (Int64.mul (Int64.of_int i) stride) in
    let x = if bits < 64 then Int64.logand x (Int64.sub (Int64.shift_left 1L bits) 1L) else x in
    n_of_int64 x in
  match o with
  | OpWriteCoil (a, v) -> OpWriteCoil (a, v <> (i land 1 = 1))
  | OpWriteCoils (a, vs) ->
    OpWriteCoils (a, List.mapi (fun k v -> v <> ((i lsr (k mod 16)) land 1 = 1)) vs)
  | OpWriteReg (a, v) -> OpWriteReg (a, shift 16 v)
  | OpWriteRegs (w, a, vs) -> OpWriteRegs (w, a, List.map (shift (16 * int_of_n w)) vs)
  | OpWriteBytes (raw, a, bs) ->
    OpWriteBytes (raw, a, List.mapi (fun k b -> n_of_int ((int_of_n b + (i lsr (8 * (k mod 3)))) land 255)) bs)
  | o -> o

(* ---- array-backed memories *)
type backing = { coils : bool array; holding : n array }

let fresh_backing () = { coils = Array.make 65536 false; holding = Array.make 65536 N0 }

let discrete0 = (fun k -> let i = int_of_n k in ((i * 7) + (i / 3)) mod 3 = 0)
let input0 = (fun k -> n_of_int (((int_of_n k * 31) + 5) mod 65536))

let mem_of (b : backing) : rfmem =
  { rf_coils = (fun k -> let i = int_of_n k in if i < 65536 then b.coils.(i) else false);
    rf_discrete = discrete0;
    rf_holding = (fun k -> let i = int_of_n k in if i < 65536 then b.holding.(i) else N0);
    rf_input = input0 }

(* the cells named by the write invocations of successful steps *)
let written (acc_c : (int, unit) Hashtbl.t) (acc_r : (int, unit) Hashtbl.t) ((res, calls) : rf_result) =
  match res with
  | Ok _ ->
    List.iter (fun r ->
        if r.h_write then begin
          let a = int_of_n r.h_addr and q = int_of_n r.h_qty in
          let tbl = (match r.h_kind with HCoils -> Some acc_c | HHolding -> Some acc_r | _ -> None) in
          match tbl with
          | Some t -> for k = a to a + q - 1 do if k < 65536 then Hashtbl.replace t k () done
          | None -> ()
        end) calls
  | _ -> ()

(* read the cells of [cs] / [rs] through [m], store them, return the equal memory *)
let compact (b : backing) (m : rfmem) cs rs : rfmem =
  let cv = Hashtbl.fold (fun k () acc -> (k, m.rf_coils (n_of_int k)) :: acc) cs [] in
  let rv = Hashtbl.fold (fun k () acc -> (k, m.rf_holding (n_of_int k)) :: acc) rs [] in
  List.iter (fun (k, v) -> b.coils.(k) <- v) cv;
  List.iter (fun (k, v) -> b.holding.(k) <- v) rv;
  mem_of b

let runs_of (dirty : (int, unit) Hashtbl.t) (cell : int -> string) (sep : string) : string =
  let d = Bytes.make 65536 '\000' in
  Hashtbl.iter (fun k () -> Bytes.set d k '\001') dirty;
  Scn_e2e.runs d cell sep

let step_line ((res, calls) : rf_result) : string * string =
  let cs = if calls = [] then "-"
    else String.concat "+" (List.map (fun r -> event_str (EvCall r)) calls) in
  (result_str res, cs)

let classify (res : string) : string * bool =
  let pre p = String.length res >= String.length p && String.sub res 0 (String.length p) = p in
  if pre "ok:" then ("ok", false)
  else if pre "err:exc:" || res = "err:params" then (res, false)
  else (res, true)

let e2elong inp impl =
  try
    match inp with
    | _scheme :: e :: w :: reps :: stride :: rest ->
      let reps = int_of_string reps and stride = Int64.of_string ("0x" ^ stride) in
      let cycle = Array.of_list (List.map Scn_e2e.parse_step (Scn_e2e.split_steps rest)) in
      let m = Array.length cycle in
      if m = 0 || reps <= 0 then failwith "e2elong: empty history";
      let total = reps * m in
      let cfg0 = { c_unit = n_of_int 1; c_endian = endian_of e; c_word = word_of w } in
      let sb = fresh_backing () in
      let spec = ref (cfg0, mem_of sb) in
      let dirty_c = Hashtbl.create 256 and dirty_r = Hashtbl.create 256 in   (* whole history *)
      let new_c = Hashtbl.create 64 and new_r = Hashtbl.create 64 in         (* by the current step *)
      let agree = ref true and first_diff = ref (-1) in
      let counts = Hashtbl.create 8 in
      let odd = ref [] and nodd = ref 0 and req = ref 0 and n = ref 0 in
      let blocks = ref [] and buf = Buffer.create 65536 and in_block = ref 0 in
      let close_block () =
        if !in_block > 0 then begin
          blocks := String.sub (Digest.to_hex (Digest.string (Buffer.contents buf))) 0 8 :: !blocks;
          Buffer.clear buf; in_block := 0
        end in
      let do_compact () =
        let (c, sm) = !spec in
        spec := (c, compact sb sm new_c new_r);
        Hashtbl.reset new_c; Hashtbl.reset new_r in
      let near_wrap r = let x = r land 0xffff in x < 32 || x >= 65536 - 32 in
      (* one step of the composition from the specification's state *)
      let composition_agrees policy x ((c1, m1), out) =
        let (c0, m0) = !spec in
        let s = { e2e_cfg = c0; e2e_mem = m0; e2e_txn = n_of_int (!req land 0xffff); e2e_left = [] } in
        let (s', out') = e2e_step policy s x in
        let (c', m') = e2e_view s' in
        let wc = Hashtbl.create 8 and wr = Hashtbl.create 8 in
        written wc wr out; written wc wr out';
        out = out' && c1 = c'
        && Hashtbl.fold (fun k () ok -> ok && m1.rf_coils (n_of_int k) = m'.rf_coils (n_of_int k)) wc true
        && Hashtbl.fold (fun k () ok -> ok && m1.rf_holding (n_of_int k) = m'.rf_holding (n_of_int k)) wr true in
      (try
         for i = 0 to total - 1 do
           let (policy, x0) = cycle.(i mod m) in
           let x = (match x0 with RfCall o -> RfCall (derive i stride o) | y -> y) in
           let (s1, out) = rf_step policy !spec x in
           if i land 15 = 0 || near_wrap !req then begin
             if not (composition_agrees policy x (s1, out)) && !agree then begin
               agree := false; first_diff := i
             end
           end;
           spec := s1;
           written dirty_c dirty_r out; written new_c new_r out;
           let (res, calls) = step_line out in
           req := !req + List.length (snd out);
           Buffer.add_string buf res; Buffer.add_char buf ' ';
           Buffer.add_string buf calls; Buffer.add_char buf '\n';
           incr in_block;
           if !in_block = block then close_block ();
           incr n;
           let (cl, is_odd) = classify res in
           Hashtbl.replace counts cl (1 + (try Hashtbl.find counts cl with Not_found -> 0));
           if is_odd then begin
             if !nodd < 8 then odd := Printf.sprintf "%d:%s|%s" i res calls :: !odd;
             incr nodd;
             if !nodd >= 3 then raise Exit
           end;
           if Hashtbl.length new_c > 0 || Hashtbl.length new_r > 0 then do_compact ()
         done
       with Exit -> ());
      close_block ();
      do_compact ();
      let (_, smem) = !spec in
      let dump (mem : rfmem) =
        Printf.sprintf "M %s %s"
          (runs_of dirty_c (fun a -> if mem.rf_coils (n_of_int a) then "1" else "0") "")
          (runs_of dirty_r (fun a -> hex_of_n (mem.rf_holding (n_of_int a))) ",") in
      let mspec = dump smem in
      let classes = List.sort compare (Hashtbl.fold (fun k v acc -> (k, v) :: acc) counts []) in
      let out =
        Printf.sprintf "n=%d req=%d res=%s odd=%s blocks=%s %s" !n !req
          (String.concat "," (List.map (fun (k, v) -> Printf.sprintf "%s*%d" k v) classes))
          (if !odd = [] then "-" else String.concat "," (List.rev !odd))
          (String.concat "," (List.rev !blocks)) mspec in
      if not !agree then (Printf.sprintf "MODEL-SPEC-MISMATCH step=%d" !first_diff, "0")
      else (out, if impl = out then "1" else "0")
    | _ -> failwith "e2elong: bad input"
  with ex -> ("modeld-error:" ^ Printexc.to_string ex, "0")

let () = Registry.register "e2elong" e2elong
