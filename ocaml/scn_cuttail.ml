(* C13 scenarios under the delivery "the Read that hands out the last bytes
   also reports the end" (Model/TailErr.v; theorems in Properties/C13b.v):
   tailrd   the scripted connection Read by Read against tail_read
   cutsrvt  server session on (frame1 ++ ... ++ frameN)[:k], delivered as the
            given chunks, evaluated by the model over that very delivery and
            cross-checked against the flat model (c13b_server_delivery_irrelevant)
   cutcct   client call on stream[:k], same
   cuttls   real TLS sockets: request[:k] / reply[:k] and close_notify in one
            TCP segment; the expectations of cutreal for a closing peer *)
open Model
open Conv
open Lib_wire

let take = Scn_cut.take
let starts_with = Scn_cut.starts_with
let count_prefixed = Scn_cut.count_prefixed

(* a stalled peer has no end to report with the data *)
let tconn_of send tail chunks =
  { tc_chunks = chunks; tc_tail = (tail = "1") && (match send with Stall -> false | _ -> true) }

let end_tok = function Closed -> "eof" | Reset -> "rst" | Stall -> "dl"

(* tailrd: end tail chunks sizes -> "<bytes>:<error class>" per Read *)
let tailrd inp impl =
  match inp with
  | [send; tail; chunks; sizes] ->
    let e = send_of send in
    let c = ref (tconn_of e tail (chunks_of chunks)) in
    let outs = List.map (fun sz ->
        match tail_read (nat_of_int (int_of_string sz)) !c with
        | RdE (got, fin, c') ->
          c := c';
          hex_of_bytes got ^ ":" ^ (if fin then end_tok e else "n"))
        (String.split_on_char ',' sizes) in
    let m = String.concat "," outs in
    (m, if m = impl then "1" else "0")
  | _ -> failwith "tailrd: bad input"

let has_resp evs = List.exists (function EvResp _ -> true | _ -> false) evs

(* cutsrvt: end tail k frames chunks script -> events *)
let cutsrvt inp impl =
  match inp with
  | [send; tail; k; frames; chunks; script] ->
    let fs = chunks_of frames in
    let stream = List.concat fs in
    let k = int_of_string k in
    let cs = chunks_of chunks in
    if List.concat cs <> take k stream then failwith "cutsrvt: the chunks are not the cut stream";
    let sc = if script = "-" then [||] else Array.of_list (String.split_on_char ',' script) in
    let h = sh_handler (script_of_tokens sc) in
    let e = send_of send in
    let evs = server_run_t h O e (tconn_of e tail cs) in
    let flat = server_run h O e (take k stream) in
    let m = String.concat ";" (List.map event_str evs) in
    (* P, from the property text, on what the implementation did: one handler
       call for every request that was fully received (and is one the server
       dispatches: counted on that frame alone), none for the request the cut
       falls into, at most one response per fully received request, then the close *)
    let rec expected off = function
      | [] -> 0
      | f :: rest ->
        let off' = off + List.length f in
        if off' > k then 0
        else
          let one = server_run h O e f in
          let c = int_of_nat (cut_calls one) in
          if has_resp one then c + expected off' rest else c in
    let want = expected 0 fs in
    let nfull = snd (List.fold_left (fun (off, n) f ->
        let off' = off + List.length f in (off', if off' <= k then n + 1 else n)) (0, 0) fs) in
    let ievs = String.split_on_char ';' impl in
    let p =
      count_prefixed "C:" ievs = want
      && count_prefixed "R:" ievs <= nfull
      && List.nth ievs (List.length ievs - 1) = "X"
      && not (List.mem "PANIC" ievs)
      && (match fs with f :: _ when k < List.length f -> impl = "X" | _ -> true) in
    if evs <> flat then (m ^ " tail-and-flat-model-differ", "0")
    else (m, if p then "1" else "0")
  | _ -> failwith "cutsrvt: bad input"

(* cutcct: fr unit e w end tail k stream chunks op... -> result writes consumed *)
let cutcct inp impl =
  match inp with
  | fr :: unit :: e :: w :: send :: tail :: k :: stream :: chunks :: optoks ->
    let cfg = { c_unit = n_of_hex unit; c_endian = endian_of e; c_word = word_of w } in
    let framing = if fr = "m" then FMbap else FRtu in
    let s = bytes_of_hex stream in
    let k = int_of_string k in
    let cs = chunks_of chunks in
    if List.concat cs <> take k s then failwith "cutcct: the chunks are not the cut stream";
    let o = op_of_tokens optoks in
    let sd = send_of send in
    let r = client_call_t framing cfg N0 o sd (tconn_of sd tail cs) in
    let f = client_call framing cfg N0 o sd (take k s) in
    let agree = r.gcr_res = f.cr_res && r.gcr_writes = f.cr_writes && tc_flat r.gcr_rest = f.cr_rest in
    let consumed = k - List.length (tc_flat r.gcr_rest) in
    let rs = result_str r.gcr_res in
    let m = Printf.sprintf "%s %s %d" rs (csv_of_list hex_of_bytes r.gcr_writes) consumed in
    (* P: a cut reply is never a success; the complete stream gives the model's
       (proved sound and complete) outcome *)
    let p = (match String.split_on_char ' ' impl with
        | [ir; _; _] ->
          if k < List.length s then starts_with ir "err:" else project ir = project rs
        | _ -> false) in
    if not agree then (m ^ " tail-and-flat-model-differ", "0")
    else (m, if p then "1" else "0")
  | _ -> failwith "cutcct: bad input"

(* cuttls: the peer closes (close_notify + FIN) right behind the bytes *)
let cuttls inp impl =
  match inp with
  | ["srv"; _ver; k; frame] -> Scn_cut.cutreal ["srv"; "c"; k; frame] impl
  | "cli" :: _ver :: rest -> Scn_cut.cutreal ("cli" :: "m" :: "c" :: rest) impl
  | _ -> failwith "cuttls: bad input"

let () =
  Registry.register "tailrd" tailrd;
  Registry.register "cutsrvt" cutsrvt;
  Registry.register "cutcct" cutcct;
  Registry.register "cuttls" cuttls
