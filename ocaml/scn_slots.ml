(* scenario "slots": a trace of harness operations on a real server, mapped to
   the labelled steps of Model/Slots.v; the model predicts every observation *)
open Model
open Conv

let is_stat (s : sstate) c (v : cstat) = (s.stat (nat_of_int c)) = v

let snapshot (s : sstate) =
  Printf.sprintf "%d/%d" (if s.started then 1 else 0) (List.length s.clients)

let steps s ls = List.fold_left step s ls

let slots inp impl =
  match inp with
  | maxc :: ops ->
    let s = ref (init (nat_of_int (int_of_string maxc))) in
    let held = ref (-1) in
    let heldend = ref (-1) in
    let out = List.map (fun op ->
        let k = op.[0] in
        let i = if String.length op > 1 then int_of_string (String.sub op 1 (String.length op - 1)) else 0 in
        let c = nat_of_int i in
        match k with
        | 'S' -> s := step !s Start; snapshot !s
        | 'P' ->
          s := step !s Stop;
          (* every session whose socket Stop closed winds down *)
          List.iter (fun c ->
              if (!s).stat c = Serving then s := steps !s [End (c, ClosedByStop); Remove c]) (!s).clients;
          snapshot !s
        | 'C' ->
          if not (!s).listening then "refused"
          else (s := steps !s [Arrive c; Take c; Enrol c]; snapshot !s)
        | 'T' ->
          if not (!s).listening then "refused"
          else (s := steps !s [Arrive c; Take c]; held := i; "taken")
        | 'E' -> s := step !s (Enrol (nat_of_int !held)); snapshot !s
        | 'R' -> if enabled !s (Req c) then (s := step !s (Req c); "resp") else "closed"
        | 'D' -> s := steps !s [End (c, Disconnect); Remove c]; snapshot !s
        | 'X' -> s := step !s (End (c, Disconnect)); heldend := i; snapshot !s
        | 'M' -> s := step !s (Remove (nat_of_int !heldend)); snapshot !s
        | 'B' -> s := steps !s [End (c, ProtocolError); Remove c]; snapshot !s
        | _ -> "?") ops in
    let m = String.concat " " out in
    (m, if m = impl then "1" else "0")
  | _ -> failwith "slots: bad input"

(* scenario "idle": k connections go idle; each must be closed no earlier than
   the timeout after its last activity, the slots are reclaimed and a new
   connection is served. *)
let idle inp impl =
  match inp with
  | [k; _timeout] ->
    let k = int_of_string k in
    let s = ref (step (init (nat_of_int k)) Start) in
    for i = 1 to k do
      let c = nat_of_int i in s := steps !s [Arrive c; Take c; Enrol c; Req c]
    done;
    for i = 1 to k do
      let c = nat_of_int i in s := steps !s [End (c, IdleExpiry); Remove c]
    done;
    let c = nat_of_int (k + 1) in
    s := steps !s [Arrive c; Take c; Enrol c];
    let m = String.concat " " (List.init k (fun _ -> "idle:ok")) ^ " " ^ snapshot !s ^ " "
            ^ (if enabled !s (Req c) then "resp" else "closed") in
    (m, if m = impl then "1" else "0")
  | _ -> failwith "idle: bad input"

let () = Registry.register "slots" slots; Registry.register "idle" idle
