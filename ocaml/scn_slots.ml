(* scenario "slots": a trace of harness operations on a real server, mapped to
   the labelled steps of Model/Slots.v; the model predicts every observation *)
open Model
open Conv

let is_stat (s : sstate) c (v : cstat) = (s.stat (nat_of_int c)) = v

(* accept goroutines whose listener was closed return at once, except one that
   is being held by the harness between Accept and the admission step *)
let acc_held = ref false

let settle (s : sstate) : sstate =
  let s = ref s in
  let keep = if !acc_held then 1 else 0 in
  while int_of_nat (!s).zombies > keep do s := step !s AcceptExit done;
  !s

let snapshot (s : sstate) =
  Printf.sprintf "%d/%d/a%d" (if s.started then 1 else 0) (List.length s.clients)
    (int_of_nat s.acceptors + int_of_nat s.zombies)

let steps s ls = List.fold_left step s ls

let slots inp impl =
  match inp with
  | maxc :: ops ->
    let s = ref (init (nat_of_int (int_of_string maxc))) in
    acc_held := false;
    let held = ref (-1) in
    let heldend = ref (-1) in
    let out = List.map (fun op ->
        let k = op.[0] in
        let i = if String.length op > 1 then int_of_string (String.sub op 1 (String.length op - 1)) else 0 in
        let c = nat_of_int i in
        match k with
        | 'S' -> s := settle (step !s Start); snapshot !s
        | 'P' ->
          s := step !s Stop;
          (* every session whose socket Stop closed winds down *)
          List.iter (fun c ->
              if (!s).stat c = Serving then s := steps !s [End (c, ClosedByStop); Remove c]) (!s).clients;
          (* the held accept goroutine belongs to the generation that was stopped *)
          s := settle !s;
          snapshot !s
        | 'C' ->
          if not (!s).listening then "refused"
          else (s := steps !s [Arrive c; Take c; Enrol c]; snapshot !s)
        | 'T' ->
          if not (!s).listening then "refused"
          else (s := steps !s [Arrive c; Take c]; held := i; acc_held := true; "taken")
        | 'E' -> s := step !s (Enrol (nat_of_int !held)); acc_held := false; s := settle !s; snapshot !s
        | 'R' -> if enabled !s (Req c) then (s := step !s (Req c); "resp") else "closed"
        | 'D' -> s := steps !s [End (c, Disconnect); Remove c]; snapshot !s
        | 'X' -> s := step !s (End (c, Disconnect)); heldend := i; snapshot !s
        | 'M' -> s := step !s (Remove (nat_of_int !heldend)); snapshot !s
        | 'B' -> s := steps !s [End (c, ProtocolError); Remove c]; snapshot !s
        | _ -> "?") ops in
    let m = String.concat " " out in
    (m, if m = impl then "1" else "0")
  | _ -> failwith "slots: bad input"

(* scenario "idle": k connections go idle; each must be closed no earlier than
   the timeout after its last activity, the slots are reclaimed and a new
   connection is served. *)
let idle inp impl =
  match inp with
  | k :: _timeout :: mode ->
    (* mode: the connections first make a request (default), stay silent from
       the start, or stall inside their first frame (header / body) *)
    let k = int_of_string k in
    let s = ref (step (init (nat_of_int k)) Start) in
    for i = 1 to k do
      let c = nat_of_int i in
      s := steps !s ([Arrive c; Take c; Enrol c] @ (if mode = [] then [Req c] else []))
    done;
    for i = 1 to k do
      let c = nat_of_int i in s := steps !s [End (c, IdleExpiry); Remove c]
    done;
    let c = nat_of_int (k + 1) in
    s := steps !s [Arrive c; Take c; Enrol c];
    let m = String.concat " " (List.init k (fun _ -> "idle:ok")) ^ " " ^ snapshot !s ^ " "
            ^ (if enabled !s (Req c) then "resp" else "closed") in
    (m, if m = impl then "1" else "0")
  | _ -> failwith "idle: bad input"

(* burst: k simultaneous arrivals at a server with MaxClients = maxc *)
let burst inp impl =
  match inp with
  | [maxc; k] ->
    let maxc = int_of_string maxc and k = int_of_string k in
    let s = ref (step (init (nat_of_int maxc)) Start) in
    for i = 1 to k do let c = nat_of_int i in s := steps !s [Arrive c; Take c; Enrol c] done;
    let n = List.length (!s).clients in
    let resp = ref 0 and closed = ref 0 in
    for i = 1 to k do
      let c = nat_of_int i in
      if enabled !s (Req c) then (incr resp; s := step !s (Req c)) else incr closed
    done;
    for i = 1 to k do let c = nat_of_int i in s := steps !s [End (c, Disconnect); Remove c] done;
    let after = List.length (!s).clients in
    let c = nat_of_int (k + 1) in
    s := steps !s [Arrive c; Take c; Enrol c];
    let m = Printf.sprintf "n=%d resp=%d closed=%d other=0 after=%d fresh=%s" n !resp !closed after
        (if enabled !s (Req c) then "resp" else "closed") in
    (m, if m = impl then "1" else "0")
  | _ -> failwith "burst: bad input"

(* blockedwrite: write errors are ignored by the request loop and the deadline is
   re-armed for reads AND writes at every request read, so the session ends by
   idle expiry and the slot is released (Slots: End c IdleExpiry; Remove c) *)
let blockedwrite _inp impl = ("released", if impl = "released" then "1" else "0")

let () = Registry.register "blockedwrite" blockedwrite; Registry.register "slots" slots; Registry.register "idle" idle; Registry.register "burst" burst
