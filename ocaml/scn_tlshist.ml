(* C14 scenario with a HISTORY of handshakes on one server instance: tlshist
   (harness/cmd/implrun/c14h_history.go).

   The model is the extracted Model/TlsHistory.v (tls_server_history: NewServer,
   then handleTCPClient for every accepted socket in turn on the server object
   the previous one left behind) run with the crypto/tls oracle of scn_tls.ml.
   crypto/x509 is instantiated from the tokens as what it is: a FUNCTION of the
   pool the handshake runs under and of the certificates presented in that
   handshake (the harness computed x509.Certificate.Verify for every step with
   the configured pool and that step's certificates, without any connection).
   A model whose handshake ran under another pool than the configured one has
   no oracle value to go by and the case fails; so does a case that gives one
   chain two verification results.

   tlshist: keyset pool step...    pool = certificate names joined by "+"
            step = chain;ver;verifies;request   chain = certificate names, leaf
            first, joined by "+" ("none" = no certificate)
            -> per step "<handler invocations>/<response 0|1>", joined by ","

   P is computed from the property text, not from the model: a step is served
   (one invocation, the response) iff the chain it presented verifies against
   the configured client CAs and the version is 1.2 or 1.3; otherwise no
   handler runs and nothing is answered - whatever the other steps were. *)
open Model
open Conv
open Scn_tls

type step = { st_chain : tls_cert list; st_ver : tls_version option; st_verifies : bool; st_req : n list }

let tlshist inp impl =
  match inp with
  | _ks :: pool :: (_ :: _ as toks) ->
    let split c s = String.split_on_char c s in
    (* one identity per certificate name, in order of first appearance *)
    let ids = ref [] in
    let cert_of name =
      let id = (match List.assoc_opt name !ids with
          | Some i -> i
          | None -> let i = 10 + List.length !ids in ids := (name, i) :: !ids; i) in
      { tlc_id = n_of_int id; tlc_exts = [] } in
    let pool = List.map cert_of (split '+' pool) in
    let steps = List.map (fun tok ->
        match split ';' tok with
        | [chain; ver; verifies; req] ->
          { st_chain = (if chain = "none" then [] else List.map cert_of (split '+' chain));
            st_ver = version_of_tok ver; st_verifies = (verifies = "1"); st_req = bytes_of_hex req }
        | _ -> failwith "tlshist: bad step token") toks in
    (* crypto/x509 under the configured pool: chain -> verifies *)
    let table = List.fold_left (fun t s ->
        match List.assoc_opt s.st_chain t with
        | Some v when v <> s.st_verifies -> failwith "tlshist: one pool, one chain, two verification results"
        | Some _ -> t
        | None -> (s.st_chain, s.st_verifies) :: t) [] steps in
    let oracle (pol : tls_policy) (peer : tls_peer) =
      if pol.tpo_pool <> Some pool then failwith "tlshist: a handshake under another pool than the configured one"
      else match List.assoc_opt peer.tpe_chain table with
        | Some verifies -> oracle_srv ~verifies pol peer
        | None -> failwith "tlshist: unknown chain" in
    let conf = { tsv_url = bytes_of_native "tcp+tls://127.0.0.1:0"; tsv_timeout = Z0; tsv_max_clients = N0;
                 tsv_cert = Some own_cert; tsv_cas = Some pool } in
    let attempts = List.map (fun s ->
        { tat_peer = { tpe_speaks_tls = true; tpe_chain = s.st_chain;
                       tpe_versions = (match s.st_ver with Some v -> [v] | None -> []) };
          tat_state = 0; tat_stream = s.st_req }) steps in
    let evss = tls_server_history oracle (recording_handler (ref [])) conf Closed attempts in
    if List.length evss <> List.length steps then failwith "tlshist: the model lost an attempt";
    let m = String.concat "," (List.map2 (fun s evs ->
        let calls = List.length (List.filter (function EvCall _ -> true | _ -> false) evs) in
        let fc = nth_opt s.st_req 7 in
        let resp = List.exists (function EvResp f -> fc <> None && nth_opt f 7 = fc | _ -> false) evs in
        Printf.sprintf "%d/%d" calls (if resp then 1 else 0)) steps evss) in
    (* the property, from its text *)
    let want = String.concat "," (List.map (fun s ->
        if s.st_chain <> [] && s.st_verifies && (s.st_ver = Some TLS12 || s.st_ver = Some TLS13)
        then "1/1" else "0/0") steps) in
    (m, if impl = want then "1" else "0")
  | _ -> failwith "tlshist: bad input"

let () = Registry.register "tlshist" tlshist
