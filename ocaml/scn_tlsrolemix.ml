(* C15 scenario tlsrolemix (harness/cmd/implrun/c94_c15_rolemix.go): ONE
   process with TWO real servers side by side, a tcp+tls server and a plain
   tcp server, and an ordered history of sessions on them - TLS sessions whose
   client certificates carry a role / another role / no role in one of the
   ways the property lists, and plain TCP sessions - following each other
   and overlapping.

   tlsrolemix: keyset family sess...
               sess = kind(t|p);member;role-exts;ver;verifies;leaf-exts;life;early;late
               (t: a TLS client of the tcp+tls server; member and role-exts
               tell the harness which certificate to build, leaf-exts is the
               extension list of the presented leaf as crypto/x509 parses it,
               verifies = x509.Certificate.Verify of that leaf against the
               server's pool; p: a plain client of the plain tcp server.
               life = the number of later sessions the session stays open
               for; early / late = the requests sent right after the connect /
               right before the close, joined by ".", "-" = none)
               -> per session "<role>+<role>.../<responses>" (one role per
               handler invocation, hex, "-" = empty) | "none/0", joined by ","

   Model output: the extracted Model/RoleMix.v mix_serve_sessions (the two
   server objects of the process, the connections in order, each with the
   index of the server object that accepted it; the crypto/tls oracle of
   scn_tls.ml instantiated per session from its verifies token) gives the role
   of every session; the sessions of each server object that are served are
   then run through the extracted Model/Sessions.v grun with the harness'
   handler (one run per server object: each has its own handler object), the
   inputs in the order the harness produces them.

   P is computed from the property text, not from the model: a plain TCP
   session is served and EVERY invocation of it carries the empty role; a TLS
   session that verifies at TLS 1.2+ is served and EVERY invocation of it
   carries the role STATED by the leaf presented on that session
   (Scn_role.spec_role: exactly one role extension whose value is the DER
   UTF8String of a well-formed string; empty otherwise); any other session has
   no invocation - whatever sessions came before, are open at the same time or
   come later. *)
open Model
open Conv
open Scn_tls

let split c s = String.split_on_char c s

type msess = { ms_tls : bool; ms_ver : tls_version option; ms_verifies : bool; ms_exts : (bool * n list) list;
               ms_life : int; ms_early : n list list; ms_late : n list list }

let parse_reqs tok = if tok = "-" || tok = "" then [] else List.map bytes_of_hex (split '.' tok)

let parse_msess tok =
  match split ';' tok with
  | [kind; _member; _roleexts; ver; verifies; exts; life; early; late] ->
    let tls = (match kind with "t" -> true | "p" -> false | _ -> failwith "tlsrolemix: bad kind") in
    { ms_tls = tls; ms_ver = version_of_tok ver; ms_verifies = (verifies = "1");
      ms_exts = (if tls then list_of_csv parse_ext exts else []);
      ms_life = int_of_string life; ms_early = parse_reqs early; ms_late = parse_reqs late }
  | _ -> failwith "tlsrolemix: bad session token"

let tlsrolemix inp impl =
  match inp with
  | _ks :: _family :: (_ :: _ as toks) ->
    let sess = List.map parse_msess toks in
    let n = List.length sess in
    (* the server objects of the process: 0 = tcp+tls, 1 = plain tcp *)
    let conf_tls = { tsv_url = bytes_of_native "tcp+tls://127.0.0.1:0"; tsv_timeout = Z0;
                     tsv_max_clients = n_of_int (n + 2); tsv_cert = Some own_cert; tsv_cas = Some [ca_cert] } in
    let conf_plain = { tsv_url = bytes_of_native "tcp://127.0.0.1:0"; tsv_timeout = Z0;
                       tsv_max_clients = n_of_int (n + 2); tsv_cert = None; tsv_cas = None } in
    (match tls_new_server conf_tls, tls_new_server conf_plain with
     | CfgOk e0, CfgOk e1 when e0.se_transport = TTcpOverTls && e1.se_transport = TTcp -> ()
     | _ -> failwith "tlsrolemix: the model does not build a tcp+tls and a tcp server");
    let srvs = [conf_tls; conf_plain] in
    (* the peer of TLS session i presents one certificate, known to the oracle by its id 100+i;
       the peer of a plain session speaks no TLS and has no certificate *)
    let conns = List.mapi (fun i s ->
        if s.ms_tls then
          (nat_of_int 0, { tpe_speaks_tls = true;
                           tpe_chain = [{ tlc_id = n_of_int (100 + i); tlc_exts = s.ms_exts }];
                           tpe_versions = (match s.ms_ver with Some v -> [v] | None -> []) })
        else (nat_of_int 1, { tpe_speaks_tls = false; tpe_chain = []; tpe_versions = [] })) sess in
    if List.length (mix_conns_of (nat_of_int 0) conns) + List.length (mix_conns_of (nat_of_int 1) conns) <> n then
      failwith "tlsrolemix: a connection on no server";
    (* crypto/tls for the whole run: whether a chain verifies is the token of the session that presents it *)
    let oracle (pol : tls_policy) (peer : tls_peer) =
      let verifies = (match peer.tpe_chain with
          | leaf :: _ -> (List.nth sess (int_of_n leaf.tlc_id - 100)).ms_verifies
          | [] -> false) in
      oracle_srv ~verifies pol peer in
    (* one process, its server objects, the connections in order *)
    let roles = mix_serve_sessions oracle srvs conns in
    let live = List.concat (List.mapi (fun i (s, r) -> match r with Some ro -> [(i, s, ro)] | None -> [])
                              (List.combine sess roles)) in
    let is_live i = List.exists (fun (j, _, _) -> j = i) live in
    let role_of_id id = (match List.find_opt (fun (i, _, _) -> i + 1 = id) live with
        | Some (_, _, ro) -> hex_of_bytes ro
        | None -> "unknown-role-id") in
    (* the inputs in the order of the harness: before session i connects, the sessions whose life is over
       send their late requests and end, the oldest first; then session i sends its early requests; at the
       end the sessions still open, in order. A session that is refused has no input at all. *)
    let arr = Array.of_list sess in
    let closed = Array.make n false in
    let ins = ref [] in
    let push x = ins := x :: !ins in
    let shut j =
      if not closed.(j) then begin
        closed.(j) <- true;
        if is_live j then begin
          List.iter (fun r -> push (j, GData r)) arr.(j).ms_late;
          push (j, GEnd)
        end
      end in
    for i = 0 to n - 1 do
      for j = 0 to i - 1 do
        if (not closed.(j)) && j + arr.(j).ms_life < i then shut j
      done;
      if is_live i then List.iter (fun r -> push (i, GData r)) arr.(i).ms_early
      else closed.(i) <- true
    done;
    for j = 0 to n - 1 do shut j done;
    let ins = List.rev !ins in
    (* handleTransport of the served sessions of one server object: session i has address id i and role id i+1 *)
    let run_server tls =
      let mine = List.filter (fun (_, s, _) -> s.ms_tls = tls) live in
      let g = ginit 0 (List.map (fun (i, _, _) -> (n_of_int i, (n_of_int i, n_of_int (i + 1)))) mine) in
      let my_ins = List.filter_map (fun (i, x) ->
          if arr.(i).ms_tls = tls then Some (n_of_int i, x) else None) ins in
      snd (grun Scn_tls2.zero_handler g my_ins) in
    let outs_tls = run_server true and outs_plain = run_server false in
    let per i =
      if not (is_live i) then "none/0"
      else begin
        let evs = gproj (n_of_int i) (if arr.(i).ms_tls then outs_tls else outs_plain) in
        let rs = List.filter_map (function
            | GEvCall (r, _) ->
              let s = role_of_id (int_of_n r.g_role) in
              Some (if int_of_n r.g_conn_addr = i then s else "?" ^ s)
            | _ -> None) evs in
        let resps = List.length (List.filter (function GEvResp _ -> true | _ -> false) evs) in
        Printf.sprintf "%s/%d" (if rs = [] then "none" else String.concat "+" rs) resps
      end in
    let m = String.concat "," (List.init n per) in
    (* the property, from its text *)
    let modern v = (v = Some TLS12 || v = Some TLS13) in
    let served ro k = Printf.sprintf "%s/%d" (String.concat "+" (List.init k (fun _ -> ro))) k in
    let want = String.concat "," (List.map (fun s ->
        let k = List.length s.ms_early + List.length s.ms_late in
        if k = 0 then failwith "tlsrolemix: a session without requests";
        if not s.ms_tls then served "-" k
        else if s.ms_verifies && modern s.ms_ver then served (hex_of_bytes (Scn_role.spec_role s.ms_exts)) k
        else "none/0") sess) in
    (m, if impl = want then "1" else "0")
  | _ -> failwith "tlsrolemix: bad input"

let () = Registry.register "tlsrolemix" tlsrolemix
