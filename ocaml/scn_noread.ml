(* scenario of C07 (every client call completes within the timeout, whatever
   the peer does): a peer that stops READING.
   noread  scheme speed timeout_ms room answered ncalls reply op...
             -> "<c1>;<c2>;... bound=<ns> sent=<bytes> durs=<us>,..."
   ncalls calls of the same operation in a row on one connection; the peer
   reads and answers the first `answered` requests at once with the valid
   reply "<fc>:<payload>", then it neither reads nor sends any more and the
   link takes only `room` more bytes. The model side runs the extracted
   tm_session_w (Model/TimedWrite.v) from t = 0 on a fresh transport
   (lastActivity far in the past, transaction counter 0): call i is
   (op, reads = i < answered, the reply at offset 0 | nothing).
   Model output per call: predicted outcome / "intime" (the predicted return
   is within tm_call_bound of the start of the call, Properties/C07b.v
   c07b_session_bound) / "w" when the request Write runs into the full link,
   else "s"; then the bound and the bytes the link took after the peer died.
   Loopback schemes (room = "?" kernel buffers filling up, "full" already
   full): room is not known to anybody; by c07b_dead_peer_mbap/_rtu the
   outcome of every call against the dead peer is the request-timed-out error
   for EVERY room, so the model is run with room 0, the w flag is "?" on both
   sides, `sent` is echoed and the durations are held against the bound.
   P: outcomes, verdicts and bound are the model's, and no call lasted longer
   than the model predicts for it (scripted: the predicted return instant;
   loopback: the bound) plus the scheduling slack (400 ms). *)
open Model
open Conv
open Lib_wire

let slack_us = 400_000

let contains s sub =
  let n = String.length s and m = String.length sub in
  let rec go i = i + m <= n && (String.sub s i m = sub || go (i + 1)) in
  go 0

let noread inp impl =
  match inp with
  | scheme :: speed :: tmo :: room :: answered :: ncalls :: reply :: optoks ->
    let rtu = contains scheme "rtu" in
    let loopback = String.length scheme > 2 && String.sub scheme 0 2 = "l:" in
    let speed = int_of_string speed and tmo_ms = int_of_string tmo in
    let answered = int_of_string answered and ncalls = int_of_string ncalls in
    let k = { tm_timeout = z_of_int (tmo_ms * 1_000_000);
              tm_t1 = (if rtu then char_time (z_of_int speed) else Z0);
              tm_t35 = (if rtu then t35 (z_of_int speed) else Z0);
              tm_gran = Z0 } in
    let fr = if rtu then FRtu else FMbap in
    let cfg = { c_unit = n_of_int 1; c_endian = BigE; c_word = HighFirst } in
    let o = op_of_tokens optoks in
    let reply_frame i =
      match String.split_on_char ':' reply with
      | [fc; pl] ->
        let p = { p_unit = n_of_int 1; p_fc = n_of_hex fc; p_payload = bytes_of_hex pl } in
        if rtu then assemble_rtu p else assemble_mbap (n_of_int (i + 1)) p
      | _ -> [] in
    let calls = List.init ncalls (fun i ->
        if i < answered then ((o, true), List.map (fun b -> (Z0, b)) (reply_frame i))
        else ((o, false), [])) in
    let room0 = if loopback then 0 else int_of_string room in
    let la = z_of_int (-1_000_000_000_000_000) in
    let steps = tm_session_w fr k cfg la N0 (z_of_int room0) Z0 [] calls in
    let bound = int_of_z (tm_call_bound fr k cfg o Z0) in
    let pred = List.map (fun st -> int_of_z st.tws_finish - int_of_z st.tws_start) steps in
    let model_ok = List.for_all (fun d -> d <= bound) pred in
    let call_str st d =
      Printf.sprintf "%s/%s/%s" (result_str st.tws_res)
        (if d <= bound then "intime" else "model-late")
        (if loopback then "?" else if st.tws_blocked then "w" else "s") in
    let cs = String.concat ";" (List.map2 call_str steps pred) in
    let final_room = List.fold_left (fun _ st -> int_of_z st.tws_room) room0 steps in
    let parts = String.split_on_char ' ' impl in
    let impl_sent = match parts with [_; _; s; _] -> s | _ -> "sent=?" in
    let sent = if loopback then impl_sent else Printf.sprintf "sent=%d" (room0 - final_room) in
    let m3 = Printf.sprintf "%s bound=%d %s" cs bound sent in
    (match parts with
     | [a; b; c; d] when String.length d > 5 && String.sub d 0 5 = "durs=" ->
       let impl3 = a ^ " " ^ b ^ " " ^ c in
       let ds = String.split_on_char ',' (String.sub d 5 (String.length d - 5)) in
       let limit p = ((if loopback then bound else p) / 1000) + slack_us in
       let rec durs_ok ds ps = match ds, ps with
         | [], _ -> true
         | x :: ds', p :: ps' ->
           (match int_of_string_opt x with Some us -> us <= limit p && durs_ok ds' ps' | None -> false)
         | _ :: _, [] -> false in
       if durs_ok ds pred then (m3 ^ " " ^ d, if m3 = impl3 && model_ok then "1" else "0")
       else (m3 ^ " durs<=" ^ String.concat "," (List.map (fun p -> string_of_int (limit p)) pred), "0")
     | _ -> (m3, "0"))
  | _ -> failwith "noread: bad input"

let () = Registry.register "noread" noread
