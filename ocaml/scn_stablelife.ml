(* C18, scenario stablelife: histories of calls on one really opened client
   (tcp, tcp+tls, rtuovertcp, udp, rtuoverudp) with Close() and Open() among
   the request calls; every returned slice is re-read after every later step.
   Expected observable = the extracted Model/HeapLife.v (hl_step), theorems
   c18c_results_stable_across_close_open / c18c_event_memory_untouched /
   c18c_call_on_closed_handle in Properties/C18c.v: the model runs the same
   history on its heap, re-reads the earlier result slices (spare capacity
   included) after every event, and says what each call returns and transmits
   (a call on a closed handle: an error, nothing transmitted; after Open the
   transaction counter starts again).
   The device of the harness is scripted here as the harness runs it: it
   answers the request with the reply PDU of the step, echoing the transaction
   id, as long as it has not ended the connection itself. *)
open Model
open Conv
open Lib_wire

let gr = hp_gr_double

let starts_with s p = String.length s >= String.length p && String.sub s 0 (String.length p) = p

let split_steps (toks : string list) : string list list =
  let gs = ref [] and cur = ref [] in
  let flush () = if !cur <> [] then (gs := List.rev !cur :: !gs; cur := []) in
  List.iter (fun t -> if t = ";" then flush () else cur := t :: !cur) toks;
  flush ();
  List.rev !gs

(* the result of a request call as the property sees it (c18_life.go lifeProject) *)
let life_project (r : string) : string =
  if starts_with r "ok:" || starts_with r "err:exc:" || r = "err:params" || r = "err:timeout" || r = "panic" then r
  else if starts_with r "err:" then "err"
  else r

(* stablelife: scheme unit e w { ; step }+  ->  steps | verdict *)
let stablelife inp impl =
  match inp with
  | scheme :: unit :: e :: w :: rest ->
    let framing = if starts_with scheme "rtu" then FRtu else FMbap in
    let cfg = { c_unit = n_of_hex unit; c_endian = endian_of e; c_word = word_of w } in
    let c = ref (hl_init []) in
    let results : (int, hslice) Hashtbl.t = Hashtbl.create 16 in
    let kept = ref [] in
    let verdict = ref "stable" in
    let outs = ref [] in
    let n = ref 0 in
    let whole s = { s with hs_len = s.hs_cap } in
    (* every earlier result, spare capacity included, must read as when it was returned *)
    let recheck () =
      List.iter (fun (k, s, snap) ->
          if !verdict = "stable" && h_read (whole s) (!c).hl_heap <> snap then
            verdict := Printf.sprintf "changed:%d:%d" !n k) (List.rev !kept) in
    let event ev = let (c', r) = hl_step gr framing !c ev in c := c'; r in
    List.iter (fun step ->
        (match step with
         | "call" :: kind :: fc :: payload :: optoks ->
           let o = (match optoks with
               | [name; a; arg] when Scn_alias.is_slice_write name ->
                 let s =
                   if String.length arg > 0 && arg.[0] = '@' then
                     Hashtbl.find results (int_of_string (String.sub arg 1 (String.length arg - 1)))
                   else begin
                     (* the caller builds the argument: a new array *)
                     let cells = Scn_alias.cells_of_tok (Scn_alias.kind_of_write name) arg in
                     let id = List.length (!c).hl_heap in
                     ignore (event (HlAlloc cells));
                     Scn_alias.mk_slice id 0 (List.length cells) (List.length cells)
                   end in
                 Scn_alias.hp_op_of name (n_of_hex a) s
               | _ -> HpOther (op_of_tokens optoks)) in
           let reply = { p_unit = cfg.c_unit; p_fc = n_of_hex fc; p_payload = bytes_of_hex payload } in
           (* the device: gone once it has ended the connection; otherwise it
              answers the request (transaction id = counter + 1) or closes *)
           let there = (!c).hl_end = Stall in
           let (e, chunk) = (match kind with
               | "v" when there ->
                 (Stall, (match framing with
                      | FMbap -> assemble_mbap (u16 (N.add (!c).hl_txn n1)) reply
                      | FRtu -> assemble_rtu reply))
               | "c" -> (Closed, [])
               | _ -> (Stall, [])) in
           (match event (HlCall (cfg, o, e, chunk)) with
            | Some r ->
              let rs = life_project (Scn_alias.hres_str (!c).hl_heap r.hr_res) in
              let ws = if starts_with rs "ok:" || starts_with rs "err:exc:"
                then csv_of_list hex_of_bytes r.hr_writes else "-" in
              outs := (rs ^ " " ^ ws) :: !outs;
              recheck ();
              (match r.hr_res with
               | Ok (HvBools s) | Ok (HvNums s) | Ok (HvBytes s) ->
                 Hashtbl.replace results !n s;
                 kept := (!n, s, h_read (whole s) (!c).hl_heap) :: !kept
               | _ -> ())
            | None -> failwith "stablelife: call without result")
         | ["close"] -> ignore (event HlClose); outs := "close" :: !outs; recheck ()
         | ["open"] -> ignore (event HlOpen); outs := "open:ok" :: !outs; recheck ()
         | _ -> failwith "stablelife: bad step");
        incr n) (split_steps rest);
    let msteps = List.rev !outs in
    let m = String.concat ";" msteps ^ "|" ^ !verdict in
    (* P, on what the implementation did: no earlier result was ever altered
       - by a request call, by Close or by Open -, every call returned what
       the model says and the device received the model's frames (a kept
       result passed to a write after Close/Open sends the same bytes) *)
    let p = (match String.split_on_char '|' impl with
        | [isteps; iverdict] ->
          iverdict = "stable" && String.split_on_char ';' isteps = msteps
        | _ -> false) in
    (m, if p then "1" else "0")
  | _ -> failwith "stablelife: bad input"

let () = Registry.register "stablelife" stablelife
