(* scenario of C19 for good replies that reach the client slowly
   silenceslow  link speed n plan
        -> "ok n=<n> mingap=<ns>" | "err:..." | "hang"
   plan = len:pause_us,len:pause_us,...  (how the fake device hands every
   reply to the line: header first and the rest after a pause, byte by byte
   with gaps, in segments). The implementation reports the smallest silence
   it kept between the hand-over of the LAST segment of a reply and the start
   of its next request (measured from outside; the measurement can only
   over-estimate).
   P: slow_silence_okb of Model/TimingPieces.v (extracted): the send-time
   machine is run on the plan of the case (request of 8 bytes, nothing but the
   line taking time) and the measured silence must not be shorter than the
   one the machine keeps, which is t35(speed) for every plan (theorems
   c19c_plan_gap, c19c_silence_okb, c19c_measurement_sound).
   Model output: the implementation's line when P holds, else the bound. *)
open Model
open Conv

let parse_plan s =
  List.map (fun t ->
      match String.split_on_char ':' t with
      | [l; p] -> (z_of_int (int_of_string l), z_of_int (1000 * int_of_string p))
      | _ -> failwith "silenceslow: bad plan")
    (String.split_on_char ',' s)

let silenceslow inp impl =
  match inp with
  | [_link; speed; n; plan] ->
    let rate = z_of_int (int_of_string speed) in
    let segs = parse_plan plan in
    let req_len = z_of_int 8 in
    let need = int_of_z (plan_gap stamp_now rate req_len segs) in
    let expect = Printf.sprintf "ok n=%s mingap>=%d" n need in
    let prefix = "mingap=" in
    (match String.split_on_char ' ' impl with
     | ["ok"; ns; g] when ns = "n=" ^ n && String.length g > String.length prefix
                          && String.sub g 0 (String.length prefix) = prefix ->
       (match int_of_string_opt (String.sub g (String.length prefix) (String.length g - String.length prefix)) with
        | Some gap when slow_silence_okb rate req_len segs (z_of_int gap) -> (impl, "1")
        | _ -> (expect, "0"))
     | _ -> (expect, "0"))
  | _ -> failwith "silenceslow: bad input"

let () = Registry.register "silenceslow" silenceslow
