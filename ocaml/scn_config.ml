(* C16 scenarios: newclient, newserver, setenc, wiring, srvwiring.
   Model output comes from the extracted Model/Config.v. The property
   predicate P is evaluated on the implementation's output against the
   documented tables of Spec/ConfigSpec.v (extracted: spec_client_eff,
   spec_server_eff, spec_wiring, needs_creds, server_scheme); the reading of
   the URL (<scheme>://<rest>, first "://", the six exact names) is done here
   natively on OCaml strings, independently of the model's split_url. *)
open Model
open Conv

(* signed hex numbers (time.Duration is an int64) *)
let z_of_tok s =
  if s <> "" && s.[0] = '-' then
    (match n_of_hex (String.sub s 1 (String.length s - 1)) with N0 -> Z0 | Npos p -> Zneg p)
  else (match n_of_hex s with N0 -> Z0 | Npos p -> Zpos p)

let tok_of_z = function
  | Z0 -> "0"
  | Zpos p -> hex_of_n (Npos p)
  | Zneg p -> "-" ^ hex_of_n (Npos p)

let native_of_bytes l =
  let b = Buffer.create 16 in
  List.iter (fun x -> Buffer.add_char b (Char.chr (int_of_n x))) l;
  Buffer.contents b

let bytes_of_native s = List.init (String.length s) (fun i -> n_of_int (Char.code s.[i]))

(* first occurrence of "://" *)
let native_split u =
  let n = String.length u in
  let rec go i =
    if i + 3 > n then None
    else if String.sub u i 3 = "://" then Some (String.sub u 0 i, String.sub u (i + 3) (n - i - 3))
    else go (i + 1) in
  go 0

let scheme_of_native = function
  | "tcp" -> Some STcp
  | "tcp+tls" -> Some STcpTls
  | "udp" -> Some SUdp
  | "rtu" -> Some SRtu
  | "rtuovertcp" -> Some SRtuOverTcp
  | "rtuoverudp" -> Some SRtuOverUdp
  | _ -> None

(* the documented reading of a URL *)
let read_url (u : n list) =
  match native_split (native_of_bytes u) with
  | Some (a, b) -> (match scheme_of_native a with Some s -> Some (s, bytes_of_native b) | None -> None)
  | None -> None

let client_eff_str e =
  String.concat " "
    [hex_of_bytes e.ce_url; hex_of_n e.ce_speed; hex_of_n e.ce_data_bits; hex_of_n e.ce_parity;
     hex_of_n e.ce_stop_bits; tok_of_z e.ce_timeout; hex_of_n e.ce_unit; hex_of_n e.ce_endianness;
     hex_of_n e.ce_word_order; hex_of_n (tkind_code e.ce_transport)]

let server_eff_str e =
  String.concat " "
    [hex_of_bytes e.se_url; tok_of_z e.se_timeout; hex_of_n e.se_max_clients;
     hex_of_n (tkind_code e.se_transport)]

let res_str f = function
  | CfgOk e -> f e
  | CfgErr EConfig -> "err:config"
  | CfgErr EUnexpectedParams -> "err:params"

let newclient inp impl =
  match inp with
  | [url; speed; data; parity; stop; timeout; cert; cas] ->
    let c = { cc_url = bytes_of_hex url; cc_speed = n_of_hex speed; cc_data_bits = n_of_hex data;
              cc_parity = n_of_hex parity; cc_stop_bits = n_of_hex stop; cc_timeout = z_of_tok timeout;
              cc_has_cert = (cert = "1"); cc_has_cas = (cas = "1") } in
    let m = res_str client_eff_str (new_client c) in
    let want = (match read_url c.cc_url with
        | Some (s, rest) when (not (needs_creds s)) || (c.cc_has_cert && c.cc_has_cas) ->
          client_eff_str (spec_client_eff s rest c)
        | _ -> "err:config") in
    (m, if impl = want then "1" else "0")
  | _ -> failwith "newclient: bad input"

let newserver inp impl =
  match inp with
  | [url; timeout; maxc; cert; cas] ->
    let c = { sc_url = bytes_of_hex url; sc_timeout = z_of_tok timeout; sc_max_clients = n_of_hex maxc;
              sc_has_cert = (cert = "1"); sc_has_cas = (cas = "1") } in
    let m = res_str server_eff_str (new_server c) in
    let want = (match read_url c.sc_url with
        | Some (s, rest) when server_scheme s && rest <> []
                              && ((not (needs_creds s)) || (c.sc_has_cert && c.sc_has_cas)) ->
          server_eff_str (spec_server_eff s rest c)
        | _ -> "err:config") in
    (m, if impl = want then "1" else "0")
  | _ -> failwith "newserver: bad input"

(* the frame WriteUint32(0, 0x11223344) puts on a fresh MBAP connection
   (transaction 1, unit 1) when the four value bytes are `value` *)
let probe_value = n_of_hex "11223344"
let probe_frame value =
  assemble_mbap (n_of_int 1)
    { p_unit = n_of_int 1; p_fc = n_of_int 16;
      p_payload = List.map n_of_int [0; 0; 0; 2; 4] @ value }

let sel_endian n = if int_of_n n = 2 then LittleE else BigE
let sel_word n = if int_of_n n = 2 then LowFirst else HighFirst

let setenc inp impl =
  match inp with
  | [e; w] ->
    let (st, err) = set_encoding enc_init (n_of_hex e) (n_of_hex w) in
    let cls = (match err with None -> "nil" | Some EUnexpectedParams -> "params" | Some EConfig -> "config") in
    let frame = probe_frame (u32_to_bytes (sel_endian st.es_endianness) (sel_word st.es_word_order) probe_value) in
    let m = cls ^ " " ^ hex_of_bytes frame in
    (* P: refused unless both selectors are 1 or 2 (tokens are canonical hex);
       the write that follows uses the requested encoding on success and the
       initial one (big endian, high word first) on refusal: reference layout *)
    let valid t = (t = "1" || t = "2") in
    let ok = valid e && valid w in
    let se = if ok && e = "2" then LittleE else BigE in
    let sw = if ok && w = "2" then LowFirst else HighFirst in
    let want = (if ok then "nil" else "params") ^ " "
               ^ hex_of_bytes (probe_frame (spec_bytes (nat_of_int 2) se sw probe_value)) in
    (m, if impl = want then "1" else "0")
  | _ -> failwith "setenc: bad input"

let sock_str = function KTcp -> "tcp" | KTls -> "tls" | KUdp -> "udp" | KSerial -> "serial"
let frame_str = function KMbap -> "mbap" | KRtu -> "rtu"
let wiring_str (s, f) = sock_str s ^ " " ^ frame_str f

(* wiring: input = scheme name (hex); the harness opens a real client for
   <scheme>://<loopback peer> and reports what the peer saw *)
let wiring_scn inp impl =
  match inp with
  | [name] ->
    let url = bytes_of_hex name @ bytes_of_native "://peer" in
    let c = { cc_url = url; cc_speed = N0; cc_data_bits = N0; cc_parity = N0; cc_stop_bits = N0;
              cc_timeout = Z0; cc_has_cert = true; cc_has_cas = true } in
    let m = (match new_client c with
        | CfgOk e -> wiring_str (wiring e.ce_transport)
        | CfgErr _ -> "err:config") in
    let want = (match scheme_of_native (native_of_bytes (bytes_of_hex name)) with
        | Some s -> wiring_str (spec_wiring s)
        | None -> "err:config") in
    (m, if impl = want then "1" else "0")
  | _ -> failwith "wiring: bad input"

(* srvwiring: the same for a started server *)
let srvwiring_scn inp impl =
  match inp with
  | [name] ->
    let url = bytes_of_hex name @ bytes_of_native "://peer" in
    let c = { sc_url = url; sc_timeout = Z0; sc_max_clients = N0; sc_has_cert = true; sc_has_cas = true } in
    let m = (match new_server c with
        | CfgOk e -> (match server_wiring e.se_transport with Some w -> wiring_str w | None -> "err:config")
        | CfgErr _ -> "err:config") in
    let want = (match scheme_of_native (native_of_bytes (bytes_of_hex name)) with
        | Some s when server_scheme s -> wiring_str (spec_wiring s)
        | _ -> "err:config") in
    (m, if impl = want then "1" else "0")
  | _ -> failwith "srvwiring: bad input"

let () =
  Registry.register "newclient" newclient;
  Registry.register "newserver" newserver;
  Registry.register "setenc" setenc;
  Registry.register "wiring" wiring_scn;
  Registry.register "srvwiring" srvwiring_scn
