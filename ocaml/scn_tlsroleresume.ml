(* C15 scenarios tlsroleresume, tlsroleresumectl (harness/cmd/implrun/c92_c15_resume.go):
   ONE real tcp+tls server, an ordered sequence of TLS sessions made by
   clients that keep a TLS session cache (one per client identity), so that a
   later session of a client offers to resume its earlier one; other clients
   (other certificate, own cache) connect in between.

   tlsroleresume: keyset family mode(seq|keep) sess...
               sess = member;role-exts;ver;verifies;leaf-exts;cache;req.req...
               (as scenario tlsroleseq, plus cache = c<k>: the session cache
               of the client of this session, "-" = a client without cache)
               -> per session "<role>+<role>.../<responses>" (one role per
               handler invocation, hex, "-" = empty) | "none/0", joined by ","
   tlsroleresumectl: keyset ver -> "ok"   (harness self-test: the harness
               client resumes against a crypto/tls server that accepts its own
               tickets, and that server finds the leaf of the client in
               PeerCertificates[0] of the resumed sessions too)

   Model output: the extracted Model/RoleResume.v tls_serve_cached (one server
   object, the connections in order, the caches of the clients) is run with
   TWO crypto/tls oracles built from the verifies tokens: one that resumes
   whenever the client offers a session of the version it asks for (restoring
   the peer certificates sealed in the ticket), and tls_never_resumes of the
   full-handshake oracle of scn_tls.ml. Whether the real server resumes is
   not an input of the case: both oracles must hand the same roles to the
   handlers (theorem c15_resume_role_independent of Properties/C15c.v; checked
   here on every case), and those roles are the model output. The sessions
   that are served are then run through the extracted Model/Sessions.v grun
   with the harness' handler, exactly as scenario tlsroleseq does.

   P is computed from the property text, not from the model: a session that
   verifies at TLS 1.2+ is served and EVERY invocation of it carries the role
   STATED by the leaf of the client of that session (Scn_role.spec_role),
   resumed or not; any other session has no invocation. *)
open Model
open Conv
open Scn_tls

let split c s = String.split_on_char c s

type rsess = { rs_ident : string; rs_cache : string; rs_ver : tls_version option; rs_verifies : bool;
               rs_exts : (bool * n list) list; rs_reqs : n list list }

let parse_rsess tok =
  match split ';' tok with
  | [member; roleexts; ver; verifies; exts; cache; reqs] ->
    if cache <> "-" && not (String.length cache >= 2 && cache.[0] = 'c') then failwith "tlsroleresume: bad cache token";
    { rs_ident = member ^ ";" ^ roleexts ^ ";" ^ exts; rs_cache = cache;
      rs_ver = version_of_tok ver; rs_verifies = (verifies = "1");
      rs_exts = list_of_csv parse_ext exts; rs_reqs = List.map bytes_of_hex (split '.' reqs) }
  | _ -> failwith "tlsroleresume: bad session token"

let index_of x l =
  let rec go i = function [] -> failwith "tlsroleresume: not found" | y :: t -> if x = y then i else go (i + 1) t in
  go 0 l

(* crypto/tls with resumption: the server accepts every ticket offered for the version asked for *)
let oracle_resuming full (pol : tls_policy) (peer : tls_peer) (offer : tls_session option) : tls_rsession option =
  match offer, peer.tpe_versions with
  | Some t, [v] when peer.tpe_speaks_tls && t.tss_version = v && tls_version_geb v pol.tpo_min_version ->
    Some { trs_resumed = true; trs_state = { tss_version = v; tss_peer_certs = t.tss_peer_certs } }
  | _ -> tls_never_resumes full pol peer offer

let tlsroleresume inp impl =
  match inp with
  | _ks :: _family :: mode :: (_ :: _ as toks) ->
    if mode <> "seq" && mode <> "keep" then failwith "tlsroleresume: bad mode";
    let sess = List.map parse_rsess toks in
    let n = List.length sess in
    (* one cache per client identity (the premise per_identity of the theorems) *)
    List.iter (fun a -> List.iter (fun b ->
        if a.rs_cache <> "-" && a.rs_cache = b.rs_cache && a.rs_ident <> b.rs_ident then
          failwith "tlsroleresume: a cache shared between identities") sess) sess;
    let conf = { tsv_url = bytes_of_native "tcp+tls://127.0.0.1:0"; tsv_timeout = Z0;
                 tsv_max_clients = n_of_int (n + 2); tsv_cert = Some own_cert; tsv_cas = Some [ca_cert] } in
    (match tls_new_server conf with
     | CfgOk eff when eff.se_transport = TTcpOverTls -> ()
     | _ -> failwith "tlsroleresume: the model builds no tcp+tls server");
    (* a certificate is known to the oracle by the id 100 + its first session *)
    let idents = List.map (fun s -> s.rs_ident) sess in
    let cert_id s = 100 + index_of s.rs_ident idents in
    let cache_ids = List.sort_uniq compare (List.filter (fun c -> c <> "-") (List.map (fun s -> s.rs_cache) sess)) in
    let conns = List.map (fun s ->
        { trc_cache = (if s.rs_cache = "-" then None else Some (n_of_int (index_of s.rs_cache cache_ids)));
          trc_peer = { tpe_speaks_tls = true;
                       tpe_chain = [{ tlc_id = n_of_int (cert_id s); tlc_exts = s.rs_exts }];
                       tpe_versions = (match s.rs_ver with Some v -> [v] | None -> []) } }) sess in
    (* crypto/tls, full handshake: whether a chain verifies is the token of the sessions that present it *)
    let full (pol : tls_policy) (peer : tls_peer) =
      let verifies = (match peer.tpe_chain with
          | leaf :: _ -> (List.nth sess (int_of_n leaf.tlc_id - 100)).rs_verifies
          | [] -> false) in
      oracle_srv ~verifies pol peer in
    (* one server object, the connections in order, empty caches at the start: with a TLS stack that
       resumes whenever it can and with one that never does *)
    let served_r = tls_serve_cached (oracle_resuming full) conf [] conns in
    let served_f = tls_serve_cached (tls_never_resumes full) conf [] conns in
    let roles = tls_roles_only served_r in
    if roles <> tls_roles_only served_f then failwith "tlsroleresume: the role depends on resumption in the model";
    if List.exists (function Some (true, _) -> true | _ -> false) served_f then
      failwith "tlsroleresume: the oracle that never resumes resumed";
    let live = List.concat (List.mapi (fun i (s, r) -> match r with Some ro -> [(i, s, ro)] | None -> [])
                              (List.combine sess roles)) in
    let role_of_id id = (match List.find_opt (fun (i, _, _) -> i + 1 = id) live with
        | Some (_, _, ro) -> hex_of_bytes ro
        | None -> "unknown-role-id") in
    (* handleTransport of the served sessions: session i has address id i and role id i+1; every
       session sends its requests and reads the responses before the next one connects (both modes) *)
    let g = ginit 0 (List.map (fun (i, _, _) -> (n_of_int i, (n_of_int i, n_of_int (i + 1)))) live) in
    let data (i, s, _) = List.map (fun r -> (n_of_int i, GData r)) s.rs_reqs in
    let fin (i, _, _) = [(n_of_int i, GEnd)] in
    let ins = (if mode = "seq" then List.concat_map (fun x -> data x @ fin x) live
               else List.concat_map data live @ List.concat_map fin live) in
    let (_, outs) = grun Scn_tls2.zero_handler g ins in
    let per i =
      if not (List.exists (fun (j, _, _) -> j = i) live) then "none/0"
      else begin
        let evs = gproj (n_of_int i) outs in
        let rs = List.filter_map (function
            | GEvCall (r, _) ->
              let s = role_of_id (int_of_n r.g_role) in
              Some (if int_of_n r.g_conn_addr = i then s else "?" ^ s)
            | _ -> None) evs in
        let resps = List.length (List.filter (function GEvResp _ -> true | _ -> false) evs) in
        Printf.sprintf "%s/%d" (if rs = [] then "none" else String.concat "+" rs) resps
      end in
    let m = String.concat "," (List.init n per) in
    (* the property, from its text *)
    let modern v = (v = Some TLS12 || v = Some TLS13) in
    let want = String.concat "," (List.map (fun s ->
        if s.rs_verifies && modern s.rs_ver then
          let ro = hex_of_bytes (Scn_role.spec_role s.rs_exts) in
          Printf.sprintf "%s/%d" (String.concat "+" (List.map (fun _ -> ro) s.rs_reqs)) (List.length s.rs_reqs)
        else "none/0") sess) in
    (m, if impl = want then "1" else "0")
  | _ -> failwith "tlsroleresume: bad input"

let tlsroleresumectl inp impl =
  match inp with
  | [_ks; ver] when ver = "12" || ver = "13" -> ("ok", if impl = "ok" then "1" else "0")
  | _ -> failwith "tlsroleresumectl: bad input"

let () =
  Registry.register "tlsroleresume" tlsroleresume;
  Registry.register "tlsroleresumectl" tlsroleresumectl
