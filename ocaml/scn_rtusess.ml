(* scenario of C06 (recovery in time, Properties/C06c.v)
   rtusess  unit speed head tail valid2 d_us op...  ->  "<result-1> <result-2>"
   Two calls of the same operation on one RTU link with real deadlines. The
   head of a corrupted reply is there when the client reads; the rest of it
   (tail) arrives d_us microseconds after the client took the head off the
   line, i.e. while it keeps the line quiet before flushing (d_us = -1: only
   after call 1 has returned, i.e. after the flush); the valid reply to call 2
   is sent when request 2 has been written.
   Model side: the extracted tm_rtu_session (Model/TimedSession.v) on the
   nominal schedule: head at 1 us, t3 = the instant the timed model rejects
   the head, tail at t3 + d (or 1 us after call 1 returns), reply 2 one
   microsecond after the tail / after call 1 returns.
   P: d >= 0 (hypotheses of c06_timed_recovery): call 1 fails, call 2 succeeds;
   d = -1: the property demands nothing (control for the model of a late tail). *)
open Model
open Conv
open Lib_wire

let is_ok r = String.length r >= 3 && String.sub r 0 3 = "ok:"

let rtusess inp impl =
  match inp with
  | unit :: speed :: head :: tail :: valid2 :: d :: optoks ->
    let speed = int_of_string speed and d = int_of_string d in
    let k = { tm_timeout = z_of_int 1_000_000_000; tm_t1 = char_time (z_of_int speed);
              tm_t35 = t35 (z_of_int speed); tm_gran = Z0 } in
    let cfg = { c_unit = n_of_hex unit; c_endian = BigE; c_word = HighFirst } in
    let o = op_of_tokens optoks in
    let at t bytes = let tz = z_of_int t in List.map (fun b -> (tz, b)) bytes in
    let la = z_of_int (-1_000_000_000_000_000) in
    let hd = at 1000 (bytes_of_hex head) in
    (* pass 1: when does the model reject the head and return from call 1 *)
    let t4a = match tm_rtu_session k cfg None la Z0 hd [(o, Z0)] with
      | [(_, t)] -> int_of_z t
      | _ -> failwith "rtusess: model" in
    let t3 = t4a - 256 * int_of_z k.tm_t1 - 500_000 in
    let t_tail = if d >= 0 then t3 + d * 1000 else t4a + 1000 in
    let t_r2 = (max t4a t_tail) + 1000 in
    let stream = hd @ at t_tail (bytes_of_hex tail) @ at t_r2 (bytes_of_hex valid2) in
    (match tm_rtu_session k cfg None la Z0 stream [(o, Z0); (o, Z0)] with
     | [(r1, _); (r2, _)] ->
       let m = result_str r1 ^ " " ^ result_str r2 in
       let p = match String.split_on_char ' ' impl with
         | [i1; i2] -> if d < 0 then "1" else if (not (is_ok i1)) && is_ok i2 then "1" else "0"
         | _ -> "0" in
       (m, p)
     | _ -> failwith "rtusess: model")
  | _ -> failwith "rtusess: bad input"

let () = Registry.register "rtusess" rtusess
